/-
  Line-protocol driver of the evaluation model (C17, int side of C19) and of the tuner's parameter
  vector model (C19 b).  One request line in, exactly one answer line out.  Core-only.

  Requests
    cs shipped                      use `eval.Coefficients` (the initial state)
    cs <n>*                         use the coefficient set whose leaves, in declaration order and
                                    row-major per field, are the given integers          → `ok <count>`
    e <dump>                        <dump> as printed by implutil.Dump / Drv/Board.lean `dump`
                                    → `<valid><wf><oneKing> <evalInt cs b> <evalInt cs (mirror b)> | <dump of mirror b without history>`
    q <dump>                        → exact-arithmetic evaluation with the TABLE as sigmoid, white-relative,
                                    as a reduced fraction `num/den`, then `noInt16Wrap cs (input b)` as 0/1
    ec                              EngineCoeffs(): the leaves of the converted shipped struct
    tv <targets> | <leaves>         ToVector of the struct with the given leaves   → the vector
    sv <targets> | <leaves> | <vec> SetVector                                      → `panic` | the leaves of the result
    tp <targets> | <leaves>         TunedParams                                    → `k:field:i.j` …
  <targets> is a comma separated list of names (`-` = empty list).

  Float side of C19 (a) (Model/F64.lean, Model/EvalF.lean); bit patterns are hexadecimal `math.Float64bits`:
    sigm <lo> <bits>*               Go's float sigmoid for the integers lo, lo+1, …: stored as the model's `σF`
                                    → `ok <near> <far> <bad>`: how many are within 1/2 of the integer table
                                    (exact rational comparison: `TableNear`), how many are not, how many are
                                    not finite non-negative-signed doubles
    expv <lo> <arg>:<exp>*          Go's `-0.2*(float64(n)-50.0)` and `math.Exp` of it for n = lo, lo+1, …
                                    → `ok <agree> <inf> | <first disagreeing n or ->`: the model's `expArg n` has
                                    the bits <arg>, and `sigmoidWith` (math.Exp := the given value) has the bits
                                    stored for n by `sigm`; <inf> counts exp = +Inf, where the stored sigmoid
                                    must be +0
    f <dump>                        → `<bits of evalF> <bits of tunerEvalF> <ok> <valid>` with the current coefficient
                                    set converted by `float64(·)` and the stored sigmoid; <valid> = `Board.valid`
    fop <op> <bits> <bits>          op ∈ add sub mul div → `<bits> <ok>` (unit test of the arithmetic model)
    fint <n>                        → bits of `float64(n)`
-/
import ChessVerif.Model.Eval
import ChessVerif.Model.TunerVector
import ChessVerif.Model.Abs
import ChessVerif.Model.EvalF

open ChessVerif ChessVerif.Eval

structure DS where
  cs : CoeffSet Int := shipped
  csQ : CoeffSet Rat := shippedQ
  /-- the coefficient set as `float64(·)` of every leaf (what EngineCoeffs / the harness hands to Eval[float64]). -/
  csF : CoeffSet IEEE.F64 := shippedF
  /-- Go's float sigmoid on the int16 arguments (index n + 32768), as handed over by `sigm`. -/
  sig : Array IEEE.F64 := Array.replicate 65536 ⟨0, false, false⟩

def hexVal (c : Char) : Nat :=
  if '0' ≤ c ∧ c ≤ '9' then c.toNat - 48
  else if 'a' ≤ c ∧ c ≤ 'f' then c.toNat - 87
  else if 'A' ≤ c ∧ c ≤ 'F' then c.toNat - 55 else 0

def parseHex (s : String) : Nat := s.foldl (fun acc c => acc * 16 + hexVal c) 0

def hx (b : BB) : String := String.ofList (Nat.toDigits 16 b.toNat)

def parseInt (s : String) : Int := s.toInt?.getD 0

/-- parse `sq ps cs stm ep castles fifty fullMoves [hashes]`. -/
def parseDump (ws : List String) : Option Board :=
  match ws with
  | sq :: ps :: cs :: stm :: ep :: castles :: fifty :: full :: _ =>
    let sqA := (sq.toList.map fun c => Piece.ofIx (c.toNat - 48)).toArray
    let psA := ((ps.splitOn ",").map fun h => BitVec.ofNat 64 (parseHex h)).toArray
    let csA := ((cs.splitOn ",").map fun h => BitVec.ofNat 64 (parseHex h)).toArray
    if sqA.size != 64 || psA.size != 7 || csA.size != 2 then none else
    some { sq := Vector.ofFn fun (i : Fin 64) => sqA.getD i.val Piece.none,
           pieces := Vector.ofFn fun (i : Fin 7) => psA.getD i.val 0,
           colors := Vector.ofFn fun (i : Fin 2) => csA.getD i.val 0,
           hashes := [],
           fullMoves := parseInt full,
           stm := Color.ofIx stm.toNat!,
           ep := ep.toNat!,
           castles := BitVec.ofNat 4 castles.toNat!,
           fifty := parseInt fifty }
  | _ => none

def dumpLite (b : Board) : String :=
  let sq := String.join ((List.range 64).map fun s => toString (b.pieceAt s).toNat)
  let ps := String.intercalate "," ((List.range 7).map fun i => hx (b.pieces.getD i 0))
  let cs := String.intercalate "," ((List.range 2).map fun i => hx (b.colors.getD i 0))
  s!"{sq} {ps} {cs} {b.stm.toNat} {b.ep} {b.castles.toNat} {b.fifty} {b.fullMoves}"

def bstr (x : Bool) : String := if x then "1" else "0"

/-- split the flat leaves of the whole struct into the per-field lists of the regenerated shape. -/
def splitFields (shape : List (String × List Nat)) (flat : List Int) : List (String × List Int) :=
  (shape.foldl (fun (acc : List (String × List Int) × List Int) (n, dims) =>
    let sz := dims.foldl (· * ·) 1
    (acc.1 ++ [(n, acc.2.take sz)], acc.2.drop sz)) ([], flat)).1

def shapeSize (shape : List (String × List Nat)) : Nat :=
  shape.foldl (fun acc (_, dims) => acc + dims.foldl (· * ·) 1) 0

def parseInts (ws : List String) : List Int := (ws.filter (· ≠ "")).map parseInt

def parseTargets (s : String) : List String := if s == "-" then [] else s.splitOn ","

def repOf (flat : List Int) : TunerVector.Rep Int :=
  let fs := splitFields Gen.Eval.shape flat
  TunerVector.ofShape 0 Gen.Eval.shape fun n => (fs.lookup n).getD []

def repLeaves (e : TunerVector.Rep Int) : List Int := e.flatMap fun (_, t) => t.flatten

def intsStr (l : List Int) : String := " ".intercalate (l.map toString)

def ratStr (q : Rat) : String := s!"{q.num}/{q.den}"

/-- the table sigmoid extended to rationals (only integer arguments occur with integer coefficients). -/
def sigmaTable (x : Rat) : Rat := (sigmTable x.floor : Rat)

/-! ### float side -/

def hexN (n : Nat) : String := String.ofList (Nat.toDigits 16 n)

/-- the stored sigmoid as a function of the real argument (integers of the int16 range; 0 elsewhere). -/
def sigOf (tbl : Array IEEE.F64) (q : Rat) : Rat :=
  if q.den = 1 ∧ -32768 ≤ q.num ∧ q.num ≤ 32767 then (tbl.getD (q.num + 32768).toNat default).val else 0

/-- `TableNear` at `n` for the double `x`, in exact rationals. -/
def nearTable (n : Int) (x : IEEE.F64) : Bool :=
  let d := x.val - (sigmTable n : Rat)
  decide (-(1 / 2 : Rat) ≤ d) && decide (d ≤ 1 / 2)

def stepF (st : DS) (ws : List String) : Option (DS × String) :=
  match ws with
  | "sigm" :: lo :: rest =>
    let lo := parseInt lo
    let (st', _, near, far, bad) := rest.foldl (fun (acc : DS × Int × Nat × Nat × Nat) w =>
      let (st, n, near, far, bad) := acc
      let x := IEEE.F64.ofBits (parseHex w)
      let st := if -32768 ≤ n ∧ n ≤ 32767 then { st with sig := st.sig.set! (n + 32768).toNat x } else st
      if !x.ok || x.sign then (st, n + 1, near, far, bad + 1)
      else if nearTable n x then (st, n + 1, near + 1, far, bad) else (st, n + 1, near, far + 1, bad))
      (st, lo, 0, 0, 0)
    some (st', s!"ok {near} {far} {bad}")
  | "expv" :: lo :: rest =>
    let lo := parseInt lo
    let (_, agree, inf, firstBad) := rest.foldl (fun (acc : Int × Nat × Nat × Option Int) w =>
      let (n, agree, inf, firstBad) := acc
      let stored := st.sig.getD (n + 32768).toNat default
      match w.splitOn ":" with
      | [a, e] =>
        let argOK := IEEE.F64.toBits (expArg n) == parseHex a && (expArg n).ok
        let ebits := parseHex e
        if ebits == 0x7ff0000000000000 then
          -- math.Exp overflowed to +Inf: 1 + Inf = Inf, 600 / Inf = +0
          if argOK && stored.ok && IEEE.F64.toBits stored == 0 then (n + 1, agree + 1, inf + 1, firstBad)
          else (n + 1, agree, inf + 1, firstBad.orElse fun _ => some n)
        else
          let ex := IEEE.F64.ofBits ebits
          let s := sigmoidWith (fun _ => ex) (IEEE.F64.ofInt n)
          if argOK && ex.ok && s.ok && stored.ok && IEEE.F64.toBits s == IEEE.F64.toBits stored then (n + 1, agree + 1, inf, firstBad)
          else (n + 1, agree, inf, firstBad.orElse fun _ => some n)
      | _ => (n + 1, agree, inf, firstBad.orElse fun _ => some n))
      (lo, 0, 0, none)
    some (st, s!"ok {agree} {inf} | " ++ (match firstBad with | some n => toString n | none => "-"))
  | "f" :: rest =>
    match parseDump rest with
    | none => some (st, "err")
    | some b =>
      let σ := sigOf st.sig
      let e := evalF σ st.csF b
      let t := tunerEvalF σ st.csF b
      some (st, s!"{hexN (IEEE.F64.toBits e)} {hexN (IEEE.F64.toBits t)} {bstr (e.ok && t.ok)} {bstr b.valid}")
  | ["fop", op, a, b] =>
    let x := IEEE.F64.ofBits (parseHex a)
    let y := IEEE.F64.ofBits (parseHex b)
    let r := match op with
      | "add" => IEEE.F64.add x y
      | "sub" => IEEE.F64.sub x y
      | "mul" => IEEE.F64.mul x y
      | _ => IEEE.F64.div x y
    some (st, s!"{hexN (IEEE.F64.toBits r)} {bstr r.ok}")
  | ["fint", n] => some (st, hexN (IEEE.F64.toBits (IEEE.F64.ofInt (parseInt n))))
  | _ => none

def step (st : DS) (line : String) : DS × String :=
  match stepF st (line.splitOn " ") with
  | some r => r
  | none =>
  match line.splitOn " " with
  | ["cs", "shipped"] => ({ st with cs := shipped, csQ := shippedQ, csF := shippedF }, "ok shipped")
  | "cs" :: rest =>
    let flat := parseInts rest
    if flat.length != shapeSize Gen.Eval.shape then (st, s!"err {flat.length}") else
    let fs := splitFields Gen.Eval.shape flat
    ({ st with cs := CoeffSet.ofFlat id (lookupField fs), csQ := CoeffSet.ofFlat (fun n => (n : Rat)) (lookupField fs),
               csF := CoeffSet.ofFlat IEEE.F64.ofInt (lookupField fs) },
     s!"ok {flat.length}")
  | "e" :: rest =>
    match parseDump rest with
    | none => (st, "err")
    | some b =>
      let i := input b
      let oneKing := isPow2 (i.kingBB .white) && isPow2 (i.kingBB .black)
      let m := mirror b
      (st, s!"{bstr b.valid}{bstr b.wf}{bstr oneKing} {evalInt st.cs b} {evalInt st.cs m} | {dumpLite m}")
  | "q" :: rest =>
    match parseDump rest with
    | none => (st, "err")
    | some b => (st, ratStr (tunerEvalQ sigmaTable st.csQ b) ++ " " ++ bstr (noInt16Wrap st.cs (input b)))
  | ["ec"] => (st, intsStr (repLeaves (TunerVector.engineCoeffs id TunerVector.shippedRep)))
  | "tv" :: t :: "|" :: rest =>
    (st, intsStr (TunerVector.toVector (repOf (parseInts rest)) (parseTargets t)))
  | "sv" :: t :: "|" :: rest =>
    let parts := (" ".intercalate rest).splitOn " | "
    match parts with
    | [leaves, vec] =>
      match TunerVector.setVector (repOf (parseInts (leaves.splitOn " "))) (parseInts (vec.splitOn " ")) (parseTargets t) with
      | none => (st, "panic")
      | some e => (st, intsStr (repLeaves e))
    | _ => (st, "err")
  | "tp" :: t :: "|" :: rest =>
    let e := repOf (parseInts rest)
    (st, " ".intercalate ((TunerVector.tunedParams e (parseTargets t)).map fun (k, (fi, p)) =>
      s!"{k}:{fi}:{".".intercalate (p.map toString)}"))
  | _ => (st, "bad-op")

partial def loop (h out : IO.FS.Stream) (st : DS) : IO Unit := do
  let line ← h.getLine
  if line.isEmpty then return ()
  let (st', ans) := step st (String.ofList (line.toList.filter fun c => c != '\n' && c != '\r'))
  out.putStrLn ans
  out.flush
  loop h out st'

def main : IO Unit := do loop (← IO.getStdin) (← IO.getStdout) {}
