/-
  Line-protocol driver of the evaluation model (C17, int side of C19) and of the tuner's parameter
  vector model (C19 b).  One request line in, exactly one answer line out.  Core-only.

  Requests
    cs shipped                      use `eval.Coefficients` (the initial state)
    cs <n>*                         use the coefficient set whose leaves, in declaration order and
                                    row-major per field, are the given integers          → `ok <count>`
    e <dump>                        <dump> as printed by implutil.Dump / Drv/Board.lean `dump`
                                    → `<valid><wf><oneKing> <evalInt cs b> <evalInt cs (mirror b)> | <dump of mirror b without history>`
    q <dump>                        → exact-arithmetic evaluation with the TABLE as sigmoid, white-relative,
                                    as a reduced fraction `num/den`, then `noInt16Wrap cs (input b)` as 0/1
    ec                              EngineCoeffs(): the leaves of the converted shipped struct
    tv <targets> | <leaves>         ToVector of the struct with the given leaves   → the vector
    sv <targets> | <leaves> | <vec> SetVector                                      → `panic` | the leaves of the result
    tp <targets> | <leaves>         TunedParams                                    → `k:field:i.j` …
  <targets> is a comma separated list of names (`-` = empty list).
-/
import ChessVerif.Model.Eval
import ChessVerif.Model.TunerVector
import ChessVerif.Model.Abs

open ChessVerif ChessVerif.Eval

structure DS where
  cs : CoeffSet Int := shipped
  csQ : CoeffSet Rat := shippedQ

def hexVal (c : Char) : Nat :=
  if '0' ≤ c ∧ c ≤ '9' then c.toNat - 48
  else if 'a' ≤ c ∧ c ≤ 'f' then c.toNat - 87
  else if 'A' ≤ c ∧ c ≤ 'F' then c.toNat - 55 else 0

def parseHex (s : String) : Nat := s.foldl (fun acc c => acc * 16 + hexVal c) 0

def hx (b : BB) : String := String.ofList (Nat.toDigits 16 b.toNat)

def parseInt (s : String) : Int := s.toInt?.getD 0

/-- parse `sq ps cs stm ep castles fifty fullMoves [hashes]`. -/
def parseDump (ws : List String) : Option Board :=
  match ws with
  | sq :: ps :: cs :: stm :: ep :: castles :: fifty :: full :: _ =>
    let sqA := (sq.toList.map fun c => Piece.ofIx (c.toNat - 48)).toArray
    let psA := ((ps.splitOn ",").map fun h => BitVec.ofNat 64 (parseHex h)).toArray
    let csA := ((cs.splitOn ",").map fun h => BitVec.ofNat 64 (parseHex h)).toArray
    if sqA.size != 64 || psA.size != 7 || csA.size != 2 then none else
    some { sq := Vector.ofFn fun (i : Fin 64) => sqA.getD i.val Piece.none,
           pieces := Vector.ofFn fun (i : Fin 7) => psA.getD i.val 0,
           colors := Vector.ofFn fun (i : Fin 2) => csA.getD i.val 0,
           hashes := [],
           fullMoves := parseInt full,
           stm := Color.ofIx stm.toNat!,
           ep := ep.toNat!,
           castles := BitVec.ofNat 4 castles.toNat!,
           fifty := parseInt fifty }
  | _ => none

def dumpLite (b : Board) : String :=
  let sq := String.join ((List.range 64).map fun s => toString (b.pieceAt s).toNat)
  let ps := String.intercalate "," ((List.range 7).map fun i => hx (b.pieces.getD i 0))
  let cs := String.intercalate "," ((List.range 2).map fun i => hx (b.colors.getD i 0))
  s!"{sq} {ps} {cs} {b.stm.toNat} {b.ep} {b.castles.toNat} {b.fifty} {b.fullMoves}"

def bstr (x : Bool) : String := if x then "1" else "0"

/-- split the flat leaves of the whole struct into the per-field lists of the regenerated shape. -/
def splitFields (shape : List (String × List Nat)) (flat : List Int) : List (String × List Int) :=
  (shape.foldl (fun (acc : List (String × List Int) × List Int) (n, dims) =>
    let sz := dims.foldl (· * ·) 1
    (acc.1 ++ [(n, acc.2.take sz)], acc.2.drop sz)) ([], flat)).1

def shapeSize (shape : List (String × List Nat)) : Nat :=
  shape.foldl (fun acc (_, dims) => acc + dims.foldl (· * ·) 1) 0

def parseInts (ws : List String) : List Int := (ws.filter (· ≠ "")).map parseInt

def parseTargets (s : String) : List String := if s == "-" then [] else s.splitOn ","

def repOf (flat : List Int) : TunerVector.Rep Int :=
  let fs := splitFields Gen.Eval.shape flat
  TunerVector.ofShape 0 Gen.Eval.shape fun n => (fs.lookup n).getD []

def repLeaves (e : TunerVector.Rep Int) : List Int := e.flatMap fun (_, t) => t.flatten

def intsStr (l : List Int) : String := " ".intercalate (l.map toString)

def ratStr (q : Rat) : String := s!"{q.num}/{q.den}"

/-- the table sigmoid extended to rationals (only integer arguments occur with integer coefficients). -/
def sigmaTable (x : Rat) : Rat := (sigmTable x.floor : Rat)

def step (st : DS) (line : String) : DS × String :=
  match line.splitOn " " with
  | ["cs", "shipped"] => ({ cs := shipped, csQ := shippedQ }, "ok shipped")
  | "cs" :: rest =>
    let flat := parseInts rest
    if flat.length != shapeSize Gen.Eval.shape then (st, s!"err {flat.length}") else
    let fs := splitFields Gen.Eval.shape flat
    ({ cs := CoeffSet.ofFlat id (lookupField fs), csQ := CoeffSet.ofFlat (fun n => (n : Rat)) (lookupField fs) },
     s!"ok {flat.length}")
  | "e" :: rest =>
    match parseDump rest with
    | none => (st, "err")
    | some b =>
      let i := input b
      let oneKing := isPow2 (i.kingBB .white) && isPow2 (i.kingBB .black)
      let m := mirror b
      (st, s!"{bstr b.valid}{bstr b.wf}{bstr oneKing} {evalInt st.cs b} {evalInt st.cs m} | {dumpLite m}")
  | "q" :: rest =>
    match parseDump rest with
    | none => (st, "err")
    | some b => (st, ratStr (tunerEvalQ sigmaTable st.csQ b) ++ " " ++ bstr (noInt16Wrap st.cs (input b)))
  | ["ec"] => (st, intsStr (repLeaves (TunerVector.engineCoeffs id TunerVector.shippedRep)))
  | "tv" :: t :: "|" :: rest =>
    (st, intsStr (TunerVector.toVector (repOf (parseInts rest)) (parseTargets t)))
  | "sv" :: t :: "|" :: rest =>
    let parts := (" ".intercalate rest).splitOn " | "
    match parts with
    | [leaves, vec] =>
      match TunerVector.setVector (repOf (parseInts (leaves.splitOn " "))) (parseInts (vec.splitOn " ")) (parseTargets t) with
      | none => (st, "panic")
      | some e => (st, intsStr (repLeaves e))
    | _ => (st, "err")
  | "tp" :: t :: "|" :: rest =>
    let e := repOf (parseInts rest)
    (st, " ".intercalate ((TunerVector.tunedParams e (parseTargets t)).map fun (k, (fi, p)) =>
      s!"{k}:{fi}:{".".intercalate (p.map toString)}"))
  | _ => (st, "bad-op")

partial def loop (h out : IO.FS.Stream) (st : DS) : IO Unit := do
  let line ← h.getLine
  if line.isEmpty then return ()
  let (st', ans) := step st (String.ofList (line.toList.filter fun c => c != '\n' && c != '\r'))
  out.putStrLn ans
  out.flush
  loop h out st'

def main : IO Unit := do loop (← IO.getStdin) (← IO.getStdout) {}
