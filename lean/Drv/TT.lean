/-
  Line-protocol driver of the transposition-table model (C15).  One request line → one answer line.

    new <size>                               → ok <buckets> | panic          (New / Resize+Clear)
    clr                                      → ok
    ins <hash> <gen> <d> <ply> <mv> <val> <typ>  → ok
    get <hash> <ply>                         → miss | hit <depth> <type> <value(ply)> <move>
    dump <ix>                                → <pKeys> then 4 × <move> <value> <packed> <gen> | panic
    m64 <w> <key>                            → -1 | <lane>
    bix <hash> <n>                           → <bucket index>
    qual <curr> <g> <d>                      → <quality>
    sync                                     → ok   (and flushes the output)

  All numbers are decimal.  Output is flushed on `sync`, `new` and on any malformed line.
-/
import ChessVerif.Model.Transp

open ChessVerif ChessVerif.Model.Transp

def natArg (s : String) : Option Nat := s.toNat?
def intArg (s : String) : Option Int := s.toInt?

def showEntry (e : Entry) : String :=
  s!"{e.move.toNat} {e.value} {e.packed.toNat} {e.gen.toNat}"

def answer (t : Table) (ws : List String) : Option (Table × String) :=
  match ws with
  | ["new", size] => do
    let size ← natArg size
    if validSize size then
      let t' := Table.new size
      pure (t', s!"ok {t'.size}")
    else pure (t, "panic")
  | ["clr"] => pure (t.clear, "ok")
  | ["ins", hash, gen, d, ply, mv, val, typ] => do
    let hash ← natArg hash; let gen ← natArg gen; let d ← intArg d; let ply ← intArg ply
    let mv ← natArg mv; let val ← intArg val; let typ ← natArg typ
    if t.size = 0 then pure (t, "panic") else
    pure (t.insert (BitVec.ofNat 64 hash) (BitVec.ofNat 8 gen) d ply (BitVec.ofNat 16 mv) val
      (BitVec.ofNat 8 typ), "ok")
  | ["get", hash, ply] => do
    let hash ← natArg hash; let ply ← intArg ply
    if t.size = 0 then pure (t, "panic") else
    match t.lookUp (BitVec.ofNat 64 hash) with
    | none => pure (t, "miss")
    | some e => pure (t, s!"hit {e.depth} {e.typ.toNat} {e.valueAt ply} {e.move.toNat}")
  | ["dump", ix] => do
    let ix ← natArg ix
    match t[ix]? with
    | none => pure (t, "panic")
    | some b =>
      pure (t, s!"{b.pKeys.toNat} {showEntry b.e0} {showEntry b.e1} {showEntry b.e2} {showEntry b.e3}")
  | ["m64", w, key] => do
    let w ← natArg w; let key ← natArg key
    match match64 (BitVec.ofNat 64 w) (BitVec.ofNat 16 key) with
    | none => pure (t, "-1")
    | some i => pure (t, toString i)
  | ["bix", hash, n] => do
    let hash ← natArg hash; let n ← natArg n
    pure (t, toString (bucketIx (BitVec.ofNat 64 hash) n))
  | ["qual", curr, g, d] => do
    let curr ← natArg curr; let g ← natArg g; let d ← intArg d
    pure (t, toString (quality (BitVec.ofNat 8 curr) (BitVec.ofNat 8 g) d))
  | ["sync"] => pure (t, "ok")
  | _ => none

partial def loop (h : IO.FS.Stream) (out : IO.FS.Stream) (t : Table) : IO Unit := do
  let line ← h.getLine
  if line.isEmpty then
    out.flush
    return ()
  let ws := (line.trimAscii.toString.splitOn " ").filter (· ≠ "")
  match answer t ws with
  | some (t', a) =>
    out.putStrLn a
    match ws with
    | "sync" :: _ => out.flush
    | "new" :: _ => out.flush
    | _ => pure ()
    loop h out t'
  | none =>
    out.putStrLn "err"
    out.flush
    loop h out t

def main : IO Unit := do loop (← IO.getStdin) (← IO.getStdout) (Table.new 32)
