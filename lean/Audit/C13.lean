import ChessVerif.Props.C13
import ChessVerif.Props.C13skeleton
#print axioms ChessVerif.Uci.no_panic
#print axioms ChessVerif.Uci.one_readyok_per_isready
#print axioms ChessVerif.Uci.one_readyok_per_isready_final
#print axioms ChessVerif.Uci.one_bestmove_per_go
#print axioms ChessVerif.Uci.one_bestmove_per_go_final
#print axioms ChessVerif.Uci.bestmove_after_infos
#print axioms ChessVerif.Uci.no_torn_lines
#print axioms ChessVerif.Uci.deadlock_free
#print axioms ChessVerif.Uci.deadlock_free_internal
#print axioms ChessVerif.Uci.quit_or_eof_terminates
#print axioms ChessVerif.Uci.Skeleton.run_matches
#print axioms ChessVerif.Uci.Skeleton.readInput_matches
#print axioms ChessVerif.Uci.Skeleton.handleInput_matches
#print axioms ChessVerif.Uci.Skeleton.writeOutput_matches
#print axioms ChessVerif.Uci.Skeleton.outputWrite_matches
#print axioms ChessVerif.Uci.Skeleton.handleCommand_matches
#print axioms ChessVerif.Uci.Skeleton.handleGo_matches
#print axioms ChessVerif.Uci.Skeleton.handleEval_matches
#print axioms ChessVerif.Uci.Skeleton.handlePerft_matches
#print axioms ChessVerif.Uci.Skeleton.skeleton_matches
#print axioms ChessVerif.Uci.Skeleton.touching_matches
#print axioms ChessVerif.Uci.Skeleton.outputBufDepth_matches
#print axioms ChessVerif.Uci.Skeleton.goroutine_counts
