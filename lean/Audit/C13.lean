import ChessVerif.Props.C13
#print axioms ChessVerif.Uci.no_panic
#print axioms ChessVerif.Uci.one_readyok_per_isready
#print axioms ChessVerif.Uci.one_readyok_per_isready_final
#print axioms ChessVerif.Uci.one_bestmove_per_go
#print axioms ChessVerif.Uci.one_bestmove_per_go_final
#print axioms ChessVerif.Uci.bestmove_after_infos
#print axioms ChessVerif.Uci.no_torn_lines
#print axioms ChessVerif.Uci.deadlock_free
#print axioms ChessVerif.Uci.deadlock_free_internal
#print axioms ChessVerif.Uci.quit_or_eof_terminates
