import ChessVerif.Props.C07
import ChessVerif.Props.C07real
import ChessVerif.Model.SearchReal
#print axioms ChessVerif.Props.C07.bufIx_rows_disjoint
#print axioms ChessVerif.Props.C07.pv_flat_refines_rows
#print axioms ChessVerif.Props.C07.reported_pv_legal
#print axioms ChessVerif.Props.C07.bestmove_is_head_of_last_nonempty_pv
#print axioms ChessVerif.Props.C07.ponder_legal_after_bestmove
#print axioms ChessVerif.Props.C07.depths_increase_nodes_monotone
#print axioms ChessVerif.Props.C07real.legalLine_rules
#print axioms ChessVerif.Props.C07real.reported_pv_legal_real
#print axioms ChessVerif.Props.C07real.reported_pv_rules
#print axioms ChessVerif.Props.C07real.bestmove_is_head_of_last_nonempty_pv_real
#print axioms ChessVerif.Props.C07real.ponder_legal_after_bestmove_real
#print axioms ChessVerif.Props.C07real.ponder_legal_after_bestmove_rules
#print axioms ChessVerif.Props.C07real.depths_increase_nodes_monotone_real
#print axioms ChessVerif.Props.C07.bufIx_eq_translated
