import ChessVerif.Props.C07
#print axioms ChessVerif.Props.C07.bufIx_rows_disjoint
#print axioms ChessVerif.Props.C07.pv_flat_refines_rows
#print axioms ChessVerif.Props.C07.reported_pv_legal
#print axioms ChessVerif.Props.C07.bestmove_is_head_of_last_nonempty_pv
#print axioms ChessVerif.Props.C07.ponder_legal_after_bestmove
#print axioms ChessVerif.Props.C07.depths_increase_nodes_monotone
