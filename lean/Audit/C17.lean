import ChessVerif.Props.C17
#print axioms ChessVerif.Props.C17.eval_depends_only
#print axioms ChessVerif.Props.C17.eval_factors
#print axioms ChessVerif.Props.C17.eval_ignores
#print axioms ChessVerif.Props.C17.evalQ_depends_only
#print axioms ChessVerif.Props.C17.eval_mirror
#print axioms ChessVerif.Props.C17.evalQ_mirror
#print axioms ChessVerif.Props.C17.eval_mirror_of_goodInput
#print axioms ChessVerif.Props.C17.c17_full
