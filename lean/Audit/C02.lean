import ChessVerif.Props.C02
import ChessVerif.Props.C02core
import ChessVerif.Props.C02nc
#print axioms ChessVerif.Props.C02.canEnPassant_iff
#print axioms ChessVerif.Props.C02.make_ep_iff
#print axioms ChessVerif.Props.C02.make_refines_rules_gen
#print axioms ChessVerif.Props.C02.make_refines_rules
#print axioms ChessVerif.Props.C02.make_refines_rules_legal
#print axioms ChessVerif.Props.C02.epNormal_make
#print axioms ChessVerif.Props.C02.run_refines_rules
#print axioms ChessVerif.Props.C02.run_refines_rules_of_valid_make
#print axioms ChessVerif.Props.C02.parse_toUCI
#print axioms ChessVerif.Props.C02.applyMoves_toUCI
#print axioms ChessVerif.Props.C02.uci_moves_refine_partial
#print axioms ChessVerif.Props.C02.uci_full_of_roundtrip_full
#print axioms ChessVerif.Props.C02.uci_startpos_moves_refine
#print axioms ChessVerif.Props.C02core.abs_make_core
#print axioms ChessVerif.Props.C02core.abs_make_ep_easy
#print axioms ChessVerif.Props.C02core.abs_make_eq_apply_of_ep
#print axioms ChessVerif.Props.C02core.isEnPassant_agree
#print axioms ChessVerif.Props.C02core.isCastling_agree
#print axioms ChessVerif.Props.C02.uci_full
#print axioms ChessVerif.Props.C02nc.make_refines_rules_nc
#print axioms ChessVerif.Props.C02nc.make_refines_rules_legal_nc
#print axioms ChessVerif.Props.C02nc.make_refines_rules_iff
#print axioms ChessVerif.Props.C02nc.make_refines_rules_of_lt
#print axioms ChessVerif.Props.C02nc.make_refines_rules_fails_at_127
#print axioms ChessVerif.Props.C02nc.epNormal_make_nc
#print axioms ChessVerif.Props.C02nc.run_refines_rules_nc
#print axioms ChessVerif.Props.C02nc.pos_eq_iff
