import ChessVerif.Props.C20
#print axioms ChessVerif.Props.C20.feistel_bij
#print axioms ChessVerif.Props.C20.feistel_bij_code
#print axioms ChessVerif.Props.C20.gen_shift_counts_lt_64
#print axioms ChessVerif.Props.C20.shuffle_terminates
#print axioms ChessVerif.Props.C20.shuffle_perm
#print axioms ChessVerif.Props.C20.batches_partition
#print axioms ChessVerif.Props.C20.chunks_partition
#print axioms ChessVerif.Props.C20.chunks_count_le
#print axioms ChessVerif.Props.C20.batches_chunks_partition_code
#print axioms ChessVerif.Props.C20.manifest_spec
#print axioms ChessVerif.Props.C20.manifest_addresses_lines
#print axioms ChessVerif.Props.C20.every_file_parses
#print axioms ChessVerif.Props.C20.read_exact
#print axioms ChessVerif.Props.C20.read_exact_all
#print axioms ChessVerif.Props.C20.open_read_range
#print axioms ChessVerif.Props.C20.epoch_exactly_once
#print axioms ChessVerif.Props.C20.epoch_exactly_once_code
