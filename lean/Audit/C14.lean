import ChessVerif.Props.C14
#print axioms ChessVerif.Props.C14.no_wrap
#print axioms ChessVerif.Props.C14.hard_pos
#print axioms ChessVerif.Props.C14.hard_le
#print axioms ChessVerif.Props.C14.hard_margin
#print axioms ChessVerif.Props.C14.movetime_eq
#print axioms ChessVerif.Props.C14.movetime_may_exceed_clock
#print axioms ChessVerif.Props.C14.own_clock_only
#print axioms ChessVerif.Props.C14.timedMode_iff
#print axioms ChessVerif.Props.C14.timedMode_on_domain
#print axioms ChessVerif.Props.C14.untimed_limits
