import ChessVerif.Props.C18
#print axioms ChessVerif.Props.C18.see_loop_eq_minimax
#print axioms ChessVerif.Props.C18.see_eq_model_minimax
#print axioms ChessVerif.Props.C18.see_monotone
#print axioms ChessVerif.Props.C18.see_eq_minimax_of_incremental
#print axioms ChessVerif.Props.C18.attackers_incremental
#print axioms ChessVerif.Props.C18.see_eq_minimax
#print axioms ChessVerif.Props.C18.C18_holds
#print axioms ChessVerif.Props.C18.see_monotone_valid
#print axioms ChessVerif.Props.C18.see_fuel_suffices
