import ChessVerif.Props.C04
#print axioms ChessVerif.Props.C04.inv_iff
#print axioms ChessVerif.Props.C04.inv_hash
#print axioms ChessVerif.Props.C04.inv_resetHash
#print axioms ChessVerif.Props.C04.inv_make
#print axioms ChessVerif.Props.C04.inv_make_valid
#print axioms ChessVerif.Props.C04.inv_null
#print axioms ChessVerif.Props.C04.inv_reachable
#print axioms ChessVerif.Props.C04.calcHash_congr
#print axioms ChessVerif.Props.C04.transposition_hash
#print axioms ChessVerif.Props.C04.transposition_lines
