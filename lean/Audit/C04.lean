import ChessVerif.Props.C04
import ChessVerif.Props.C04nc
#print axioms ChessVerif.Props.C04.inv_iff
#print axioms ChessVerif.Props.C04.inv_hash
#print axioms ChessVerif.Props.C04.inv_resetHash
#print axioms ChessVerif.Props.C04.inv_make
#print axioms ChessVerif.Props.C04.inv_make_valid
#print axioms ChessVerif.Props.C04.inv_null
#print axioms ChessVerif.Props.C04.inv_reachable
#print axioms ChessVerif.Props.C04.calcHash_congr
#print axioms ChessVerif.Props.C04.transposition_hash
#print axioms ChessVerif.Props.C04.transposition_lines
#print axioms ChessVerif.Props.C04nc.inv_make_nc
#print axioms ChessVerif.Props.C04nc.inv_reachable_nc
#print axioms ChessVerif.Props.C04nc.hash_reachable_nc
#print axioms ChessVerif.Props.C04nc.inv_line_nc
#print axioms ChessVerif.Props.C04nc.transposition_reachable_nc
