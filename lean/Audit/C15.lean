import ChessVerif.Props.C15
#print axioms ChessVerif.Props.C15.match64_spec
#print axioms ChessVerif.Props.C15.bucketIx_lt
#print axioms ChessVerif.Props.C15.value_rebase
#print axioms ChessVerif.Props.C15.rebased_boundary
#print axioms ChessVerif.Props.C15.noDupSig_invariant
#print axioms ChessVerif.Props.C15.noDupSig_insert
#print axioms ChessVerif.Props.C15.probe_after_store
#print axioms ChessVerif.Props.C15.written_entry_reads
#print axioms ChessVerif.Props.C15.keepCond_domain
#print axioms ChessVerif.Props.C15.probe_hit_is_last_store
#print axioms ChessVerif.Props.C15.no_phantom
#print axioms ChessVerif.Props.C15.store_evicts_at_most_one
#print axioms ChessVerif.Props.C15.clear_empty
#print axioms ChessVerif.Props.C15.sig0_phantom
#print axioms ChessVerif.Props.C15.tt_refines
