import ChessVerif.Props.C05
#print axioms ChessVerif.Props.C05.isPseudoLegal_iff_gen
#print axioms ChessVerif.Props.C05.gen_nodup
#print axioms ChessVerif.Props.C05.isPseudoLegal_iff_PL
#print axioms ChessVerif.Props.C05.gen_iff_PL
#print axioms ChessVerif.Props.C05.isPseudoLegal_iff_gen_of_domain
#print axioms ChessVerif.Props.C05.gen_nodup_of_domain
#print axioms ChessVerif.Props.C05.domain_of_valid
#print axioms ChessVerif.Props.C05.gen_lt
#print axioms ChessVerif.Props.C05.genNoisy_disjoint_genNotNoisy
