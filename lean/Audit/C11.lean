import ChessVerif.Props.C11
import ChessVerif.Props.C11count
#print axioms ChessVerif.Props.C11.parse_total
#print axioms ChessVerif.Props.C11.fromFEN_total
#print axioms ChessVerif.Props.C11.parse_err_or_ok
#print axioms ChessVerif.Props.C11.pieceCount_accepts_valid
#print axioms ChessVerif.Props.C11.pieceCount_accepts_reachable
#print axioms ChessVerif.Props.C11.position_keeps_on_reject
#print axioms ChessVerif.Props.C11.position_result_cases
#print axioms ChessVerif.Props.C11.position_installs_valid
#print axioms ChessVerif.Props.C11.print_parse_partial
#print axioms ChessVerif.Props.C11.roundtrip_scalars_partial
#print axioms ChessVerif.Props.C11count.pieceCount_accepts_reachable
#print axioms ChessVerif.Props.C11count.pieceCount_rejects_unreachable
#print axioms ChessVerif.Props.C11.parse_print
#print axioms ChessVerif.Props.C11.roundtrip_full
#print axioms ChessVerif.Props.C11.print_parse
#print axioms ChessVerif.Props.C11.print_parse_full
#print axioms ChessVerif.Props.C11.parse_print_of_wf
#print axioms ChessVerif.Props.C11.parse_print_placement
#print axioms ChessVerif.Props.C11.counter_toString
#print axioms ChessVerif.Props.C11.position_installs_valid_full
