import ChessVerif.Props.C03
import ChessVerif.Props.BitLoop
#print axioms ChessVerif.Props.C03.token_masks_disjoint
#print axioms ChessVerif.Props.C03.token_fields_roundtrip
#print axioms ChessVerif.Props.C03.isPseudoLegal_makeOK
#print axioms ChessVerif.Props.C03.undo_make
#print axioms ChessVerif.Props.C03.undo_make_valid
#print axioms ChessVerif.Props.C03.undoNull_makeNull
#print axioms ChessVerif.Props.C03.wf_make
#print axioms ChessVerif.Props.C03.wf_null
#print axioms ChessVerif.Props.C03.undo_nested
#print axioms ChessVerif.Props.BitLoop.goLoop_eq_bits
#print axioms ChessVerif.Props.BitLoop.isolateLowest_eq
