import ChessVerif.Props.C03
import ChessVerif.Props.BitLoop
import ChessVerif.Props.C03nc
#print axioms ChessVerif.Props.C03.token_masks_disjoint
#print axioms ChessVerif.Props.C03.token_fields_roundtrip
#print axioms ChessVerif.Props.C03.isPseudoLegal_makeOK
#print axioms ChessVerif.Props.C03.undo_make
#print axioms ChessVerif.Props.C03.undo_make_valid
#print axioms ChessVerif.Props.C03.undoNull_makeNull
#print axioms ChessVerif.Props.C03.wf_make
#print axioms ChessVerif.Props.C03.wf_null
#print axioms ChessVerif.Props.C03.undo_nested
#print axioms ChessVerif.Props.BitLoop.goLoop_eq_bits
#print axioms ChessVerif.Props.BitLoop.isolateLowest_eq
#print axioms ChessVerif.Props.C03nc.undo_make_anyclock
#print axioms ChessVerif.Props.C03nc.undo_make_gen_anyclock
#print axioms ChessVerif.Props.C03nc.undoNull_makeNull_nc
#print axioms ChessVerif.Props.C03nc.undo_nested_nc
#print axioms ChessVerif.Props.C03nc.undo_nested_valid
#print axioms ChessVerif.Props.C03nc.isPseudoLegal_makeOK_nc
#print axioms ChessVerif.Props.C03nc.int8_make
#print axioms ChessVerif.Props.C03nc.int8_null
#print axioms ChessVerif.Props.C03nc.int8_of_valid
#print axioms ChessVerif.Props.C03nc.int8_of_undo_make
