import ChessVerif.Props.C03
#print axioms ChessVerif.Props.C03.undoNull_makeNull
