import ChessVerif.Props.C16
import ChessVerif.Props.C16hist
#print axioms ChessVerif.Props.C16.picker_perm
#print axioms ChessVerif.Props.C16.picker_nodup
#print axioms ChessVerif.Props.C16.picker_hash_first
#print axioms ChessVerif.Props.C16.picker_hash_weight
#print axioms ChessVerif.Props.C16.picker_rejects
#print axioms ChessVerif.Props.C16.picker_exhausted
#print axioms ChessVerif.Props.C16.bands_sep
#print axioms ChessVerif.Props.C16.bands_reachable
#print axioms ChessVerif.Props.C16.bands_reachable_ops
#print axioms ChessVerif.Props.C16.stores_in_range
#print axioms ChessVerif.Props.C16.picker_correct
#print axioms ChessVerif.Props.C16.C16_allwords_false
#print axioms ChessVerif.Props.C16hist.hist_step_bound
#print axioms ChessVerif.Props.C16hist.hist_step_exact
#print axioms ChessVerif.Props.C16hist.hist_run_bound
#print axioms ChessVerif.Props.C16hist.cont_capt_run_bound
#print axioms ChessVerif.Props.C16hist.quiet_weight_bound
#print axioms ChessVerif.Props.C16hist.layout_quiets_below_captures
#print axioms ChessVerif.Props.C16hist.layout_good_captures
#print axioms ChessVerif.Props.C16hist.layout_bad_captures
#print axioms ChessVerif.Props.C16hist.weights_above_sentinel
#print axioms ChessVerif.Props.C16hist.noisy_score_in_band
