import ChessVerif.Props.C10
#print axioms ChessVerif.Props.C10.threefold_scan_spec
#print axioms ChessVerif.Props.C10.no_repeat_in_two
#print axioms ChessVerif.Props.C10.threefold_eq
#print axioms ChessVerif.Props.C10.threefold_eq_positions
#print axioms ChessVerif.Props.C10.C10_closed_full_holds
#print axioms ChessVerif.Props.C10.threefold_eq_closed
#print axioms ChessVerif.Props.C10.threefold_eq_closed_nocollision
#print axioms ChessVerif.Props.C10.threefold_eq_closed_nc
#print axioms ChessVerif.Props.C10.threefold_eq_closed_mv
#print axioms ChessVerif.Props.C10.threefold_eq_closed_playable
#print axioms ChessVerif.Props.C10.threefold_eq_closed_uci
#print axioms ChessVerif.Props.C10.noCollision_iff_zobristInjective
#print axioms ChessVerif.Props.C10.game_facts
#print axioms ChessVerif.Props.C10.step_closed
#print axioms ChessVerif.Props.C10.same_position_same_hash
