import ChessVerif.Props.C10
#print axioms ChessVerif.Props.C10.threefold_scan_spec
#print axioms ChessVerif.Props.C10.no_repeat_in_two
#print axioms ChessVerif.Props.C10.threefold_eq
#print axioms ChessVerif.Props.C10.threefold_eq_positions
