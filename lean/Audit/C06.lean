import ChessVerif.Props.C06
import ChessVerif.Props.C06real
import ChessVerif.Model.SearchReal
import ChessVerif.Proofs.SearchRealGuardedEq
import ChessVerif.Props.C06uci
import ChessVerif.Proofs.SearchNmpFloor
#print axioms ChessVerif.Props.C06.go_board_restored
#print axioms ChessVerif.Props.C06.go_move_legal_or_null
#print axioms ChessVerif.Props.C06.go_null_only_if_final_partial
#print axioms ChessVerif.Props.C06.go_reusable
#print axioms ChessVerif.Props.C06.go_again_restores
#print axioms ChessVerif.Props.C06.eval_range
#print axioms ChessVerif.Props.C06.alphaBeta_value_in_range
#print axioms ChessVerif.Props.C06.quiescence_value_in_range
#print axioms ChessVerif.Props.C06.go_keeps_table_invariant
#print axioms ChessVerif.Props.C06.go_null_only_if_final
#print axioms ChessVerif.Props.C06.go_final_score
#print axioms ChessVerif.Props.C06.go_final_score_completed
#print axioms ChessVerif.Props.C06real.real_laws_hold
#print axioms ChessVerif.Props.C06real.real_laws_hold_any_coefficients
#print axioms ChessVerif.Props.C06real.newEngine_ok
#print axioms ChessVerif.Props.C06real.clearEngine_ok
#print axioms ChessVerif.Props.C06real.go_keeps_ps_invariant_real
#print axioms ChessVerif.Props.C06real.session_ok
#print axioms ChessVerif.Props.C06real.go_board_restored_real
#print axioms ChessVerif.Props.C06real.go_move_legal_or_null_real
#print axioms ChessVerif.Props.C06real.go_move_legal_or_null_rules
#print axioms ChessVerif.Props.C06real.go_move_legal_or_null_session
#print axioms ChessVerif.Props.C06real.go_reusable_real
#print axioms ChessVerif.Props.C06real.go_again_restores_real
#print axioms ChessVerif.Props.C06real.final_iff_rules
#print axioms ChessVerif.Props.C06real.go_null_only_if_final_partial_real
#print axioms ChessVerif.Props.C06.go_keeps_ps_invariant
#print axioms ChessVerif.SearchReal.nextNodeType_eq_translated
#print axioms ChessVerif.Props.C06.go_keeps_table_invariant_free
#print axioms ChessVerif.Props.C06.go_null_only_if_final_free
#print axioms ChessVerif.Props.C06.go_final_score_free
#print axioms ChessVerif.Props.C06real.real_scoreLaws_hold
#print axioms ChessVerif.Props.C06real.real_aspLaws_hold
#print axioms ChessVerif.Props.C06real.ttokReal_new
#print axioms ChessVerif.Props.C06real.ttokReal_clear
#print axioms ChessVerif.Props.C06real.go_keeps_table_invariant_real
#print axioms ChessVerif.Props.C06real.go_keeps_table_invariant_guarded
#print axioms ChessVerif.Props.C06real.sessionS_ok
#print axioms ChessVerif.Props.C06real.sessionS_session
#print axioms ChessVerif.Props.C06real.go_null_only_if_final_real
#print axioms ChessVerif.Props.C06real.go_null_only_if_final_guarded
#print axioms ChessVerif.Props.C06real.go_final_score_real
#print axioms ChessVerif.Props.C06real.go_final_score_guarded
#print axioms ChessVerif.SearchReal.realCompGuarded_eq
#print axioms ChessVerif.Props.C06uci.uciGo_total
#print axioms ChessVerif.Props.C06uci.uciGo_missing_iff
#print axioms ChessVerif.Props.C06uci.uciGo_depth_in_range
#print axioms ChessVerif.Props.C06uci.uciGo_limits_depth
#print axioms ChessVerif.Props.C06uci.uciGo_nodes
#print axioms ChessVerif.Props.C06uci.uciGo_softTime
#print axioms ChessVerif.Props.C06uci.uciGo_flags
#print axioms ChessVerif.Props.C06.go_nmpOut_of_floor
#print axioms ChessVerif.Props.C06real.real_scoreLaws_guarded
#print axioms ChessVerif.Props.C06real.real_aspLaws_guarded
#print axioms ChessVerif.Props.C06real.real_nmp_unguarded
#print axioms ChessVerif.Props.C06real.guarded_nmpFloor
#print axioms ChessVerif.Props.C06real.go_nmpOut_guarded
#print axioms ChessVerif.Props.C06real.nmpSane_flag
