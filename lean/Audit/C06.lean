import ChessVerif.Props.C06
#print axioms ChessVerif.Props.C06.go_board_restored
#print axioms ChessVerif.Props.C06.go_move_legal_or_null
#print axioms ChessVerif.Props.C06.go_null_only_if_final_partial
#print axioms ChessVerif.Props.C06.go_reusable
#print axioms ChessVerif.Props.C06.go_again_restores
#print axioms ChessVerif.Props.C06.eval_range
#print axioms ChessVerif.Props.C06.alphaBeta_value_in_range
#print axioms ChessVerif.Props.C06.quiescence_value_in_range
#print axioms ChessVerif.Props.C06.go_keeps_table_invariant
#print axioms ChessVerif.Props.C06.go_null_only_if_final
#print axioms ChessVerif.Props.C06.go_final_score
#print axioms ChessVerif.Props.C06.go_final_score_completed
