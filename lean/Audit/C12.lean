import ChessVerif.Props.C12
#print axioms ChessVerif.C12.bishopMoves_eq
#print axioms ChessVerif.C12.rookMoves_eq
#print axioms ChessVerif.C12.kingMoves_eq
#print axioms ChessVerif.C12.knightMoves_eq
#print axioms ChessVerif.C12.pawnCapture_eq
#print axioms ChessVerif.C12.pawnPush_eq
#print axioms ChessVerif.C12.inBetween_eq
#print axioms ChessVerif.C12.strictlyBetween_unaligned
#print axioms ChessVerif.C12.rookMoves_iff
#print axioms ChessVerif.C12.bishopMoves_iff
