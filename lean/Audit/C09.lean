import ChessVerif.Props.C09
import ChessVerif.Props.C09mates
import ChessVerif.Props.C09examples
import ChessVerif.Props.C09closure
#print axioms ChessVerif.C09.isCheckmate_iff
#print axioms ChessVerif.C09.isStalemate_iff
#print axioms ChessVerif.C09.isCheckmate_eq_rules
#print axioms ChessVerif.C09.isStalemate_eq_rules
#print axioms ChessVerif.C09.C09
#print axioms ChessVerif.C09.C09_full_without_epSound_false
#print axioms ChessVerif.C09.legalMoves_ne_nil_of_legal
#print axioms ChessVerif.Props.C09closure.epSound_apply
#print axioms ChessVerif.Props.C09closure.epSound_make
#print axioms ChessVerif.Props.C09closure.mate_tests_exact_after_move
