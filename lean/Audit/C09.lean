import ChessVerif.Props.C09
import ChessVerif.Props.C09mates
import ChessVerif.Props.C09examples
#print axioms ChessVerif.C09.isCheckmate_iff
#print axioms ChessVerif.C09.isStalemate_iff
#print axioms ChessVerif.C09.isCheckmate_eq_rules
#print axioms ChessVerif.C09.isStalemate_eq_rules
#print axioms ChessVerif.C09.C09
#print axioms ChessVerif.C09.C09_full_without_epSound_false
#print axioms ChessVerif.C09.legalMoves_ne_nil_of_legal
