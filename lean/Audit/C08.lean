import ChessVerif.Props.C08
#print axioms ChessVerif.Props.C08.nodes_le_budget
#print axioms ChessVerif.Props.C08.time_irrelevant
#print axioms ChessVerif.Props.C08.soft_eq_hard_strong
#print axioms ChessVerif.Props.C08.soft_eq_hard
#print axioms ChessVerif.Props.C08.soft_eq_hard_lines
