import ChessVerif.Props.C08
import ChessVerif.Props.C08real
import ChessVerif.Model.SearchReal
#print axioms ChessVerif.Props.C08.nodes_le_budget
#print axioms ChessVerif.Props.C08.time_irrelevant
#print axioms ChessVerif.Props.C08.soft_eq_hard_strong
#print axioms ChessVerif.Props.C08.soft_eq_hard
#print axioms ChessVerif.Props.C08.soft_eq_hard_lines
#print axioms ChessVerif.Props.C08real.nodes_le_budget_real
#print axioms ChessVerif.Props.C08real.time_irrelevant_real
#print axioms ChessVerif.Props.C08real.soft_eq_hard_real
#print axioms ChessVerif.Props.C08real.soft_eq_hard_lines_real
