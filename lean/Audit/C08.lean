import ChessVerif.Props.C08
#print axioms ChessVerif.Props.C08.nodes_le_budget
#print axioms ChessVerif.Props.C08.time_irrelevant
