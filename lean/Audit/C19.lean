import ChessVerif.Props.C19
#print axioms ChessVerif.Props.C19.setVector_toVector
#print axioms ChessVerif.Props.C19.setVector_toVector_coeff
#print axioms ChessVerif.Props.C19.setVector_succeeds
#print axioms ChessVerif.Props.C19.toVector_setVector
#print axioms ChessVerif.Props.C19.toVector_setVector_exact
#print axioms ChessVerif.Props.C19.setVector_short
#print axioms ChessVerif.Props.C19.tunedParams_length
#print axioms ChessVerif.Props.C19.tunedParams_index
#print axioms ChessVerif.Props.C19.tunedParams_write
#print axioms ChessVerif.Props.C19.engineCoeffs_shipped
#print axioms ChessVerif.Props.C19.evalInt_exact
#print axioms ChessVerif.Props.C19.int_vs_exact_partial
#print axioms ChessVerif.Props.C19.int_vs_exact_shipped_partial
#print axioms ChessVerif.Props.C19.c19a_full_of_noWrap
