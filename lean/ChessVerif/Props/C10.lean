/-
  C10 — repetition count (property theorems and non-vacuity examples only).

  "For any game history — a valid start position followed by any sequence of legal moves, however it
  was set up — the repetition count the engine reports for the current position equals the number of
  times this position (same placement, side to move, castling rights and en-passant capturability)
  has occurred in the history including now, capped at three."

  History lists have the CURRENT position at the head.
-/
import ChessVerif.Proofs.RepGame
import ChessVerif.Proofs.RepExampleAbs
import ChessVerif.Proofs.RepExampleD7

namespace ChessVerif.Props.C10
open ChessVerif Rep Rules

/-- Closed form of the model's scan: for a hash history `h₀ :: rest` the reported count is
    `min 3 (1 + #{ i ∈ {4, 6, 8, …} | hashes[i] = h₀ })` (`stepCount h l 4` counts exactly the indices
    `i ≥ 4`, `i` even, with `l[i] = h`). -/
theorem threefold_scan_spec (b : Board) (h₀ : BB) (rest : List BB) (hh : b.hashes = h₀ :: rest) :
    b.threefold = min 3 (1 + stepCount h₀ b.hashes 4) :=
  Rep.threefold_scan_spec_ix b h₀ rest hh

/-- After a legal move and a legal reply the position is not the one before the two moves
    (rule-book level, no hypothesis on the start position). -/
theorem no_repeat_in_two {p : Pos} {mv₁ mv₂ : Mv}
    (h₁ : legal p mv₁ = true) (h₂ : legal (apply p mv₁) mv₂ = true) :
    sameForRepetition p (apply (apply p mv₁) mv₂) = false ∧
    sameForRepetition (apply (apply p mv₁) mv₂) p = false :=
  Rules.no_repeat_in_two h₁ h₂

/-- **C10.**  A game played with `makeMove` from `b₀`, every move legal by the rule book.
    Hypotheses taken from other properties, by name: `AbsSteps` (C02: each `makeMove` abstracts to
    `Rules.apply`; this is where `Valid b₀` is consumed), `HashTied` (C04: the hash history is the
    list of from-scratch hashes of the boards of the game — complete since the FEN load), and the
    explicit `HashFaithful` (no Zobrist collision among the positions of THIS history).
    Then `Threefold()` = number of occurrences of the current position in the whole history
    (art. 9.2.2), capped at three.
    Domain: starts whose en-passant state is normal (`hstart`; every later position is normal by
    C02's convention).  The proof does not use `hstart` — the work is done by `HashFaithful` — but
    without it `HashFaithful` fails for a reason that is not a key collision: known finding D7,
    witnessed below (`d7_*`). -/
theorem threefold_eq (K : Keys) (b₀ : Board) (ms : List Move)
    (_hstart : Rules.epNormal b₀.abs = true)
    (hleg : legalGame b₀.abs (ms.map decodeMove))
    (habs : AbsSteps K b₀ ms)
    (htie : HashTied K b₀ ms)
    (hf : HashFaithful ((boards K b₀ ms).map fun b => (b.abs, b.calcHash K))) :
    (run K b₀ ms).threefold =
      min 3 (occurrences (run K b₀ ms).abs (positions b₀.abs (ms.map decodeMove))) :=
  Rep.threefold_eq K b₀ ms hleg habs htie hf

/-- The same on the rule-book side only: any legal game, any hash column tied to the board and
    faithful on the game. -/
theorem threefold_eq_positions (b : Board) (start : Pos) (ms : List Mv) (hs : List BB)
    (hleg : legalGame start ms) (hlen : hs.length = (positions start ms).length)
    (htie : b.hashes = hs) (hf : HashFaithful ((positions start ms).zip hs)) :
    b.threefold = min 3 (occurrences ((positions start ms).headD start) (positions start ms)) :=
  Rep.threefold_eq_positions b start ms hs hleg hlen htie hf

/-! ### non-vacuity: the knight shuffle Ng1-f3 Ng8-f6 Nf3-g1 Nf6-g8 on `4k1n1/8/8/8/8/8/8/4K1N1 w - - 0 1`
    with concrete keys, evaluated on the executable model -/

open Rep.Example

/-- the concrete game meets every hypothesis of `threefold_eq`, and the count is 2. -/
example : (run testKeys sparseB shuffle).threefold = 2 ∧
    min 3 (occurrences (run testKeys sparseB shuffle).abs (positions sparseB.abs (shuffle.map decodeMove))) = 2 := by
  have h := threefold_eq testKeys sparseB shuffle (by decide +kernel) shuffle_legal shuffle_abs shuffle_tied shuffle_faithful
  exact ⟨shuffle_two, by rw [← h]; exact shuffle_two⟩

/-- the executable model along the shuffle: 1 after two plies, 2 after one round trip, 3 (the cap)
    after two and three round trips, and 2 / 3 for the intermediate position with the knight on f3. -/
example : (run testKeys sparseB [nf3, nf6]).threefold = 1 := shuffle_one
example : (run testKeys sparseB (shuffle ++ shuffle)).threefold = 3 := shuffle_three
example : (run testKeys sparseB (shuffle ++ shuffle ++ shuffle)).threefold = 3 := shuffle_cap
example : (run testKeys sparseB (shuffle ++ [nf3])).threefold = 2 := shuffle_mid2
example : (run testKeys sparseB (shuffle ++ shuffle ++ [nf3])).threefold = 3 := shuffle_mid

/-- **D7 witness** (the exclusion `hstart` is not vacuous): a valid start loaded from
    `r3k2r/2pb1ppp/2pp1q2/p7/1nP1B3/1P2P3/P2N1PPP/R2QK2R w KQkq a6 0 14` whose recorded target a6 cannot be
    captured, four legal moves back to the same placement: the model's count is 1, the art. 9.2.2
    count is 2, and the two hashes of the same position differ. -/
example : d7B.valid = true ∧ Rules.epNormal d7B.abs = false ∧
    legalGame d7B.abs (d7Moves.map decodeMove) ∧
    (run testKeys d7B d7Moves).threefold = 1 ∧
    occurrences ((positions d7B.abs (d7Moves.map decodeMove)).headD d7B.abs)
      (positions d7B.abs (d7Moves.map decodeMove)) = 2 ∧
    (run testKeys d7B d7Moves).hash ≠ d7B.hash :=
  ⟨d7_valid, d7_epNormal_false, d7_legal, d7_threefold, d7_occurrences, d7_hash_differs⟩

/-- the scan spec on a hand-made history: matches at distances 4 and 8 count, those at 2, 3, 5 do not. -/
example : ({ Board.empty with hashes := [7, 1, 7, 7, 7, 7, 2, 3, 7] } : Board).threefold = 3 := by decide +kernel
example : ({ Board.empty with hashes := [7, 1, 7, 7, 9, 7, 2, 3, 7] } : Board).threefold = 2 := by decide +kernel
example : ({ Board.empty with hashes := [7, 7, 7, 7, 9, 7, 2, 7] } : Board).threefold = 1 := by decide +kernel

end ChessVerif.Props.C10
