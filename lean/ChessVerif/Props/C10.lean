/-
  C10 — repetition count (property theorems and non-vacuity examples only).

  "For any game history — a valid start position followed by any sequence of legal moves, however it
  was set up — the repetition count the engine reports for the current position equals the number of
  times this position (same placement, side to move, castling rights and en-passant capturability)
  has occurred in the history including now, capped at three."

  History lists have the CURRENT position at the head.
-/
import ChessVerif.Proofs.RepGame
import ChessVerif.Proofs.RepExampleAbs
import ChessVerif.Proofs.RepExampleD7
import ChessVerif.Proofs.RepClosedExample
import ChessVerif.Proofs.RepClosedExampleLong
import ChessVerif.Proofs.RepClosedExampleD7
import ChessVerif.Proofs.RepClosedUci
import ChessVerif.Proofs.RepClosedZobrist

namespace ChessVerif.Props.C10
open ChessVerif Rep Rules

/-- Closed form of the model's scan: for a hash history `h₀ :: rest` the reported count is
    `min 3 (1 + #{ i ∈ {4, 6, 8, …} | hashes[i] = h₀ })` (`stepCount h l 4` counts exactly the indices
    `i ≥ 4`, `i` even, with `l[i] = h`). -/
theorem threefold_scan_spec (b : Board) (h₀ : BB) (rest : List BB) (hh : b.hashes = h₀ :: rest) :
    b.threefold = min 3 (1 + stepCount h₀ b.hashes 4) :=
  Rep.threefold_scan_spec_ix b h₀ rest hh

/-- After a legal move and a legal reply the position is not the one before the two moves
    (rule-book level, no hypothesis on the start position). -/
theorem no_repeat_in_two {p : Pos} {mv₁ mv₂ : Mv}
    (h₁ : legal p mv₁ = true) (h₂ : legal (apply p mv₁) mv₂ = true) :
    sameForRepetition p (apply (apply p mv₁) mv₂) = false ∧
    sameForRepetition (apply (apply p mv₁) mv₂) p = false :=
  Rules.no_repeat_in_two h₁ h₂

/-- **C10.**  A game played with `makeMove` from `b₀`, every move legal by the rule book.
    Hypotheses taken from other properties, by name: `AbsSteps` (C02: each `makeMove` abstracts to
    `Rules.apply`; this is where `Valid b₀` is consumed), `HashTied` (C04: the hash history is the
    list of from-scratch hashes of the boards of the game — complete since the FEN load), and the
    explicit `HashFaithful` (no Zobrist collision among the positions of THIS history).
    Then `Threefold()` = number of occurrences of the current position in the whole history
    (art. 9.2.2), capped at three.
    Domain: starts whose en-passant state is normal (`hstart`; every later position is normal by
    C02's convention).  The proof does not use `hstart` — the work is done by `HashFaithful` — but
    without it `HashFaithful` fails for a reason that is not a key collision: known finding D7,
    witnessed below (`d7_*`). -/
theorem threefold_eq (K : Keys) (b₀ : Board) (ms : List Move)
    (_hstart : Rules.epNormal b₀.abs = true)
    (hleg : legalGame b₀.abs (ms.map decodeMove))
    (habs : AbsSteps K b₀ ms)
    (htie : HashTied K b₀ ms)
    (hf : HashFaithful ((boards K b₀ ms).map fun b => (b.abs, b.calcHash K))) :
    (run K b₀ ms).threefold =
      min 3 (occurrences (run K b₀ ms).abs (positions b₀.abs (ms.map decodeMove))) :=
  Rep.threefold_eq K b₀ ms hleg habs htie hf

/-- The same on the rule-book side only: any legal game, any hash column tied to the board and
    faithful on the game. -/
theorem threefold_eq_positions (b : Board) (start : Pos) (ms : List Mv) (hs : List BB)
    (hleg : legalGame start ms) (hlen : hs.length = (positions start ms).length)
    (htie : b.hashes = hs) (hf : HashFaithful ((positions start ms).zip hs)) :
    b.threefold = min 3 (occurrences ((positions start ms).headD start) (positions start ms)) :=
  Rep.threefold_eq_positions b start ms hs hleg hlen htie hf

/-! ### non-vacuity: the knight shuffle Ng1-f3 Ng8-f6 Nf3-g1 Nf6-g8 on `4k1n1/8/8/8/8/8/8/4K1N1 w - - 0 1`
    with concrete keys, evaluated on the executable model -/

open Rep.Example

/-- the concrete game meets every hypothesis of `threefold_eq`, and the count is 2. -/
example : (run testKeys sparseB shuffle).threefold = 2 ∧
    min 3 (occurrences (run testKeys sparseB shuffle).abs (positions sparseB.abs (shuffle.map decodeMove))) = 2 := by
  have h := threefold_eq testKeys sparseB shuffle (by decide +kernel) shuffle_legal shuffle_abs shuffle_tied shuffle_faithful
  exact ⟨shuffle_two, by rw [← h]; exact shuffle_two⟩

/-- the executable model along the shuffle: 1 after two plies, 2 after one round trip, 3 (the cap)
    after two and three round trips, and 2 / 3 for the intermediate position with the knight on f3. -/
example : (run testKeys sparseB [nf3, nf6]).threefold = 1 := shuffle_one
example : (run testKeys sparseB (shuffle ++ shuffle)).threefold = 3 := shuffle_three
example : (run testKeys sparseB (shuffle ++ shuffle ++ shuffle)).threefold = 3 := shuffle_cap
example : (run testKeys sparseB (shuffle ++ [nf3])).threefold = 2 := shuffle_mid2
example : (run testKeys sparseB (shuffle ++ shuffle ++ [nf3])).threefold = 3 := shuffle_mid

/-- **D7 witness** (the exclusion `hstart` is not vacuous): a valid start loaded from
    `r3k2r/2pb1ppp/2pp1q2/p7/1nP1B3/1P2P3/P2N1PPP/R2QK2R w KQkq a6 0 14` whose recorded target a6 cannot be
    captured, four legal moves back to the same placement: the model's count is 1, the art. 9.2.2
    count is 2, and the two hashes of the same position differ. -/
example : d7B.valid = true ∧ Rules.epNormal d7B.abs = false ∧
    legalGame d7B.abs (d7Moves.map decodeMove) ∧
    (run testKeys d7B d7Moves).threefold = 1 ∧
    occurrences ((positions d7B.abs (d7Moves.map decodeMove)).headD d7B.abs)
      (positions d7B.abs (d7Moves.map decodeMove)) = 2 ∧
    (run testKeys d7B d7Moves).hash ≠ d7B.hash :=
  ⟨d7_valid, d7_epNormal_false, d7_legal, d7_threefold, d7_occurrences, d7_hash_differs⟩

/-- the scan spec on a hand-made history: matches at distances 4 and 8 count, those at 2, 3, 5 do not. -/
example : ({ Board.empty with hashes := [7, 1, 7, 7, 7, 7, 2, 3, 7] } : Board).threefold = 3 := by decide +kernel
example : ({ Board.empty with hashes := [7, 1, 7, 7, 9, 7, 2, 3, 7] } : Board).threefold = 2 := by decide +kernel
example : ({ Board.empty with hashes := [7, 7, 7, 7, 9, 7, 2, 7] } : Board).threefold = 1 := by decide +kernel

end ChessVerif.Props.C10

/-! ## C10 closed: `AbsSteps` (C02) and `HashTied` (C04) discharged, no bound on the halfmove clock

  `threefold_eq` above takes the facts of C02 and C04 as hypotheses by name.  Below they are PROVED along
  the game from `Props.C01` (`legal_playable`, `playable_eq_legal`, `valid_make_of_clock_lt`), `Props.C02`
  (`make_refines_rules`) and `Props.C04` (`inv_make`), by induction over the move list
  (Proofs/RepClosed*.lean).

  The clock.  `Board.valid` bounds the halfmove clock by 100, `valid_make` has a clock side condition,
  the int8 field wraps at 128 — and a game with many reversible moves leaves that range.  The count
  never reads the clock, and `MakeMove` lets the clock flow only into the clock
  (`RepClosed.setFifty_make`); so each of C01/C02/C04 is applied to the board with its clock reset to 0
  (which IS in their domain) and transported back.  `RepClosed.ValidNC b` = "`Board.valid` of `b` with the
  clock reset" = every clause of `Board.valid` except the two clock bounds; it is closed under legal
  moves with no side condition.  Consequently the statements below have NO hypothesis on the clock
  of any position of the game, and hold for games of any length.

  What remains: `HashFaithful` (first form) or, better, only its unprovable half `NoCollision`
  (second form) — "two boards of this history with the same Zobrist hash show the same position".  The
  other half ("same position ⇒ same hash") is proved from C04's `calcHash_congr`; it is exactly there
  that the start's `epNormal` is needed (known finding D7 is its failure). -/

namespace ChessVerif.Props.C10
open ChessVerif Rep Rules RepClosed

/-- validity without the two clock clauses (the board with the clock reset to 0 is valid). -/
abbrev ValidNC := RepClosed.ValidNC

theorem validNC_of_valid {b : Board} (h : Board.valid b = true) : ValidNC b := RepClosed.validNC_of_valid h

/-- every move word is the engine's encoding of its decoding (true of every generated move). -/
abbrev Canon := RepClosed.Canon

/-- the remaining hypothesis: within this history, equal from-scratch hashes ⇒ same position
    (art. 9.2.2).  One direction of `HashFaithful`; the other is proved. -/
abbrev NoCollision := RepClosed.NoCollision

/-- **C10 closed (`HashFaithful` form).**  For every key table `K`, every valid start board `b₀` with
    a normal en-passant state whose hash history is the single from-scratch hash (as `FromFEN` /
    `ResetHash` leave it), every list `ms` of canonical move words whose decodings form a legal game
    by the rule book — of any length, with any number of reversible moves — and `HashFaithful` on the
    boards of the game: `Threefold()` of the current board = the number of occurrences of the current
    position in the game history (art. 9.2.2), capped at three.
    `AbsSteps` and `HashTied` of `threefold_eq` are no longer hypotheses. -/
theorem threefold_eq_closed (K : Keys) (b₀ : Board) (ms : List Move)
    (hv : Board.valid b₀ = true) (_hstart : Rules.epNormal b₀.abs = true)
    (hh : b₀.hashes = [b₀.calcHash K])
    (hcanon : Canon ms) (hleg : legalGame b₀.abs (ms.map decodeMove))
    (hf : HashFaithful ((boards K b₀ ms).map fun b => (b.abs, b.calcHash K))) :
    (run K b₀ ms).threefold =
      min 3 (occurrences (run K b₀ ms).abs (positions b₀.abs (ms.map decodeMove))) :=
  RepClosed.threefold_eq_closed_words K b₀ ms (validNC_of_valid hv) hh hcanon hleg hf

/-- **C10 closed (`NoCollision` form) — the only non-structural hypothesis is the absence of a Zobrist
    collision within the history.**  Here `hstart` is used: it makes "same position ⇒ same hash" a
    theorem. -/
theorem threefold_eq_closed_nocollision (K : Keys) (b₀ : Board) (ms : List Move)
    (hv : Board.valid b₀ = true) (hstart : Rules.epNormal b₀.abs = true)
    (hh : b₀.hashes = [b₀.calcHash K])
    (hcanon : Canon ms) (hleg : legalGame b₀.abs (ms.map decodeMove))
    (hc : NoCollision K (boards K b₀ ms)) :
    (run K b₀ ms).threefold =
      min 3 (occurrences (run K b₀ ms).abs (positions b₀.abs (ms.map decodeMove))) :=
  RepClosed.threefold_eq_nocollision_words K b₀ ms (validNC_of_valid hv) hstart hh hcanon hleg hc

/-- the same, the start board only `ValidNC` (its own clock may already be out of range: a game
    continued from a position reached earlier and re-hashed). -/
theorem threefold_eq_closed_nc (K : Keys) (b₀ : Board) (ms : List Move)
    (hv : ValidNC b₀) (hstart : Rules.epNormal b₀.abs = true) (hh : b₀.hashes = [b₀.calcHash K])
    (hcanon : Canon ms) (hleg : legalGame b₀.abs (ms.map decodeMove))
    (hc : NoCollision K (boards K b₀ ms)) :
    (run K b₀ ms).threefold =
      min 3 (occurrences (run K b₀ ms).abs (positions b₀.abs (ms.map decodeMove))) :=
  RepClosed.threefold_eq_nocollision_words K b₀ ms hv hstart hh hcanon hleg hc

/-- **in the rule book's own terms**: ANY sequence `mvs` of legal moves of the rule book; the engine
    plays their encodings. -/
theorem threefold_eq_closed_mv (K : Keys) (b₀ : Board) (mvs : List Mv)
    (hv : Board.valid b₀ = true) (hstart : Rules.epNormal b₀.abs = true)
    (hh : b₀.hashes = [b₀.calcHash K]) (hleg : legalGame b₀.abs mvs)
    (hc : NoCollision K (boards K b₀ (mvs.map encodeMove))) :
    (run K b₀ (mvs.map encodeMove)).threefold =
      min 3 (occurrences (run K b₀ (mvs.map encodeMove)).abs (positions b₀.abs mvs)) :=
  RepClosed.threefold_eq_nocollision_mv K b₀ mvs (validNC_of_valid hv) hstart hh hleg hc

/-- **in the engine's own terms**: every move is playable (`MoveGen.playable`: generated, own king not
    left in check) in the position it is made in — what the UCI driver and the search do.  Legality by
    the rule book is then a conclusion (C01). -/
theorem threefold_eq_closed_playable (K : Keys) (b₀ : Board) (ms : List Move)
    (hv : Board.valid b₀ = true) (hstart : Rules.epNormal b₀.abs = true)
    (hh : b₀.hashes = [b₀.calcHash K]) (hplay : EpTarget.PlayableSeq K b₀ ms)
    (hc : NoCollision K (boards K b₀ ms)) :
    legalGame b₀.abs (ms.map decodeMove) ∧
    (run K b₀ ms).threefold =
      min 3 (occurrences (run K b₀ ms).abs (positions b₀.abs (ms.map decodeMove))) :=
  RepClosed.threefold_eq_nocollision_playable K b₀ ms (validNC_of_valid hv) hstart hh hplay hc

/-- **"however it was set up"**: the UCI command `position fen <FEN of b> moves ms₁` (any valid `b`;
    the move number within the range of the Go `int`, as in C11) followed by the moves `ms₂` made with
    `MakeMove` (the search). -/
theorem threefold_eq_closed_uci (K : Keys) (cur b : Board) (ms₁ ms₂ : List Move)
    (hv : Board.valid b = true) (hfm : b.fullMoves < 2 ^ 63) (hstart : Rules.epNormal b.abs = true)
    (hplay : EpTarget.PlayableSeq K (EpTarget.installed K b) (ms₁ ++ ms₂))
    (hc : NoCollision K (boards K (EpTarget.installed K b) (ms₁ ++ ms₂))) :
    legalGame b.abs ((ms₁ ++ ms₂).map decodeMove) ∧
    (run K (UciPosition.handlePositionS K cur
        ("fen" :: (Fen.printFields b ++ "moves" :: ms₁.map Move.toUCI))) ms₂).threefold =
      min 3 (occurrences
        (run K (UciPosition.handlePositionS K cur
          ("fen" :: (Fen.printFields b ++ "moves" :: ms₁.map Move.toUCI))) ms₂).abs
        (positions b.abs ((ms₁ ++ ms₂).map decodeMove))) :=
  RepClosed.threefold_eq_uci K cur b ms₁ ms₂ hv hfm hstart hplay hc

/-- the ingredients, for the record: along any legal game the boards abstract to the rule-book
    positions modulo the clock and are `ValidNC` (C01/C02), the hash history is the list of from-scratch
    hashes of the boards (C04, = `HashTied`), and the engine's words decode to the moves. -/
theorem game_facts (K : Keys) (b₀ : Board) (mvs : List Mv) (hv : ValidNC b₀)
    (hh : b₀.hashes = [b₀.calcHash K]) (hleg : legalGame b₀.abs mvs) :
    RepClosed.Tied (positions b₀.abs mvs) (boards K b₀ (mvs.map encodeMove)) ∧
    HashTied K b₀ (mvs.map encodeMove) ∧
    ValidNC (run K b₀ (mvs.map encodeMove)) ∧ Board.Inv K (run K b₀ (mvs.map encodeMove)) ∧
    (mvs.map encodeMove).map decodeMove = mvs :=
  RepClosed.tied_and_hashTied K b₀ mvs hv hh hleg

/-- "same position ⇒ same hash" (the proved half of `HashFaithful`), for `ValidNC` boards with normal
    en-passant state and arbitrary keys. -/
theorem same_position_same_hash (K : Keys) {x y : Board} (hx : ValidNC x) (hy : ValidNC y)
    (nx : Rules.epNormal x.abs = true) (ny : Rules.epNormal y.abs = true)
    (h : sameForRepetition x.abs y.abs = true) : x.calcHash K = y.calcHash K :=
  RepClosed.calcHash_eq_of_same K hx hy nx ny h

/-- one legal move from a `ValidNC` board satisfying C04's invariant, whatever the clock: the
    encoding is playable (C01) and decodes back, the successor is `ValidNC` (C01 closure, no side
    condition), abstracts to `Rules.apply` modulo the clock (C02), satisfies the invariant and extends
    the history by its from-scratch hash (C04). -/
theorem step_closed (K : Keys) {b : Board} {mv : Mv} (hv : ValidNC b) (hi : Board.Inv K b)
    (hl : legal b.abs mv = true) : RepClosed.StepFacts K b mv := RepClosed.step K hv hi hl

/-- `NoCollision` read as a statement about the key table alone: along a legal game from a normal
    start it is equivalent to "`calculateHash` is injective on the hashed features (`Board.SamePosition`
    of C04: placement, side to move, castling rights, en-passant file state) of the boards of the
    game". -/
theorem noCollision_iff_zobristInjective (K : Keys) (b₀ : Board) (mvs : List Mv)
    (hv : ValidNC b₀) (hstart : Rules.epNormal b₀.abs = true) (hh : b₀.hashes = [b₀.calcHash K])
    (hleg : legalGame b₀.abs mvs) :
    NoCollision K (boards K b₀ (mvs.map encodeMove)) ↔
      ∀ x ∈ boards K b₀ (mvs.map encodeMove), ∀ y ∈ boards K b₀ (mvs.map encodeMove),
        x.calcHash K = y.calcHash K → Board.SamePosition x y :=
  RepClosed.noCollision_iff_injective K b₀ mvs hv hstart hh hleg

/-- **C10 as ONE closed proposition** (the property text: "a valid start position followed by any
    sequence of legal moves"): every key table, every valid start with a normal en-passant state and a
    freshly reset hash history, ANY list of legal moves of the rule book (no bound on its length or on
    the clocks), played by the engine as their encodings; no Zobrist collision in the history. -/
def C10_closed_full : Prop :=
  ∀ (K : Keys) (b₀ : Board) (mvs : List Mv),
    Board.valid b₀ = true → Rules.epNormal b₀.abs = true → b₀.hashes = [b₀.calcHash K] →
    legalGame b₀.abs mvs →
    NoCollision K (boards K b₀ (mvs.map encodeMove)) →
    (run K b₀ (mvs.map encodeMove)).threefold =
      min 3 (occurrences (run K b₀ (mvs.map encodeMove)).abs (positions b₀.abs mvs))

/-- … which holds. -/
theorem C10_closed_full_holds : C10_closed_full :=
  fun K b₀ mvs hv hs hh hl hc => threefold_eq_closed_mv K b₀ mvs hv hs hh hl hc

/-! ### non-vacuity of the closed theorems -/

open Rep.Example RepClosed.Example

-- the knight shuffle through the closed theorems (both forms): every hypothesis is met, the count is 2
example : (run testKeys sparseB shuffle).threefold = 2 ∧
    min 3 (occurrences (run testKeys sparseB shuffle).abs (positions sparseB.abs (shuffle.map decodeMove))) = 2 := by
  have h := threefold_eq_closed testKeys sparseB shuffle sparse_valid sparse_epNormal sparse_hashes
    shuffle_canon shuffle_legal shuffle_faithful
  exact ⟨shuffle_two, by rw [← h]; exact shuffle_two⟩

example : min 3 (occurrences (run testKeys sparseB shuffle).abs (positions sparseB.abs (shuffle.map decodeMove))) = 2 := by
  rw [← threefold_eq_closed_nocollision testKeys sparseB shuffle sparse_valid sparse_epNormal sparse_hashes
    shuffle_canon shuffle_legal shuffle_noCollision]
  exact shuffle_two

-- the rule-book form on the same game
example : (run testKeys sparseB (shuffleMv.map encodeMove)).threefold =
    min 3 (occurrences (run testKeys sparseB (shuffleMv.map encodeMove)).abs (positions sparseB.abs shuffleMv)) :=
  threefold_eq_closed_mv testKeys sparseB shuffleMv sparse_valid sparse_epNormal sparse_hashes shuffle_legalMv
    (by rw [shuffle_enc]; exact shuffle_noCollision)

/-- **a game of arbitrary length**: the shuffle repeated `n` times is a legal game without collisions
    (`RepClosed.periodic_game`: proved from the first round, not evaluated), so the closed theorem
    applies for every `n` — 4·n reversible plies. -/
example (n : Nat) : legalGame sparseB.abs (rep n shuffleMv) ∧
    NoCollision testKeys (boards testKeys sparseB (rep n shuffle)) := long_game n

example (n : Nat) : (run testKeys sparseB (rep n shuffle)).threefold =
    min 3 (occurrences (run testKeys sparseB (rep n shuffle)).abs (positions sparseB.abs (rep n shuffleMv))) :=
  long_closed n

/-- … in particular for 33 rounds = 132 reversible plies, where the engine's int8 halfmove clock has
    wrapped to −124 and the board is outside `Board.valid` (so neither `valid_make` nor
    `make_refines_rules` applies to it): the model answers 3 and, by the theorem, the position has
    occurred at least three times by the rule book. -/
example : (rep 33 shuffle).length = 132 ∧
    (run testKeys sparseB (rep 33 shuffle)).fifty = -124 ∧
    Board.valid (run testKeys sparseB (rep 33 shuffle)) = false ∧
    (run testKeys sparseB (rep 33 shuffle)).threefold = 3 ∧
    min 3 (occurrences (run testKeys sparseB (rep 33 shuffle)).abs (positions sparseB.abs (rep 33 shuffleMv))) = 3 :=
  ⟨long_length, long_clock, long_invalid, long_three, by rw [← long_closed 33]; exact long_three⟩

/-- **`hstart` of the `NoCollision` form cannot be dropped** (known finding D7): the D7 history meets
    every other hypothesis of `threefold_eq_closed_nocollision` — valid start, freshly reset history,
    canonical words, legal game, and NO collision (the five hashes are pairwise different) — but its
    start is not `epNormal`, and the conclusion fails (model 1, rule book 2). -/
example : d7B.valid = true ∧ d7B.hashes = [d7B.calcHash testKeys] ∧ Canon d7Moves ∧
    legalGame d7B.abs (d7Moves.map decodeMove) ∧ NoCollision testKeys (boards testKeys d7B d7Moves) ∧
    Rules.epNormal d7B.abs = false ∧
    (run testKeys d7B d7Moves).threefold ≠
      min 3 (occurrences (run testKeys d7B d7Moves).abs (positions d7B.abs (d7Moves.map decodeMove))) :=
  ⟨d7_valid, d7_hashes, d7_canon, d7_legal, d7_noCollision, d7_epNormal_false, d7_conclusion_fails⟩

end ChessVerif.Props.C10
