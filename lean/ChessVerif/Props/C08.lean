/-
  C08 — search results are a function of stored state, position and depth/node limits; the node
  counter never exceeds a hard budget (property theorems only).

  Determinism itself is what being a Lean function means: `Search.go c L clock fuel e b` depends on
  nothing but its arguments.  What the theorems add: the node counter respects the hard budget on
  every path, and the clock argument is irrelevant when no soft *time* limit is set.
-/
import ChessVerif.Proofs.SearchGo
import ChessVerif.Proofs.SearchTime
import ChessVerif.Proofs.SearchDemo
import ChessVerif.Proofs.SearchSoftHardGo

namespace ChessVerif.Props.C08
open ChessVerif Search

variable {σ π : Type} [PsInv σ]

/-- A hard budget `N ≥ 0` is never exceeded: if the caller's counter starts at `nodes0 ≤ N`
    (0 when the search allocates it), the counter is `≤ N` when `go` returns — for every component,
    table content, depth, stop arrival and fuel. -/
theorem nodes_le_budget (c : Comp σ π) (L : Limits) (clock : Clock) {Good : Board → Prop} (hl : Laws c Good)
    (fuel : Nat) (e : Engine σ) (b : Board) (hg : Good b) (hok : PsInv.ok e.ps) (nodes0 : Int) (hN : 0 ≤ L.nodes)
    (h0 : nodes0 ≤ L.nodes) :
    (go c L clock fuel e b nodes0).st.nodes ≤ L.nodes :=
  (go_post c L clock hl fuel e b hg hok nodes0).nodes hN h0

omit [PsInv σ] in
/-- With `softTime ≤ 0` the result (score, move, ponder move, every reported line with its time
    field blanked, node counter, tables, PV buffer, flags) does not depend on the clock oracle.
    In the model the stop signal and the ponder hit arrive at *poll indices* that are part of `L`,
    so the statement holds for every such arrival as well; with `L.stop = none`, `L.ponder = none`
    it is literally the sentence of the property. -/
theorem time_irrelevant (c : Comp σ π) (L : Limits) (clock1 clock2 : Clock) (fuel : Nat) (e : Engine σ) (b : Board)
    (nodes0 : Int) (hst : L.softTime ≤ 0) :
    (go c L clock1 fuel e b nodes0).blank = (go c L clock2 fuel e b nodes0).blank := by
  exact finish_blank c _ _ (idLoop_clock c L clock1 clock2 fuel hst 64 0
    { alpha := -Inf - 1, beta := Inf + 1, score := 0, move := 0, ponder := 0, reads := 0, ppolls := 0, out := [] } [] []
    (goInit L e b nodes0) rfl)

/-- Full statement of soft ≡ hard (a search that ended at the soft node limit after `N` nodes is
    reproduced — result, lines up to the abort notice, and persistent state — by the hard budget
    `N`); not proved here, checked by the `c08` harness suite on the real engine. -/
def C08_full_soft_eq_hard (c : Comp σ π) (clock : Clock) (Good : Board → Prop) : Prop :=
  Laws c Good → ∀ (L : Limits) (fuel : Nat) (e : Engine σ) (b : Board), Good b →
    L.nodes = -1 → L.stop = none → L.ponder = none → L.softTime ≤ 0 → 0 < L.softNodes →
    let r := go c L clock fuel e b
    r.st.fuelOut = false → r.move ≠ 0 → r.st.nodes > L.softNodes →
    let r' := go c { L with nodes := r.st.nodes, softNodes := 0 } clock fuel e b
    r'.score = r.score ∧ r'.move = r.move ∧ r'.ponder = r.ponder ∧ r'.st.nodes = r.st.nodes ∧ r'.st.ps = r.st.ps ∧
      (r'.out.filter (·.full)).map Info.blankTime = (r.out.filter (·.full)).map Info.blankTime

/-- non-vacuity -/
example (K : Keys) (clock : Clock) (fuel : Nat) (e : Engine Unit) :
    (go (demoComp K) { depth := 5, nodes := 100, softNodes := 0, softTime := 0, stop := some 7, ponder := none, output := true }
      clock fuel e Board.empty).st.nodes ≤ 100 :=
  nodes_le_budget (demoComp K) _ clock (demo_laws K) fuel e Board.empty noMen_empty trivial 0 (by decide) (by decide)

/-! ### soft node limit ≡ hard node budget (`Proofs/SearchSoftHard{Q,AB,Go}.lean`) -/

omit [PsInv σ] in
/-- Soft ≡ hard, strong form.  Let `r` be a search without hard node budget, stop channel and ponder
    channel, and `N := r.st.nodes` the node count it ended with — for whatever reason (soft node
    limit, soft time limit, depth limit, iteration 64, even fuel).  The same search with the hard
    budget `N` and the soft node limit switched off returns the same score, move and ponder move,
    the same node count, the same persistent state `ps` (transposition table, histories, generation
    counter), the same board / history stack / move-store depth / poll count / anomaly flag, and
    prints the same lines followed by AT MOST ONE extra line: the abort notice
    `info depth D+1 nodes N` of search.go:76.

    Neither `Laws`, nor `Good b`, nor `move ≠ 0`, `N > softNodes`, `0 < softNodes`, `softTime ≤ 0`,
    `fuelOut = false` are needed: while the first run has not reached its end, every
    `incrementNodes` of the second run sees `nodes < N` and the two runs are identical
    (`alphaBeta_sim`); where the first run returned at its soft limit (which requires `move ≠ 0`) the
    second one either leaves the loop too (depth limit reached, or iteration 63 was the last: then
    NO notice is printed and the two results are equal in every field) or enters the next
    iteration, whose root node is refused by `incrementNodes` before any persistent update
    (`alphaBeta_refused`): the aspiration loop sees the abort flag, the notice is printed when
    `opts.Output != nil`, and the carried score / move / ponder move are returned (`move ≠ 0`, so no
    fallback to the first legal move).

    What is NOT equal after a refused iteration (scratch fields of the `Search` object):
    * `st.pv` — the refused root call executed `s.pv.setNull(0)`, so row 0 is empty in the hard run
      while it holds the principal variation in the soft run;
    * `st.abNodes` — larger by one: Go's `opts.Counters.ABNodes++` runs after the refused
      `incrementNodes` (not when the refused root call went to `quiescence`, depth 0);
    * `st.aborted` — `true` in the hard run, `false` in the soft run (`refresh()` clears it, see
      `C06.go_reusable`);
    * `out` — the notice line. -/
theorem soft_eq_hard_strong (c : Comp σ π) (clock : Clock) (L : Limits) (fuel : Nat) (e : Engine σ) (b : Board)
    (hn : L.nodes = -1) (hs : L.stop = none) (hp : L.ponder = none) :
    let r := go c L clock fuel e b
    let r' := go c { L with nodes := r.st.nodes, softNodes := 0 } clock fuel e b
    r'.score = r.score ∧ r'.move = r.move ∧ r'.ponder = r.ponder ∧ r'.st.nodes = r.st.nodes ∧ r'.st.ps = r.st.ps ∧
      r'.st.board = r.st.board ∧ r'.st.hstack = r.st.hstack ∧ r'.st.frames = r.st.frames ∧
      r'.st.polls = r.st.polls ∧ r'.st.anomaly = r.st.anomaly ∧
      (r'.out = r.out ∨
        ∃ d, r'.out = { depth := d, full := false, score := 0, nodes := r.st.nodes, time := 0, hashfull := 0, pv := [] } :: r.out) := by
  intro r r'
  have h : HardRel r' r :=
    go_sim c (L1 := L) (L2 := { L with nodes := r.st.nodes, softNodes := 0 }) ⟨hn, hs, rfl, hs⟩ rfl rfl rfl
      (Int.le_refl 0) hp hp clock fuel e b 0 (Int.le_refl 0) rfl
  exact ⟨h.score, h.move, h.ponder, h.st.nodes, h.st.ps, h.st.board, h.st.hstack, h.st.frames, h.st.polls,
    h.st.anomaly, h.out⟩

/-- `C08_full_soft_eq_hard` holds (for every `Comp`; its hypotheses `Laws`, `Good b`, `softTime ≤ 0`,
    `0 < softNodes`, `fuelOut = false`, `move ≠ 0`, `nodes > softNodes` are not used). -/
theorem soft_eq_hard (c : Comp σ π) (clock : Clock) {Good : Board → Prop} : C08_full_soft_eq_hard c clock Good := by
  intro _ L fuel e b _ hn hs hp _ _ r _ _ _ r'
  have h : HardRel r' r :=
    go_sim c (L1 := L) (L2 := { L with nodes := r.st.nodes, softNodes := 0 }) ⟨hn, hs, rfl, hs⟩ rfl rfl rfl
      (Int.le_refl 0) hp hp clock fuel e b 0 (Int.le_refl 0) rfl
  exact ⟨h.score, h.move, h.ponder, h.st.nodes, h.st.ps, h.full_lines⟩

omit [PsInv σ] in
/-- The info lines: the hard-budget run prints the lines of the soft-limit run and at most one more,
    the abort notice `info depth d nodes N` (none when output is off, or when the soft limit was hit
    in the last iteration the depth limit / `MaxPlies` allows). -/
theorem soft_eq_hard_lines (c : Comp σ π) (clock : Clock) (L : Limits) (fuel : Nat) (e : Engine σ) (b : Board)
    (hn : L.nodes = -1) (hs : L.stop = none) (hp : L.ponder = none) :
    let r := go c L clock fuel e b
    let r' := go c { L with nodes := r.st.nodes, softNodes := 0 } clock fuel e b
    r'.out = r.out ∨
      ∃ d, r'.out = { depth := d, full := false, score := 0, nodes := r.st.nodes, time := 0, hashfull := 0, pv := [] } :: r.out :=
  (soft_eq_hard_strong c clock L fuel e b hn hs hp).2.2.2.2.2.2.2.2.2.2

/-- non-vacuity: the hypotheses of `soft_eq_hard_strong` are three equations on the options; here
    with a soft node limit of 3 on `demoComp`.  (On the boards without men — the only family with a
    hand-checked `Laws` instance — no search returns a move, so the extra hypothesis `move ≠ 0` of
    `C08_full_soft_eq_hard` cannot be exhibited there; the strong form does not have it.  Running the
    model, `#eval`, on `4k1n1/8/8/8/8/8/8/4K1N1 w` with `demoComp`, `softNodes := 3`, depth 5: the
    soft run ends after iteration 1 with `N = 10` nodes and a move; the hard run with budget 10
    returns the same move/score and prints the additional line `info depth 2 nodes 10`, with
    `abNodes` 2 instead of 1 and `aborted = true`.) -/
example (K : Keys) (clock : Clock) (fuel : Nat) (e : Engine Unit) :
    let L : Limits := { depth := 5, nodes := -1, softNodes := 3, softTime := 0, stop := none, ponder := none, output := true }
    let N := (go (demoComp K) L clock fuel e Board.empty).st.nodes
    (go (demoComp K) { L with nodes := N, softNodes := 0 } clock fuel e Board.empty).st.ps =
      (go (demoComp K) L clock fuel e Board.empty).st.ps :=
  (soft_eq_hard_strong (demoComp K) clock _ fuel e Board.empty rfl rfl rfl).2.2.2.2.1

example (K : Keys) (clock : Clock) : C08_full_soft_eq_hard (demoComp K) clock NoMen ∧ Laws (demoComp K) NoMen ∧ NoMen Board.empty :=
  ⟨soft_eq_hard _ _, demo_laws K, noMen_empty⟩

/-- non-vacuity of `nodes_le_budget` for a PONDER search with a hard budget (`WithNodes` together
    with `WithPonderHit`; at the budget the search neither counts nor aborts while pondering): the
    counter still ends `≤ N`, whether the ponder hit never arrives (`k = none`) or arrives at any poll `k`. -/
example (K : Keys) (clock : Clock) (fuel : Nat) (e : Engine Unit) (k : Option Nat) :
    (go (demoComp K) { depth := 5, nodes := 100, softNodes := 0, softTime := 0, stop := some 50, ponder := k, output := true }
      clock fuel e Board.empty).st.nodes ≤ 100 :=
  nodes_le_budget (demoComp K) _ clock (demo_laws K) fuel e Board.empty noMen_empty trivial 0
    (show (0 : Int) ≤ 100 by decide) (show (0 : Int) ≤ 100 by decide)

end ChessVerif.Props.C08
