/-
  C08 — search results are a function of stored state, position and depth/node limits; the node
  counter never exceeds a hard budget (property theorems only).

  Determinism itself is what being a Lean function means: `Search.go c L clock fuel e b` depends on
  nothing but its arguments.  What the theorems add: the node counter respects the hard budget on
  every path, and the clock argument is irrelevant when no soft *time* limit is set.
-/
import ChessVerif.Proofs.SearchGo
import ChessVerif.Proofs.SearchTime
import ChessVerif.Proofs.SearchDemo

namespace ChessVerif.Props.C08
open ChessVerif Search

variable {σ π : Type}

/-- A hard budget `N ≥ 0` is never exceeded: if the caller's counter starts at `nodes0 ≤ N`
    (0 when the search allocates it), the counter is `≤ N` when `go` returns — for every component,
    table content, depth, stop arrival and fuel. -/
theorem nodes_le_budget (c : Comp σ π) (L : Limits) (clock : Clock) {Good : Board → Prop} (hl : Laws c Good)
    (fuel : Nat) (e : Engine σ) (b : Board) (hg : Good b) (nodes0 : Int) (hN : 0 ≤ L.nodes) (h0 : nodes0 ≤ L.nodes) :
    (go c L clock fuel e b nodes0).st.nodes ≤ L.nodes :=
  (go_post c L clock hl fuel e b hg nodes0).nodes hN h0

/-- With `softTime ≤ 0` the result (score, move, ponder move, every reported line with its time
    field blanked, node counter, tables, PV buffer, flags) does not depend on the clock oracle.
    In the model the stop signal and the ponder hit arrive at *poll indices* that are part of `L`,
    so the statement holds for every such arrival as well; with `L.stop = none`, `L.ponder = none`
    it is literally the sentence of the property. -/
theorem time_irrelevant (c : Comp σ π) (L : Limits) (clock1 clock2 : Clock) (fuel : Nat) (e : Engine σ) (b : Board)
    (nodes0 : Int) (hst : L.softTime ≤ 0) :
    (go c L clock1 fuel e b nodes0).blank = (go c L clock2 fuel e b nodes0).blank := by
  exact finish_blank c _ _ (idLoop_clock c L clock1 clock2 fuel hst 64 0
    { alpha := -Inf - 1, beta := Inf + 1, score := 0, move := 0, ponder := 0, reads := 0, ppolls := 0, out := [] } [] []
    (goInit L e b nodes0) rfl)

/-- Full statement of soft ≡ hard (a search that ended at the soft node limit after `N` nodes is
    reproduced — result, lines up to the abort notice, and persistent state — by the hard budget
    `N`); not proved here, checked by the `c08` harness suite on the real engine. -/
def C08_full_soft_eq_hard (c : Comp σ π) (clock : Clock) (Good : Board → Prop) : Prop :=
  Laws c Good → ∀ (L : Limits) (fuel : Nat) (e : Engine σ) (b : Board), Good b →
    L.nodes = -1 → L.stop = none → L.ponder = none → L.softTime ≤ 0 → 0 < L.softNodes →
    let r := go c L clock fuel e b
    r.st.fuelOut = false → r.move ≠ 0 → r.st.nodes > L.softNodes →
    let r' := go c { L with nodes := r.st.nodes, softNodes := 0 } clock fuel e b
    r'.score = r.score ∧ r'.move = r.move ∧ r'.ponder = r.ponder ∧ r'.st.nodes = r.st.nodes ∧ r'.st.ps = r.st.ps ∧
      (r'.out.filter (·.full)).map Info.blankTime = (r.out.filter (·.full)).map Info.blankTime

/-- non-vacuity -/
example (K : Keys) (clock : Clock) (fuel : Nat) (e : Engine Unit) :
    (go (demoComp K) { depth := 5, nodes := 100, softNodes := 0, softTime := 0, stop := some 7, ponder := none, output := true }
      clock fuel e Board.empty).st.nodes ≤ 100 :=
  nodes_le_budget (demoComp K) _ clock (demo_laws K) fuel e Board.empty noMen_empty 0 (by decide) (by decide)

end ChessVerif.Props.C08
