/-
  C08 for the REAL components — closed theorems (no `Laws` hypothesis); see Props/C06real.lean for the
  vocabulary (`realComp K`, the state invariant `PSok`, `Session`).

  `nodes_le_budget_real` needs the laws (the node counter is threaded through make/undo frames);
  `time_irrelevant_real` and the soft ≡ hard theorems hold for every component record and are
  restated for `realComp K` only so that the C08 sentence is on record for the real search: the
  persistent state compared by `soft_eq_hard_real` is the REAL one (`PS`: transposition table
  buckets, generation byte, the four history stores).
-/
import ChessVerif.Props.C08
import ChessVerif.Props.C06real

namespace ChessVerif.Props.C08real
open ChessVerif Search SearchReal

/-- A hard budget `N ≥ 0` is never exceeded (also while pondering), for every valid root, limits,
    clock, stop arrival, fuel and admissible prior engine state. -/
theorem nodes_le_budget_real (K : Keys) (L : Limits) (clock : Clock) (fuel : Nat) (e : Engine PS) (b : Board)
    (hv : Board.valid b = true) (hok : PSok e.ps) (nodes0 : Int) (hN : 0 ≤ L.nodes) (h0 : nodes0 ≤ L.nodes) :
    (go (realComp K) L clock fuel e b nodes0).st.nodes ≤ L.nodes :=
  Props.C08.nodes_le_budget (realComp K) L clock (realComp_laws K) fuel e b hv hok nodes0 hN h0

/-- With `softTime ≤ 0` the result does not depend on the clock (any board, any engine state). -/
theorem time_irrelevant_real (K : Keys) (L : Limits) (clock1 clock2 : Clock) (fuel : Nat) (e : Engine PS) (b : Board)
    (nodes0 : Int) (hst : L.softTime ≤ 0) :
    (go (realComp K) L clock1 fuel e b nodes0).blank = (go (realComp K) L clock2 fuel e b nodes0).blank :=
  Props.C08.time_irrelevant (realComp K) L clock1 clock2 fuel e b nodes0 hst

/-- Soft ≡ hard for the real search: a run without hard budget, stop and ponder channel that ended
    after `N` nodes is reproduced by the hard budget `N` — score, move, ponder move, node count, the
    whole persistent state (table, generation, histories), board, stacks — and prints the same lines
    plus at most the abort notice (any board, any engine state; see `Props.C08.soft_eq_hard_strong`). -/
theorem soft_eq_hard_real (K : Keys) (clock : Clock) (L : Limits) (fuel : Nat) (e : Engine PS) (b : Board)
    (hn : L.nodes = -1) (hs : L.stop = none) (hp : L.ponder = none) :
    let r := go (realComp K) L clock fuel e b
    let r' := go (realComp K) { L with nodes := r.st.nodes, softNodes := 0 } clock fuel e b
    r'.score = r.score ∧ r'.move = r.move ∧ r'.ponder = r.ponder ∧ r'.st.nodes = r.st.nodes ∧ r'.st.ps = r.st.ps ∧
      r'.st.board = r.st.board ∧ r'.st.hstack = r.st.hstack ∧ r'.st.frames = r.st.frames ∧
      r'.st.polls = r.st.polls ∧ r'.st.anomaly = r.st.anomaly ∧
      (r'.out = r.out ∨
        ∃ d, r'.out = { depth := d, full := false, score := 0, nodes := r.st.nodes, time := 0, hashfull := 0, pv := [] } :: r.out) :=
  Props.C08.soft_eq_hard_strong (realComp K) clock L fuel e b hn hs hp

theorem soft_eq_hard_lines_real (K : Keys) (clock : Clock) (L : Limits) (fuel : Nat) (e : Engine PS) (b : Board)
    (hn : L.nodes = -1) (hs : L.stop = none) (hp : L.ponder = none) :
    let r := go (realComp K) L clock fuel e b
    let r' := go (realComp K) { L with nodes := r.st.nodes, softNodes := 0 } clock fuel e b
    r'.out = r.out ∨
      ∃ d, r'.out = { depth := d, full := false, score := 0, nodes := r.st.nodes, time := 0, hashfull := 0, pv := [] } :: r.out :=
  Props.C08.soft_eq_hard_lines (realComp K) clock L fuel e b hn hs hp

/-! ### non-vacuity -/

open C05 (start)
open C02core (start_valid)

example (K : Keys) (clock : Clock) (fuel : Nat) (k : Option Nat) :
    (go (realComp K) { depth := 5, nodes := 100, softNodes := 0, softTime := 0, stop := some 50, ponder := k, output := true }
      clock fuel (newEngine 1024) start).st.nodes ≤ 100 :=
  nodes_le_budget_real K _ clock fuel _ start start_valid (Props.C06real.newEngine_ok 1024) 0
    (show (0 : Int) ≤ 100 by decide) (show (0 : Int) ≤ 100 by decide)

end ChessVerif.Props.C08real
