/-
  C16 (arithmetic part) — history counters stay in range and the move-weight bands cannot collide.

  Statements are about `Gen.Funcs.histAdd` (= `contAdd` = `captAdd`: the extractor checks the three Go
  update formulas are the same and emits `contAdd_eq_histAdd`, `captAdd_eq_histAdd`), the Lean
  translation of `h += cb − Score(int(h)·int(Abs(cb)) / int(MaxHistory))`, `cb = Clamp(bonus, ∓MaxHistory)`
  with its int16/int conversions, and about the constants of /repo/heur/heur.go as extracted into Gen
  (`MaxHistory`, `Captures`, `CaptureRange`, `HashMove`).  They are the `Bands` facts the picker
  theorem (C16) needs:  good captures ∈ [Captures, Captures + CaptureRange) < HashMove, quiets within
  ±3·MaxHistory ≤ Captures, bad captures ∈ [−Captures − CaptureRange, −Captures) < −3·MaxHistory, and every
  real weight > −HashMove + 1 (the picker's filter; −HashMove marks an already-yielded hash move).
-/
import ChessVerif.Proofs.Hist

namespace ChessVerif.Props.C16hist
open ChessVerif ChessVerif.Gen.Funcs ChessVerif.Proofs.Hist

/-- One update: from |h| ≤ MaxHistory and EVERY bonus (every int16, indeed every integer) the new value
    again satisfies |h'| ≤ MaxHistory. -/
theorem hist_step_bound {h : Int} (hh : -MaxHistory ≤ h ∧ h ≤ MaxHistory) (bonus : Int) :
    -MaxHistory ≤ histAdd h bonus ∧ histAdd h bonus ≤ MaxHistory :=
  (histAdd_exact_bound (bonus := bonus) hh).2

/-- …and no int16 (or int64) wrap-around happens on the way: the translated update, which wraps at
    every operation, equals `histAdd_ideal`, the extractor's rendering of the same Go statement over exact
    integers: `h + (c − trunc(h·|c| / MaxHistory))`, `c` = bonus clamped to ±MaxHistory. -/
theorem hist_step_exact {h : Int} (hh : -MaxHistory ≤ h ∧ h ≤ MaxHistory) (bonus : Int) :
    histAdd h bonus = histAdd_ideal h bonus :=
  (histAdd_exact_bound (bonus := bonus) hh).1

/-- Any sequence of updates starting from a cleared counter stays in range (induction on the run). -/
theorem hist_run_bound (bonuses : List Int) :
    -MaxHistory ≤ histRun 0 bonuses ∧ histRun 0 bonuses ≤ MaxHistory :=
  histRun_ok histOK_zero bonuses

/-- The same for the continuation and capture stores (same formula), e.g. continuation[1], which is
    fed `value/2` (Go: `Score` division, here `wrapS16 (goDiv v 2)`), and the capture history. -/
theorem cont_capt_run_bound (values : List Int) :
    HistOK ((values.map fun v => wrapS16 (goDiv v 2)).foldl contAdd 0) ∧ HistOK (values.foldl captAdd 0) := by
  rw [contAdd_eq_histAdd, captAdd_eq_histAdd]
  exact ⟨histRun_ok histOK_zero _, histRun_ok histOK_zero _⟩

/-- Quiet weight = history + continuation[0] + continuation[1], added in int16: exact, within ±3·MaxHistory. -/
theorem quiet_weight_bound {a b c : Int} (ha : HistOK a) (hb : HistOK b) (hc : HistOK c) :
    wrapS16 (wrapS16 (a + b) + c) = a + b + c ∧ -(3 * MaxHistory) ≤ a + b + c ∧ a + b + c ≤ 3 * MaxHistory :=
  quiet_sum ha hb hc

/-- The layout inequality checked by `heur.init` (here proved of the extracted constants). -/
theorem layout_quiets_below_captures : 3 * MaxHistory ≤ Captures := by decide

/-- Good captures (`Captures + s`, `0 ≤ s < CaptureRange`) lie strictly above every quiet and strictly
    below the hash-move weight, and are positive (the good-noisy stage yields weights > 0). -/
theorem layout_good_captures {s : Int} (h0 : 0 ≤ s) (h1 : s < CaptureRange) :
    3 * MaxHistory < Captures + s + 1 ∧ Captures + s < HashMove ∧ 0 < Captures + s ∧ Captures + s ≤ 32767 := by
  simp only [MaxHistory, Captures, HashMove, CaptureRange] at *; omega

/-- Bad captures (`−Captures − CaptureRange + s`) lie strictly below every quiet, are not positive
    (so the good-noisy stage skips them) and are above the sentinel threshold. -/
theorem layout_bad_captures {s : Int} (h0 : 0 ≤ s) (h1 : s < CaptureRange) :
    -Captures - CaptureRange + s < -(3 * MaxHistory) ∧ -Captures - CaptureRange + s < 0 ∧
      -HashMove + 1 < -Captures - CaptureRange + s := by
  simp only [MaxHistory, Captures, HashMove, CaptureRange] at *; omega

/-- Every real weight (good capture, quiet, bad capture) is > −HashMove + 1, so none is filtered out
    by the last stage and none equals the marker −HashMove; the hash weight itself fits in int16. -/
theorem weights_above_sentinel {wt s : Int} (h0 : 0 ≤ s) (h1 : s < CaptureRange)
    (hw : wt = Captures + s ∨ wt = -Captures - CaptureRange + s ∨ (-(3 * MaxHistory) ≤ wt ∧ wt ≤ 3 * MaxHistory)) :
    -HashMove + 1 < wt ∧ wt < HashMove ∧ wt ≠ -HashMove ∧ HashMove ≤ 32767 ∧ -32768 ≤ -HashMove := by
  simp only [MaxHistory, Captures, HashMove, CaptureRange] at *; omega

/-- `RankNoisy`'s score term `promo·6·7 + victim·6 + (King − attacker)` is exact in int16 and within
    `[0, CaptureRange)` for piece codes in range, so the two capture bands above apply to it. -/
theorem noisy_score_in_band {p v i : Int} (hp : 0 ≤ p ∧ p ≤ 4) (hv : 0 ≤ v ∧ v ≤ 6) (hi : 0 ≤ i ∧ i ≤ 6) :
    noisyScore p v i = p * 42 + v * 6 + i ∧ 0 ≤ noisyScore p v i ∧ noisyScore p v i < CaptureRange :=
  noisyScore_range hp hv hi

/-! ## Non-vacuity (stated relative to the Gen constants) -/

example : HistOK MaxHistory ∧ HistOK (-MaxHistory) ∧ HistOK 0 := by decide
/-- a saturated counter pushed further stays saturated; pushed back by the largest malus it flips to the
    other end; a small counter moves by about the bonus -/
example : histAdd MaxHistory 32767 = MaxHistory ∧ histAdd MaxHistory (-32768) = -MaxHistory ∧ histAdd 0 5 = 5 ∧
    histAdd (-7) (-300) < -300 := by decide
example : HistOK (histRun 0 [MaxHistory, 32767, -300, 77]) ∧ histRun 0 [MaxHistory, 32767, -300, 77] ≠ 0 := by decide
/-- the largest `RankNoisy` score term (queen promotion capturing, by a piece code 0) is inside the band -/
example : noisyScore 4 6 6 = 210 ∧ (0 : Int) ≤ 210 ∧ (210 : Int) < CaptureRange := by decide

end ChessVerif.Props.C16hist
