/-
  BitLoop — the Go bit-loop idiom is iteration over `bits` (property theorems only).

  Every model in this framework renders

      for x != 0 { sq := x.LowestSet() /* bits.TrailingZeros64 */ ; body(sq); x &= x - 1 }

  and its variants (`piece := x & -x`; `x ^= t` with `t = x & -x`) as iteration over `bits x`, the
  ascending list of set bit positions.  `Model/BitLoop.lean` renders the idiom literally on
  `BitVec 64` (uint64 wrap-around `-`, unary `-`, `&`, `^`; `tz` scans for the first set bit and
  never mentions `bits`); the theorems below turn the rendering from an assumption into a theorem.
  All statements are for arbitrary `x : BB`; no `decide` over 64-bit universals is involved.
-/
import ChessVerif.Proofs.BitLoop

namespace ChessVerif.Props.BitLoop
open ChessVerif ChessVerif.Model.BitLoop

/-! ### `LowestSet` and the three bit tricks -/

/-- `bits.TrailingZeros64` (scan for the first set bit, 64 if none) is `lowestSet`
    (the head of `bits x`, default 64). -/
theorem tz_eq_lowestSet (x : BB) : tz x = lowestSet x := Proofs.BitLoop.tz_eq_lowestSet x

/-- `tz x < 64` exactly when the loop condition `x != 0` holds, and then bit `tz x` is set and
    nothing below it is. -/
theorem tz_spec {x : BB} (h : x ≠ 0) :
    tz x < 64 ∧ x.getLsbD (tz x) = true ∧ ∀ j, j < tz x → x.getLsbD j = false :=
  ⟨Proofs.BitLoop.tz_lt_of_ne_zero h, Proofs.BitLoop.tz_set_of_ne_zero h,
    fun _ hj => Proofs.BitLoop.tz_below hj⟩

theorem tz_zero : tz (0 : BB) = 64 := Proofs.BitLoop.tz_zero

/-- `x &= x - 1` clears exactly the lowest set bit. -/
theorem clearLowest_getLsbD {x : BB} (h : x ≠ 0) :
    ∀ i, (x &&& (x - 1)).getLsbD i = (x.getLsbD i && decide (i ≠ tz x)) :=
  Proofs.BitLoop.clearLowest_getLsbD h

/-- `x & -x` is the one-bit board of the lowest set bit. -/
theorem isolateLowest_eq {x : BB} (h : x ≠ 0) : x &&& (-x) = bit (tz x) :=
  Proofs.BitLoop.isolateLowest_eq h

/-- `x ^= (x & -x)` is the same step as `x &= x - 1` (also for `x = 0`). -/
theorem xor_isolate_eq_clear (x : BB) : x ^^^ (x &&& (-x)) = x &&& (x - 1) :=
  Proofs.BitLoop.xor_isolate_eq_clear x

/-- The named forms used in `Model/BitLoop.lean`. -/
theorem clearLowest_def (x : BB) : clearLowest x = x &&& (x - 1) := rfl
theorem isolateLowest_def (x : BB) : isolateLowest x = x &&& (-x) := rfl

/-- One loop iteration peels the head off `bits`. -/
theorem bits_cons {x : BB} (h : x ≠ 0) : bits x = tz x :: bits (x &&& (x - 1)) :=
  Proofs.BitLoop.bits_cons h

/-! ### The loop -/

/-- The literal loop visits exactly `bits x`, in that order; 64 iterations always suffice. -/
theorem goLoop_eq_bits (x : BB) : goLoop 64 x = bits x :=
  Proofs.BitLoop.goLoop_eq_bits_of_ge (Nat.le_refl 64) x

/-- More fuel changes nothing: the cut-off is never reached. -/
theorem goLoop_eq_bits_of_ge {fuel : Nat} (h : 64 ≤ fuel) (x : BB) : goLoop fuel x = bits x :=
  Proofs.BitLoop.goLoop_eq_bits_of_ge h x

/-- `popcount x` iterations suffice (and are needed: the list has that length). -/
theorem goLoop_eq_bits_of_popcount_le {fuel : Nat} {x : BB} (h : popcount x ≤ fuel) :
    goLoop fuel x = bits x :=
  Proofs.BitLoop.goLoop_eq_bits_of_le fuel x h

/-- Fold form: any loop body accumulates as the fold over `bits x`. -/
theorem goLoop_foldl {α : Type} (f : α → Nat → α) (init : α) (x : BB) :
    (goLoop 64 x).foldl f init = (bits x).foldl f init := by
  rw [goLoop_eq_bits]

/-- The loop with the body inlined (`acc = f(acc, x.LowestSet()); x &= x - 1`). -/
theorem goFold_eq_foldl {α : Type} (f : α → Nat → α) (init : α) (x : BB) :
    goFold f 64 init x = (bits x).foldl f init :=
  Proofs.BitLoop.goFold_eq_foldl_of_ge f (Nat.le_refl 64) init x

/-- The loop variable really is 0 after 64 steps of `x &= x - 1` (the Go loop has exited). -/
theorem loop_terminates (x : BB) : Nat.repeat (fun y : BB => y &&& (y - 1)) 64 x = 0 := by
  apply Proofs.BitLoop.eq_zero_of_bits_nil
  rw [Proofs.BitLoop.iterate_clear_bits]
  exact List.drop_eq_nil_of_le (Proofs.BitLoop.popcount_le x)

/-- After `n` steps the remaining board holds exactly the not yet visited squares. -/
theorem loop_state (x : BB) (n : Nat) :
    bits (Nat.repeat (fun y : BB => y &&& (y - 1)) n x) = (bits x).drop n :=
  Proofs.BitLoop.iterate_clear_bits x n

/-- Variant `piece := x & -x` (one-bit boards instead of squares). -/
theorem goLoopIso_eq (x : BB) : goLoopIso 64 x = (bits x).map bit :=
  Proofs.BitLoop.goLoopIso_eq_of_ge (Nat.le_refl 64) x

/-- Variant `t = x & -x; to := t.LowestSet(); x ^= t` (movegen.go pawn captures). -/
theorem goLoopXor_eq (x : BB) : goLoopXor 64 x = bits x :=
  Proofs.BitLoop.goLoopXor_eq_of_ge (Nat.le_refl 64) x

/-! ### Counting -/

/-- `popcount` (length of `bits`) is the number of iterations of the loop. -/
theorem popcount_eq (x : BB) : popcount x = (goLoop 64 x).length := by
  rw [goLoop_eq_bits]; rfl

/-- Kernighan's counting loop computes `popcount`. -/
theorem popcount'_eq (x : BB) : popcount' 64 x = popcount x :=
  Proofs.BitLoop.popcount'_eq_of_ge (Nat.le_refl 64) x

theorem popcount_le (x : BB) : popcount x ≤ 64 := Proofs.BitLoop.popcount_le x

/-- Go's `IsPow2` (`bb&(bb-1) == 0 && bb != 0`) holds exactly for the one-bit boards. -/
theorem isPow2_iff (x : BB) : isPow2 x = true ↔ ∃ k < 64, x = bit k :=
  Proofs.BitLoop.isPow2_iff x

/-! ### Non-vacuity: concrete boards (a1, a2, h8 / wrap-around at bit 63 / the full board) -/

example : (0x8000000000000101#64 : BB) ≠ 0 := by decide
example : tz (0x8000000000000101#64 : BB) = 0 ∧ tz (0x8000000000000000#64 : BB) = 63 := by decide
example : goLoop 64 (0x8000000000000101#64 : BB) = [0, 8, 63] := by decide
example : goLoop 2 (0x8000000000000101#64 : BB) = [0, 8] := by decide   -- the cut-off is real
example : goLoopXor 64 (0x8000000000000101#64 : BB) = [0, 8, 63] := by decide
example : goLoopIso 64 (0x8000000000000100#64 : BB) = [bit 8, bit 63] := by decide
example : (0x8000000000000000#64 : BB) &&& (-(0x8000000000000000#64 : BB)) = bit 63 := by decide
example : (goLoop 64 fullBB).length = 64 := by decide
example : popcount' 64 fullBB = 64 ∧ popcount' 63 fullBB = 63 := by decide
example : isPow2 (bit 63) = true ∧ isPow2 (0x8000000000000101#64 : BB) = false
    ∧ isPow2 (0 : BB) = false := by decide

end ChessVerif.Props.BitLoop
