/-
  Property C12 — attack tables equal ray-walking geometry.

  "For every square and every occupancy of the board, the sliding-piece attack sets returned for
   bishops and rooks equal the squares reached by walking each ray up to and including the first
   occupied square; king, knight and pawn attack/push sets equal their geometric definitions for every
   square and colour; and the in-between table, end squares disregarded, holds exactly the squares
   strictly between two aligned squares and nothing for unaligned ones."

  Left-hand sides: the executable model of /repo/attacks (Model/Attacks.lean) over the tables
  extracted from /repo (Gen/Tables.lean).  Right-hand sides: the coordinate-arithmetic spec
  (Spec/Geometry.lean).  `occ` and `b` range over all of `BitVec 64`.
-/
import ChessVerif.Proofs.AttacksSliders
import ChessVerif.Proofs.Between.All
import ChessVerif.Proofs.AttacksDecl

namespace ChessVerif.C12
open ChessVerif

/-- Bishop: magic lookup = the four diagonal ray walks, every square, every one of the 2^64 occupancies. -/
theorem bishopMoves_eq : ∀ sq, sq < 64 → ∀ occ : BB,
    Attacks.bishopMoves sq occ = Geometry.bishopRay occ sq :=
  fun sq h occ => AttacksProofs.bishopMoves_eq sq h occ

/-- Rook: magic lookup = the four orthogonal ray walks, every square, every one of the 2^64 occupancies. -/
theorem rookMoves_eq : ∀ sq, sq < 64 → ∀ occ : BB,
    Attacks.rookMoves sq occ = Geometry.rookRay occ sq :=
  fun sq h occ => AttacksProofs.rookMoves_eq sq h occ

/-- King table = squares at Chebyshev distance 1. -/
theorem kingMoves_eq : ∀ sq, sq < 64 → Attacks.kingMoves sq = Geometry.kingSet sq :=
  AttacksProofs.kingMoves_eq

/-- Knight table = squares one step along one axis and two along the other. -/
theorem knightMoves_eq : ∀ sq, sq < 64 → Attacks.knightMoves sq = Geometry.knightSet sq :=
  AttacksProofs.knightMoves_eq

/-- Pawn capture shift formula = one rank forward, one file aside, for any set of pawns, both colours. -/
theorem pawnCapture_eq : ∀ (b : BB) (c : Color),
    Attacks.pawnCaptureMoves b c = Geometry.pawnCaptureSet b c :=
  AttacksProofs.pawnCapture_eq

/-- Pawn push shift formula = the square directly in front, for any set of pawns, both colours. -/
theorem pawnPush_eq : ∀ (b : BB) (c : Color),
    Attacks.pawnSinglePushMoves b c = Geometry.pawnPushSet b c :=
  AttacksProofs.pawnPush_eq

/-- In-between table, both end squares masked off = the squares strictly between two aligned
    squares, and nothing for unaligned ones (`Geometry.strictlyBetween` is `0` then). -/
theorem inBetween_eq : ∀ a, a < 64 → ∀ b, b < 64 →
    Attacks.inBetween a b &&& ~~~(bit a ||| bit b) = Geometry.strictlyBetween a b := by
  intro a ha b hb
  rw [AttacksProofs.inBetween_cell a b ha hb]
  exact AttacksProofs.betweenRow_all a ha b hb

/-- Unaligned squares have nothing strictly between them (so `inBetween_eq` says the masked table
    entry is `0` there). -/
theorem strictlyBetween_unaligned (a b : Nat) (h : Geometry.aligned a b = false) :
    Geometry.strictlyBetween a b = 0 := by
  simp [Geometry.strictlyBetween, h]

/-- Declarative reading of `rookMoves_eq`: the model's rook lookup attacks `t` from `s` iff the squares
    share a file or rank, differ, and every square strictly between them is empty. -/
theorem rookMoves_iff (occ : BB) (s t : Nat) (hs : s < 64) (ht : t < 64) :
    (Attacks.rookMoves s occ).getLsbD t = true ↔
      (fileOf s = fileOf t ∨ rankOf s = rankOf t) ∧ s ≠ t ∧
        ∀ u, (Geometry.strictlyBetween s t).getLsbD u = true → occ.getLsbD u = false := by
  rw [rookMoves_eq s hs]; exact AttacksProofs.mem_rookRay occ s t hs ht

/-- Declarative reading of `bishopMoves_eq` (same diagonal ⇔ equal file and rank distance). -/
theorem bishopMoves_iff (occ : BB) (s t : Nat) (hs : s < 64) (ht : t < 64) :
    (Attacks.bishopMoves s occ).getLsbD t = true ↔
      Geometry.fileDist s t = Geometry.rankDist s t ∧ s ≠ t ∧
        ∀ u, (Geometry.strictlyBetween s t).getLsbD u = true → occ.getLsbD u = false := by
  rw [bishopMoves_eq s hs]; exact AttacksProofs.mem_bishopRay occ s t hs ht

/-! ### Non-vacuity / sanity: concrete instances (the hypotheses are just `sq < 64`) -/

-- a rook on a1 (0) with blockers on a3 (16) and c1 (2), plus an irrelevant off-ray bit h8 (63)
example : Attacks.rookMoves 0 (bit 16 ||| bit 2 ||| bit 63) = bit 8 ||| bit 16 ||| bit 1 ||| bit 2 := by
  rw [rookMoves_eq 0 (by decide)]; decide
-- a bishop on d4 (27) blocked on f6 (45): the a1–h8 diagonal stops there
example : Attacks.bishopMoves 27 (bit 45) =
    bit 36 ||| bit 45 ||| bit 34 ||| bit 41 ||| bit 48 ||| bit 20 ||| bit 13 ||| bit 6 ||| bit 18 ||| bit 9 ||| bit 0 := by
  rw [bishopMoves_eq 27 (by decide)]; decide
-- king on a1, knight on b1
example : Attacks.kingMoves 0 = bit 1 ||| bit 8 ||| bit 9 := by rw [kingMoves_eq 0 (by decide)]; decide
example : Attacks.knightMoves 1 = bit 16 ||| bit 18 ||| bit 11 := by rw [knightMoves_eq 1 (by decide)]; decide
-- white pawns on a2 and h2 capture towards b3 and g3 only (no wrap around the board edge)
example : Attacks.pawnCaptureMoves (bit 8 ||| bit 15) .white = bit 17 ||| bit 22 := by
  rw [pawnCapture_eq]; decide
-- a black pawn on e7 (52) pushes to e6 (44)
example : Attacks.pawnSinglePushMoves (bit 52) .black = bit 44 := by rw [pawnPush_eq]; decide
-- between a1 and d4: b2, c3; between a1 and b3 (unaligned): nothing
example : Attacks.inBetween 0 27 &&& ~~~(bit 0 ||| bit 27) = bit 9 ||| bit 18 := by
  rw [inBetween_eq 0 (by decide) 27 (by decide)]; decide
example : Attacks.inBetween 0 17 &&& ~~~(bit 0 ||| bit 17) = 0 := by
  rw [inBetween_eq 0 (by decide) 17 (by decide)]; decide

end ChessVerif.C12
