/-
  Property C15 — transposition table.

  "After any sequence of stores and clears on a table of any supported size (a resize being followed
  by a clear), a probe that hits returns the depth, bound type and score most recently stored under
  the probed key's bucket and signature — mate distances re-based from the storing ply to the
  probing ply, all other scores unchanged — together with the latest non-null move stored for it
  while it stayed in the table, and never data stored under a different signature or bucket.  A
  probe immediately after a store of the same key hits and reflects that store, except that a bound
  does not displace a same-search entry for that key that is more than two plies deeper.  A store
  makes at most one other key of its bucket unreachable."

  Reading.  `Table.run (Table.new size) ops` is the model table after the operations `ops`
  (`store`, `clear`, `resizeClear n` = Resize(n) then Clear()) on a fresh table of `size` bytes;
  `Table.lookUp` is `LookUp`, `Entry.depth/typ/valueAt q/move` are `Depth()/Type()/Value(q)/Move`.
  `Op.Valid`: depth 0..63, bound type ≤ 2, resize sizes a positive multiple of 32 (else Go panics).
  A key is (bucket index, 16-bit signature).  Signature 0 is a legitimate key value that the table
  cannot tell from "empty": the clauses that hold for it are stated for all keys
  (`probe_after_store`, `store_evicts_at_most_one`), the history clauses need `sigOf h ≠ 0`
  (`probe_hit_is_last_store`, `no_phantom`, `clear_empty`), and `sig0_phantom` shows that the
  exclusion is necessary.
-/
import ChessVerif.Proofs.TranspClauses
import ChessVerif.Proofs.TranspSig0

namespace ChessVerif.Props.C15
open ChessVerif ChessVerif.Model.Transp
open ChessVerif.Spec.AbstractTT (sigOf Stored State LastStore rebased mateThreshold ValidSize Run)

/-- **match64_spec.**  For all 2^80 inputs: `match64 w key` is the lowest lane of `w` equal to
    `key`, and fails exactly when no lane matches (the borrow false positives of the zero-lane
    trick only occur above the lowest true match). -/
theorem match64_spec (w : BitVec 64) (key : BitVec 16) :
    (∀ j, match64 w key = some j ↔ (j < 4 ∧ lane w j = key ∧ ∀ i, i < j → lane w i ≠ key)) ∧
    (match64 w key = none ↔ ∀ i, i < 4 → lane w i ≠ key) :=
  ⟨fun j => match64_some_iff w key j, match64_none_iff w key⟩

/-- **bucketIx_lt.**  The bucket index is in range for every non-empty table of any length (no
    upper bound on `n` is needed), and below 2^32 buckets it is Lemire's `⌊h32·n / 2^32⌋`. -/
theorem bucketIx_lt (h : BitVec 64) (n : Nat) (hn : 0 < n) :
    bucketIx h n < n ∧ (n < 2 ^ 32 → bucketIx h n = (h.toNat % 2 ^ 32) * n / 2 ^ 32) :=
  ⟨Model.Transp.bucketIx_lt h n hn, bucketIx_eq h n⟩

/-- **value_rebase.**  An entry whose score field was produced by `Insert` from score `v` at ply `p`
    answers `Value(q) = v + p − q` if `v > Inf−MaxPlies`, `v − p + q` if `v < −(Inf−MaxPlies)`, `v`
    otherwise — without int16 wrap-around for `|v| ≤ 32640` and plies in `[0,127]` (this covers
    `|v| ≤ Inf + MaxPlies`, plies `≤ 64`).  The re-based stored value never crosses a threshold
    (`storedValue_mate_iff`), and the scores `±(Inf−MaxPlies)` themselves — which
    `Score.IsMate` counts as mate scores — are returned unchanged (`rebased_boundary`). -/
theorem value_rebase (e : Entry) (v p q : Int) (he : e.value = storedValue v p)
    (hv : -32640 ≤ v ∧ v ≤ 32640) (hp : 0 ≤ p ∧ p ≤ 127) (hq : 0 ≤ q ∧ q ≤ 127) :
    e.valueAt q = rebased v p q ∧
    (storedValue v p > mateThreshold ↔ v > mateThreshold) ∧
    (storedValue v p < -mateThreshold ↔ v < -mateThreshold) :=
  ⟨value_rebase' e v p q he hv hp hq, storedValue_mate_iff v p hv hp⟩

theorem rebased_boundary (p q : Int) :
    rebased mateThreshold p q = mateThreshold ∧ rebased (-mateThreshold) p q = -mateThreshold :=
  value_rebase_boundary p q

/-- **NoDupSig is an invariant**: after any valid operation sequence on a fresh table, in every
    bucket the non-zero signatures are pairwise distinct (and the table is non-empty). -/
theorem noDupSig_invariant (size : Nat) (hsize : ValidSize size) (ops : List Op)
    (hv : ∀ op, op ∈ ops → op.Valid) :
    let t := (Table.new size).run ops
    0 < t.size ∧ ∀ b, b < t.size → NoDupSig (t.bucket b) :=
  (refines size hsize ops hv).choose_spec.2.2

/-- `NoDupSig` is preserved by `Insert` on a bucket, for arbitrary arguments. -/
theorem noDupSig_insert (b : Bucket) (key : BitVec 16) (gen : BitVec 8) (d ply : Int)
    (sm : BitVec 16) (value : Int) (typ : BitVec 8) (h : NoDupSig b) :
    NoDupSig (b.insert key gen d ply sm value typ) :=
  NoDupSig_insert b key gen d ply sm value typ h

/-- **probe_after_store** (every key, signature 0 included; arbitrary arguments; any non-empty
    table).  Let `found` be what a probe of the key answers before the store.
    * If `found` is an entry for which the keep-deeper test of the code holds — the store is not
      `Exact`, the entry's depth is `> int8(d + 2)` and its generation is the storing one — the table
      is unchanged.
    * Otherwise a probe right after the store hits and returns exactly the entry written by the
      store: depth/type as packed from `d`/`typ`, the re-based score, the storing generation, and
      the move `sm`, or for a null move the move of `found` (0 if there was none). -/
theorem probe_after_store (t : Table) (ht : 0 < t.size) (s : StoreArgs) :
    (∀ old, t.lookUp s.hash = some old → keepCond old s.gen s.d s.typ → t.step (.store s) = t) ∧
    ((∀ old, t.lookUp s.hash = some old → ¬ keepCond old s.gen s.d s.typ) →
      (t.step (.store s)).lookUp s.hash =
        some (mkEntry (keptMove (t.lookUp s.hash) s.mv) s.value s.ply s.d s.typ s.gen)) := by
  constructor
  · intro old hl hk
    rw [Table.lookUp_eq] at hl
    exact Table.insert_eq_self t s (Bucket.insert_keep _ _ _ _ _ _ _ _ old hl hk)
  · intro hn
    rw [Table.lookUp_store_self t ht s, Table.lookUp_eq]
    exact Bucket.insert_probe _ _ _ _ _ _ _ _ (fun old hl => hn old (by rw [Table.lookUp_eq]; exact hl))

/-- What the written entry answers, for arguments in the property's domain. -/
theorem written_entry_reads (s : StoreArgs) (hv : s.Valid) (mv : BitVec 16) (q : Int)
    (hval : -32640 ≤ s.value ∧ s.value ≤ 32640) (hp : 0 ≤ s.ply ∧ s.ply ≤ 127) (hq : 0 ≤ q ∧ q ≤ 127) :
    let e := mkEntry mv s.value s.ply s.d s.typ s.gen
    e.depth = s.d ∧ e.typ = s.typ ∧ e.valueAt q = rebased s.value s.ply q ∧ e.move = mv := by
  have hp' := pack_depth_typ s.d s.typ ⟨hv.1, hv.2.1⟩ (by have := hv.2.2; omega) mv
    (storedValue s.value s.ply) s.gen
  exact ⟨hp'.1, hp'.2, value_rebase' _ _ _ _ rfl hval hp hq, rfl⟩

/-- With `d` in `0..63` the keep-deeper test is literally "more than two plies deeper". -/
theorem keepCond_domain (old : Entry) (gen : BitVec 8) (d : Int) (typ : BitVec 8)
    (hd : 0 ≤ d ∧ d ≤ 63) :
    keepCond old gen d typ ↔ (typ ≠ exact ∧ old.depth > d + 2 ∧ old.gen = gen) := by
  unfold keepCond
  have : wrapS8 (d + Gen.Transp.keepDeeperMargin) = d + 2 := by
    simp only [Gen.Transp.keepDeeperMargin]; unfold wrapS8; omega
  rw [this]

/-- **probe_hit_is_last_store.**  After any valid operation sequence on a fresh table, a probe of a
    key with non-zero signature that hits returns the most recent effective store under the probed
    key's bucket and signature (`LastStore`: its depth, type, score and ply, generation, and its
    move if non-null; later stores to the key were all bounds dropped by the keep-deeper rule),
    with the score re-based to the probing ply. -/
theorem probe_hit_is_last_store (size : Nat) (hsize : ValidSize size) (ops : List Op)
    (hv : ∀ op, op ∈ ops → op.Valid) (h : BitVec 64) (hs : sigOf h ≠ 0) (e : Entry)
    (hit : ((Table.new size).run ops).lookUp h = some e) :
    let t := (Table.new size).run ops
    ∃ st : Stored, LastStore bucketIx ops t.size (bucketIx h t.size) (sigOf h) st ∧
      e.depth = st.depth ∧ e.typ = st.typ ∧ e.gen = st.gen ∧ e.move = st.move ∧
      e.value = storedValue st.value st.ply ∧
      ∀ q, (-32640 ≤ st.value ∧ st.value ≤ 32640) → (0 ≤ st.ply ∧ st.ply ≤ 127) → (0 ≤ q ∧ q ≤ 127) →
        e.valueAt q = rebased st.value st.ply q := by
  obtain ⟨a, hrun, habs, hinv⟩ := refines size hsize ops hv
  obtain ⟨st, hst, hrep⟩ := habs.hit hinv.1 h hs e hit
  have hl := (Spec.AbstractTT.run_last_store bucketIx _ ops a hrun).2 _ _ st hst
  rw [← habs.1] at hl
  exact ⟨st, hl, hrep.1, hrep.2.1, hrep.2.2.2.2, hrep.2.2.2.1, hrep.2.2.1,
    fun q h1 h2 h3 => value_rebase' e _ _ q hrep.2.2.1 h1 h2 h3⟩

/-- **no_phantom.**  A hit under a non-zero signature is never invented and never comes from another
    bucket or signature: some store of the sequence, not followed by a clear or resize, addressed
    exactly the probed bucket and signature and carried the returned depth, type and generation. -/
theorem no_phantom (size : Nat) (hsize : ValidSize size) (ops : List Op)
    (hv : ∀ op, op ∈ ops → op.Valid) (h : BitVec 64) (hs : sigOf h ≠ 0) (e : Entry)
    (hit : ((Table.new size).run ops).lookUp h = some e) :
    let t := (Table.new size).run ops
    ∃ pre s post, ops = pre ++ Spec.AbstractTT.Op.store s :: post ∧
      (∀ op, op ∈ post → ∃ s', op = Spec.AbstractTT.Op.store s') ∧
      bucketIx s.hash t.size = bucketIx h t.size ∧ sigOf s.hash = sigOf h ∧
      e.depth = s.d ∧ e.typ = s.typ ∧ e.gen = s.gen ∧ e.value = storedValue s.value s.ply := by
  obtain ⟨st, ⟨pre, s, post, hops, hpost, hb, hk, h1, h2, h3, h4, h5, _, _⟩, e1, e2, e3, _, e5, _⟩ :=
    probe_hit_is_last_store size hsize ops hv h hs e hit
  exact ⟨pre, s, post, hops, hpost, hb, hk, e1.trans h1, e2.trans h2, e3.trans h5, by rw [e5, h3, h4]⟩

/-- **store_evicts_at_most_one** (any table satisfying the invariant, e.g. any reachable one; any
    stored key, signature 0 included; arbitrary arguments).  There is at most one victim signature:
    every other key with non-zero signature — in any bucket — answers after the store exactly what
    it answered before, and the victim (a key of the store's bucket) misses. -/
theorem store_evicts_at_most_one (t : Table) (hinv : 0 < t.size ∧ ∀ b, b < t.size → NoDupSig (t.bucket b))
    (s : StoreArgs) :
    ∃ victim : Option (BitVec 16), ∀ h' : BitVec 64, sigOf h' ≠ 0 →
      ¬ (bucketIx h' t.size = bucketIx s.hash t.size ∧ sigOf h' = sigOf s.hash) →
      (t.step (.store s)).lookUp h' =
        if bucketIx h' t.size = bucketIx s.hash t.size ∧ some (sigOf h') = victim
        then none else t.lookUp h' :=
  Table.lookUp_store_other t hinv s

/-- **clear_empty / resize_clear_empty.**  After `Clear` (and after resize-then-clear, and in a new
    table) every probe with a non-zero signature misses. -/
theorem clear_empty (t : Table) (size : Nat) (h : BitVec 64) (hs : sigOf h ≠ 0) :
    (t.step .clear).lookUp h = none ∧ (t.step (.resizeClear size)).lookUp h = none ∧
    (Table.new size).lookUp h = none :=
  ⟨Table.lookUp_clear t h hs, Table.lookUp_new size h hs, Table.lookUp_new size h hs⟩

/-- Why signature 0 is excluded from the no-phantom clause: in an empty table a probe with
    signature 0 "hits" and returns the all-zero entry, which nobody stored. -/
theorem sig0_phantom (size : Nat) (_hsize : ValidSize size) (h : BitVec 64) (hs : sigOf h = 0) :
    (Table.new size).lookUp h = some Entry.zero := by
  rw [Table.lookUp_eq, Table.bucket_new, hs]
  exact Bucket.zero_lookUp_zero

/-- NOT PROVED (full-strength extension of `probe_hit_is_last_store` to signature 0; the property
    text excludes signature 0 only from the no-phantom clause).  A probe with signature 0 that hits
    returns either the all-zero entry (the phantom) or the most recent effective store under the
    probed bucket and signature 0.  Proving it needs one more invariant ("every lane with signature
    0 other than the lowest one holds the all-zero entry") and an abstraction relation that tracks
    key 0 in one direction only.  The Go reference check of the harness tests exactly this statement
    on every run (histogram keys `…+sig0`, `probe:sig0-phantom`); for signature 0 the clauses
    `probe_after_store` and `store_evicts_at_most_one` ARE proved above. -/
def probe_hit_is_last_store_sig0_full : Prop :=
  ∀ (size : Nat), ValidSize size → ∀ (ops : List Op), (∀ op, op ∈ ops → op.Valid) →
    ∀ (h : BitVec 64), sigOf h = 0 → ∀ (e : Entry),
      ((Table.new size).run ops).lookUp h = some e →
      e = Entry.zero ∨
      ∃ st : Stored,
        LastStore bucketIx ops ((Table.new size).run ops).size
          (bucketIx h ((Table.new size).run ops).size) 0 st ∧
        e.depth = st.depth ∧ e.typ = st.typ ∧ e.gen = st.gen ∧
        e.value = storedValue st.value st.ply

/-- **tt_refines.**  Every run of the model from a fresh table is a run of the abstract table
    `Spec.AbstractTT` (per bucket a finite map signature ↦ last effective store; a store overwrites
    its key under the keep-deeper and keep-move rules and deletes at most one other key), and the
    model answers probes with non-zero signature exactly from that map: a miss iff the map has no
    entry, a hit with the entry's depth, type, move, generation and re-based score otherwise. -/
theorem tt_refines (size : Nat) (hsize : ValidSize size) (ops : List Op)
    (hv : ∀ op, op ∈ ops → op.Valid) :
    ∃ a : State, Run bucketIx (State.empty (size / 32)) ops a ∧
      ((Table.new size).run ops).size = a.nb ∧
      ∀ h : BitVec 64, sigOf h ≠ 0 →
        let t := (Table.new size).run ops
        (a.m (bucketIx h t.size) (sigOf h) = none ↔ t.lookUp h = none) ∧
        ∀ st e, a.m (bucketIx h t.size) (sigOf h) = some st → t.lookUp h = some e →
          e.depth = st.depth ∧ e.typ = st.typ ∧ e.value = storedValue st.value st.ply ∧
          e.move = st.move ∧ e.gen = st.gen := by
  obtain ⟨a, hrun, habs, hinv⟩ := refines size hsize ops hv
  refine ⟨a, hrun, habs.1, fun h hs => ?_⟩
  have hb := habs.2 _ (Model.Transp.bucketIx_lt h _ hinv.1)
  constructor
  · rw [Table.lookUp_eq]; exact hb.none_iff _ hs
  · intro st e h1 h2
    rw [Table.lookUp_eq] at h2
    exact hb.rep _ st e hs h1 h2

/-! ### non-vacuity -/

/-- A supported size and a valid, non-trivial operation sequence: five keys of one bucket
    (forcing an eviction), a bound against a deeper entry, a null move, a mate score, a clear and a
    resize. -/
def demoOps : List Op :=
  [ .store ⟨0x0001000000000000#64, 7, 10, 3, 0x0123#16, 9990, 2⟩,
    .store ⟨0x0001000000000000#64, 7, 2, 5, 0#16, 100, 1⟩,          -- bound, kept (10 > 2+2)
    .store ⟨0x0002000000000000#64, 7, 4, 1, 0#16, -9999, 0⟩,
    .store ⟨0x0003000000000000#64, 7, 5, 1, 0x0456#16, 50, 2⟩,
    .store ⟨0x0004000000000000#64, 7, 6, 1, 0x0457#16, 51, 2⟩,
    .store ⟨0x0005000000000000#64, 8, 7, 1, 0x0458#16, 52, 2⟩,     -- fifth key: evicts one
    .store ⟨0x0001000000000000#64, 8, 63, 63, 0#16, -10000, 1⟩,
    .clear,
    .resizeClear 64,
    .store ⟨0xffff0000ffffffff#64, 255, 0, 0, 1#16, 0, 0⟩ ]

example : ValidSize 32 := by decide
example : ∀ op, op ∈ demoOps → op.Valid := by decide
example : sigOf 0x0001000000000000#64 ≠ 0 := by decide

/-- The hypotheses of `probe_hit_is_last_store` / `no_phantom` are met by a hit in a one-bucket
    table after the first six operations (the first key survived the eviction). -/
example : ((Table.new 32).run (demoOps.take 6)).lookUp 0x0001000000000000#64
    = some (mkEntry 0x0123#16 9990 3 10 2 7) := by decide

/-- The keep-deeper hypothesis of `probe_after_store` and its negation both occur. -/
example : keepCond (mkEntry 0x0123#16 9990 3 10 2 7) 7 2 1 := by decide
example : ¬ keepCond (mkEntry 0x0123#16 9990 3 10 2 7) 8 2 1 := by decide

/-- `value_rebase`: a mate score stored at ply 3 and read at ply 10. -/
example : (mkEntry 0x0123#16 9990 3 10 2 7).valueAt 10 = 9983 := by decide

/-- `match64_spec`: a word whose lane 0 would be a borrow false positive above a true match
    does not exist below the match; here lane 1 matches and lane 2 (= key+1) must not. -/
example : match64 0x0000_0006_0005_0004#64 5#16 = some 1 := by decide

/-- The invariant hypothesis of `store_evicts_at_most_one` holds for a reachable table. -/
example : 0 < ((Table.new 32).run (demoOps.take 5)).size := by decide

/-! ### signature 0 (closes `probe_hit_is_last_store_sig0_full`) -/

/-- **sig0_invariant.**  After any valid operation sequence on a fresh table, in every bucket every
    lane whose signature is 0 holds the all-zero entry, unless it is the LOWEST lane with signature 0
    (the one `match64` finds); that lane holds the all-zero entry or the last effective store under
    (bucket, signature 0). -/
theorem sig0_invariant (size : Nat) (hsize : ValidSize size) (ops : List Op)
    (hv : ∀ op, op ∈ ops → op.Valid) :
    let t := (Table.new size).run ops
    ∀ b, b < t.size → ∀ i, i < 4 → (t.bucket b).sig i = 0 →
      (t.bucket b).get i = Entry.zero ∨
      ((∀ j, j < i → (t.bucket b).sig j ≠ 0) ∧
        ∃ st, LastStore bucketIx ops t.size b 0 st ∧ Rep ((t.bucket b).get i) st) :=
  Sig0Inv_run size hsize ops hv

/-- **probe_hit_is_last_store_sig0.**  After any valid operation sequence on a fresh table, a probe
    of a key whose signature is 0 that hits returns either the all-zero entry (the phantom hit on an
    empty lane, see `sig0_phantom`) or the most recent effective store under the probed key's bucket
    and signature 0 — same `LastStore` characterisation, same fields (move included) and same score
    re-basing as `probe_hit_is_last_store` gives for non-zero signatures. -/
theorem probe_hit_is_last_store_sig0 (size : Nat) (hsize : ValidSize size) (ops : List Op)
    (hv : ∀ op, op ∈ ops → op.Valid) (h : BitVec 64) (hs : sigOf h = 0) (e : Entry)
    (hit : ((Table.new size).run ops).lookUp h = some e) :
    let t := (Table.new size).run ops
    e = Entry.zero ∨
    ∃ st : Stored, LastStore bucketIx ops t.size (bucketIx h t.size) 0 st ∧
      e.depth = st.depth ∧ e.typ = st.typ ∧ e.gen = st.gen ∧ e.move = st.move ∧
      e.value = storedValue st.value st.ply ∧
      ∀ q, (-32640 ≤ st.value ∧ st.value ≤ 32640) → (0 ≤ st.ply ∧ st.ply ≤ 127) → (0 ≤ q ∧ q ≤ 127) →
        e.valueAt q = rebased st.value st.ply q := by
  have hinv := (refines size hsize ops hv).choose_spec.2.2
  rcases (Sig0Inv_run size hsize ops hv).hit hinv.1 h hs e hit with hz | ⟨st, hl, hrep⟩
  · exact Or.inl hz
  · exact Or.inr ⟨st, hl, hrep.1, hrep.2.1, hrep.2.2.2.2, hrep.2.2.2.1, hrep.2.2.1,
      fun q h1 h2 h3 => value_rebase' e _ _ q hrep.2.2.1 h1 h2 h3⟩

/-- The full-strength signature-0 statement left open above holds. -/
theorem probe_hit_is_last_store_sig0_full_holds : probe_hit_is_last_store_sig0_full := by
  intro size hsize ops hv h hs e hit
  rcases probe_hit_is_last_store_sig0 size hsize ops hv h hs e hit with hz | ⟨st, hl, h1, h2, h3, _, h5, _⟩
  · exact Or.inl hz
  · exact Or.inr ⟨st, hl, h1, h2, h3, h5⟩

/-- Non-vacuity: the last operation of `demoOps` stores a key with signature 0 … -/
example : sigOf 0x0000ffffffffffff#64 = 0 := by decide

/-- … both branches of `probe_hit_is_last_store_sig0` occur in a two-bucket table: after a store
    under signature 0 into bucket 1 a probe of that key returns the stored (non-zero) entry, while a
    probe of a signature-0 key of bucket 0 returns the phantom. -/
example : ((Table.new 64).run [.store ⟨0x0000ffffffffffff#64, 9, 5, 1, 0x0777#16, 40, 2⟩]).lookUp
    0x0000ffffffffffff#64 = some (mkEntry 0x0777#16 40 1 5 2 9) := by decide
example : ((Table.new 64).run [.store ⟨0x0000ffffffffffff#64, 9, 5, 1, 0x0777#16, 40, 2⟩]).lookUp
    0x0000000000000001#64 = some Entry.zero := by decide
example : mkEntry 0x0777#16 40 1 5 2 9 ≠ Entry.zero := by decide

/-- … and after four stores under non-zero signatures filled the bucket, a store under signature 0
    takes the victim lane; a later non-zero key can evict it again (then the probe misses). -/
example : ((Table.new 32).run ((demoOps.take 6).drop 2 ++
    [.store ⟨0x0000ffffffffffff#64, 9, 5, 1, 0x0777#16, 40, 2⟩])).lookUp 0x0000000000000000#64
    = some (mkEntry 0x0777#16 40 1 5 2 9) := by decide


end ChessVerif.Props.C15
