/-
  C17 — evaluation symmetric and position-only.

  "For every valid position, evaluating the position and evaluating its mirror image (ranks flipped,
  colours and side to move swapped) give the same score from the mover's point of view, and the
  evaluation is unchanged by anything other than piece placement, side to move and the halfmove clock -
  in particular by castling rights, en-passant state, fullmove number, hash history or previous
  evaluations."

  `evalInt cs b` is the model of the engine's `eval.Eval[Score](b, cs)` (Model/Eval.lean, int16
  wrap-around arithmetic and truncating taper division included); `mirror b` flips the ranks, swaps
  colours and side to move (and, for definiteness, castling rights and the en-passant square).
  Both theorems hold for EVERY coefficient set `cs` (arrays of any size and content), not only the
  shipped one.  The sliding-piece step uses C12 (`bishopMoves_eq`, `rookMoves_eq`): nothing is assumed.

  "Previous evaluations": the model is a function, so the statement is void in Lean; its tie to the
  code is static — the extractor lists every board field and package-level variable package eval
  reads or writes and stops on any write or any read outside {Pieces, Colors, STM, FiftyCnt}
  (`Eval.boardFieldsRead_expected`) — and dynamic (harness: a preceding evaluation never changes a result).
-/
import ChessVerif.Model.Guards.Eval
import ChessVerif.Proofs.EvalBasic
import ChessVerif.Proofs.EvalMirror

namespace ChessVerif.Props.C17
open ChessVerif ChessVerif.Eval

/-! ### the arithmetic of both instantiations is lawful -/

theorem opsI16_lawful : LawfulAdd opsI16 where
  add_comm a b := by simp only [opsI16, Int.add_comm]
  add_assoc a b c := by simp only [opsI16, wrapS16]; omega

theorem opsQ_lawful (σ : Rat → Rat) : LawfulAdd (opsQ σ) where
  add_comm a b := by simp only [opsQ]; exact Rat.add_comm a b
  add_assoc a b c := by simp only [opsQ]; exact Rat.add_assoc a b c

/-! ### position-only -/

/-- The evaluation depends only on the placement (all three encodings given equal — only the piece
    and colour sets are actually read), the side to move and the halfmove clock: castling rights,
    en-passant square, fullmove number and the whole hash history are arbitrary.  Every coefficient set. -/
theorem eval_depends_only (cs : CoeffSet Int) (b b' : Board)
    (_hsq : b.sq = b'.sq) (hp : b.pieces = b'.pieces) (hc : b.colors = b'.colors)
    (hs : b.stm = b'.stm) (hf : b.fifty = b'.fifty) : evalInt cs b = evalInt cs b' :=
  evalCore_depends_only opsI16 cs hp hc hs hf

/-- the same, made structural: the evaluation factors through the projection `input`. -/
theorem eval_factors (cs : CoeffSet Int) (b : Board) : evalInt cs b = evalCore opsI16 cs (input b) := rfl

/-- in particular: changing castling rights, en-passant state, fullmove number and hash history
    arbitrarily does not change the evaluation. -/
theorem eval_ignores (cs : CoeffSet Int) (b : Board) (castles : Castles) (ep : Nat) (full : Int) (hist : List BB) :
    evalInt cs { b with castles := castles, ep := ep, fullMoves := full, hashes := hist } = evalInt cs b := rfl

/-- the tuner's exact-arithmetic instantiation is position-only as well. -/
theorem evalQ_depends_only (σ : Rat → Rat) (cs : CoeffSet Rat) (b b' : Board)
    (hp : b.pieces = b'.pieces) (hc : b.colors = b'.colors) (hs : b.stm = b'.stm) (hf : b.fifty = b'.fifty) :
    evalQ σ cs b = evalQ σ cs b' :=
  evalCore_depends_only (opsQ σ) cs hp hc hs hf

/-! ### mirror symmetry -/

/-- For every valid position and every coefficient set, the mirror image evaluates to the same score
    from the mover's point of view (bit for bit in the engine's wrapping int16 arithmetic). -/
theorem eval_mirror (cs : CoeffSet Int) (b : Board) (h : Board.valid b = true) :
    evalInt cs (mirror b) = evalInt cs b := by
  unfold evalInt
  rw [input_mirror]
  exact evalCore_mirror cs (input b) opsI16_lawful (goodInput_of_valid b h)

/-- the same for the exact-arithmetic reading of the tuner's float evaluation, any sigmoid. -/
theorem evalQ_mirror (σ : Rat → Rat) (cs : CoeffSet Rat) (b : Board) (h : Board.valid b = true) :
    evalQ σ cs (mirror b) = evalQ σ cs b := by
  unfold evalQ
  rw [input_mirror]
  exact evalCore_mirror cs (input b) (opsQ_lawful σ) (goodInput_of_valid b h)

/-- the weaker hypothesis actually used: one king per side and every piece in a colour set. -/
theorem eval_mirror_of_goodInput (cs : CoeffSet Int) (b : Board) (h : GoodInput (input b)) :
    evalInt cs (mirror b) = evalInt cs b := by
  unfold evalInt
  rw [input_mirror]
  exact evalCore_mirror cs (input b) opsI16_lawful h

/-- The full statement of C17 over the model. -/
def C17_full : Prop :=
  (∀ (cs : CoeffSet Int) (b : Board), Board.valid b = true → evalInt cs (mirror b) = evalInt cs b) ∧
  (∀ (cs : CoeffSet Int) (b b' : Board), b.sq = b'.sq → b.pieces = b'.pieces → b.colors = b'.colors →
      b.stm = b'.stm → b.fifty = b'.fifty → evalInt cs b = evalInt cs b')

theorem c17_full : C17_full := ⟨eval_mirror, eval_depends_only⟩

/-! ### non-vacuity -/

/-- build a board from a list of men (no hash history). -/
def mkBoard (men : List (Nat × Color × Piece)) (stm : Color) (ep : Nat) (castles : Castles) (fifty : Int) : Board :=
  let b := men.foldl (fun b x => (Board.addPiece Board.zeroKeys b x.2.1 x.2.2 x.1).1) Board.empty
  { b with stm := stm, ep := ep, castles := castles, fullMoves := 1, fifty := fifty }

open Color Piece in
/-- the initial position. -/
def startBoard : Board :=
  mkBoard ([(0, white, rook), (1, white, knight), (2, white, bishop), (3, white, queen), (4, white, king),
            (5, white, bishop), (6, white, knight), (7, white, rook)] ++
           (List.range 8).map (fun i => (8 + i, white, pawn)) ++ (List.range 8).map (fun i => (48 + i, black, pawn)) ++
           [(56, black, rook), (57, black, knight), (58, black, bishop), (59, black, queen), (60, black, king),
            (61, black, bishop), (62, black, knight), (63, black, rook)]) white 0 15 0

open Color Piece in
/-- `r3k2r/1P6/8/3pP3/8/8/8/R3K2R w KQkq d6 17`: asymmetric, castling rights, en-passant square, a
    passed pawn on the seventh, a running clock. -/
def richBoard : Board :=
  mkBoard [(4, white, king), (0, white, rook), (7, white, rook), (49, white, pawn), (36, white, pawn),
           (60, black, king), (56, black, rook), (63, black, rook), (35, black, pawn)] white 43 15 17

open Color Piece in
/-- `8/8/8/4k3/8/2B5/1N6/K7 b`: knight + bishop v bare king (the special-cased path). -/
def knbBoard : Board :=
  mkBoard [(0, white, king), (9, white, knight), (18, white, bishop), (36, black, king)] black 0 0 3

example : startBoard.valid = true := by decide +kernel
example : richBoard.valid = true := by decide +kernel
example : knbBoard.valid = true ∧ knbvk (input knbBoard) = true := by decide +kernel
example : insufficientMat (input richBoard) = false ∧ knbvk (input richBoard) = false := by decide +kernel
/-- the mirror image is a different position with everything the evaluation may not look at changed too -/
example : (mirror richBoard).ep = 19 ∧ (mirror richBoard).stm = .black ∧ (mirror richBoard).pieces ≠ richBoard.pieces := by
  decide +kernel
/-- `eval_ignores` is not vacuous: the boards differ -/
example : ({ richBoard with castles := 0, ep := 0, fullMoves := 77, hashes := [1, 2, 3] } : Board) ≠ richBoard := by
  decide +kernel

end ChessVerif.Props.C17
