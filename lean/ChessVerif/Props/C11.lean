/-
  C11 — FEN parse/print inverse and robust (property theorems and non-vacuity examples only).

  "Printing any valid position as FEN and parsing it back yields the same position (placement, side
  to move, rights, en-passant target, both counters), parsing a canonical FEN and printing it returns
  the same text, and the UCI position command accepts the FEN of every valid position, however much
  promoted material it holds.  Parsing arbitrary byte strings never crashes: it either returns an
  error or a position, and the UCI position command never replaces the current position with a
  rejected one."
-/
import ChessVerif.Proofs.FenTotal
import ChessVerif.Proofs.FenCount
import ChessVerif.Proofs.FenUci
import ChessVerif.Proofs.FenRound
import ChessVerif.Proofs.FenFields
import ChessVerif.Proofs.FenRoundFull

namespace ChessVerif.Props.C11
open ChessVerif Fen UciPosition

/-- **Parsing arbitrary byte strings never crashes** (`ParseFEN`): in the model every slice access
    goes through a checked read whose failure is the outcome `.panic`; it is unreachable. -/
theorem parse_total (bytes : Array UInt8) : parseFEN bytes ≠ .panic := parseFEN_ne_panic bytes

/-- the same for `FromFEN`. -/
theorem fromFEN_total (K : Keys) (bytes : Array UInt8) : fromFEN K bytes ≠ .panic := fromFEN_ne_panic K bytes

/-- it either returns an error or a position. -/
theorem parse_err_or_ok (bytes : Array UInt8) : parseFEN bytes = .err ∨ ∃ b, parseFEN bytes = .ok b := by
  cases h : parseFEN bytes with
  | ok b => exact Or.inr ⟨b, rfl⟩
  | err => exact Or.inl rfl
  | panic => exact absurd h (parse_total bytes)

/-- **The piece-count gate never rejects a valid position**, however much promoted material it holds. -/
theorem pieceCount_accepts_valid (b : Board) (hv : b.valid = true) : b.invalidPieceCount = false :=
  Board.pieceCount_accepts_valid b hv

/-- the arithmetic core on plain counts: the promotion bound makes the five inequalities fail. -/
theorem pieceCount_accepts_reachable (n bi r q p : Nat) (h : p + (n - 2) + (bi - 2) + (r - 2) + (q - 1) ≤ 8) :
    let pn := max 2 n - 2; let pb := max 2 bi - 2; let pr := max 2 r - 2; let pq := max 1 q - 1
    let pawns := p + (pn + pb + pr + pq)
    (decide (pawns > 8) || decide (n + pawns - pn > 10) || decide (bi + pawns - pb > 10) ||
      decide (r + pawns - pr > 10) || decide (q + pawns - pq > 9)) = false :=
  Board.pieceCount_arith n bi r q p h

/-- **The UCI position command never replaces the current position with a rejected one**: if the
    six fields after `fen` do not parse, or parse to a board the piece-count gate rejects, the current
    board is unchanged, whatever follows. -/
theorem position_keeps_on_reject (K : Keys) (cur : Board) (rest : List Bytes)
    (hrej : ∀ b, fromFEN K (joinSp (rest.take 6)) = .ok b → b.invalidPieceCount = true) :
    handlePosition K cur (kwFen :: rest) = cur :=
  UciPosition.position_keeps_on_reject K cur rest hrej

/-- complete case list: the board after any `position …` is the old one, or `StartPos()` plus moves,
    or a board that parsed AND passed the gate plus moves. -/
theorem position_result_cases (K : Keys) (cur : Board) (args : List Bytes) :
    handlePosition K cur args = cur ∨
    (∃ ms, handlePosition K cur args = applyMoves K (startPos K) ms) ∨
    (∃ b ms, fromFEN K (joinSp (args.tail.take 6)) = .ok b ∧ b.invalidPieceCount = false ∧
      handlePosition K cur args = applyMoves K b ms) :=
  handlePosition_cases K cur args

/-- **The UCI position command accepts the FEN of every valid position** — proved relative to the
    round trip of that board (`RoundTripOK b`, see `roundtrip_partial` below for what is known). -/
theorem position_installs_valid (K : Keys) (cur b : Board) (hv : b.valid = true) (hrt : RoundTripOK b) :
    handlePositionS K cur ("fen" :: printFields b) = (stripHash b).resetHash K ∧
    (handlePositionS K cur ("fen" :: printFields b)).abs = b.abs :=
  Fen.position_installs_valid K cur b hv hrt

/-- PARTIAL (round trip): the text round trip follows from the board round trip, board by board.
    The full statements `Fen.C11_roundtrip_full` / `Fen.C11_print_parse_full` (∀ valid b) are NOT
    proved; the board round trip is kernel-checked on the concrete positions below and covered by the
    correspondence harness (board/c11) on generated positions. -/
theorem print_parse_partial (b : Board) (h : RoundTripOK b) :
    ∀ b', parseFEN (printFEN b).toUTF8.data = .ok b' → printFEN b' = printFEN b :=
  print_parse_of_roundtrip b h

theorem print_parse_full_of_roundtrip_full : C11_roundtrip_full → C11_print_parse_full :=
  Fen.print_parse_full_of_roundtrip_full

/-- PARTIAL (round trip, the five scalar fields): run through `seq`'s separator handling on an input
    suffix of the shape ` <w|b> <castling letters> <-|square> <digits> <digits>` (what `printFEN`
    emits after the placement field), the parsers `stm`, `cRights`, `enPassant`, `fifty`, `fullMoves`
    succeed and store exactly the values the fields denote (`digitsVal` = the Go `int` arithmetic of
    `counter()`, `letterRight` = the right a castling letter adds).  Missing for the full round trip:
    the placement field (`rankStr` ↔ `positionLoop`) and the bridge from `printFEN`'s strings
    (`Nat.repr`, `sqName`) to these byte lists. -/
theorem roundtrip_scalars_partial (fen : Bytes) (s0 : St) (sb f r : UInt8) (ls ds1 ds2 : List UInt8) (dash : Bool)
    (hsb : sb = 119 ∨ sb = 98)
    (hls : ∀ c ∈ ls, isCastleLetter c) (hls0 : ls ≠ [])
    (hf : 97 ≤ f ∧ f ≤ 104) (hr' : 49 ≤ r ∧ r ≤ 56)
    (hd1 : ∀ d ∈ ds1, 48 ≤ d ∧ d ≤ 57) (hd10 : ds1 ≠ [])
    (hd2 : ∀ d ∈ ds2, 48 ≤ d ∧ d ≤ 57) (hd20 : ds2 ≠ [])
    (h50 : 0 ≤ digitsVal 0 ds1 ∧ digitsVal 0 ds1 ≤ 100) (hfm : 1 ≤ digitsVal 0 ds2)
    (hrest : rest fen s0.ix =
      32 :: sb :: 32 :: (ls ++ 32 :: ((if dash then [45] else [f, r]) ++ 32 :: (ds1 ++ 32 :: ds2)))) :
    (do let s ← sep fen s0
        let s ← stm fen s
        let s ← sep fen s
        let s ← cRights fen s
        let s ← sep fen s
        let s ← enPassant fen s
        let s ← sep fen s
        let s ← fifty fen s
        let s ← sep fen s
        let s ← fullMoves fen s
        PR.ok s.b) =
    .ok { s0.b with
          stm := if sb = 119 then .white else .black,
          castles := ls.foldl (fun acc c => acc ||| letterRight c) s0.b.castles,
          ep := if dash then s0.b.ep else (r.toNat - 49) * 8 + (f.toNat - 97),
          fifty := digitsVal 0 ds1,
          fullMoves := digitsVal 0 ds2 } :=
  Fen.scalars_partial fen s0 sb f r ls ds1 ds2 dash hsb hls hls0 hf hr' hd1 hd10 hd2 hd20 h50 hfm hrest

/-! ### non-vacuity -/

set_option maxRecDepth 100000

def ofText (s : String) : Board := match parseFEN s.toUTF8.data with | .ok b => b | _ => Board.empty

def startB := ofText "rnbqkbnr/pppppppp/8/8/8/8/PPPPPPPP/RNBQKBNR w KQkq - 0 1"
def kiwi := ofText "r3k2r/p1ppqpb1/bn2pnp1/3PN3/1p2P3/2N2Q1p/PPPBBPPP/R3K2R w KQkq - 0 1"
/-- nine white queens: eight promoted pawns. -/
def nineQ := ofText "QQQQQQQQ/Q7/8/8/8/8/8/k6K b - - 0 1"
def epB := ofText "rnbqkbnr/ppp1pppp/8/8/3pP3/8/PPPP1PPP/RNBQKBNR b KQkq e3 0 3"
/-- ten white queens: not reachable. -/
def tenQ := ofText "QQQQQQQQ/QQ6/8/8/8/8/8/k6K b - - 0 1"

-- parse outcomes: ok, and errors of several classes (empty, truncated inside the ep field, non-ASCII)
example : ∃ b, parseFEN "r3k2r/p1ppqpb1/bn2pnp1/3PN3/1p2P3/2N2Q1p/PPPBBPPP/R3K2R w KQkq - 0 1".toUTF8.data = .ok b :=
  (parse_err_or_ok _).resolve_left (by decide +kernel)
example : parseFEN #[] = .err := by decide +kernel
example : parseFEN "rnbqkb1r/pppppppp/5n2/8/2PP4/8/PP2PPPP/RNBQKBNR b KQkq c".toUTF8.data = .err := by decide +kernel
example : parseFEN #[0xff, 0x00, 0x20] = .err := by decide +kernel
example : parseFEN "8/8/8/8/8/8/8/8 w - - 101 1".toUTF8.data = .err := by decide +kernel

-- valid positions (incl. nine queens) pass the gate by the theorem; ten queens are rejected
example : nineQ.valid = true := by decide +kernel
example : nineQ.invalidPieceCount = false := pieceCount_accepts_valid _ (by decide +kernel)
example : tenQ.invalidPieceCount = true := by decide +kernel

-- board round trip, kernel-checked on concrete positions
example : RoundTripOK startB := by decide +kernel
example : RoundTripOK kiwi := by decide +kernel
example : RoundTripOK nineQ := by decide +kernel
example : RoundTripOK epB := by decide +kernel
example : printFEN epB = "rnbqkbnr/ppp1pppp/8/8/3pP3/8/PPPP1PPP/RNBQKBNR b KQkq e3 0 3" := by decide +kernel

-- the position command installs the nine-queen position …
example (K : Keys) (cur : Board) : (handlePositionS K cur ("fen" :: printFields nineQ)).abs = nineQ.abs :=
  (position_installs_valid K cur nineQ (by decide +kernel) (by decide +kernel)).2

-- … and keeps the current board on ten queens, on a parse error and on too few fields
example (K : Keys) (cur : Board) :
    handlePositionS K cur ["fen", "QQQQQQQQ/QQ6/8/8/8/8/8/k6K", "b", "-", "-", "0", "1"] = cur := by
  apply position_keeps_on_reject
  intro b hb
  have h1 : fromFEN K (joinSp (List.take 6 (List.map (fun s => s.toUTF8.data)
      ["QQQQQQQQ/QQ6/8/8/8/8/8/k6K", "b", "-", "-", "0", "1"]))) = .ok (tenQ.resetHash K) := by
    unfold fromFEN
    have : parseFEN (joinSp (List.take 6 (List.map (fun s => s.toUTF8.data)
      ["QQQQQQQQ/QQ6/8/8/8/8/8/k6K", "b", "-", "-", "0", "1"]))) = .ok tenQ := by decide +kernel
    rw [this]; rfl
  rw [h1] at hb
  cases hb
  show tenQ.invalidPieceCount = true
  decide +kernel

example (K : Keys) (cur : Board) :
    handlePositionS K cur ["fen", "8/8/8/8/8/8/8/k6K", "x", "-", "-", "0", "1", "moves", "a1a2"] = cur := by
  apply position_keeps_on_reject
  intro b hb
  exfalso
  unfold fromFEN at hb
  have : parseFEN (joinSp (List.take 6 (List.map (fun s => s.toUTF8.data)
      ["8/8/8/8/8/8/8/k6K", "x", "-", "-", "0", "1", "moves", "a1a2"]))) = .err := by decide +kernel
  rw [this] at hb
  cases hb

-- parseUCIMove: the wrapping byte arithmetic accepts "i1a3" as a2a3; malformed words are rejected
example : parseUCIMove startB "i1a3".toUTF8.data = some (Move.mk 8 16 0) := by decide +kernel
example : parseUCIMove startB "e2e4".toUTF8.data = some (Move.mk 12 28 0) := by decide +kernel
example : parseUCIMove startB "e2e4q".toUTF8.data = none := by decide +kernel
example : parseUCIMove startB "e2e".toUTF8.data = none := by decide +kernel
example : parseUCIMove startB "e2e4e5".toUTF8.data = none := by decide +kernel
example : parseUCIMove startB "é2e4".toUTF8.data = none := by decide +kernel

-- the scalar-field theorem on the suffix " b KQkq e3 12 34" (placement "8" before it)
example : (do let s ← sep "8 b KQkq e3 12 34".toUTF8.data ⟨1, Board.empty⟩
              let s ← stm "8 b KQkq e3 12 34".toUTF8.data s
              let s ← sep "8 b KQkq e3 12 34".toUTF8.data s
              let s ← cRights "8 b KQkq e3 12 34".toUTF8.data s
              let s ← sep "8 b KQkq e3 12 34".toUTF8.data s
              let s ← enPassant "8 b KQkq e3 12 34".toUTF8.data s
              let s ← sep "8 b KQkq e3 12 34".toUTF8.data s
              let s ← fifty "8 b KQkq e3 12 34".toUTF8.data s
              let s ← sep "8 b KQkq e3 12 34".toUTF8.data s
              let s ← fullMoves "8 b KQkq e3 12 34".toUTF8.data s
              PR.ok s.b) =
    .ok { Board.empty with stm := .black, castles := 15, ep := 20, fifty := 12, fullMoves := 34 } := by
  have h := roundtrip_scalars_partial "8 b KQkq e3 12 34".toUTF8.data ⟨1, Board.empty⟩ 98 101 51
    [75, 81, 107, 113] [49, 50] [51, 52] false (by decide) (by simp [isCastleLetter]) (by decide) (by decide) (by decide)
    (by decide) (by decide) (by decide) (by decide) (by decide) (by decide) (by decide)
  rw [h]
  decide

/-! ### the full round trip (placement field + digit/square-name bridge)

  These theorems supersede the PARTIAL remarks above: `Fen.C11_roundtrip_full` and
  `Fen.C11_print_parse_full` are proved (`roundtrip_full`, `print_parse_full`). -/

/-- **Printing any valid position as FEN and parsing it back yields the same position** — placement
    (all three encodings `sq`/`pieces`/`colors`), side to move, rights, en-passant target and both
    counters; only the hash history, which `ParseFEN` does not fill, is dropped.  The bound on the move
    number is the range of the Go `int` that `counter()` accumulates in. -/
theorem parse_print (b : Board) (hv : Board.valid b = true) (h63 : b.fullMoves < 2 ^ 63) :
    parseFEN (printFEN b).toUTF8.data = .ok { b with hashes := [] } :=
  Fen.roundtrip_full b hv h63

/-- the same as the statement fixed earlier (`Fen.C11_roundtrip_full`). -/
theorem roundtrip_full : C11_roundtrip_full := Fen.roundtrip_full

/-- **Parsing a canonical FEN and printing it returns the same text**: for every text in the image of
    `printFEN` on valid boards the parse succeeds and printing the result gives the text back. -/
theorem print_parse (text : String) (b : Board) (hv : Board.valid b = true) (h63 : b.fullMoves < 2 ^ 63)
    (ht : text = printFEN b) :
    ∃ b', parseFEN text.toUTF8.data = .ok b' ∧ printFEN b' = text := by
  subst ht
  exact ⟨_, parse_print b hv h63, rfl⟩

/-- … in the form fixed earlier (`Fen.C11_print_parse_full`). -/
theorem print_parse_full : C11_print_parse_full := print_parse_full_of_roundtrip_full roundtrip_full

/-- the round trip needs only the representation invariant and the ranges of the scalar fields
    (`Rules.valid` is used for nothing else). -/
theorem parse_print_of_wf (b : Board) (hw : b.wf = true) (hep : b.ep < 64) (h0 : 0 ≤ b.fifty) (h100 : b.fifty ≤ 100)
    (h1 : 1 ≤ b.fullMoves) (h63 : b.fullMoves < 2 ^ 63) :
    parseFEN (printFEN b).toUTF8.data = .ok { b with hashes := [] } :=
  Fen.roundtrip_of_wf b ((Board.wf_iff b).2 hw) hep h0 h100 h1 h63

/-- **The placement field on its own**: on any input that starts with the printed placement of a
    well-formed board followed by a space, `position()` (run from the empty board) stops at the space
    having rebuilt exactly the three placement encodings of `b` and touched nothing else. -/
theorem parse_print_placement (fen : Bytes) (b : Board) (hw : b.wf = true) (t : List UInt8)
    (h : rest fen 0 = bytesOf (placementStr b) ++ 32 :: t) :
    ∃ b', position fen ⟨0, Board.empty⟩ = .ok ⟨(bytesOf (placementStr b)).length, b'⟩ ∧
      b'.sq = b.sq ∧ b'.pieces = b.pieces ∧ b'.colors = b.colors ∧ SameScalars Board.empty b' :=
  Fen.position_print fen b ((Board.wf_iff b).2 hw) t h

/-- **The digits bridge**: `counter()` reads the printed decimal text of a counter `0 ≤ x < 2^63`
    (followed by a space or the end of the input) back as exactly `x`. -/
theorem counter_toString (fen : Bytes) (ix : Nat) (x : Int) (t : List UInt8) (h0 : 0 ≤ x) (hx : x < 2 ^ 63)
    (ht : t = [] ∨ ∃ t', t = 32 :: t') (hr : rest fen ix = bytesOf (toString x) ++ t) :
    counter fen ix = .ok (ix + (bytesOf (toString x)).length, x) :=
  Fen.counter_toString fen ix x t h0 hx ht hr

/-- **The UCI position command accepts the FEN of every valid position** — now unconditionally. -/
theorem position_installs_valid_full (K : Keys) (cur b : Board) (hv : b.valid = true) (h63 : b.fullMoves < 2 ^ 63) :
    handlePositionS K cur ("fen" :: printFields b) = (stripHash b).resetHash K ∧
    (handlePositionS K cur ("fen" :: printFields b)).abs = b.abs :=
  position_installs_valid K cur b hv (roundtrip_full b hv h63)

-- non-vacuity: the kernel-checked positions above are instances of the theorem …
example : startB.valid = true ∧ startB.fullMoves < 2 ^ 63 := by decide +kernel
example : RoundTripOK startB := roundtrip_full startB (by decide +kernel) (by decide +kernel)
example : RoundTripOK kiwi := roundtrip_full kiwi (by decide +kernel) (by decide +kernel)
example : RoundTripOK nineQ := roundtrip_full nineQ (by decide +kernel) (by decide +kernel)
example : RoundTripOK epB := roundtrip_full epB (by decide +kernel) (by decide +kernel)
example : ∃ b', parseFEN "rnbqkbnr/ppp1pppp/8/8/3pP3/8/PPPP1PPP/RNBQKBNR b KQkq e3 0 3".toUTF8.data = .ok b' ∧
    printFEN b' = "rnbqkbnr/ppp1pppp/8/8/3pP3/8/PPPP1PPP/RNBQKBNR b KQkq e3 0 3" :=
  print_parse _ epB (by decide +kernel) (by decide +kernel) (by decide +kernel)

/-- … and so is a position at the very edge of the counter range (19-digit move number, clock 100). -/
def lateB : Board := { kiwi with fifty := 100, fullMoves := 9223372036854775807 }
example : lateB.valid = true := by decide +kernel
example : parseFEN (printFEN lateB).toUTF8.data = .ok { lateB with hashes := [] } :=
  parse_print lateB (by decide +kernel) (by decide +kernel)
-- the bound is sharp: at 2^63 the Go `int` wraps negative and `ParseFEN` rejects its own print
example : parseFEN (printFEN { kiwi with fullMoves := 9223372036854775808 }).toUTF8.data = .err := by decide +kernel

-- the placement field of the nine-queen position in front of arbitrary other text
example : ∃ b', position (placementStr nineQ ++ " rest of the line").toUTF8.data ⟨0, Board.empty⟩ =
      .ok ⟨(bytesOf (placementStr nineQ)).length, b'⟩ ∧
    b'.sq = nineQ.sq ∧ b'.pieces = nineQ.pieces ∧ b'.colors = nineQ.colors ∧ SameScalars Board.empty b' :=
  parse_print_placement _ nineQ (by decide +kernel) "rest of the line".toUTF8.data.toList (by
    rw [rest_zero, bytesOf_append]
    exact congrArg _ (by decide +kernel))

-- the digits bridge on "… 9223372036854775807"
example : counter "w 9223372036854775807".toUTF8.data 2 = .ok (21, 9223372036854775807) :=
  counter_toString _ 2 9223372036854775807 [] (by decide) (by decide) (Or.inl rfl) (by decide +kernel)

end ChessVerif.Props.C11
