/-
  C06 (and the C07 / C08 clauses that rest on the same laws) for the SPSA BUILD: "… × (thorough tier) the
  spsa build with in-range parameter values".

  With `-tags spsa` the thirteen values of /repo/params are variables (params/spsa.go: the `tunables`
  table, `params.Set`, UCI `setoption`).  `SearchReal.realCompP K cs P` (Model/SearchRealP.lean) is the
  record of the default build with every occurrence of a parameter replaced by the field of the vector
  `P`; `realCompP K cs Params.default = realCompWith K cs` (`spsa_default_is_default_build`), so the
  theorems of Props/C06real, C07real, C08real, C06fuel are the instance `P = Params.default`.  The tie
  to the code is the exact differential suite `searchx -suite spsa` (real `search.Go` after `params.Set` vs
  `Search.go (realCompP K shipped P)`: node counts, info lines, digests).  `Params.InRange` is computed
  from the REGENERATED `tunables` table; Model/SearchRealP.lean re-checks by `decide` that every row
  points at the variable it is named after and that the two parameter files are symmetric.

  (a) FOR EVERY `P` — in range or not — the component laws hold (`spsa_laws_hold`: they do not read the
      pruning predicates, and `FailHigh` keeps the history cells in range for every bonus), hence every
      closed theorem of the default build that rests on `Laws` only: board restored, move legal by the
      rule book or null, reusable, reported lines legal, best move = head of the last line, node budget,
      soft ≡ hard.  A session may change the vector between searches (`SessionP`).
  (b) FOR EVERY `P`: `alphaBeta` / `quiescence` terminate (picker length + quiescence measure).
  (c) FOR IN-RANGE `P` there is no panic source in the parametrized code: conversions exact, divisor of
      the null-move reduction ≠ 0, history shifts within int16 and the divisor `red` ≠ 0, both indices of
      the `log` table within bounds for every call the skeleton makes; the depth laws hold.
  (d) What does NOT carry over to all in-range vectors, and why:
      * the score clauses (null only on a final root, final score, table invariant) and the
        driver-level termination need `ScoreLaws` + `AspLaws`.  `ScoreLaws.lmr_late` needs `LMRStart ≥ 1`
        (FALSE for the in-range value 0: `lmr_late_fails_at_zero` — the null-window block is entered for
        the first move, whose `alpha` may still be the root's widened bound below `-Inf`);
        `AspLaws.windowSafe` needs `WindowSize ∈ 39..44 ∪ 78..88` — EXACT on `30..100`
        (`window_safe_exact`: for every other in-range size a chain of in-range failures wraps int16).
        For the vectors with both (`Covered`, among them the defaults) all of them are theorems
        (`…_spsa` below, same run-level hypothesis `ttOut = false` as for the default build).
      * `C06spsa_full_*` keep the statements for ALL in-range vectors as explicit propositions; they are
        NOT proved (and not refuted: the uncovered vectors are where the present argument fails, no
        misbehaviour of the real engine is known — suite `searchx -suite spsa` compares such vectors too).
-/
import ChessVerif.Props.C06real
import ChessVerif.Props.C07real
import ChessVerif.Props.C08real
import ChessVerif.Proofs.SearchRealP
import ChessVerif.Proofs.SearchAspExact

namespace ChessVerif.Props.C06spsa
open ChessVerif Search SearchReal
open ChessVerif.Props.C06real (final_iff_rules)
open ChessVerif.Props.C07real (RulesLine legalLine_rules)

/-- the record of the spsa build with the shipped evaluation coefficients. -/
abbrev spsaComp (K : Keys) (P : Params) : Comp PS Pick := realCompP K Eval.shipped P

/-- **the default vector gives the default build**: every theorem about `realComp K` is the instance
    `P = Params.default` of a statement about `spsaComp K P`. -/
theorem spsa_default_is_default_build (K : Keys) : spsaComp K Params.default = realComp K :=
  realCompP_default K Eval.shipped

/-! ### (a) every parameter vector: the laws and what rests on them -/

/-- **The component laws hold for the spsa build with EVERY parameter vector.** -/
theorem spsa_laws_hold (K : Keys) (cs : Eval.CoeffSet Int) (P : Params) : Laws (realCompP K cs P) RealGood :=
  realP_laws K cs P

/-- every `Go` on a valid position keeps the state invariant `PSok`, whatever the vector. -/
theorem go_keeps_ps_invariant_spsa (K : Keys) (P : Params) (L : Limits) (clock : Clock) (fuel : Nat) (e : Engine PS)
    (b : Board) (hv : Board.valid b = true) (hok : PSok e.ps) (nodes0 : Int) :
    PSok (go (spsaComp K P) L clock fuel e b nodes0).engine.ps :=
  Props.C06.go_keeps_ps_invariant (spsaComp K P) L clock (realP_laws K _ P) fuel e b hv hok nodes0

/-- The engine states of an spsa session: `search.New`, then any sequence of `Clear()` and `Go` on valid
    positions — each `Go` with ITS OWN parameter vector (`setoption` between searches), limits, clock,
    fuel and counter. -/
inductive SessionP (K : Keys) : Engine PS → Prop where
  | new (buckets : Nat) : SessionP K (newEngine buckets)
  | clear {e} : SessionP K e → SessionP K (clearEngine e)
  | go {e} (P : Params) (L : Limits) (clock : Clock) (fuel : Nat) (b : Board) (nodes0 : Int) :
      SessionP K e → Board.valid b = true → SessionP K (go (spsaComp K P) L clock fuel e b nodes0).engine

theorem sessionP_ok {K : Keys} {e : Engine PS} (h : SessionP K e) : PSok e.ps := by
  induction h with
  | new n => exact Props.C06real.newEngine_ok n
  | clear _ _ => exact Props.C06real.clearEngine_ok _
  | go P L clock fuel b nodes0 _ hv ih => exact go_keeps_ps_invariant_spsa K P L clock fuel _ b hv ih nodes0

/-- When `Go` returns, the board equals the board it was given, on every path; the history stack is
    empty and the move store has no open frame — every vector. -/
theorem go_board_restored_spsa (K : Keys) (P : Params) (L : Limits) (clock : Clock) (fuel : Nat) (e : Engine PS)
    (b : Board) (hv : Board.valid b = true) (hok : PSok e.ps) (nodes0 : Int) :
    (go (spsaComp K P) L clock fuel e b nodes0).st.board = b ∧ (go (spsaComp K P) L clock fuel e b nodes0).st.hstack = [] ∧
      (go (spsaComp K P) L clock fuel e b nodes0).st.frames = 0 :=
  Props.C06.go_board_restored (spsaComp K P) L clock (realP_laws K _ P) fuel e b hv hok nodes0

/-- The returned move is the null move or playable in the root position — every vector. -/
theorem go_move_legal_or_null_spsa (K : Keys) (P : Params) (L : Limits) (clock : Clock) (fuel : Nat) (e : Engine PS)
    (b : Board) (hv : Board.valid b = true) (hok : PSok e.ps) (nodes0 : Int) :
    (go (spsaComp K P) L clock fuel e b nodes0).move = 0 ∨
      (go (spsaComp K P) L clock fuel e b nodes0).move ∈ MoveGen.playable K b :=
  Props.C06.go_move_legal_or_null (spsaComp K P) L clock (realP_laws K _ P) fuel e b hv hok nodes0

/-- … in the words of the RULE BOOK. -/
theorem go_move_legal_or_null_rules_spsa (K : Keys) (P : Params) (L : Limits) (clock : Clock) (fuel : Nat)
    (e : Engine PS) (b : Board) (hv : Board.valid b = true) (hok : PSok e.ps) (nodes0 : Int) :
    let m := (go (spsaComp K P) L clock fuel e b nodes0).move
    m = 0 ∨ (m < 32768 ∧ Rules.legal (Board.abs b) (decodeMove m) = true ∧ encodeMove (decodeMove m) = m) := by
  intro m
  rcases go_move_legal_or_null_spsa K P L clock fuel e b hv hok nodes0 with h | h
  · exact Or.inl h
  · exact Or.inr ((Props.C01.playable_eq_legal K hv _).1 h)

/-- … for every state an spsa session can be in. -/
theorem go_move_legal_or_null_session_spsa (K : Keys) (P : Params) (L : Limits) (clock : Clock) (fuel : Nat)
    (e : Engine PS) (b : Board) (hv : Board.valid b = true) (hs : SessionP K e) (nodes0 : Int) :
    let m := (go (spsaComp K P) L clock fuel e b nodes0).move
    m = 0 ∨ (m < 32768 ∧ Rules.legal (Board.abs b) (decodeMove m) = true ∧ encodeMove (decodeMove m) = m) :=
  go_move_legal_or_null_rules_spsa K P L clock fuel e b hv (sessionP_ok hs) nodes0

/-- the next search does not depend on the abort flag the previous one left behind. -/
theorem go_reusable_spsa (K : Keys) (P : Params) (L : Limits) (clock : Clock) (fuel : Nat) (e : Engine PS) (b : Board)
    (nodes0 : Int) (flag : Bool) :
    go (spsaComp K P) L clock fuel { e with aborted := flag } b nodes0 = go (spsaComp K P) L clock fuel e b nodes0 := rfl

/-- the engine left behind by a search under `P` is an admissible prior state for a search under `P'`. -/
theorem go_again_restores_spsa (K : Keys) (P P' : Params) (L L' : Limits) (clock clock' : Clock) (fuel fuel' : Nat)
    (e : Engine PS) (b b' : Board) (hv : Board.valid b = true) (hv' : Board.valid b' = true) (hok : PSok e.ps)
    (nodes0 : Int) :
    let r' := go (spsaComp K P') L' clock' fuel' (go (spsaComp K P) L clock fuel e b nodes0).engine b'
    r'.st.board = b' ∧ (r'.move = 0 ∨ r'.move ∈ MoveGen.playable K b') := by
  intro r'
  have hok' := go_keeps_ps_invariant_spsa K P L clock fuel e b hv hok nodes0
  exact ⟨(go_board_restored_spsa K P' L' clock' fuel' _ b' hv' hok' 0).1,
    go_move_legal_or_null_spsa K P' L' clock' fuel' _ b' hv' hok' 0⟩

/-! #### C07 -/

theorem reported_pv_legal_spsa (K : Keys) (P : Params) (L : Limits) (clock : Clock) (fuel : Nat) (e : Engine PS)
    (b : Board) (hv : Board.valid b = true) (hok : PSok e.ps) (nodes0 : Int) :
    ∀ i ∈ (go (spsaComp K P) L clock fuel e b nodes0).out, LegalLine K b i.pv :=
  Props.C07.reported_pv_legal (spsaComp K P) L clock (realP_laws K _ P) fuel e b hv hok nodes0

theorem reported_pv_rules_spsa (K : Keys) (P : Params) (L : Limits) (clock : Clock) (fuel : Nat) (e : Engine PS)
    (b : Board) (hv : Board.valid b = true) (hok : PSok e.ps) (nodes0 : Int) :
    ∀ i ∈ (go (spsaComp K P) L clock fuel e b nodes0).out, b.fifty + i.pv.length ≤ 100 →
      RulesLine (Board.abs b) i.pv :=
  fun i hi hc => legalLine_rules K i.pv b hv hc (reported_pv_legal_spsa K P L clock fuel e b hv hok nodes0 i hi)

theorem bestmove_is_head_of_last_nonempty_pv_spsa (K : Keys) (P : Params) (L : Limits) (clock : Clock) (fuel : Nat)
    (e : Engine PS) (b : Board) (hv : Board.valid b = true) (hok : PSok e.ps) (nodes0 : Int) (ho : L.output = true)
    (i : Info) (hi : lastPV (go (spsaComp K P) L clock fuel e b nodes0).out = some i) :
    i.pv.head? = some (go (spsaComp K P) L clock fuel e b nodes0).move :=
  Props.C07.bestmove_is_head_of_last_nonempty_pv (spsaComp K P) L clock (realP_laws K _ P) fuel e b hv hok nodes0 ho i hi

theorem ponder_legal_after_bestmove_spsa (K : Keys) (P : Params) (L : Limits) (clock : Clock) (fuel : Nat)
    (e : Engine PS) (b : Board) (hv : Board.valid b = true) (hok : PSok e.ps) (nodes0 : Int)
    (hp : (go (spsaComp K P) L clock fuel e b nodes0).ponder ≠ 0) :
    LegalLine K b [(go (spsaComp K P) L clock fuel e b nodes0).move, (go (spsaComp K P) L clock fuel e b nodes0).ponder] :=
  Props.C07.ponder_legal_after_bestmove (spsaComp K P) L clock (realP_laws K _ P) fuel e b hv hok nodes0 hp

theorem ponder_legal_after_bestmove_rules_spsa (K : Keys) (P : Params) (L : Limits) (clock : Clock) (fuel : Nat)
    (e : Engine PS) (b : Board) (hv : Board.valid b = true) (hok : PSok e.ps) (nodes0 : Int) (hc : b.fifty + 2 ≤ 100)
    (hp : (go (spsaComp K P) L clock fuel e b nodes0).ponder ≠ 0) :
    RulesLine (Board.abs b)
      [(go (spsaComp K P) L clock fuel e b nodes0).move, (go (spsaComp K P) L clock fuel e b nodes0).ponder] :=
  legalLine_rules K _ b hv (by simpa using hc) (ponder_legal_after_bestmove_spsa K P L clock fuel e b hv hok nodes0 hp)

theorem depths_increase_nodes_monotone_spsa (K : Keys) (P : Params) (L : Limits) (clock : Clock) (fuel : Nat)
    (e : Engine PS) (b : Board) (hv : Board.valid b = true) (hok : PSok e.ps) (nodes0 : Int) :
    (go (spsaComp K P) L clock fuel e b nodes0).out.Pairwise
      fun newer older => older.depth < newer.depth ∧ older.nodes ≤ newer.nodes :=
  Props.C07.depths_increase_nodes_monotone (spsaComp K P) L clock (realP_laws K _ P) fuel e b hv hok nodes0

/-! #### C08 -/

theorem nodes_le_budget_spsa (K : Keys) (P : Params) (L : Limits) (clock : Clock) (fuel : Nat) (e : Engine PS) (b : Board)
    (hv : Board.valid b = true) (hok : PSok e.ps) (nodes0 : Int) (hN : 0 ≤ L.nodes) (h0 : nodes0 ≤ L.nodes) :
    (go (spsaComp K P) L clock fuel e b nodes0).st.nodes ≤ L.nodes :=
  Props.C08.nodes_le_budget (spsaComp K P) L clock (realP_laws K _ P) fuel e b hv hok nodes0 hN h0

theorem time_irrelevant_spsa (K : Keys) (P : Params) (L : Limits) (clock1 clock2 : Clock) (fuel : Nat) (e : Engine PS)
    (b : Board) (nodes0 : Int) (hst : L.softTime ≤ 0) :
    (go (spsaComp K P) L clock1 fuel e b nodes0).blank = (go (spsaComp K P) L clock2 fuel e b nodes0).blank :=
  Props.C08.time_irrelevant (spsaComp K P) L clock1 clock2 fuel e b nodes0 hst

/-- Soft ≡ hard under every vector: a run without hard budget, stop and ponder channel that ended after
    `N` nodes is reproduced by the hard budget `N` (see `Props.C08.soft_eq_hard_strong`). -/
theorem soft_eq_hard_spsa (K : Keys) (P : Params) (clock : Clock) (L : Limits) (fuel : Nat) (e : Engine PS) (b : Board)
    (hn : L.nodes = -1) (hs : L.stop = none) (hp : L.ponder = none) :
    let r := go (spsaComp K P) L clock fuel e b
    let r' := go (spsaComp K P) { L with nodes := r.st.nodes, softNodes := 0 } clock fuel e b
    r'.score = r.score ∧ r'.move = r.move ∧ r'.ponder = r.ponder ∧ r'.st.nodes = r.st.nodes ∧ r'.st.ps = r.st.ps ∧
      r'.st.board = r.st.board ∧ r'.st.hstack = r.st.hstack ∧ r'.st.frames = r.st.frames ∧
      r'.st.polls = r.st.polls ∧ r'.st.anomaly = r.st.anomaly ∧
      (r'.out = r.out ∨
        ∃ d, r'.out = { depth := d, full := false, score := 0, nodes := r.st.nodes, time := 0, hashfull := 0, pv := [] } :: r.out) :=
  Props.C08.soft_eq_hard_strong (spsaComp K P) clock L fuel e b hn hs hp

/-! ### (b) every parameter vector: termination below the driver -/

/-- **The termination laws hold for every vector.** -/
theorem spsa_fuelLaws_hold (K : Keys) (cs : Eval.CoeffSet Int) (P : Params) : FuelLaws (realCompP K cs P) RealGood muReal :=
  realP_fuelLaws K cs P

/-- **`alphaBeta` of the spsa build terminates for EVERY vector**: at `ply` with `fuel ≥ 112 - ply` nothing in
    the subtree runs out of fuel (63 nested levels by the ply cap, 48 quiescence levels by men + pawns; no
    law about the reductions, so not even the range of `P` matters). -/
theorem alphaBeta_terminates_spsa (K : Keys) (P : Params) (L : Limits) (fuel : Nat) (alpha beta : Score) (d ply : Int)
    (nt : NodeType) (s : St PS) (hv : Board.valid s.board = true) (hok : PSok s.ps) (h0 : 0 ≤ ply) (h63 : ply ≤ 63)
    (hfu : 112 - ply ≤ (fuel : Int)) (hfo : s.fuelOut = false) :
    (alphaBeta (spsaComp K P) L fuel alpha beta d ply nt s).2.fuelOut = false :=
  Props.C06fuel.alphaBeta_terminates (spsaComp K P) L (realP_laws K _ P) (realP_fuelLaws K _ P) fuel alpha beta d ply nt s
    hv hok h0 h63 hfu hfo

theorem quiescence_terminates_spsa (K : Keys) (P : Params) (L : Limits) (fuel : Nat) (hfu : 49 ≤ fuel) (alpha beta : Score)
    (ply : Int) (s : St PS) (hv : Board.valid s.board = true) (hok : PSok s.ps) (hfo : s.fuelOut = false) :
    (quiescence (spsaComp K P) L fuel alpha beta ply s).2.fuelOut = false :=
  Props.C06fuel.quiescence_terminates_49 (spsaComp K P) L (realP_laws K _ P) (realP_fuelLaws K _ P) fuel hfu alpha beta ply s
    hv hok hfo

/-! ### (c) in-range vectors: no panic source in the parametrized code -/

/-- the thirteen intervals (`Params.InRange` is computed from the regenerated table). -/
theorem inRange_spelled_out (P : Params) : P.InRange ↔
    (30 ≤ P.nmpDiffFactor ∧ P.nmpDiffFactor ≤ 70) ∧ (0 ≤ P.nmpDepthLimit ∧ P.nmpDepthLimit ≤ 5) ∧
    (1 ≤ P.nmpInit ∧ P.nmpInit ≤ 6) ∧ (5 ≤ P.rfpDepthLimit ∧ P.rfpDepthLimit ≤ 10) ∧
    (70 ≤ P.rfpScoreFactor ∧ P.rfpScoreFactor ≤ 130) ∧ (30 ≤ P.windowSize ∧ P.windowSize ≤ 100) ∧
    (0 ≤ P.lmrStart ∧ P.lmrStart ≤ 10) ∧ (80 ≤ P.standPatDelta ∧ P.standPatDelta ≤ 130) ∧
    (15 ≤ P.histBonusMul ∧ P.histBonusMul ≤ 25) ∧ (0 ≤ P.histBonusLin ∧ P.histBonusLin ≤ 20) ∧
    (4 ≤ P.histAdjRange ∧ P.histAdjRange ≤ 10) ∧ (4 ≤ P.histAdjReduction ∧ P.histAdjReduction ≤ 10) ∧
    (2 ≤ P.iirDepthLimit ∧ P.iirDepthLimit ≤ 7) := inRange_iff P

/-- every conversion of a parameter at its use site is the identity; the shift counts are not negative. -/
theorem conversions_exact_spsa {P : Params} (h : P.InRange) :
    wrapS16 P.nmpDiffFactor = P.nmpDiffFactor ∧ wrapS8 P.nmpDepthLimit = P.nmpDepthLimit ∧
    wrapS8 P.nmpInit = P.nmpInit ∧ wrapS8 P.rfpDepthLimit = P.rfpDepthLimit ∧
    wrapS16 P.rfpScoreFactor = P.rfpScoreFactor ∧ wrapS16 P.windowSize = P.windowSize ∧
    wrapS16 P.standPatDelta = P.standPatDelta ∧ wrapS16 P.histBonusMul = P.histBonusMul ∧
    wrapS16 P.histBonusLin = P.histBonusLin ∧ wrapS8 P.iirDepthLimit = P.iirDepthLimit ∧
    0 ≤ P.histAdjRange ∧ 0 ≤ P.histAdjReduction := conversions_exact h

/-- `(staticEval-beta)/Score(params.NMPDiffFactor)`: the divisor is not zero. -/
theorem nmp_divisor_ne_zero_spsa {P : Params} (h : P.InRange) : wrapS16 P.nmpDiffFactor ≠ 0 := nmp_divisor_ne_zero h

/-- `Score(1) << params.HistAdjRange`, `<< params.HistAdjReduction`: 16..1024, the divisor `red` is not zero. -/
theorem hist_shifts_ok_spsa {P : Params} (h : P.InRange) :
    let rng := wrapS16 ((2 : Int) ^ P.hist.adjRange.toNat)
    let red := wrapS16 ((2 : Int) ^ P.hist.adjReduction.toNat)
    16 ≤ rng ∧ rng ≤ 1024 ∧ 16 ≤ red ∧ red ≤ 1024 ∧ red ≠ 0 ∧ wrapS16 (-rng) = -rng := hist_shifts_ok h

/-- **the indices into the `log` table are within bounds** for the call `lmr(d, moveCnt-1, …)` under the guard
    `d > 1 && quietCnt > params.LMRStart`, for counters with `quietCnt ≤ moveCnt` (the loop invariant
    `Search.CntInv`) and `LMRStart ≥ 0`.  The offset is the regenerated `Gen.Search.lmrCountOffset`. -/
theorem lmr_index_in_range_spsa {P : Params} (h : P.InRange) {d quietCnt moveCnt : Int}
    (hg : lmrTryP P d quietCnt = true) (hcnt : quietCnt ≤ moveCnt) (hd : d ≤ 64) :
    (0 ≤ d ∧ d < (Gen.Funcs.logTbl.length : Int)) ∧
    (0 ≤ min (moveCnt - Gen.Search.lmrCountOffset) 100 ∧
      min (moveCnt - Gen.Search.lmrCountOffset) 100 < (Gen.Funcs.logTbl.length : Int)) ∧
    0 ≤ moveCnt - Gen.Search.lmrCountOffset :=
  lmr_index_in_range h.bounds.lmrStart.1 hg hcnt hd

/-- **the move loop of the skeleton never consults `lmr` at a negative count** (in range: `LMRStart ≥ 0`):
    replacing `lmr` by any function that agrees with it on counts `≥ 0` — e.g. one that "panics" below 0 —
    gives the same loop from every state whose counters satisfy the invariant, in particular from the
    initial state of `abMoves` (`Search.cntInv_init`). -/
theorem lmr_never_consulted_below_zero_spsa (K : Keys) {P : Params} (h : P.InRange)
    (f : Int → Int → Bool → NodeType → Int)
    (hagree : ∀ d mc imp nt, 0 ≤ mc → f d mc imp nt = (spsaComp K P).lmr d mc imp nt)
    (L : Limits) (child : Child PS) (x : ABCtx) (n : Nat) (l : ABLoop Pick) (s : St PS) (hl : CntInv l) :
    abLoop { spsaComp K P with lmr := f } L child x n l s = abLoop (spsaComp K P) L child x n l s :=
  abLoop_lmr_nonneg (spsaComp K P) f hagree (fun d q hg => lmrTryP_late h.bounds.lmrStart.1 d q hg) L child x n l s hl

/-- **the depth laws hold in range**: every recursive call of a node of depth `1 ≤ d ≤ 64` has a depth in
    `[0, d-1]`. -/
theorem spsa_depthLaws_hold (K : Keys) (cs : Eval.CoeffSet Int) {P : Params} (h : P.InRange) : DepthLaws (realCompP K cs P) :=
  realP_depthLaws K cs h

theorem alphaBeta_terminates_depth_spsa (K : Keys) {P : Params} (h : P.InRange) (L : Limits) (fuel : Nat)
    (alpha beta : Score) (d ply : Int) (nt : NodeType) (s : St PS) (hv : Board.valid s.board = true) (hok : PSok s.ps)
    (h0 : 0 ≤ ply) (h63 : ply ≤ 63) (hd0 : 0 ≤ d) (hd64 : d ≤ 64) (hfu : d + 49 ≤ (fuel : Int)) (hfo : s.fuelOut = false) :
    (alphaBeta (spsaComp K P) L fuel alpha beta d ply nt s).2.fuelOut = false :=
  Props.C06fuel.alphaBeta_terminates_depth (spsaComp K P) L (realP_laws K _ P) (realP_fuelLaws K _ P)
    (realP_depthLaws K _ h) fuel alpha beta d ply nt s hv hok h0 h63 hd0 hd64 hfu hfo

/-! ### (d) the score clauses and driver-level termination: the covered vectors -/

/-- the in-range vectors for which the score laws and the aspiration laws are proved. -/
structure Covered (P : Params) : Prop where
  inRange : P.InRange
  lmrLate : 1 ≤ P.lmrStart
  window : WSafe P.windowSize

/-- the default vector is covered (so `Covered` is inhabited and the theorems below contain the ones of
    Props/C06real.lean) … -/
theorem default_covered : Covered Params.default := ⟨default_inRange, by decide, by decide⟩

/-- … and so are non-default ones, e.g. every parameter at its minimum except `LMRStart = 1`, `WindowSize = 39`,
    or every parameter at its maximum except `WindowSize = 88`. -/
example : Covered ⟨30, 0, 1, 5, 70, 39, 1, 80, 15, 0, 4, 4, 2⟩ := ⟨by decide, by decide, by decide⟩
example : Covered ⟨70, 5, 6, 10, 130, 88, 10, 130, 25, 20, 10, 10, 7⟩ := ⟨by decide, by decide, by decide⟩

/-- **The score laws hold for every in-range vector with `LMRStart ≥ 1`** (any window size). -/
theorem spsa_scoreLaws_hold (K : Keys) (cs : Eval.CoeffSet Int) {P : Params} (h : P.InRange) (hl : 1 ≤ P.lmrStart) :
    ScoreLaws (realCompP K cs P) RealGood TTokReal muReal := realP_scoreLaws K cs h hl

/-- **The aspiration laws hold for every in-range vector with a safe window size.** -/
theorem spsa_aspLaws_hold (K : Keys) (cs : Eval.CoeffSet Int) {P : Params} (h : P.InRange) (hw : WSafe P.windowSize) :
    AspLaws (realCompP K cs P) := realP_aspLaws K cs h hw

/-- node level, `LMRStart ≥ 1`, any window size: values within `±Inf`, table invariant kept. -/
theorem alphaBeta_value_in_range_spsa (K : Keys) {P : Params} (h : P.InRange) (hl : 1 ≤ P.lmrStart) (L : Limits)
    (fuel : Nat) (a b : Score) (d ply : Int) (nt : NodeType) (s : St PS) (hv : Board.valid s.board = true)
    (h0 : 0 ≤ ply) (h1 : ply ≤ 63) (hw : WinOK a b) (htt : TTokReal s.ps)
    (hA : (alphaBeta (spsaComp K P) L fuel a b d ply nt s).2.ttOut = false) :
    TTokReal (alphaBeta (spsaComp K P) L fuel a b d ply nt s).2.ps ∧
      ((alphaBeta (spsaComp K P) L fuel a b d ply nt s).2.aborted = false →
        InR (alphaBeta (spsaComp K P) L fuel a b d ply nt s).1) :=
  Props.C06.alphaBeta_value_in_range_tt (spsaComp K P) L (realP_laws K _ P) (realP_scoreLaws K _ h hl) fuel a b d ply nt s
    hv h0 h1 hw htt hA

theorem go_keeps_table_invariant_spsa (K : Keys) {P : Params} (hc : Covered P) (L : Limits) (clock : Clock) (fuel : Nat)
    (e : Engine PS) (b : Board) (hv : Board.valid b = true) (nodes0 : Int) (hd : 1 ≤ L.depth) (htt : TTokReal e.ps)
    (hA : (go (spsaComp K P) L clock fuel e b nodes0).st.ttOut = false) :
    TTokReal (go (spsaComp K P) L clock fuel e b nodes0).engine.ps :=
  Props.C06.go_keeps_table_invariant_free_tt (spsaComp K P) L clock (realP_laws K _ P)
    (realP_scoreLaws K _ hc.inRange hc.lmrLate) (realP_aspLaws K _ hc.inRange hc.window) fuel e b hv nodes0 hd htt hA

/-- **The null move is returned only if the root is final** (rule-book reading), covered vectors; the one
    run-level hypothesis is the one of the default build: no out-of-band value was handed to a table
    store in the run. -/
theorem go_null_only_if_final_spsa (K : Keys) {P : Params} (hc : Covered P) (L : Limits) (clock : Clock) (fuel : Nat)
    (e : Engine PS) (b : Board) (hv : Board.valid b = true) (nodes0 : Int) (hd : 1 ≤ L.depth) (htt : TTokReal e.ps)
    (hA : (go (spsaComp K P) L clock fuel e b nodes0).st.ttOut = false)
    (hnull : (go (spsaComp K P) L clock fuel e b nodes0).move = 0) :
    Rules.legalMoves (Board.abs b) = [] ∨ b.fifty ≥ 100 ∨ b.threefold ≥ 3 :=
  (final_iff_rules K hv).1
    (Props.C06.go_null_only_if_final_free_tt (spsaComp K P) L clock (realP_laws K _ P)
      (realP_scoreLaws K _ hc.inRange hc.lmrLate) (realP_aspLaws K _ hc.inRange hc.window) fuel e b hv nodes0 hd htt hA hnull)

/-- A search that runs to completion on a final root returns the null move with score 0, or with the
    mated score for a checkmated root — covered vectors. -/
theorem go_final_score_spsa (K : Keys) {P : Params} (hc : Covered P) (L : Limits) (clock : Clock) (fuel : Nat)
    (e : Engine PS) (b : Board) (hv : Board.valid b = true) (nodes0 : Int) (hd : 1 ≤ L.depth) (htt : TTokReal e.ps)
    (hA : (go (spsaComp K P) L clock fuel e b nodes0).st.ttOut = false)
    (hfin : Rules.legalMoves (Board.abs b) = [] ∨ b.fifty ≥ 100 ∨ b.threefold ≥ 3)
    (hdone : (go (spsaComp K P) L clock fuel e b nodes0).st.aborted = false) :
    (go (spsaComp K P) L clock fuel e b nodes0).move = 0 ∧
      ((go (spsaComp K P) L clock fuel e b nodes0).score = 0 ∨
        (b.inCheck b.stm = true ∧ MoveGen.playable K b = [] ∧ (go (spsaComp K P) L clock fuel e b nodes0).score = -Inf)) :=
  Props.C06.go_final_score_free_tt (spsaComp K P) L clock (realP_laws K _ P) (realP_scoreLaws K _ hc.inRange hc.lmrLate)
    (realP_aspLaws K _ hc.inRange hc.window) fuel e b hv nodes0 hd htt hA ((final_iff_rules K hv).2 hfin) hdone

/-- **`Go` of the spsa build terminates** (covered vectors): 112 units of fuel are never exhausted. -/
theorem go_fuel_suffices_spsa (K : Keys) {P : Params} (hc : Covered P) (L : Limits) (clock : Clock) (fuel : Nat)
    (hfu : goFuel ≤ fuel) (e : Engine PS) (b : Board) (hv : Board.valid b = true) (nodes0 : Int) (htt : TTokReal e.ps)
    (hA : (go (spsaComp K P) L clock fuel e b nodes0).st.ttOut = false) :
    (go (spsaComp K P) L clock fuel e b nodes0).st.fuelOut = false :=
  Props.C06fuel.go_fuel_suffices (spsaComp K P) L clock (realP_laws K _ P) (realP_scoreLaws K _ hc.inRange hc.lmrLate)
    (realP_aspLaws K _ hc.inRange hc.window) (realP_fuelLaws K _ P) fuel hfu e b hv nodes0 htt hA

/-- … and a search without stop channel and hard budget runs to completion. -/
theorem go_completes_spsa (K : Keys) {P : Params} (hc : Covered P) (L : Limits) (clock : Clock) (fuel : Nat)
    (hfu : goFuel ≤ fuel) (e : Engine PS) (b : Board) (hv : Board.valid b = true) (nodes0 : Int) (htt : TTokReal e.ps)
    (hstop : L.stop = none) (hnodes : L.nodes = -1)
    (hA : (go (spsaComp K P) L clock fuel e b nodes0).st.ttOut = false) :
    (go (spsaComp K P) L clock fuel e b nodes0).st.aborted = false :=
  Props.C06fuel.go_completes (spsaComp K P) L clock (realP_laws K _ P) (realP_scoreLaws K _ hc.inRange hc.lmrLate)
    (realP_aspLaws K _ hc.inRange hc.window) (realP_fuelLaws K _ P) fuel hfu e b hv nodes0 htt hstop hnodes hA

/-! ### what is NOT proved for all in-range vectors -/

/-- `ScoreLaws.lmr_late` is false for the in-range value `LMRStart = 0`. -/
theorem lmr_late_fails_at_zero_spsa (K : Keys) (cs : Eval.CoeffSet Int) (P : Params) (h0 : P.lmrStart = 0) :
    ¬ ∀ d q, (realCompP K cs P).lmrTry d q = true → 2 ≤ q := lmr_late_fails_at_zero K cs P h0

/-- **the window condition is exact on the declared range**: every `WindowSize` in `30..100` is safe, or
    there is a chain of at most eleven failed root searches — every result within `±Inf` and outside the
    window it is compared with, starting from the first window after an in-range score — whose last
    widening wraps in int16 (`Search.aspChain`, `Search.witness`: Proofs/SearchAspExact.lean). -/
theorem window_safe_exact : ∀ i : Fin 71,
    (decide (WSafe (30 + (i.val : Int))) || (List.range 11).any (wraps (30 + (i.val : Int)))) = true := wsafe_exact

/-- the uncovered in-range window sizes. -/
theorem uncovered_windows {W : Int} (h30 : 30 ≤ W) (h100 : W ≤ 100) :
    ¬ WSafe W ↔ (W ≤ 38 ∨ (45 ≤ W ∧ W ≤ 77) ∨ 89 ≤ W) := inRange_window_unsafe_iff h30 h100

/-- NOT PROVED: the null-move clause for ALL in-range vectors.  Proved for `Covered` ones
    (`go_null_only_if_final_spsa`); missing: `LMRStart = 0` (the range development's law `lmr_late`) and the
    window sizes `30..38`, `45..77`, `89..100` (no int16-safety of the aspiration chain from "results within
    `±Inf`" alone: `window_safe_exact`; it would need the run-level `GoSane` or facts about search stability). -/
def C06spsa_full_null_only_if_final : Prop :=
  ∀ (K : Keys) (P : Params), P.InRange → ∀ (L : Limits) (clock : Clock) (fuel : Nat) (e : Engine PS) (b : Board),
    Board.valid b = true → ∀ nodes0 : Int, 1 ≤ L.depth → TTokReal e.ps →
    (go (spsaComp K P) L clock fuel e b nodes0).st.ttOut = false →
    (go (spsaComp K P) L clock fuel e b nodes0).move = 0 →
    Rules.legalMoves (Board.abs b) = [] ∨ b.fifty ≥ 100 ∨ b.threefold ≥ 3

/-- NOT PROVED: the final-score clause for all in-range vectors (proved for `Covered`: `go_final_score_spsa`). -/
def C06spsa_full_final_score : Prop :=
  ∀ (K : Keys) (P : Params), P.InRange → ∀ (L : Limits) (clock : Clock) (fuel : Nat) (e : Engine PS) (b : Board),
    Board.valid b = true → ∀ nodes0 : Int, 1 ≤ L.depth → TTokReal e.ps →
    (go (spsaComp K P) L clock fuel e b nodes0).st.ttOut = false →
    (Rules.legalMoves (Board.abs b) = [] ∨ b.fifty ≥ 100 ∨ b.threefold ≥ 3) →
    (go (spsaComp K P) L clock fuel e b nodes0).st.aborted = false →
    (go (spsaComp K P) L clock fuel e b nodes0).move = 0 ∧
      ((go (spsaComp K P) L clock fuel e b nodes0).score = 0 ∨
        (b.inCheck b.stm = true ∧ MoveGen.playable K b = [] ∧ (go (spsaComp K P) L clock fuel e b nodes0).score = -Inf))

/-- NOT PROVED: driver-level termination for all in-range vectors (proved for `Covered`:
    `go_fuel_suffices_spsa`; below the driver it holds for EVERY vector: `alphaBeta_terminates_spsa`).  That a
    law about the window size is needed at all: `Props.C06fuel.go_window0_never_terminates`. -/
def C06spsa_full_go_terminates : Prop :=
  ∀ (K : Keys) (P : Params), P.InRange → ∀ (L : Limits) (clock : Clock) (fuel : Nat), goFuel ≤ fuel →
    ∀ (e : Engine PS) (b : Board), Board.valid b = true → ∀ nodes0 : Int, TTokReal e.ps →
    (go (spsaComp K P) L clock fuel e b nodes0).st.ttOut = false →
    (go (spsaComp K P) L clock fuel e b nodes0).st.fuelOut = false

/-- the three full statements restricted to covered vectors ARE theorems. -/
theorem C06spsa_partial :
    (∀ (K : Keys) (P : Params), Covered P → ∀ (L : Limits) (clock : Clock) (fuel : Nat) (e : Engine PS) (b : Board),
      Board.valid b = true → ∀ nodes0 : Int, 1 ≤ L.depth → TTokReal e.ps →
      (go (spsaComp K P) L clock fuel e b nodes0).st.ttOut = false →
      (go (spsaComp K P) L clock fuel e b nodes0).move = 0 →
      Rules.legalMoves (Board.abs b) = [] ∨ b.fifty ≥ 100 ∨ b.threefold ≥ 3) ∧
    (∀ (K : Keys) (P : Params), Covered P → ∀ (L : Limits) (clock : Clock) (fuel : Nat), goFuel ≤ fuel →
      ∀ (e : Engine PS) (b : Board), Board.valid b = true → ∀ nodes0 : Int, TTokReal e.ps →
      (go (spsaComp K P) L clock fuel e b nodes0).st.ttOut = false →
      (go (spsaComp K P) L clock fuel e b nodes0).st.fuelOut = false) :=
  ⟨fun K _ hc L clock fuel e b hv nodes0 hd htt hA hnull => go_null_only_if_final_spsa K hc L clock fuel e b hv nodes0 hd htt hA hnull,
   fun K _ hc L clock fuel hfu e b hv nodes0 htt hA => go_fuel_suffices_spsa K hc L clock fuel hfu e b hv nodes0 htt hA⟩

/-! ### non-vacuity -/

open C05 (start rich)
open C02core (start_valid rich_valid)

/-- in-range vectors exist beyond the defaults: all minima, all maxima. -/
example : Params.InRange ⟨30, 0, 1, 5, 70, 30, 0, 80, 15, 0, 4, 4, 2⟩ ∧
    Params.InRange ⟨70, 5, 6, 10, 130, 100, 10, 130, 25, 20, 10, 10, 7⟩ := by decide

/-- out-of-range vectors are rejected (`NMPDiffFactor = 0`, the value C06-9 lets `Set` store). -/
example : ¬ Params.InRange { Params.default with nmpDiffFactor := 0 } := by decide

/-- a session that changes the vector between two searches … -/
example (K : Keys) (P P' : Params) (L L' : Limits) (clock : Clock) (fuel : Nat) :
    SessionP K (go (spsaComp K P') L' clock fuel (go (spsaComp K P) L clock fuel (newEngine 1024) start).engine rich).engine :=
  SessionP.go P' L' clock fuel rich 0 (SessionP.go P L clock fuel start 0 (SessionP.new 1024) start_valid) rich_valid

/-- … and the theorems apply to it: whatever the vectors, limits, clock, fuel and points of abort, the
    second search hands the board back. -/
example (K : Keys) (P P' : Params) (L L' : Limits) (clock : Clock) (fuel : Nat) :
    (go (spsaComp K P') L' clock fuel (go (spsaComp K P) L clock fuel (newEngine 1024) start).engine rich).st.board = rich :=
  (go_again_restores_spsa K P P' L L' clock clock fuel fuel _ start rich start_valid rich_valid
    (Props.C06real.newEngine_ok 1024) 0).1

/-- the guard of the late-move reduction CAN fire for the first move when `LMRStart = 0` (count 0, in
    range), and the hypotheses of `lmr_index_in_range_spsa` are met there. -/
example : lmrTryP { Params.default with lmrStart := 0 } 2 1 = true := by decide

/-- `alphaBeta_terminates_spsa` applies to the state `Go` starts from, for any vector. -/
example (K : Keys) (P : Params) (L : Limits) (a b : Score) (d : Int) :
    (alphaBeta (spsaComp K P) L 112 a b d 0 .pv (goInit L (newEngine 1024) start 0)).2.fuelOut = false :=
  alphaBeta_terminates_spsa K P L 112 a b d 0 .pv _ start_valid (Props.C06real.newEngine_ok 1024) (Int.le_refl 0)
    (by decide) (by decide) rfl

end ChessVerif.Props.C06spsa
