/-
  C02 (core) — the position after `MakeMove` is the successor the rules prescribe, in every respect
  except the "only if a capture is legal" refinement of the en-passant target (that clause is
  proved separately, Proofs/EpTarget*.lean).

  For every valid position `b`, every generated move `m` and arbitrary Zobrist keys `K`, the
  abstraction of `(b.makeMove K m).1` and the rule book's `Rules.applyCore (abs b) (decodeMove m)` have
  the same placement (capture square incl. en passant, rook relocation on castling, promotion piece),
  side to move, castling rights, halfmove clock and fullmove number; and the en-passant target of the
  engine is either absent or the one the rule book records after a double pawn advance.
  (Property theorems + non-vacuity examples only; proofs in Proofs/AbsMakeFacts.lean, Proofs/AbsMake.lean.)
-/
import ChessVerif.Proofs.AbsMake
import ChessVerif.Props.C05

namespace ChessVerif.Props.C02core
open ChessVerif Board

/-- **C02 core**: placement, side to move, castling rights and both counters after `makeMove` are
    those of the rule book's successor position. -/
theorem abs_make_core (K : Keys) {b : Board} {m : Move} (hv : Board.valid b = true) (hm : m ∈ MoveGen.gen b) :
    let b' := (b.makeMove K m).1
    let q := Rules.applyCore (abs b) (decodeMove m)
    (abs b').men = q.men ∧ (abs b').turn = q.turn ∧ (abs b').rights = q.rights ∧
    (abs b').halfmove = q.halfmove ∧ (abs b').fullmove = q.fullmove := by
  have g := AbsMake.genMove_of hv hm
  exact ⟨AbsMake.abs_make_men K g, AbsMake.abs_make_turn K b m, AbsMake.abs_make_rights K g,
    AbsMake.abs_make_halfmove K g, AbsMake.abs_make_fullmove K b m⟩

/-- the five clauses separately. -/
theorem abs_make_men (K : Keys) {b : Board} {m : Move} (hv : Board.valid b = true) (hm : m ∈ MoveGen.gen b) :
    (abs (b.makeMove K m).1).men = (Rules.applyCore (abs b) (decodeMove m)).men :=
  AbsMake.abs_make_men K (AbsMake.genMove_of hv hm)

theorem abs_make_turn (K : Keys) (b : Board) (m : Move) :
    (abs (b.makeMove K m).1).turn = (Rules.applyCore (abs b) (decodeMove m)).turn := AbsMake.abs_make_turn K b m

theorem abs_make_rights (K : Keys) {b : Board} {m : Move} (hv : Board.valid b = true) (hm : m ∈ MoveGen.gen b) :
    (abs (b.makeMove K m).1).rights = (Rules.applyCore (abs b) (decodeMove m)).rights :=
  AbsMake.abs_make_rights K (AbsMake.genMove_of hv hm)

theorem abs_make_halfmove (K : Keys) {b : Board} {m : Move} (hv : Board.valid b = true) (hm : m ∈ MoveGen.gen b) :
    (abs (b.makeMove K m).1).halfmove = (Rules.applyCore (abs b) (decodeMove m)).halfmove :=
  AbsMake.abs_make_halfmove K (AbsMake.genMove_of hv hm)

theorem abs_make_fullmove (K : Keys) (b : Board) (m : Move) :
    (abs (b.makeMove K m).1).fullmove = (Rules.applyCore (abs b) (decodeMove m)).fullmove :=
  AbsMake.abs_make_fullmove K b m

/-- **C02, easy half of the en-passant clause**: a target is recorded only after a double pawn
    advance, and then it is the square passed over. -/
theorem abs_make_ep_easy (K : Keys) {b : Board} {m : Move} (hv : Board.valid b = true) (hm : m ∈ MoveGen.gen b) :
    (abs (b.makeMove K m).1).ep = none ∨
      (abs (b.makeMove K m).1).ep = (Rules.applyCore (abs b) (decodeMove m)).ep :=
  AbsMake.abs_make_ep_easy K (AbsMake.genMove_of hv hm)

/-- glue for the full C02 statement: once the en-passant targets agree (the clause proved in
    Proofs/EpTarget*.lean), the abstraction of the successor board *is* `Rules.apply`. -/
theorem abs_make_eq_apply_of_ep (K : Keys) {b : Board} {m : Move} (hv : Board.valid b = true)
    (hm : m ∈ MoveGen.gen b)
    (hep : (abs (b.makeMove K m).1).ep = (Rules.apply (abs b) (decodeMove m)).ep) :
    abs (b.makeMove K m).1 = Rules.apply (abs b) (decodeMove m) :=
  AbsMake.abs_make_eq_apply_of_ep K (AbsMake.genMove_of hv hm) hep

/-- the engine and the rule book classify the same generated moves as en-passant captures and as
    castling moves (the two special cases of the placement clause). -/
theorem isEnPassant_agree {b : Board} {m : Move} (hv : Board.valid b = true) (hm : m ∈ MoveGen.gen b) :
    Rules.isEnPassant (abs b) (decodeMove m) = b.isEnPassant m := AbsMake.isEnPassant_eq (AbsMake.genMove_of hv hm)

theorem isCastling_agree {b : Board} {m : Move} (hv : Board.valid b = true) (hm : m ∈ MoveGen.gen b) :
    Rules.isCastling (abs b) (decodeMove m) = (hop (b.pieceAt (Move.src m)) m).isSome :=
  AbsMake.isCastling_eq (AbsMake.genMove_of hv hm)

/-! ### non-vacuity -/

open C05 (start rich)

theorem start_valid : Board.valid start = true := by decide +kernel
theorem rich_valid : Board.valid rich = true := by decide +kernel

/-- a word is generated when its decoding obeys the rule book and re-encodes to the word
    (`Bridge.gen_iff_pseudoLegal`; the engine's attack tables need not be evaluated). -/
theorem mem_gen_of_rules {b : Board} (hv : Board.valid b = true) {m : Nat} (hm : m < 32768)
    (h : Rules.pseudoLegal (abs b) (decodeMove m) = true) (he : encodeMove (decodeMove m) = m) : m ∈ MoveGen.gen b :=
  (Bridge.gen_iff_pseudoLegal hv m).2 ⟨hm, h, he⟩

-- the hypotheses hold for: e2e4 (double push) in the start position; in the rich position the
-- en-passant capture e5xd6, the promotion a7a8=Q, the capturing under-promotion a7xb8=N, castling e1g1
theorem start_e2e4 : Move.mk 12 28 0 ∈ MoveGen.gen start :=
  mem_gen_of_rules start_valid (by decide) (by decide +kernel) (by decide)
theorem rich_ep : Move.mk 36 43 0 ∈ MoveGen.gen rich :=
  mem_gen_of_rules rich_valid (by decide) (by decide +kernel) (by decide)
theorem rich_promo : Move.mk 48 56 5 ∈ MoveGen.gen rich :=
  mem_gen_of_rules rich_valid (by decide) (by decide +kernel) (by decide)
theorem rich_cappromo : Move.mk 48 57 2 ∈ MoveGen.gen rich :=
  mem_gen_of_rules rich_valid (by decide) (by decide +kernel) (by decide)
theorem rich_castle : Move.mk 4 6 0 ∈ MoveGen.gen rich :=
  mem_gen_of_rules rich_valid (by decide) (by decide +kernel) (by decide)

-- … and the special cases are really exercised: the moves are an en-passant capture / a castling
-- move / a promotion for the rule book, and a target is recorded after e2e4 by the rule book
example : Rules.isEnPassant (abs rich) (decodeMove (Move.mk 36 43 0)) = true := by decide +kernel
example : Rules.isCastling (abs rich) (decodeMove (Move.mk 4 6 0)) = true := by decide +kernel
example : (decodeMove (Move.mk 48 57 2)).promo = some Piece.knight := by decide
example : (Rules.applyCore (abs start) (decodeMove (Move.mk 12 28 0))).ep = some 20 := by decide +kernel
example (K : Keys) : (abs (rich.makeMove K (Move.mk 36 43 0)).1).men =
    (Rules.applyCore (abs rich) (decodeMove (Move.mk 36 43 0))).men := abs_make_men K rich_valid rich_ep
-- the en-passant capture really removes the pawn beside the capturer (d5 = 35) in the rule book
example : (Rules.applyCore (abs rich) (decodeMove (Move.mk 36 43 0))).at_ 35 = none := by decide +kernel
example : (abs rich).at_ 35 = some (Color.black, Piece.pawn) := by decide +kernel

end ChessVerif.Props.C02core
