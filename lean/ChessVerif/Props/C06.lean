/-
  C06 — the search returns a legal move or the null move, leaves the position object untouched and
  can be used again (property theorems only; lemmas in Proofs/Search*.lean).

  The theorems are about the generic skeleton `Search.go` (Model/Search.lean), for ALL components
  `Comp` that satisfy `Laws` (C01–C05, C16 provide them on valid boards), all contents of the
  persistent state (transposition table, histories), all limits, and every abort point: the stop
  signal may become visible at any poll index `L.stop = some k`, the hard budget may expire at any node.
-/
import ChessVerif.Proofs.SearchGo
import ChessVerif.Proofs.SearchRoot
import ChessVerif.Proofs.SearchDemo

namespace ChessVerif.Props.C06
open ChessVerif Search

variable {σ π : Type}

/-- When `go` returns, the board equals the board it was given, on every path including every abort
    return and running out of fuel; the history stack is empty and the move store has no open frame. -/
theorem go_board_restored (c : Comp σ π) (L : Limits) (clock : Clock) {Good : Board → Prop} (hl : Laws c Good)
    (fuel : Nat) (e : Engine σ) (b : Board) (hg : Good b) (nodes0 : Int) :
    (go c L clock fuel e b nodes0).st.board = b ∧ (go c L clock fuel e b nodes0).st.hstack = [] ∧
      (go c L clock fuel e b nodes0).st.frames = 0 :=
  let h := go_post c L clock hl fuel e b hg nodes0
  ⟨h.board, h.hstack, h.frames⟩

/-- The returned move is the null move or playable in the root position (generated and not leaving
    the own king attacked — the FIDE-legal moves by C01). -/
theorem go_move_legal_or_null (c : Comp σ π) (L : Limits) (clock : Clock) {Good : Board → Prop} (hl : Laws c Good)
    (fuel : Nat) (e : Engine σ) (b : Board) (hg : Good b) (nodes0 : Int) :
    (go c L clock fuel e b nodes0).move = 0 ∨ (go c L clock fuel e b nodes0).move ∈ MoveGen.playable c.keys b :=
  (go_post c L clock hl fuel e b hg nodes0).move_ok

/-- The null move is returned only if the root is final, for every depth limit ≥ 1 — for runs that
    returned (`fuelOut = false`) and in which no ply-0 node produced a value outside the fail-soft
    reading of its window (`anomaly = false`, see `St.anomaly`).

    Why an in-window result of a root iteration ≥ 1 carries a non-empty PV: at ply 0 the table
    cut-offs are disabled (PV node), the repetition test needs a third occurrence, null-move pruning
    and a fail-high return ≥ beta, an aborted node makes `abort` true so the driver falls back to the
    first playable generated move; what remains is a node where some move raised alpha — which
    inserted it into row 0 — or a node without playable move (the picker, once exhausted, has
    yielded every generated move), plus the two cases the ghost flag `anomaly` records:
    (1) reverse futility returns `staticEval` with `staticEval ≥ beta + d*RFPScoreFactor` computed in
    int16 — if that sum wraps, `staticEval < beta` is possible; (2) a fail-low returns
    `max(-Inf-1, values…)`, which exceeds alpha when `alpha < -Inf-1` and every move scored below
    `-Inf-1`.  Both need scores outside `±Inf` (or wrapping margins); with them the engine WOULD
    return the null move on a non-final root, so without a score-range law the unconditional
    statement `C06_full_null_only_if_final` is not a theorem of the generic skeleton. -/
theorem go_null_only_if_final_partial (c : Comp σ π) (L : Limits) (clock : Clock) {Good : Board → Prop}
    (hl : Laws c Good) (fuel : Nat) (e : Engine σ) (b : Board) (hg : Good b) (nodes0 : Int) (hd : 1 ≤ L.depth)
    (hfuel : (go c L clock fuel e b nodes0).st.fuelOut = false)
    (hanom : (go c L clock fuel e b nodes0).st.anomaly = false)
    (hnull : (go c L clock fuel e b nodes0).move = 0) : Final c.keys b :=
  go_null_final c L clock hl fuel e b hg nodes0 hd hfuel hanom hnull

/-- Full statement (no `anomaly` hypothesis).  Missing for it: a law bounding evaluation and table
    scores by `±Inf` and the margins' int16 range, and the induction showing that `anomaly` then
    stays `false`. -/
def C06_full_null_only_if_final (c : Comp σ π) (L : Limits) (clock : Clock) (Good : Board → Prop) : Prop :=
  Laws c Good → ∀ (fuel : Nat) (e : Engine σ) (b : Board) (nodes0 : Int), Good b → 1 ≤ L.depth →
    (go c L clock fuel e b nodes0).st.fuelOut = false →
    (go c L clock fuel e b nodes0).move = 0 → Final c.keys b

/-- The same engine instance can be searched again: `refresh()` resets every per-search field, so
    the next search does not depend on the abort flag the previous one left behind (nor on its move
    store, history stack and counters, which `go` re-initialises), only on tables and PV buffer. -/
theorem go_reusable (c : Comp σ π) (L : Limits) (clock : Clock) (fuel : Nat) (e : Engine σ) (b : Board) (nodes0 : Int)
    (flag : Bool) : go c L clock fuel { e with aborted := flag } b nodes0 = go c L clock fuel e b nodes0 := rfl

/-- Second half of "reusable": the engine left behind by any search is again a valid input. -/
theorem go_again_restores (c : Comp σ π) (L L' : Limits) (clock clock' : Clock) {Good : Board → Prop} (hl : Laws c Good)
    (fuel fuel' : Nat) (e : Engine σ) (b b' : Board) (hg' : Good b') (nodes0 : Int) :
    (go c L' clock' fuel' (go c L clock fuel e b nodes0).engine b').st.board = b' :=
  (go_post c L' clock' hl fuel' _ b' hg' 0).board

/-- Full statement of the last clause of C06 (completed search on a final root returns the null
    move with score 0, or the mated score for checkmate); not proved here. -/
def C06_full_final_score (c : Comp σ π) (L : Limits) (clock : Clock) (Good : Board → Prop) : Prop :=
  Laws c Good → ∀ (fuel : Nat) (e : Engine σ) (b : Board) (nodes0 : Int), Good b → 1 ≤ L.depth →
    L.stop = none → L.nodes = -1 → Final c.keys b →
    (go c L clock fuel e b nodes0).st.fuelOut = false →
    (go c L clock fuel e b nodes0).move = 0 ∧
      ((go c L clock fuel e b nodes0).score = 0 ∨
        (b.inCheck b.stm = true ∧ MoveGen.playable c.keys b = [] ∧ (go c L clock fuel e b nodes0).score = -Inf))

/-- non-vacuity: the hypotheses are jointly satisfiable (`demoComp` with its laws on the family of
    boards without men; the intended instance is `Good := Board.valid`). -/
example (K : Keys) : Laws (demoComp K) NoMen ∧ NoMen Board.empty := ⟨demo_laws K, noMen_empty⟩

/-- the board without men has no playable move: the conclusion `Final` of the partial theorem is
    reachable, and so are its hypotheses for `demoComp` -/
example (K : Keys) : Final K Board.empty := Or.inl (by
  have := gen_noMen noMen_empty
  simp [MoveGen.playable, this])

example (K : Keys) (L : Limits) (clock : Clock) (fuel : Nat) (e : Engine Unit) :
    (go (demoComp K) L clock fuel e Board.empty).st.board = Board.empty :=
  (go_board_restored (demoComp K) L clock (demo_laws K) fuel e Board.empty noMen_empty 0).1

end ChessVerif.Props.C06
