/-
  C06 — the search returns a legal move or the null move, leaves the position object untouched and
  can be used again (property theorems only; lemmas in Proofs/Search*.lean).

  The theorems are about the generic skeleton `Search.go` (Model/Search.lean), for ALL components
  `Comp` that satisfy `Laws` (C01–C05, C16 provide them on valid boards), all contents of the
  persistent state (transposition table, histories) that satisfy the invariant `PsInv.ok` the laws are
  stated under (`go_keeps_ps_invariant`: every `go` preserves it; it is `True` for components whose
  laws hold in every state, and `SearchReal.PSok` for the real components, Props/C06real.lean), all
  limits, and every abort point: the stop signal may become visible at any poll index
  `L.stop = some k`, the hard budget may expire at any node.
-/
import ChessVerif.Proofs.SearchGo
import ChessVerif.Proofs.SearchRoot
import ChessVerif.Proofs.SearchDemo
import ChessVerif.Proofs.SearchScoreDemo
import ChessVerif.Proofs.SearchFinalAbort
import ChessVerif.Proofs.SearchFinalFree
import ChessVerif.Proofs.SearchFinalFree2
import ChessVerif.Proofs.SearchNmpFloor

namespace ChessVerif.Props.C06
open ChessVerif Search

variable {σ π : Type} [PsInv σ]

/-- When `go` returns, the board equals the board it was given, on every path including every abort
    return and running out of fuel; the history stack is empty and the move store has no open frame. -/
theorem go_board_restored (c : Comp σ π) (L : Limits) (clock : Clock) {Good : Board → Prop} (hl : Laws c Good)
    (fuel : Nat) (e : Engine σ) (b : Board) (hg : Good b) (hok : PsInv.ok e.ps) (nodes0 : Int) :
    (go c L clock fuel e b nodes0).st.board = b ∧ (go c L clock fuel e b nodes0).st.hstack = [] ∧
      (go c L clock fuel e b nodes0).st.frames = 0 :=
  let h := go_post c L clock hl fuel e b hg hok nodes0
  ⟨h.board, h.hstack, h.frames⟩

/-- The returned move is the null move or playable in the root position (generated and not leaving
    the own king attacked — the FIDE-legal moves by C01). -/
theorem go_move_legal_or_null (c : Comp σ π) (L : Limits) (clock : Clock) {Good : Board → Prop} (hl : Laws c Good)
    (fuel : Nat) (e : Engine σ) (b : Board) (hg : Good b) (hok : PsInv.ok e.ps) (nodes0 : Int) :
    (go c L clock fuel e b nodes0).move = 0 ∨ (go c L clock fuel e b nodes0).move ∈ MoveGen.playable c.keys b :=
  (go_post c L clock hl fuel e b hg hok nodes0).move_ok

/-- The invariant of the persistent state survives every `go` — completed, stopped at any poll, out
    of budget at any node, out of fuel: the engine left behind is again an admissible prior state. -/
theorem go_keeps_ps_invariant (c : Comp σ π) (L : Limits) (clock : Clock) {Good : Board → Prop} (hl : Laws c Good)
    (fuel : Nat) (e : Engine σ) (b : Board) (hg : Good b) (hok : PsInv.ok e.ps) (nodes0 : Int) :
    PsInv.ok (go c L clock fuel e b nodes0).engine.ps :=
  (go_post c L clock hl fuel e b hg hok nodes0).ps_ok

/-- The null move is returned only if the root is final, for every depth limit ≥ 1 — for runs that
    returned (`fuelOut = false`) and in which no ply-0 node produced a value outside the fail-soft
    reading of its window (`anomaly = false`, see `St.anomaly`).

    Why an in-window result of a root iteration ≥ 1 carries a non-empty PV: at ply 0 the table
    cut-offs are disabled (PV node), the repetition test needs a third occurrence, null-move pruning
    and a fail-high return ≥ beta, an aborted node makes `abort` true so the driver falls back to the
    first playable generated move; what remains is a node where some move raised alpha — which
    inserted it into row 0 — or a node without playable move (the picker, once exhausted, has
    yielded every generated move), plus the two cases the ghost flag `anomaly` records:
    (1) reverse futility returns `staticEval` with `staticEval ≥ beta + d*RFPScoreFactor` computed in
    int16 — if that sum wraps, `staticEval < beta` is possible; (2) a fail-low returns
    `max(-Inf-1, values…)`, which exceeds alpha when `alpha < -Inf-1` and every move scored below
    `-Inf-1`.  Both need scores outside `±Inf` (or wrapping margins); with them the engine WOULD
    return the null move on a non-final root, so without a score-range law the unconditional
    statement `C06_full_null_only_if_final` is not a theorem of the generic skeleton. -/
theorem go_null_only_if_final_partial (c : Comp σ π) (L : Limits) (clock : Clock) {Good : Board → Prop}
    (hl : Laws c Good) (fuel : Nat) (e : Engine σ) (b : Board) (hg : Good b) (hok : PsInv.ok e.ps) (nodes0 : Int)
    (hd : 1 ≤ L.depth)
    (hfuel : (go c L clock fuel e b nodes0).st.fuelOut = false)
    (hanom : (go c L clock fuel e b nodes0).st.anomaly = false)
    (hnull : (go c L clock fuel e b nodes0).move = 0) : Final c.keys b :=
  go_null_final c L clock hl fuel e b hg hok nodes0 hd hfuel hanom hnull

/-- Full statement (no `anomaly` hypothesis).  Missing for it: a law bounding evaluation and table
    scores by `±Inf` and the margins' int16 range, and the induction showing that `anomaly` then
    stays `false`. -/
def C06_full_null_only_if_final (c : Comp σ π) (L : Limits) (clock : Clock) (Good : Board → Prop) : Prop :=
  Laws c Good → ∀ (fuel : Nat) (e : Engine σ) (b : Board) (nodes0 : Int), Good b → PsInv.ok e.ps → 1 ≤ L.depth →
    (go c L clock fuel e b nodes0).st.fuelOut = false →
    (go c L clock fuel e b nodes0).move = 0 → Final c.keys b

omit [PsInv σ] in
/-- The same engine instance can be searched again: `refresh()` resets every per-search field, so
    the next search does not depend on the abort flag the previous one left behind (nor on its move
    store, history stack and counters, which `go` re-initialises), only on tables and PV buffer. -/
theorem go_reusable (c : Comp σ π) (L : Limits) (clock : Clock) (fuel : Nat) (e : Engine σ) (b : Board) (nodes0 : Int)
    (flag : Bool) : go c L clock fuel { e with aborted := flag } b nodes0 = go c L clock fuel e b nodes0 := rfl

/-- Second half of "reusable": the engine left behind by any search (of a `Good` position, from an
    admissible prior state) is again a valid input — `go_keeps_ps_invariant` — so the next search
    restores its board as well. -/
theorem go_again_restores (c : Comp σ π) (L L' : Limits) (clock clock' : Clock) {Good : Board → Prop} (hl : Laws c Good)
    (fuel fuel' : Nat) (e : Engine σ) (b b' : Board) (hg : Good b) (hg' : Good b') (hok : PsInv.ok e.ps) (nodes0 : Int) :
    (go c L' clock' fuel' (go c L clock fuel e b nodes0).engine b').st.board = b' :=
  (go_post c L' clock' hl fuel' _ b' hg' (go_keeps_ps_invariant c L clock hl fuel e b hg hok nodes0) 0).board

/-- Full statement of the last clause of C06 (completed search on a final root returns the null
    move with score 0, or the mated score for checkmate); not proved here. -/
def C06_full_final_score (c : Comp σ π) (L : Limits) (clock : Clock) (Good : Board → Prop) : Prop :=
  Laws c Good → ∀ (fuel : Nat) (e : Engine σ) (b : Board) (nodes0 : Int), Good b → PsInv.ok e.ps → 1 ≤ L.depth →
    L.stop = none → L.nodes = -1 → Final c.keys b →
    (go c L clock fuel e b nodes0).st.fuelOut = false →
    (go c L clock fuel e b nodes0).move = 0 ∧
      ((go c L clock fuel e b nodes0).score = 0 ∨
        (b.inCheck b.stm = true ∧ MoveGen.playable c.keys b = [] ∧ (go c L clock fuel e b nodes0).score = -Inf))

/-- non-vacuity: the hypotheses are jointly satisfiable (`demoComp` with its laws on the family of
    boards without men; the intended instance is `Good := Board.valid`). -/
example (K : Keys) : Laws (demoComp K) NoMen ∧ NoMen Board.empty := ⟨demo_laws K, noMen_empty⟩

/-- the board without men has no playable move: the conclusion `Final` of the partial theorem is
    reachable, and so are its hypotheses for `demoComp` -/
example (K : Keys) : Final K Board.empty := Or.inl (by
  have := gen_noMen noMen_empty
  simp [MoveGen.playable, this])

example (K : Keys) (L : Limits) (clock : Clock) (fuel : Nat) (e : Engine Unit) :
    (go (demoComp K) L clock fuel e Board.empty).st.board = Board.empty :=
  (go_board_restored (demoComp K) L clock (demo_laws K) fuel e Board.empty noMen_empty trivial 0).1

/-! ## Score range, the null move without the ghost flag, final roots

  Added after the repairs D8 (repo 161d312: quiescence checks abort before its fail-high store) and
  D9 (repo 2ab22cc: the search clamps the static evaluation into the mate band), both mirrored in
  Model/Search.lean (`qAfter`, `evaluate`).  The theorems below replace the ghost hypothesis
  `anomaly = false` of `go_null_only_if_final_partial` by laws about the components (`ScoreLaws`:
  table values within ±Inf as an INVARIANT `TTok` of the persistent state; reverse futility / null
  move only with `staticEval ≥ beta`; LMR not before the second quiet move; `0 ≤ WindowSize ≤ 100`;
  a measure bounding the quiescence depth) plus ONE run-level hypothesis `GoSane`: every window the
  aspiration loop re-searches the root with is int16-safe (`RootWin`).  `EvalRange` is no hypothesis:
  `evaluate_range` proves it of the clamp for an arbitrary raw evaluation.

  Why `C06_full_null_only_if_final` (above) stays a `def`: it is NOT a theorem of the skeleton, and
  was not true of the engine —
  (1) without the table invariant: D8 (`go nodes 1` on the successor, then `go depth 1` on a
      single-reply root answered `bestmove 0000`); without the evaluation bound: D9 (nine queens);
  (2) without `GoSane`: `factor` doubles in int16 at every re-search (search.go:62-67); after nine
      consecutive re-searches of one iteration (chains of 10 searches do occur on the real engine:
      stale mate score, then nine fail-highs) a window bound can leave the range in which
      `beta + d*RFPScoreFactor` does not wrap, and reverse futility then returns `staticEval < beta`
      at the root.  In-range scores alone do not exclude the sequence
      `s = 9956, nine fail-lows, fail-high at beta = 10000 → beta = 32528`. -/

omit [PsInv σ] in
/-- `EvalRange`, now a theorem: the evaluation the search uses lies strictly inside the mate band
    `(-Inf+MaxPlies, Inf-MaxPlies)`, whatever the raw `eval.Eval` returns. -/
theorem eval_range (c : Comp σ π) (b : Board) : (-10000 : Int) + 64 < evaluate c b ∧ evaluate c b < (10000 : Int) - 64 :=
  evaluate_range c b

/-- Every value `alphaBeta` returns un-aborted lies in `[-Inf, Inf]` and is ply-consistent (`RelP`: a
    mate score never claims a mate earlier than the node's own ply — what the table's re-basing of
    mate scores needs), and `alphaBeta` keeps the table
    invariant on EVERY path, aborted or not (every store is behind an abort check) — for every fuel,
    depth, node type, ply `0..63`, workable window and state with sound tables, as long as the ghost
    flag `St.nmpOut` is down when it returns (the mate branch of null-move pruning did not hand out a
    `beta` below `-Inf + ply`; for components with `NmpFloor` it never does: `alphaBeta_nf`). -/
theorem alphaBeta_value_in_range (c : Comp σ π) (L : Limits) {Good : Board → Prop} {TTok : σ → Prop} {μ : Board → Nat}
    (hl : Laws c Good) (sl : ScoreLaws c Good TTok μ) (fuel : Nat) (a b : Score) (d ply : Int) (nt : NodeType) (s : St σ)
    (hg : Good s.board) (h0 : 0 ≤ ply) (h1 : ply ≤ 63) (hw : WinOK a b) (htt : TTok s.ps)
    (hA : (alphaBeta c L fuel a b d ply nt s).2.nmpOut = false) :
    TTok (alphaBeta c L fuel a b d ply nt s).2.ps ∧
      ((alphaBeta c L fuel a b d ply nt s).2.aborted = false →
        InR (alphaBeta c L fuel a b d ply nt s).1 ∧ RelP ply (alphaBeta c L fuel a b d ply nt s).1) :=
  let h := alphaBeta_range (t0 := true) c L hl sl fuel a b d ply nt s hg h0 h1 (fun _ => hw)
    ⟨sl.tt_ok _ htt, fun _ => ⟨htt, fun h => by cases h⟩⟩
  ⟨(h.1.2 hA).1, fun hna => ⟨(h.2 hna hA).inR h0, h.2 hna hA⟩⟩

/-- the same for `quiescence` (plies that cannot wrap the int8 counter). -/
theorem quiescence_value_in_range (c : Comp σ π) (L : Limits) {Good : Board → Prop} {TTok : σ → Prop} {μ : Board → Nat}
    (hl : Laws c Good) (sl : ScoreLaws c Good TTok μ) (fuel : Nat) (a b : Score) (ply : Int) (s : St σ)
    (hg : Good s.board) (h0 : 0 ≤ ply) (h1 : ply + (μ s.board : Int) ≤ 111) (hw : WinOK a b) (htt : TTok s.ps)
    (hA : (quiescence c L fuel a b ply s).2.nmpOut = false) :
    TTok (quiescence c L fuel a b ply s).2.ps ∧
      ((quiescence c L fuel a b ply s).2.aborted = false →
        InR (quiescence c L fuel a b ply s).1 ∧ RelP ply (quiescence c L fuel a b ply s).1) :=
  let h := quiescence_range (t0 := true) c L hl sl fuel a b ply s hg h0 h1 (fun _ => hw)
    ⟨sl.tt_ok _ htt, fun _ => ⟨htt, fun h => by cases h⟩⟩
  ⟨(h.1.2 hA).1, fun hna => ⟨(h.2 hna hA).inR h0, h.2 hna hA⟩⟩

omit [PsInv σ] in
/-- For components whose null-move test is guarded against the mate band (`NmpFloor`: the guard reverse
    futility pruning has in search.go) the ghost flag `St.nmpOut` is down after every `go`, so the
    hypothesis `nmpOut = false` of the theorems below is discharged (Proofs/SearchNmpFloor.lean). -/
theorem go_nmpOut_of_floor (c : Comp σ π) (hf : NmpFloor c) (L : Limits) (clock : Clock) (fuel : Nat) (e : Engine σ)
    (b : Board) (nodes0 : Int) : (go c L clock fuel e b nodes0).st.nmpOut = false :=
  go_nmpOut_false c hf L clock fuel e b nodes0

/-- `TTok` is an invariant of engine states: it survives every `go` — completed, stopped at any
    poll, out of budget at any node, out of fuel (this is the content of the D8 repair). -/
theorem go_keeps_table_invariant (c : Comp σ π) (L : Limits) (clock : Clock) {Good : Board → Prop} {TTok : σ → Prop}
    {μ : Board → Nat} (hl : Laws c Good) (sl : ScoreLaws c Good TTok μ) (fuel : Nat) (e : Engine σ) (b : Board)
    (hg : Good b) (nodes0 : Int) (hd : 1 ≤ L.depth) (htt : TTok e.ps) (hsane : GoSane c L clock fuel e b nodes0)
    (hA : (go c L clock fuel e b nodes0).st.nmpOut = false) :
    TTok (go c L clock fuel e b nodes0).engine.ps :=
  (go_score c L clock hl sl fuel e b hg nodes0 hd htt hsane hA).1

/-- The null move is returned only if the root is final — for every depth limit ≥ 1, every limit
    combination, every abort point, and with NO hypothesis on fuel or on the ghost flag. -/
theorem go_null_only_if_final (c : Comp σ π) (L : Limits) (clock : Clock) {Good : Board → Prop} {TTok : σ → Prop}
    {μ : Board → Nat} (hl : Laws c Good) (sl : ScoreLaws c Good TTok μ) (fuel : Nat) (e : Engine σ) (b : Board)
    (hg : Good b) (nodes0 : Int) (hd : 1 ≤ L.depth) (htt : TTok e.ps) (hsane : GoSane c L clock fuel e b nodes0)
    (hA : (go c L clock fuel e b nodes0).st.nmpOut = false)
    (hnull : (go c L clock fuel e b nodes0).move = 0) : Final c.keys b :=
  (go_score c L clock hl sl fuel e b hg nodes0 hd htt hsane hA).2.1 hnull

/-- The same two statements WITHOUT `GoSane`, for parameter sets with a safe window size (`WSafe`: 39..44 or 78..88; the real one is 44) whose reverse
    futility margin cannot wrap at depths ≤ 2 (`AspLaws`; Proofs/SearchScoreFree.lean): un-aborted
    results lie within `±Inf` and `factor` doubles at every failure, so at any failure `factor ≤ 512`
    and every window of every aspiration chain lies within `±(Inf + 512·44)`; the root analysis is
    needed at iteration 1 only, where reverse futility is then sound.  (`GoSane` itself — every
    re-searched window below `rfpSafe` — is NOT derivable: nine fail-lows followed by a fail-high at
    `beta > 9069` leave it, and only the stability of the search excludes that sequence.) -/
theorem go_keeps_table_invariant_free (c : Comp σ π) (L : Limits) (clock : Clock) {Good : Board → Prop} {TTok : σ → Prop}
    {μ : Board → Nat} (hl : Laws c Good) (sl : ScoreLaws c Good TTok μ) (al : AspLaws c) (fuel : Nat) (e : Engine σ)
    (b : Board) (hg : Good b) (nodes0 : Int) (hd : 1 ≤ L.depth) (htt : TTok e.ps)
    (hA : (go c L clock fuel e b nodes0).st.nmpOut = false) :
    TTok (go c L clock fuel e b nodes0).engine.ps :=
  (go_free c L clock hl sl al fuel e b hg nodes0 hd htt hA).1

theorem go_null_only_if_final_free (c : Comp σ π) (L : Limits) (clock : Clock) {Good : Board → Prop} {TTok : σ → Prop}
    {μ : Board → Nat} (hl : Laws c Good) (sl : ScoreLaws c Good TTok μ) (al : AspLaws c) (fuel : Nat) (e : Engine σ)
    (b : Board) (hg : Good b) (nodes0 : Int) (hd : 1 ≤ L.depth) (htt : TTok e.ps)
    (hA : (go c L clock fuel e b nodes0).st.nmpOut = false)
    (hnull : (go c L clock fuel e b nodes0).move = 0) : Final c.keys b :=
  (go_free c L clock hl sl al fuel e b hg nodes0 hd htt hA).2 hnull

/-- … and the final-score clause without `GoSane`: on a final root every root search returns the final
    value or fails high, so from iteration 2 on the aspiration windows are `(fs-44, fs+44·factor)` with
    `factor ≤ 512` (Proofs/SearchFinalFree.lean). -/
theorem go_final_score_free (c : Comp σ π) (L : Limits) (clock : Clock) {Good : Board → Prop} {TTok : σ → Prop}
    {μ : Board → Nat} (hl : Laws c Good) (sl : ScoreLaws c Good TTok μ) (al : AspLaws c) (fuel : Nat) (e : Engine σ)
    (b : Board) (hg : Good b) (nodes0 : Int) (hd : 1 ≤ L.depth) (htt : TTok e.ps)
    (hA : (go c L clock fuel e b nodes0).st.nmpOut = false)
    (hfin : Final c.keys b) (hdone : (go c L clock fuel e b nodes0).st.aborted = false) :
    (go c L clock fuel e b nodes0).move = 0 ∧
      ((go c L clock fuel e b nodes0).score = 0 ∨
        (b.inCheck b.stm = true ∧ MoveGen.playable c.keys b = [] ∧ (go c L clock fuel e b nodes0).score = -Inf)) :=
  go_final_free c L clock hl sl al fuel e b hg nodes0 hd htt hfin hA hdone

/-- A search that runs to completion (the abort flag is never raised) on a final root returns the
    null move with score 0, or with the mated score `-Inf` for a checkmated root. -/
theorem go_final_score (c : Comp σ π) (L : Limits) (clock : Clock) {Good : Board → Prop} {TTok : σ → Prop}
    {μ : Board → Nat} (hl : Laws c Good) (sl : ScoreLaws c Good TTok μ) (fuel : Nat) (e : Engine σ) (b : Board)
    (hg : Good b) (nodes0 : Int) (hd : 1 ≤ L.depth) (htt : TTok e.ps) (hsane : GoSane c L clock fuel e b nodes0)
    (hA : (go c L clock fuel e b nodes0).st.nmpOut = false)
    (hfin : Final c.keys b) (hdone : (go c L clock fuel e b nodes0).st.aborted = false) :
    (go c L clock fuel e b nodes0).move = 0 ∧
      ((go c L clock fuel e b nodes0).score = 0 ∨
        (b.inCheck b.stm = true ∧ MoveGen.playable c.keys b = [] ∧ (go c L clock fuel e b nodes0).score = -Inf)) :=
  (go_score c L clock hl sl fuel e b hg nodes0 hd htt hsane hA).2.2 hfin hdone

/-- The same with "runs to completion" spelled as in `C06_full_final_score`: no stop channel, no hard
    budget, fuel not exhausted (then the abort flag cannot have been raised: `go_aborted_fuel`).
    Compared with the `def`, the hypotheses `ScoreLaws`, `TTok e.ps` and `GoSane` remain: they are
    needed for a STALEMATED root only (reverse futility / null move can return before the move loop;
    a checkmated root is in check, a drawn root returns before anything else). -/
theorem go_final_score_completed (c : Comp σ π) (L : Limits) (clock : Clock) {Good : Board → Prop} {TTok : σ → Prop}
    {μ : Board → Nat} (hl : Laws c Good) (sl : ScoreLaws c Good TTok μ) (fuel : Nat) (e : Engine σ) (b : Board)
    (hg : Good b) (nodes0 : Int) (hd : 1 ≤ L.depth) (htt : TTok e.ps) (hsane : GoSane c L clock fuel e b nodes0)
    (hA : (go c L clock fuel e b nodes0).st.nmpOut = false)
    (hstop : L.stop = none) (hnodes : L.nodes = -1) (hfin : Final c.keys b)
    (hfuel : (go c L clock fuel e b nodes0).st.fuelOut = false) :
    (go c L clock fuel e b nodes0).move = 0 ∧
      ((go c L clock fuel e b nodes0).score = 0 ∨
        (b.inCheck b.stm = true ∧ MoveGen.playable c.keys b = [] ∧ (go c L clock fuel e b nodes0).score = -Inf)) := by
  refine go_final_score c L clock hl sl fuel e b hg nodes0 hd htt hsane hA hfin ?_
  cases hab : (go c L clock fuel e b nodes0).st.aborted
  · rfl
  · rw [go_aborted_fuel c L clock fuel e b nodes0 hstop hnodes hab] at hfuel; cases hfuel

/-- non-vacuity: the score laws hold for `demoComp` on the boards without men (no table: `TTok` is
    `True`), `GoSane` holds for a run, and the board without men is a final root -/
example (K : Keys) (L : Limits) (clock : Clock) (e : Engine Unit) :
    ScoreLaws (demoComp K) NoMen (fun _ => True) (fun _ => 0) ∧ GoSane (demoComp K) L clock 0 e Board.empty :=
  ⟨demo_scoreLaws K, demo_goSane K L clock e Board.empty⟩

example (K : Keys) (L : Limits) (clock : Clock) (e : Engine Unit) (hd : 1 ≤ L.depth)
    (h : (go (demoComp K) L clock 0 e Board.empty).move = 0) : Final K Board.empty :=
  go_null_only_if_final (demoComp K) L clock (demo_laws K) (demo_scoreLaws K) 0 e Board.empty noMen_empty 0 hd trivial
    (demo_goSane K L clock e Board.empty) (go_nmpOut_of_floor _ (demo_nmpFloor K) _ _ _ _ _ _) h

/-- non-vacuity of the `GoSane`-free form: `demoComp` meets `AspLaws` too -/
example (K : Keys) (L : Limits) (clock : Clock) (fuel : Nat) (e : Engine Unit) (hd : 1 ≤ L.depth)
    (h : (go (demoComp K) L clock fuel e Board.empty).move = 0) : Final K Board.empty :=
  go_null_only_if_final_free (demoComp K) L clock (demo_laws K) (demo_scoreLaws K) (demo_aspLaws K) fuel e Board.empty
    noMen_empty 0 hd trivial (go_nmpOut_of_floor _ (demo_nmpFloor K) _ _ _ _ _ _) h

/-! ## The same theorems under the EXACT run-level hypothesis: no out-of-band table store

  The ghost flag `St.ttOut` is raised at the five table-store sites of the skeleton (`qAfter`, `qBody`,
  `abAfter`, the two stores of `abMoves`) when the value handed to `tt.Insert` at `ply` is not
  ply-consistent: `|v| > max (Inf-MaxPlies) (Inf-ply)` (`ttBad`, the negation of `RelP ply v`).  The
  table law `ScoreLaws.tt_store` speaks about ply-consistent values only (the real table re-bases mate
  scores by the ply), so `ttOut = false` at the end of a run — the flag is monotone: NO such store
  happened in it — is the weakest hypothesis under which that law keeps the table predicate.  It
  replaces `nmpOut = false` (the null-move mate branch was never taken with `beta < -Inf+ply`), which is
  only a NECESSARY condition for an out-of-band store: `nmpOut` is raised on runs in which nothing
  is ever stored out of band (measured, suite `searchx`, script `nmpout-corpus`), and on those the
  theorems above say nothing.  Proofs/SearchScoreQ2 … SearchFinalFree2: the range development with
  values tracked as `InR` and ply-consistency read off the flag at each store site. -/

/-- Every value `alphaBeta` returns un-aborted lies in `[-Inf, Inf]`, and the table invariant is kept on
    every path — as long as no out-of-band value was handed to a table store (`ttOut = false` on return). -/
theorem alphaBeta_value_in_range_tt (c : Comp σ π) (L : Limits) {Good : Board → Prop} {TTok : σ → Prop} {μ : Board → Nat}
    (hl : Laws c Good) (sl : ScoreLaws c Good TTok μ) (fuel : Nat) (a b : Score) (d ply : Int) (nt : NodeType) (s : St σ)
    (hg : Good s.board) (h0 : 0 ≤ ply) (h1 : ply ≤ 63) (hw : WinOK a b) (htt : TTok s.ps)
    (hA : (alphaBeta c L fuel a b d ply nt s).2.ttOut = false) :
    TTok (alphaBeta c L fuel a b d ply nt s).2.ps ∧
      ((alphaBeta c L fuel a b d ply nt s).2.aborted = false → InR (alphaBeta c L fuel a b d ply nt s).1) :=
  let h := alphaBeta_range2 c L hl sl fuel a b d ply nt s hg h0 h1 (fun _ => hw) ⟨sl.tt_ok _ htt, fun _ => htt⟩
  ⟨h.1.2 hA, fun hna => h.2 hna hA⟩

/-- the same for `quiescence`. -/
theorem quiescence_value_in_range_tt (c : Comp σ π) (L : Limits) {Good : Board → Prop} {TTok : σ → Prop} {μ : Board → Nat}
    (hl : Laws c Good) (sl : ScoreLaws c Good TTok μ) (fuel : Nat) (a b : Score) (ply : Int) (s : St σ)
    (hg : Good s.board) (h0 : 0 ≤ ply) (h1 : ply + (μ s.board : Int) ≤ 111) (hw : WinOK a b) (htt : TTok s.ps)
    (hA : (quiescence c L fuel a b ply s).2.ttOut = false) :
    TTok (quiescence c L fuel a b ply s).2.ps ∧
      ((quiescence c L fuel a b ply s).2.aborted = false → InR (quiescence c L fuel a b ply s).1) :=
  let h := quiescence_range2 c L hl sl fuel a b ply s hg h0 h1 (fun _ => hw) ⟨sl.tt_ok _ htt, fun _ => htt⟩
  ⟨h.1.2 hA, fun hna => h.2 hna hA⟩

/-- `TTok` survives every `go` in which no out-of-band value is stored (with `GoSane`). -/
theorem go_keeps_table_invariant_tt (c : Comp σ π) (L : Limits) (clock : Clock) {Good : Board → Prop} {TTok : σ → Prop}
    {μ : Board → Nat} (hl : Laws c Good) (sl : ScoreLaws c Good TTok μ) (fuel : Nat) (e : Engine σ) (b : Board)
    (hg : Good b) (nodes0 : Int) (hd : 1 ≤ L.depth) (htt : TTok e.ps) (hsane : GoSane c L clock fuel e b nodes0)
    (hA : (go c L clock fuel e b nodes0).st.ttOut = false) :
    TTok (go c L clock fuel e b nodes0).engine.ps :=
  (go_score2 c L clock hl sl fuel e b hg nodes0 hd htt hsane hA).1

theorem go_null_only_if_final_tt (c : Comp σ π) (L : Limits) (clock : Clock) {Good : Board → Prop} {TTok : σ → Prop}
    {μ : Board → Nat} (hl : Laws c Good) (sl : ScoreLaws c Good TTok μ) (fuel : Nat) (e : Engine σ) (b : Board)
    (hg : Good b) (nodes0 : Int) (hd : 1 ≤ L.depth) (htt : TTok e.ps) (hsane : GoSane c L clock fuel e b nodes0)
    (hA : (go c L clock fuel e b nodes0).st.ttOut = false)
    (hnull : (go c L clock fuel e b nodes0).move = 0) : Final c.keys b :=
  (go_score2 c L clock hl sl fuel e b hg nodes0 hd htt hsane hA).2.1 hnull

theorem go_final_score_tt (c : Comp σ π) (L : Limits) (clock : Clock) {Good : Board → Prop} {TTok : σ → Prop}
    {μ : Board → Nat} (hl : Laws c Good) (sl : ScoreLaws c Good TTok μ) (fuel : Nat) (e : Engine σ) (b : Board)
    (hg : Good b) (nodes0 : Int) (hd : 1 ≤ L.depth) (htt : TTok e.ps) (hsane : GoSane c L clock fuel e b nodes0)
    (hA : (go c L clock fuel e b nodes0).st.ttOut = false)
    (hfin : Final c.keys b) (hdone : (go c L clock fuel e b nodes0).st.aborted = false) :
    (go c L clock fuel e b nodes0).move = 0 ∧
      ((go c L clock fuel e b nodes0).score = 0 ∨
        (b.inCheck b.stm = true ∧ MoveGen.playable c.keys b = [] ∧ (go c L clock fuel e b nodes0).score = -Inf)) :=
  (go_score2 c L clock hl sl fuel e b hg nodes0 hd htt hsane hA).2.2 hfin hdone

/-- … and WITHOUT `GoSane` (`AspLaws`: `WSafe windowSize`): the only run-level hypothesis left is that no
    out-of-band value was handed to a table store. -/
theorem go_keeps_table_invariant_free_tt (c : Comp σ π) (L : Limits) (clock : Clock) {Good : Board → Prop}
    {TTok : σ → Prop} {μ : Board → Nat} (hl : Laws c Good) (sl : ScoreLaws c Good TTok μ) (al : AspLaws c) (fuel : Nat)
    (e : Engine σ) (b : Board) (hg : Good b) (nodes0 : Int) (hd : 1 ≤ L.depth) (htt : TTok e.ps)
    (hA : (go c L clock fuel e b nodes0).st.ttOut = false) :
    TTok (go c L clock fuel e b nodes0).engine.ps :=
  (go_free2 c L clock hl sl al fuel e b hg nodes0 hd htt hA).1

theorem go_null_only_if_final_free_tt (c : Comp σ π) (L : Limits) (clock : Clock) {Good : Board → Prop}
    {TTok : σ → Prop} {μ : Board → Nat} (hl : Laws c Good) (sl : ScoreLaws c Good TTok μ) (al : AspLaws c) (fuel : Nat)
    (e : Engine σ) (b : Board) (hg : Good b) (nodes0 : Int) (hd : 1 ≤ L.depth) (htt : TTok e.ps)
    (hA : (go c L clock fuel e b nodes0).st.ttOut = false)
    (hnull : (go c L clock fuel e b nodes0).move = 0) : Final c.keys b :=
  (go_free2 c L clock hl sl al fuel e b hg nodes0 hd htt hA).2 hnull

theorem go_final_score_free_tt (c : Comp σ π) (L : Limits) (clock : Clock) {Good : Board → Prop} {TTok : σ → Prop}
    {μ : Board → Nat} (hl : Laws c Good) (sl : ScoreLaws c Good TTok μ) (al : AspLaws c) (fuel : Nat) (e : Engine σ)
    (b : Board) (hg : Good b) (nodes0 : Int) (hd : 1 ≤ L.depth) (htt : TTok e.ps)
    (hA : (go c L clock fuel e b nodes0).st.ttOut = false)
    (hfin : Final c.keys b) (hdone : (go c L clock fuel e b nodes0).st.aborted = false) :
    (go c L clock fuel e b nodes0).move = 0 ∧
      ((go c L clock fuel e b nodes0).score = 0 ∨
        (b.inCheck b.stm = true ∧ MoveGen.playable c.keys b = [] ∧ (go c L clock fuel e b nodes0).score = -Inf)) :=
  go_final_free2 c L clock hl sl al fuel e b hg nodes0 hd htt hfin hA hdone

/-- **The new hypothesis is implied by the old one**: in a run from a state with sound tables in which
    `nmpOut` stays down, every value handed to a table store is ply-consistent, so `ttOut` stays down
    too (`AspLaws` as in the `_free` theorems).  Hence each `…_free` theorem above is a corollary of its
    `…_free_tt` counterpart; the converse fails (measured: `nmpOut` raised, `ttOut` not). -/
theorem go_ttOut_of_nmpOut_free (c : Comp σ π) (L : Limits) (clock : Clock) {Good : Board → Prop} {TTok : σ → Prop}
    {μ : Board → Nat} (hl : Laws c Good) (sl : ScoreLaws c Good TTok μ) (al : AspLaws c) (fuel : Nat) (e : Engine σ)
    (b : Board) (hg : Good b) (nodes0 : Int) (hd : 1 ≤ L.depth) (htt : TTok e.ps)
    (hA : (go c L clock fuel e b nodes0).st.nmpOut = false) :
    (go c L clock fuel e b nodes0).st.ttOut = false :=
  go_free_ttOut c L clock hl sl al fuel e b hg nodes0 hd htt hA

/-- for components with the null-move guard (`NmpFloor`) no out-of-band value is ever stored. -/
theorem go_ttOut_of_floor (c : Comp σ π) (hf : NmpFloor c) (L : Limits) (clock : Clock) {Good : Board → Prop}
    {TTok : σ → Prop} {μ : Board → Nat} (hl : Laws c Good) (sl : ScoreLaws c Good TTok μ) (al : AspLaws c) (fuel : Nat)
    (e : Engine σ) (b : Board) (hg : Good b) (nodes0 : Int) (hd : 1 ≤ L.depth) (htt : TTok e.ps) :
    (go c L clock fuel e b nodes0).st.ttOut = false :=
  go_free_ttOut c L clock hl sl al fuel e b hg nodes0 hd htt (go_nmpOut_false c hf L clock fuel e b nodes0)

/-- non-vacuity with fuel: for `demoComp` (guarded null move) the flag is down after EVERY run -/
example (K : Keys) (L : Limits) (clock : Clock) (fuel : Nat) (e : Engine Unit) (hd : 1 ≤ L.depth)
    (h : (go (demoComp K) L clock fuel e Board.empty).move = 0) : Final K Board.empty :=
  go_null_only_if_final_free_tt (demoComp K) L clock (demo_laws K) (demo_scoreLaws K) (demo_aspLaws K) fuel e Board.empty
    noMen_empty 0 hd trivial
    (go_ttOut_of_floor _ (demo_nmpFloor K) L clock (demo_laws K) (demo_scoreLaws K) (demo_aspLaws K) fuel e Board.empty
      noMen_empty 0 hd trivial) h

/-- non-vacuity of the `ttOut` forms: the flag is down for a run of `demoComp` (no fuel: no store), and the
    theorems apply to it -/
example (K : Keys) (L : Limits) (clock : Clock) (e : Engine Unit) (hd : 1 ≤ L.depth)
    (h : (go (demoComp K) L clock 0 e Board.empty).move = 0) : Final K Board.empty :=
  go_null_only_if_final_free_tt (demoComp K) L clock (demo_laws K) (demo_scoreLaws K) (demo_aspLaws K) 0 e Board.empty
    noMen_empty 0 hd trivial (go_ttOut_nofuel _ _ _ _ _ _) h

/-- `ttBad` is a genuine event: `Inf` stored at ply 5 is out of band, `Inf - 5` is not, and outside the mate
    band nothing is -/
example : ttBad 5 10000 = true ∧ ttBad 5 9995 = false ∧ ttBad 70 9936 = false ∧ ttBad 70 (-9937) = true := by decide

/-- the windows of the first searches are root windows: `(-Inf-1, Inf+1)` and `(s-W, s+W)` -/
example : RootWin (-Inf - 1) (Inf + 1) ∧ RootWin (wrapS16 (-9990 - 44)) (wrapS16 (-9990 + 44)) := by decide


end ChessVerif.Props.C06
