/-
  C04 — the incrementally maintained hash equals the hash computed from scratch, the redundant board
  representations never drift, and the hash is a function of the position (property theorems +
  non-vacuity examples only; proofs in Proofs/HashFold, Proofs/HashInv, Proofs/MakeUndo*).

  `Inv K b := WF b ∧ b.hashes.head? = some (calcHash K b)` — the representations agree and the current
  hash (head of the history) is `calculateHash` of the current position.  Arbitrary key tables `K`.
-/
import ChessVerif.Proofs.HashInv
import ChessVerif.Proofs.MakeUndoPseudo
import ChessVerif.Props.C03

namespace ChessVerif.Props.C04
open ChessVerif Board

/-- what the invariant says: the three placements agree and `Hash()` is the hash from scratch. -/
theorem inv_iff (K : Keys) (b : Board) :
    Inv K b ↔ (b.wf = true ∧ b.hashes.head? = some (calcHash K b)) := by
  unfold Board.Inv; rw [wf_iff]

theorem inv_hash {K : Keys} {b : Board} (h : Inv K b) : b.hash = calcHash K b := h.hash_eq

/-- `ResetHash` (after FEN parsing) establishes the invariant on any consistent board. -/
theorem inv_resetHash (K : Keys) {b : Board} (h : WF b) : Inv K (resetHash K b) := Board.inv_resetHash K h

/-- A move preserves the invariant (local hypotheses). -/
theorem inv_make (K : Keys) {b : Board} {m : Move} (h : Inv K b) (ok : MakeOK b m) : Inv K (makeMove K b m).1 :=
  Board.inv_make K h ok

/-- … in the property's words: any pseudo-legal move of a valid position. -/
theorem inv_make_valid (K : Keys) {b : Board} {m : Move} (h : Inv K b) (hv : b.valid = true)
    (hpl : isPseudoLegal b m = true) : Inv K (makeMove K b m).1 :=
  Board.inv_make K h (Board.isPseudoLegal_makeOK hv hpl)

/-- A null move preserves the invariant. -/
theorem inv_null (K : Keys) {b : Board} (h : Inv K b) : Inv K (makeNull K b).1 := Board.inv_null K h

/-- After any sequence of moves and null moves the invariant holds. -/
theorem inv_reachable (K : Keys) {b b' : Board} (ops : List Op) {toks : List Reverse} (h : Inv K b)
    (hrun : runMakes K b ops = some (b', toks)) : Inv K b' := Board.inv_reachable K ops h hrun

/-- `calculateHash` depends only on the placement, the side to move, the castling rights and the
    en-passant file state. -/
theorem calcHash_congr (K : Keys) {b₁ b₂ : Board} (h : SamePosition b₁ b₂) : calcHash K b₁ = calcHash K b₂ :=
  Board.calcHash_congr K h

/-- Two boards that satisfy the invariant and show the same position carry the same hash. -/
theorem transposition_hash (K : Keys) {b₁ b₂ : Board} (h₁ : Inv K b₁) (h₂ : Inv K b₂) (h : SamePosition b₁ b₂) :
    b₁.hash = b₂.hash := Board.transposition_hash K h₁ h₂ h

/-- Consequently two different move orders that reach the same position yield the same hash. -/
theorem transposition_lines (K : Keys) {b b₁ b₂ : Board} (ops₁ ops₂ : List Op) {t₁ t₂ : List Reverse} (h : Inv K b)
    (r₁ : runMakes K b ops₁ = some (b₁, t₁)) (r₂ : runMakes K b ops₂ = some (b₂, t₂)) (same : SamePosition b₁ b₂) :
    b₁.hash = b₂.hash :=
  Board.transposition_hash K (Board.inv_reachable K ops₁ h r₁) (Board.inv_reachable K ops₂ h r₂) same

/-! ### non-vacuity -/

open C03 (startBoard richBoard start_wf rich_wf)

/-- `MakeOK` does not look at the hash history. -/
theorem makeOK_resetHash (K : Keys) {b : Board} {m : Move} (ok : MakeOK b m) : MakeOK (resetHash K b) m :=
  ⟨ok.own_src, ok.not_own_dst, ok.cap_enemy, ok.ep_dst_empty, ok.castle, ok.promo, ok.ep_lt, ok.fifty_lo, ok.fifty_hi⟩

-- the hypotheses of `inv_make` for arbitrary keys: castling, en passant, capturing promotion
example (K : Keys) : Inv K (resetHash K richBoard) ∧ MakeOK (resetHash K richBoard) (Move.mk 4 6 0) :=
  ⟨inv_resetHash K rich_wf, makeOK_resetHash K (by decide +kernel)⟩
example (K : Keys) : Inv K (resetHash K richBoard) ∧ MakeOK (resetHash K richBoard) (Move.mk 36 43 0) :=
  ⟨inv_resetHash K rich_wf, makeOK_resetHash K (by decide +kernel)⟩
example (K : Keys) : Inv K (resetHash K richBoard) ∧ MakeOK (resetHash K richBoard) (Move.mk 49 56 5) :=
  ⟨inv_resetHash K rich_wf, makeOK_resetHash K (by decide +kernel)⟩
example (K : Keys) : Inv K (resetHash K startBoard) := inv_resetHash K start_wf

/-- a concrete, non-degenerate key table. -/
def demoKeys : Keys :=
  { piece := fun c p s => BitVec.ofNat 64 ((c * 7 + p) * 64 + s + 1) * 0x9E3779B97F4A7C15#64,
    stm := 0xF00DF00DF00DF00D#64,
    castling := fun i => BitVec.ofNat 64 (i + 1) * 0xC2B2AE3D27D4EB4F#64,
    epFile := fun i => BitVec.ofNat 64 (i + 1) * 0x165667B19E3779F9#64 }

/-- 1.Nf3 Nf6 2.Nc3 Nc6 and 1.Nc3 Nc6 2.Nf3 Nf6 from the initial position. -/
def lineA : Option (Board × List Reverse) :=
  runMakes demoKeys (resetHash demoKeys startBoard)
    [.mk (Move.mk 6 21 0), .mk (Move.mk 62 45 0), .mk (Move.mk 1 18 0), .mk (Move.mk 57 42 0)]
def lineB : Option (Board × List Reverse) :=
  runMakes demoKeys (resetHash demoKeys startBoard)
    [.mk (Move.mk 1 18 0), .mk (Move.mk 57 42 0), .mk (Move.mk 6 21 0), .mk (Move.mk 62 45 0)]

-- both lines run, reach the same position by different intermediate positions, and (as
-- `transposition_lines` predicts) end with the same non-zero hash
example : (lineA.bind fun a => lineB.map fun b =>
    decide (a.1.sq = b.1.sq ∧ a.1.colors = b.1.colors ∧ a.1.stm = b.1.stm ∧ a.1.castles = b.1.castles ∧ a.1.ep = b.1.ep ∧
      a.1.hash = b.1.hash ∧ a.1.hash ≠ 0 ∧ a.1.hashes ≠ b.1.hashes)) = some true := by decide +kernel

theorem samePosition_of_fields {a b : Board} (h1 : a.sq = b.sq) (h2 : a.colors = b.colors) (h3 : a.stm = b.stm)
    (h4 : a.castles = b.castles) (h5 : a.ep = b.ep) : SamePosition a b :=
  ⟨fun s _ => by simp [pieceAt, h1], fun c => by simp [colorBB, h2], h3, h4, by rw [h5], by rw [h5]⟩

end ChessVerif.Props.C04
