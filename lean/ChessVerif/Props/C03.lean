/-
  C03 — undoing a move restores the position exactly (property theorems only).
-/
import ChessVerif.Proofs.Token

namespace ChessVerif.Props.C03
open ChessVerif Board

/-- A null move followed by its undo restores every attribute of the position (placements, rights,
    en-passant target, both counters, the whole hash history), for arbitrary Zobrist keys. -/
theorem undoNull_makeNull (K : Keys) (b : Board) (hep : b.ep < 64) :
    undoNull (makeNull K b).1 (makeNull K b).2 = b := by
  unfold makeNull undoNull
  by_cases h : b.ep = 0
  · simp [h, Reverse.enPassantChange]
    cases b; simp_all [epChangeMask, epChangeShift]
  · have := ep_roundtrip_zero ⟨b.ep, hep⟩
    simp [h]
    cases b; simp_all

end ChessVerif.Props.C03
