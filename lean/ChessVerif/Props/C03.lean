/-
  C03 — undoing a move restores the position exactly (property theorems + non-vacuity examples only;
  the proofs live in Proofs/Token, Proofs/BoardBasics, Proofs/MakeUndo*).

  Vocabulary:  `WF b`      the three redundant placements of `b` agree (⇔ `Board.wf b = true`, `wf_iff`);
               `MakeOK b m` the local facts MakeMove/UndoMove rely on (Proofs/MakeUndoSteps);
               `Board.valid b`, `isPseudoLegal b m`  the quantifier text of the property — they imply
               `WF b` and `MakeOK b m` (`isPseudoLegal_makeOK`).
  All statements hold for arbitrary Zobrist key tables `K` and compare the WHOLE board structure
  (placements, rights, en-passant square, both counters, the entire hash history).
-/
import ChessVerif.Proofs.MakeUndoNested
import ChessVerif.Proofs.MakeUndoPseudo

namespace ChessVerif.Props.C03
open ChessVerif Board

/-- The four fields of the packed token do not overlap. -/
theorem token_masks_disjoint :
    fiftyCntMask &&& castlingChangeMask = 0 ∧ fiftyCntMask &&& epChangeMask = 0 ∧
    fiftyCntMask &&& captureMask = 0 ∧ castlingChangeMask &&& epChangeMask = 0 ∧
    castlingChangeMask &&& captureMask = 0 ∧ epChangeMask &&& captureMask = 0 := Board.token_masks_disjoint

/-- The token as `MakeMove` builds it (clock, castling delta, captured piece, en-passant delta, in this
    order, starting from any word): each getter returns what was stored — for all int8 clocks including
    negative ones, all 4-bit castling deltas, all pieces, all 6-bit en-passant deltas. -/
theorem token_fields_roundtrip (r0 : Reverse) (fc : Int) (cc : Castles) (p : Piece) (e : Nat)
    (h1 : -128 ≤ fc) (h2 : fc ≤ 127) (he : e < 64) :
    let r := (((r0.setFiftyCnt fc).setCastlingChange cc).setCapture p).setEnPassantChange e
    r.fiftyCnt = fc ∧ r.castlingChange = cc ∧ r.capture = p ∧ r.enPassantChange = e :=
  Board.token_fields_roundtrip r0 fc cc p e h1 h2 he

/-- Every pseudo-legal move of a valid position meets the local preconditions `MakeOK`. -/
theorem isPseudoLegal_makeOK {b : Board} {m : Move} (hv : b.valid = true) (hpl : isPseudoLegal b m = true) :
    MakeOK b m := Board.isPseudoLegal_makeOK hv hpl

/-- A move made and then undone gives back the identical board (local hypotheses). -/
theorem undo_make (K : Keys) {b : Board} {m : Move} (h : WF b) (ok : MakeOK b m) :
    undoMove (makeMove K b m).1 m (makeMove K b m).2 = b := Board.undo_make K h ok

/-- … in the property's own words: any pseudo-legal move (legal or not) of any valid position. -/
theorem undo_make_valid (K : Keys) {b : Board} {m : Move} (hv : b.valid = true) (hpl : isPseudoLegal b m = true) :
    undoMove (makeMove K b m).1 m (makeMove K b m).2 = b := by
  have hw : WF b := (wf_iff b).2 (by unfold valid at hv; simp only [Bool.and_eq_true] at hv; exact hv.1)
  exact Board.undo_make K hw (Board.isPseudoLegal_makeOK hv hpl)

/-- A null move followed by its undo restores every attribute of the position. -/
theorem undoNull_makeNull (K : Keys) (b : Board) (hep : b.ep < 64) :
    undoNull (makeNull K b).1 (makeNull K b).2 = b := Board.undoNull_makeNull' K b hep

/-- Making a move keeps the representations consistent (so the next make/undo pair is covered too). -/
theorem wf_make (K : Keys) {b : Board} {m : Move} (h : WF b) (ok : MakeOK b m) : WF (makeMove K b m).1 :=
  Board.wf_make K h ok

theorem wf_null (K : Keys) {b : Board} (h : WF b) : WF (makeNull K b).1 := Board.wf_null K h

/-- Arbitrary nesting depth: any line of moves and null moves (each move meeting `MakeOK` when it is
    made) followed by the reverse sequence of undos returns to the identical board. -/
theorem undo_nested (K : Keys) {b b' : Board} (ops : List Op) {toks : List Reverse} (h : WF b) (hep : b.ep < 64)
    (hrun : runMakes K b ops = some (b', toks)) : runUndos b' ops.reverse toks = b :=
  Board.undo_nested K ops h hep hrun

/-! ### non-vacuity -/

/-- build a board from a list of men (no hash history). -/
def mkBoard (men : List (Nat × Color × Piece)) (stm : Color) (ep : Nat) (castles : Castles) : Board :=
  let b := men.foldl (fun b x => (addPiece zeroKeys b x.2.1 x.2.2 x.1).1) Board.empty
  { b with stm := stm, ep := ep, castles := castles, fullMoves := 1 }

open Color Piece in
/-- the initial position. -/
def startBoard : Board :=
  mkBoard ([(0, white, rook), (1, white, knight), (2, white, bishop), (3, white, queen), (4, white, king),
            (5, white, bishop), (6, white, knight), (7, white, rook)] ++
           (List.range 8).map (fun i => (8 + i, white, pawn)) ++ (List.range 8).map (fun i => (48 + i, black, pawn)) ++
           [(56, black, rook), (57, black, knight), (58, black, bishop), (59, black, queen), (60, black, king),
            (61, black, bishop), (62, black, knight), (63, black, rook)]) white 0 15

open Color Piece in
/-- `r3k2r/1P6/8/3pP3/8/8/8/R3K2R w KQkq d6`: castling both ways, en passant e5xd6, promotions
    b7-b8 and b7xa8. -/
def richBoard : Board :=
  mkBoard [(4, white, king), (0, white, rook), (7, white, rook), (49, white, pawn), (36, white, pawn),
           (60, black, king), (56, black, rook), (63, black, rook), (35, black, pawn)] white 43 15

theorem start_wf : WF startBoard := (wf_iff _).2 (by decide +kernel)
theorem rich_wf : WF richBoard := (wf_iff _).2 (by decide +kernel)
theorem start_valid : startBoard.valid = true := by decide +kernel
theorem rich_valid : richBoard.valid = true := by decide +kernel

-- e2e4 in the initial position; castling short and long, en passant, promotion, capturing promotion
example : MakeOK startBoard (Move.mk 12 28 0) := by decide +kernel
example : MakeOK richBoard (Move.mk 4 6 0) := by decide +kernel
example : MakeOK richBoard (Move.mk 4 2 0) := by decide +kernel
example : MakeOK richBoard (Move.mk 36 43 0) := by decide +kernel
example : MakeOK richBoard (Move.mk 49 57 5) := by decide +kernel
example : MakeOK richBoard (Move.mk 49 56 5) := by decide +kernel
-- the hypotheses of `undo_make_valid` / `isPseudoLegal_makeOK`
example : richBoard.valid = true ∧ isPseudoLegal richBoard (Move.mk 36 43 0) = true := by decide +kernel
example : startBoard.valid = true ∧ isPseudoLegal startBoard (Move.mk 12 28 0) = true := by decide +kernel
example : richBoard.ep < 64 := by decide
-- lines of depth 5 and 3 (castling by both sides, a null move; en passant, king move, capturing promotion)
example : (runMakes zeroKeys richBoard [.mk (Move.mk 4 6 0), .mk (Move.mk 60 58 0), .null, .mk (Move.mk 35 27 0),
    .mk (Move.mk 36 44 0)]).isSome = true := by decide +kernel
example : (runMakes zeroKeys richBoard [.mk (Move.mk 36 43 0), .mk (Move.mk 60 52 0), .mk (Move.mk 49 56 5)]).isSome = true := by
  decide +kernel
-- a negative clock survives the token
example : (Reverse.setFiftyCnt 0 (-128)).fiftyCnt = -128 := by decide +kernel

end ChessVerif.Props.C03
