/-
  C06 (front end): the limits with which the UCI layer starts a search.

  Every C06 theorem about the search carries `1 ≤ L.depth`.  This file proves that
  `(*Driver).handleGo` (/repo/uci/uci.go:467-519, model `Model/UciGo.lean`) produces only such limits,
  for EVERY argument list (arbitrary strings, any order and multiplicity of keywords, missing values,
  garbage / negative / overflowing numbers), either colour to move and either value of the driver's
  Ponder and debug flags — and describes everything else it hands to `search.Go`.

  Modelled by hand (tied to the real driver by harness suite `uci/goargs`): the argument loop,
  `parseInt`, `parseInt64` (= `strconv` with every error mapped to 0).  Taken from the regenerated
  `Gen/Funcs.lean`: `MaxPlies`, `Clamp` (`clampS64`), `timedMode`, `softLimit`.

  What a node budget means downstream (search/search.go, `incrementNodes`):
      if opts.Nodes == -1 || opts.Counters.Nodes < opts.Nodes { Nodes++ } else if opts.PonderHit == nil { aborted = true }
  `go nodes -1` is the "no budget" sentinel (identical to no `nodes` at all); `go nodes 0`, any other
  negative value, and every unparsable / overflowing value (parsed as 0) abort a non-pondering search
  at its first node (the abort fallback then returns the first legal move).
-/
import ChessVerif.Proofs.UciGo
import ChessVerif.Proofs.UciGoLimits

namespace ChessVerif.Props.C06uci
open ChessVerif ChessVerif.UciGo ChessVerif.Gen.Funcs

variable (stm : Int) (drvPonder drvDebug : Bool) (args : List String)

/-- `handleGo` never indexes outside `args`: the guard `len(args) <= i+1` protects every
    `args[i+1]` of the `switch` (the seven `case`s that read a value are exactly the seven strings of
    the `slices.Contains` list). -/
theorem uciGo_total : handleGo stm drvPonder drvDebug args ≠ .panic := by
  rcases handleGo_cases stm drvPonder drvDebug args with ⟨_, h⟩ | ⟨st, _, h⟩ <;> rw [h] <;> simp

/-- "argument missing" (no search is started) iff the LAST token is one of the seven value keywords. -/
theorem uciGo_missing_iff :
    handleGo stm drvPonder drvDebug args = .missing ↔ args.getLast?.any needsValue.contains = true := by
  rw [← goList_none_iff drvPonder args {}]
  rcases handleGo_cases stm drvPonder drvDebug args with ⟨hn, h⟩ | ⟨st, hs, h⟩ <;> rw [h] <;> simp [*]

/-- The depth option, when present, is `min MaxPlies (max n 1)` for the parsed number `n` of the token
    after the last `depth`: within [1, MaxPlies], the conversion to the 8-bit `Depth` does not wrap
    (defect D4: `go depth 200` used to give −56). -/
theorem uciGo_depth_in_range {c : GoCall} (h : handleGo stm drvPonder drvDebug args = .call c) :
    c.depth = (lastAfter "depth" args).map (fun v => min 64 (max (parseInt v) 1)) ∧
    ∀ d, c.depth = some d → 1 ≤ d ∧ d ≤ MaxPlies := by
  rcases handleGo_cases stm drvPonder drvDebug args with ⟨_, h'⟩ | ⟨st, hs, h'⟩
  · rw [h'] at h; cases h
  · rw [h'] at h; cases h
    have sp := goList_spec drvPonder args st hs
    refine ⟨?_, ?_⟩
    · simp only [sp.depth]
      cases lastAfter "depth" args <;> simp [depthOf_eq]
    · intro d hd
      simp only [sp.depth] at hd
      cases hl : lastAfter "depth" args with
      | none => simp [hl] at hd
      | some v =>
        simp only [hl, Option.map_some, Option.some.injEq] at hd
        subst hd; exact depthOf_range v

/-- Hence the limits of every UCI-started search satisfy the hypothesis `1 ≤ L.depth` of the C06
    theorems (with `Search.Go`'s default `Depth: MaxPlies` when no depth was given), whenever the
    stop signal and the ponder-hit arrive. -/
theorem uciGo_limits_depth {c : GoCall} (h : handleGo stm drvPonder drvDebug args = .call c)
    (stopAt ponderAt : Nat) :
    1 ≤ (limitsOf c stopAt ponderAt).depth ∧ (limitsOf c stopAt ponderAt).depth ≤ Search.maxPlies := by
  have hr := (uciGo_depth_in_range stm drvPonder drvDebug args h).2
  unfold limitsOf Search.maxPlies
  cases hd : c.depth with
  | none => simp [MaxPlies]
  | some d =>
    have := hr d hd
    simp only [MaxPlies] at this
    simpa using this

/-- The node budget is the parsed token after the last `nodes`, unchanged (an int64 value; negative
    and zero budgets are passed on as they are), and `Search.Go`'s default −1 otherwise. -/
theorem uciGo_nodes {c : GoCall} (h : handleGo stm drvPonder drvDebug args = .call c) :
    c.nodes = (lastAfter "nodes" args).map parseInt ∧
    (∀ n, c.nodes = some n → -9223372036854775808 ≤ n ∧ n ≤ 9223372036854775807) ∧
    ∀ s q, (limitsOf c s q).nodes = ((lastAfter "nodes" args).map parseInt).getD (-1) ∧ (limitsOf c s q).softNodes = -1 := by
  rcases handleGo_cases stm drvPonder drvDebug args with ⟨_, h'⟩ | ⟨st, hs, h'⟩
  · rw [h'] at h; cases h
  · rw [h'] at h; cases h
    have sp := goList_spec drvPonder args st hs
    refine ⟨sp.nodes, ?_, ?_⟩
    · intro n hn
      simp only [sp.nodes] at hn
      cases hl : lastAfter "nodes" args with
      | none => simp [hl] at hn
      | some v =>
        simp only [hl, Option.map_some, Option.some.injEq] at hn
        subst hn; exact atoi64_range v
    · intro s q; simp [limitsOf, sp.nodes]

/-- The soft time is handed to the search iff the (translated) `timedMode` holds for the parsed clock
    and the side to move, and then it is the (translated) `softLimit`; the clock fields are the parsed
    tokens after the last occurrence of their keywords (0 when absent). -/
theorem uciGo_softTime {c : GoCall} (h : handleGo stm drvPonder drvDebug args = .call c) :
    c.softTime = (if timedMode c.wtime c.btime c.mtime stm then
        some (softLimit c.wtime c.btime c.winc c.binc c.mtime stm) else none) ∧
    c.wtime = ((lastAfter "wtime" args).map parseInt64).getD 0 ∧
    c.btime = ((lastAfter "btime" args).map parseInt64).getD 0 ∧
    c.winc = ((lastAfter "winc" args).map parseInt64).getD 0 ∧
    c.binc = ((lastAfter "binc" args).map parseInt64).getD 0 ∧
    c.mtime = ((lastAfter "movetime" args).map parseInt64).getD 0 := by
  rcases handleGo_cases stm drvPonder drvDebug args with ⟨_, h'⟩ | ⟨st, hs, h'⟩
  · rw [h'] at h; cases h
  · rw [h'] at h; cases h
    have sp := goList_spec drvPonder args st hs
    exact ⟨rfl, sp.wtime, sp.btime, sp.winc, sp.binc, sp.mtime⟩

/-- Pondering iff `ponder` occurs among the arguments and the driver's Ponder option is on; stop
    channel and output are always passed; the debug flag is the driver's. -/
theorem uciGo_flags {c : GoCall} (h : handleGo stm drvPonder drvDebug args = .call c) :
    c.ponder = (decide ("ponder" ∈ args) && drvPonder) ∧ c.stop = true ∧ c.output = true ∧ c.debug = drvDebug := by
  rcases handleGo_cases stm drvPonder drvDebug args with ⟨_, h'⟩ | ⟨st, hs, h'⟩
  · rw [h'] at h; cases h
  · rw [h'] at h; cases h
    have sp := goList_spec drvPonder args st hs
    refine ⟨?_, rfl, rfl, rfl⟩
    simp only [sp.ponder]
    by_cases hp : "ponder" ∈ args <;> simp [hp]

/-! ## non-vacuity: concrete argument lists (evaluated by the kernel) -/

/-- `go depth 200`: depth 64, not −56. -/
example : handleGo 0 false false ["depth", "200"] = .call
    { depth := some 64, nodes := none, softTime := none, ponder := false, debug := false, stop := true,
      output := true, wtime := 0, btime := 0, winc := 0, binc := 0, mtime := 0 } := by decide
example : (handleGo 0 false false ["depth", "-5"]).render = "call depth=1 nodes=- soft=- ponder=0 debug=0 stop=1 out=1" := by decide
example : (handleGo 0 false false ["depth", "x"]).render = "call depth=1 nodes=- soft=- ponder=0 debug=0 stop=1 out=1" := by decide
/-- `go depth`: "argument missing", no search. -/
example : handleGo 1 true true ["depth"] = .missing := by decide
/-- 2^64 does not fit: parsed as 0 (the search aborts at its first node). -/
example : (handleGo 0 false false ["nodes", "18446744073709551616"]).render = "call depth=- nodes=0 soft=- ponder=0 debug=0 stop=1 out=1" := by decide
example : parseInt "-1" = -1 ∧ parseInt "0" = 0 ∧ parseInt "+7" = 7 ∧ parseInt "9223372036854775807" = 9223372036854775807 ∧
    parseInt "9223372036854775808" = 0 ∧ parseInt "-9223372036854775808" = -9223372036854775808 ∧
    parseInt "" = 0 ∧ parseInt "-" = 0 ∧ parseInt "1_0" = 0 ∧ parseInt " 1" = 0 ∧ parseInt "0x10" = 0 := by decide
/-- the value token is not skipped: `depth` reads "nodes" (→ 1), then `nodes` reads "5"; the later
    `depth 9` overrides; black to move with 3 s on its clock gets soft 100 + 50. -/
example : (handleGo 1 true false ["depth", "nodes", "5", "ponder", "btime", "3000", "binc", "100", "depth", "9"]).render =
    "call depth=9 nodes=5 soft=150 ponder=1 debug=0 stop=1 out=1" := by decide
/-- the same clock with white to move is not timed: no soft time. -/
example : (handleGo 0 true false ["btime", "3000", "binc", "100"]).render =
    "call depth=- nodes=- soft=- ponder=0 debug=0 stop=1 out=1" := by decide
/-- the resulting limits of `go depth 200` and of a bare `go`. -/
example : (limitsOf (GoCall.mk (some 64) none none false false true true 0 0 0 0 0) 7 0).depth = 64 := by decide
example : ∃ c, handleGo 0 false false [] = .call c ∧ (limitsOf c 7 0).depth = 64 ∧ (limitsOf c 7 0).nodes = -1 :=
  ⟨_, rfl, by decide, by decide⟩

end ChessVerif.Props.C06uci
