/-
  C07 for the REAL components — closed theorems (no `Laws` hypothesis); see Props/C06real.lean for the
  vocabulary (`realComp K`, the state invariant `PSok`, `Session`).

  Every reported variation is a legal line from the root, the best move is the head of the last
  non-empty reported variation, the ponder move is legal after the best move, depths increase and
  node counts never decrease — for every key table, every valid root, every `Limits`, clock, fuel,
  caller counter and every admissible prior engine state.

  Rule-book readings: `LegalLine K b line` speaks about the engine's `playable`/`makeMove`;
  `RulesLine (abs b) line` is the same statement about `Spec/Rules.lean` alone (each word is the
  faithful encoding of a legal move of the position reached by `Rules.apply`).  The translation
  (`legalLine_rules`) goes through C01 and C02 and needs the positions along the line to stay in the
  domain `Board.valid`, whose halfmove clock is bounded by 100: hypothesis `b.fifty + line.length ≤ 100`
  (every node on a principal variation has in fact passed the draw test `FiftyCnt >= 100`; the
  skeleton's `LegalLine` does not record it).
-/
import ChessVerif.Props.C07
import ChessVerif.Props.C02
import ChessVerif.Props.C06real

namespace ChessVerif.Props.C07real
open ChessVerif Search SearchReal

/-- a line of the RULE BOOK: every word is one of the 32 768 encodings, decodes to a legal move of
    the current position and encodes it faithfully; the next position is `Rules.apply`. -/
inductive RulesLine : Rules.Pos → List Move → Prop where
  | nil {p} : RulesLine p []
  | cons {p m rest} : m < 32768 → Rules.legal p (decodeMove m) = true → encodeMove (decodeMove m) = m →
      RulesLine (Rules.apply p (decodeMove m)) rest → RulesLine p (m :: rest)

/-- a move raises the halfmove clock by at most one. -/
theorem make_fifty_succ (K : Keys) {b : Board} {m : Move} (hv : Board.valid b = true) (h : b.fifty < 100) :
    (b.makeMove K m).1.fifty ≤ b.fifty + 1 := by
  have V := (Playable.validP_iff _).1 (Bridge.rulesValid_of_valid hv)
  have h0 : 0 ≤ b.fifty := V.hm0
  rw [Board.makeMove_eq, AbsMake.make_fifty]
  split
  · omega
  · rw [AbsMake.wrapS8_small _ h0 (by omega)]; omega

/-- engine-level legal lines are rule-book lines (C01 + C02 + closure of validity). -/
theorem legalLine_rules (K : Keys) : ∀ (line : List Move) (b : Board), Board.valid b = true →
    b.fifty + line.length ≤ 100 → LegalLine K b line → RulesLine (Board.abs b) line := by
  intro line
  induction line with
  | nil => intro b _ _ _; exact RulesLine.nil
  | cons m rest ih =>
    intro b hv hc hl
    cases hl with
    | cons hp hrest =>
      have hr := (Props.C01.playable_eq_legal K hv m).1 hp
      have hf : b.fifty < 100 := by simp only [List.length_cons] at hc; omega
      have hv' := Props.C01.valid_make_of_clock_lt K hv hp hf
      have hs := make_fifty_succ K (m := m) hv hf
      have := ih (b.makeMove K m).1 hv' (by simp only [List.length_cons] at hc; omega) hrest
      rw [Props.C02.make_refines_rules K hv hp] at this
      exact RulesLine.cons hr.1 hr.2.1 hr.2.2 this

/-- Every reported variation is a sequence of moves playable in turn from the root. -/
theorem reported_pv_legal_real (K : Keys) (L : Limits) (clock : Clock) (fuel : Nat) (e : Engine PS) (b : Board)
    (hv : Board.valid b = true) (hok : PSok e.ps) (nodes0 : Int) :
    ∀ i ∈ (go (realComp K) L clock fuel e b nodes0).out, LegalLine K b i.pv :=
  Props.C07.reported_pv_legal (realComp K) L clock (realComp_laws K) fuel e b hv hok nodes0

/-- … in the words of the rule book (lines that stay within the clock bound of the domain). -/
theorem reported_pv_rules (K : Keys) (L : Limits) (clock : Clock) (fuel : Nat) (e : Engine PS) (b : Board)
    (hv : Board.valid b = true) (hok : PSok e.ps) (nodes0 : Int) :
    ∀ i ∈ (go (realComp K) L clock fuel e b nodes0).out, b.fifty + i.pv.length ≤ 100 →
      RulesLine (Board.abs b) i.pv :=
  fun i hi hc => legalLine_rules K i.pv b hv hc (reported_pv_legal_real K L clock fuel e b hv hok nodes0 i hi)

/-- The move returned is the first move of the most recent non-empty reported variation. -/
theorem bestmove_is_head_of_last_nonempty_pv_real (K : Keys) (L : Limits) (clock : Clock) (fuel : Nat) (e : Engine PS)
    (b : Board) (hv : Board.valid b = true) (hok : PSok e.ps) (nodes0 : Int) (ho : L.output = true)
    (i : Info) (hi : lastPV (go (realComp K) L clock fuel e b nodes0).out = some i) :
    i.pv.head? = some (go (realComp K) L clock fuel e b nodes0).move :=
  Props.C07.bestmove_is_head_of_last_nonempty_pv (realComp K) L clock (realComp_laws K) fuel e b hv hok nodes0 ho i hi

/-- The ponder move, when given, is playable after the returned move. -/
theorem ponder_legal_after_bestmove_real (K : Keys) (L : Limits) (clock : Clock) (fuel : Nat) (e : Engine PS) (b : Board)
    (hv : Board.valid b = true) (hok : PSok e.ps) (nodes0 : Int)
    (hp : (go (realComp K) L clock fuel e b nodes0).ponder ≠ 0) :
    LegalLine K b [(go (realComp K) L clock fuel e b nodes0).move, (go (realComp K) L clock fuel e b nodes0).ponder] :=
  Props.C07.ponder_legal_after_bestmove (realComp K) L clock (realComp_laws K) fuel e b hv hok nodes0 hp

/-- … in the words of the rule book: the best move is legal in the root and the ponder move is legal
    in the position the rules prescribe after it (root clock below 99, so that both positions are in
    the domain). -/
theorem ponder_legal_after_bestmove_rules (K : Keys) (L : Limits) (clock : Clock) (fuel : Nat) (e : Engine PS)
    (b : Board) (hv : Board.valid b = true) (hok : PSok e.ps) (nodes0 : Int) (hc : b.fifty + 2 ≤ 100)
    (hp : (go (realComp K) L clock fuel e b nodes0).ponder ≠ 0) :
    RulesLine (Board.abs b)
      [(go (realComp K) L clock fuel e b nodes0).move, (go (realComp K) L clock fuel e b nodes0).ponder] :=
  legalLine_rules K _ b hv (by simpa using hc) (ponder_legal_after_bestmove_real K L clock fuel e b hv hok nodes0 hp)

/-- Within one search reported depths strictly increase and reported node counts never decrease. -/
theorem depths_increase_nodes_monotone_real (K : Keys) (L : Limits) (clock : Clock) (fuel : Nat) (e : Engine PS)
    (b : Board) (hv : Board.valid b = true) (hok : PSok e.ps) (nodes0 : Int) :
    (go (realComp K) L clock fuel e b nodes0).out.Pairwise
      fun newer older => older.depth < newer.depth ∧ older.nodes ≤ newer.nodes :=
  Props.C07.depths_increase_nodes_monotone (realComp K) L clock (realComp_laws K) fuel e b hv hok nodes0

/-! ### non-vacuity -/

open C05 (start rich)
open C02core (start_valid rich_valid)

/-- hypotheses satisfiable (start position, fresh engine, any limits) … -/
example (K : Keys) (L : Limits) (clock : Clock) (fuel : Nat) :
    ∀ i ∈ (go (realComp K) L clock fuel (newEngine 1024) start).out, LegalLine K start i.pv :=
  reported_pv_legal_real K L clock fuel _ start start_valid (Props.C06real.newEngine_ok 1024) 0

/-- … and `RulesLine` is inhabited by real lines: 1. e4 in the start position; the en-passant capture in `rich`
    (rule-book facts, no bitboard evaluation). -/
example : RulesLine (Board.abs start) [Move.mk 12 28 0] :=
  RulesLine.cons (by decide) (by decide +kernel) (by decide) RulesLine.nil
example : RulesLine (Board.abs rich) [Move.mk 36 43 0] :=
  RulesLine.cons (by decide) Props.C01.rich_ep_legal (by decide) RulesLine.nil

end ChessVerif.Props.C07real
