/-
  C03 for every value of the int8 halfmove clock — property theorems + non-vacuity examples only
  (proofs in Proofs/BoardNC.lean on top of Proofs/Token.lean, Proofs/MakeUndo*.lean).

  The reversing token (board.go `Reverse`) stores the clock in its low 8 bits:
  `setFiftyCnt(fc)`: `*r = (*r & ^fiftyCntMask) | Reverse(fc)<<0` — the conversion of a NEGATIVE int8 to the
  uint64 token sign-extends over the whole word; MakeMove calls it first and the later setters clear
  their own fields before writing; `fiftyCnt()` reads the low byte back as int8.  The model mirrors this
  (`BitVec.ofInt 64 fc`, `wrapS8`), and `Props.C03.token_fields_roundtrip` is proved for all
  −128 ≤ fc ≤ 127.  Hence `undo ∘ make = id` needs NO bound on the clock beyond "it is an int8":
  `Props.C03.undo_make` already takes `MakeOK`, whose clock clauses are exactly `−128 ≤ clock ≤ 127`.
  What was restricted to clocks in `[0,100]` is only the derivation of `MakeOK` from `Board.valid`
  (`isPseudoLegal_makeOK`, `undo_make_valid`); it is lifted here to `ValidNC` + `Int8Clock`.

  `Int8Clock b` is a type invariant of the Go struct (`FiftyCnt Depth`, `Depth = int8`); the model's
  field is an `Int`, so it is a hypothesis here — preserved by every operation (`int8_make`,
  `int8_null`), true of every valid board, and necessary in the model (`int8_of_undo_make`).
-/
import ChessVerif.Proofs.BoardNCExample

namespace ChessVerif.Props.C03nc
set_option autoImplicit false
open ChessVerif Board

abbrev ValidNC := RepClosed.ValidNC
/-- the clock has a value of the Go type int8: −128 … 127. -/
abbrev Int8Clock := NC.Int8Clock

theorem int8_of_valid {b : Board} (hv : Board.valid b = true) : Int8Clock b := NC.int8_of_valid hv
/-- after `MakeMove` the clock is an int8 whatever it was; a null move does not touch it. -/
theorem int8_make (K : Keys) (b : Board) (m : Move) : Int8Clock (makeMove K b m).1 := NC.int8_make K b m
theorem int8_null (K : Keys) {b : Board} (h : Int8Clock b) : Int8Clock (makeNull K b).1 := NC.int8_null K h
/-- `Int8Clock` is necessary in the model: `UndoMove` always writes an int8. -/
theorem int8_of_undo_make (K : Keys) {b : Board} {m : Move}
    (h : undoMove (makeMove K b m).1 m (makeMove K b m).2 = b) : Int8Clock b := NC.int8_of_undo_make K h

/-- the local preconditions of make/undo for every pseudo-legal move of a `ValidNC` board with an int8
    clock (`Props.C03.isPseudoLegal_makeOK` without the bound `0 ≤ clock ≤ 100`). -/
theorem isPseudoLegal_makeOK_nc {b : Board} {m : Move} (hv : ValidNC b) (h8 : Int8Clock b)
    (hpl : isPseudoLegal b m = true) : MakeOK b m := NC.makeOK_nc hv h8 hpl

/-- **C03 for any int8 clock** — beyond 100, and wrapped negative values: a pseudo-legal move (legal or
    not) made and undone gives back the identical board (placements, rights, en-passant square, both
    counters, whole hash history). -/
theorem undo_make_anyclock (K : Keys) {b : Board} {m : Move} (hv : ValidNC b) (h8 : Int8Clock b)
    (hpl : isPseudoLegal b m = true) : undoMove (makeMove K b m).1 m (makeMove K b m).2 = b :=
  NC.undo_make_nc K hv h8 hpl

/-- … for generated moves. -/
theorem undo_make_gen_anyclock (K : Keys) {b : Board} {m : Move} (hv : ValidNC b) (h8 : Int8Clock b)
    (hm : m ∈ MoveGen.gen b) : undoMove (makeMove K b m).1 m (makeMove K b m).2 = b :=
  NC.undo_make_nc K hv h8 (NC.isPseudoLegal_of_gen hv hm)

/-- the null-move pair does not involve the clock at all. -/
theorem undoNull_makeNull_nc (K : Keys) {b : Board} (hv : ValidNC b) :
    undoNull (makeNull K b).1 (makeNull K b).2 = b := NC.undo_null_nc K hv

/-- a line as the search makes it: generated moves, continuing only after a move that does not leave
    the mover's king in check, null moves only when not in check. -/
abbrev SearchLine := NC.SearchLine
/-- the board at the end of a line. -/
abbrev lineBoard := NC.lineBoard

/-- **C03, any nesting depth, any clock**: every search line from a `ValidNC` board with an int8 clock
    runs (all preconditions of make/undo hold along it, whatever the clock does — it may pass 100 and
    wrap), and undoing it in reverse order returns to the identical board. -/
theorem undo_nested_nc (K : Keys) {b : Board} (ops : List Op) (hv : ValidNC b) (h8 : Int8Clock b)
    (hl : SearchLine K b ops) :
    ∃ toks, runMakes K b ops = some (lineBoard K b ops, toks) ∧
      runUndos (lineBoard K b ops) ops.reverse toks = b := NC.undo_nested_nc K ops hv h8 hl

/-- from a valid board in particular. -/
theorem undo_nested_valid (K : Keys) {b : Board} (ops : List Op) (hv : Board.valid b = true)
    (hl : SearchLine K b ops) :
    ∃ toks, runMakes K b ops = some (lineBoard K b ops, toks) ∧
      runUndos (lineBoard K b ops) ops.reverse toks = b :=
  NC.undo_nested_nc K ops (RepClosed.validNC_of_valid hv) (NC.int8_of_valid hv) hl

/-! ### non-vacuity: the board with the clock wrapped to −124 -/

open NC.Example

-- an ILLEGAL but pseudo-legal move (pinned bishop) and a legal move, made and undone, any key table
example (K : Keys) : undoMove (makeMove K wrapped bd3).1 bd3 (makeMove K wrapped bd3).2 = wrapped :=
  undo_make_gen_anyclock K wrapped_validNC wrapped_int8 bd3_gen
example (K : Keys) : undoMove (makeMove K wrapped kd1).1 kd1 (makeMove K wrapped kd1).2 = wrapped :=
  undo_make_gen_anyclock K wrapped_validNC wrapped_int8 (EpTarget.playable_gen (kd1_playable K))
-- the token really carries the negative clock (sign extension over the whole word, low byte read back)
example : (Reverse.setFiftyCnt 0 (-124)).fiftyCnt = -124 := by decide +kernel
-- lines: depth 2 (Ke1-d1, …Kh8-g8), a null move, the illegal move as last move of a line
example (K : Keys) : ∃ toks, runMakes K wrapped [.mk kd1, .mk kg8] = some (lineBoard K wrapped [.mk kd1, .mk kg8], toks) ∧
    runUndos (lineBoard K wrapped [.mk kd1, .mk kg8]) [Op.mk kd1, Op.mk kg8].reverse toks = wrapped :=
  undo_nested_nc K _ wrapped_validNC wrapped_int8 (line2 K)
example (K : Keys) : SearchLine K wrapped [.null] ∧ SearchLine K wrapped [.mk bd3] := ⟨lineNull K, lineIllegal K⟩
-- `Int8Clock` cannot be dropped in the model: with the (impossible in Go) clock 300 undo ∘ make ≠ id
example (K : Keys) (m : Move) : undoMove (makeMove K (setFifty wrapped 300) m).1 m (makeMove K (setFifty wrapped 300) m).2 ≠
    setFifty wrapped 300 := fun h => by
  have := (int8_of_undo_make K h).2
  exact absurd this (by decide)

end ChessVerif.Props.C03nc
