/-
  C06 / C07 / C08 — TERMINATION of the search algorithm: fuel sufficiency (property theorems only;
  lemmas in Proofs/SearchFuel.lean, SearchFuelGo.lean, SearchFuelLoop.lean, SearchFuelDemo.lean).

  The model (Model/Search.lean) makes `go → idLoop → aspiration → alphaBeta → quiescence` total by a
  `fuel : Nat` argument; running out of fuel behaves like an abort and raises the ghost flag
  `St.fuelOut`.  Fuel is decremented per NESTING LEVEL of the two recursive functions (a node hands the
  same `fuel` to all its children), so "some amount of fuel is never exhausted" says that the call tree
  of the recursive Go functions has bounded depth, i.e. that the ALGORITHM terminates (its breadth is
  bounded by the move loops).  Every theorem about "runs that return" either tolerates `fuelOut` or
  assumes `fuelOut = false`; here that hypothesis is discharged:

      alphaBeta at ply p     never runs out of fuel when  fuel ≥ 112 - p   (0 ≤ p ≤ 63)
      quiescence on board b  never runs out of fuel when  fuel > μ b       (μ b ≤ 48)
      go                     never runs out of fuel when  fuel ≥ 112       (`goFuel`)

  for EVERY depth, window, node type, limits, point of abort and persistent state satisfying the
  invariant.  112 = 63 nested `alphaBeta` levels (each call is made at `ply + 1`, a node at
  `ply ≥ MaxPlies - 1` goes to quiescence — whatever the reductions `lmr`, `nmpDepth`, `iir` do, no law
  about them is needed) + 48 nested quiescence levels (every quiescence move decreases men + pawns) + 1.
  The correspondence driver passes 10^9 and reports `fuelOut`; the bound is a statement about recursion
  depth, not node count.  DEPTH-SENSITIVE REFINEMENT: with three facts about the reductions (`DepthLaws`:
  `0 ≤ lmr`, `0 ≤ nmpDepth < d` where the null move is tried, internal iterative reduction at depths ≥ 2
  only) every recursive call has a depth in `[0, d - 1]` and

      alphaBeta at depth d   never runs out of fuel when  fuel ≥ d + 49        (0 ≤ d ≤ 64, any ply)
      go with depth limit D  never runs out of fuel when  fuel ≥ min D 63 + 49 (not in ponder mode)

  Laws used: `Laws` (Props/C06.lean), the quiescence measure of `ScoreLaws`, and ONE new law,
  `FuelLaws.pick_len`: the picker yields at most `len(gen)` moves (the counter `len(gen) + 1` of the
  move loop counts `Next()` calls; without the law it could be what runs out).  At the driver level
  the aspiration loop has a counter as well (`fuel`), and there the generic skeleton does NOT terminate:
  `go_window0_never_terminates` — for every component record with `windowSize = 0`, `go depth N`
  exhausts every amount of fuel (the Go loop `for !awOk` spins on the window `(s, s)`).  With
  `AspLaws` (`WSafe windowSize`: 39..44 or 78..88; the real 44 is a regenerated constant) a chain has at most ten failures as long as results stay within `±Inf`,
  which is the score-range theorem and carries its run-level hypothesis `ttOut = false` (no out-of-band
  value handed to a table store; void for components with the null-move guard `NmpFloor`).
-/
import ChessVerif.Props.C06
import ChessVerif.Proofs.SearchFuelGo
import ChessVerif.Proofs.SearchFuelLoop
import ChessVerif.Proofs.SearchFuelDemo

namespace ChessVerif.Props.C06fuel
open ChessVerif Search

variable {σ π : Type} [PsInv σ]

/-- **`quiescence` terminates**: with more fuel than the measure of the board (at most 48 on `Good`
    boards) neither the node nor anything below it runs out of fuel — for every window, ply, limits,
    point of abort and admissible persistent state. -/
theorem quiescence_terminates (c : Comp σ π) (L : Limits) {Good : Board → Prop} {μ : Board → Nat} (hl : Laws c Good)
    (fl : FuelLaws c Good μ) (fuel : Nat) (alpha beta : Score) (ply : Int) (s : St σ) (hg : Good s.board)
    (hok : PsInv.ok s.ps) (hfu : μ s.board < fuel) (hfo : s.fuelOut = false) :
    (quiescence c L fuel alpha beta ply s).2.fuelOut = false :=
  quiescence_fuel c L hl fl fuel alpha beta ply s hg hok hfu hfo

/-- … in particular with 49 units of fuel on every `Good` board. -/
theorem quiescence_terminates_49 (c : Comp σ π) (L : Limits) {Good : Board → Prop} {μ : Board → Nat} (hl : Laws c Good)
    (fl : FuelLaws c Good μ) (fuel : Nat) (hfu : 49 ≤ fuel) (alpha beta : Score) (ply : Int) (s : St σ)
    (hg : Good s.board) (hok : PsInv.ok s.ps) (hfo : s.fuelOut = false) :
    (quiescence c L fuel alpha beta ply s).2.fuelOut = false :=
  quiescence_fuel c L hl fl fuel alpha beta ply s hg hok
    (by have := fl.measure_bound s.board hg; omega) hfo

/-- **`alphaBeta` terminates**: called at `ply` (0 ≤ ply ≤ 63) with at least `112 - ply` units of fuel,
    neither the node nor anything in the tree below it runs out of fuel, and no move loop runs out of
    its `Next()` counter — for every depth (no range assumed), window, node type, limits, point of
    abort and admissible persistent state. -/
theorem alphaBeta_terminates (c : Comp σ π) (L : Limits) {Good : Board → Prop} {μ : Board → Nat} (hl : Laws c Good)
    (fl : FuelLaws c Good μ) (fuel : Nat) (alpha beta : Score) (d ply : Int) (nt : NodeType) (s : St σ)
    (hg : Good s.board) (hok : PsInv.ok s.ps) (h0 : 0 ≤ ply) (h63 : ply ≤ 63) (hfu : 112 - ply ≤ (fuel : Int))
    (hfo : s.fuelOut = false) :
    (alphaBeta c L fuel alpha beta d ply nt s).2.fuelOut = false :=
  alphaBeta_fuel c L hl fl fuel alpha beta d ply nt s hg hok h0 h63 hfu hfo

/-- the root form: 112 units of fuel suffice for a search of any depth from ply 0. -/
theorem alphaBeta_terminates_root (c : Comp σ π) (L : Limits) {Good : Board → Prop} {μ : Board → Nat} (hl : Laws c Good)
    (fl : FuelLaws c Good μ) (fuel : Nat) (hfu : 112 ≤ fuel) (alpha beta : Score) (d : Int) (nt : NodeType) (s : St σ)
    (hg : Good s.board) (hok : PsInv.ok s.ps) (hfo : s.fuelOut = false) :
    (alphaBeta c L fuel alpha beta d 0 nt s).2.fuelOut = false :=
  alphaBeta_fuel_root c L hl fl hfu alpha beta d nt s hg hok hfo

/-- **`go` terminates**: with at least `goFuel = 112` units of fuel the run never runs out of fuel — no
    search function, no move loop, no aspiration chain — for every request (limits, clock, caller
    counter), `Good` root and prior engine state with sound tables; as long as no out-of-band value was
    handed to a table store in the run (`ttOut`, the hypothesis of the score-range theorems: the
    bound on the aspiration chain rests on results within `±Inf`). -/
theorem go_fuel_suffices (c : Comp σ π) (L : Limits) (clock : Clock) {Good : Board → Prop} {TTok : σ → Prop}
    {μ : Board → Nat} (hl : Laws c Good) (sl : ScoreLaws c Good TTok μ) (al : AspLaws c) (fl : FuelLaws c Good μ)
    (fuel : Nat) (hfu : goFuel ≤ fuel) (e : Engine σ) (b : Board) (hg : Good b) (nodes0 : Int) (htt : TTok e.ps)
    (hA : (go c L clock fuel e b nodes0).st.ttOut = false) :
    (go c L clock fuel e b nodes0).st.fuelOut = false :=
  go_fuel c L clock hl sl al fl hfu e b hg nodes0 htt hA

/-- for components with the null-move guard (`NmpFloor`) there is no hypothesis on the run. -/
theorem go_fuel_suffices_floor (c : Comp σ π) (hf : NmpFloor c) (L : Limits) (clock : Clock) {Good : Board → Prop}
    {TTok : σ → Prop} {μ : Board → Nat} (hl : Laws c Good) (sl : ScoreLaws c Good TTok μ) (al : AspLaws c)
    (fl : FuelLaws c Good μ) (fuel : Nat) (hfu : goFuel ≤ fuel) (e : Engine σ) (b : Board) (hg : Good b) (nodes0 : Int)
    (hd : 1 ≤ L.depth) (htt : TTok e.ps) :
    (go c L clock fuel e b nodes0).st.fuelOut = false :=
  go_fuel c L clock hl sl al fl hfu e b hg nodes0 htt
    (Props.C06.go_ttOut_of_floor c hf L clock hl sl al fuel e b hg nodes0 hd htt)

/-- A search without stop channel and hard node budget RUNS TO COMPLETION: the abort flag is never
    raised (the only other way to raise it is running out of fuel, `go_aborted_fuel`). -/
theorem go_completes (c : Comp σ π) (L : Limits) (clock : Clock) {Good : Board → Prop} {TTok : σ → Prop}
    {μ : Board → Nat} (hl : Laws c Good) (sl : ScoreLaws c Good TTok μ) (al : AspLaws c) (fl : FuelLaws c Good μ)
    (fuel : Nat) (hfu : goFuel ≤ fuel) (e : Engine σ) (b : Board) (hg : Good b) (nodes0 : Int) (htt : TTok e.ps)
    (hstop : L.stop = none) (hnodes : L.nodes = -1)
    (hA : (go c L clock fuel e b nodes0).st.ttOut = false) :
    (go c L clock fuel e b nodes0).st.aborted = false := by
  cases hab : (go c L clock fuel e b nodes0).st.aborted
  · rfl
  · have h1 := go_aborted_fuel c L clock fuel e b nodes0 hstop hnodes hab
    rw [go_fuel c L clock hl sl al fl hfu e b hg nodes0 htt hA] at h1
    cases h1

/-- `C06_full_final_score` without its `fuelOut = false` hypothesis: no stop channel, no hard budget,
    enough fuel — a search of a final root returns the null move with score 0, or the mated score for a
    checkmated root (compare `Props.C06.go_final_score_completed`, which assumes `fuelOut = false` and
    `GoSane`). -/
theorem go_final_score_completed_fuel (c : Comp σ π) (L : Limits) (clock : Clock) {Good : Board → Prop}
    {TTok : σ → Prop} {μ : Board → Nat} (hl : Laws c Good) (sl : ScoreLaws c Good TTok μ) (al : AspLaws c)
    (fl : FuelLaws c Good μ) (fuel : Nat) (hfu : goFuel ≤ fuel) (e : Engine σ) (b : Board) (hg : Good b) (nodes0 : Int)
    (hd : 1 ≤ L.depth) (htt : TTok e.ps) (hstop : L.stop = none) (hnodes : L.nodes = -1) (hfin : Final c.keys b)
    (hA : (go c L clock fuel e b nodes0).st.ttOut = false) :
    (go c L clock fuel e b nodes0).move = 0 ∧
      ((go c L clock fuel e b nodes0).score = 0 ∨
        (b.inCheck b.stm = true ∧ MoveGen.playable c.keys b = [] ∧ (go c L clock fuel e b nodes0).score = -Inf)) :=
  Props.C06.go_final_score_free_tt c L clock hl sl al fuel e b hg nodes0 hd htt hA hfin
    (go_completes c L clock hl sl al fl fuel hfu e b hg nodes0 htt hstop hnodes hA)

/-- **`alphaBeta` terminates, depth-sensitive form**: under `DepthLaws` a node entered with depth
    `0 ≤ d ≤ 64` needs `d + 49` units of fuel only, at whatever ply: below it there are at most `d` nested
    `alphaBeta` levels (every recursive call has a depth in `[0, d - 1]`; it is the test `d = 0`, not the
    ply cap, that ends a line) and 49 quiescence levels. -/
theorem alphaBeta_terminates_depth (c : Comp σ π) (L : Limits) {Good : Board → Prop} {μ : Board → Nat} (hl : Laws c Good)
    (fl : FuelLaws c Good μ) (dl : DepthLaws c) (fuel : Nat) (alpha beta : Score) (d ply : Int) (nt : NodeType) (s : St σ)
    (hg : Good s.board) (hok : PsInv.ok s.ps) (h0 : 0 ≤ ply) (h63 : ply ≤ 63) (hd0 : 0 ≤ d) (hd64 : d ≤ 64)
    (hfu : d + 49 ≤ (fuel : Int)) (hfo : s.fuelOut = false) :
    (alphaBeta c L fuel alpha beta d ply nt s).2.fuelOut = false :=
  alphaBeta_fuel_depth c L hl fl dl fuel alpha beta d ply nt s hg hok h0 h63 hd0 hd64 hfu hfo

/-- **`go` terminates, depth-sensitive form**: a request with depth limit `D` needs `goFuelD L` =
    `min D 63 + 49` units of fuel (112 when started in ponder mode, where the depth limit is ignored until
    the ponder hit) — `go depth 1` needs 50, `go depth 64` and `go infinite` 112. -/
theorem go_fuel_suffices_depth (c : Comp σ π) (L : Limits) (clock : Clock) {Good : Board → Prop} {TTok : σ → Prop}
    {μ : Board → Nat} (hl : Laws c Good) (sl : ScoreLaws c Good TTok μ) (al : AspLaws c) (fl : FuelLaws c Good μ)
    (dl : DepthLaws c) (fuel : Nat) (hfu : goFuelD L ≤ fuel) (e : Engine σ) (b : Board) (hg : Good b) (nodes0 : Int)
    (htt : TTok e.ps) (hA : (go c L clock fuel e b nodes0).st.ttOut = false) :
    (go c L clock fuel e b nodes0).st.fuelOut = false :=
  go_fuel_depth c L clock hl sl al fl dl hfu e b hg nodes0 htt hA

omit [PsInv σ] in
/-- **Without a law about the window size the driver level does NOT terminate**: for EVERY component
    record with `windowSize = 0` (allowed by `ScoreLaws.window`), every `go depth N` request (`N ≥ 1`; no
    stop channel, node budget or soft limit), every position, engine state and clock, the run
    exhausts EVERY amount of fuel — the Go loop `for !awOk` spins on the window `(s, s)`.  So
    `go_fuel_suffices` needs `AspLaws`; the node-level theorems above need nothing of the kind. -/
theorem go_window0_never_terminates (c : Comp σ π) (L : Limits) (clock : Clock) (hw : c.windowSize = 0)
    (hstop : L.stop = none) (hnodes : L.nodes = -1) (hst : L.softTime ≤ 0) (hsn : L.softNodes ≤ 0) (hd : 1 ≤ L.depth)
    (fuel : Nat) (e : Engine σ) (b : Board) (nodes0 : Int) :
    (go c L clock fuel e b nodes0).st.fuelOut = true :=
  go_window0_runs_out c L clock hw hstop hnodes hst hsn hd fuel e b nodes0

/-! ### non-vacuity -/

/-- the bounds: 112 for a search of any depth (in particular `L.depth = 64`, where iterations 0 … 63
    run), far below the 10^9 the correspondence driver passes -/
example : goFuel = 112 ∧ abFuel = 112 ∧ goFuel < 10 ^ 9 := by decide

/-- the depth-sensitive bound of a request: 50 for `go depth 1`, 54 for `go depth 5`, 112 for
    `go depth 64`, for depth limits beyond `MaxPlies` and in ponder mode -/
example : goFuelD { depth := 1, nodes := -1, softNodes := 0, softTime := 0, stop := none, ponder := none, output := true } = 50 ∧
    goFuelD { depth := 5, nodes := -1, softNodes := 0, softTime := 0, stop := none, ponder := none, output := true } = 54 ∧
    goFuelD { depth := 64, nodes := -1, softNodes := 0, softTime := 0, stop := none, ponder := none, output := true } = 112 ∧
    goFuelD { depth := 127, nodes := -1, softNodes := 0, softTime := 0, stop := none, ponder := none, output := true } = 112 ∧
    goFuelD { depth := 1, nodes := -1, softNodes := 0, softTime := 0, stop := none, ponder := some 3, output := true } = 112 := by
  decide

/-- the laws are jointly satisfiable: `demoComp` on the boards without men (its list picker satisfies
    `pick_len` on every board, `demo_pick_len`) -/
example (K : Keys) : Laws (demoComp K) NoMen ∧ FuelLaws (demoComp K) NoMen (fun _ => 0) ∧ AspLaws (demoComp K) ∧
    NmpFloor (demoComp K) ∧ DepthLaws (demoComp K) :=
  ⟨demo_laws K, demo_fuelLaws K, demo_aspLaws K, demo_nmpFloor K, demo_depthLaws K⟩

/-- the depth-sensitive form applies: `go depth 5` of `demoComp` with 54 units of fuel -/
example (K : Keys) (clock : Clock) (e : Engine Unit) :
    (go (demoComp K) { depth := 5, nodes := -1, softNodes := 0, softTime := 0, stop := none, ponder := none, output := true }
      clock 54 e Board.empty).st.fuelOut = false :=
  go_fuel_suffices_depth (demoComp K) _ clock (demo_laws K) (demo_scoreLaws K) (demo_aspLaws K) (demo_fuelLaws K)
    (demo_depthLaws K) 54 (by decide) e Board.empty noMen_empty 0 trivial
    (Props.C06.go_ttOut_of_floor _ (demo_nmpFloor K) _ clock (demo_laws K) (demo_scoreLaws K) (demo_aspLaws K) 54 e
      Board.empty noMen_empty 0 (by decide) trivial)

/-- the theorems apply: every `go depth N` (N ≥ 1) of `demoComp` with 112 units of fuel returns with the
    flag down, whatever the other limits and the clock … -/
example (K : Keys) (L : Limits) (clock : Clock) (e : Engine Unit) (hd : 1 ≤ L.depth) :
    (go (demoComp K) L clock 112 e Board.empty).st.fuelOut = false :=
  go_fuel_suffices_floor (demoComp K) (demo_nmpFloor K) L clock (demo_laws K) (demo_scoreLaws K) (demo_aspLaws K)
    (demo_fuelLaws K) 112 (by decide) e Board.empty noMen_empty 0 hd trivial

/-- … the node-level hypotheses are met by the state `go` starts from … -/
example (K : Keys) (L : Limits) (e : Engine Unit) (a b : Score) (d : Int) :
    (alphaBeta (demoComp K) L 112 a b d 0 .pv (goInit L e Board.empty 0)).2.fuelOut = false :=
  alphaBeta_terminates_root (demoComp K) L (demo_laws K) (demo_fuelLaws K) 112 (by decide) a b d .pv _ noMen_empty
    trivial rfl

/-- … and the flag is a genuine event: without fuel it is raised at once. -/
example (K : Keys) (L : Limits) (e : Engine Unit) (a b : Score) (d : Int) :
    (alphaBeta (demoComp K) L 0 a b d 0 .pv (goInit L e Board.empty 0)).2.fuelOut = true := rfl

/-- the non-termination witness is inhabited: `demoComp` with window size 0 -/
example (K : Keys) (clock : Clock) (fuel : Nat) (e : Engine Unit) (b : Board) :
    (go { demoComp K with windowSize := 0 }
      { depth := 5, nodes := -1, softNodes := 0, softTime := 0, stop := none, ponder := none, output := true }
      clock fuel e b).st.fuelOut = true :=
  go_window0_never_terminates _ _ clock rfl rfl rfl (by decide) (by decide) (by decide) fuel e b 0

end ChessVerif.Props.C06fuel
