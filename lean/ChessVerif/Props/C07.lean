/-
  C07 — principal variations (property theorems only).
  Part 1: the triangular PV buffer of search/pv.go.  Part 2: over the generic search skeleton
  (Model/Search.lean, which threads the list-of-rows model that Part 1 shows the flat buffer
  simulates): reported variations are legal lines, best move = head of the last non-empty reported
  variation, ponder move legal after it, depths strictly increase and node counts never decrease.
-/
import ChessVerif.Proofs.PvBuf
import ChessVerif.Proofs.SearchOut
import ChessVerif.Proofs.SearchDemo

namespace ChessVerif.Props.C07
open ChessVerif Pv

/-- Rows of the triangular buffer never overlap.  `bufIx` is the Go expression
    `int(ply)*MaxPlies - int(ply)*int(ply-1)/2` (int8 subtraction, truncating division).  For plies
    `0 ≤ ply, ply' < MaxPlies`: (1) the index is non-negative, (2) row `ply` (room `MaxPlies - ply`)
    ends where row `ply+1` begins, (3) the last row ends inside the array, (4) cells of two different
    rows are different cells. -/
theorem bufIx_rows_disjoint (ply ply' : Nat) (h : ply < maxPlies) (h' : ply' < maxPlies) :
    0 ≤ bufIx ply ∧
    bufIx ply + (maxPlies - ply : Nat) ≤ bufIx ((ply + 1 : Nat) : Int) ∧
    bufIx ply + (maxPlies - ply : Nat) ≤ bufLen ∧
    (ply ≠ ply' → ∀ k k' : Nat, k < maxPlies - ply → k' < maxPlies - ply' → bufIx ply + k ≠ bufIx ply' + k') := by
  simp only [maxPlies] at h h' ⊢
  rw [bufIx_eq_rowStart ply (by omega), bufIx_eq_rowStart ply' (by omega), bufIx_eq_rowStart (ply + 1) (by omega)]
  have hs := rowStart_succ ply h
  have he := rowStart_end_le h
  refine ⟨by omega, by omega, by omega, ?_⟩
  intro hne k k' hk hk'
  rcases Nat.lt_or_gt_of_ne hne with hlt | hgt
  · have := rowStart_mono (p := ply) (q := ply') hlt (by omega); omega
  · have := rowStart_mono (p := ply') (q := ply) hgt (by omega); omega

/-- The flat buffer simulates the list-of-rows model: starting from `newPV`, every `setNull(ply)`
    (`ply < MaxPlies`), `insert(ply, m)` (`ply + 1 < MaxPlies`, the only plies at which `alphaBeta`
    inserts) keeps the representation invariant and the refinement relation, and `active()` reads
    row 0. -/
theorem pv_flat_refines_rows :
    (BufInv Flat.new ∧ Refines Flat.new Rows.new) ∧
    (∀ pv r, BufInv pv → Refines pv r → ∀ ply, ply < maxPlies →
        BufInv (pv.setNull ply) ∧ Refines (pv.setNull ply) (r.setNull ply)) ∧
    (∀ pv r, BufInv pv → Refines pv r → ∀ ply m, ply + 1 < maxPlies →
        BufInv (pv.insert ply m) ∧ Refines (pv.insert ply m) (r.insert ply m)) ∧
    (∀ pv r, Refines pv r → pv.active = r.active) :=
  ⟨⟨new_inv, new_refines⟩,
   fun _ _ hI hR _ hp => ⟨setNull_inv hI hp, setNull_refines hI hR _ hp⟩,
   fun _ _ hI hR _ m hp => ⟨insert_inv hI hp m, insert_refines hI hR hp m⟩,
   fun _ _ hR => active_refines hR⟩

/-- non-vacuity: rows 0, 1 and 62, 63 on concrete numbers; a concrete insert sequence. -/
example : bufIx 0 = 0 ∧ bufIx 1 = 64 ∧ bufIx 2 = 127 ∧ bufIx 63 = 2079 ∧ bufIx 64 = 2080 := by decide
set_option maxRecDepth 100000 in
example : ((((Flat.new.setNull 2).insert 1 777).insert 0 555).active) = [555, 777] := by decide

/-! ## Part 2: the variations the search reports -/

section search
open Search
variable {σ π : Type} [PsInv σ]

/-- Every reported variation is a sequence of moves playable in turn from the root (the invariant
    behind it: after `alphaBeta … ply` returns, aborted or not, row `ply` of the PV is a legal line
    from the node's position — `alphaBeta_spec`). -/
theorem reported_pv_legal (c : Comp σ π) (L : Limits) (clock : Clock) {Good : Board → Prop} (hl : Laws c Good)
    (fuel : Nat) (e : Engine σ) (b : Board) (hg : Good b) (hok : PsInv.ok e.ps) (nodes0 : Int) :
    ∀ i ∈ (go c L clock fuel e b nodes0).out, LegalLine c.keys b i.pv :=
  (go_post c L clock hl fuel e b hg hok nodes0).out_legal

/-- The move returned is the first move of the most recent non-empty reported variation
    (when output is on and such a line exists; otherwise C06 applies). -/
theorem bestmove_is_head_of_last_nonempty_pv (c : Comp σ π) (L : Limits) (clock : Clock) {Good : Board → Prop}
    (hl : Laws c Good) (fuel : Nat) (e : Engine σ) (b : Board) (hg : Good b) (hok : PsInv.ok e.ps) (nodes0 : Int)
    (ho : L.output = true)
    (i : Info) (hi : lastPV (go c L clock fuel e b nodes0).out = some i) :
    i.pv.head? = some (go c L clock fuel e b nodes0).move :=
  (go_out c L clock hl fuel e b hg hok nodes0).head ho i hi

/-- The ponder move, when given, is playable after the returned move. -/
theorem ponder_legal_after_bestmove (c : Comp σ π) (L : Limits) (clock : Clock) {Good : Board → Prop} (hl : Laws c Good)
    (fuel : Nat) (e : Engine σ) (b : Board) (hg : Good b) (hok : PsInv.ok e.ps) (nodes0 : Int)
    (hp : (go c L clock fuel e b nodes0).ponder ≠ 0) :
    LegalLine c.keys b [(go c L clock fuel e b nodes0).move, (go c L clock fuel e b nodes0).ponder] :=
  ((go_post c L clock hl fuel e b hg hok nodes0).ponder_ok).resolve_left hp

/-- Within one search reported depths strictly increase and reported node counts never decrease
    (`out` is newest first; the abort notice is included). -/
theorem depths_increase_nodes_monotone (c : Comp σ π) (L : Limits) (clock : Clock) {Good : Board → Prop}
    (hl : Laws c Good) (fuel : Nat) (e : Engine σ) (b : Board) (hg : Good b) (hok : PsInv.ok e.ps) (nodes0 : Int) :
    (go c L clock fuel e b nodes0).out.Pairwise fun newer older => older.depth < newer.depth ∧ older.nodes ≤ newer.nodes :=
  (go_out c L clock hl fuel e b hg hok nodes0).sorted

/-- non-vacuity of the hypotheses (see Props/C06.lean for the intended instance). -/
example (K : Keys) : Laws (demoComp K) NoMen ∧ NoMen Board.empty := ⟨demo_laws K, noMen_empty⟩

end search

end ChessVerif.Props.C07

namespace ChessVerif.Props.C07
open ChessVerif Pv

/-- **The hand-written `Pv.bufIx` IS the function of /repo/search/pv.go**: on every int8 argument it
    equals the REGENERATED translation `Gen.Funcs.bufIx` of the Go source (with all of Go's typed
    wrap-around).  A change of the expression in the repository regenerates `Gen/Funcs.lean` and breaks
    this theorem, and with it the tie of `bufIx_rows_disjoint` / `pv_flat_refines_rows` to the code. -/
theorem bufIx_eq_translated :
    ∀ k : Fin 256, Pv.bufIx ((k.val : Int) - 128) = Gen.Funcs.bufIx ((k.val : Int) - 128) := by
  decide +kernel

end ChessVerif.Props.C07
