/-
  C13 — UCI driver: every request answered once under any timing.

  All theorems are about `ChessVerif.Uci.fire` (Spec/UciProtocol.lean, the channel skeleton of
  /repo/uci/uci.go), for EVERY script `sc : List Cmd` and EVERY interleaving
  (`Reachable sc s`: any finite sequence of enabled transitions from `init sc`).  The script is
  protocol-conforming by construction of the environment transition `envLine`: a `go` is written
  only when no `bestmove` is outstanding; every other line, EOF and the timer may come at any time.
  Tie to the code: harness/cmd/uci (trace inclusion through Drv/Uci.lean, race detector on).
-/
import ChessVerif.Proofs.UciCountI
import ChessVerif.Proofs.UciProgress

namespace ChessVerif.Uci

variable {sc : List Cmd} {s : State}

/-- No send on a closed channel, no double close, no negative WaitGroup counter. -/
theorem no_panic (h : Reachable sc s) : s.panic = false :=
  (Inv.reachable h).noPanic

/-- (a) Every line of the script is, in order, either already received by exactly one receiver
    (`consumed` records which), held by the reader, still in stdin, or not yet written.
    (b) `readyok` messages sent so far (delivered, in the writer's hand or buffered in the channel)
    plus the at most two about to be sent = `isready` lines received so far. -/
theorem one_readyok_per_isready (h : Reachable sc s) :
    rcvd s ++ s.reader.held ++ s.pipe ++ s.script = sc ∧
    (rcvd s).countP Cmd.isReady
      = (s.written ++ s.writer.held ++ s.out).countP Msg.isReadyok
        + (if s.handler = .ready then 1 else 0) + (if s.intr = .ready then 1 else 0) := by
  have g := Inv2.reachable h
  exact ⟨g.parts, by rw [← g.fifo, countP_msgsOf_readyok]; exact g.ready⟩

/-- At termination: exactly one `readyok` was delivered per `isready` received. -/
theorem one_readyok_per_isready_final (h : Reachable sc s) (ht : Terminated s) :
    s.written.countP Msg.isReadyok = (rcvd s).countP Cmd.isReady := by
  obtain ⟨_, hh, hw, hi, _⟩ := ht
  have hout := ((Inv.reachable h).wdone hw).2
  have := (one_readyok_per_isready h).2
  simp [hh, hw, hi, hout, Writer.held] at this
  exact this.symm

/-- (a) A `go` line is never received by the interrupt goroutine (so none is dropped).
    (b) `go` lines received = `bestmove` messages sent + 1 if a search is outstanding. -/
theorem one_bestmove_per_go (h : Reachable sc s) :
    (∀ c, (Rcv.intr, c) ∈ s.consumed → c.isGo = false) ∧
    (rcvd s).countP Cmd.isGo
      = (s.written ++ s.writer.held ++ s.out).countP Msg.isBest
        + (if s.handler.busy = true then 1 else 0) := by
  have g := Inv2.reachable h
  refine ⟨fun c hc => ?_, ?_⟩
  · have h0 := g.intrNoGo
    rw [List.countP_eq_zero] at h0
    simpa using h0 _ hc
  · rw [← g.fifo, countP_msgsOf_best, countP_go_rcvd, g.intrNoGo, ← g.goLog, g.bestCount]; rfl

/-- At termination: exactly one `bestmove` was delivered per `go` received. -/
theorem one_bestmove_per_go_final (h : Reachable sc s) (ht : Terminated s) :
    s.written.countP Msg.isBest = (rcvd s).countP Cmd.isGo := by
  obtain ⟨_, hh, hw, _, _⟩ := ht
  have hout := ((Inv.reachable h).wdone hw).2
  have := (one_bestmove_per_go h).2
  simp [hh, hw, hout, Writer.held, Handler.busy] at this
  exact this.symm

/-- The sequence of messages sent on the output channel, with a marker `go` where the handler
    starts a search, stays in the prefix closure of
    `((readyok|other|empty)* go (info|readyok)* bestmove)*`: all `info` lines of a search lie
    between its `go` and its single `bestmove`; the acceptor's state is "a search is outstanding".
    What the sink has received is a prefix of that message sequence. -/
theorem bestmove_after_infos (h : Reachable sc s) :
    runPhase false s.log = some s.handler.busy ∧ s.written <+: msgsOf s.log := by
  have g := Inv2.reachable h
  exact ⟨g.phase, by rw [g.fifo, List.append_assoc]; exact List.prefix_append _ _⟩

/-- Output lines are never torn: a message (one `Write` on `d.output`) travels as one element of
    the one output channel, the channel is FIFO and has a single consumer, so
    (a) the sink's content is always a sequence of whole messages, in the order they were sent:
        delivered ++ in the writer's hand ++ buffered = everything sent;
    (b) the only transition that changes the sink's content is the writer's `wSink`, appending
        exactly the one whole message it holds. -/
theorem no_torn_lines (h : Reachable sc s) :
    msgsOf s.log = s.written ++ s.writer.held ++ s.out ∧
    ∀ t s', fire t s = some s' →
      s'.written = s.written ∨ (t = .wSink ∧ ∃ m, s.writer = .write m ∧ s'.written = s.written ++ [m]) :=
  ⟨(Inv2.reachable h).fifo, fun _ _ hf => written_step hf⟩

/-- Deadlock freedom.  In every reachable state some transition other than a voluntary step of
    the search (`sInfo`, `sDone`, `sAbortSelf`, `sPollHit`) is enabled, or everything has
    terminated.  The two environment assumptions are the transitions `hStop` (the search returns
    once `stop` is closed) and `wSink` (the sink accepts writes). -/
theorem deadlock_free (h : Reachable sc s) :
    (∃ t : Tr, t.kind ≠ .searchOwn ∧ (fire t s).isSome = true) ∨ Terminated s := by
  by_cases ha : AwaitingInput s
  · exact Or.inl ⟨.envEof, by decide, by simp [fire, ha.2.2]⟩
  · rcases progress (Inv.reachable h) ha with ⟨t, hk, hs⟩ | ht
    · exact Or.inl ⟨t, by rw [hk]; decide, hs⟩
    · exact Or.inr ht

/-- Stronger form used by both liveness-free theorems: unless the reader sits in `Scan` with
    nothing buffered and stdin still open (i.e. the driver is waiting for the GUI), one of the
    driver's own goroutines can step — no help from the environment or the search is needed. -/
theorem deadlock_free_internal (h : Reachable sc s) (ha : ¬ AwaitingInput s) :
    InternalEnabled s ∨ Terminated s :=
  progress (Inv.reachable h) ha

/-- After `quit` has been received (by the handler or by the interrupt goroutine), or after the
    GUI closed stdin, the driver can always take a step of its own until it has fully terminated:
    the only stuck states are the terminated ones (all goroutines ended, `Run` returned). -/
theorem quit_or_eof_terminates (h : Reachable sc s)
    (hq : (∃ r, (r, Cmd.quit) ∈ s.consumed) ∨ s.pipeEof = true) :
    InternalEnabled s ∨ Terminated s := by
  apply progress (Inv.reachable h)
  rintro ⟨hs, _, he⟩
  rcases hq with hq | hq
  · rcases QuitInv.reachable h hq with hr | hr <;> simp [hr] at hs
  · simp [he] at hq

/-! ### Non-vacuity: concrete reachable states -/

/-- Script `[isready, go, stop, quit]`: `isready` answered by the handler, the search started,
    one `info`, `stop` received by the interrupt goroutine, the search aborts with its final `info`,
    `bestmove` after `wg.Wait`, `quit` received by the handler, everything terminates. -/
def exScript : List Cmd := [.isready, .go false false, .stop, .quit]

def exRun : List Tr :=
  [.envLine, .envLine, .envLine, .envLine, .rScan, .hRecv, .hReady, .wRecv, .wSink,
   .rScan, .hRecv, .sInfo, .rScan, .iRecv, .iExit, .hStop, .hAbortInfo, .hCloseFin, .hWait, .hBest,
   .hDefer, .wRecv, .wSink, .wRecv, .wSink, .wRecv, .wSink,
   .rScan, .hRecv, .rClose, .hClosed, .hCloseOut, .wDone, .mReturn]

instance (s : State) : Decidable (Terminated s) := by unfold Terminated; infer_instance

example : ∃ s, Reachable exScript s ∧ Terminated s ∧
    s.written = [.readyok, .info, .info, .bestmove] ∧
    s.consumed = [(.handler, .isready), (.handler, .go false false), (.intr, .stop), (.handler, .quit)] := by
  have h : (run exRun (init exScript)).map (fun s => (decide (Terminated s), s.written, s.consumed))
      = some (true, [.readyok, .info, .info, .bestmove],
          [(.handler, .isready), (.handler, .go false false), (.intr, .stop), (.handler, .quit)]) := by
    decide
  cases hs : run exRun (init exScript) with
  | none => simp [hs] at h
  | some s =>
    simp only [hs, Option.map_some, Option.some.injEq, Prod.mk.injEq, decide_eq_true_eq] at h
    exact ⟨s, reachable_run _ .init hs, h.1, h.2.1, h.2.2⟩

/-- Script `[go ponder (timed), isready, ponderhit]` then EOF: `isready` and `ponderhit` are
    received by the interrupt goroutine (readyok comes from there, before `bestmove`), the search
    polls the ponderhit, ends by itself, the interrupt goroutine leaves through `searchFin`,
    `bestmove`, `close(ponderHit)`, EOF ends everything. -/
def exScript2 : List Cmd := [.go true true, .isready, .ponderhit]

def exRun2 : List Tr :=
  [.envLine, .envLine, .envLine, .envEof, .rScan, .hRecv, .rScan, .iRecv, .iReady, .rScan, .iRecv, .iHit,
   .sPollHit, .sInfo, .sDone, .hCloseFin, .iFin, .iExit, .hWait, .hBest, .hDefer,
   .rEof, .rClose, .hClosed, .hCloseOut, .wRecv, .wSink, .wRecv, .wSink, .wRecv, .wSink, .wDone, .mReturn]

example : ∃ s, Reachable exScript2 s ∧ Terminated s ∧
    s.written = [.readyok, .info, .bestmove] ∧
    s.consumed = [(.handler, .go true true), (.intr, .isready), (.intr, .ponderhit)] := by
  have h : (run exRun2 (init exScript2)).map (fun s => (decide (Terminated s), s.written, s.consumed))
      = some (true, [.readyok, .info, .bestmove],
          [(.handler, .go true true), (.intr, .isready), (.intr, .ponderhit)]) := by
    decide
  cases hs : run exRun2 (init exScript2) with
  | none => simp [hs] at h
  | some s =>
    simp only [hs, Option.map_some, Option.some.injEq, Prod.mk.injEq, decide_eq_true_eq] at h
    exact ⟨s, reachable_run _ .init hs, h.1, h.2.1, h.2.2⟩

/-- A reachable non-terminated state in the middle of a search (hypotheses of `deadlock_free`,
    `one_bestmove_per_go` with an outstanding search): after `go`, the search running, the
    interrupt goroutine selecting, and the hypothesis of `quit_or_eof_terminates` (stdin closed). -/
example : ∃ s, Reachable [.go false false] s ∧ s.handler = .search ∧ s.intr = .select ∧
    s.pipeEof = true ∧ ¬ Terminated s := by
  have h : (run [.envLine, .envEof, .rScan, .hRecv] (init [.go false false])).map
      (fun s => (s.handler, s.intr, s.pipeEof, decide (Terminated s))) = some (.search, .select, true, false) := by
    decide
  cases hs : run [.envLine, .envEof, .rScan, .hRecv] (init [.go false false]) with
  | none => simp [hs] at h
  | some s =>
    simp only [hs, Option.map_some, Option.some.injEq, Prod.mk.injEq, decide_eq_false_iff_not] at h
    exact ⟨s, reachable_run _ .init hs, h.1, h.2.1, h.2.2.1, h.2.2.2⟩

end ChessVerif.Uci
