/-
  C13 — UCI driver: every request answered once under any timing.

  All theorems are about `ChessVerif.Uci.fire` (Spec/UciProtocol.lean, the channel skeleton of
  /repo/uci/uci.go), for EVERY script `sc : List Cmd` and EVERY interleaving
  (`Reachable sc s`: any finite sequence of enabled transitions from `init sc`).  The script is
  protocol-conforming by construction of the environment transition `envLine`: a `go` is written
  only when no `bestmove` is outstanding; every other line, EOF and the timer may come at any time.
  Tie to the code: harness/cmd/uci (trace inclusion through Drv/Uci.lean, race detector on).
-/
import ChessVerif.Proofs.UciCountI
import ChessVerif.Proofs.UciProgress
import ChessVerif.Proofs.UciTerminationQ

namespace ChessVerif.Uci

variable {sc : List Cmd} {s : State}

/-- No send on a closed channel, no double close, no negative WaitGroup counter. -/
theorem no_panic (h : Reachable sc s) : s.panic = false :=
  (Inv.reachable h).noPanic

/-- (a) Every line of the script is, in order, either already received by exactly one receiver
    (`consumed` records which), held by the reader, still in stdin, or not yet written.
    (b) `readyok` messages sent so far (delivered, in the writer's hand or buffered in the channel)
    plus the at most two about to be sent = `isready` lines received so far. -/
theorem one_readyok_per_isready (h : Reachable sc s) :
    rcvd s ++ s.reader.held ++ s.pipe ++ s.script = sc ∧
    (rcvd s).countP Cmd.isReady
      = (s.written ++ s.writer.held ++ s.out).countP Msg.isReadyok
        + (if s.handler = .ready then 1 else 0) + (if s.intr = .ready then 1 else 0) := by
  have g := Inv2.reachable h
  exact ⟨g.parts, by rw [← g.fifo, countP_msgsOf_readyok]; exact g.ready⟩

/-- At termination: exactly one `readyok` was delivered per `isready` received. -/
theorem one_readyok_per_isready_final (h : Reachable sc s) (ht : Terminated s) :
    s.written.countP Msg.isReadyok = (rcvd s).countP Cmd.isReady := by
  obtain ⟨_, hh, hw, hi, _⟩ := ht
  have hout := ((Inv.reachable h).wdone hw).2
  have := (one_readyok_per_isready h).2
  simp [hh, hw, hi, hout, Writer.held] at this
  exact this.symm

/-- (a) A `go` line is never received by the interrupt goroutine (so none is dropped).
    (b) `go` lines received = `bestmove` messages sent + 1 if a search is outstanding. -/
theorem one_bestmove_per_go (h : Reachable sc s) :
    (∀ c, (Rcv.intr, c) ∈ s.consumed → c.isGo = false) ∧
    (rcvd s).countP Cmd.isGo
      = (s.written ++ s.writer.held ++ s.out).countP Msg.isBest
        + (if s.handler.busy = true then 1 else 0) := by
  have g := Inv2.reachable h
  refine ⟨fun c hc => ?_, ?_⟩
  · have h0 := g.intrNoGo
    rw [List.countP_eq_zero] at h0
    simpa using h0 _ hc
  · rw [← g.fifo, countP_msgsOf_best, countP_go_rcvd, g.intrNoGo, ← g.goLog, g.bestCount]; rfl

/-- At termination: exactly one `bestmove` was delivered per `go` received. -/
theorem one_bestmove_per_go_final (h : Reachable sc s) (ht : Terminated s) :
    s.written.countP Msg.isBest = (rcvd s).countP Cmd.isGo := by
  obtain ⟨_, hh, hw, _, _⟩ := ht
  have hout := ((Inv.reachable h).wdone hw).2
  have := (one_bestmove_per_go h).2
  simp [hh, hw, hout, Writer.held, Handler.busy] at this
  exact this.symm

/-- The sequence of messages sent on the output channel, with a marker `go` where the handler
    starts a search, stays in the prefix closure of
    `((readyok|other|empty)* go (info|readyok)* bestmove)*`: all `info` lines of a search lie
    between its `go` and its single `bestmove`; the acceptor's state is "a search is outstanding".
    What the sink has received is a prefix of that message sequence. -/
theorem bestmove_after_infos (h : Reachable sc s) :
    runPhase false s.log = some s.handler.busy ∧ s.written <+: msgsOf s.log := by
  have g := Inv2.reachable h
  exact ⟨g.phase, by rw [g.fifo, List.append_assoc]; exact List.prefix_append _ _⟩

/-- Output lines are never torn: a message (one `Write` on `d.output`) travels as one element of
    the one output channel, the channel is FIFO and has a single consumer, so
    (a) the sink's content is always a sequence of whole messages, in the order they were sent:
        delivered ++ in the writer's hand ++ buffered = everything sent;
    (b) the only transition that changes the sink's content is the writer's `wSink`, appending
        exactly the one whole message it holds. -/
theorem no_torn_lines (h : Reachable sc s) :
    msgsOf s.log = s.written ++ s.writer.held ++ s.out ∧
    ∀ t s', fire t s = some s' →
      s'.written = s.written ∨ (t = .wSink ∧ ∃ m, s.writer = .write m ∧ s'.written = s.written ++ [m]) :=
  ⟨(Inv2.reachable h).fifo, fun _ _ hf => written_step hf⟩

/-- Deadlock freedom.  In every reachable state some transition other than a voluntary step of
    the search (`sInfo`, `sDone`, `sAbortSelf`, `sPollHit`) is enabled, or everything has
    terminated.  The two environment assumptions are the transitions `hStop` (the search returns
    once `stop` is closed) and `wSink` (the sink accepts writes). -/
theorem deadlock_free (h : Reachable sc s) :
    (∃ t : Tr, t.kind ≠ .searchOwn ∧ (fire t s).isSome = true) ∨ Terminated s := by
  by_cases ha : AwaitingInput s
  · exact Or.inl ⟨.envEof, by decide, by simp [fire, ha.2.2]⟩
  · rcases progress (Inv.reachable h) ha with ⟨t, hk, hs⟩ | ht
    · exact Or.inl ⟨t, by rw [hk]; decide, hs⟩
    · exact Or.inr ht

/-- Stronger form used by both liveness-free theorems: unless the reader sits in `Scan` with
    nothing buffered and stdin still open (i.e. the driver is waiting for the GUI), one of the
    driver's own goroutines can step — no help from the environment or the search is needed. -/
theorem deadlock_free_internal (h : Reachable sc s) (ha : ¬ AwaitingInput s) :
    InternalEnabled s ∨ Terminated s :=
  progress (Inv.reachable h) ha

/-- After `quit` has been received (by the handler or by the interrupt goroutine), or after the
    GUI closed stdin, the driver can always take a step of its own until it has fully terminated:
    the only stuck states are the terminated ones (all goroutines ended, `Run` returned). -/
theorem quit_or_eof_terminates (h : Reachable sc s)
    (hq : (∃ r, (r, Cmd.quit) ∈ s.consumed) ∨ s.pipeEof = true) :
    InternalEnabled s ∨ Terminated s := by
  apply progress (Inv.reachable h)
  rintro ⟨hs, _, he⟩
  rcases hq with hq | hq
  · rcases QuitInv.reachable h hq with hr | hr <;> simp [hr] at hs
  · simp [he] at hq

/-! ### Non-vacuity: concrete reachable states -/

/-- Script `[isready, go, stop, quit]`: `isready` answered by the handler, the search started,
    one `info`, `stop` received by the interrupt goroutine, the search aborts with its final `info`,
    `bestmove` after `wg.Wait`, `quit` received by the handler, everything terminates. -/
def exScript : List Cmd := [.isready, .go false false, .stop, .quit]

def exRun : List Tr :=
  [.envLine, .envLine, .envLine, .envLine, .rScan, .hRecv, .hReady, .wRecv, .wSink,
   .rScan, .hRecv, .sInfo, .rScan, .iRecv, .iExit, .hStop, .hAbortInfo, .hCloseFin, .hWait, .hBest,
   .hDefer, .wRecv, .wSink, .wRecv, .wSink, .wRecv, .wSink,
   .rScan, .hRecv, .rClose, .hClosed, .hCloseOut, .wDone, .mReturn]

instance (s : State) : Decidable (Terminated s) := by unfold Terminated; infer_instance

example : ∃ s, Reachable exScript s ∧ Terminated s ∧
    s.written = [.readyok, .info, .info, .bestmove] ∧
    s.consumed = [(.handler, .isready), (.handler, .go false false), (.intr, .stop), (.handler, .quit)] := by
  have h : (run exRun (init exScript)).map (fun s => (decide (Terminated s), s.written, s.consumed))
      = some (true, [.readyok, .info, .info, .bestmove],
          [(.handler, .isready), (.handler, .go false false), (.intr, .stop), (.handler, .quit)]) := by
    decide
  cases hs : run exRun (init exScript) with
  | none => simp [hs] at h
  | some s =>
    simp only [hs, Option.map_some, Option.some.injEq, Prod.mk.injEq, decide_eq_true_eq] at h
    exact ⟨s, reachable_run _ .init hs, h.1, h.2.1, h.2.2⟩

/-- Script `[go ponder (timed), isready, ponderhit]` then EOF: `isready` and `ponderhit` are
    received by the interrupt goroutine (readyok comes from there, before `bestmove`), the search
    polls the ponderhit, ends by itself, the interrupt goroutine leaves through `searchFin`,
    `bestmove`, `close(ponderHit)`, EOF ends everything. -/
def exScript2 : List Cmd := [.go true true, .isready, .ponderhit]

def exRun2 : List Tr :=
  [.envLine, .envLine, .envLine, .envEof, .rScan, .hRecv, .rScan, .iRecv, .iReady, .rScan, .iRecv, .iHit,
   .sPollHit, .sInfo, .sDone, .hCloseFin, .iFin, .iExit, .hWait, .hBest, .hDefer,
   .rEof, .rClose, .hClosed, .hCloseOut, .wRecv, .wSink, .wRecv, .wSink, .wRecv, .wSink, .wDone, .mReturn]

example : ∃ s, Reachable exScript2 s ∧ Terminated s ∧
    s.written = [.readyok, .info, .bestmove] ∧
    s.consumed = [(.handler, .go true true), (.intr, .isready), (.intr, .ponderhit)] := by
  have h : (run exRun2 (init exScript2)).map (fun s => (decide (Terminated s), s.written, s.consumed))
      = some (true, [.readyok, .info, .bestmove],
          [(.handler, .go true true), (.intr, .isready), (.intr, .ponderhit)]) := by
    decide
  cases hs : run exRun2 (init exScript2) with
  | none => simp [hs] at h
  | some s =>
    simp only [hs, Option.map_some, Option.some.injEq, Prod.mk.injEq, decide_eq_true_eq] at h
    exact ⟨s, reachable_run _ .init hs, h.1, h.2.1, h.2.2⟩

/-- A reachable non-terminated state in the middle of a search (hypotheses of `deadlock_free`,
    `one_bestmove_per_go` with an outstanding search): after `go`, the search running, the
    interrupt goroutine selecting, and the hypothesis of `quit_or_eof_terminates` (stdin closed). -/
example : ∃ s, Reachable [.go false false] s ∧ s.handler = .search ∧ s.intr = .select ∧
    s.pipeEof = true ∧ ¬ Terminated s := by
  have h : (run [.envLine, .envEof, .rScan, .hRecv] (init [.go false false])).map
      (fun s => (s.handler, s.intr, s.pipeEof, decide (Terminated s))) = some (.search, .select, true, false) := by
    decide
  cases hs : run [.envLine, .envEof, .rScan, .hRecv] (init [.go false false]) with
  | none => simp [hs] at h
  | some s =>
    simp only [hs, Option.map_some, Option.some.injEq, Prod.mk.injEq, decide_eq_false_iff_not] at h
    exact ⟨s, reachable_run _ .init hs, h.1, h.2.1, h.2.2.1, h.2.2.2⟩

end ChessVerif.Uci

/-! ## Liveness

The theorems above say that nothing bad happens and that a non-terminated driver can always move.
The theorems below say that it actually ARRIVES: executions are finite, and where they end every
request has been answered.

* Measure: `mu : State → Nat` (Proofs/UciTermination.lean) — pending lines weighted by the cost of
  their handling, control distance of every goroutine to its exit, 2 per buffered output message,
  1 for an open stdin, 1 for an unpolled `PonderHit`.
* NO fairness assumption is needed: in every reachable state EVERY transition of the model except
  `sInfo` strictly decreases `mu` — the 26 internal ones, the GUI's `envLine` / `envEof`, the
  `timer`, and the search's `sDone`, `sAbortSelf`, `sPollHit`.  `sInfo` (the search prints an
  `info` line) raises it by 2.
* Environment assumptions, all explicit:
    E1  the search prints finitely many `info` lines (`nInfo lab k ≤ N` / `searchSteps ts ≤ N`);
    E2  a scheduler idles (`lab i = none`) only when no goroutine of the driver can step
        (`Quiescent`): runnable goroutines run.  This contains the two assumptions built into
        the model's transitions `hStop` (the search polls a closed `stop`) and `wSink` (the sink
        accepts a write);
    E3  (for `liveness` only) it idles only when moreover the GUI has nothing left that it may
        write and no search is running (`AtRest`): the GUI writes its script, and a search that
        is not stopped reaches a limit of its own or has its timer fire.  Without E3 the end
        state may legitimately contain a running search (`go infinite`, no `stop`):
        `unanswered_go_characterised`.
-/

namespace ChessVerif.Uci

variable {sc : List Cmd} {s s' : State}

/-- **Termination measure.**  In every reachable state every internal transition strictly
    decreases `mu`; so do the environment's transitions and the search's `sDone`, `sAbortSelf`,
    `sPollHit`; the search's `sInfo` raises it by exactly 2. -/
theorem termination_measure (h : Reachable sc s) {t : Tr} (hf : fire t s = some s') :
    (t.kind = .internal → mu s' < mu s) ∧ (t.kind = .env → mu s' < mu s) ∧
    (t ≠ .sInfo → mu s' < mu s) ∧ (t = .sInfo → mu s' = mu s + 2) :=
  ⟨fun hk => mu_internal_lt (Inv.reachable h) hk hf, fun hk => mu_env_lt (Inv.reachable h) hk hf,
   fun ht => mu_step_lt (Inv.reachable h) ht hf, fun ht => by subst ht; exact mu_sInfo (Inv.reachable h) hf⟩

/-- **No infinite internal run.**  From every reachable state, every transition sequence (any
    scheduler; internal steps, and also GUI / timer steps) that contains at most `N` steps of the
    search has length at most `mu s + 3·N`. -/
theorem no_infinite_internal_run (h : Reachable sc s) {ts : List Tr} (hr : run ts s = some s')
    {N : Nat} (hN : searchSteps ts ≤ N) : ts.length ≤ mu s + 3 * N := by
  have h1 := run_length_bound (Inv.reachable h) hr
  have h2 := infoSteps_le_searchSteps ts
  omega

/-- Whole executions: every execution of the system on script `sc` has length at most
    (cost of the script) + 7 + 3 · (number of `info` lines printed). -/
theorem execution_length_bound {ts : List Tr} (hr : run ts (init sc) = some s') :
    ts.length ≤ lineW 3 sc + 7 + 3 * infoSteps ts := by
  have h1 := run_length_bound (Inv.init sc) hr
  rw [mu_init] at h1
  omega

/-- The internal step relation is well-founded on reachable states. -/
theorem internal_steps_wellFounded :
    WellFounded (fun s' s : State => Reachable sc s ∧ ∃ t : Tr, t.kind = .internal ∧ fire t s = some s') :=
  Subrelation.wf (fun ⟨h, ht⟩ => ⟨Inv.reachable h, ht⟩) internal_wellFounded

/-- From every reachable state the driver's own goroutines alone reach a quiescent state. -/
theorem quiescence_reachable (h : Reachable sc s) :
    ∃ ts s', (∀ t ∈ ts, t.kind = .internal) ∧ run ts s = some s' ∧ Reachable sc s' ∧ Quiescent s' := by
  obtain ⟨ts, s', h1, h2, h3⟩ := exists_internal_run_to_quiescent (Inv.reachable h)
  exact ⟨ts, s', h1, h2, reachable_run ts h h2, h3⟩

/-- **Answer liveness.**  In every reachable quiescent state in which every started search has
    been asked to stop (or has ended — then the handler is not in `search` at all):
    `bestmove` lines delivered = `go` lines received, `readyok` delivered = `isready` received,
    everything sent has been delivered, and the whole output is a complete word of
    `((readyok|other|empty)* go (info|readyok)* bestmove)*` (each search's infos before its one
    bestmove); the state is awaiting input or terminated. -/
theorem every_go_answered_at_quiescence (h : Reachable sc s) (hq : Quiescent s)
    (hstop : s.handler = .search → s.stopClosed = true) :
    s.written.countP Msg.isBest = (rcvd s).countP Cmd.isGo ∧
    s.written.countP Msg.isReadyok = (rcvd s).countP Cmd.isReady ∧
    s.written = msgsOf s.log ∧ runPhase false s.log = some false ∧
    (AwaitingInput s ∨ Terminated s) := by
  have hns : s.handler ≠ .search := by
    intro hs
    have := (quiescent_search_running h hq hs).1
    simp [hstop hs] at this
  have hb := quiescent_bestmove h hq
  simp only [hns, if_false, Nat.add_zero] at hb
  exact ⟨hb, quiescent_readyok h hq, quiescent_delivered h hq, (quiescent_language h hq hns).1,
    quiescent_awaiting_or_terminated (Inv.reachable h) hq⟩

/-- Every `isready` is answered at quiescence, with or without a running search. -/
theorem every_isready_answered_at_quiescence (h : Reachable sc s) (hq : Quiescent s) :
    s.written.countP Msg.isReadyok = (rcvd s).countP Cmd.isReady :=
  quiescent_readyok h hq

/-- The exception, exactly: a quiescent state has an unanswered `go` iff the handler is inside the
    search; then it is exactly one, `stop` has not been requested, the interrupt goroutine is in
    its `select` and the reader waits for the GUI. -/
theorem unanswered_go_characterised (h : Reachable sc s) (hq : Quiescent s) :
    (s.written.countP Msg.isBest ≠ (rcvd s).countP Cmd.isGo ↔ s.handler = .search) ∧
    (s.handler = .search →
      s.written.countP Msg.isBest + 1 = (rcvd s).countP Cmd.isGo ∧
      s.stopClosed = false ∧ s.intr = .select ∧ AwaitingInput s) := by
  have hb := quiescent_bestmove h hq
  refine ⟨?_, fun hs => ?_⟩
  · by_cases hs : s.handler = .search <;> simp [hs] at hb ⊢ <;> omega
  · simp only [hs, if_true] at hb
    exact ⟨hb, quiescent_search_running h hq hs⟩

/-- **Quiescence is reached under any scheduler.**  Take any infinite behaviour from a reachable
    state in which the scheduler idles only when no goroutine of the driver can step (E2) and the
    search takes at most `N` steps (E1).  Then at most `mu (ρ 0) + 3·N` transitions ever fire, and
    within that many steps a state is reached that is quiescent — terminated or awaiting input —
    with every `isready` answered and every `go` answered except a search still running
    un-stopped. -/
theorem reaches_quiescence_under_any_scheduler {ρ : Nat → State} {lab : Nat → Option Tr} {N : Nat}
    (h0 : Reachable sc (ρ 0)) (hb : Behaviour Quiescent ρ lab) (hN : ∀ k, nSearch lab k ≤ N) :
    (∀ k, nSteps lab k ≤ mu (ρ 0) + 3 * N) ∧
    ∃ i, i ≤ mu (ρ 0) + 3 * N ∧ Reachable sc (ρ i) ∧ Quiescent (ρ i) ∧
      (Terminated (ρ i) ∨ AwaitingInput (ρ i)) ∧
      (ρ i).written.countP Msg.isReadyok = (rcvd (ρ i)).countP Cmd.isReady ∧
      (ρ i).written.countP Msg.isBest + (if (ρ i).handler = .search then 1 else 0)
        = (rcvd (ρ i)).countP Cmd.isGo := by
  have hN' : ∀ k, nInfo lab k ≤ N := fun k => Nat.le_trans (nInfo_le_nSearch lab k) (hN k)
  refine ⟨hb.steps_le (Inv.reachable h0) hN', ?_⟩
  obtain ⟨i, hi, _, hq⟩ := hb.reaches (Inv.reachable h0) hN'
  have hr := hb.reachable h0 i
  exact ⟨i, hi, hr, hq, (quiescent_awaiting_or_terminated (Inv.reachable hr) hq).symm,
    quiescent_readyok hr hq, quiescent_bestmove hr hq⟩

/-- **`quit` / end of input: termination is REACHED.**  From any reachable state in which `quit`
    has been received or stdin has been closed, under any scheduler (E2) and provided the search
    prints at most `N` further info lines (E1), within `mu (ρ 0) + 3·N` steps the driver is
    terminated — reader, handler, writer ended, no interrupt goroutine, `Run` returned — with
    exactly one delivered `bestmove` per received `go` and one `readyok` per received `isready`. -/
theorem quit_or_eof_reaches_terminated {ρ : Nat → State} {lab : Nat → Option Tr} {N : Nat}
    (h0 : Reachable sc (ρ 0)) (hb : Behaviour Quiescent ρ lab) (hN : ∀ k, nInfo lab k ≤ N)
    (he : (∃ r, (r, Cmd.quit) ∈ (ρ 0).consumed) ∨ (ρ 0).pipeEof = true) :
    ∃ i, i ≤ mu (ρ 0) + 3 * N ∧ Reachable sc (ρ i) ∧ Terminated (ρ i) ∧
      (ρ i).written.countP Msg.isBest = (rcvd (ρ i)).countP Cmd.isGo ∧
      (ρ i).written.countP Msg.isReadyok = (rcvd (ρ i)).countP Cmd.isReady := by
  obtain ⟨i, hi, _, hq⟩ := hb.reaches (Inv.reachable h0) hN
  have hr := hb.reachable h0 i
  have ht := quiescent_terminated_of_quit_or_eof hr hq (hb.persist i he)
  exact ⟨i, hi, hr, ht, one_bestmove_per_go_final hr ht, one_readyok_per_isready_final hr ht⟩

/-- **Liveness.**  For every script `sc`, every scheduler and every timing: take any infinite
    behaviour from `init sc` in which the search prints at most `N` info lines (E1) and the
    scheduler idles only in states where no goroutine of the driver can step, the GUI has nothing
    left that it may write, and no search is running (E2, E3).  Then within
    `lineW 3 sc + 7 + 3·N` steps the system is in a state where
      * each received `go` has exactly one delivered `bestmove`, each received `isready` exactly one
        delivered `readyok`;
      * all output has been delivered and is a complete word of
        `((readyok|other|empty)* go (info|readyok)* bestmove)*`: the infos of a search precede its
        bestmove;
      * either the driver has terminated with all its goroutines, or every line of the script has
        been received (`rcvd = sc`, so the counts are those of the script) and the driver awaits input;
      * if the script contains `quit`, or stdin has been closed, it has terminated. -/
theorem liveness {ρ : Nat → State} {lab : Nat → Option Tr} {N : Nat}
    (h0 : ρ 0 = init sc) (hb : Behaviour AtRest ρ lab) (hN : ∀ k, nInfo lab k ≤ N) :
    ∃ i, i ≤ lineW 3 sc + 7 + 3 * N ∧ Reachable sc (ρ i) ∧
      (ρ i).written.countP Msg.isBest = (rcvd (ρ i)).countP Cmd.isGo ∧
      (ρ i).written.countP Msg.isReadyok = (rcvd (ρ i)).countP Cmd.isReady ∧
      (ρ i).written = msgsOf (ρ i).log ∧ runPhase false (ρ i).log = some false ∧
      (Terminated (ρ i) ∨ (AwaitingInput (ρ i) ∧ (ρ i).script = [] ∧ rcvd (ρ i) = sc)) ∧
      (Cmd.quit ∈ sc ∨ (ρ i).pipeEof = true → Terminated (ρ i)) := by
  have hinv : Inv (ρ 0) := h0 ▸ Inv.init sc
  have hr0 : Reachable sc (ρ 0) := h0 ▸ Reachable.init
  obtain ⟨i, hi, _, hs, hns⟩ := hb.reaches hinv hN
  rw [h0, mu_init] at hi
  have hr := hb.reachable hr0 i
  have ha := every_go_answered_at_quiescence hr hs.1 (fun h => absurd h hns)
  refine ⟨i, hi, hr, ha.1, ha.2.1, ha.2.2.1, ha.2.2.2.1, settled_cases hr hs hns, ?_⟩
  rintro (hq | he)
  · exact settled_quit_terminated hr hs hns hq
  · exact quiescent_terminated_of_quit_or_eof hr hs.1 (.inr he)

/-- The state reached in `liveness` is final: the only transition of the whole system still enabled
    is the GUI closing stdin (after which `quit_or_eof_reaches_terminated` applies). -/
theorem at_rest_only_eof (h : Reachable sc s) (hr : AtRest s) {t : Tr} (hf : fire t s = some s') :
    t = .envEof :=
  atRest_only_eof (Inv.reachable h) hr hf

/-! ### Non-vacuity of the liveness theorems -/

/-- `go`, `stop` (no `quit`, stdin stays open): the hypotheses of `liveness` hold for the behaviour
    "run `exRunA`, then idle" with `N = 1`. -/
def exScriptA : List Cmd := [.go false false, .stop]

def exRunA : List Tr :=
  [.envLine, .envLine, .rScan, .hRecv, .sInfo, .rScan, .iRecv, .iExit, .hStop, .hAbortInfo, .hCloseFin,
   .hWait, .hBest, .hDefer, .wRecv, .wSink, .wRecv, .wSink, .wRecv, .wSink]

example : ∃ ρ lab, ρ 0 = init exScriptA ∧ Behaviour AtRest ρ lab ∧ ∀ k, nInfo lab k ≤ 1 :=
  atRest_example (ts := exRunA) (by decide)

/-- … and its end state: awaiting input, whole script received, `info info bestmove` delivered
    (hypotheses of `every_go_answered_at_quiescence`). -/
example : ∃ s, Reachable exScriptA s ∧
    (quiescentB s = true ∧ s.handler = .recv ∧ s.reader = .scan ∧ s.pipe = [] ∧ s.pipeEof = false ∧
      s.written = [.info, .info, .bestmove] ∧ rcvd s = exScriptA) :=
  run_example (ts := exRunA) (by decide)

/-- `go ponder`, `isready`, `ponderhit`, EOF (`exRun2` above): behaviour for `liveness`, `N = 1`;
    ends terminated. -/
example : ∃ ρ lab, ρ 0 = init exScript2 ∧ Behaviour AtRest ρ lab ∧ ∀ k, nInfo lab k ≤ 1 :=
  atRest_example (ts := exRun2) (by decide)

/-- `isready` during a search: answered by the interrupt goroutine before the `bestmove`. -/
def exScriptC : List Cmd := [.go false true, .isready, .stop]

def exRunC : List Tr :=
  [.envLine, .envLine, .envLine, .rScan, .hRecv, .rScan, .iRecv, .iReady, .rScan, .iRecv, .iExit, .hStop,
   .hAbortInfo, .hCloseFin, .hWait, .hBest, .hDefer, .wRecv, .wSink, .wRecv, .wSink, .wRecv, .wSink]

example : ∃ ρ lab, ρ 0 = init exScriptC ∧ Behaviour AtRest ρ lab ∧ ∀ k, nInfo lab k ≤ 0 :=
  atRest_example (ts := exRunC) (by decide)

example : ∃ s, Reachable exScriptC s ∧
    (quiescentB s = true ∧ s.handler = .recv ∧ s.written = [.readyok, .info, .bestmove] ∧
      s.consumed = [(.handler, .go false true), (.intr, .isready), (.intr, .stop)]) :=
  run_example (ts := exRunC) (by decide)

/-- `quit` during a search: received by the interrupt goroutine, which closes `stop`; the search
    aborts, `bestmove`, the reader closes `inputLines`, everything terminates. -/
def exScriptD : List Cmd := [.go false false, .quit]

def exRunD : List Tr :=
  [.envLine, .envLine, .rScan, .hRecv, .rScan, .iRecv, .iExit, .hStop, .hAbortInfo, .hCloseFin, .hWait,
   .hBest, .hDefer, .rClose, .hClosed, .hCloseOut, .wRecv, .wSink, .wRecv, .wSink, .wDone, .mReturn]

example : ∃ ρ lab, ρ 0 = init exScriptD ∧ Behaviour AtRest ρ lab ∧ ∀ k, nInfo lab k ≤ 0 :=
  atRest_example (ts := exRunD) (by decide)

example : ∃ s, Reachable exScriptD s ∧
    (Terminated s ∧ s.written = [.info, .bestmove] ∧
      s.consumed = [(.handler, .go false false), (.intr, .quit)]) :=
  run_example (ts := exRunD) (by decide)

/-- Hypotheses of `quit_or_eof_reaches_terminated`: the state right after the interrupt goroutine
    received `quit` (search running, nothing terminated yet), and a behaviour from `init` that
    idles only in quiescent states. -/
example : ∃ s, Reachable exScriptD s ∧
    ((Rcv.intr, Cmd.quit) ∈ s.consumed ∧ s.handler = .search ∧ ¬ Terminated s) :=
  run_example (ts := exRunD.take 6) (by decide)

example : ∃ ρ lab, ρ 0 = init exScriptD ∧ Behaviour Quiescent ρ lab ∧ ∀ k, nInfo lab k ≤ 0 :=
  quiescent_example (ts := exRunD) (by decide)

/-- The exception of `unanswered_go_characterised` is real: `go` (infinite) and nothing else —
    quiescent, the search running, `stop` open, zero `bestmove` for one `go`. -/
example : ∃ s, Reachable [.go false false] s ∧
    (quiescentB s = true ∧ s.handler = .search ∧ s.stopClosed = false ∧ s.intr = .select ∧
      s.written = [] ∧ rcvd s = [.go false false]) :=
  run_example (ts := [.envLine, .rScan, .hRecv]) (by decide)

/-- The measure on a concrete run: `mu (init exScript) = 35`, the 34-step run `exRun` (one `sInfo`)
    ends terminated with measure 1 (stdin still open); `34 + 1 ≤ 35 + 3·1` (`run_length_bound`). -/
example : mu (init exScript) = 35 ∧ (run exRun (init exScript)).map mu = some 1 ∧
    exRun.length = 34 ∧ infoSteps exRun = 1 := by decide

end ChessVerif.Uci
