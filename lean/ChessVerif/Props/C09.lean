/-
  Property C09 — direct mate / stalemate tests.

  "For every valid position whose en-passant target is recorded only when an en-passant capture is
   legal, the engine's direct checkmate test answers true exactly when the side to move is in check
   and has no legal move, and its direct stalemate test answers true exactly when the side to move is
   not in check and has no legal move."

  Left-hand sides: the executable model of `IsCheckmate` / `IsStalemate` / `Attackers` / `Block` of
  /repo/board/attacks.go (Model/Mate.lean, statement by statement, correspondence-tested).
  Right-hand sides: the rule book (`Spec/Rules.lean`): `Rules.legalMoves (abs b) = []`.

  DOMAIN FINDING.  As literally stated (hypotheses `Board.valid` and `Rules.epNormal` only) the
  checkmate half is FALSE: `IsCheckmate` considers an en-passant capture only as a capture of the
  checking pawn, never as an interposition, and `Rules.valid` admits positions with an en-passant
  target in which a slider checks THROUGH the en-passant square (`cex` below,
  `8/8/5N1k/8/3pP3/8/8/2B1K1R1 b - e3`): such a position cannot arise in play (the side now to move
  would have been in check before the double advance).  The checkmate theorem therefore carries the
  additional hypothesis `Rules.epSound` ("the side to move was not in check before the double
  advance"), `C09_full_without_epSound` records the original statement and
  `C09_full_without_epSound_false` refutes it.  The stalemate half needs neither `epNormal` nor
  `epSound`.
-/
import ChessVerif.Proofs.MateStale
import ChessVerif.Proofs.MateCheckEp

namespace ChessVerif.C09
open ChessVerif Board Rules Bridge ChessVerif.Mate

/-- **C09, checkmate.**  For a valid position in engine-normal en-passant form that can follow a
    double advance (`epSound`) and in which the side to move is in check, `IsCheckmate` answers true
    exactly when no legal move exists. -/
theorem isCheckmate_iff {b : Board} (hv : Board.valid b = true) (hn : Rules.epNormal (abs b) = true)
    (hs : Rules.epSound (abs b) = true) (hc : b.inCheck b.stm = true) :
    b.isCheckmate = true ↔ Rules.legalMoves (abs b) = [] := by
  obtain ⟨K, cx⟩ := ctx_of_valid hv
  exact isCheckmate_iff_core cx hn hs ((inCheck_iff_Chk cx).1 hc)

/-- **C09, stalemate.**  For a valid position in which the side to move is NOT in check,
    `IsStalemate` answers true exactly when no legal move exists (no assumption on the en-passant
    state beyond validity). -/
theorem isStalemate_iff {b : Board} (hv : Board.valid b = true) (hc : b.inCheck b.stm = false) :
    b.isStalemate = true ↔ Rules.legalMoves (abs b) = [] := by
  obtain ⟨K, cx⟩ := ctx_of_valid hv
  refine isStalemate_iff_core cx ?_
  intro h
  rw [(inCheck_iff_Chk cx).2 h] at hc
  exact Bool.noConfusion hc

/-- the same against the rule book's own `isCheckmate` ("in check and no legal move"). -/
theorem isCheckmate_eq_rules {b : Board} (hv : Board.valid b = true) (hn : Rules.epNormal (abs b) = true)
    (hs : Rules.epSound (abs b) = true) (hc : b.inCheck b.stm = true) :
    b.isCheckmate = Rules.isCheckmate (abs b) := by
  have hw := WFP_of_valid hv
  have h := isCheckmate_iff hv hn hs hc
  unfold Rules.isCheckmate
  rw [abs_turn, ← inCheck_iff hw, hc, Bool.true_and, Bool.eq_iff_iff, h, List.isEmpty_iff]

/-- the same against the rule book's own `isStalemate` ("not in check and no legal move"). -/
theorem isStalemate_eq_rules {b : Board} (hv : Board.valid b = true) (hc : b.inCheck b.stm = false) :
    b.isStalemate = Rules.isStalemate (abs b) := by
  have hw := WFP_of_valid hv
  have h := isStalemate_iff hv hc
  unfold Rules.isStalemate
  rw [abs_turn, ← inCheck_iff hw, hc, Bool.not_false, Bool.true_and, Bool.eq_iff_iff, h, List.isEmpty_iff]

/-- the property as proved: both halves, the checkmate half with `epSound`. -/
def C09_full : Prop :=
  ∀ b : Board, Board.valid b = true → Rules.epNormal (abs b) = true →
    (Rules.epSound (abs b) = true → b.inCheck b.stm = true →
      (b.isCheckmate = true ↔ Rules.legalMoves (abs b) = [])) ∧
    (b.inCheck b.stm = false → (b.isStalemate = true ↔ Rules.legalMoves (abs b) = []))

theorem C09 : C09_full := fun _ hv hn =>
  ⟨fun hs hc => isCheckmate_iff hv hn hs hc, fun hc => isStalemate_iff hv hc⟩

/-- the property as originally worded (no `epSound`): FALSE, see `C09_full_without_epSound_false`. -/
def C09_full_without_epSound : Prop :=
  ∀ b : Board, Board.valid b = true → Rules.epNormal (abs b) = true →
    (b.inCheck b.stm = true → (b.isCheckmate = true ↔ Rules.legalMoves (abs b) = [])) ∧
    (b.inCheck b.stm = false → (b.isStalemate = true ↔ Rules.legalMoves (abs b) = []))

/-! ### concrete positions -/

/-- build a board from a list of men (no hash history). -/
def mk (men : List (Nat × Color × Piece)) (stm : Color) (ep : Nat) : Board :=
  let b := men.foldl (fun b x => (addPiece zeroKeys b x.2.1 x.2.2 x.1).1) Board.empty
  { b with stm := stm, ep := ep, castles := 0, fullMoves := 1 }

open Color Piece

/-- `8/8/5N1k/8/3pP3/8/8/2B1K1R1 b - e3`: Black Kh6 checked by Bc1 through e3; the only legal move is
    d4xe3 e.p., which interposes.  Valid and `epNormal`, but not `epSound` (not reachable). -/
def cex : Board :=
  mk [(4, white, king), (2, white, bishop), (6, white, rook), (45, white, knight), (28, white, pawn),
      (47, black, king), (27, black, pawn)] black 20

set_option maxRecDepth 100000 in
theorem cex_valid : cex.valid = true := by decide +kernel
set_option maxRecDepth 100000 in
theorem cex_epNormal : Rules.epNormal (abs cex) = true := by decide +kernel
set_option maxRecDepth 100000 in
theorem cex_not_epSound : Rules.epSound (abs cex) = false := by decide +kernel
set_option maxRecDepth 100000 in
theorem cex_inCheck : cex.inCheck cex.stm = true := by
  rw [inCheck_iff (WFP_of_valid cex_valid)]; decide +kernel
set_option maxRecDepth 100000 in
theorem cex_legalMoves : Rules.legalMoves (abs cex) = [⟨27, 20, Option.none⟩] := by decide +kernel

/-- the engine's test answers "checkmate" on `cex` (through the proved components: no king flight, no
    capture of the checker, no ordinary interposition, and the checker is not the advanced pawn). -/
theorem cex_isCheckmate : cex.isCheckmate = true := by
  obtain ⟨K, cx⟩ := ctx_of_valid cex_valid
  have hK : K = 47 := by
    have h1 : cex.colorBB cex.stm &&& cex.pieceBB .king = bit 47 := by decide +kernel
    exact (bit_inj cx.hK (cx.king.symm.trans h1))
  subst hK
  refine isCheckmate_of_onlyEp cx ((inCheck_iff_Chk cx).1 cex_inCheck) ?_ ?_
  · intro s t pr hs ht hpr hPL hi
    have hl := (mem_legalMoves _ _).2 ((legal_iff_PL cx s t pr hs ht hpr).2 ⟨hPL, hi⟩)
    rw [cex_legalMoves, List.mem_singleton] at hl
    have h1 : s = 27 := congrArg Rules.Mv.src hl
    have h2 : t = 20 := congrArg Rules.Mv.dst hl
    subst h1 h2
    exact ⟨by decide +kernel, by decide, by decide, by decide⟩
  · intro P O ef
    have h1 := ef.aheadP
    have hP : P = 28 := by
      have e1 : cex.stm = .black := rfl
      have e2 : cex.ep = 20 := rfl
      rw [e1, e2] at h1
      simp only [PL.ahead] at h1
      omega
    subst hP
    decide

/-- **the original wording of C09 is false** (on a position outside `epSound`). -/
theorem C09_full_without_epSound_false : ¬ C09_full_without_epSound := by
  intro h
  have := ((h cex cex_valid cex_epNormal).1 cex_inCheck).1 cex_isCheckmate
  rw [cex_legalMoves] at this
  exact absurd this (by simp)

/-! ### non-vacuity: the hypotheses hold of concrete positions and the theorems decide them -/

/-- back-rank mate: White Kg1 Pf2 Pg2 Ph2, Black Ra1 Kg8, White to move. -/
def backRank : Board :=
  mk [(6, white, king), (13, white, pawn), (14, white, pawn), (15, white, pawn),
      (0, black, rook), (62, black, king)] white 0

set_option maxRecDepth 100000 in
theorem backRank_hyp : backRank.valid = true ∧ Rules.epNormal (abs backRank) = true ∧
    Rules.epSound (abs backRank) = true ∧ Rules.inCheck (abs backRank) backRank.stm = true := by decide +kernel

set_option maxRecDepth 100000 in
example : backRank.isCheckmate = true :=
  (isCheckmate_iff backRank_hyp.1 backRank_hyp.2.1 backRank_hyp.2.2.1
    (by rw [inCheck_iff (WFP_of_valid backRank_hyp.1)]; exact backRank_hyp.2.2.2)).2 (by decide +kernel)

/-- a legal move refutes "no legal move". -/
theorem legalMoves_ne_nil_of_legal {p : Pos} (mv : Mv) (h : Rules.legal p mv = true) : Rules.legalMoves p ≠ [] := by
  intro e
  have := (mem_legalMoves p mv).2 h
  rw [e] at this
  exact absurd this (by simp)

end ChessVerif.C09
