/-
  Property C09 — non-vacuity examples, mates (see Props/C09.lean for the theorems): a smothered mate
  and a mate with a pinned defender, decided through `isCheckmate_iff` from the rule-book side.
-/
import ChessVerif.Props.C09

namespace ChessVerif.C09
open ChessVerif Board Rules Bridge ChessVerif.Mate
open Color Piece

/-- smothered mate: Black Kh8 Rg8 Pg7 Ph7, White Nf7 Ka1, Black to move. -/
def smothered : Board :=
  mk [(63, black, king), (62, black, rook), (54, black, pawn), (55, black, pawn),
      (53, white, knight), (0, white, king)] black 0

set_option maxRecDepth 100000 in
theorem smothered_hyp : smothered.valid = true ∧ Rules.epNormal (abs smothered) = true ∧
    Rules.epSound (abs smothered) = true ∧ Rules.inCheck (abs smothered) smothered.stm = true := by decide +kernel

set_option maxRecDepth 100000 in
example : smothered.isCheckmate = true :=
  (isCheckmate_iff smothered_hyp.1 smothered_hyp.2.1 smothered_hyp.2.2.1
    (by rw [inCheck_iff (WFP_of_valid smothered_hyp.1)]; exact smothered_hyp.2.2.2)).2 (by decide +kernel)

/-- a mate with a pinned defender: White Kg1 Bf2 Pg2 Ph2, Black Re1 Bb6 Kh8; Bf2 attacks the checking
    rook but is pinned by the bishop on b6. -/
def pinnedDefender : Board :=
  mk [(6, white, king), (13, white, bishop), (14, white, pawn), (15, white, pawn),
      (4, black, rook), (41, black, bishop), (63, black, king)] white 0

set_option maxRecDepth 100000 in
theorem pinnedDefender_hyp : pinnedDefender.valid = true ∧ Rules.epNormal (abs pinnedDefender) = true ∧
    Rules.epSound (abs pinnedDefender) = true ∧
    Rules.inCheck (abs pinnedDefender) pinnedDefender.stm = true := by decide +kernel

set_option maxRecDepth 100000 in
example : pinnedDefender.isCheckmate = true :=
  (isCheckmate_iff pinnedDefender_hyp.1 pinnedDefender_hyp.2.1 pinnedDefender_hyp.2.2.1
    (by rw [inCheck_iff (WFP_of_valid pinnedDefender_hyp.1)]; exact pinnedDefender_hyp.2.2.2)).2
    (by decide +kernel)


end ChessVerif.C09
