/-
  C19 — the tuner optimises the engine's evaluation.

  "For every valid position, the floating-point evaluation used by the tuner, run with the engine's
  shipped coefficients converted to floats, equals the engine's integer evaluation up to the rounding
  envelope of the integer arithmetic (under 2.25 centipawns), with the tuner's white-relative sign
  convention.  The flat parameter vector the tuner optimises is a faithful bijection of the tuned
  coefficient fields: reading the vector, writing it back and iterating the tunable parameters all
  address the same coefficient at the same index."

  Part (b), the parameter vector (this section), is proved in full for the reflection walkers of
  tools/tuner/tuning/vector.go as modelled in Model/TunerVector.lean, for EVERY struct value without
  zero-length arrays — in particular (`coeffRep`) for every value of the REGENERATED shape of
  `eval.CoeffSet` — and EVERY list of target names (any subset, any order, duplicates, unknown names).
-/
import ChessVerif.Proofs.TunerVector

namespace ChessVerif.Props.C19
open ChessVerif ChessVerif.TunerVector

variable {α : Type}

/-- a value of the regenerated struct type `eval.CoeffSet[T]` with arbitrary leaves. -/
def coeffRep (z : α) (vals : String → List α) : Rep α := ofShape z Gen.Eval.shape vals

/-- every value of the regenerated struct type is free of zero-length arrays. -/
theorem coeffRep_noEmpty (z : α) (vals : String → List α) : RepNoEmpty (coeffRep z vals) :=
  ofShape_noEmpty z _ shape_dims_pos vals

/-! ### (b) reading the vector, writing it back -/

/-- `SetVector(ToVector(e, targets), targets)` does not panic and leaves `e` as it was. -/
theorem setVector_toVector (e : Rep α) (h : RepNoEmpty e) (targets : List String) :
    setVector e (toVector e targets) targets = some e := by
  simpa using setVector_toVector_append e h targets []

/-- the same over the regenerated shape. -/
theorem setVector_toVector_coeff (z : α) (vals : String → List α) (targets : List String) :
    setVector (coeffRep z vals) (toVector (coeffRep z vals) targets) targets = some (coeffRep z vals) :=
  setVector_toVector _ (coeffRep_noEmpty z vals) targets

/-- `SetVector(v, targets)` succeeds on every vector with at least as many entries as `targets`
    selects parameters … -/
theorem setVector_succeeds (e : Rep α) (h : RepNoEmpty e) (targets : List String) (v : List α)
    (hl : paramCount e targets ≤ v.length) : ∃ e', setVector e v targets = some e' :=
  setVector_isSome e h targets v hl

/-- … and whenever it succeeds, `ToVector` reads back exactly the entries written (all of `v` when the
    length is the parameter count), the struct keeps its type, and unselected fields are untouched. -/
theorem toVector_setVector (e e' : Rep α) (v : List α) (targets : List String)
    (h : setVector e v targets = some e') :
    toVector e' targets = v.take (paramCount e targets) ∧ RepSameShape e e' ∧ RepUnselectedEq targets e e' := by
  obtain ⟨h1, _, h3, h4⟩ := setVector_spec e e' v targets h
  exact ⟨h1, h3, h4⟩

theorem toVector_setVector_exact (e e' : Rep α) (v : List α) (targets : List String)
    (h : setVector e v targets = some e') (hl : v.length = paramCount e targets) :
    toVector e' targets = v := by
  rw [(toVector_setVector e e' v targets h).1, ← hl, List.take_length]

/-- `SetVector` panics on a vector that is too short. -/
theorem setVector_short (e : Rep α) (v : List α) (targets : List String)
    (hl : v.length < paramCount e targets) : setVector e v targets = none := by
  cases h : setVector e v targets with
  | none => rfl
  | some e' => have := (setVector_spec e e' v targets h).2.1; omega

/-! ### (b) iterating the tunable parameters -/

/-- `TunedParams` yields as many pointers as `ToVector` has entries. -/
theorem tunedParams_length (e : Rep α) (targets : List String) :
    (tunedParams e targets).length = (toVector e targets).length := by
  have := congrArg List.length (tunedCells_getCell e targets)
  simpa [tunedParams] using this

/-- The `i`-th pair yielded by `TunedParams(targets)` carries the index `i`, and its pointer addresses
    the cell whose value `ToVector(targets)` puts at index `i`. -/
theorem tunedParams_index (e : Rep α) (targets : List String) (i : Nat)
    (hi : i < (tunedParams e targets).length) :
    ((tunedParams e targets)[i]).1 = i ∧
    ∃ h : i < (toVector e targets).length,
      getCell e ((tunedParams e targets)[i]).2 = some ((toVector e targets)[i]) := by
  have hlen := tunedParams_length e targets
  have hc : i < (tunedCells e targets).length := by simpa [tunedParams] using hi
  refine ⟨by simp [tunedParams], by omega, ?_⟩
  have h1 : ((tunedCells e targets).map (getCell e))[i]'(by simpa using hc) =
      ((toVector e targets).map some)[i]'(by simp; omega) := by
    simp only [tunedCells_getCell]
  simpa [tunedParams] using h1

/-! ### non-vacuity -/

/-- the shipped coefficient set, the tuner's default targets: 981 cells, all 981 selected, the round
    trip is the identity and the 100th yielded pointer is `PSqT[1][35]`. -/
example : paramCount shippedRep Gen.Eval.defaultTargets = 981 := by decide +kernel
example : setVector shippedRep (toVector shippedRep ["TempoBonus", "KingShelter"]) ["TempoBonus", "KingShelter"]
    = some shippedRep := setVector_toVector _ (ofShape_noEmpty 0 _ shape_dims_pos _) _
example : (tunedParams shippedRep ["KingShelter", "TempoBonus"]).map (·.2) = [(2, [0]), (2, [1]), (5, [0]), (5, [1])] := by
  decide +kernel
example : toVector shippedRep ["KingShelter", "TempoBonus"] = [19, 18, 7, -12] := by decide +kernel
/-- a struct with a zero-length array is outside the theorems' hypothesis, and indeed `SetVector`
    panics on its own `ToVector` there (Go: "array length mismatch 0 != 2" for a `[2][0]float64`). -/
example : setVector [("X", Tree.node [.node [], .node []])] (toVector [("X", (Tree.node [.node [], .node []] : Tree Int))] ["X"]) ["X"]
    = none := by decide

end ChessVerif.Props.C19
