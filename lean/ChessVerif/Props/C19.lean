/-
  C19 — the tuner optimises the engine's evaluation.

  "For every valid position, the floating-point evaluation used by the tuner, run with the engine's
  shipped coefficients converted to floats, equals the engine's integer evaluation up to the rounding
  envelope of the integer arithmetic (under 2.25 centipawns), with the tuner's white-relative sign
  convention.  The flat parameter vector the tuner optimises is a faithful bijection of the tuned
  coefficient fields: reading the vector, writing it back and iterating the tunable parameters all
  address the same coefficient at the same index."

  Part (a) — PARTIAL (see `int_vs_exact_partial` / `C19a_full` at the end of the file): float64 and
  `math.Exp` cannot be reasoned about in core Lean.  What is proved: for EXACT RATIONAL arithmetic with
  an abstract sigmoid `σ` that is within 1/2 of the integer table (`TableNear σ`, discharged
  numerically by the tunereval harness for the real float64 sigmoid over the whole int16 range), and
  for every position on which no int16 conversion that matters changes a value (`noInt16Wrap`,
  decidable; measured true on every generated position), the tuner's evaluation differs from the
  engine's integer evaluation by at most 4799/2400 = 1 + 2399/2400 < 2 < 2.25 centipawns, with the
  white-relative sign.  The float64 rounding residue (measured ≈ 1e-12 cp) is outside THAT theorem.
  ADDED (last section of the file, `float_vs_int`): the float64 gap is closed over an executable IEEE-754
  binary64 model (Model/F64.lean, Model/EvalF.lean) that the tunereval harness compares with the real
  `Eval[float64]` bit for bit; `math.Exp` stays a parameter (inside the sigmoid `σF`, hypothesis `TableNear σF`).

  Part (b), the parameter vector, is proved in full for the reflection walkers of
  tools/tuner/tuning/vector.go as modelled in Model/TunerVector.lean, for EVERY struct value without
  zero-length arrays — in particular (`coeffRep`) for every value of the REGENERATED shape of
  `eval.CoeffSet` — and EVERY list of target names (any subset, any order, duplicates, unknown names).
-/
import ChessVerif.Model.Guards.Eval
import ChessVerif.Model.Guards.TunerVector
import ChessVerif.Proofs.TunerVector
import ChessVerif.Proofs.TunerVectorWrite
import ChessVerif.Proofs.EvalEnvelope
import ChessVerif.Proofs.EvalBoundShipped
import ChessVerif.Model.Abs
import ChessVerif.Proofs.EvalFloatError

namespace ChessVerif.Props.C19
open ChessVerif ChessVerif.TunerVector

variable {α : Type}

/-- a value of the regenerated struct type `eval.CoeffSet[T]` with arbitrary leaves. -/
def coeffRep (z : α) (vals : String → List α) : Rep α := ofShape z Gen.Eval.shape vals

/-- every value of the regenerated struct type is free of zero-length arrays. -/
theorem coeffRep_noEmpty (z : α) (vals : String → List α) : RepNoEmpty (coeffRep z vals) :=
  ofShape_noEmpty z _ shape_dims_pos vals

/-! ### (b) reading the vector, writing it back -/

/-- `SetVector(ToVector(e, targets), targets)` does not panic and leaves `e` as it was. -/
theorem setVector_toVector (e : Rep α) (h : RepNoEmpty e) (targets : List String) :
    setVector e (toVector e targets) targets = some e := by
  simpa using setVector_toVector_append e h targets []

/-- the same over the regenerated shape. -/
theorem setVector_toVector_coeff (z : α) (vals : String → List α) (targets : List String) :
    setVector (coeffRep z vals) (toVector (coeffRep z vals) targets) targets = some (coeffRep z vals) :=
  setVector_toVector _ (coeffRep_noEmpty z vals) targets

/-- `SetVector(v, targets)` succeeds on every vector with at least as many entries as `targets`
    selects parameters … -/
theorem setVector_succeeds (e : Rep α) (h : RepNoEmpty e) (targets : List String) (v : List α)
    (hl : paramCount e targets ≤ v.length) : ∃ e', setVector e v targets = some e' :=
  setVector_isSome e h targets v hl

/-- … and whenever it succeeds, `ToVector` reads back exactly the entries written (all of `v` when the
    length is the parameter count), the struct keeps its type, and unselected fields are untouched. -/
theorem toVector_setVector (e e' : Rep α) (v : List α) (targets : List String)
    (h : setVector e v targets = some e') :
    toVector e' targets = v.take (paramCount e targets) ∧ RepSameShape e e' ∧ RepUnselectedEq targets e e' := by
  obtain ⟨h1, _, h3, h4⟩ := setVector_spec e e' v targets h
  exact ⟨h1, h3, h4⟩

theorem toVector_setVector_exact (e e' : Rep α) (v : List α) (targets : List String)
    (h : setVector e v targets = some e') (hl : v.length = paramCount e targets) :
    toVector e' targets = v := by
  rw [(toVector_setVector e e' v targets h).1, ← hl, List.take_length]

/-- `SetVector` panics on a vector that is too short. -/
theorem setVector_short (e : Rep α) (v : List α) (targets : List String)
    (hl : v.length < paramCount e targets) : setVector e v targets = none := by
  cases h : setVector e v targets with
  | none => rfl
  | some e' => have := (setVector_spec e e' v targets h).2.1; omega

/-! ### (b) iterating the tunable parameters -/

/-- `TunedParams` yields as many pointers as `ToVector` has entries. -/
theorem tunedParams_length (e : Rep α) (targets : List String) :
    (tunedParams e targets).length = (toVector e targets).length := by
  have := congrArg List.length (tunedCells_getCell e targets)
  simpa [tunedParams] using this

/-- The `i`-th pair yielded by `TunedParams(targets)` carries the index `i`, and its pointer addresses
    the cell whose value `ToVector(targets)` puts at index `i`. -/
theorem tunedParams_index (e : Rep α) (targets : List String) (i : Nat)
    (hi : i < (tunedParams e targets).length) :
    ((tunedParams e targets)[i]).1 = i ∧
    ∃ h : i < (toVector e targets).length,
      getCell e ((tunedParams e targets)[i]).2 = some ((toVector e targets)[i]) := by
  have hlen := tunedParams_length e targets
  have hc : i < (tunedCells e targets).length := by simpa [tunedParams] using hi
  refine ⟨by simp [tunedParams], by omega, ?_⟩
  have h1 : ((tunedCells e targets).map (getCell e))[i]'(by simpa using hc) =
      ((toVector e targets).map some)[i]'(by simp; omega) := by
    simp only [tunedCells_getCell]
  simpa [tunedParams] using h1

/-- Writing through the `i`-th yielded pointer (`*ptr = v`, as the client's finite-difference loop does)
    changes exactly entry `i` of what `ToVector(targets)` reads — nothing else. -/
theorem tunedParams_write (e : Rep α) (targets : List String) (v : α) (i : Nat)
    (hi : i < (tunedParams e targets).length) :
    toVector (setCell e ((tunedParams e targets)[i]).2 v) targets = (toVector e targets).set i v := by
  have hc : i < (tunedCells e targets).length := by simpa [tunedParams] using hi
  have := tunedCells_setCell e targets v i hc
  simpa [tunedParams] using this

/-! ### non-vacuity -/

/-- the shipped coefficient set, the tuner's default targets: 981 cells, all 981 selected, the round
    trip is the identity and the 100th yielded pointer is `PSqT[1][35]`. -/
example : paramCount shippedRep Gen.Eval.defaultTargets = 981 := by decide +kernel
example : setVector shippedRep (toVector shippedRep ["TempoBonus", "KingShelter"]) ["TempoBonus", "KingShelter"]
    = some shippedRep := setVector_toVector _ (ofShape_noEmpty 0 _ shape_dims_pos _) _
example : (tunedParams shippedRep ["KingShelter", "TempoBonus"]).map (·.2) = [(2, [0]), (2, [1]), (5, [0]), (5, [1])] := by
  decide +kernel
example : toVector shippedRep ["KingShelter", "TempoBonus"] = [19, 18, 7, -12] := by decide +kernel
/-- a struct with a zero-length array is outside the theorems' hypothesis, and indeed `SetVector`
    panics on its own `ToVector` there (Go: "array length mismatch 0 != 2" for a `[2][0]float64`). -/
example : setVector [("X", (TunerVector.Tree.node [.node [], .node []] : TunerVector.Tree Int))]
    (toVector [("X", (TunerVector.Tree.node [.node [], .node []] : TunerVector.Tree Int))] ["X"]) ["X"] = none := by decide

/-! ### (a) float evaluation vs integer evaluation — exact-arithmetic part -/

section partA
open ChessVerif.Eval

/-- the engine's shipped coefficients converted as `tuning.EngineCoeffs()` converts them are the
    model's `shippedQ`. -/
theorem engineCoeffs_shipped : shippedQ = toQ shipped := shippedQ_eq

/-- Under `noInt16Wrap` the engine's wrapping int16 evaluation is the evaluation in exact integers
    (table sigmoid, truncating taper). -/
theorem evalInt_exact (cs : CoeffSet Int) (b : Board) (hw : noInt16Wrap cs (input b) = true) :
    evalInt cs b = evalCore opsZ cs (input b) :=
  evalInt_eq_evalZ cs (input b) hw

/-- C19 (a), exact-arithmetic part: for every integer coefficient set `cs` (converted to rationals as
    `EngineCoeffs` does), every sigmoid within 1/2 of the table and every position without a relevant
    int16 wrap, the tuner's white-relative evaluation is within 4799/2400 of the engine's. -/
theorem int_vs_exact_partial (σ : Rat → Rat) (hσ : TableNear σ) (cs : CoeffSet Int) (b : Board)
    (hw : noInt16Wrap cs (input b) = true) :
    -(4799 / 2400 : Rat) ≤ tunerEvalQ σ (toQ cs) b - ((tunerEvalInt cs b : Int) : Rat) ∧
    tunerEvalQ σ (toQ cs) b - ((tunerEvalInt cs b : Int) : Rat) ≤ 4799 / 2400 := by
  obtain ⟨h1, h2⟩ := evalQ_vs_evalZ σ hσ cs (input b) hw
  rw [← evalInt_eq_evalZ cs (input b) hw] at h1 h2
  unfold tunerEvalQ tunerEvalInt evalQ evalInt
  by_cases hs : b.stm = .black
  · simp only [hs, if_true]
    rw [Rat.intCast_neg]
    constructor
    · have : -evalCore (opsQ σ) (toQ cs) (input b) - -((evalCore opsI16 cs (input b) : Int) : Rat) =
          -(evalCore (opsQ σ) (toQ cs) (input b) - ((evalCore opsI16 cs (input b) : Int) : Rat)) := by
        rw [Rat.neg_sub, Rat.sub_eq_add_neg, Rat.neg_neg, Rat.add_comm, ← Rat.sub_eq_add_neg]
      rw [this]; exact Rat.neg_le_neg h2
    · have : -evalCore (opsQ σ) (toQ cs) (input b) - -((evalCore opsI16 cs (input b) : Int) : Rat) =
          -(evalCore (opsQ σ) (toQ cs) (input b) - ((evalCore opsI16 cs (input b) : Int) : Rat)) := by
        rw [Rat.neg_sub, Rat.sub_eq_add_neg, Rat.neg_neg, Rat.add_comm, ← Rat.sub_eq_add_neg]
      rw [this]
      have := Rat.neg_le_neg h1
      rwa [Rat.neg_neg] at this
  · simp only [hs, if_false]
    exact ⟨h1, h2⟩

/-- the same for the shipped coefficients, as the tuner runs them. -/
theorem int_vs_exact_shipped_partial (σ : Rat → Rat) (hσ : TableNear σ) (b : Board)
    (hw : noInt16Wrap shipped (input b) = true) :
    -(4799 / 2400 : Rat) ≤ tunerEvalQ σ shippedQ b - ((tunerEvalInt shipped b : Int) : Rat) ∧
    tunerEvalQ σ shippedQ b - ((tunerEvalInt shipped b : Int) : Rat) ≤ 4799 / 2400 := by
  rw [shippedQ_eq]; exact int_vs_exact_partial σ hσ shipped b hw

/-- the envelope is below the 2.25 of the property text (and below 2). -/
example : (4799 / 2400 : Rat) < 2 ∧ (2 : Rat) < 9 / 4 := by norm_num

/-- The full exact-arithmetic statement: every valid position, shipped coefficients.  NOT proved:
    it needs `∀ valid b, noInt16Wrap shipped (input b)` (a magnitude bound on the evaluation of every
    valid position — measured true on every generated position by the harness), and the step from exact
    rationals with `TableNear σ` to IEEE-754 float64 with `math.Exp` is not expressible in core Lean at all. -/
def C19a_full : Prop :=
  ∀ σ : Rat → Rat, TableNear σ → ∀ b : Board, Board.valid b = true →
    -(9 / 4 : Rat) < tunerEvalQ σ shippedQ b - ((tunerEvalInt shipped b : Int) : Rat) ∧
    tunerEvalQ σ shippedQ b - ((tunerEvalInt shipped b : Int) : Rat) < 9 / 4

/-- what is missing for `C19a_full`, exactly. -/
theorem c19a_full_of_noWrap (h : ∀ b : Board, Board.valid b = true → noInt16Wrap shipped (input b) = true) :
    C19a_full := by
  intro σ hσ b hb
  obtain ⟨h1, h2⟩ := int_vs_exact_shipped_partial σ hσ b (h b hb)
  exact ⟨lt_of_lt_of_le (by norm_num) h1, lt_of_le_of_lt h2 (by norm_num)⟩

/-! non-vacuity of (a) -/

/-- the table itself, read as a step function, satisfies `TableNear` -/
example : TableNear (fun q => ((sigmTable q.floor : Int) : Rat)) := by
  intro n _ _
  simp only [Rat.floor_intCast, sub_self]
  norm_num

open Color Piece in
/-- `8/8/8/4k3/8/2B5/1N6/K7 b - - 3 1`: knight + bishop v bare king. -/
def knbBoard : Board :=
  let men : List (Nat × Color × Piece) := [(0, white, king), (9, white, knight), (18, white, bishop), (36, black, king)]
  let b := men.foldl (fun b x => (Board.addPiece Board.zeroKeys b x.2.1 x.2.2 x.1).1) Board.empty
  { b with stm := .black, fullMoves := 1, fifty := 3 }

/-- the hypothesis `noInt16Wrap` holds there with the shipped coefficients (kernel-checked); for
    positions on the tapered path it is evaluated by the compiled driver and reported by the harness
    (the kernel cannot afford the magic-bitboard tables inside `decide`). -/
example : noInt16Wrap shipped (input knbBoard) = true := by decide +kernel

end partA

/-! ### (a) the magnitude bound: `noInt16Wrap` holds on every valid position -/

section noWrap
open ChessVerif.Eval

/-- The closed magnitude check (`Eval.Bound.boundOK`, a Boolean function of the coefficient set alone)
    holds for the REGENERATED `eval.Coefficients`: all coefficients are int16 values, and with
    `manHi/manLo` the extreme total contribution of one man (value + PSqT + mobility + outpost / passer /
    pawn-structure addends) and `constHi/constLo` the addends occurring once (tempo, bishop pair,
    passer king distance, king PSqT, sigmoid ≤ 600), the accumulator interval
    `[15·manLo + constLo, 15·manHi + constHi]` is narrower than 32767 in both game phases (shipped:
    18974 and 23028), the king-attack scores lie in the int16 range (shipped: within [-3555, 2550]) and
    so does the knight+bishop-mate path (width 22030).  Kernel-evaluated: regenerating Gen/Eval.lean
    with coefficients for which this analysis cannot exclude a wrap makes the build fail here. -/
theorem shipped_boundOK : Bound.boundOK shipped = true := Bound.boundOK_shipped

/-- For EVERY coefficient set passing the closed check and every evaluation input with at most 15 men
    besides the king per side and a halfmove clock in `0..100`, no int16 conversion that matters
    changes a value. -/
theorem noWrap_of_boundOK (cs : CoeffSet Int) (hb : Bound.boundOK cs = true) (i : EvalInput)
    (hm : ∀ c, Bound.Men15 i c) (hf : 0 ≤ i.fifty ∧ i.fifty ≤ 100) : noInt16Wrap cs i = true :=
  Bound.noWrap_of_boundOK cs i hb hm hf

/-- **noWrap_shipped.**  On every valid position — any promoted material included: the promotion bound of
    `Board.valid` allows at most 15 men besides the king per side, e.g. nine queens — the evaluation
    with the shipped coefficients never wraps an int16 value that is inspected. -/
theorem noWrap_shipped (b : Board) (hv : Board.valid b = true) : noInt16Wrap shipped (input b) = true :=
  Bound.noWrap_of_valid shipped Bound.boundOK_shipped b hv

/-- hence on every valid position the engine's wrapping int16 evaluation IS the exact-integer one … -/
theorem evalInt_exact_valid (b : Board) (hv : Board.valid b = true) :
    evalInt shipped b = evalCore opsZ shipped (input b) :=
  evalInt_exact shipped b (noWrap_shipped b hv)

/-- … and the exact-arithmetic statement of C19 (a) holds in full (what remains outside Lean is only
    the step from exact rationals with `TableNear σ` to float64 with `math.Exp`). -/
theorem C19a_full_holds : C19a_full := c19a_full_of_noWrap noWrap_shipped

open Color Piece in
/-- non-vacuity at the extreme of the domain: a valid position with NINE white queens and all seven
    original pieces (16 men) against a bare king, black to move. -/
def nineQueens : Board :=
  let men : List (Nat × Color × Piece) :=
    [(0, white, king), (1, white, rook), (2, white, rook), (3, white, bishop), (4, white, bishop),
     (5, white, knight), (6, white, knight), (7, white, queen),
     (8, white, queen), (9, white, queen), (10, white, queen), (11, white, queen),
     (12, white, queen), (13, white, queen), (14, white, queen), (15, white, queen), (63, black, king)]
  let b := men.foldl (fun b x => (Board.addPiece Board.zeroKeys b x.2.1 x.2.2 x.1).1) Board.empty
  { b with stm := .black, fullMoves := 1, fifty := 0 }

example : Board.valid nineQueens = true := by decide +kernel
example : Board.valid knbBoard = true := by decide +kernel
example : noInt16Wrap shipped (input nineQueens) = true := noWrap_shipped _ (by decide +kernel)

end noWrap

/-! ### (a) the floating-point gap: IEEE-754 binary64 model of `Eval[float64]`

  `Model/F64.lean` models float64 arithmetic (round to nearest even on 53 significant bits, gradual
  underflow, overflow flagged by `ok = false`, signed zero, `math.Float64bits`); `Model/EvalF.lean`
  instantiates the generic evaluation with it (`opsF σF`, one rounding per Go operation, in Go's order;
  the float sigmoid is the parameter `σF` = the real function `sigmoidal[float64]` computes, `math.Exp`
  inside it is NOT modelled).  The theorems below close C19 (a) for THAT model:

  * `float_exact_*` — (i) every addend and every partial sum of every accumulator before the sigmoid and
    the taper is an integer of magnitude < 2^31 and is computed exactly (any int16 coefficient set, any
    input);
  * `float_vs_exact` — (ii) the roundings that remain (accumulator + sigmoid value, the differences,
    the taper's two multiplications by the phase, its addition, `v *= 100 - fifty`, `/ MaxPhase`, `/ 100`)
    contribute at most 2^-33 centipawns, and no operation overflows or divides by zero;
  * `float_vs_int` — (iii) for every valid position and every `σF` with `TableNear σF`:
    |tunerEvalF σF shippedF b − tunerEvalInt shipped b| < 9/4.

  What remains OUTSIDE Lean (trusted base, measured by the tunereval harness, suites D0–D3):
  that Go's float64 `+ - * /`, `float64(int)` and `math.Float64bits` on amd64 (GOAMD64=v1, no fused
  multiply-add) are the IEEE-754 operations of Model/F64.lean (D1: bit-for-bit on random operands), that
  `eval.Eval[float64]` performs the operations of `opsF` in that order (D3: bit-for-bit on every generated
  position, shipped and random coefficients), and that Go's float sigmoid — `math.Exp` included —
  satisfies `TableNear` (D2: all 65536 int16 arguments, compared with the table in exact rationals). -/

section floatGap
open ChessVerif.Eval ChessVerif.IEEE

/-- the tuner's coefficient conversion in the float model is `float64(·)` of the shipped leaves. -/
theorem engineCoeffsF_shipped : shippedF = toF shipped := shippedF_eq

/-- IEEE-754 rounding error of the model: half a unit in the last place, i.e. relative 2^-53 in the
    normal range and absolute 2^-1075 in the subnormal range. -/
theorem f64_round_error (x : ℚ) :
    |round x - x| ≤ ulp x / 2 ∧ |round x - x| ≤ |x| / 2 ^ 53 + 1 / 2 ^ 1075 :=
  ⟨round_err x, round_err' x⟩

/-- `round` IS IEEE-754 round-to-nearest-even on the grid of doubles of the binade of `x` (spacing
    `ulp x = 2^(max(⌊log₂|x|⌋, -1022) - 52)`): the result is a grid point, no grid point is nearer, and the
    integer rounding it is built from resolves a tie to the even neighbour. -/
theorem f64_round_nearest_even (x : ℚ) :
    (∃ m : Int, round x = (m : ℚ) * ulp x) ∧ (∀ m : Int, |round x - x| ≤ |(m : ℚ) * ulp x - x|) ∧
    (∀ r : ℚ, r - r.floor = 1 / 2 → rne r % 2 = 0) :=
  ⟨round_on_grid x, round_nearest x, rne_tie_even⟩

/-- `ilog2` is the binary exponent: `2^(ilog2 x) ≤ |x| < 2^(ilog2 x + 1)` (so `ulp` is the spacing of
    doubles in the binade of `x`). -/
theorem f64_exponent (x : ℚ) (hx : x ≠ 0) : pow2 (ilog2 x) ≤ |x| ∧ |x| < pow2 (ilog2 x + 1) :=
  ⟨ilog2_le x hx, ilog2_lt x hx⟩

/-- every integer of magnitude ≤ 2^53 is a double; `float64(n)` is exact there. -/
theorem f64_int_exact (n : Int) (h1 : -(2 ^ 53) ≤ n) (h2 : n ≤ 2 ^ 53) :
    (F64.ofInt n).val = n ∧ (F64.ofInt n).ok = true := ofInt_ex n h1 h2

/-- **(i) exactness, accumulators before the king-attack term**: for EVERY integer coefficient set with
    int16 entries (converted by `float64(·)`), every input, both colours and game phases, the float
    accumulator `sp.mg/eg[c]` just before `addKingAttacks` holds exactly the integer the exact-integer
    evaluation computes (all partial sums are integers below 2^31; nothing was rounded). -/
theorem float_exact_rest (σF : ℚ → ℚ) (cs : CoeffSet Int) (hcs : cs.all inRange16 = true) (i : EvalInput)
    (ph : Nat) (c : Color) :
    (sum (opsF σF) (restTerms (opsF σF) (toF cs) i ph c)).val = ((sum opsZ (restTerms opsZ cs i ph c) : Int) : ℚ) ∧
    (sum (opsF σF) (restTerms (opsF σF) (toF cs) i ph c)).ok = true :=
  (restF_ex σF cs hcs i ph c).1

/-- **(i) exactness, sigmoid arguments**: the four king-attack scores handed to the float sigmoid are
    exactly the integers the engine looks up in its table. -/
theorem float_exact_ka (σF : ℚ → ℚ) (cs : CoeffSet Int) (hcs : cs.all inRange16 = true) (i : EvalInput)
    (ph : Nat) (c : Color) :
    (sum (opsF σF) (kaTerms (opsF σF) (toF cs) i ph c)).val = ((sum opsZ (kaTerms opsZ cs i ph c) : Int) : ℚ) ∧
    (sum (opsF σF) (kaTerms (opsF σF) (toF cs) i ph c)).ok = true :=
  kaF_ex σF cs hcs i ph c

/-- **(i) exactness, knight + bishop mate path** (no sigmoid, no taper: the whole result is exact). -/
theorem float_exact_knb (σF : ℚ → ℚ) (cs : CoeffSet Int) (hcs : cs.all inRange16 = true) (i : EvalInput) (c : Color) :
    (sum (opsF σF) (pieceValueTerms (opsF σF) (toF cs) i 1 c ++ knbvkTerms (opsF σF) (toF cs) i 1 c)).val =
      ((sum opsZ (pieceValueTerms opsZ cs i 1 c ++ knbvkTerms opsZ cs i 1 c) : Int) : ℚ) ∧
    (sum (opsF σF) (pieceValueTerms (opsF σF) (toF cs) i 1 c ++ knbvkTerms (opsF σF) (toF cs) i 1 c)).ok = true :=
  (knbF_ex σF cs hcs i c).1

/-- the explicit rounding bound is far below the 1/4 (+ 1/2400) of slack that the exact-arithmetic
    envelope 4799/2400 leaves under 9/4. -/
theorem epsF_small : epsF = 1 / 2 ^ 33 ∧ epsF < 1 / 8000000000 ∧ (4799 / 2400 : ℚ) + epsF < 9 / 4 := by
  unfold epsF; norm_num

/-- **(ii) the remaining roundings**: on every valid position, with the shipped coefficients and any
    sigmoid near the table, the float evaluation stays inside the float model's domain (no overflow,
    no division by zero: `ok`) and is within `epsF = 2^-33` centipawns of the exact-rational evaluation
    with the same sigmoid. -/
theorem float_vs_exact (σF : ℚ → ℚ) (hσ : TableNear σF) (b : Board) (hv : Board.valid b = true) :
    (evalF σF shippedF b).ok = true ∧ |(evalF σF shippedF b).val - evalQ σF shippedQ b| ≤ epsF := by
  rw [shippedF_eq, shippedQ_eq]
  exact evalF_vs_evalQ σF hσ shipped Bound.boundOK_shipped (input b) (Bound.men15_of_valid b hv)
    (Bound.fifty_of_valid b hv)

/-- the same with the tuner's white-relative sign (`score = -score` is exact). -/
theorem tunerEvalF_vs_exact (σF : ℚ → ℚ) (hσ : TableNear σF) (b : Board) (hv : Board.valid b = true) :
    (tunerEvalF σF shippedF b).ok = true ∧ |(tunerEvalF σF shippedF b).val - tunerEvalQ σF shippedQ b| ≤ epsF := by
  obtain ⟨h1, h2⟩ := float_vs_exact σF hσ b hv
  unfold tunerEvalF tunerEvalQ
  by_cases hs : b.stm = .black
  · simp only [hs, if_true]
    refine ⟨h1, ?_⟩
    show |-(evalF σF shippedF b).val - -evalQ σF shippedQ b| ≤ epsF
    rw [show -(evalF σF shippedF b).val - -evalQ σF shippedQ b = -((evalF σF shippedF b).val - evalQ σF shippedQ b) by ring,
      abs_neg]
    exact h2
  · simp only [hs, if_false]
    exact ⟨h1, h2⟩

/-- **(iii) float_vs_int — C19 (a) for the float64 model.**  For every valid position and every float
    sigmoid `σF` within 1/2 of the integer table on the int16 arguments, the tuner's evaluation
    (`EngineRep.Eval`: `Eval[float64]` with the shipped coefficients converted to floats, white-relative
    sign), computed in IEEE-754 binary64 arithmetic operation by operation, never overflows and differs
    from the engine's integer evaluation (white-relative) by less than 2.25 centipawns
    (by at most 4799/2400 + 2^-33). -/
theorem float_vs_int (σF : ℚ → ℚ) (hσ : TableNear σF) (b : Board) (hv : Board.valid b = true) :
    (tunerEvalF σF shippedF b).ok = true ∧
    |(tunerEvalF σF shippedF b).val - ((tunerEvalInt shipped b : Int) : ℚ)| < 9 / 4 := by
  obtain ⟨h1, h2⟩ := tunerEvalF_vs_exact σF hσ b hv
  obtain ⟨q1, q2⟩ := int_vs_exact_shipped_partial σF hσ b (noWrap_shipped b hv)
  refine ⟨h1, ?_⟩
  have hq : |tunerEvalQ σF shippedQ b - ((tunerEvalInt shipped b : Int) : ℚ)| ≤ 4799 / 2400 := by
    rw [abs_le]; exact ⟨q1, q2⟩
  have htri := abs_add_le ((tunerEvalF σF shippedF b).val - tunerEvalQ σF shippedQ b)
    (tunerEvalQ σF shippedQ b - ((tunerEvalInt shipped b : Int) : ℚ))
  rw [show (tunerEvalF σF shippedF b).val - tunerEvalQ σF shippedQ b +
      (tunerEvalQ σF shippedQ b - ((tunerEvalInt shipped b : Int) : ℚ)) =
      (tunerEvalF σF shippedF b).val - ((tunerEvalInt shipped b : Int) : ℚ) by ring] at htri
  have := epsF_small.2.2
  linarith

/-- the sharper form: the float evaluation is within 4799/2400 + 2^-33 of the integer evaluation. -/
theorem float_vs_int_sharp (σF : ℚ → ℚ) (hσ : TableNear σF) (b : Board) (hv : Board.valid b = true) :
    |(tunerEvalF σF shippedF b).val - ((tunerEvalInt shipped b : Int) : ℚ)| ≤ 4799 / 2400 + epsF := by
  obtain ⟨_, h2⟩ := tunerEvalF_vs_exact σF hσ b hv
  obtain ⟨q1, q2⟩ := int_vs_exact_shipped_partial σF hσ b (noWrap_shipped b hv)
  have hq : |tunerEvalQ σF shippedQ b - ((tunerEvalInt shipped b : Int) : ℚ)| ≤ 4799 / 2400 := by
    rw [abs_le]; exact ⟨q1, q2⟩
  have htri := abs_add_le ((tunerEvalF σF shippedF b).val - tunerEvalQ σF shippedQ b)
    (tunerEvalQ σF shippedQ b - ((tunerEvalInt shipped b : Int) : ℚ))
  rw [show (tunerEvalF σF shippedF b).val - tunerEvalQ σF shippedQ b +
      (tunerEvalQ σF shippedQ b - ((tunerEvalInt shipped b : Int) : ℚ)) =
      (tunerEvalF σF shippedF b).val - ((tunerEvalInt shipped b : Int) : ℚ) by ring] at htri
  linarith

/-- The full-strength statement of C19 (a) over the float model, as a `Prop` (what `float_vs_int` proves). -/
def C19a_float_full : Prop :=
  ∀ σF : ℚ → ℚ, TableNear σF → ∀ b : Board, Board.valid b = true →
    (tunerEvalF σF shippedF b).ok = true ∧
    |(tunerEvalF σF shippedF b).val - ((tunerEvalInt shipped b : Int) : ℚ)| < 9 / 4

theorem C19a_float_full_holds : C19a_float_full := float_vs_int

/-! non-vacuity of the float part -/

/-- the table read as a step function (also used above) is a sigmoid near the table … -/
def σTable : ℚ → ℚ := fun q => ((sigmTable q.floor : Int) : ℚ)
theorem σTable_near : TableNear σTable := by
  intro n _ _
  simp only [σTable, Rat.floor_intCast, sub_self]
  norm_num

/-- … so the theorems apply to the valid positions `knbBoard` and `nineQueens`; on `knbBoard`
    (`8/8/8/4k3/8/2B5/1N6/K7 b`, black to move) the float model's result is the double 1105.0
    = `0x4091440000000000` and the engine's integer evaluation is 1105 (kernel-evaluated). -/
example : F64.toBits (tunerEvalF σTable shippedF knbBoard) = 0x4091440000000000 ∧
    (tunerEvalF σTable shippedF knbBoard).ok = true ∧ tunerEvalInt shipped knbBoard = 1105 := by decide +kernel
example : |(tunerEvalF σTable shippedF nineQueens).val - ((tunerEvalInt shipped nineQueens : Int) : ℚ)| < 9 / 4 :=
  (float_vs_int σTable σTable_near nineQueens (by decide +kernel)).2

/-- the arithmetic model is not the identity: it rounds (0.1 + 0.2 is the double `0x3FD3333333333334`,
    not 3/10), knows `-0` (`-5 · 0`), the constant `-0.2` of the sigmoid, ties-to-even in the subnormal
    range (3·2^-1074 / 2 = 2·2^-1074), and flags overflow. -/
example : F64.toBits (F64.add (F64.ofRat (1 / 10)) (F64.ofRat (2 / 10))) = 0x3FD3333333333334 ∧
    (F64.add (F64.ofRat (1 / 10)) (F64.ofRat (2 / 10))).val ≠ 3 / 10 := by decide +kernel
example : F64.toBits (F64.mul (F64.ofInt (-5)) (F64.ofInt 0)) = 0x8000000000000000 := by decide +kernel
example : F64.toBits cNeg02 = 0xBFC999999999999A := by decide +kernel
example : F64.toBits (F64.div (F64.ofBits 3) (F64.ofInt 2)) = 2 := by decide +kernel
example : (F64.add (F64.ofBits 0x7FEFFFFFFFFFFFFF) (F64.ofBits 0x7FEFFFFFFFFFFFFF)).ok = false := by decide +kernel
example : F64.toBits (F64.ofBits 0xC06FE00000000000) = 0xC06FE00000000000 ∧ (F64.ofBits 0xC06FE00000000000).val = -255 := by
  decide +kernel

end floatGap

end ChessVerif.Props.C19
