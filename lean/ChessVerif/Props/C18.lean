/-
  C18 — static exchange evaluation.

  "For every valid position, every legal move and every threshold, the static exchange test answers
  true exactly when the material balance of the best alternating capture sequence on the destination
  square - each side capturing with a least valuable attacker, able to stop at any point, x-ray
  attackers joining as lines open, the king capturing only when no enemy attacker remains, pins and
  promotions by recapturing pawns ignored - is at least the threshold, for some choice among equally
  valued least attackers.  In particular the answer is monotone: if it holds for a threshold it holds
  for every lower one."

  * `See.see`            executable model of heur.SEE (Model/See.lean), tied to the Go code by the
                         `heur -suite c18` correspondence harness;
  * `SeeSpec.seeValue`   the textbook minimax with attackers recomputed from scratch by coordinate
                         geometry (Spec/SeeMinimax.lean); the "some choice among equally valued least
                         attackers" is: knights before bishops, then the lowest square;
  * thresholds: `|thr| ≤ 2·Q = 1800` (`Q = PieceValues[Queen] = 900`; SEE is only ever called with
    `0`, `-captHist` (|·| ≤ 1024) and small multiples of the depth).

  PROVED IN FULL (`see_eq_minimax`, `C18_holds : C18_full`).  The proof has two independent halves:
  * arithmetic — `see` answers exactly `thr ≤ minimax value` of the capture sequence its own loop
    walks through (`see_eq_model_minimax`; no hypothesis on the position; hence `see_monotone`);
  * geometry — that sequence (incrementally maintained attacker set, x-rays added only along the
    line of the piece just lifted, per-side progress markers never skipping a cheaper attacker) is the
    from-scratch sequence of the specification: `attackers_incremental`, for every well-formed board
    and every move whose origin is occupied (Proofs/SeeRays, SeeIncr, SeeBridge; uses C12's
    declarative reading of the magic lookups and ray monotonicity in the occupancy).
  The harness additionally compares the two sequences themselves on every input.
-/
import ChessVerif.Model.Guards.Heur
import ChessVerif.Model.Guards.See
import ChessVerif.Proofs.SeeLoop
import ChessVerif.Proofs.SeeLegal
import ChessVerif.Proofs.SeeGeom
import ChessVerif.Proofs.SeeFuel

namespace ChessVerif.Props.C18
open ChessVerif ChessVerif.Proofs.SeeAbstract ChessVerif.Proofs.SeeLoop ChessVerif.Proofs.SeeLegal

/-- the threshold domain `|thr| ≤ 2·Q`. -/
def ThrDom (thr : Int) : Prop := -(2 * SeeSpec.pv 5) ≤ thr ∧ thr ≤ 2 * SeeSpec.pv 5

theorem thrDom_iff (thr : Int) : ThrDom thr ↔ -1800 ≤ thr ∧ thr ≤ 1800 := by
  have : SeeSpec.pv 5 = 900 := by decide
  unfold ThrDom; rw [this]; omega

/-- The full property. -/
def C18_full : Prop :=
  ∀ (b : Board) (m : Move) (thr : Int), Board.valid b = true → Rules.legal b.abs (decodeMove m) = true →
    ThrDom thr → See.see b m thr = decide (thr ≤ SeeSpec.seeValue b m)

/-- (a) The early-exit threshold loop with its parity flag `res` and the running `swap` equals the
    comparison `thr ≤ minimax value`, on the bare list of capture values (piece values in 0..20000). -/
theorem see_loop_eq_minimax (l : List SeeSpec.Cap) (v swap : Int) (hl : CapsOK l) (hv : v ≤ 20000) :
    (0 < swap → swap ≤ v → absLoop l swap true = decide (SeeSpec.best v l ≤ v - swap)) ∧
    (0 ≤ swap → swap < v → absLoop l swap false = decide (v - swap ≤ SeeSpec.best v l)) :=
  Proofs.SeeAbstract.see_loop_eq_minimax l v swap hl hv

/-- (a') For EVERY board and every move word whose promotion code indexes `PieceValues`, `SEE` answers
    exactly `thr ≤ minimax value of the capture sequence its loop walks` (no int16 wrap occurs). -/
theorem see_eq_model_minimax (b : Board) (m : Move) (thr : Int) (hp : Move.promo m ≠ 7) (ht : ThrDom thr) :
    See.see b m thr = decide (thr ≤ modelValue b m) :=
  Proofs.SeeLoop.see_eq_model_minimax b m thr hp ((thrDom_iff thr).1 ht)

/-- (b) Monotone: if the test holds for a threshold it holds for every lower one. -/
theorem see_monotone (b : Board) (m : Move) {thr thr' : Int} (hp : Move.promo m ≠ 7)
    (ht : ThrDom thr) (ht' : ThrDom thr') (hle : thr' ≤ thr) (h : See.see b m thr = true) :
    See.see b m thr' = true := by
  rw [see_eq_model_minimax b m thr hp ht, decide_eq_true_iff] at h
  rw [see_eq_model_minimax b m thr' hp ht', decide_eq_true_iff]
  omega

/-- (c, conditional) With the geometric hypothesis the test is the comparison with the
    specification's minimax value. -/
theorem see_eq_minimax_of_incremental (b : Board) (m : Move) (thr : Int) (hp : Move.promo m ≠ 7) (ht : ThrDom thr)
    (hgeo : AttackersIncremental b m) :
    See.see b m thr = decide (thr ≤ SeeSpec.seeValue b m) := by
  rw [see_eq_model_minimax b m thr hp ht, modelValue_eq_seeValue hgeo]

/-- (c) Geometry: on a well-formed board, for a move whose origin square is occupied, the
    incrementally maintained attacker set yields the from-scratch capture sequence. -/
theorem attackers_incremental {b : Board} (hwf : b.wf = true) (m : Move)
    (hsrc : b.occ.getLsbD (Move.src m) = true) : AttackersIncremental b m :=
  Proofs.SeeGeom.attackersIncremental hwf m hsrc

/-- **C18.**  For every valid position, every legal move and every threshold `|thr| ≤ 2·Q` the static
    exchange test answers true exactly when the minimax value of the exchange is at least the threshold. -/
theorem see_eq_minimax {b : Board} {m : Move} {thr : Int} (hv : Board.valid b = true)
    (hl : Rules.legal b.abs (decodeMove m) = true) (ht : ThrDom thr) :
    See.see b m thr = decide (thr ≤ SeeSpec.seeValue b m) :=
  see_eq_minimax_of_incremental b m thr (legal_promo_ne7 hl) ht
    (attackers_incremental (Bridge.wf_of_valid hv) m (Proofs.SeeGeom.legal_src_occupied hl))

theorem C18_holds : C18_full := fun _ _ _ hv hl ht => see_eq_minimax hv hl ht

/-- Monotone, against the specification: if the balance reaches a threshold it reaches every lower one. -/
theorem see_monotone_valid {b : Board} {m : Move} {thr thr' : Int} (hv : Board.valid b = true)
    (hl : Rules.legal b.abs (decodeMove m) = true) (ht : ThrDom thr) (ht' : ThrDom thr') (hle : thr' ≤ thr)
    (h : See.see b m thr = true) : See.see b m thr' = true :=
  see_monotone b m (legal_promo_ne7 hl) ht ht' hle h

/-- Model faithfulness: the Go loop is unbounded, the model's has fuel `See.fuel = 65`.  On a
    well-formed board the fuel is never exhausted — any larger fuel gives the same loop answer. -/
theorem see_fuel_suffices {b : Board} (hwf : b.wf = true) (m : Move) (k : Nat) (swap : Int) (res : Bool) :
    See.loop b (Move.dst m) (See.fuel + k) (See.geo0 b m) swap res =
      See.loop b (Move.dst m) See.fuel (See.geo0 b m) swap res :=
  Proofs.SeeFuel.loop_fuel hwf m k swap res

/-! ### Non-vacuity -/

/-- N×P defended by a pawn, a second knight behind: value `100 − (300 − 100) = −100`;
    the loop says yes for `−150`, no for `−50` (both inside the loop, no early header exit). -/
example : SeeSpec.best 300 [.piece 100, .piece 300] = 200 := by decide
example : absSee 100 300 (-150) [.piece 100, .piece 300] = true := by decide
example : absSee 100 300 (-50) [.piece 100, .piece 300] = false := by decide
example : CapsOK [.piece 100, .piece 300] ∧ ThrDom (-150) :=
  ⟨by intro c hc; simp at hc; rcases hc with rfl | rfl <;> simp, by rw [thrDom_iff]; omega⟩
/-- the king rule: Q×P defended only by the king while a rook x-rays from behind the queen. -/
example : SeeSpec.best 900 [.king false] = 0 ∧ SeeSpec.best 900 [.king true] = 900 := by decide
/-- a promotion with capture (`e7×d8=Q`: promotion code 5) is in the domain of (a'), (b), (c). -/
example : Move.promo (Move.mk 52 59 5) ≠ 7 := by decide


/-- `3r2k1/8/4pn2/3p4/8/2N5/6B1/3R2K1 w`: the exchange on d5 after Nc3×d5 — pawn e6 recaptures, then
    Bg2 (x-ray opened by nothing: direct), Nf6, Rd1, Rd8: five recapturers, batteries on file and diagonal. -/
def exch : Board :=
  { sq := #v[.none, .none, .none, .rook, .none, .none, .king, .none,
             .none, .none, .none, .none, .none, .none, .bishop, .none,
             .none, .none, .knight, .none, .none, .none, .none, .none,
             .none, .none, .none, .none, .none, .none, .none, .none,
             .none, .none, .none, .pawn, .none, .none, .none, .none,
             .none, .none, .none, .none, .pawn, .knight, .none, .none,
             .none, .none, .none, .none, .none, .none, .none, .none,
             .none, .none, .none, .rook, .none, .none, .king, .none],
    pieces := #v[0, bit 35 ||| bit 44, bit 18 ||| bit 45, bit 14, bit 3 ||| bit 59, 0, bit 6 ||| bit 62],
    colors := #v[bit 3 ||| bit 6 ||| bit 14 ||| bit 18, bit 35 ||| bit 44 ||| bit 45 ||| bit 59 ||| bit 62],
    hashes := [], fullMoves := 1, stm := .white, ep := 0, castles := 0#4, fifty := 0 }

/-- the hypotheses of `see_eq_minimax` hold for a concrete position and the capture Nc3×d5 … -/
theorem exch_valid : Board.valid exch = true := by decide +kernel
theorem exch_legal : Rules.legal exch.abs (decodeMove (Move.mk 18 35 0)) = true := by decide +kernel
/-- … the specification (pure coordinate arithmetic) evaluates in the kernel: the exchange loses 200 … -/
theorem exch_value : SeeSpec.seeValue exch (Move.mk 18 35 0) = -200 := by decide +kernel
example : SeeSpec.capsOf exch (Move.mk 18 35 0) = [.piece 100, .piece 300, .piece 300, .piece 500, .piece 500] := by
  decide +kernel
/-- … hence, by the theorem, the model of heur.SEE (whose magic-table lookups the kernel could never
    evaluate) says yes for −200 and no for −199. -/
example : See.see exch (Move.mk 18 35 0) (-200) = true := by
  rw [see_eq_minimax exch_valid exch_legal ((thrDom_iff _).2 (by omega)), exch_value]; decide
example : See.see exch (Move.mk 18 35 0) (-199) = false := by
  rw [see_eq_minimax exch_valid exch_legal ((thrDom_iff _).2 (by omega)), exch_value]; decide

end ChessVerif.Props.C18
