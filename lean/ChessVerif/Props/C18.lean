/-
  C18 — static exchange evaluation.

  "For every valid position, every legal move and every threshold, the static exchange test answers
  true exactly when the material balance of the best alternating capture sequence on the destination
  square - each side capturing with a least valuable attacker, able to stop at any point, x-ray
  attackers joining as lines open, the king capturing only when no enemy attacker remains, pins and
  promotions by recapturing pawns ignored - is at least the threshold, for some choice among equally
  valued least attackers.  In particular the answer is monotone: if it holds for a threshold it holds
  for every lower one."

  * `See.see`            executable model of heur.SEE (Model/See.lean), tied to the Go code by the
                         `heur -suite c18` correspondence harness;
  * `SeeSpec.seeValue`   the textbook minimax with attackers recomputed from scratch by coordinate
                         geometry (Spec/SeeMinimax.lean); the "some choice among equally valued least
                         attackers" is: knights before bishops, then the lowest square;
  * thresholds: `|thr| ≤ 2·Q = 1800` (`Q = PieceValues[Queen] = 900`; SEE is only ever called with
    `0`, `-captHist` (|·| ≤ 1024) and small multiples of the depth).

  PROVED here without any hypothesis on the position: the arithmetic half — `see` answers exactly
  `thr ≤ minimax value` of the capture sequence its own loop walks through (`see_eq_model_minimax`),
  hence monotonicity (`see_monotone`).  The geometric half — that sequence (incrementally maintained
  attacker set, x-rays added only along the line of the piece just lifted, per-side progress
  markers) equals the from-scratch sequence of the specification — is the named hypothesis
  `AttackersIncremental b m` of `see_eq_minimax_partial`; the harness compares the two sequences
  themselves on every input (zero differences).  `C18_full` is the full statement; it follows from
  `∀ valid b, legal m, AttackersIncremental b m` (`C18_full_of_incremental`).
-/
import ChessVerif.Proofs.SeeLoop
import ChessVerif.Proofs.SeeLegal

namespace ChessVerif.Props.C18
open ChessVerif ChessVerif.Proofs.SeeAbstract ChessVerif.Proofs.SeeLoop ChessVerif.Proofs.SeeLegal

/-- the threshold domain `|thr| ≤ 2·Q`. -/
def ThrDom (thr : Int) : Prop := -(2 * SeeSpec.pv 5) ≤ thr ∧ thr ≤ 2 * SeeSpec.pv 5

theorem thrDom_iff (thr : Int) : ThrDom thr ↔ -1800 ≤ thr ∧ thr ≤ 1800 := by
  have : SeeSpec.pv 5 = 900 := by decide
  unfold ThrDom; rw [this]; omega

/-- The full property. -/
def C18_full : Prop :=
  ∀ (b : Board) (m : Move) (thr : Int), Board.valid b = true → Rules.legal b.abs (decodeMove m) = true →
    ThrDom thr → See.see b m thr = decide (thr ≤ SeeSpec.seeValue b m)

/-- (a) The early-exit threshold loop with its parity flag `res` and the running `swap` equals the
    comparison `thr ≤ minimax value`, on the bare list of capture values (piece values in 0..20000). -/
theorem see_loop_eq_minimax (l : List SeeSpec.Cap) (v swap : Int) (hl : CapsOK l) (hv : v ≤ 20000) :
    (0 < swap → swap ≤ v → absLoop l swap true = decide (SeeSpec.best v l ≤ v - swap)) ∧
    (0 ≤ swap → swap < v → absLoop l swap false = decide (v - swap ≤ SeeSpec.best v l)) :=
  Proofs.SeeAbstract.see_loop_eq_minimax l v swap hl hv

/-- (a') For EVERY board and every move word whose promotion code indexes `PieceValues`, `SEE` answers
    exactly `thr ≤ minimax value of the capture sequence its loop walks` (no int16 wrap occurs). -/
theorem see_eq_model_minimax (b : Board) (m : Move) (thr : Int) (hp : Move.promo m ≠ 7) (ht : ThrDom thr) :
    See.see b m thr = decide (thr ≤ modelValue b m) :=
  Proofs.SeeLoop.see_eq_model_minimax b m thr hp ((thrDom_iff thr).1 ht)

/-- (b) Monotone: if the test holds for a threshold it holds for every lower one. -/
theorem see_monotone (b : Board) (m : Move) {thr thr' : Int} (hp : Move.promo m ≠ 7)
    (ht : ThrDom thr) (ht' : ThrDom thr') (hle : thr' ≤ thr) (h : See.see b m thr = true) :
    See.see b m thr' = true := by
  rw [see_eq_model_minimax b m thr hp ht, decide_eq_true_iff] at h
  rw [see_eq_model_minimax b m thr' hp ht', decide_eq_true_iff]
  omega

/-- (c, conditional) With the geometric hypothesis the test is the comparison with the
    specification's minimax value. -/
theorem see_eq_minimax_partial (b : Board) (m : Move) (thr : Int) (hp : Move.promo m ≠ 7) (ht : ThrDom thr)
    (hgeo : AttackersIncremental b m) :
    See.see b m thr = decide (thr ≤ SeeSpec.seeValue b m) := by
  rw [see_eq_model_minimax b m thr hp ht, modelValue_eq_seeValue hgeo]

/-- What is missing for the full property is exactly the geometric hypothesis on valid positions
    and legal moves. -/
theorem C18_full_of_incremental
    (hgeo : ∀ (b : Board) (m : Move), Board.valid b = true → Rules.legal b.abs (decodeMove m) = true →
      AttackersIncremental b m) : C18_full :=
  fun b m thr hv hl ht => see_eq_minimax_partial b m thr (legal_promo_ne7 hl) ht (hgeo b m hv hl)

/-! ### Non-vacuity -/

/-- N×P defended by a pawn, a second knight behind: value `100 − (300 − 100) = −100`;
    the loop says yes for `−150`, no for `−50` (both inside the loop, no early header exit). -/
example : SeeSpec.best 300 [.piece 100, .piece 300] = 200 := by decide
example : absSee 100 300 (-150) [.piece 100, .piece 300] = true := by decide
example : absSee 100 300 (-50) [.piece 100, .piece 300] = false := by decide
example : CapsOK [.piece 100, .piece 300] ∧ ThrDom (-150) :=
  ⟨by intro c hc; simp at hc; rcases hc with rfl | rfl <;> simp, by rw [thrDom_iff]; omega⟩
/-- the king rule: Q×P defended only by the king while a rook x-rays from behind the queen. -/
example : SeeSpec.best 900 [.king false] = 0 ∧ SeeSpec.best 900 [.king true] = 900 := by decide
/-- a promotion with capture (`e7×d8=Q`: promotion code 5) is in the domain of (a'), (b), (c). -/
example : Move.promo (Move.mk 52 59 5) ≠ 7 := by decide

end ChessVerif.Props.C18
