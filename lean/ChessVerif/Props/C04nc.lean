/-
  C04 without any clock condition — property theorems + non-vacuity examples only (proofs in
  Proofs/BoardNC.lean on top of Proofs/HashInv.lean).

  `Props.C04.inv_make` / `inv_reachable` take the local facts `MakeOK` (whose clock clauses say "the clock
  is an int8") and so already hold for every int8 clock; `inv_make_valid` derives them from `Board.valid`
  (clock in `[0,100]`).  The hash never reads the clock, so in fact NO clock hypothesis is needed — not
  even int8: for every `ValidNC` board and every generated move the invariant
  (three placements agree ∧ incremental hash = from-scratch hash) is preserved.
-/
import ChessVerif.Proofs.BoardNCExample
import ChessVerif.Props.C04

namespace ChessVerif.Props.C04nc
set_option autoImplicit false
open ChessVerif Board

abbrev ValidNC := RepClosed.ValidNC

/-- the invariant and the from-scratch hash do not read the clock. -/
theorem inv_setFifty (K : Keys) {b : Board} (x : Int) : Inv K (setFifty b x) ↔ Inv K b := RepClosed.inv_setFifty K x
theorem calcHash_setFifty (K : Keys) (b : Board) (x : Int) : calcHash K (setFifty b x) = calcHash K b := rfl

/-- **C04, one move, any clock**: any generated (pseudo-legal) move of a `ValidNC` board. -/
theorem inv_make_nc (K : Keys) {b : Board} {m : Move} (h : Inv K b) (hv : ValidNC b) (hm : m ∈ MoveGen.gen b) :
    Inv K (makeMove K b m).1 := NC.inv_make_nc K h hv hm

/-- **C04 in every position reached by playing moves** (any number of moves, any clock). -/
theorem inv_reachable_nc (K : Keys) {b b' : Board} (hv : ValidNC b) (h : Inv K b) (hr : NC.Reachable K b b') :
    Inv K b' := NC.inv_reachable_nc K hv h hr

/-- … in particular `Hash()` is `calculateHash` there. -/
theorem hash_reachable_nc (K : Keys) {b b' : Board} (hv : ValidNC b) (h : Inv K b) (hr : NC.Reachable K b b') :
    b'.hash = calcHash K b' := (NC.inv_reachable_nc K hv h hr).hash_eq

/-- **C04 along every search line** (generated moves, a possibly illegal last move, null moves out of
    check), any clock. -/
theorem inv_line_nc (K : Keys) {b : Board} (ops : List Op) (hv : ValidNC b) (h : Inv K b)
    (hl : NC.SearchLine K b ops) : Inv K (NC.lineBoard K b ops) := NC.inv_line_nc K ops b hv h hl

/-- two lines of playable moves that reach the same position yield the same hash — any clocks. -/
theorem transposition_reachable_nc (K : Keys) {b b₁ b₂ : Board} (hv : ValidNC b) (h : Inv K b)
    (r₁ : NC.Reachable K b b₁) (r₂ : NC.Reachable K b b₂) (same : SamePosition b₁ b₂) : b₁.hash = b₂.hash :=
  Board.transposition_hash K (NC.inv_reachable_nc K hv h r₁) (NC.inv_reachable_nc K hv h r₂) same

/-! ### non-vacuity: the board with the clock wrapped to −124, its hash history freshly reset -/

open NC.Example

example (K : Keys) : Inv K (resetHash K wrapped) := Props.C04.inv_resetHash K (NC.wf_of_validNC wrapped_validNC)
example (K : Keys) : ValidNC (resetHash K wrapped) := wrapped_validNC
example (K : Keys) : Inv K (makeMove K (resetHash K wrapped) bd3).1 :=
  inv_make_nc K (Props.C04.inv_resetHash K (NC.wf_of_validNC wrapped_validNC)) wrapped_validNC
    (by rw [gen_resetHash]; exact bd3_gen)
-- no int8 hypothesis: even the (impossible in Go) clock 300 does not disturb the hash
example (K : Keys) : Inv K (makeMove K (setFifty (resetHash K wrapped) 300) bd3).1 :=
  inv_make_nc K ((inv_setFifty K 300).2 (Props.C04.inv_resetHash K (NC.wf_of_validNC wrapped_validNC)))
    ((RepClosed.validNC_setFifty 300).2 wrapped_validNC) (by rw [gen_reset300]; exact bd3_gen)

end ChessVerif.Props.C04nc
