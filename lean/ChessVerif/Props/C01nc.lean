/-
  C01 without the clock side condition (DESIGN §6 O1) — property theorems + non-vacuity examples only;
  proofs in Proofs/RepClosedClock.lean (`setFifty_make`, `ValidNC`) and Proofs/BoardNC.lean.

  "For every valid chess position, the set of moves the engine treats as playable … is exactly the set
  of legal moves under the FIDE rules … and contains no move twice.  This holds whether the position
  was loaded from FEN or REACHED BY PLAYING MOVES."  Positions reached by playing moves may have any
  halfmove clock: beyond 100 (outside `Board.valid`, which mirrors what the FEN parser accepts) and, as
  the field is an int8, wrapped to negative values after 128 reversible plies.  Neither move
  generation nor the king-safety filter nor the rule book's legality reads the clock, so everything
  holds for `ValidNC b` := "`Board.valid` of `b` with its clock reset to 0" = every clause of
  `Board.valid` except the two clock bounds; and `ValidNC` is closed under playable moves with NO side
  condition.
-/
import ChessVerif.Proofs.BoardNCExample

namespace ChessVerif.Props.C01nc
set_option autoImplicit false
open ChessVerif Board

/-- every clause of `Board.valid` except `0 ≤ clock ≤ 100`. -/
abbrev ValidNC := RepClosed.ValidNC

theorem validNC_of_valid {b : Board} (h : Board.valid b = true) : ValidNC b := RepClosed.validNC_of_valid h

/-- `ValidNC` does not look at the clock … -/
theorem validNC_setFifty {b : Board} (x : Int) : ValidNC (setFifty b x) ↔ ValidNC b := RepClosed.validNC_setFifty x

/-- … and with the clock in `[0,100]` it is `Board.valid`. -/
theorem valid_iff_validNC (b : Board) : Board.valid b = true ↔ ValidNC b ∧ 0 ≤ b.fifty ∧ b.fifty ≤ 100 := by
  constructor
  · intro h
    have V := (Playable.validP_iff _).1 (Bridge.rulesValid_of_valid h)
    exact ⟨validNC_of_valid h, V.hm0, V.hm100⟩
  · rintro ⟨h, h0, h1⟩; exact RepClosed.valid_of_validNC h h0 h1

/-- **C01 (membership), any clock** — including clocks beyond 100 and wrapped negative ones. -/
theorem playable_eq_legal_nc (K : Keys) {b : Board} (hv : ValidNC b) (m : Move) :
    m ∈ MoveGen.playable K b ↔
      m < 32768 ∧ Rules.legal (abs b) (decodeMove m) = true ∧ encodeMove (decodeMove m) = m :=
  NC.playable_iff K hv m

theorem legal_playable_nc (K : Keys) {b : Board} (hv : ValidNC b) (mv : Rules.Mv)
    (h : Rules.legal (abs b) mv = true) :
    encodeMove mv ∈ MoveGen.playable K b ∧ decodeMove (encodeMove mv) = mv := NC.legal_playable K hv mv h

/-- **C01 (same set)**. -/
theorem mem_playable_decoded_nc (K : Keys) {b : Board} (hv : ValidNC b) (mv : Rules.Mv) :
    mv ∈ (MoveGen.playable K b).map decodeMove ↔ mv ∈ Rules.legalMoves (abs b) := NC.mem_playable_decoded K hv mv

/-- **C01 (no move twice)**. -/
theorem playable_nodup_nc (K : Keys) {b : Board} (hv : ValidNC b) : (MoveGen.playable K b).Nodup :=
  NC.playable_nodup K hv

theorem playable_decoded_nodup_nc (K : Keys) {b : Board} (hv : ValidNC b) :
    ((MoveGen.playable K b).map decodeMove).Nodup := NC.playable_decoded_nodup K hv

/-- **C01 (list form)**: the decoded playable moves are a permutation of the rule book's legal moves. -/
theorem playable_perm_legal_nc (K : Keys) {b : Board} (hv : ValidNC b) :
    ((MoveGen.playable K b).map decodeMove).Perm (Rules.legalMoves (abs b)) := NC.playable_perm_legal K hv

/-- **closure with NO side condition**: the successor of a `ValidNC` board by a playable move is
    `ValidNC`. -/
theorem validNC_make (K : Keys) {b : Board} {m : Move} (hv : ValidNC b) (hm : m ∈ MoveGen.playable K b) :
    ValidNC (b.makeMove K m).1 := NC.validNC_make K hv hm

/-- … and a null move by a side not in check keeps it too. -/
theorem validNC_null (K : Keys) {b : Board} (hv : ValidNC b) (hchk : b.inCheck b.stm = false) :
    ValidNC (b.makeNull K).1 := NC.validNC_null K hv hchk

/-- `b'` is reached from `b` by any number of playable moves (no condition on the clock). -/
abbrev Reachable := NC.Reachable

/-- the clock-bounded reachability of `Props.C01` is a special case. -/
theorem reachable_of_bounded (K : Keys) {b b' : Board} (h : Playable.Reachable K b b') : Reachable K b b' :=
  NC.reachable_of_bounded K h

/-- a list of moves each playable in turn reaches its end position. -/
theorem reachable_run (K : Keys) (b : Board) (ms : List Move) (h : EpTarget.PlayableSeq K b ms) :
    Reachable K b (EpTarget.run K b ms) := NC.reachable_run K ms b b NC.Reachable.refl h

/-- **"reached by playing moves"**: every board reached from a valid (or merely `ValidNC`) board by any
    number of playable moves is `ValidNC`, and C01 holds in it. -/
theorem reachable_nc (K : Keys) {b b' : Board} (hv : ValidNC b) (h : Reachable K b b') :
    ValidNC b' ∧
    (∀ m, m ∈ MoveGen.playable K b' ↔
      m < 32768 ∧ Rules.legal (abs b') (decodeMove m) = true ∧ encodeMove (decodeMove m) = m) ∧
    ((MoveGen.playable K b').map decodeMove).Perm (Rules.legalMoves (abs b')) ∧
    (MoveGen.playable K b').Nodup := by
  have hv' := NC.validNC_reachable K hv h
  exact ⟨hv', fun m => NC.playable_iff K hv' m, NC.playable_perm_legal K hv', NC.playable_nodup K hv'⟩

theorem reachable_from_valid (K : Keys) {b b' : Board} (hv : Board.valid b = true) (h : Reachable K b b') :
    ValidNC b' ∧ ((MoveGen.playable K b').map decodeMove).Perm (Rules.legalMoves (abs b')) ∧
    (MoveGen.playable K b').Nodup :=
  let r := reachable_nc K (validNC_of_valid hv) h
  ⟨r.1, r.2.2.1, r.2.2.2⟩

/-- the clock-free closure as a closed proposition (compare `Props.C01.C01_closure_full`, which carries
    the side condition `clock ≤ 100`). -/
def C01_closure_nc : Prop :=
  ∀ (K : Keys) (b : Board) (m : Move), ValidNC b → m ∈ MoveGen.playable K b → ValidNC (b.makeMove K m).1

theorem C01_closure_nc_holds : C01_closure_nc := fun K _ _ hv hm => validNC_make K hv hm

/-! ### non-vacuity: a board whose int8 clock has wrapped to −124 -/

open NC.Example

-- outside the old domain, inside the new one
example : Board.valid wrapped = false ∧ ValidNC wrapped ∧ wrapped.fifty = -124 :=
  ⟨wrapped_invalid, wrapped_validNC, rfl⟩
-- C01 there: the king move is legal hence playable, the pinned bishop's move is generated but neither
-- legal nor playable — for every key table
example (K : Keys) : kd1 ∈ MoveGen.playable K wrapped := kd1_playable K
example : bd3 ∈ MoveGen.gen wrapped := bd3_gen
example (K : Keys) : bd3 ∉ MoveGen.playable K wrapped := bd3_not_playable K
example (K : Keys) : ((MoveGen.playable K wrapped).map decodeMove).Perm (Rules.legalMoves (abs wrapped)) :=
  playable_perm_legal_nc K wrapped_validNC
-- closure: the successor (clock −123) is in the domain again, and so on for ever
example (K : Keys) : ValidNC (wrapped.makeMove K kd1).1 := validNC_make K wrapped_validNC (kd1_playable K)
example (K : Keys) : Reachable K wrapped (wrapped.makeMove K kd1).1 :=
  NC.Reachable.step NC.Reachable.refl (kd1_playable K)
-- the board of `Props.C01` whose quiet move leaves `Board.valid` (clock 100 → 101) stays `ValidNC`
example : ValidNC Props.C01.pinned100 := validNC_of_valid Props.C01.pinned100_valid

end ChessVerif.Props.C01nc
