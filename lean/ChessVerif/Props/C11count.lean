/-
  C11 (piece-count clause) — `Board.InvalidPieceCount` never rejects reachable material.

  About `Gen.Funcs.invalidPieceCount`, the Lean translation of the loop body of
  /repo/board/board.go `InvalidPieceCount` as a function of, per colour, the flag "king bitboard is a
  power of two" and the five population counts (knights, bishops, rooks, queens, pawns), with
  `wrapS64` at every `int` operation.  `PromotedBound k n b r q p` is the counting consequence of the
  rules: one king, and the promoted material `Σ max(0, nᵢ − initᵢ)` (init = 2,2,2,1 for N,B,R,Q) fits into
  the missing pawns `8 − p`.
-/
import ChessVerif.Gen.Funcs

set_option linter.unusedSimpArgs false

namespace ChessVerif.Props.C11count
open ChessVerif ChessVerif.Gen.Funcs

/-! ### Vocabulary and the two per-side lemmas
  (kept in this file rather than in a `Proofs/` module so that a regression of the piece-count test
  cannot break the build of an unrelated property; everything is `omega` after removing the wraps) -/

theorem wrapS64_id' {x : Int} (h1 : -9223372036854775808 ≤ x) (h2 : x ≤ 9223372036854775807) : wrapS64 x = x := by
  unfold wrapS64; omega

/-- The promotion bound for one side: exactly one king and
    `Σ max(0, nᵢ − initᵢ) ≤ 8 − pawns` with init = 2,2,2,1 for N,B,R,Q; counts are non-negative. -/
def PromotedBound (kingPow2 : Bool) (n b r q p : Int) : Prop :=
  kingPow2 = true ∧ 0 ≤ n ∧ 0 ≤ b ∧ 0 ≤ r ∧ 0 ≤ q ∧ 0 ≤ p ∧
    max 0 (n - 2) + max 0 (b - 2) + max 0 (r - 2) + max 0 (q - 1) ≤ 8 - p

instance (k : Bool) (n b r q p : Int) : Decidable (PromotedBound k n b r q p) := by
  unfold PromotedBound; exact inferInstance

theorem side_accepts {k : Bool} {n b r q p : Int} (h : PromotedBound k n b r q p) :
    invalidPieceCountSide k n b r q p = false := by
  simp only [PromotedBound] at h
  obtain ⟨hk, h1, h2, h3, h4, h5, h6⟩ := h
  subst hk
  simp only [invalidPieceCountSide, not_true_eq_false, ↓reduceIte]
  simp (disch := omega) only [wrapS64_id']
  refine if_neg ?_
  omega

/-- For population counts (0..64) the translated test is EXACTLY the negation of the bound. -/
theorem side_iff {k : Bool} {n b r q p : Int} (hn : 0 ≤ n ∧ n ≤ 64) (hb : 0 ≤ b ∧ b ≤ 64) (hr : 0 ≤ r ∧ r ≤ 64)
    (hq : 0 ≤ q ∧ q ≤ 64) (hp : 0 ≤ p ∧ p ≤ 64) :
    invalidPieceCountSide k n b r q p = false ↔ PromotedBound k n b r q p := by
  cases k
  · simp [invalidPieceCountSide, PromotedBound]
  · simp only [invalidPieceCountSide, PromotedBound, not_true_eq_false, ↓reduceIte, true_and]
    simp (disch := omega) only [wrapS64_id']
    constructor
    · intro hf
      split at hf
      · exact absurd hf (by decide)
      · omega
    · intro hb
      refine if_neg ?_
      omega

/-! ### The property -/

/-- Counts satisfying the promotion bound on both sides are accepted. -/
theorem pieceCount_accepts_reachable {wk bk : Bool} {wn wb wr wq wp bn bb br bq bp : Int}
    (hw : PromotedBound wk wn wb wr wq wp) (hb : PromotedBound bk bn bb br bq bp) :
    invalidPieceCount wk wn wb wr wq wp bk bn bb br bq bp = false := by
  simp only [invalidPieceCount, side_accepts hw, side_accepts hb, Bool.or_self]

/-- Converse for real population counts (0..64): whatever is accepted satisfies the bound on both
    sides, i.e. the test is exact, not merely sound. -/
theorem pieceCount_rejects_unreachable {wk bk : Bool} {wn wb wr wq wp bn bb br bq bp : Int}
    (h1 : 0 ≤ wn ∧ wn ≤ 64) (h2 : 0 ≤ wb ∧ wb ≤ 64) (h3 : 0 ≤ wr ∧ wr ≤ 64) (h4 : 0 ≤ wq ∧ wq ≤ 64) (h5 : 0 ≤ wp ∧ wp ≤ 64)
    (g1 : 0 ≤ bn ∧ bn ≤ 64) (g2 : 0 ≤ bb ∧ bb ≤ 64) (g3 : 0 ≤ br ∧ br ≤ 64) (g4 : 0 ≤ bq ∧ bq ≤ 64) (g5 : 0 ≤ bp ∧ bp ≤ 64)
    (h : invalidPieceCount wk wn wb wr wq wp bk bn bb br bq bp = false) :
    PromotedBound wk wn wb wr wq wp ∧ PromotedBound bk bn bb br bq bp := by
  simp only [invalidPieceCount, Bool.or_eq_false_iff] at h
  exact ⟨(side_iff h1 h2 h3 h4 h5).1 h.1, (side_iff g1 g2 g3 g4 g5).1 h.2⟩

/-! ## Non-vacuity -/

/-- the initial material -/
example : PromotedBound true 2 2 2 1 8 := by decide
/-- nine queens (eight promoted pawns), and ten knights -/
example : PromotedBound true 2 2 2 9 0 ∧ PromotedBound true 10 2 2 1 0 := by decide
/-- mixed: three knights, three rooks, two queens with five pawns left -/
example : PromotedBound true 3 2 3 2 5 := by decide
example : invalidPieceCount true 2 2 2 9 0 true 10 2 2 1 0 = false := by decide
/-- rejected: ten queens; two kings; nine pawns -/
example : invalidPieceCount true 2 2 2 10 0 true 2 2 2 1 8 = true ∧
    invalidPieceCount false 2 2 2 1 8 true 2 2 2 1 8 = true ∧
    invalidPieceCount true 2 2 2 1 9 true 2 2 2 1 8 = true := by decide

end ChessVerif.Props.C11count
