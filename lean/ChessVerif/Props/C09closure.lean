/-
  C09, closure under play: the domain clause `Rules.epSound` of the checkmate half of C09 restricts
  only what may be LOADED (a FEN with an en-passant target behind a pawn that could not have pushed);
  every position the engine reaches by playing a playable move from a valid position satisfies it —
  together with validity (C01 `valid_make`) and the engine-normal en-passant state (C02
  `epNormal_make`).  Hence both fast tests are exact, with no extra hypothesis, in every position
  reached by play (property theorems + a non-vacuity example only).
-/
import ChessVerif.Props.C09
import ChessVerif.Props.C01
import ChessVerif.Props.C02
import ChessVerif.Proofs.EpSoundApply

namespace ChessVerif.Props.C09closure
open ChessVerif Board

/-- Rule-book level: after any legal move from a valid position the recorded en-passant target (if
    any) belongs to a pawn that really could just have double-pushed. -/
theorem epSound_apply (p : Rules.Pos) (mv : Rules.Mv) (hv : Rules.valid p = true) (hl : Rules.legal p mv = true) :
    Rules.epSound (Rules.apply p mv) = true :=
  EpSoundApply.epSound_apply p mv hv hl

/-- … and so does the position the engine reaches by `MakeMove`. -/
theorem epSound_make (K : Keys) {b : Board} {m : Move} (hv : Board.valid b = true) (hm : m ∈ MoveGen.playable K b) :
    Rules.epSound (abs (b.makeMove K m).1) = true := by
  rw [C02.make_refines_rules K hv hm]
  exact EpSoundApply.epSound_apply _ _ (Bridge.rulesValid_of_valid hv) ((C01.playable_eq_legal K hv m).1 hm).2.1

/-- **C09 in every position reached by play**: valid `b`, playable `m`, halfmove clock below 100 (the
    range in which the successor is still a position the repo's own FEN parser accepts, DESIGN §6 O1):
    in the successor, `IsCheckmate()` ⇔ in check and no legal move, `IsStalemate()` ⇔ not in check and
    no legal move — with NO hypothesis about the en-passant state. -/
theorem mate_tests_exact_after_move (K : Keys) {b : Board} {m : Move} (hv : Board.valid b = true)
    (hm : m ∈ MoveGen.playable K b) (hclock : b.fifty < 100) :
    let b' := (b.makeMove K m).1
    (b'.inCheck b'.stm = true → (b'.isCheckmate = true ↔ Rules.legalMoves (abs b') = [])) ∧
    (b'.inCheck b'.stm = false → (b'.isStalemate = true ↔ Rules.legalMoves (abs b') = [])) := by
  intro b'
  have hv' : Board.valid b' = true := C01.valid_make_of_clock_lt K hv hm hclock
  have hn' : Rules.epNormal (abs b') = true := C02.epNormal_make K hv (EpTarget.playable_gen hm)
  have hs' : Rules.epSound (abs b') = true := epSound_make K hv hm
  have h := ChessVerif.C09.C09 b' hv' hn'
  exact ⟨fun hc => h.1 hs' hc, h.2⟩

/-! non-vacuity: `4k3/8/8/8/3p4/8/4P3/4K3 w` and the double push e2-e4 (the successor records e3, the
    target is sound, and the theorem applies to it). -/
open Color Piece in
def kp : Board := ChessVerif.C09.mk [(4, white, king), (60, black, king), (12, white, pawn), (27, black, pawn)] white 0

/-- the hypotheses are met (rule-book legality is evaluated by the kernel; playability follows by
    C01 — evaluating `makeMove` itself in the kernel would drag in the magic tables). -/
theorem kp_valid : kp.valid = true := by decide +kernel
theorem kp_e4_legal : Rules.legal (abs kp) ⟨12, 28, none⟩ = true := by decide +kernel
theorem kp_e4_playable : encodeMove ⟨12, 28, none⟩ ∈ MoveGen.playable zeroKeys kp :=
  (C01.legal_playable zeroKeys kp_valid _ kp_e4_legal).1

/-- … so the theorem applies to the position after 1. e4 (en-passant target e3 recorded: d4xe3 is legal). -/
example :
    let b' := (kp.makeMove zeroKeys (encodeMove ⟨12, 28, none⟩)).1
    (b'.inCheck b'.stm = true → (b'.isCheckmate = true ↔ Rules.legalMoves (abs b') = [])) ∧
    (b'.inCheck b'.stm = false → (b'.isStalemate = true ↔ Rules.legalMoves (abs b') = [])) :=
  mate_tests_exact_after_move zeroKeys kp_valid kp_e4_playable (by decide +kernel)

/-- the rule-book successor does record the target, and it is sound -/
example : (Rules.applyCore (abs kp) ⟨12, 28, none⟩).ep = some 20 := by decide +kernel
example : Rules.epSound (Rules.apply (abs kp) ⟨12, 28, none⟩) = true :=
  epSound_apply _ _ (Bridge.rulesValid_of_valid kp_valid) kp_e4_legal

end ChessVerif.Props.C09closure
