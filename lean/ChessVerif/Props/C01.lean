/-
  C01 — "For every valid chess position, the set of moves the engine treats as playable (generated
  moves that do not leave the mover's own king attacked) is exactly the set of legal moves under the
  FIDE rules, including castling, en passant, promotions and under-promotions, and contains no move
  twice.  This holds whether the position was loaded from FEN or reached by playing moves."

  Engine side: `MoveGen.playable K b` = `GenNoisy ++ GenNotNoisy` filtered by `MakeMove` +
  `InCheck(mover)` (Model/MoveGen.lean), for arbitrary Zobrist key tables `K`.
  Rule-book side: `Rules.legal` / `Rules.legalMoves` on the abstraction `abs b` (Spec/Rules.lean).
  Engine move words are compared with rule-book moves through `decodeMove` / `encodeMove`.
  (Property theorems + non-vacuity examples only; proofs in Proofs/AbsMake*.lean, Proofs/Playable*.lean.)
-/
import ChessVerif.Proofs.PlayableList
import ChessVerif.Props.C02core

namespace ChessVerif.Props.C01
open ChessVerif Board

/-- **C01 (membership)**: a move word is playable iff it is one of the 32 768 encodings, its decoding
    is a legal move of the rule book, and it is the faithful encoding of that move. -/
theorem playable_eq_legal (K : Keys) {b : Board} (hv : Board.valid b = true) (m : Move) :
    m ∈ MoveGen.playable K b ↔
      m < 32768 ∧ Rules.legal (abs b) (decodeMove m) = true ∧ encodeMove (decodeMove m) = m :=
  Playable.playable_iff K hv m

/-- every legal move of the rule book is playable (as its encoding), and decoding gives it back. -/
theorem legal_playable (K : Keys) {b : Board} (hv : Board.valid b = true) (mv : Rules.Mv)
    (h : Rules.legal (abs b) mv = true) :
    encodeMove mv ∈ MoveGen.playable K b ∧ decodeMove (encodeMove mv) = mv := by
  obtain ⟨hg, hdec⟩ := Bridge.encode_mem_gen hv mv (Playable.legal_pseudoLegal h)
  have hgm := (Bridge.gen_iff_pseudoLegal hv _).1 hg
  exact ⟨(Playable.playable_iff K hv _).2 ⟨hgm.1, by rw [hdec]; exact h, hgm.2.2⟩, hdec⟩

/-- the engine's king-safety filter after a generated move is the rule book's `inCheck` of the
    successor position (the step that joins C05, C02 and the attack bridge). -/
theorem inCheck_make (K : Keys) {b : Board} {m : Move} (hv : Board.valid b = true) (hm : m ∈ MoveGen.gen b)
    (c : Color) :
    (b.makeMove K m).1.inCheck c = Rules.inCheck (Rules.applyCore (abs b) (decodeMove m)) c :=
  Playable.inCheck_make K (AbsMake.genMove_of hv hm) c

/-- `Rules.inCheck` reads only the placement. -/
theorem inCheck_congr_men {p q : Rules.Pos} (h : p.men = q.men) (c : Color) :
    Rules.inCheck p c = Rules.inCheck q c := Playable.inCheck_congr_men h c

/-- membership in the rule book's enumeration of legal moves. -/
theorem mem_legalMoves (p : Rules.Pos) (mv : Rules.Mv) :
    mv ∈ Rules.legalMoves p ↔
      Rules.legal p mv = true ∧ mv.src < 64 ∧ mv.dst < 64 ∧ mv.promo ∈ Rules.promoChoices :=
  Playable.mem_legalMoves p mv

/-- **C01 (same set)**: the decoded playable moves are exactly the members of `Rules.legalMoves`. -/
theorem mem_playable_decoded (K : Keys) {b : Board} (hv : Board.valid b = true) (mv : Rules.Mv) :
    mv ∈ (MoveGen.playable K b).map decodeMove ↔ mv ∈ Rules.legalMoves (abs b) :=
  Playable.mem_playable_decoded K hv mv

/-- **C01 (no move twice)**, engine words. -/
theorem playable_nodup (K : Keys) {b : Board} (hv : Board.valid b = true) : (MoveGen.playable K b).Nodup :=
  Playable.playable_nodup K hv

/-- `decodeMove` is injective on the generated words, so "no word twice" is "no move twice". -/
theorem decode_injOn_gen {b : Board} (hv : Board.valid b = true) {m₁ m₂ : Move}
    (h₁ : m₁ ∈ MoveGen.gen b) (h₂ : m₂ ∈ MoveGen.gen b) (h : decodeMove m₁ = decodeMove m₂) : m₁ = m₂ :=
  Playable.decode_injOn_gen hv h₁ h₂ h

theorem playable_decoded_nodup (K : Keys) {b : Board} (hv : Board.valid b = true) :
    ((MoveGen.playable K b).map decodeMove).Nodup := Playable.playable_decoded_nodup K hv

theorem legalMoves_nodup (p : Rules.Pos) : (Rules.legalMoves p).Nodup := Playable.legalMoves_nodup p

/-- **C01 (list form)**: the decoded playable moves are a permutation of the rule book's list of
    legal moves — the same moves, each exactly once. -/
theorem playable_perm_legal (K : Keys) {b : Board} (hv : Board.valid b = true) :
    ((MoveGen.playable K b).map decodeMove).Perm (Rules.legalMoves (abs b)) :=
  Playable.playable_perm_legal K hv

/-- in particular the number of playable moves (perft 1) is the number of legal moves. -/
theorem playable_length (K : Keys) {b : Board} (hv : Board.valid b = true) :
    (MoveGen.playable K b).length = (Rules.legalMoves (abs b)).length := by
  rw [← (playable_perm_legal K hv).length_eq, List.length_map]

/-! ### non-vacuity -/

open C05 (start rich)
open C02core (start_valid rich_valid)

-- the legal moves of the two test positions, by the rule book: a double push; castling, the
-- en-passant capture, a promotion and a capturing under-promotion
example : Rules.legal (abs start) (decodeMove (Move.mk 12 28 0)) = true := by decide +kernel
theorem rich_castle_legal : Rules.legal (abs rich) (decodeMove (Move.mk 4 6 0)) = true := by decide +kernel
theorem rich_ep_legal : Rules.legal (abs rich) (decodeMove (Move.mk 36 43 0)) = true := by decide +kernel
theorem rich_promo_legal : Rules.legal (abs rich) (decodeMove (Move.mk 48 56 5)) = true := by decide +kernel
theorem rich_under_legal : Rules.legal (abs rich) (decodeMove (Move.mk 48 57 2)) = true := by decide +kernel

-- … hence (by the theorem, for any key table) playable
example (K : Keys) : Move.mk 4 6 0 ∈ MoveGen.playable K rich :=
  (playable_eq_legal K rich_valid _).2 ⟨by decide, rich_castle_legal, by decide⟩
example (K : Keys) : Move.mk 36 43 0 ∈ MoveGen.playable K rich :=
  (playable_eq_legal K rich_valid _).2 ⟨by decide, rich_ep_legal, by decide⟩
example (K : Keys) : Move.mk 48 56 5 ∈ MoveGen.playable K rich :=
  (playable_eq_legal K rich_valid _).2 ⟨by decide, rich_promo_legal, by decide⟩
example (K : Keys) : Move.mk 48 57 2 ∈ MoveGen.playable K rich :=
  (playable_eq_legal K rich_valid _).2 ⟨by decide, rich_under_legal, by decide⟩

-- the rule-book classification of these moves: they really are castling / en passant
example : Rules.isCastling (abs rich) (decodeMove (Move.mk 4 6 0)) = true := by decide +kernel
example : Rules.isEnPassant (abs rich) (decodeMove (Move.mk 36 43 0)) = true := by decide +kernel

-- the filter is not vacuous: with the e-file opened (`4k3/8/8/8/8/8/4r3/4K2R` style) a pseudo-legal
-- move that leaves the king attacked is rejected by both sides.  Here: in `rich`, promotion bits on a
-- non-promotion are illegal, hence not playable.
example (K : Keys) : Move.mk 36 43 5 ∉ MoveGen.playable K rich := fun h =>
  absurd ((playable_eq_legal K rich_valid _).1 h).2.1 (by decide +kernel)

end ChessVerif.Props.C01
