/-
  C01 — "For every valid chess position, the set of moves the engine treats as playable (generated
  moves that do not leave the mover's own king attacked) is exactly the set of legal moves under the
  FIDE rules, including castling, en passant, promotions and under-promotions, and contains no move
  twice.  This holds whether the position was loaded from FEN or reached by playing moves."

  Engine side: `MoveGen.playable K b` = `GenNoisy ++ GenNotNoisy` filtered by `MakeMove` +
  `InCheck(mover)` (Model/MoveGen.lean), for arbitrary Zobrist key tables `K`.
  Rule-book side: `Rules.legal` / `Rules.legalMoves` on the abstraction `abs b` (Spec/Rules.lean).
  Engine move words are compared with rule-book moves through `decodeMove` / `encodeMove`.
  Closure: `valid_make` — the successor of a valid position by a playable move is valid (clock side
  condition explicit), hence every position `Reachable` by play from a valid position is in the domain.
  (Property theorems + non-vacuity examples only; proofs in Proofs/AbsMake*.lean, Proofs/Playable*.lean.)
-/
import ChessVerif.Proofs.PlayableList
import ChessVerif.Proofs.PlayableReach
import ChessVerif.Props.C02core

namespace ChessVerif.Props.C01
open ChessVerif Board

/-- **C01 (membership)**: a move word is playable iff it is one of the 32 768 encodings, its decoding
    is a legal move of the rule book, and it is the faithful encoding of that move. -/
theorem playable_eq_legal (K : Keys) {b : Board} (hv : Board.valid b = true) (m : Move) :
    m ∈ MoveGen.playable K b ↔
      m < 32768 ∧ Rules.legal (abs b) (decodeMove m) = true ∧ encodeMove (decodeMove m) = m :=
  Playable.playable_iff K hv m

/-- every legal move of the rule book is playable (as its encoding), and decoding gives it back. -/
theorem legal_playable (K : Keys) {b : Board} (hv : Board.valid b = true) (mv : Rules.Mv)
    (h : Rules.legal (abs b) mv = true) :
    encodeMove mv ∈ MoveGen.playable K b ∧ decodeMove (encodeMove mv) = mv := by
  obtain ⟨hg, hdec⟩ := Bridge.encode_mem_gen hv mv (Playable.legal_pseudoLegal h)
  have hgm := (Bridge.gen_iff_pseudoLegal hv _).1 hg
  exact ⟨(Playable.playable_iff K hv _).2 ⟨hgm.1, by rw [hdec]; exact h, hgm.2.2⟩, hdec⟩

/-- the engine's king-safety filter after a generated move is the rule book's `inCheck` of the
    successor position (the step that joins C05, C02 and the attack bridge). -/
theorem inCheck_make (K : Keys) {b : Board} {m : Move} (hv : Board.valid b = true) (hm : m ∈ MoveGen.gen b)
    (c : Color) :
    (b.makeMove K m).1.inCheck c = Rules.inCheck (Rules.applyCore (abs b) (decodeMove m)) c :=
  Playable.inCheck_make K (AbsMake.genMove_of hv hm) c

/-- `Rules.inCheck` reads only the placement. -/
theorem inCheck_congr_men {p q : Rules.Pos} (h : p.men = q.men) (c : Color) :
    Rules.inCheck p c = Rules.inCheck q c := Playable.inCheck_congr_men h c

/-- membership in the rule book's enumeration of legal moves. -/
theorem mem_legalMoves (p : Rules.Pos) (mv : Rules.Mv) :
    mv ∈ Rules.legalMoves p ↔
      Rules.legal p mv = true ∧ mv.src < 64 ∧ mv.dst < 64 ∧ mv.promo ∈ Rules.promoChoices :=
  Playable.mem_legalMoves p mv

/-- **C01 (same set)**: the decoded playable moves are exactly the members of `Rules.legalMoves`. -/
theorem mem_playable_decoded (K : Keys) {b : Board} (hv : Board.valid b = true) (mv : Rules.Mv) :
    mv ∈ (MoveGen.playable K b).map decodeMove ↔ mv ∈ Rules.legalMoves (abs b) :=
  Playable.mem_playable_decoded K hv mv

/-- **C01 (no move twice)**, engine words. -/
theorem playable_nodup (K : Keys) {b : Board} (hv : Board.valid b = true) : (MoveGen.playable K b).Nodup :=
  Playable.playable_nodup K hv

/-- `decodeMove` is injective on the generated words, so "no word twice" is "no move twice". -/
theorem decode_injOn_gen {b : Board} (hv : Board.valid b = true) {m₁ m₂ : Move}
    (h₁ : m₁ ∈ MoveGen.gen b) (h₂ : m₂ ∈ MoveGen.gen b) (h : decodeMove m₁ = decodeMove m₂) : m₁ = m₂ :=
  Playable.decode_injOn_gen hv h₁ h₂ h

theorem playable_decoded_nodup (K : Keys) {b : Board} (hv : Board.valid b = true) :
    ((MoveGen.playable K b).map decodeMove).Nodup := Playable.playable_decoded_nodup K hv

theorem legalMoves_nodup (p : Rules.Pos) : (Rules.legalMoves p).Nodup := Playable.legalMoves_nodup p

/-- **C01 (list form)**: the decoded playable moves are a permutation of the rule book's list of
    legal moves — the same moves, each exactly once. -/
theorem playable_perm_legal (K : Keys) {b : Board} (hv : Board.valid b = true) :
    ((MoveGen.playable K b).map decodeMove).Perm (Rules.legalMoves (abs b)) :=
  Playable.playable_perm_legal K hv

/-- in particular the number of playable moves (perft 1) is the number of legal moves. -/
theorem playable_length (K : Keys) {b : Board} (hv : Board.valid b = true) :
    (MoveGen.playable K b).length = (Rules.legalMoves (abs b)).length := by
  rw [← (playable_perm_legal K hv).length_eq, List.length_map]

/-! ### closure: "loaded from FEN or reached by playing moves" -/

/-- **closure (`valid_make`)**: the successor of a valid position by a playable move is valid — one
    king each (kings are never captured), pawns off the first/last ranks, promoted-material bound,
    side not to move not in check, castling right ⇒ king and rook at home, en-passant geometry,
    representation invariant, fullmove ≥ 1, clock ≥ 0 — provided the halfmove clock stays ≤ 100
    (the only clause that can fail: the domain of the properties bounds the clock by 100). -/
theorem valid_make (K : Keys) {b : Board} {m : Move} (hv : Board.valid b = true) (hm : m ∈ MoveGen.playable K b)
    (hclock : (b.makeMove K m).1.fifty ≤ 100) : Board.valid (b.makeMove K m).1 = true :=
  Playable.valid_make K hv hm hclock

/-- the closure statement at full strength, as a closed proposition … -/
def C01_closure_full : Prop :=
  ∀ (K : Keys) (b : Board) (m : Move), Board.valid b = true → m ∈ MoveGen.playable K b →
    (b.makeMove K m).1.fifty ≤ 100 → Board.valid (b.makeMove K m).1 = true

/-- … which holds (no clause is left open). -/
theorem C01_closure_full_holds : C01_closure_full := fun K _ _ hv hm hc => valid_make K hv hm hc

/-- the clock condition holds whenever the clock of the position itself is below 100. -/
theorem valid_make_of_clock_lt (K : Keys) {b : Board} {m : Move} (hv : Board.valid b = true)
    (hm : m ∈ MoveGen.playable K b) (hclock : b.fifty < 100) : Board.valid (b.makeMove K m).1 = true :=
  Playable.valid_make K hv hm (Playable.make_fifty_le K hv hclock)

/-- every position reached from a valid one by playable moves (clock ≤ 100 throughout) is valid … -/
theorem valid_reachable (K : Keys) {b b' : Board} (hv : Board.valid b = true) (h : Playable.Reachable K b b') :
    Board.valid b' = true := Playable.valid_reachable K hv h

/-- … so **C01 holds in every reached position**: playable = legal, no move twice. -/
theorem playable_eq_legal_reachable (K : Keys) {b b' : Board} (hv : Board.valid b = true)
    (h : Playable.Reachable K b b') (m : Move) :
    m ∈ MoveGen.playable K b' ↔
      m < 32768 ∧ Rules.legal (abs b') (decodeMove m) = true ∧ encodeMove (decodeMove m) = m :=
  playable_eq_legal K (valid_reachable K hv h) m

theorem playable_perm_legal_reachable (K : Keys) {b b' : Board} (hv : Board.valid b = true)
    (h : Playable.Reachable K b b') :
    ((MoveGen.playable K b').map decodeMove).Perm (Rules.legalMoves (abs b')) :=
  playable_perm_legal K (valid_reachable K hv h)

/-- the executable reading of `Reachable`: a line of moves played with `playLine` (each move checked
    to be playable and to keep the clock ≤ 100). -/
theorem reachable_playLine (K : Keys) {b b' : Board} (ms : List Move) (h : Playable.playLine K b ms = some b') :
    Playable.Reachable K b b' := Playable.reachable_playLine K ms h

/-! ### non-vacuity -/

open C05 (start rich)
open C02core (start_valid rich_valid)

-- the legal moves of the two test positions, by the rule book: a double push; castling, the
-- en-passant capture, a promotion and a capturing under-promotion
example : Rules.legal (abs start) (decodeMove (Move.mk 12 28 0)) = true := by decide +kernel
theorem rich_castle_legal : Rules.legal (abs rich) (decodeMove (Move.mk 4 6 0)) = true := by decide +kernel
theorem rich_ep_legal : Rules.legal (abs rich) (decodeMove (Move.mk 36 43 0)) = true := by decide +kernel
theorem rich_promo_legal : Rules.legal (abs rich) (decodeMove (Move.mk 48 56 5)) = true := by decide +kernel
theorem rich_under_legal : Rules.legal (abs rich) (decodeMove (Move.mk 48 57 2)) = true := by decide +kernel

-- … hence (by the theorem, for any key table) playable
example (K : Keys) : Move.mk 4 6 0 ∈ MoveGen.playable K rich :=
  (playable_eq_legal K rich_valid _).2 ⟨by decide, rich_castle_legal, by decide⟩
example (K : Keys) : Move.mk 36 43 0 ∈ MoveGen.playable K rich :=
  (playable_eq_legal K rich_valid _).2 ⟨by decide, rich_ep_legal, by decide⟩
example (K : Keys) : Move.mk 48 56 5 ∈ MoveGen.playable K rich :=
  (playable_eq_legal K rich_valid _).2 ⟨by decide, rich_promo_legal, by decide⟩
example (K : Keys) : Move.mk 48 57 2 ∈ MoveGen.playable K rich :=
  (playable_eq_legal K rich_valid _).2 ⟨by decide, rich_under_legal, by decide⟩

-- the rule-book classification of these moves: they really are castling / en passant
example : Rules.isCastling (abs rich) (decodeMove (Move.mk 4 6 0)) = true := by decide +kernel
example : Rules.isEnPassant (abs rich) (decodeMove (Move.mk 36 43 0)) = true := by decide +kernel

-- promotion bits on a non-promotion are illegal, hence not playable
example (K : Keys) : Move.mk 36 43 5 ∉ MoveGen.playable K rich := fun h =>
  absurd ((playable_eq_legal K rich_valid _).1 h).2.1 (by decide +kernel)

/-- the king-safety filter is not vacuous: White Ke1 Be2, Black Re8 Kh8, White to move — the bishop
    is pinned on the e-file. -/
def pinned : Board :=
  { sq := (Vector.replicate 64 Piece.none) |>.set 4 .king |>.set 12 .bishop |>.set 60 .rook |>.set 63 .king,
    pieces := #v[0, 0, 0, bit 12, bit 60, 0, bit 4 ||| bit 63],
    colors := #v[bit 4 ||| bit 12, bit 60 ||| bit 63],
    hashes := [], fullMoves := 1, stm := .white, ep := 0, castles := 0#4, fifty := 0 }

theorem pinned_valid : Board.valid pinned = true := by decide +kernel

-- Be2-d3 is generated (pseudo-legal) but neither legal nor playable; Be2-e3?? is not a bishop move;
-- the king move Ke1-d1 is legal and playable
example : Move.mk 12 19 0 ∈ MoveGen.gen pinned :=
  C02core.mem_gen_of_rules pinned_valid (by decide) (by decide +kernel) (by decide)
example : Rules.legal (abs pinned) (decodeMove (Move.mk 12 19 0)) = false := by decide +kernel
example (K : Keys) : Move.mk 12 19 0 ∉ MoveGen.playable K pinned := fun h =>
  absurd ((playable_eq_legal K pinned_valid _).1 h).2.1 (by decide +kernel)
example (K : Keys) : Move.mk 4 3 0 ∈ MoveGen.playable K pinned :=
  (playable_eq_legal K pinned_valid _).2 ⟨by decide, by decide +kernel, by decide⟩

-- closure: the hypotheses of `valid_make` hold for the en-passant capture, castling and the promotion
-- in `rich` (any key table), so the successors are valid and C01 applies to them again
theorem rich_ep_playable (K : Keys) : Move.mk 36 43 0 ∈ MoveGen.playable K rich :=
  (playable_eq_legal K rich_valid _).2 ⟨by decide, rich_ep_legal, by decide⟩
example (K : Keys) : Board.valid (rich.makeMove K (Move.mk 36 43 0)).1 = true :=
  valid_make_of_clock_lt K rich_valid (rich_ep_playable K) (by decide)
example (K : Keys) : Board.valid (rich.makeMove K (Move.mk 4 6 0)).1 = true :=
  valid_make_of_clock_lt K rich_valid
    ((playable_eq_legal K rich_valid _).2 ⟨by decide, rich_castle_legal, by decide⟩) (by decide)
example (K : Keys) : Board.valid (rich.makeMove K (Move.mk 48 57 2)).1 = true :=
  valid_make_of_clock_lt K rich_valid
    ((playable_eq_legal K rich_valid _).2 ⟨by decide, rich_under_legal, by decide⟩) (by decide)

-- a reached position two plies deep (e5xd6, then …Ke8-d7) with concrete keys: `Reachable` is inhabited
-- beyond `refl`, `playLine` accepts the line, and C01 holds in the reached position
/-- `rich` after e5xd6. -/
def rich1 : Board := (rich.makeMove zeroKeys (Move.mk 36 43 0)).1
/-- … and after the reply Ke8-d7. -/
def rich2 : Board := (rich1.makeMove zeroKeys (Move.mk 60 51 0)).1

theorem rich1_valid : Board.valid rich1 = true :=
  valid_make_of_clock_lt zeroKeys rich_valid (rich_ep_playable zeroKeys) (by decide)
theorem rich1_reply : Move.mk 60 51 0 ∈ MoveGen.playable zeroKeys rich1 :=
  (playable_eq_legal zeroKeys rich1_valid _).2 ⟨by decide, by decide +kernel, by decide⟩
theorem rich1_clock : rich1.fifty ≤ 100 := by decide +kernel
theorem rich2_clock : rich2.fifty ≤ 100 := by decide +kernel

theorem rich2_reachable : Playable.Reachable zeroKeys rich rich2 :=
  Playable.Reachable.step (Playable.Reachable.step Playable.Reachable.refl (rich_ep_playable zeroKeys) rich1_clock)
    rich1_reply rich2_clock

example : Playable.playLine zeroKeys rich [Move.mk 36 43 0, Move.mk 60 51 0] = some rich2 := by
  simp only [Playable.playLine]
  rw [if_pos ⟨rich_ep_playable zeroKeys, rich1_clock⟩]
  exact if_pos ⟨rich1_reply, rich2_clock⟩

example : Board.valid rich2 = true := valid_reachable zeroKeys rich_valid rich2_reachable
example : rich2.fullMoves = 2 ∧ rich2.stm = Color.white ∧ rich2.pieceAt 35 = Piece.none := by decide +kernel
example : ((MoveGen.playable zeroKeys rich2).map decodeMove).Perm (Rules.legalMoves (abs rich2)) :=
  playable_perm_legal_reachable zeroKeys rich_valid rich2_reachable

-- the clock side condition of `valid_make` cannot be dropped: with the clock at 100 a quiet move leaves
-- the domain (clock 101), although the move is playable and everything else is preserved
/-- `pinned` with the halfmove clock at 100. -/
def pinned100 : Board := { pinned with fifty := 100 }
theorem pinned100_valid : Board.valid pinned100 = true := by decide +kernel
example : Move.mk 4 3 0 ∈ MoveGen.playable zeroKeys pinned100 :=
  (playable_eq_legal zeroKeys pinned100_valid _).2 ⟨by decide, by decide +kernel, by decide⟩
example : (pinned100.makeMove zeroKeys (Move.mk 4 3 0)).1.fifty = 101 ∧
    Board.valid (pinned100.makeMove zeroKeys (Move.mk 4 3 0)).1 = false := by decide +kernel

end ChessVerif.Props.C01
