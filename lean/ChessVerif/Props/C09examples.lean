/-
  Property C09 — further non-vacuity examples (see Props/C09.lean for the theorems): concrete valid
  positions meeting the hypotheses of `isCheckmate_iff` / `isStalemate_iff`, decided through the
  theorems from the rule-book side (the kernel evaluates `Rules.legalMoves` / `Rules.legal`, not the
  magic-bitboard lookups).
-/
import ChessVerif.Props.C09

namespace ChessVerif.C09
open ChessVerif Board Rules Bridge ChessVerif.Mate
open Color Piece

/-- double check with a flight square: White Ke1, Black Re8 Bb4 Kh8; only the king can move (Kd1/Kf1/Kf2). -/
def doubleCheck : Board :=
  mk [(4, white, king), (60, black, rook), (25, black, bishop), (63, black, king)] white 0

set_option maxRecDepth 100000 in
theorem doubleCheck_hyp : doubleCheck.valid = true ∧ Rules.epNormal (abs doubleCheck) = true ∧
    Rules.epSound (abs doubleCheck) = true ∧ Rules.inCheck (abs doubleCheck) doubleCheck.stm = true := by
  decide +kernel

set_option maxRecDepth 100000 in
example : doubleCheck.isCheckmate = false := by
  have h := isCheckmate_iff doubleCheck_hyp.1 doubleCheck_hyp.2.1 doubleCheck_hyp.2.2.1
    (by rw [inCheck_iff (WFP_of_valid doubleCheck_hyp.1)]; exact doubleCheck_hyp.2.2.2)
  cases e : doubleCheck.isCheckmate
  · rfl
  · exact absurd (h.1 e) (legalMoves_ne_nil_of_legal ⟨4, 3, Option.none⟩ (by decide +kernel))

/-- the only defence is a block by a DOUBLE advance: White Ka4 Pe2, Black Rh4 Rb8 Bc1 Bc7 Kh8; all
    flight squares are covered, e2-e4 interposes on the fourth rank. -/
def doublePushBlock : Board :=
  mk [(24, white, king), (12, white, pawn), (31, black, rook), (57, black, rook), (2, black, bishop),
      (50, black, bishop), (63, black, king)] white 0

set_option maxRecDepth 100000 in
theorem doublePushBlock_hyp : doublePushBlock.valid = true ∧ Rules.epNormal (abs doublePushBlock) = true ∧
    Rules.epSound (abs doublePushBlock) = true ∧
    Rules.inCheck (abs doublePushBlock) doublePushBlock.stm = true := by decide +kernel

set_option maxRecDepth 100000 in
example : doublePushBlock.isCheckmate = false := by
  have h := isCheckmate_iff doublePushBlock_hyp.1 doublePushBlock_hyp.2.1 doublePushBlock_hyp.2.2.1
    (by rw [inCheck_iff (WFP_of_valid doublePushBlock_hyp.1)]; exact doublePushBlock_hyp.2.2.2)
  cases e : doublePushBlock.isCheckmate
  · rfl
  · exact absurd (h.1 e) (legalMoves_ne_nil_of_legal ⟨12, 28, Option.none⟩ (by decide +kernel))

/-- the checking pawn has just advanced two squares and is captured en passant: White Ke4 Pe5,
    Black Pd5 Kh8, en-passant target d6 (`epNormal` and `epSound` hold with a recorded target). -/
def epCapture : Board :=
  mk [(28, white, king), (36, white, pawn), (35, black, pawn), (63, black, king)] white 43

set_option maxRecDepth 100000 in
theorem epCapture_hyp : epCapture.valid = true ∧ Rules.epNormal (abs epCapture) = true ∧
    Rules.epSound (abs epCapture) = true ∧ Rules.inCheck (abs epCapture) epCapture.stm = true := by
  decide +kernel

set_option maxRecDepth 100000 in
example : epCapture.isCheckmate = false := by
  have h := isCheckmate_iff epCapture_hyp.1 epCapture_hyp.2.1 epCapture_hyp.2.2.1
    (by rw [inCheck_iff (WFP_of_valid epCapture_hyp.1)]; exact epCapture_hyp.2.2.2)
  cases e : epCapture.isCheckmate
  · rfl
  · exact absurd (h.1 e) (legalMoves_ne_nil_of_legal ⟨36, 43, Option.none⟩ (by decide +kernel))

/-- stalemate with a pinned piece: White Kh1 Ng1, Black Ra1 Kg3, White to move; the knight is pinned
    on the first rank and the king has no square. -/
def pinnedStalemate : Board :=
  mk [(7, white, king), (6, white, knight), (0, black, rook), (22, black, king)] white 0

set_option maxRecDepth 100000 in
theorem pinnedStalemate_hyp : pinnedStalemate.valid = true ∧
    Rules.inCheck (abs pinnedStalemate) pinnedStalemate.stm = false := by decide +kernel

set_option maxRecDepth 100000 in
example : pinnedStalemate.isStalemate = true :=
  (isStalemate_iff pinnedStalemate_hyp.1
    (by rw [inCheck_iff (WFP_of_valid pinnedStalemate_hyp.1)]; exact pinnedStalemate_hyp.2)).2 (by decide +kernel)

/-- not a stalemate: the same position with the rook on a2 (the knight is free). -/
def notStalemate : Board :=
  mk [(7, white, king), (6, white, knight), (8, black, rook), (22, black, king)] white 0

set_option maxRecDepth 100000 in
theorem notStalemate_hyp : notStalemate.valid = true ∧
    Rules.inCheck (abs notStalemate) notStalemate.stm = false := by decide +kernel

set_option maxRecDepth 100000 in
example : notStalemate.isStalemate = false := by
  have h := isStalemate_iff notStalemate_hyp.1
    (by rw [inCheck_iff (WFP_of_valid notStalemate_hyp.1)]; exact notStalemate_hyp.2)
  cases e : notStalemate.isStalemate
  · rfl
  · exact absurd (h.1 e) (legalMoves_ne_nil_of_legal ⟨6, 21, Option.none⟩ (by decide +kernel))

end ChessVerif.C09
