/-
  C06 for the REAL components — closed theorems (no `Laws` hypothesis).

  `Props/C06.lean` states C06 for ANY component record satisfying `Search.Laws`.  Here the record is
  `SearchReal.realComp K` (Model/SearchReal.lean: the transposition table, move ranker, staged picker,
  evaluation and quiescence ordering of the engine, each separately tied to the Go code and the whole
  tied by exact differential comparison of node counts / info lines / digests, harness suite
  `searchx`), the laws are PROVED for it (`Proofs/SearchRealLaws.lean: realComp_laws`), and the
  theorems read:

      for every key table `K`, every valid root `b`, every `Limits`, every clock, every fuel, every
      caller counter, and every prior engine state `e` whose persistent part satisfies `PSok` …

  `PSok` (Proofs/SearchRealInv.lean) — every move word in the table has bit 15 clear, every history
  cell lies within ±MaxHistory — is an INVARIANT of engine states: it holds of `search.New`
  (`newEngine_ok`), after `Clear()` (`clearEngine_ok`) and after every `Go` on a valid position,
  completed or aborted anywhere (`go_keeps_ps_invariant_real`); `Session K e` collects the engine
  states such a history can produce and `session_ok` shows `PSok` for all of them, so "every prior
  engine state" below can be read as "every state a `Search` object can be in".

  Legality is spelled in three ways: `MoveGen.playable K b` (generated and not leaving the own king
  attacked), the RULE BOOK `Rules.legal (abs b)` through C01 `playable_eq_legal`, and for the
  successor position C02 `make_refines_rules`.

  Still hypotheses (as in Props/C06.lean): `fuelOut = false` / `anomaly = false` in
  `go_null_only_if_final_partial_real` (the unconditional form needs `ScoreLaws` for the real
  components — a separate development — and the run-level `GoSane`).
-/
import ChessVerif.Props.C06
import ChessVerif.Props.C01
import ChessVerif.Proofs.SearchRealLaws
import ChessVerif.Proofs.SearchRealScore
import ChessVerif.Proofs.SearchRealFuel
import ChessVerif.Props.C06fuel

namespace ChessVerif.Props.C06real
open ChessVerif Search SearchReal

/-- **The component laws hold for the real components** (every key table; valid boards; state
    invariant `PSok`). -/
theorem real_laws_hold (K : Keys) : Laws (realComp K) RealGood := realComp_laws K

/-- … and for every coefficient set, not only the shipped one. -/
theorem real_laws_hold_any_coefficients (K : Keys) (cs : Eval.CoeffSet Int) : Laws (realCompWith K cs) RealGood :=
  real_laws K cs

/-! ### the invariant of engine states -/

/-- `search.New(size)` satisfies the invariant. -/
theorem newEngine_ok (buckets : Nat) : PSok (newEngine buckets).ps := SearchReal.newEngine_ok buckets

/-- `(*Search).Clear()` establishes it whatever the state was. -/
theorem clearEngine_ok (e : Engine PS) : PSok (clearEngine e).ps := SearchReal.clearEngine_ok e

/-- every `Go` on a valid position keeps it — completed, stopped at any poll, out of budget at any
    node, out of fuel. -/
theorem go_keeps_ps_invariant_real (K : Keys) (L : Limits) (clock : Clock) (fuel : Nat) (e : Engine PS) (b : Board)
    (hv : Board.valid b = true) (hok : PSok e.ps) (nodes0 : Int) :
    PSok (go (realComp K) L clock fuel e b nodes0).engine.ps :=
  Props.C06.go_keeps_ps_invariant (realComp K) L clock (realComp_laws K) fuel e b hv hok nodes0

/-- The engine states a `Search` object can be in: created by `search.New`, then any sequence of
    `Clear()` and `Go` on valid positions with arbitrary limits, clocks, fuel and counters. -/
inductive Session (K : Keys) : Engine PS → Prop where
  | new (buckets : Nat) : Session K (newEngine buckets)
  | clear {e} : Session K e → Session K (clearEngine e)
  | go {e} (L : Limits) (clock : Clock) (fuel : Nat) (b : Board) (nodes0 : Int) :
      Session K e → Board.valid b = true → Session K (go (realComp K) L clock fuel e b nodes0).engine

/-- all of them satisfy the invariant. -/
theorem session_ok {K : Keys} {e : Engine PS} (h : Session K e) : PSok e.ps := by
  induction h with
  | new n => exact newEngine_ok n
  | clear _ _ => exact clearEngine_ok _
  | go L clock fuel b nodes0 _ hv ih => exact go_keeps_ps_invariant_real K L clock fuel _ b hv ih nodes0

/-! ### C06 -/

/-- When `Go` returns, the board equals the board it was given, on every path including every abort
    return and running out of fuel; the history stack is empty and the move store has no open frame. -/
theorem go_board_restored_real (K : Keys) (L : Limits) (clock : Clock) (fuel : Nat) (e : Engine PS) (b : Board)
    (hv : Board.valid b = true) (hok : PSok e.ps) (nodes0 : Int) :
    (go (realComp K) L clock fuel e b nodes0).st.board = b ∧ (go (realComp K) L clock fuel e b nodes0).st.hstack = [] ∧
      (go (realComp K) L clock fuel e b nodes0).st.frames = 0 :=
  Props.C06.go_board_restored (realComp K) L clock (realComp_laws K) fuel e b hv hok nodes0

/-- The returned move is the null move or playable in the root position. -/
theorem go_move_legal_or_null_real (K : Keys) (L : Limits) (clock : Clock) (fuel : Nat) (e : Engine PS) (b : Board)
    (hv : Board.valid b = true) (hok : PSok e.ps) (nodes0 : Int) :
    (go (realComp K) L clock fuel e b nodes0).move = 0 ∨
      (go (realComp K) L clock fuel e b nodes0).move ∈ MoveGen.playable K b :=
  Props.C06.go_move_legal_or_null (realComp K) L clock (realComp_laws K) fuel e b hv hok nodes0

/-- … in the words of the RULE BOOK (through C01): the returned word is 0, or it is one of the 32 768
    encodings, its decoding is a legal move of `Spec/Rules.lean` in the root position, and it is the
    faithful encoding of that move. -/
theorem go_move_legal_or_null_rules (K : Keys) (L : Limits) (clock : Clock) (fuel : Nat) (e : Engine PS) (b : Board)
    (hv : Board.valid b = true) (hok : PSok e.ps) (nodes0 : Int) :
    let m := (go (realComp K) L clock fuel e b nodes0).move
    m = 0 ∨ (m < 32768 ∧ Rules.legal (Board.abs b) (decodeMove m) = true ∧ encodeMove (decodeMove m) = m) := by
  intro m
  rcases go_move_legal_or_null_real K L clock fuel e b hv hok nodes0 with h | h
  · exact Or.inl h
  · exact Or.inr ((Props.C01.playable_eq_legal K hv _).1 h)

/-- the same for every state a `Search` object can be in. -/
theorem go_move_legal_or_null_session (K : Keys) (L : Limits) (clock : Clock) (fuel : Nat) (e : Engine PS) (b : Board)
    (hv : Board.valid b = true) (hs : Session K e) (nodes0 : Int) :
    let m := (go (realComp K) L clock fuel e b nodes0).move
    m = 0 ∨ (m < 32768 ∧ Rules.legal (Board.abs b) (decodeMove m) = true ∧ encodeMove (decodeMove m) = m) :=
  go_move_legal_or_null_rules K L clock fuel e b hv (session_ok hs) nodes0

/-- The same engine instance can be searched again: the next search does not depend on the abort
    flag the previous one left behind (`refresh()`), only on tables and PV buffer. -/
theorem go_reusable_real (K : Keys) (L : Limits) (clock : Clock) (fuel : Nat) (e : Engine PS) (b : Board) (nodes0 : Int)
    (flag : Bool) :
    go (realComp K) L clock fuel { e with aborted := flag } b nodes0 = go (realComp K) L clock fuel e b nodes0 := rfl

/-- … and the engine left behind by any search of a valid position — aborted or not — is again an
    admissible prior state: the next search of a valid position restores its board, returns a legal
    move or the null move, and so on (`Session.go`). -/
theorem go_again_restores_real (K : Keys) (L L' : Limits) (clock clock' : Clock) (fuel fuel' : Nat) (e : Engine PS)
    (b b' : Board) (hv : Board.valid b = true) (hv' : Board.valid b' = true) (hok : PSok e.ps) (nodes0 : Int) :
    let r' := go (realComp K) L' clock' fuel' (go (realComp K) L clock fuel e b nodes0).engine b'
    r'.st.board = b' ∧ (r'.move = 0 ∨ r'.move ∈ MoveGen.playable K b') := by
  intro r'
  have hok' := go_keeps_ps_invariant_real K L clock fuel e b hv hok nodes0
  exact ⟨(go_board_restored_real K L' clock' fuel' _ b' hv' hok' 0).1,
    go_move_legal_or_null_real K L' clock' fuel' _ b' hv' hok' 0⟩

/-- `Final` in the words of the rule book: no legal move, or the clock reached 100, or third occurrence. -/
theorem final_iff_rules (K : Keys) {b : Board} (hv : Board.valid b = true) :
    Final K b ↔ (Rules.legalMoves (Board.abs b) = [] ∨ b.fifty ≥ 100 ∨ b.threefold ≥ 3) := by
  have hlen := Props.C01.playable_length K hv
  have e : MoveGen.playable K b = [] ↔ Rules.legalMoves (Board.abs b) = [] := by
    rw [← List.length_eq_zero_iff, ← List.length_eq_zero_iff, hlen]
  unfold Final
  rw [e]

/-- The null move is returned only if the root is final, for every depth limit ≥ 1 — for runs that
    returned (`fuelOut = false`) without a ply-0 anomaly (see `Props.C06.go_null_only_if_final_partial`;
    the hypothesis-free form needs the score laws of the real components). -/
theorem go_null_only_if_final_partial_real (K : Keys) (L : Limits) (clock : Clock) (fuel : Nat) (e : Engine PS)
    (b : Board) (hv : Board.valid b = true) (hok : PSok e.ps) (nodes0 : Int) (hd : 1 ≤ L.depth)
    (hfuel : (go (realComp K) L clock fuel e b nodes0).st.fuelOut = false)
    (hanom : (go (realComp K) L clock fuel e b nodes0).st.anomaly = false)
    (hnull : (go (realComp K) L clock fuel e b nodes0).move = 0) :
    Rules.legalMoves (Board.abs b) = [] ∨ b.fifty ≥ 100 ∨ b.threefold ≥ 3 :=
  (final_iff_rules K hv).1
    (Props.C06.go_null_only_if_final_partial (realComp K) L clock (realComp_laws K) fuel e b hv hok nodes0 hd hfuel hanom hnull)

/-! ### score range, the null move without `anomaly` / `fuelOut` / `GoSane`, final roots

  `ScoreLaws` and `AspLaws` are proved for the real components (`real_scoreLaws_with`,
  `real_aspLaws_with`, Proofs/SearchRealScore.lean).  What the real null-move test lacks — the
  mate-band guard `beta > -Inf+MaxPlies` that reverse futility pruning has in search.go — is not a law
  any more but an EVENT the skeleton records in the ghost flag `St.nmpOut`: null-move pruning took
  its mate branch (`value >= Inf-MaxPlies → return beta`) at a node whose `beta` lies below
  `-Inf + ply` (an ancestor has already found a shorter mate), handing out a score no position at
  that ply can have.  An ordinary null-move cut-off inside the mate band (`return value`) is
  harmless: `value` is the negated child result and ply-consistent by the child's range theorem.

  That event is only a NECESSARY condition for what actually endangers the table invariant: the value
  handed out has to reach a table store (the parent's fail-low store of `maxim`) while it is still
  beyond the ply-relative band.  Measured (suite `searchx`, script `nmpout-corpus`): `nmpOut` IS raised on
  a real search, yet no value beyond `±max(Inf-MaxPlies, Inf-ply)` is ever stored and no raw table
  value leaves `±Inf`, in the model or in the real engine.  So the theorems about `realComp K` carry the
  EXACT run-level hypothesis instead: the ghost flag `St.ttOut` — raised at the five table-store sites
  of the skeleton when the value stored at `ply` is not ply-consistent (`ttBad`) — is down at the end of
  the run; the flag is monotone, so: NO OUT-OF-BAND VALUE WAS STORED IN THIS RUN.  It is measured on
  every search of the `searchx` correspondence suite (the driver prints the flag; never raised).
  `GoSane` is not needed (`AspLaws`: `WSafe windowSize`, i.e. 39..44 or 78..88 — the real value 44 qualifies), nor a ghost `anomaly` / `fuelOut` hypothesis.  The former
  statements under `nmpOut = false` are kept as COROLLARIES (`…_real_nmp`): `go_ttOut_of_nmpOut_real` proves
  that `nmpOut = false` implies `ttOut = false`, so the hypothesis has become strictly weaker (the
  converse fails: script `nmpout-corpus`).  For the record with the guard (`realCompG`) `nmpOut` provably
  stays down (`NmpFloor`, Proofs/SearchNmpFloor.lean), hence no out-of-band value is ever stored
  (`go_ttOut_guarded`) and the theorems are hypothesis-free. -/

/-- the table invariant of the real components: `PSok` and every raw table value within `±Inf`. -/
theorem ttokReal_new (buckets : Nat) : TTokReal (newEngine buckets).ps := SearchReal.ttokReal_new buckets
theorem ttokReal_clear (e : Engine PS) : TTokReal (clearEngine e).ps := SearchReal.ttokReal_clear e

/-- **The score laws hold for the real components** (any coefficient set; also with the guard). -/
theorem real_scoreLaws_hold (K : Keys) (cs : Eval.CoeffSet Int) :
    ScoreLaws (realCompWith K cs) RealGood TTokReal muReal := real_scoreLaws_with K cs
theorem real_scoreLaws_guarded (K : Keys) (cs : Eval.CoeffSet Int) :
    ScoreLaws (realCompG K cs) RealGood TTokReal muReal := real_scoreLaws K cs

/-- the parameter laws of the `GoSane`-free argument hold for the real parameters (`WindowSize = 44` satisfies `WSafe`,
    `RFPScoreFactor = 102`: regenerated constants, re-checked when /repo changes). -/
theorem real_aspLaws_hold (K : Keys) (cs : Eval.CoeffSet Int) : AspLaws (realCompWith K cs) := real_aspLaws_with K cs
theorem real_aspLaws_guarded (K : Keys) (cs : Eval.CoeffSet Int) : AspLaws (realCompG K cs) := real_aspLaws K cs

/-- the real null-move test is NOT guarded against the mate band, the guarded record is; with the
    guard the flag is down after every search. -/
theorem real_nmp_unguarded (K : Keys) (cs : Eval.CoeffSet Int) : ¬ NmpFloor (realCompWith K cs) := nmp_floor_fails K cs
theorem guarded_nmpFloor (K : Keys) (cs : Eval.CoeffSet Int) : NmpFloor (realCompG K cs) := nmpFloor_realCompG K cs
theorem go_nmpOut_guarded (K : Keys) (L : Limits) (clock : Clock) (fuel : Nat) (e : Engine PS) (b : Board) (nodes0 : Int) :
    (go (realCompG K Eval.shipped) L clock fuel e b nodes0).st.nmpOut = false :=
  go_nmpOut_false _ (nmpFloor_realCompG K _) L clock fuel e b nodes0

/-- every `go` keeps the table invariant — completed, stopped, out of budget, out of fuel — as long
    as no out-of-band value was handed to a table store in it (`ttOut = false` at the end; the content
    of repair D8, now with the table's own re-basing of mate scores). -/
theorem go_keeps_table_invariant_real (K : Keys) (L : Limits) (clock : Clock) (fuel : Nat) (e : Engine PS) (b : Board)
    (hv : Board.valid b = true) (nodes0 : Int) (hd : 1 ≤ L.depth) (htt : TTokReal e.ps)
    (hA : (go (realComp K) L clock fuel e b nodes0).st.ttOut = false) :
    TTokReal (go (realComp K) L clock fuel e b nodes0).engine.ps :=
  Props.C06.go_keeps_table_invariant_free_tt (realComp K) L clock (realComp_laws K) (real_scoreLaws_with K _)
    (real_aspLaws_with K _) fuel e b hv nodes0 hd htt hA

/-- **the new hypothesis is implied by the former one**: a run (from sound tables) in which the null-move
    mate branch is never taken with a `beta` below `-Inf + ply` stores no out-of-band value.  The converse
    fails on the real engine (suite `searchx`, script `nmpout-corpus`: `nmpOut` raised, `ttOut` not). -/
theorem go_ttOut_of_nmpOut_real (K : Keys) (L : Limits) (clock : Clock) (fuel : Nat) (e : Engine PS) (b : Board)
    (hv : Board.valid b = true) (nodes0 : Int) (hd : 1 ≤ L.depth) (htt : TTokReal e.ps)
    (hA : (go (realComp K) L clock fuel e b nodes0).st.nmpOut = false) :
    (go (realComp K) L clock fuel e b nodes0).st.ttOut = false :=
  Props.C06.go_ttOut_of_nmpOut_free (realComp K) L clock (realComp_laws K) (real_scoreLaws_with K _)
    (real_aspLaws_with K _) fuel e b hv nodes0 hd htt hA

/-- with the null-move guard no out-of-band value is ever stored. -/
theorem go_ttOut_guarded (K : Keys) (L : Limits) (clock : Clock) (fuel : Nat) (e : Engine PS) (b : Board)
    (hv : Board.valid b = true) (nodes0 : Int) (hd : 1 ≤ L.depth) (htt : TTokReal e.ps) :
    (go (realCompG K Eval.shipped) L clock fuel e b nodes0).st.ttOut = false :=
  Props.C06.go_ttOut_of_nmpOut_free (realCompG K Eval.shipped) L clock (realCompG_laws K _) (real_scoreLaws K _)
    (real_aspLaws K _) fuel e b hv nodes0 hd htt (go_nmpOut_guarded K L clock fuel e b nodes0)

/-- the former statement — under `nmpOut = false` (the null-move mate branch was never taken with a `beta`
    below `-Inf + ply`) — is a corollary. -/
theorem go_keeps_table_invariant_real_nmp (K : Keys) (L : Limits) (clock : Clock) (fuel : Nat) (e : Engine PS) (b : Board)
    (hv : Board.valid b = true) (nodes0 : Int) (hd : 1 ≤ L.depth) (htt : TTokReal e.ps)
    (hA : (go (realComp K) L clock fuel e b nodes0).st.nmpOut = false) :
    TTokReal (go (realComp K) L clock fuel e b nodes0).engine.ps :=
  go_keeps_table_invariant_real K L clock fuel e b hv nodes0 hd htt
    (go_ttOut_of_nmpOut_real K L clock fuel e b hv nodes0 hd htt hA)

theorem go_keeps_table_invariant_guarded (K : Keys) (L : Limits) (clock : Clock) (fuel : Nat) (e : Engine PS) (b : Board)
    (hv : Board.valid b = true) (nodes0 : Int) (hd : 1 ≤ L.depth) (htt : TTokReal e.ps) :
    TTokReal (go (realCompG K Eval.shipped) L clock fuel e b nodes0).engine.ps :=
  Props.C06.go_keeps_table_invariant_free (realCompG K Eval.shipped) L clock (realCompG_laws K _) (real_scoreLaws K _)
    (real_aspLaws K _) fuel e b hv nodes0 hd htt (go_nmpOut_guarded K L clock fuel e b nodes0)

/-- the engine states of a session in which no search handed an out-of-band value to a table store
    (no search raised `ttOut`). -/
inductive SessionS (K : Keys) : Engine PS → Prop where
  | new (buckets : Nat) : SessionS K (newEngine buckets)
  | clear {e} : SessionS K e → SessionS K (clearEngine e)
  | go {e} (L : Limits) (clock : Clock) (fuel : Nat) (b : Board) (nodes0 : Int) :
      SessionS K e → Board.valid b = true → 1 ≤ L.depth →
      (go (realComp K) L clock fuel e b nodes0).st.ttOut = false →
      SessionS K (go (realComp K) L clock fuel e b nodes0).engine

theorem sessionS_ok {K : Keys} {e : Engine PS} (h : SessionS K e) : TTokReal e.ps := by
  induction h with
  | new n => exact ttokReal_new n
  | clear _ _ => exact ttokReal_clear _
  | go L clock fuel b nodes0 _ hv hd hn ih => exact go_keeps_table_invariant_real K L clock fuel _ b hv nodes0 hd ih hn

theorem sessionS_session {K : Keys} {e : Engine PS} (h : SessionS K e) : Session K e := by
  induction h with
  | new n => exact Session.new n
  | clear _ ih => exact Session.clear ih
  | go L clock fuel b nodes0 _ hv _ _ ih => exact Session.go L clock fuel b nodes0 ih hv

/-- **The null move is returned only if the root is final** (rule-book reading) — every key table,
    valid root, depth limit ≥ 1, limit combination, clock, fuel, abort point and admissible engine
    state; no `anomaly` / `fuelOut` / `GoSane` hypothesis.  The one run-level hypothesis: the flag
    `ttOut` is down at the end of the run — no value beyond `±max(Inf-MaxPlies, Inf-ply)` was handed to a
    table store at any `ply` in it. -/
theorem go_null_only_if_final_real (K : Keys) (L : Limits) (clock : Clock) (fuel : Nat) (e : Engine PS) (b : Board)
    (hv : Board.valid b = true) (nodes0 : Int) (hd : 1 ≤ L.depth) (htt : TTokReal e.ps)
    (hA : (go (realComp K) L clock fuel e b nodes0).st.ttOut = false)
    (hnull : (go (realComp K) L clock fuel e b nodes0).move = 0) :
    Rules.legalMoves (Board.abs b) = [] ∨ b.fifty ≥ 100 ∨ b.threefold ≥ 3 :=
  (final_iff_rules K hv).1
    (Props.C06.go_null_only_if_final_free_tt (realComp K) L clock (realComp_laws K) (real_scoreLaws_with K _)
      (real_aspLaws_with K _) fuel e b hv nodes0 hd htt hA hnull)

/-- the former statement (under `nmpOut = false`), a corollary. -/
theorem go_null_only_if_final_real_nmp (K : Keys) (L : Limits) (clock : Clock) (fuel : Nat) (e : Engine PS) (b : Board)
    (hv : Board.valid b = true) (nodes0 : Int) (hd : 1 ≤ L.depth) (htt : TTokReal e.ps)
    (hA : (go (realComp K) L clock fuel e b nodes0).st.nmpOut = false)
    (hnull : (go (realComp K) L clock fuel e b nodes0).move = 0) :
    Rules.legalMoves (Board.abs b) = [] ∨ b.fifty ≥ 100 ∨ b.threefold ≥ 3 :=
  go_null_only_if_final_real K L clock fuel e b hv nodes0 hd htt
    (go_ttOut_of_nmpOut_real K L clock fuel e b hv nodes0 hd htt hA) hnull

/-- … for the engine with the null-move guard there is no hypothesis on the run at all. -/
theorem go_null_only_if_final_guarded (K : Keys) (L : Limits) (clock : Clock) (fuel : Nat) (e : Engine PS) (b : Board)
    (hv : Board.valid b = true) (nodes0 : Int) (hd : 1 ≤ L.depth) (htt : TTokReal e.ps)
    (hnull : (go (realCompG K Eval.shipped) L clock fuel e b nodes0).move = 0) :
    Rules.legalMoves (Board.abs b) = [] ∨ b.fifty ≥ 100 ∨ b.threefold ≥ 3 :=
  (final_iff_rules K hv).1
    (Props.C06.go_null_only_if_final_free (realCompG K Eval.shipped) L clock (realCompG_laws K _) (real_scoreLaws K _)
      (real_aspLaws K _) fuel e b hv nodes0 hd htt (go_nmpOut_guarded K L clock fuel e b nodes0) hnull)

/-- A search that runs to completion on a final root returns the null move with score 0, or with the
    mated score `-Inf` for a checkmated root (hypothesis as above). -/
theorem go_final_score_real (K : Keys) (L : Limits) (clock : Clock) (fuel : Nat) (e : Engine PS) (b : Board)
    (hv : Board.valid b = true) (nodes0 : Int) (hd : 1 ≤ L.depth) (htt : TTokReal e.ps)
    (hA : (go (realComp K) L clock fuel e b nodes0).st.ttOut = false)
    (hfin : Rules.legalMoves (Board.abs b) = [] ∨ b.fifty ≥ 100 ∨ b.threefold ≥ 3)
    (hdone : (go (realComp K) L clock fuel e b nodes0).st.aborted = false) :
    (go (realComp K) L clock fuel e b nodes0).move = 0 ∧
      ((go (realComp K) L clock fuel e b nodes0).score = 0 ∨
        (b.inCheck b.stm = true ∧ Rules.legalMoves (Board.abs b) = [] ∧
          (go (realComp K) L clock fuel e b nodes0).score = -Inf)) := by
  have h := Props.C06.go_final_score_free_tt (realComp K) L clock (realComp_laws K) (real_scoreLaws_with K _)
    (real_aspLaws_with K _) fuel e b hv nodes0 hd htt hA ((final_iff_rules K hv).2 hfin) hdone
  refine ⟨h.1, h.2.imp id (fun ⟨h1, h2, h3⟩ => ⟨h1, ?_, h3⟩)⟩
  have hlen := Props.C01.playable_length K hv
  have h2' : MoveGen.playable K b = [] := h2
  rw [h2'] at hlen
  exact List.length_eq_zero_iff.1 hlen.symm

/-- the former statement (under `nmpOut = false`), a corollary. -/
theorem go_final_score_real_nmp (K : Keys) (L : Limits) (clock : Clock) (fuel : Nat) (e : Engine PS) (b : Board)
    (hv : Board.valid b = true) (nodes0 : Int) (hd : 1 ≤ L.depth) (htt : TTokReal e.ps)
    (hA : (go (realComp K) L clock fuel e b nodes0).st.nmpOut = false)
    (hfin : Rules.legalMoves (Board.abs b) = [] ∨ b.fifty ≥ 100 ∨ b.threefold ≥ 3)
    (hdone : (go (realComp K) L clock fuel e b nodes0).st.aborted = false) :
    (go (realComp K) L clock fuel e b nodes0).move = 0 ∧
      ((go (realComp K) L clock fuel e b nodes0).score = 0 ∨
        (b.inCheck b.stm = true ∧ Rules.legalMoves (Board.abs b) = [] ∧
          (go (realComp K) L clock fuel e b nodes0).score = -Inf)) :=
  go_final_score_real K L clock fuel e b hv nodes0 hd htt
    (go_ttOut_of_nmpOut_real K L clock fuel e b hv nodes0 hd htt hA) hfin hdone

/-- … for the engine with the null-move guard: no hypothesis on the run. -/
theorem go_final_score_guarded (K : Keys) (L : Limits) (clock : Clock) (fuel : Nat) (e : Engine PS) (b : Board)
    (hv : Board.valid b = true) (nodes0 : Int) (hd : 1 ≤ L.depth) (htt : TTokReal e.ps)
    (hfin : Rules.legalMoves (Board.abs b) = [] ∨ b.fifty ≥ 100 ∨ b.threefold ≥ 3)
    (hdone : (go (realCompG K Eval.shipped) L clock fuel e b nodes0).st.aborted = false) :
    (go (realCompG K Eval.shipped) L clock fuel e b nodes0).move = 0 ∧
      ((go (realCompG K Eval.shipped) L clock fuel e b nodes0).score = 0 ∨
        (b.inCheck b.stm = true ∧ MoveGen.playable K b = [] ∧
          (go (realCompG K Eval.shipped) L clock fuel e b nodes0).score = -Inf)) :=
  Props.C06.go_final_score_free (realCompG K Eval.shipped) L clock (realCompG_laws K _) (real_scoreLaws K _)
    (real_aspLaws K _) fuel e b hv nodes0 hd htt (go_nmpOut_guarded K L clock fuel e b nodes0)
    ((final_iff_rules K hv).2 hfin) hdone

/-- The former hypothesis `NmpSane` (the run coincides with the run of the guarded record — measured
    to FAIL on about 1 % of searches: once a mate is found the unguarded test fires in every sibling
    and the trees differ) implies the present one; it is kept as a corollary only. -/
def NmpSane (K : Keys) (L : Limits) (clock : Clock) (fuel : Nat) (e : Engine PS) (b : Board) (nodes0 : Int := 0) : Prop :=
  go (realComp K) L clock fuel e b nodes0 = go (realCompG K Eval.shipped) L clock fuel e b nodes0

theorem nmpSane_flag {K : Keys} {L : Limits} {clock : Clock} {fuel : Nat} {e : Engine PS} {b : Board} {nodes0 : Int}
    (h : NmpSane K L clock fuel e b nodes0) : (go (realComp K) L clock fuel e b nodes0).st.nmpOut = false := by
  rw [h]; exact go_nmpOut_guarded K L clock fuel e b nodes0

/-- non-vacuity of the score part: a fresh engine satisfies the table invariant, the start position is
    a valid root, and both flags are down for a run without fuel (for runs WITH fuel the flags are
    measured: suite `searchx` prints them for every compared search). -/
example (n : Nat) : TTokReal (newEngine n).ps := ttokReal_new n
example (K : Keys) (L : Limits) (clock : Clock) (e : Engine PS) (b : Board) :
    (go (realComp K) L clock 0 e b).st.ttOut = false := go_ttOut_nofuel _ _ _ _ _ _
example (K : Keys) (L : Limits) (clock : Clock) (e : Engine PS) (b : Board) :
    (go (realComp K) L clock 0 e b).st.nmpOut = false := by
  have h : ∀ (c : Comp PS Pick) (v : IDVars) (s : St PS), s.nmpOut = false →
      (idLoop c L clock 0 64 0 v s).st.nmpOut = false := by
    intro c v s hs
    show (idLoop c L clock 0 (63 + 1) 0 v s).st.nmpOut = false
    simp only [idLoop, aspiration]
    split
    · exact hs
    · split <;> exact hs
  exact h _ _ _ rfl

/-! ### non-vacuity -/

open C05 (start rich)
open C02core (start_valid rich_valid)

/-- the hypotheses are satisfiable: the start position and the castling / en-passant / promotion
    position of C01 are valid roots, a fresh engine and every engine of a session are admissible. -/
example : RealGood start ∧ RealGood rich := ⟨start_valid, rich_valid⟩
example (n : Nat) : PSok (newEngine n).ps := newEngine_ok n
example (K : Keys) (L L' : Limits) (clock : Clock) (fuel : Nat) :
    Session K (go (realComp K) L' clock fuel (clearEngine (go (realComp K) L clock fuel (newEngine 1024) start).engine) rich).engine :=
  Session.go L' clock fuel rich 0 (Session.clear (Session.go L clock fuel start 0 (Session.new 1024) start_valid)) rich_valid

/-- the theorems apply: whatever the limits, the clock, the fuel and the point of abort, a search of
    the start position with a fresh engine hands the board back … -/
example (K : Keys) (L : Limits) (clock : Clock) (fuel : Nat) :
    (go (realComp K) L clock fuel (newEngine 1024) start).st.board = start :=
  (go_board_restored_real K L clock fuel _ start start_valid (newEngine_ok 1024) 0).1

/-- … and the conclusion "legal" is inhabited: the legal moves of the rule book are playable
    (C01 `legal_playable`, any key table), e.g. the en-passant capture and the castling move of `rich`. -/
example (K : Keys) : Move.mk 36 43 0 ∈ MoveGen.playable K rich :=
  (Props.C01.playable_eq_legal K rich_valid _).2 ⟨by decide, Props.C01.rich_ep_legal, by decide⟩

/-- `SessionS` (no search of the session stored an out-of-band value) is inhabited beyond `new`, and its
    states satisfy the table invariant the score theorems ask for. -/
example (K : Keys) (L : Limits) (clock : Clock) (hd : 1 ≤ L.depth) :
    TTokReal (go (realComp K) L clock 0 (newEngine 1024) start).engine.ps :=
  sessionS_ok (SessionS.go L clock 0 start 0 (SessionS.new 1024) start_valid hd (go_ttOut_nofuel _ _ _ _ _ _))

/-- a word with bit 15 set is NOT an admissible table content, and an out-of-range history cell is
    not an admissible ranker state: the invariant is a genuine restriction. -/
example : ¬ TTMovesOK #[{ Model.Transp.Bucket.zero with e0 := { Model.Transp.Entry.zero with move := 0x8000#16 } }] :=
  fun h => absurd (h 0 0) (by decide)

/-! ### TERMINATION of the real search: fuel sufficiency

  `Props/C06fuel.lean` proves for every component record satisfying `Laws` + `FuelLaws` that `alphaBeta`
  called at `ply` never runs out of fuel when `fuel ≥ 112 - ply`, `quiescence` when `fuel ≥ 49`, `go` when
  `fuel ≥ 112` (63 nested `alphaBeta` levels — every call is made at `ply + 1` and `ply ≥ MaxPlies - 1`
  goes to quiescence, so nothing about `lmr` / `nmpDepth` / `iir` is needed — plus 48 nested quiescence
  levels — every quiescence move is a capture or promotion and decreases men + pawns — plus 1).  Fuel is
  handed down per nesting level, so this is the statement that the recursion of the real search has
  bounded depth: THE SEARCH ALGORITHM TERMINATES ON EVERY REQUEST; the model needs no more than 112
  nested calls (the correspondence driver passes 10^9 and has never reported `fuelOut`).  It is also
  what C13's environment assumption E1 ("the search returns / prints finitely many info lines") rests
  on for requests the search may complete by itself.

  (Depth-sensitive refinement: the real reductions keep every child depth in `[0, d - 1]` — `real_depthLaws_hold` —
  so a node of depth `d` needs `d + 49` and a request with depth limit `D` needs `min D 63 + 49`.)

  The one new law, `pick_len` — the picker yields at most `len(gen)` moves, so the `Next()` counter of
  the move loop is not what runs out — is PROVED for the staged picker as search.go drives it
  (`real_picker_yields_at_most_gen`: a counting invariant along `PReach`; the hash move's duplicate in the
  generated part carries the sentinel weight and is never selected).  The driver-level theorems carry
  the run-level hypothesis of the other `…_real` theorems, `ttOut = false` (the ten-failure bound of an
  aspiration chain rests on results within `±Inf`); with the null-move guard there is none. -/

/-- **the real picker yields at most `len(gen)` moves** on a valid board, for every hash-move word the
    table can hold, however the ranker changes and whatever weights are written between two calls. -/
theorem real_picker_yields_at_most_gen {b : Board} {hm : Move} (hv : Board.valid b = true) (hhm : hm < 32768)
    {st : Picker.PSt} {ys : List Move} (hr : Proofs.SearchRealPicker.PReach b hm st ys) :
    ys.length ≤ (MoveGen.gen b).length := Proofs.SearchRealFuel.preach_len hv hhm hr

/-- **The termination laws hold for the real components** (any key table, any coefficient set; also with
    the null-move guard). -/
theorem real_fuelLaws_hold (K : Keys) (cs : Eval.CoeffSet Int) : FuelLaws (realCompWith K cs) RealGood muReal :=
  real_fuelLaws_with K cs
theorem real_fuelLaws_guarded (K : Keys) (cs : Eval.CoeffSet Int) : FuelLaws (realCompG K cs) RealGood muReal :=
  real_fuelLaws K cs

/-- **`alphaBeta` of the real search terminates**: at `ply` with `fuel ≥ 112 - ply` nothing in the subtree
    runs out of fuel — every key table, valid board, admissible persistent state, depth, window, node
    type, limits and point of abort.  No hypothesis on the run. -/
theorem alphaBeta_terminates_real (K : Keys) (L : Limits) (fuel : Nat) (alpha beta : Score) (d ply : Int) (nt : NodeType)
    (s : St PS) (hv : Board.valid s.board = true) (hok : PSok s.ps) (h0 : 0 ≤ ply) (h63 : ply ≤ 63)
    (hfu : 112 - ply ≤ (fuel : Int)) (hfo : s.fuelOut = false) :
    (alphaBeta (realComp K) L fuel alpha beta d ply nt s).2.fuelOut = false :=
  Props.C06fuel.alphaBeta_terminates (realComp K) L (realComp_laws K) (real_fuelLaws_with K _) fuel alpha beta d ply nt s
    hv hok h0 h63 hfu hfo

/-- **`quiescence` of the real search terminates** with 49 units of fuel. -/
theorem quiescence_terminates_real (K : Keys) (L : Limits) (fuel : Nat) (hfu : 49 ≤ fuel) (alpha beta : Score) (ply : Int)
    (s : St PS) (hv : Board.valid s.board = true) (hok : PSok s.ps) (hfo : s.fuelOut = false) :
    (quiescence (realComp K) L fuel alpha beta ply s).2.fuelOut = false :=
  Props.C06fuel.quiescence_terminates_49 (realComp K) L (realComp_laws K) (real_fuelLaws_with K _) fuel hfu alpha beta ply s
    hv hok hfo

/-- **`Go` of the real search terminates**: with `fuel ≥ 112` the run never runs out of fuel — every key
    table, request (limits, clock, caller counter), valid root and engine state with sound tables — as
    long as no out-of-band value was handed to a table store in the run (`ttOut = false`, as in the other
    `…_real` theorems). -/
theorem go_fuel_suffices_real (K : Keys) (L : Limits) (clock : Clock) (fuel : Nat) (hfu : goFuel ≤ fuel) (e : Engine PS)
    (b : Board) (hv : Board.valid b = true) (nodes0 : Int) (htt : TTokReal e.ps)
    (hA : (go (realComp K) L clock fuel e b nodes0).st.ttOut = false) :
    (go (realComp K) L clock fuel e b nodes0).st.fuelOut = false :=
  Props.C06fuel.go_fuel_suffices (realComp K) L clock (realComp_laws K) (real_scoreLaws_with K _) (real_aspLaws_with K _)
    (real_fuelLaws_with K _) fuel hfu e b hv nodes0 htt hA

/-- … for every engine state of a session in which no search stored an out-of-band value. -/
theorem go_fuel_suffices_session (K : Keys) (L : Limits) (clock : Clock) (fuel : Nat) (hfu : goFuel ≤ fuel) (e : Engine PS)
    (b : Board) (hv : Board.valid b = true) (nodes0 : Int) (hs : SessionS K e)
    (hA : (go (realComp K) L clock fuel e b nodes0).st.ttOut = false) :
    (go (realComp K) L clock fuel e b nodes0).st.fuelOut = false :=
  go_fuel_suffices_real K L clock fuel hfu e b hv nodes0 (sessionS_ok hs) hA

/-- … and for the engine with the null-move guard there is no hypothesis on the run at all. -/
theorem go_fuel_suffices_guarded (K : Keys) (L : Limits) (clock : Clock) (fuel : Nat) (hfu : goFuel ≤ fuel) (e : Engine PS)
    (b : Board) (hv : Board.valid b = true) (nodes0 : Int) (hd : 1 ≤ L.depth) (htt : TTokReal e.ps) :
    (go (realCompG K Eval.shipped) L clock fuel e b nodes0).st.fuelOut = false :=
  Props.C06fuel.go_fuel_suffices_floor (realCompG K Eval.shipped) (nmpFloor_realCompG K _) L clock (realCompG_laws K _)
    (real_scoreLaws K _) (real_aspLaws K _) (real_fuelLaws K _) fuel hfu e b hv nodes0 hd htt

/-- **the depth laws hold for the real reductions**: `lmr = Clamp(…, 0, d-1) ≥ 0`, `nmpDepth = max(d - red, 0)`
    with `red ≥ NMPInit = 4` lies in `[0, d)`, internal iterative reduction needs `d > IIRDepthLimit = 5`. -/
theorem real_depthLaws_hold (K : Keys) (cs : Eval.CoeffSet Int) : DepthLaws (realCompWith K cs) := real_depthLaws_with K cs
theorem real_depthLaws_guarded (K : Keys) (cs : Eval.CoeffSet Int) : DepthLaws (realCompG K cs) := real_depthLaws K cs

/-- **depth-sensitive form**: a node of the real search entered with depth `0 ≤ d ≤ 64` needs `d + 49` units
    of fuel, at whatever ply: every recursive call has a depth in `[0, d - 1]`, so below the node there are
    at most `d` nested `alphaBeta` levels and 49 quiescence levels.  No hypothesis on the run. -/
theorem alphaBeta_terminates_depth_real (K : Keys) (L : Limits) (fuel : Nat) (alpha beta : Score) (d ply : Int)
    (nt : NodeType) (s : St PS) (hv : Board.valid s.board = true) (hok : PSok s.ps) (h0 : 0 ≤ ply) (h63 : ply ≤ 63)
    (hd0 : 0 ≤ d) (hd64 : d ≤ 64) (hfu : d + 49 ≤ (fuel : Int)) (hfo : s.fuelOut = false) :
    (alphaBeta (realComp K) L fuel alpha beta d ply nt s).2.fuelOut = false :=
  Props.C06fuel.alphaBeta_terminates_depth (realComp K) L (realComp_laws K) (real_fuelLaws_with K _)
    (real_depthLaws_with K _) fuel alpha beta d ply nt s hv hok h0 h63 hd0 hd64 hfu hfo

/-- … and a request with depth limit `D` needs `goFuelD L = min D 63 + 49` units (112 in ponder mode):
    `go depth 1` 50, `go depth 64` / `go infinite` 112. -/
theorem go_fuel_suffices_depth_real (K : Keys) (L : Limits) (clock : Clock) (fuel : Nat) (hfu : goFuelD L ≤ fuel)
    (e : Engine PS) (b : Board) (hv : Board.valid b = true) (nodes0 : Int) (htt : TTokReal e.ps)
    (hA : (go (realComp K) L clock fuel e b nodes0).st.ttOut = false) :
    (go (realComp K) L clock fuel e b nodes0).st.fuelOut = false :=
  Props.C06fuel.go_fuel_suffices_depth (realComp K) L clock (realComp_laws K) (real_scoreLaws_with K _)
    (real_aspLaws_with K _) (real_fuelLaws_with K _) (real_depthLaws_with K _) fuel hfu e b hv nodes0 htt hA

/-- A real search without stop channel and hard node budget runs to completion: the abort flag is never
    raised. -/
theorem go_completes_real (K : Keys) (L : Limits) (clock : Clock) (fuel : Nat) (hfu : goFuel ≤ fuel) (e : Engine PS)
    (b : Board) (hv : Board.valid b = true) (nodes0 : Int) (htt : TTokReal e.ps) (hstop : L.stop = none)
    (hnodes : L.nodes = -1) (hA : (go (realComp K) L clock fuel e b nodes0).st.ttOut = false) :
    (go (realComp K) L clock fuel e b nodes0).st.aborted = false :=
  Props.C06fuel.go_completes (realComp K) L clock (realComp_laws K) (real_scoreLaws_with K _) (real_aspLaws_with K _)
    (real_fuelLaws_with K _) fuel hfu e b hv nodes0 htt hstop hnodes hA

/-- The last clause of C06 with "runs to completion" spelled out and NO `fuelOut` hypothesis: no stop
    channel, no hard budget, `fuel ≥ 112` — on a final root the real search returns the null move with
    score 0, or with the mated score `-Inf` for a checkmated root. -/
theorem go_final_score_completed_real (K : Keys) (L : Limits) (clock : Clock) (fuel : Nat) (hfu : goFuel ≤ fuel)
    (e : Engine PS) (b : Board) (hv : Board.valid b = true) (nodes0 : Int) (hd : 1 ≤ L.depth) (htt : TTokReal e.ps)
    (hstop : L.stop = none) (hnodes : L.nodes = -1)
    (hA : (go (realComp K) L clock fuel e b nodes0).st.ttOut = false)
    (hfin : Rules.legalMoves (Board.abs b) = [] ∨ b.fifty ≥ 100 ∨ b.threefold ≥ 3) :
    (go (realComp K) L clock fuel e b nodes0).move = 0 ∧
      ((go (realComp K) L clock fuel e b nodes0).score = 0 ∨
        (b.inCheck b.stm = true ∧ Rules.legalMoves (Board.abs b) = [] ∧
          (go (realComp K) L clock fuel e b nodes0).score = -Inf)) :=
  go_final_score_real K L clock fuel e b hv nodes0 hd htt hA hfin
    (go_completes_real K L clock fuel hfu e b hv nodes0 htt hstop hnodes hA)

/-- the former partial statement of the null-move clause with its `fuelOut` hypothesis discharged (kept
    for comparison; `go_null_only_if_final_real` needs neither `fuelOut` nor `anomaly`). -/
theorem go_null_only_if_final_partial_real_fuel (K : Keys) (L : Limits) (clock : Clock) (fuel : Nat) (hfu : goFuel ≤ fuel)
    (e : Engine PS) (b : Board) (hv : Board.valid b = true) (nodes0 : Int) (hd : 1 ≤ L.depth) (htt : TTokReal e.ps)
    (hA : (go (realComp K) L clock fuel e b nodes0).st.ttOut = false)
    (hanom : (go (realComp K) L clock fuel e b nodes0).st.anomaly = false)
    (hnull : (go (realComp K) L clock fuel e b nodes0).move = 0) :
    Rules.legalMoves (Board.abs b) = [] ∨ b.fifty ≥ 100 ∨ b.threefold ≥ 3 :=
  go_null_only_if_final_partial_real K L clock fuel e b hv htt.1 nodes0 hd
    (go_fuel_suffices_real K L clock fuel hfu e b hv nodes0 htt hA) hanom hnull

/-- non-vacuity: the node-level theorem applies to the state `Go` starts from on the start position with
    a fresh engine (any depth, e.g. 64) … -/
example (K : Keys) (L : Limits) (a b : Score) (d : Int) :
    (alphaBeta (realComp K) L 112 a b d 0 .pv (goInit L (newEngine 1024) start 0)).2.fuelOut = false :=
  alphaBeta_terminates_real K L 112 a b d 0 .pv _ start_valid (newEngine_ok 1024) (Int.le_refl 0) (by decide) (by decide) rfl

/-- … the driver-level theorem to every `go depth N` (N ≥ 1) of the guarded engine on it, without any
    hypothesis on the run … -/
example (K : Keys) (L : Limits) (clock : Clock) (hd : 1 ≤ L.depth) :
    (go (realCompG K Eval.shipped) L clock 112 (newEngine 1024) start).st.fuelOut = false :=
  go_fuel_suffices_guarded K L clock 112 (by decide) _ start start_valid 0 hd (ttokReal_new 1024)

/-- … and the bound is the same for every depth limit: `goFuel = 112`, for `L.depth = 64` too. -/
example : goFuel = 112 := rfl

end ChessVerif.Props.C06real
