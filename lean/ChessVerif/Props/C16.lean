/-
  C16 — move picker.

  "For every valid position, every candidate hash move (valid, invalid or absent) and every state the
  move-ordering histories can reach, iterating the staged move picker to exhaustion yields each
  pseudo-legal move of the position exactly once and nothing else, and yields the hash move first
  whenever it is pseudo-legal.  History-derived weights stay within their designed band for any
  sequence of updates, so no quiet move can be mistaken for an already-yielded duplicate or cross into
  the capture bands."

  * `Picker.yielded b hm rk`  the executable model of picker.New/Next/Move iterated to exhaustion
    (Model/Picker.lean), for a pair of ranking functions `rk`; `Picker.rankOf r b st` are the real
    ones (Model/Heur.lean: RankNoisy incl. the exchange test, RankQuiet) — tied to the Go code by the
    `heur -suite c16` correspondence harness;
  * `Bands rk`  the weight layout: noisy ∈ good ∪ bad capture band, quiet within ±3·MaxHistory;
  * `runFH calls`  the ranker state after an arbitrary sequence of `FailHigh` calls from
    `NewMoveRanker()`;
  * `StoreFits b`  NAMED ASSUMPTION: the frame of this position fits into `move.Store`
    (`StoreSize` = 2048 entries across all frames; not provable in general);
  * the pseudo-legal moves are `MoveGen.gen b`; "the hash-move gate accepts exactly the generated
    words, none twice" is property C05 (imported: `Props.C05.isPseudoLegal_iff_gen`, `gen_nodup`).

  DOMAIN of the hash move: the 32 768 words with bit 15 clear (`hm < 32768`), i.e. every word whose
  from/to/promotion fields are arbitrary — absent (0), foreign, malformed promotion flags.  For a
  16-bit VALUE with the unused bit 15 set the statement is FALSE for the code as it is (the
  pseudo-legality test masks the word, the duplicate test `hashMove == moves[i].Move` does not):
  `C16_allwords_false` below, reproduced on the real picker by `heur -suite c16 -bit15`.  Such values
  never reach the picker (the transposition table only stores generated moves or 0).
-/
import ChessVerif.Model.Guards.Heur
import ChessVerif.Model.Guards.Picker
import ChessVerif.Proofs.PickerPerm
import ChessVerif.Proofs.PickerExhaust
import ChessVerif.Proofs.HeurBands
import ChessVerif.Props.C05
import ChessVerif.Props.C16hist

namespace ChessVerif.Props.C16
open ChessVerif Picker ChessVerif.Proofs.PickerRun ChessVerif.Proofs.PickerPerm ChessVerif.Proofs.HeurBands
open ChessVerif.Gen.Funcs (Captures CaptureRange MaxHistory HashMove)
set_option autoImplicit false

variable {b : Board} {hm : Move} {rk : Rank}

/-- Iterating the picker to exhaustion yields each pseudo-legal move exactly once and nothing else
    — for ARBITRARY ranking functions inside the bands. -/
theorem picker_perm (hv : Board.valid b = true) (hfit : StoreFits b) (hhm : hm < 32768) (hb : Bands rk) :
    (yielded b hm rk).Perm (MoveGen.gen b) :=
  Proofs.PickerPerm.picker_perm hfit hb (Props.C05.isPseudoLegal_iff_gen hv hhm) (Props.C05.gen_nodup hv)

/-- …in particular no move is yielded twice. -/
theorem picker_nodup (hv : Board.valid b = true) (hfit : StoreFits b) (hhm : hm < 32768) (hb : Bands rk) :
    (yielded b hm rk).Nodup :=
  Proofs.PickerPerm.picker_nodup hfit hb (Props.C05.isPseudoLegal_iff_gen hv hhm) (Props.C05.gen_nodup hv)

/-- The hash move is yielded first whenever it is pseudo-legal (any ranking functions, any word). -/
theorem picker_hash_first (hfit : StoreFits b) (hpl : b.isPseudoLegal hm = true) :
    (yielded b hm rk).head? = some hm :=
  Proofs.PickerPerm.picker_hash_first hfit hpl

/-- …with the weight `HashMove`, which no ranked move can reach (`bands_sep`). -/
theorem picker_hash_weight (hfit : StoreFits b) (hpl : b.isPseudoLegal hm = true) :
    (yieldedW b hm rk).head? = some { move := hm, weight := Gen.Heur.hashWeight } :=
  Proofs.PickerPerm.picker_hash_weight hfit hpl

/-- A hash move that is not pseudo-legal (invalid, foreign, absent) is never yielded. -/
theorem picker_rejects (hv : Board.valid b = true) (hfit : StoreFits b) (hhm : hm < 32768) (hb : Bands rk)
    (hpl : b.isPseudoLegal hm = false) : hm ∉ yielded b hm rk :=
  Proofs.PickerPerm.picker_rejects hfit hb (Props.C05.isPseudoLegal_iff_gen hv hhm) (Props.C05.gen_nodup hv) hpl

/-- "To exhaustion": within the call budget of `Picker.yielded` (`StoreSize + 2` calls, enough by
    `StoreFits`) the iteration really ends — the `Next` after the last yield returns false and
    leaves the picker unchanged, so `yielded` is the complete sequence and every later call fails too. -/
theorem picker_exhausted (hfit : StoreFits b) :
    next b hm rk (Picker.runState b hm rk Picker.fuel Picker.init) =
      (false, Picker.runState b hm rk Picker.fuel Picker.init) :=
  Proofs.PickerExhaust.next_final b hm rk hfit

/-- Every in-band weight is strictly above the stage-5 filter `−HashMove+1` (only the sentinel
    `−HashMove` of the hash move's second copy is filtered), strictly below `HashMove`, and quiet
    weights lie strictly between the two capture bands. -/
theorem bands_sep (h : Bands rk) (m : Move) :
    (Gen.Heur.restThreshold < rk.noisy m ∧ rk.noisy m < Gen.Heur.hashWeight) ∧
    (Gen.Heur.restThreshold < rk.quiet m ∧ rk.quiet m < Gen.Heur.hashWeight) ∧
    (-Captures < rk.quiet m ∧ rk.quiet m < Captures) :=
  Proofs.PickerPerm.bands_sep h m

/-- History-derived weights stay within their designed band for ANY sequence of `FailHigh`
    updates (any depths, boards, move lists, search weights, history stacks). -/
theorem bands_reachable (calls : List FHCall) (b : Board) (st : Heur.HStack) :
    Bands (Picker.rankOf (runFH calls) b st) :=
  Proofs.HeurBands.bands_reachable calls b st

/-- …also with `Clear()` calls interleaved anywhere. -/
theorem bands_reachable_ops (ops : List HistOp) (b : Board) (st : Heur.HStack) :
    Bands (Picker.rankOf (runOps ops) b st) :=
  Proofs.HeurBands.bands_reachable_ops ops b st

/-- every cell of every store stays within ±MaxHistory along the way. -/
theorem stores_in_range (calls : List FHCall) : RankerOK (runFH calls) := runFH_ok calls

/-- **C16 with the real histories**: for every valid position, every hash-move word, every
    reachable history state and every history stack the picker yields a permutation of the
    pseudo-legal moves, the hash move first when it is pseudo-legal. -/
theorem picker_correct (hv : Board.valid b = true) (hfit : StoreFits b) (hhm : hm < 32768)
    (calls : List FHCall) (st : Heur.HStack) :
    (yielded b hm (Picker.rankOf (runFH calls) b st)).Perm (MoveGen.gen b) ∧
    (b.isPseudoLegal hm = true → (yielded b hm (Picker.rankOf (runFH calls) b st)).head? = some hm) :=
  ⟨picker_perm hv hfit hhm (bands_reachable calls b st), fun hpl => picker_hash_first hfit hpl⟩

/-- The property read over ALL 16-bit values of the hash move. -/
def C16_allwords : Prop :=
  ∀ (b : Board) (hm : Move) (rk : Rank), Board.valid b = true → StoreFits b → hm < 65536 → Bands rk →
    (yielded b hm rk).Perm (MoveGen.gen b)

/-! ### Non-vacuity (and the bit-15 witness) -/

/-- White Ke1 Nc3 Pa7 Pe5, Black Ke8 Nb8 Pd5, White to move, en-passant target d6: a promotion
    (push and capture), an en-passant capture, a knight capture (Nc3×d5), knight and king moves — and no slider, so that the
    kernel can evaluate the generator without the magic tables. -/
def demo : Board :=
  { sq := #v[.none, .none, .none, .none, .king, .none, .none, .none,
             .none, .none, .none, .none, .none, .none, .none, .none,
             .none, .none, .knight, .none, .none, .none, .none, .none,
             .none, .none, .none, .none, .none, .none, .none, .none,
             .none, .none, .none, .pawn, .pawn, .none, .none, .none,
             .none, .none, .none, .none, .none, .none, .none, .none,
             .pawn, .none, .none, .none, .none, .none, .none, .none,
             .none, .knight, .none, .none, .king, .none, .none, .none],
    pieces := #v[0, bit 48 ||| bit 36 ||| bit 35, bit 18 ||| bit 57, 0, 0, 0, bit 4 ||| bit 60],
    colors := #v[bit 4 ||| bit 18 ||| bit 48 ||| bit 36, bit 60 ||| bit 57 ||| bit 35],
    hashes := [], fullMoves := 1, stm := .white, ep := 43, castles := 0#4, fifty := 0 }

/-- constant ranking functions inside the bands (all captures "good", all quiets 0). -/
def rk0 : Rank := { noisy := fun _ => Captures, quiet := fun _ => 0 }

theorem rk0_bands : Bands rk0 :=
  ⟨fun _ => Or.inl (by simp only [rk0]; decide), fun _ => by simp only [rk0]; decide⟩

/-- a ranking that violates the layout (a quiet weight at the sentinel) is NOT in the bands. -/
example : ¬ Bands { noisy := fun _ => Captures, quiet := fun _ => -HashMove } :=
  fun h => absurd (h.quiet 0) (by decide)

theorem demo_valid : Board.valid demo = true := by decide +kernel
theorem demo_fits : StoreFits demo := by unfold StoreFits; decide +kernel

/-- e5×d6 en passant as hash move: accepted, yielded first, and the run is a permutation. -/
example : demo.isPseudoLegal (Move.mk 36 43 0) = true := by decide +kernel
example : (yielded demo (Move.mk 36 43 0) rk0).head? = some (Move.mk 36 43 0) :=
  picker_hash_first demo_fits (by decide +kernel)
example : (yielded demo (Move.mk 36 43 0) rk0).Perm (MoveGen.gen demo) :=
  picker_perm demo_valid demo_fits (by decide) rk0_bands
/-- the concrete run: hash move, then the captures/promotions (stage 3), then the quiets (stage 5). -/
example : yielded demo (Move.mk 36 43 0) rk0 =
    [2347, 1187, 23608, 19512, 15416, 11320, 23609, 19513, 15417, 11321,
     259, 261, 267, 268, 269, 1153, 1155, 1160, 1164, 1176, 1180, 1185, 2348] := by decide +kernel
/-- a foreign word (a1a1 with promotion code 7) and the absent hash move are rejected, never yielded. -/
example : Move.mk 0 0 7 ∉ yielded demo (Move.mk 0 0 7) rk0 :=
  picker_rejects demo_valid demo_fits (by decide) rk0_bands (by decide +kernel)
example : (yielded demo 0 rk0).Perm (MoveGen.gen demo) := picker_perm demo_valid demo_fits (by decide) rk0_bands

/-- The bit-15 witness: with the hash-move VALUE e5×d6 + 2^15 the run has one entry more than there
    are pseudo-legal moves (e5×d6 is yielded as the hash move and again as a generated move). -/
theorem demo_bit15 : (yielded demo (Move.mk 36 43 0 + 32768) rk0).length = (MoveGen.gen demo).length + 1 := by
  decide +kernel

/-- Hence the property does not hold over all 16-bit values: the bound `hm < 32768` is needed. -/
theorem C16_allwords_false : ¬ C16_allwords := fun h => by
  have p := h demo (Move.mk 36 43 0 + 32768) rk0 demo_valid demo_fits (by decide) rk0_bands
  have := p.length_eq
  rw [demo_bit15] at this
  omega

end ChessVerif.Props.C16
