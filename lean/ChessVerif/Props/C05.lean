/-
  C05 — the pseudo-legality test accepts exactly the generated encodings (property theorems only).

  "For every valid position and every one of the 32 768 possible move encodings (any from square,
  any to square, any value of the three promotion bits), the engine's pseudo-legality test accepts the
  encoding if and only if the move generator emits exactly that encoding for that position."

  Models: `Board.isPseudoLegal` (Model/Board.lean, board.go `IsPseudoLegal`) and `MoveGen.gen`
  (Model/MoveGen.lean, movegen.go `GenNoisy` followed by `GenNotNoisy`).  The attack lookups
  `Attacks.kingMoves/knightMoves/bishopMoves/rookMoves` and `Board.isAttacked` are used as opaque
  functions (both sides apply the same function to the same arguments; the only table facts used are
  that the king table of e1/e8 does not contain g1, c1 / g8, c8).
-/
import ChessVerif.Proofs.PLValid
import ChessVerif.Proofs.PLGenIff
import ChessVerif.Proofs.PLTest
import ChessVerif.Proofs.PLNodup

namespace ChessVerif.Props.C05
open ChessVerif PL

/-- The test accepts exactly the words that satisfy the set-level predicate `PL`
    (one clause per piece kind, castling, pushes, captures, en passant; promotion bits in
    Knight..Queen exactly when the pawn leaves its 7th rank).  No bound on `m`: the test reads only
    the three fields of the word. -/
theorem isPseudoLegal_iff_PL {b : Board} (hd : PLDomain b) (m : Nat) :
    b.isPseudoLegal m = true ↔ PL b (Move.src m) (Move.dst m) (Move.promo m) :=
  PL.isPseudoLegal_iff_PL hd m

/-- The generator emits exactly the 15-bit words that satisfy `PL`. -/
theorem gen_iff_PL {b : Board} (hd : PLDomain b) (m : Nat) :
    m ∈ MoveGen.gen b ↔ m < 32768 ∧ PL b (Move.src m) (Move.dst m) (Move.promo m) :=
  PL.gen_iff_PL hd m

/-- C05 on the explicit domain `PLDomain` (exactly the facts the proof uses). -/
theorem isPseudoLegal_iff_gen_of_domain {b : Board} (hd : PLDomain b) {m : Nat} (hm : m < 32768) :
    b.isPseudoLegal m = true ↔ m ∈ MoveGen.gen b := by
  rw [PL.isPseudoLegal_iff_PL hd, PL.gen_iff_PL hd]
  exact ⟨fun h => ⟨hm, h⟩, fun h => h.2⟩

/-- `Board.valid` implies the explicit domain. -/
theorem domain_of_valid {b : Board} (hv : Board.valid b = true) : PLDomain b := PLDomain_of_valid hv

/-- **C05**: for every valid position and every one of the 32 768 encodings, the pseudo-legality
    test accepts the encoding iff the generator emits exactly that encoding. -/
theorem isPseudoLegal_iff_gen {b : Board} (hv : Board.valid b = true) {m : Nat} (hm : m < 32768) :
    b.isPseudoLegal m = true ↔ m ∈ MoveGen.gen b :=
  isPseudoLegal_iff_gen_of_domain (PLDomain_of_valid hv) hm

/-- every generated word is one of the 32 768 encodings (bit 15 clear, fields in range). -/
theorem gen_lt {b : Board} (hv : Board.valid b = true) {m : Nat} (h : m ∈ MoveGen.gen b) : m < 32768 :=
  ((PL.gen_iff_PL (PLDomain_of_valid hv) m).1 h).1

theorem gen_nodup_of_domain {b : Board} (hd : PLDomain b) : (MoveGen.gen b).Nodup :=
  PL.gen_nodup_of_domain hd

/-- **C05 (no repetition)**: no encoding is generated twice. -/
theorem gen_nodup {b : Board} (hv : Board.valid b = true) : (MoveGen.gen b).Nodup :=
  PL.gen_nodup_of_domain (PLDomain_of_valid hv)

/-- in particular the noisy and the quiet halves are disjoint. -/
theorem genNoisy_disjoint_genNotNoisy {b : Board} (hv : Board.valid b = true) {m : Nat}
    (h1 : m ∈ MoveGen.genNoisy b) (h2 : m ∈ MoveGen.genNotNoisy b) : False :=
  (List.nodup_append.1 (gen_nodup hv)).2.2 m h1 m h2 rfl

/-! ### Non-vacuity -/

/-- the start position. -/
def start : Board :=
  { sq := #v[.rook, .knight, .bishop, .queen, .king, .bishop, .knight, .rook,
             .pawn, .pawn, .pawn, .pawn, .pawn, .pawn, .pawn, .pawn,
             .none, .none, .none, .none, .none, .none, .none, .none,
             .none, .none, .none, .none, .none, .none, .none, .none,
             .none, .none, .none, .none, .none, .none, .none, .none,
             .none, .none, .none, .none, .none, .none, .none, .none,
             .pawn, .pawn, .pawn, .pawn, .pawn, .pawn, .pawn, .pawn,
             .rook, .knight, .bishop, .queen, .king, .bishop, .knight, .rook],
    pieces := #v[0, 0x00ff00000000ff00#64, 0x4200000000000042#64, 0x2400000000000024#64,
                 0x8100000000000081#64, 0x0800000000000008#64, 0x1000000000000010#64],
    colors := #v[0x000000000000ffff#64, 0xffff000000000000#64],
    hashes := [], fullMoves := 1, stm := .white, ep := 0, castles := 15#4, fifty := 0 }

/-- `4k3/P3... `: White Ke1 Rh1 Pa7 Pe5, Black Ke8 Nb8 Pd5, White to move, right K, en-passant
    target d6 — a promotion (push and capture), an en-passant capture and a castling right. -/
def rich : Board :=
  { sq := #v[.none, .none, .none, .none, .king, .none, .none, .rook,
             .none, .none, .none, .none, .none, .none, .none, .none,
             .none, .none, .none, .none, .none, .none, .none, .none,
             .none, .none, .none, .none, .none, .none, .none, .none,
             .none, .none, .none, .pawn, .pawn, .none, .none, .none,
             .none, .none, .none, .none, .none, .none, .none, .none,
             .pawn, .none, .none, .none, .none, .none, .none, .none,
             .none, .knight, .none, .none, .king, .none, .none, .none],
    pieces := #v[0, bit 48 ||| bit 36 ||| bit 35, bit 57, 0, bit 7, 0, bit 4 ||| bit 60],
    colors := #v[bit 4 ||| bit 7 ||| bit 48 ||| bit 36, bit 60 ||| bit 57 ||| bit 35],
    hashes := [], fullMoves := 1, stm := .white, ep := 43, castles := 1#4, fifty := 0 }

/-- the start position and the rich position are in the domain. -/
example : Board.valid start = true := by decide +kernel
example : Board.valid rich = true := by decide +kernel
example : PLDomain start := PLDomain_of_valid (by decide +kernel)

/-- e2e4 is accepted, hence (by the theorem) generated. -/
example : start.isPseudoLegal (Move.mk 12 28 0) = true := by decide +kernel
example : Move.mk 12 28 0 ∈ MoveGen.gen start :=
  (isPseudoLegal_iff_gen (by decide +kernel) (by decide)).1 (by decide +kernel)

/-- e2e4 with the promotion bits of a queen is rejected, hence not generated (finding D1 before the fix). -/
example : start.isPseudoLegal (Move.mk 12 28 5) = false := by decide +kernel
example : Move.mk 12 28 5 ∉ MoveGen.gen start := fun h => by
  have := (isPseudoLegal_iff_gen (b := start) (by decide +kernel) (by decide)).2 h
  exact absurd this (by decide +kernel)

/-- en-passant capture e5xd6, promotion a7a8=Q, capture-promotion a7xb8=N accepted;
    a7a8 without promotion bits, a7a8 with promotion bits 1, 6 and 7, and e5xd6 with promotion bits rejected. -/
example : rich.isPseudoLegal (Move.mk 36 43 0) = true := by decide +kernel
example : rich.isPseudoLegal (Move.mk 48 56 5) = true := by decide +kernel
example : rich.isPseudoLegal (Move.mk 48 57 2) = true := by decide +kernel
example : rich.isPseudoLegal (Move.mk 48 56 0) = false := by decide +kernel
example : rich.isPseudoLegal (Move.mk 48 56 1) = false := by decide +kernel
example : rich.isPseudoLegal (Move.mk 48 56 6) = false := by decide +kernel
example : rich.isPseudoLegal (Move.mk 48 56 7) = false := by decide +kernel
example : rich.isPseudoLegal (Move.mk 36 43 5) = false := by decide +kernel
example : Move.mk 36 43 0 ∈ MoveGen.gen rich :=
  (isPseudoLegal_iff_gen (by decide +kernel) (by decide)).1 (by decide +kernel)

/-- the bound `m < 32768` cannot be dropped: the test masks the word, so e2e4 with bit 15 set is
    accepted, but it is never generated. -/
example : start.isPseudoLegal (Move.mk 12 28 0 + 32768) = true := by decide +kernel
example : Move.mk 12 28 0 + 32768 ∉ MoveGen.gen start := fun h => by
  have := gen_lt (b := start) (by decide +kernel) h
  exact absurd this (by decide)

end ChessVerif.Props.C05
