/-
  C14 — time budget.

  "For every clock state the GUI can report (remaining time and increment for the side to move, or a
  fixed move time), the hard deadline after which the driver aborts the search is positive, never
  later than the remaining time, and keeps the safety margin whenever more than the margin remains;
  with a fixed move time both the soft target and the hard deadline equal that move time.  The
  deadline depends only on the mover's own clock."

  All statements are about `Gen.Funcs.timedMode / softLimit / hardLimit`, the Lean translation of
  /repo/uci/uci.go's `timeControl` methods regenerated on every run (Int semantics with `wrapS64`
  at every arithmetic operation; constants `TimeSafetyMargin`, `PredictedMoves`, `TimeInf` from Gen; no
  statement below names the numbers 30/30/4, so a re-tuned constant is re-proved or refuted by the build).
  Parameters: `w b wi bi` = wtime btime winc binc (ms), `mt` = movetime (0 = absent), `stm` = side to
  move (`White = 0`, `Black = 1`).  `own stm x y` is the mover's value of a per-colour field.
  Quantifier: `ClockDom t inc` = 1 ≤ t ≤ 10^12 ∧ 0 ≤ inc ≤ 10^9 for the MOVER's clock; the opponent's
  fields and (where stated) `mt` are arbitrary integers.

  How the code treats "movetime together with clock values": a positive movetime wins
  unconditionally (`movetime_eq`), even when it exceeds the remaining time
  (`movetime_may_exceed_clock`); hence `hard_le`/`hard_margin` carry the hypothesis `mt ≤ 0`.
-/
import ChessVerif.Proofs.TimeControl

namespace ChessVerif.Props.C14
open ChessVerif ChessVerif.Gen.Funcs ChessVerif.Proofs.TimeControl

variable {w b wi bi mt stm : Int}

/-- On the stated domain no arithmetic operation of `softLimit`/`hardLimit` leaves the `int64` range:
    the translation with a `wrapS64` at every operation agrees with `softLimit_ideal`/`hardLimit_ideal`,
    the extractor's rendering of the same Go bodies over exact integers (every `wrapS64` is an
    identity on the values that occur).  Holds with or without a move time. -/
theorem no_wrap (hs : stm = White ∨ stm = Black) (hd : ClockDom (own stm w b) (own stm wi bi)) (mt : Int) :
    softLimit w b wi bi mt stm = softLimit_ideal w b wi bi mt stm ∧
    hardLimit w b wi bi mt stm = hardLimit_ideal w b wi bi mt stm := by
  rcases hs with h | h <;> simp only [White, Black] at h <;> subst h <;> simp only [own_white, own_black] at hd
  · exact no_wrap_white hd.1 hd.2 hd.3 hd.4
  · exact no_wrap_black hd.1 hd.2 hd.3 hd.4

/-- The hard deadline is positive (with or without a move time). -/
theorem hard_pos (hs : stm = White ∨ stm = Black) (hd : ClockDom (own stm w b) (own stm wi bi)) (mt : Int) :
    0 < hardLimit w b wi bi mt stm := by
  by_cases hmt : 0 < mt
  · rw [hard_movetime stm hmt]; exact hmt
  · rcases hs with h | h <;> simp only [White, Black] at h <;> subst h <;> simp only [own_white, own_black] at hd
    · exact (hard_white_bounds hd.1 hd.2 (by omega)).1
    · exact (hard_black_bounds hd.1 hd.2 (by omega)).1

/-- Without a move time the hard deadline is never later than the mover's remaining time. -/
theorem hard_le (hs : stm = White ∨ stm = Black) (hd : ClockDom (own stm w b) (own stm wi bi)) (hmt : mt ≤ 0) :
    hardLimit w b wi bi mt stm ≤ own stm w b := by
  rcases hs with h | h <;> simp only [White, Black] at h <;> subst h <;> simp only [own_white, own_black] at hd ⊢
  · exact (hard_white_bounds hd.1 hd.2 hmt).2.1
  · exact (hard_black_bounds hd.1 hd.2 hmt).2.1

/-- Without a move time the safety margin is kept whenever more than the margin remains. -/
theorem hard_margin (hs : stm = White ∨ stm = Black) (hd : ClockDom (own stm w b) (own stm wi bi)) (hmt : mt ≤ 0)
    (hm : TimeSafetyMargin < own stm w b) :
    hardLimit w b wi bi mt stm ≤ own stm w b - TimeSafetyMargin := by
  rcases hs with h | h <;> simp only [White, Black] at h <;> subst h <;> simp only [own_white, own_black] at hd hm ⊢
  · exact (hard_white_bounds hd.1 hd.2 hmt).2.2 hm
  · exact (hard_black_bounds hd.1 hd.2 hmt).2.2 hm

/-- With a fixed move time both limits equal it — for ANY clock values and either colour. -/
theorem movetime_eq (hmt : 0 < mt) :
    softLimit w b wi bi mt stm = mt ∧ hardLimit w b wi bi mt stm = mt :=
  ⟨soft_movetime stm hmt, hard_movetime stm hmt⟩

/-- …in particular a move time larger than the remaining time is NOT cut down to the clock
    (the code as it is; the GUI-contract reading of the property has either clocks or a move time). -/
theorem movetime_may_exceed_clock :
    ∃ w b wi bi mt : Int, ClockDom w wi ∧ 0 < mt ∧ w < hardLimit w b wi bi mt White :=
  ⟨100, 100, 0, 0, 5000, ⟨by decide, by decide, by decide, by decide⟩, by decide, by decide⟩

/-- The limits depend only on the mover's own clock and increment: two calls that agree on the
    mover's fields (and the move time) agree, whatever the opponent's fields are. -/
theorem own_clock_only (hs : stm = White ∨ stm = Black) {w' b' wi' bi' : Int}
    (ht : own stm w b = own stm w' b') (hi : own stm wi bi = own stm wi' bi') :
    hardLimit w b wi bi mt stm = hardLimit w' b' wi' bi' mt stm ∧
    softLimit w b wi bi mt stm = softLimit w' b' wi' bi' mt stm := by
  rcases hs with h | h <;> simp only [White, Black] at h <;> subst h <;> simp only [own_white, own_black] at ht hi <;>
    subst ht <;> subst hi
  · exact ⟨hard_white_indep b' bi', soft_white_indep b' bi'⟩
  · exact ⟨hard_black_indep w' wi', soft_black_indep w' wi'⟩

/-- `timedMode` is on exactly when the mover has a positive clock or a move time is given. -/
theorem timedMode_iff (hs : stm = White ∨ stm = Black) :
    timedMode w b mt stm = true ↔ (0 < own stm w b ∨ 0 < mt) := by
  rcases hs with h | h <;> simp only [White, Black] at h <;> subst h <;> simp only [own_white, own_black]
  · exact timedMode_white
  · exact timedMode_black

/-- On the stated domain the search is always timed. -/
theorem timedMode_on_domain (hs : stm = White ∨ stm = Black) (hd : ClockDom (own stm w b) (own stm wi bi)) :
    timedMode w b mt stm = true :=
  (timedMode_iff hs).2 (Or.inl (by have := hd.1; omega))

/-- Outside timed mode (no positive own clock, no move time) the limits are the "infinite" constants. -/
theorem untimed_limits (hs : stm = White ∨ stm = Black) (ht : own stm w b ≤ 0) (hmt : mt ≤ 0) :
    timedMode w b mt stm = false ∧ softLimit w b wi bi mt stm = TimeInf ∧
      hardLimit w b wi bi mt stm = TimeInf - TimeSafetyMargin := by
  refine ⟨?_, ?_⟩
  · cases hq : timedMode w b mt stm
    · rfl
    · have := (timedMode_iff hs).1 hq; omega
  · rcases hs with h | h <;> simp only [White, Black] at h <;> subst h <;> simp only [own_white, own_black] at ht
    · exact untimed_white ht hmt
    · exact untimed_black ht hmt

/-! ## Non-vacuity: concrete clocks meet the hypotheses (outputs are stated relative to the Gen
   constants, so the examples survive a re-tuning of the constants) -/

example : ClockDom (own White 60000 45000) (own White 1000 0) := ⟨by decide, by decide, by decide, by decide⟩
example : ClockDom (own Black 45000 1) (own Black 0 1000000000) := ⟨by decide, by decide, by decide, by decide⟩
example : ClockDom 1000000000000 1000000000 := ⟨by decide, by decide, by decide, by decide⟩
example : (White = White ∨ White = Black) ∧ (Black = White ∨ Black = Black) := by decide
/-- 60 s + 1 s for White: positive, margin kept; Black's 45 s is irrelevant. -/
example : 0 < hardLimit 60000 45000 1000 0 0 White ∧ hardLimit 60000 45000 1000 0 0 White ≤ 60000 - TimeSafetyMargin ∧
    hardLimit 60000 45000 1000 0 0 White = hardLimit 60000 7 1000 99 0 White := by decide
/-- 1 ms left: the deadline is that 1 ms (positive, ≤ t). -/
example : hardLimit 7 1 0 0 0 Black = 1 := by decide
/-- margin + 1 ms left: margin kept, hard = 1 ms. -/
example : hardLimit (TimeSafetyMargin + 1) 0 0 0 0 White = 1 := by decide
/-- Upper corner of the domain: no wrap, and the deadline is below the clock. -/
example : hardLimit 0 1000000000000 0 1000000000 0 Black = hardLimit_ideal 0 1000000000000 0 1000000000 0 Black ∧
    hardLimit 0 1000000000000 0 1000000000 0 Black < 1000000000000 := by decide
/-- Huge increment on a short clock: clamped to t − margin. -/
example : hardLimit 1000 0 1000000000 0 0 White = 1000 - TimeSafetyMargin := by decide
/-- Move time with clocks: both limits are the move time. -/
example : softLimit 60000 60000 0 0 50 White = 50 ∧ hardLimit 60000 60000 0 0 50 White = 50 := by decide
example : timedMode 0 0 0 White = false ∧ timedMode 0 5 0 Black = true ∧ timedMode 0 0 1 White = true := by decide

end ChessVerif.Props.C14
