/-
  C20 — each training position exactly once per epoch.

  Model: ChessVerif/Model/Tuner.lean (mirrors tools/tuner/epd/chunker.go, tuning/batch.go).
  Spec vocabulary: ChessVerif/Spec/Tuner.lean (`Tiles`, `Parsed`, `nonBlank`).
  Constants: ChessVerif/Gen/Tuner.lean (regenerated from /repo).
-/
import ChessVerif.Proofs.TunerEpoch

namespace ChessVerif.Props.C20
open ChessVerif.Tuner ChessVerif.Tuner.Spec

/-! ## feistel_bij -/

/-- For EVERY round function `F`, every bit width and every even number of rounds (any number of
    rounds if the width is even) the Feistel network of `epd.feistel` is a bijection of `[0, 2^bits)`. -/
theorem feistel_bij (F : Nat → Nat → Nat) (rounds bits : Nat) (h : rounds % 2 = 0 ∨ bits % 2 = 0) :
    Set.BijOn (fun x => feistelG F rounds x bits) (Set.Iio (2 ^ bits)) (Set.Iio (2 ^ bits)) :=
  feistelG_bijOn F rounds bits h

/-- The code's instance: its round count (Gen) is even, so `epd.feistel(·, seed, bits)` is a bijection
    of `[0, 2^bits)` for every seed and every width. -/
theorem feistel_bij_code (seed bits : Nat) :
    Set.BijOn (fun x => feistel x seed bits) (Set.Iio (2 ^ bits)) (Set.Iio (2 ^ bits)) :=
  feistelG_bijOn _ _ bits (gen_roundsOK bits)

/-- The `UInt64` mixer model shifts by the literal counts only if they are `< 64`. -/
theorem gen_shift_counts_lt_64 : Gen.Tuner.roundShift1 < 64 ∧ Gen.Tuner.roundShift2 < 64 := by decide

example : (2 : Nat) % 2 = 0 ∨ (5 : Nat) % 2 = 0 := Or.inl rfl
example : ((List.range 32).map (fun x => feistel x 7 5)).Perm (List.range 32) := by decide

/-! ## shuffle_terminates, shuffle_perm -/

/-- For every `n ≤ 2^64` (every `uint64`), every seed and every `x < n`: with the iteration budget
    `2^bits.Len64(n-1)` or more, the rejection loop of `shuffleIndex` returns, and the value is `< n`. -/
theorem shuffle_terminates (n seed x : Nat) (hn : n ≤ 2 ^ 64) (hx : x < n) :
    shuffleIndex x n seed < n ∧
    ∀ fuel, shuffleFuel n ≤ fuel → shuffleIndexFuel fuel x n seed = some (shuffleIndex x n seed) :=
  shuffleIndex_terminates n seed x hn hx

/-- For every `n ≤ 2^64` and every seed, `shuffleIndex(·, n, seed)` maps `[0,n)` bijectively onto `[0,n)`. -/
theorem shuffle_perm (n seed : Nat) (hn : n ≤ 2 ^ 64) :
    Set.BijOn (fun x => shuffleIndex x n seed) (Set.Iio n) (Set.Iio n) :=
  shuffleIndex_bijOn n seed hn

example : (11 : Nat) ≤ 2 ^ 64 ∧ (3 : Nat) < 11 := by decide
example : ((List.range 11).map (fun x => shuffleIndex x 11 3)).Perm (List.range 11) := by decide

/-! ## batches_partition, chunks_partition -/

/-- `Batches(n)` tiles `[0,n)` with non-empty contiguous ranges of at most `B` lines, for any `B > 0`. -/
theorem batches_partition (B n : Nat) (hB : 0 < B) :
    Tiles (batchesWith B n) 0 n ∧ ∀ r ∈ batchesWith B n, r.stop - r.start ≤ B :=
  batchesWith_tiles B n hB

/-- `Chunks(batch)` tiles the batch, for any `B, C > 0`. -/
theorem chunks_partition (B C : Nat) (hB : 0 < B) (hC : 0 < C) (batch : Range) (hb : batch.start ≤ batch.stop) :
    Tiles (chunksWith B C batch) batch.start batch.stop :=
  chunksWith_tiles B C hB hC batch hb

/-- A batch of at most `B` lines has at most `C` chunks (rounding the chunk size UP matters here). -/
theorem chunks_count_le (B C : Nat) (hB : 0 < B) (hC : 0 < C) (batch : Range)
    (hb : batch.start ≤ batch.stop) (hlen : batch.stop - batch.start ≤ B) :
    (chunksWith B C batch).length ≤ C :=
  chunksWith_length_le B C hB hC batch hb hlen

/-- With the constants of the code: all chunks of all batches enumerate `0, 1, …, n-1` exactly once. -/
theorem batches_chunks_partition_code (n : Nat) :
    Tiles ((batches n).flatMap chunks) 0 n ∧
    ((batches n).flatMap chunks).flatMap indices = List.range n := by
  have h := allChunks_tiles Gen.Tuner.numLinesInBatch Gen.Tuner.numChunksInBatch n (by decide) (by decide)
  refine ⟨h, ?_⟩
  have := tiles_indices _ 0 n h
  rw [List.range_eq_range']
  exact this

example : batchesWith 10 25 = [⟨0, 10⟩, ⟨10, 20⟩, ⟨20, 25⟩] := by decide
example : chunksWith 10 3 ⟨20, 25⟩ = [⟨20, 24⟩, ⟨24, 25⟩] := by decide

/-! ## manifest_spec -/

/-- For every file in the documented format (`Parsed`: `lines` each followed by `'\n'`, then an
    unterminated `tail`) whose lines fit bufio's buffer, `NewChunker` succeeds and its manifest is exactly
    the list of (start, stop) offsets of the non-blank lines (`stop` past the `'\n'`) … -/
theorem manifest_spec (f : File) (lines : List (List UInt8)) (tail : List UInt8)
    (hp : Parsed f.content lines tail)
    (hfit : ∀ l ∈ lines, l.length + 1 ≤ bufioSize) (htail : tail.length < bufioSize) :
    ∃ m, newChunker f = some m ∧ m.toList = nonBlankSpans lines :=
  newChunkerWith_spec f bufioSize lines tail hp hfit htail

/-- … and those offsets address the non-blank lines byte for byte: `file[start, stop-1)`. -/
theorem manifest_addresses_lines (f : File) (lines : List (List UInt8)) (tail : List UInt8)
    (hp : Parsed f.content lines tail) :
    (nonBlankSpans lines).map (fun a => f.slice a.start (a.stop - 1)) = nonBlank lines := by
  have hat : At f 0 (joined lines ++ tail) := by
    have := at_zero_of_content f
    rw [hp.eq] at this
    exact this
  exact spans_slice f tail lines 0 hat

/-- Every byte string is in the documented format (so the hypothesis `Parsed` is never vacuous). -/
theorem every_file_parses (bytes : List UInt8) : Parsed bytes (parse bytes).1 (parse bytes).2 :=
  parse_parsed bytes

/-- The file of round-0 finding D6: `"alpha\\nbravo\\n\\ncharlie\\ndelta\\n\\nzz"`. -/
def d6 : List UInt8 :=
  [97, 108, 112, 104, 97, 10, 98, 114, 97, 118, 111, 10, 10, 99, 104, 97, 114, 108, 105, 101, 10,
   100, 101, 108, 116, 97, 10, 10, 122, 122]
def alpha : List UInt8 := [97, 108, 112, 104, 97]
def bravo : List UInt8 := [98, 114, 97, 118, 111]
def charlie : List UInt8 := [99, 104, 97, 114, 108, 105, 101]
def delta : List UInt8 := [100, 101, 108, 116, 97]
def zz : List UInt8 := [122, 122]

example : Parsed (File.ofList d6).content
    [alpha, bravo, [], charlie, delta, []]
    zz := ⟨by decide, by decide, by decide⟩
example : (newChunker (File.ofList d6)).map (·.toList) = some [⟨0, 6⟩, ⟨6, 12⟩, ⟨13, 21⟩, ⟨21, 27⟩] := by decide

/-! ## read_exact -/

/-- One `Read` from ANY buffer state satisfying the window invariant `BufOK` (in particular after any
    sequence of earlier refills): if the next line address is inside the file and its content is not
    longer than the buffer, `Read` returns exactly `file[start, stop-1)`, advances, and re-establishes
    the invariant. -/
theorem read_exact (f : File) (bufLen : Nat) (c : Chunk) (hok : BufOK f bufLen c)
    (hix : c.chunkLinesIx < c.chunkLines.size) (ha : AddrOK f bufLen c.chunkLines[c.chunkLinesIx]) :
    ∃ c', c.read f bufLen =
        (.line (f.slice c.chunkLines[c.chunkLinesIx].start (c.chunkLines[c.chunkLinesIx].stop - 1)), c') ∧
      BufOK f bufLen c' ∧ c'.chunkLines = c.chunkLines ∧ c'.chunkLinesIx = c.chunkLinesIx + 1 :=
  read_step f bufLen c hok hix ha

/-- Reading a freshly opened chunk to EOF delivers `file[start, stop-1)` for each of its line
    addresses, in order, whatever refills happen on the way. -/
theorem read_exact_all (f : File) (bufLen : Nat) (c : Chunk) (hs : c.mapStart = 0) (he : c.mapEnd = 0)
    (hi : c.chunkLinesIx = 0) (hall : ∀ a ∈ c.chunkLines.toList, AddrOK f bufLen a) :
    c.readAll f bufLen = some (c.chunkLines.toList.map (fun a => f.slice a.start (a.stop - 1))) :=
  readAll_spec f bufLen c hs he hi hall

example : AddrOK (File.ofList d6) 7 ⟨13, 21⟩ := ⟨by decide, by decide, by decide⟩
example : BufOK (File.ofList d6) 7 ⟨#[⟨13, 21⟩], 0, 0, 0, fun _ => 0⟩ :=
  ⟨by decide, by decide, by decide, fun i h => by simp at h⟩
example : (Chunk.read (File.ofList d6) 7 ⟨#[⟨13, 21⟩], 0, 0, 0, fun _ => 0⟩).1
    = .line charlie := by decide

/-- Arbitrary sub-range: for every valid `[s,e)` of the shuffled order, `Open` succeeds and reading to EOF
    delivers (in file order) exactly the lines the shuffle assigns to the indices `s, …, e-1`. -/
theorem open_read_range (f : File) (bufLen : Nat) (manifest : Array LineAddr) (epoch : Int)
    (hn : manifest.size ≤ 2 ^ 64) (hall : ∀ a ∈ manifest.toList, AddrOK f bufLen a)
    (s e : Nat) (hse : s < e) (he : e ≤ manifest.size) :
    ∃ c out, openChunk manifest epoch s e = some c ∧ c.readAll f bufLen = some out ∧
      out.Perm ((List.range' s (e - s)).map (fun ix =>
        let a := manifest[shuffleIndex ix manifest.size (epochSeed epoch)]!
        f.slice a.start (a.stop - 1))) :=
  open_readAll f bufLen manifest epoch hn hall s e hse he

/-! ## epoch_exactly_once -/

/-- For every data file in the documented format whose lines fit bufio's 4 KiB buffer, every `int`
    epoch, and every read-buffer size that can hold the longest line: `NewChunker` succeeds, every
    `Open`/`Read` of the epoch (all chunks of all batches, real constants) succeeds, and the lines
    delivered are a permutation of the non-blank lines of the file, byte for byte. -/
theorem epoch_exactly_once (f : File) (lines : List (List UInt8)) (tail : List UInt8)
    (hp : Parsed f.content lines tail)
    (hbufio : ∀ l ∈ lines, l.length + 1 ≤ bufioSize) (htail : tail.length < bufioSize)
    (hsize : f.size < 2 ^ 63) (bufLen : Nat) (hbuf : ∀ l ∈ lines, l.length ≤ bufLen) (epoch : Int) :
    ∃ m out, newChunker f = some m ∧ epochLines f bufLen m epoch = some out ∧ out.Perm (nonBlank lines) :=
  epoch_exactly_once_file f lines tail hp bufioSize hbufio htail hsize bufLen hbuf epoch

/-- The same with the buffer size of the code (`backingBytes`, Gen): no further hypothesis on the buffer. -/
theorem epoch_exactly_once_code (f : File) (lines : List (List UInt8)) (tail : List UInt8)
    (hp : Parsed f.content lines tail)
    (hbufio : ∀ l ∈ lines, l.length + 1 ≤ bufioSize) (htail : tail.length < bufioSize)
    (hsize : f.size < 2 ^ 63) (epoch : Int) :
    ∃ m out, newChunker f = some m ∧ epochLines f Gen.Tuner.backingBytes m epoch = some out ∧
      out.Perm (nonBlank lines) := by
  have hle : bufioSize ≤ Gen.Tuner.backingBytes := by decide
  exact epoch_exactly_once f lines tail hp hbufio htail hsize _ (fun l hl => by have := hbufio l hl; omega) epoch

example : (∀ l ∈ (parse d6).1, l.length + 1 ≤ bufioSize) ∧ (parse d6).2.length < bufioSize ∧
    (File.ofList d6).size < 2 ^ 63 ∧ nonBlank (parse d6).1 =
      [alpha, bravo, charlie, delta] := by decide

end ChessVerif.Props.C20
