/-
  C02 and the halfmove clock — property theorems + non-vacuity examples only (proofs in
  Proofs/BoardNC.lean).

  `Props.C02.make_refines_rules`: `abs (make b m) = Rules.apply (abs b) m` for `Board.valid b`, i.e. with the
  clock in `[0,100]`.  For positions reached by playing moves the clock is arbitrary, and here the clock
  GENUINELY matters: the rule book's halfmove clock is an unbounded integer, the engine's is an int8 that
  wraps 127 → −128.  So:
  * modulo the clock the equation holds for every `ValidNC` board (`make_refines_rules_nc`): placement,
    side to move, castling rights, en-passant target recorded iff capturable, fullmove number;
  * in full it holds exactly when the clock does not wrap at this move (`make_refines_rules_iff`):
    clock < 127, or the move resets the clock.
-/
import ChessVerif.Proofs.BoardNCExample

namespace ChessVerif.Props.C02nc
set_option autoImplicit false
open ChessVerif Board

abbrev ValidNC := RepClosed.ValidNC
/-- the clock has a value of the Go type int8. -/
abbrev Int8Clock := NC.Int8Clock
/-- forget the halfmove clock of a rule-book position. -/
abbrev nc := RepClosed.nc

/-- what `nc` forgets: two positions are equal iff they agree modulo the clock and on the clock. -/
theorem pos_eq_iff (p q : Rules.Pos) : p = q ↔ nc p = nc q ∧ p.halfmove = q.halfmove := NC.pos_eq_iff p q

/-- **C02 modulo the clock, any clock**, for every generated (pseudo-legal) move. -/
theorem make_refines_rules_nc (K : Keys) {b : Board} {m : Move} (hv : ValidNC b) (hm : m ∈ MoveGen.gen b) :
    nc (abs (b.makeMove K m).1) = nc (Rules.apply (abs b) (decodeMove m)) := NC.make_refines_nc K hv hm

/-- … in the rule book's own terms: any legal move `mv`, played as its encoding. -/
theorem make_refines_rules_legal_nc (K : Keys) {b : Board} (hv : ValidNC b) (mv : Rules.Mv)
    (hl : Rules.legal (abs b) mv = true) :
    nc (abs (b.makeMove K (encodeMove mv)).1) = nc (Rules.apply (abs b) mv) := by
  obtain ⟨hp, hd⟩ := NC.legal_playable K hv mv hl
  have := NC.make_refines_nc K hv (EpTarget.playable_gen hp)
  rw [hd] at this
  exact this

/-- **exactly when the full equation holds**: iff the engine's clock does not wrap at this move. -/
theorem make_refines_rules_iff (K : Keys) {b : Board} {m : Move} (hv : ValidNC b) (h8 : Int8Clock b)
    (hm : m ∈ MoveGen.gen b) :
    abs (b.makeMove K m).1 = Rules.apply (abs b) (decodeMove m) ↔
      (b.fifty < 127 ∨ (Rules.apply (abs b) (decodeMove m)).halfmove = 0) := NC.make_refines_iff K hv h8 hm

/-- the full equation for every int8 clock below 127 (in particular for clocks 101 … 126 and for
    wrapped negative clocks, which `Props.C02.make_refines_rules` does not cover). -/
theorem make_refines_rules_of_lt (K : Keys) {b : Board} {m : Move} (hv : ValidNC b) (h8 : Int8Clock b)
    (hm : m ∈ MoveGen.gen b) (h : b.fifty < 127) :
    abs (b.makeMove K m).1 = Rules.apply (abs b) (decodeMove m) := NC.make_refines_of_lt K hv h8 hm h

/-- at clock 127 a move that does not reset the clock breaks the full equation (the engine's clock
    becomes −128, the rule book's 128). -/
theorem make_refines_rules_fails_at_127 (K : Keys) {b : Board} {m : Move} (hv : ValidNC b)
    (hm : m ∈ MoveGen.gen b) (h : b.fifty = 127)
    (hq : (Rules.apply (abs b) (decodeMove m)).halfmove ≠ 0) :
    abs (b.makeMove K m).1 ≠ Rules.apply (abs b) (decodeMove m) := fun e => by
  rcases (NC.make_refines_iff K hv ⟨by omega, by omega⟩ hm).1 e with h' | h'
  · omega
  · exact hq h'

/-- the en-passant convention in every reached position: a recorded target has a legal capture. -/
theorem epNormal_make_nc (K : Keys) {b : Board} {m : Move} (hv : ValidNC b) (hm : m ∈ MoveGen.gen b) :
    Rules.epNormal (abs (b.makeMove K m).1) = true := by
  rw [← RepClosed.epNormal_nc, NC.make_refines_nc K hv hm, RepClosed.epNormal_nc]
  exact EpTarget.epNormal_apply _ _

/-- **C02 along a game of any length, modulo the clock**. -/
theorem run_refines_rules_nc (K : Keys) (b : Board) (ms : List Move) (hv : ValidNC b)
    (h : EpTarget.PlayableSeq K b ms) :
    nc (abs (EpTarget.run K b ms)) = nc (EpTarget.runRules (abs b) ms) := NC.run_refines_nc K ms b hv h

/-! ### non-vacuity -/

open NC.Example

-- the wrapped board (clock −124): the full equation holds although the board is not `Board.valid`
example (K : Keys) : abs (wrapped.makeMove K kd1).1 = Rules.apply (abs wrapped) (decodeMove kd1) :=
  make_refines_rules_of_lt K wrapped_validNC wrapped_int8 (EpTarget.playable_gen (kd1_playable K)) (by decide)

-- … so the full equation fails there, while the clock-erased one holds
example (K : Keys) : abs (at127.makeMove K kd1).1 ≠ Rules.apply (abs at127) (decodeMove kd1) :=
  make_refines_rules_fails_at_127 K at127_validNC (EpTarget.playable_gen (at127_playable K)) rfl
    (by rw [at127_rule_clock]; decide)
example (K : Keys) : nc (abs (at127.makeMove K kd1).1) = nc (Rules.apply (abs at127) (decodeMove kd1)) :=
  make_refines_rules_nc K at127_validNC (EpTarget.playable_gen (at127_playable K))

end ChessVerif.Props.C02nc
