/-
  C13 — second tie of the UCI model to the Go source: the ORDER and KIND of the concurrency-relevant
  operations of /repo/uci/uci.go, re-extracted on every run (`Gen/UciSkeleton.lean`, by
  /verif/extract/cmd/uci), are exactly what the transition system `Spec/UciProtocol.lean` assumes
  (`Spec/UciSkeletonExpected.lean`).  One theorem per Go function, so that a failing build names the
  function whose skeleton changed.
-/
import ChessVerif.Gen.UciSkeleton
import ChessVerif.Spec.UciSkeletonExpected

namespace ChessVerif.Uci.Skeleton
open ChessVerif

theorem run_matches : Gen.UciSkeleton.run = Spec.UciSkeletonExpected.run := by decide
theorem readInput_matches : Gen.UciSkeleton.readInput = Spec.UciSkeletonExpected.readInput := by decide
theorem handleInput_matches : Gen.UciSkeleton.handleInput = Spec.UciSkeletonExpected.handleInput := by decide
theorem writeOutput_matches : Gen.UciSkeleton.writeOutput = Spec.UciSkeletonExpected.writeOutput := by decide
theorem outputWrite_matches : Gen.UciSkeleton.outputWrite = Spec.UciSkeletonExpected.outputWrite := by decide
theorem handleCommand_matches : Gen.UciSkeleton.handleCommand = Spec.UciSkeletonExpected.handleCommand := by decide
theorem handleGo_matches : Gen.UciSkeleton.handleGo = Spec.UciSkeletonExpected.handleGo := by decide
theorem handleEval_matches : Gen.UciSkeleton.handleEval = Spec.UciSkeletonExpected.handleEval := by decide
theorem handlePerft_matches : Gen.UciSkeleton.handlePerft = Spec.UciSkeletonExpected.handlePerft := by decide

/-- The skeleton of every walked function of uci.go is the one the model assumes. -/
theorem skeleton_matches : Gen.UciSkeleton.all = Spec.UciSkeletonExpected.all := by
  simp only [Gen.UciSkeleton.all, Spec.UciSkeletonExpected.all, run_matches, readInput_matches,
    handleInput_matches, writeOutput_matches, outputWrite_matches, handleCommand_matches,
    handleGo_matches, handleEval_matches, handlePerft_matches]

/-- No other function of package uci touches a channel, WaitGroup, Pool, Timer or `*output`. -/
theorem touching_matches : Gen.UciSkeleton.touching = Spec.UciSkeletonExpected.touching := by decide

/-- `OutputBufDepth` is the model's `outDepth` (and, by `run_matches`, the capacity of the output
    channel made in `Run`). -/
theorem outputBufDepth_matches : Gen.UciSkeleton.outputBufDepth = Uci.outDepth := by decide

/-- `Run` starts as many goroutines on its WaitGroup as the model's initial `runWg`; `handleGo`
    starts as many as `dispatch (.go _ _)` adds to `goWg`. -/
theorem goroutine_counts :
    ((Gen.UciSkeleton.run.filter (· == .goBegin "w0")).length : Int) = (Uci.init []).runWg ∧
    ((Gen.UciSkeleton.handleGo.filter (· == .goBegin "w0")).length : Int)
      = (Uci.dispatch (.go false false) (Uci.init [])).goWg - (Uci.init []).goWg := by decide

/-! ### Non-vacuity: the lists are the real thing, and the comparison discriminates

Readable consequences on the GENERATED lists (the orderings the C13 theorems rest on), and a
mutated list that is rejected. -/

open Gen.UciSkeleton in
/-- `close(searchFin)` < `wg.Wait()` < the `bestmove` write, in handleGo. -/
example : handleGo.idxOf (.close "c2") < handleGo.idxOf (.wait "w0") ∧
    handleGo.idxOf (.wait "w0") < handleGo.idxOf (.write "Driver.output" "bestmove") ∧
    handleGo.idxOf (.write "Driver.output" "bestmove") < handleGo.length := by decide

open Gen.UciSkeleton in
/-- writeOutput puts the buffer back after the write loop; output.Write copies before it sends. -/
example : writeOutput.idxOf (.sinkWrite "output.writer" "(*x0)[x1:]") < writeOutput.idxOf (.poolPut "output.pool" "x0") ∧
    writeOutput.idxOf (.poolPut "output.pool" "x0") < writeOutput.length ∧
    outputWrite.idxOf (.copy "*x0" "x2") < outputWrite.idxOf (.send "output.channel" "x0") ∧
    outputWrite.idxOf (.clone "x3" "x2") < outputWrite.idxOf (.send "output.channel" "x0") := by decide

/-- The "bestmove before wg.Wait" mutation of handleGo (swap of two events) is not the expected list. -/
example : (Spec.UciSkeletonExpected.handleGo.map fun e =>
      if e = .wait "w0" then .write "Driver.output" "bestmove"
      else if e = .write "Driver.output" "bestmove" then .wait "w0" else e)
    ≠ Spec.UciSkeletonExpected.handleGo := by decide

end ChessVerif.Uci.Skeleton
