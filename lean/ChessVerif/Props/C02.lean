/-
  C02 — the successor position is the one the rules prescribe (property theorems + examples only).

  "For every valid position and every legal move, after the move is played the piece placement, side
  to move, castling rights, halfmove clock and fullmove number are exactly those the rules prescribe,
  and an en-passant target is recorded if and only if at least one legal en-passant capture exists in
  the successor position.  The same holds for positions set up through the UCI position command with a
  move list."

  Models: `Board.makeMove`, `Board.canEnPassant`, `Board.isAttacked` (Model/Board.lean — board.go
  `MakeMove`, attacks.go `CanEnPassant` after the repair of D2: the pusher's origin square is cleared
  from the occupancy, `IsAttacked`), `MoveGen.gen` / `MoveGen.playable` (Model/MoveGen.lean).
  Specification: `Rules.apply` (Spec/Rules.lean) = `Rules.applyCore` with the en-passant target kept
  only if `Rules.legalEpCaptures` of the successor is non-empty.
  The five non-ep fields are `Props/C02core.abs_make_core` (Proofs/AbsMake*.lean); the en-passant
  clause and the assembly are proved in Proofs/EpTarget*.lean.  The hypothesis on the move is
  "generated" (pseudo-legal); "playable"/legal is the special case the property speaks about.
-/
import ChessVerif.Proofs.EpTargetRun
import ChessVerif.Props.C02core

namespace ChessVerif.Props.C02
open ChessVerif Board

/-- `|src − dst|` as `MakeMove` computes it. -/
abbrev mvDiff := EpTarget.mvDiff

/-- **C02, en-passant clause at the level of `CanEnPassant`**: for a valid position and a generated
    double pawn push (pawn on the origin, distance 16), `CanEnPassant(to)` — which runs before the
    pawn is relocated — answers whether the successor position has a legal en-passant capture. -/
theorem canEnPassant_iff {b : Board} {m : Move} (hv : Board.valid b = true) (hm : m ∈ MoveGen.gen b)
    (hp : b.pieceAt (Move.src m) = Piece.pawn) (hd : mvDiff m = 16) :
    b.canEnPassant (Move.dst m) = true ↔
      Rules.legalEpCaptures (Rules.applyCore (abs b) (decodeMove m)) ≠ [] :=
  EpTarget.canEnPassant_iff hv hm hp hd

/-- **C02, en-passant clause**: after `MakeMove` a target is recorded iff at least one legal
    en-passant capture exists in the successor position; a recorded target is the passed square
    (which is also the square the rule book records after the double advance). -/
theorem make_ep_iff (K : Keys) {b : Board} {m : Move} (hv : Board.valid b = true) (hm : m ∈ MoveGen.gen b) :
    ((b.makeMove K m).1.ep ≠ 0 ↔ Rules.legalEpCaptures (Rules.applyCore (abs b) (decodeMove m)) ≠ []) ∧
    ((b.makeMove K m).1.ep ≠ 0 →
      (b.makeMove K m).1.ep = (Move.src m + Move.dst m) / 2 ∧
      (Rules.applyCore (abs b) (decodeMove m)).ep = some ((Move.src m + Move.dst m) / 2)) :=
  EpTarget.make_ep_iff K hv hm

/-- **C02 for every generated (pseudo-legal) move**: the abstraction of the board after `MakeMove` is
    the rule book's successor position — placement, side to move, castling rights, halfmove clock,
    fullmove number and the en-passant target under the "recorded iff capturable" convention. -/
theorem make_refines_rules_gen (K : Keys) {b : Board} {m : Move} (hv : Board.valid b = true)
    (hm : m ∈ MoveGen.gen b) : abs (b.makeMove K m).1 = Rules.apply (abs b) (decodeMove m) :=
  EpTarget.make_refines_of_core K hv hm (C02core.abs_make_core K hv hm)

/-- **C02**: for every valid position and every playable (= legal, C01) move, the position after the
    move is exactly the one the rules prescribe. -/
theorem make_refines_rules (K : Keys) {b : Board} {m : Move} (hv : Board.valid b = true)
    (hm : m ∈ MoveGen.playable K b) : abs (b.makeMove K m).1 = Rules.apply (abs b) (decodeMove m) :=
  make_refines_rules_gen K hv (EpTarget.playable_gen hm)

/-- the position after `MakeMove` is in the engine's normal form: a recorded en-passant target has a
    legal capture. -/
theorem epNormal_make (K : Keys) {b : Board} {m : Move} (hv : Board.valid b = true)
    (hm : m ∈ MoveGen.gen b) : Rules.epNormal (abs (b.makeMove K m).1) = true := by
  rw [make_refines_rules_gen K hv hm]; exact EpTarget.epNormal_apply _ _

/-- `MakeMove` folded over a move list / `Rules.apply` folded over the decoded list. -/
abbrev run := EpTarget.run
abbrev runRules := EpTarget.runRules
/-- every move is playable in the position it is made in, and that position is valid. -/
abbrev PlayableRun := EpTarget.PlayableRun

/-- **C02 along a game**: a list of moves, each playable in turn, leads the engine to exactly the
    position the rule book prescribes, whatever the length of the list. -/
theorem run_refines_rules (K : Keys) (b : Board) (ms : List Move) (h : PlayableRun K b ms) :
    abs (run K b ms) = runRules (abs b) ms :=
  EpTarget.run_refines_of_core K (fun _ _ hv hm => C02core.abs_make_core K hv hm) ms b h

/-- given closure of validity under playable moves (`valid_make`), validity of the first position
    suffices. -/
theorem run_refines_rules_of_valid_make (K : Keys)
    (hvm : ∀ (b : Board) (m : Move), Board.valid b = true → m ∈ MoveGen.playable K b →
      Board.valid (b.makeMove K m).1 = true)
    (b : Board) (ms : List Move) (hv : Board.valid b = true) (h : EpTarget.PlayableSeq K b ms) :
    abs (run K b ms) = runRules (abs b) ms :=
  run_refines_rules K b ms (EpTarget.playableRun_of_seq K hvm ms b hv h)

end ChessVerif.Props.C02
