/-
  C02 — the successor position is the one the rules prescribe (property theorems + examples only).

  "For every valid position and every legal move, after the move is played the piece placement, side
  to move, castling rights, halfmove clock and fullmove number are exactly those the rules prescribe,
  and an en-passant target is recorded if and only if at least one legal en-passant capture exists in
  the successor position.  The same holds for positions set up through the UCI position command with a
  move list."

  Models: `Board.makeMove`, `Board.canEnPassant`, `Board.isAttacked` (Model/Board.lean — board.go
  `MakeMove`, attacks.go `CanEnPassant` after the repair of D2: the pusher's origin square is cleared
  from the occupancy, `IsAttacked`), `MoveGen.gen` / `MoveGen.playable` (Model/MoveGen.lean).
  Specification: `Rules.apply` (Spec/Rules.lean) = `Rules.applyCore` with the en-passant target kept
  only if `Rules.legalEpCaptures` of the successor is non-empty.
  The five non-ep fields are `Props/C02core.abs_make_core` (Proofs/AbsMake*.lean); the en-passant
  clause and the assembly are proved in Proofs/EpTarget*.lean.  The hypothesis on the move is
  "generated" (pseudo-legal); "playable"/legal is the special case the property speaks about.
-/
import ChessVerif.Proofs.EpTargetExamplesRun
import ChessVerif.Props.C02core
import ChessVerif.Proofs.FenRoundFull

namespace ChessVerif.Props.C02
open ChessVerif Board

/-- `|src − dst|` as `MakeMove` computes it. -/
abbrev mvDiff := EpTarget.mvDiff

/-- **C02, en-passant clause at the level of `CanEnPassant`**: for a valid position and a generated
    double pawn push (pawn on the origin, distance 16), `CanEnPassant(to)` — which runs before the
    pawn is relocated — answers whether the successor position has a legal en-passant capture. -/
theorem canEnPassant_iff {b : Board} {m : Move} (hv : Board.valid b = true) (hm : m ∈ MoveGen.gen b)
    (hp : b.pieceAt (Move.src m) = Piece.pawn) (hd : mvDiff m = 16) :
    b.canEnPassant (Move.dst m) = true ↔
      Rules.legalEpCaptures (Rules.applyCore (abs b) (decodeMove m)) ≠ [] :=
  EpTarget.canEnPassant_iff hv hm hp hd

/-- **C02, en-passant clause**: after `MakeMove` a target is recorded iff at least one legal
    en-passant capture exists in the successor position; a recorded target is the passed square
    (which is also the square the rule book records after the double advance). -/
theorem make_ep_iff (K : Keys) {b : Board} {m : Move} (hv : Board.valid b = true) (hm : m ∈ MoveGen.gen b) :
    ((b.makeMove K m).1.ep ≠ 0 ↔ Rules.legalEpCaptures (Rules.applyCore (abs b) (decodeMove m)) ≠ []) ∧
    ((b.makeMove K m).1.ep ≠ 0 →
      (b.makeMove K m).1.ep = (Move.src m + Move.dst m) / 2 ∧
      (Rules.applyCore (abs b) (decodeMove m)).ep = some ((Move.src m + Move.dst m) / 2)) :=
  EpTarget.make_ep_iff K hv hm

/-- **C02 for every generated (pseudo-legal) move**: the abstraction of the board after `MakeMove` is
    the rule book's successor position — placement, side to move, castling rights, halfmove clock,
    fullmove number and the en-passant target under the "recorded iff capturable" convention. -/
theorem make_refines_rules_gen (K : Keys) {b : Board} {m : Move} (hv : Board.valid b = true)
    (hm : m ∈ MoveGen.gen b) : abs (b.makeMove K m).1 = Rules.apply (abs b) (decodeMove m) :=
  EpTarget.make_refines_of_core K hv hm (C02core.abs_make_core K hv hm)

/-- **C02**: for every valid position and every playable (= legal, C01) move, the position after the
    move is exactly the one the rules prescribe. -/
theorem make_refines_rules (K : Keys) {b : Board} {m : Move} (hv : Board.valid b = true)
    (hm : m ∈ MoveGen.playable K b) : abs (b.makeMove K m).1 = Rules.apply (abs b) (decodeMove m) :=
  make_refines_rules_gen K hv (EpTarget.playable_gen hm)

/-- **C02 in the rule book's own terms**: for every valid position and every legal move `mv` of the
    rule book, playing the engine's encoding of `mv` yields exactly the position the rules prescribe.
    (Pseudo-legality suffices; no reference to the engine's generator or legality filter.) -/
theorem make_refines_rules_legal (K : Keys) {b : Board} (hv : Board.valid b = true) (mv : Rules.Mv)
    (hl : Rules.legal (abs b) mv = true) :
    abs (b.makeMove K (encodeMove mv)).1 = Rules.apply (abs b) mv := by
  have hpl : Rules.pseudoLegal (abs b) mv = true := by
    unfold Rules.legal at hl; rw [Bool.and_eq_true] at hl; exact hl.1
  obtain ⟨hg, hd⟩ := Bridge.encode_mem_gen hv mv hpl
  rw [make_refines_rules_gen K hv hg, hd]

/-- the position after `MakeMove` is in the engine's normal form: a recorded en-passant target has a
    legal capture. -/
theorem epNormal_make (K : Keys) {b : Board} {m : Move} (hv : Board.valid b = true)
    (hm : m ∈ MoveGen.gen b) : Rules.epNormal (abs (b.makeMove K m).1) = true := by
  rw [make_refines_rules_gen K hv hm]; exact EpTarget.epNormal_apply _ _

/-- `MakeMove` folded over a move list / `Rules.apply` folded over the decoded list. -/
abbrev run := EpTarget.run
abbrev runRules := EpTarget.runRules
/-- every move is playable in the position it is made in, and that position is valid. -/
abbrev PlayableRun := EpTarget.PlayableRun

/-- **C02 along a game**: a list of moves, each playable in turn, leads the engine to exactly the
    position the rule book prescribes, whatever the length of the list. -/
theorem run_refines_rules (K : Keys) (b : Board) (ms : List Move) (h : PlayableRun K b ms) :
    abs (run K b ms) = runRules (abs b) ms :=
  EpTarget.run_refines_of_core K (fun _ _ hv hm => C02core.abs_make_core K hv hm) ms b h

/-- given closure of validity under playable moves (`valid_make`), validity of the first position
    suffices. -/
theorem run_refines_rules_of_valid_make (K : Keys)
    (hvm : ∀ (b : Board) (m : Move), Board.valid b = true → m ∈ MoveGen.playable K b →
      Board.valid (b.makeMove K m).1 = true)
    (b : Board) (ms : List Move) (hv : Board.valid b = true) (h : EpTarget.PlayableSeq K b ms) :
    abs (run K b ms) = runRules (abs b) ms :=
  run_refines_rules K b ms (EpTarget.playableRun_of_seq K hvm ms b hv h)

/-! ### through the UCI `position` command -/

/-- every generated move survives printing and parsing: `parseUCIMove (toUCI m) = m`. -/
theorem parse_toUCI {b : Board} {m : Move} (hv : Board.valid b = true) (hm : m ∈ MoveGen.gen b) :
    UciPosition.parseUCIMove b (Move.toUCI m).toUTF8.data = some m := EpTarget.parse_toUCI hv hm

/-- `applyMoves` given the printed moves is `MakeMove` folded over the moves. -/
theorem applyMoves_toUCI (K : Keys) (b : Board) (ms : List Move) (h : PlayableRun K b ms) :
    UciPosition.applyMoves K b (ms.map fun m => (Move.toUCI m).toUTF8.data) = run K b ms :=
  EpTarget.applyMoves_toUCI K ms b h

/-- the board `position fen <printed FEN of b>` installs: `b` with a fresh one-element hash history. -/
abbrev installed := EpTarget.installed

/-- **C02 through the UCI position command.**  For a valid position `b` whose printed FEN parses
    back to it (`Fen.RoundTripOK b` — the C11 round trip of that board, proved there for concrete
    boards and in parts in general) and moves each playable in turn,
    `position fen <FEN of b> moves m₁ … mₙ` leaves the driver with exactly the board obtained by playing
    the moves with `MakeMove` on the installed position, whose abstraction is the position the rule
    book prescribes (piece placement, side to move, rights, both counters, en-passant target recorded
    iff a legal en-passant capture exists). -/
theorem uci_moves_refine_partial (K : Keys) (cur b : Board) (ms : List Move) (hv : Board.valid b = true)
    (hrt : Fen.RoundTripOK b) (hrun : PlayableRun K b ms) :
    UciPosition.handlePositionS K cur ("fen" :: (Fen.printFields b ++ "moves" :: ms.map Move.toUCI)) =
        run K (installed K b) ms ∧
    abs (UciPosition.handlePositionS K cur ("fen" :: (Fen.printFields b ++ "moves" :: ms.map Move.toUCI))) =
        runRules (abs b) ms :=
  EpTarget.uci_moves_refine_of_core' K (fun _ _ hv hm => C02core.abs_make_core K hv hm) cur b ms hrt hrun hv

/-- **C02, UCI half, full statement**: the same without the round-trip hypothesis (the move number
    bounded by the range of the Go `int`, as in `Fen.C11_roundtrip_full`).  It follows from the full C11
    round trip (`uci_full_of_roundtrip_full`); what is missing is exactly `Fen.C11_roundtrip_full`
    (`parseFEN (printFEN b) = ok b` for every valid board), which C11 proves only in parts. -/
def C02_uci_full : Prop :=
  ∀ (K : Keys) (cur b : Board) (ms : List Move), Board.valid b = true → b.fullMoves < 2 ^ 63 →
    PlayableRun K b ms →
    UciPosition.handlePositionS K cur ("fen" :: (Fen.printFields b ++ "moves" :: ms.map Move.toUCI)) =
        run K (installed K b) ms ∧
    abs (UciPosition.handlePositionS K cur ("fen" :: (Fen.printFields b ++ "moves" :: ms.map Move.toUCI))) =
        runRules (abs b) ms

theorem uci_full_of_roundtrip_full (h : Fen.C11_roundtrip_full) : C02_uci_full :=
  fun K cur b ms hv hfm hrun => uci_moves_refine_partial K cur b ms hv (h b hv hfm) hrun

/-- **C02, UCI half, full statement — proved**: the full FEN round trip of C11 (`Fen.roundtrip_full`,
    Proofs/FenRoundFull.lean) discharges the hypothesis; `position fen F moves m₁ … mₙ` for the FEN of
    EVERY valid position and every playable move list installs the position the rule book prescribes. -/
theorem uci_full : C02_uci_full := uci_full_of_roundtrip_full Fen.roundtrip_full

/-- the same from `position startpos moves m₁ … mₙ`. -/
theorem uci_startpos_moves_refine (K : Keys) (cur : Board) (ms : List Move)
    (hrun : PlayableRun K (UciPosition.startPos K) ms) :
    UciPosition.handlePositionS K cur ("startpos" :: "moves" :: ms.map Move.toUCI) =
        run K (UciPosition.startPos K) ms ∧
    abs (UciPosition.handlePositionS K cur ("startpos" :: "moves" :: ms.map Move.toUCI)) =
        runRules (abs (UciPosition.startPos K)) ms :=
  EpTarget.uci_startpos_moves_of_core K (fun _ _ hv hm => C02core.abs_make_core K hv hm) cur ms hrun

/-! ### Non-vacuity

  Example boards (Proofs/EpTargetExamples.lean): `d2a` = `8/8/8/7k/5p2/8/4P3/3BK3 w`, `d2b` =
  `8/8/8/8/3p4/8/R3P2k/4K3 w` (the two D2 positions), `pin` = `8/8/8/8/k2p3R/8/4P3/4K3 w`, `okp` =
  `4k3/8/8/8/3p4/8/4P3/4K3 w`, `blk` = `4k3/3p4/8/4P3/8/8/8/4K3 b`; `e2e4 = Move.mk 12 28 0`,
  `d7d5 = Move.mk 51 35 0`, `dxe3 = Move.mk 27 20 0`. -/

open EpTarget.Examples

-- the hypotheses of `canEnPassant_iff` / `make_ep_iff` hold of the D2 position and e2e4 …
example : Board.valid d2a = true := d2a_valid
example : e2e4 ∈ MoveGen.gen d2a := d2a_gen
example : d2a.pieceAt (Move.src e2e4) = Piece.pawn ∧ mvDiff e2e4 = 16 := by decide +kernel
-- … the black pawn f4 stands beside e4, yet the executable model records no target (D2 repaired):
example : (abs d2a).at_ 29 = some (Color.black, Piece.pawn) := by decide +kernel
example : d2a.canEnPassant 28 = false := by decide +kernel
example : (d2a.makeMove zeroKeys e2e4).1.ep = 0 := by decide +kernel
-- the rule book agrees (no legal en-passant capture: the king stays in the bishop's discovered check) …
example : Rules.legalEpCaptures (Rules.applyCore (abs d2a) (decodeMove e2e4)) = [] := d2a_caps
-- … and so, by the theorem, does `MakeMove` for every key table
example (K : Keys) : (d2a.makeMove K e2e4).1.ep = 0 := by
  rw [EpTarget.make_ep_eq K d2a_valid d2a_gen, d2a_caps]; rfl

-- the second D2 position (discovered check along the rank) and the rank pin through both pawns:
-- the rook tables are out of reach of kernel evaluation, the theorem gives the engine's answer
example : d2b.canEnPassant 28 = false := by
  cases h : d2b.canEnPassant 28
  · rfl
  · exact absurd d2b_caps ((canEnPassant_iff d2b_valid d2b_gen (by decide +kernel) (by decide +kernel)).1 h)
example (K : Keys) : (d2b.makeMove K e2e4).1.ep = 0 := by
  rw [EpTarget.make_ep_eq K d2b_valid d2b_gen, d2b_caps]; rfl
example (K : Keys) : (pin.makeMove K e2e4).1.ep = 0 := by
  rw [EpTarget.make_ep_eq K pin_valid pin_gen, pin_caps]; rfl

-- a position where the target IS recorded (White and Black double push)
example : okp.canEnPassant 28 = true :=
  (canEnPassant_iff okp_valid okp_gen (by decide +kernel) (by decide +kernel)).2 (by rw [okp_caps]; simp)
example (K : Keys) : (okp.makeMove K e2e4).1.ep = 20 := by
  rw [EpTarget.make_ep_eq K okp_valid okp_gen, okp_caps]; decide
example (K : Keys) : (blk.makeMove K d7d5).1.ep = 43 := by
  rw [EpTarget.make_ep_eq K blk_valid blk_gen, blk_caps]; decide

-- the whole successor position, and its en-passant field on the rule-book side
example (K : Keys) : abs (okp.makeMove K (encodeMove ⟨12, 28, none⟩)).1 = Rules.apply (abs okp) ⟨12, 28, none⟩ :=
  make_refines_rules_legal K okp_valid _ (by decide +kernel)
example (K : Keys) : abs (okp.makeMove K e2e4).1 = Rules.apply (abs okp) (decodeMove e2e4) :=
  make_refines_rules K okp_valid (okp_playable K)
example : (Rules.apply (abs okp) (decodeMove e2e4)).ep = some 20 := by
  rw [EpTarget.apply_ep, okp_caps]; decide +kernel
example : (Rules.apply (abs d2a) (decodeMove e2e4)).ep = none := by
  rw [EpTarget.apply_ep, d2a_caps]; rfl

-- a game: e2e4 (target e3 recorded) followed by the en-passant capture d4xe3, for every key table;
-- and the same game through `position fen … moves e2e4 d4e3`
example (K : Keys) : PlayableRun K okp [e2e4, dxe3] := okp_run K
example (K : Keys) : abs (run K okp [e2e4, dxe3]) = runRules (abs okp) [e2e4, dxe3] :=
  run_refines_rules K okp _ (okp_run K)
example : [e2e4, dxe3].map Move.toUCI = ["e2e4", "d4e3"] := by decide
example (K : Keys) (cur : Board) :
    abs (UciPosition.handlePositionS K cur
      ("fen" :: (Fen.printFields okp ++ "moves" :: [e2e4, dxe3].map Move.toUCI))) =
      runRules (abs okp) [e2e4, dxe3] :=
  (uci_moves_refine_partial K cur okp _ okp_valid okp_roundtrip (okp_run K)).2
example : Fen.printFields okp = ["4k3/8/8/8/3p4/8/4P3/4K3", "w", "-", "-", "0", "1"] := by decide +kernel

end ChessVerif.Props.C02
