/-
  TERMINATION of the search skeleton, node level: fuel sufficiency for `quiescence` and `alphaBeta`.

  Model/Search.lean makes the search functions total by a `fuel : Nat` argument.  Fuel is threaded by
  NESTING LEVEL, not by node: `alphaBeta c L (fuel+1)` hands `fuel` to every child of the node (all
  moves, all re-searches, the null move), `quiescence c L (fuel+1)` likewise, and `alphaBeta` switches
  to `quiescence` with the SAME fuel.  So "fuel is never exhausted" is the statement that the call tree
  has bounded DEPTH, which is what termination of the recursive Go functions means (the breadth is
  bounded by the move loops: a `List` in quiescence, the picker in `alphaBeta`).

  The argument (no assumption on depths, reductions, extensions at all):
  * every recursive `alphaBeta` call is made at `ply + 1`, and a node with `ply ≥ MaxPlies - 1 = 63`
    goes to quiescence: at most 63 nested `alphaBeta` levels below a root at ply 0 — whatever `lmr`,
    `nmpDepth`, `iir` return (they are arbitrary functions of the generic `Comp`; a negative depth
    never reaches the test `d = 0`, the ply cap is what stops such a line);
  * every recursive `quiescence` call is made after a move of `qMoves`, which decreases the measure `μ`
    (`q_measure`: captures and promotions decrease men + pawns), and `μ ≤ 48` on `Good` boards
    (`measure_bound`): at most 48 nested levels below the first quiescence node, which needs one more;
  * the move loop of `alphaBeta` has its own counter `n = len(gen) + 1`, which counts `Next()` calls;
    running out of it is reported as running out of fuel.  It is not what runs out provided the picker
    yields at most `len(gen)` moves (`pick_len`, the one NEW law; stated over `Reach` like the other
    picker laws): the `(len(gen)+1)`-th call then answers `false`.

  Result: `alphaBeta c L fuel` at `ply` (0 ≤ ply ≤ 63) never runs out of fuel when
  `fuel ≥ 112 - ply = (63 - ply) + 48 + 1` (`alphaBeta_fuel`), `quiescence c L fuel` on board `b` when
  `fuel > μ b` (`quiescence_fuel`).  `abFuel = 112` at the root.
-/
import ChessVerif.Proofs.SearchScoreLaws

namespace ChessVerif
namespace Search

variable {σ π : Type}

/-! ### the ghost flag under the small updates -/

section fields
variable (s : St σ) (b : Board) (ps : σ) (pv : Pv.Rows) (sm : StackMove) (a : Bool)
@[simp] theorem setBoard_fuelOut : (s.setBoard b).fuelOut = s.fuelOut := rfl
@[simp] theorem setPs_fuelOut : (s.setPs ps).fuelOut = s.fuelOut := rfl
@[simp] theorem setPv_fuelOut : (s.setPv pv).fuelOut = s.fuelOut := rfl
@[simp] theorem push_fuelOut : (s.push sm).fuelOut = s.fuelOut := rfl
@[simp] theorem pop_fuelOut : s.pop.fuelOut = s.fuelOut := rfl
@[simp] theorem pushFrame_fuelOut : s.pushFrame.fuelOut = s.fuelOut := rfl
@[simp] theorem popFrame_fuelOut : s.popFrame.fuelOut = s.fuelOut := rfl
@[simp] theorem flag_fuelOut : (s.flag a).fuelOut = s.fuelOut := rfl
@[simp] theorem flagNmp_fuelOut : (s.flagNmp a).fuelOut = s.fuelOut := rfl
end fields

theorem abort_fuelOut (L : Limits) (s : St σ) : (abort L s).2.fuelOut = s.fuelOut := by
  unfold abort
  split
  · rfl
  · split
    · rfl
    · split <;> rfl

theorem incrementNodes_fuelOut (L : Limits) (s : St σ) : (incrementNodes L s).fuelOut = s.fuelOut := by
  unfold incrementNodes
  split
  · rfl
  · split <;> rfl

/-- the part of a quiescence loop body after the recursive call does not touch the flag. -/
theorem qAfter_fuelOut (c : Comp σ π) (L : Limits) (beta : Score) (ply : Int) (m : Move) (r : Board.Reverse)
    (l : QLoop) (v : Score) (s : St σ) : (qAfter c L beta ply m r l v s).2.fuelOut = s.fuelOut := by
  simp only [qAfter]
  have ha := abort_fuelOut L (s.setBoard (s.board.undoMove m r))
  generalize abort L (s.setBoard (s.board.undoMove m r)) = as at ha ⊢
  split
  · exact ha
  · split
    · exact ha
    · exact ha

/-- nor does the part of an `alphaBeta` loop body from `Fin:` on. -/
theorem abAfter_fuelOut (c : Comp σ π) (L : Limits) (x : ABCtx) (m : Move) (r : Board.Reverse)
    (l : ABLoop π) (value : Score) (s : St σ) : (abAfter c L x m r l value s).2.fuelOut = s.fuelOut := by
  simp only [abAfter]
  have ha := abort_fuelOut L (s.setBoard (s.board.undoMove m r)).pop
  generalize abort L (s.setBoard (s.board.undoMove m r)).pop = as at ha ⊢
  split
  · exact ha
  · split
    · split
      · exact ha
      · split <;> exact ha
    · split <;> exact ha

variable [PsInv σ]

/-! ### the laws -/

/-- What termination needs of the components beyond `Laws`:
    * `pick_len` (NEW): a successful `Next()` happens only while fewer moves have been yielded than the
      position has generated moves — the picker yields at most `len(gen)` moves, so the counter
      `len(gen) + 1` of the move loop of `alphaBeta` is never what runs out.  Stated, like `pick_mem`,
      over the reachable picker states (`Reach`: any interleaving of `Next()` under changing ranker
      states with weight overwrites), for hash moves the table can answer;
    * `q_measure`, `measure_bound`: the quiescence measure of `ScoreLaws` (every quiescence move
      decreases `μ`; `μ ≤ 48` on `Good` boards). -/
structure FuelLaws (c : Comp σ π) (Good : Board → Prop) (μ : Board → Nat) : Prop where
  pick_len : ∀ ps b hs hm p ys m p', Good b → HashOK c b hm → Reach c b hm p ys → PsInv.ok ps →
    c.pickNext ps b hs p = some (m, p') → ys.length < (MoveGen.gen b).length
  q_measure : ∀ ps b hs m w, Good b → (m, w) ∈ c.qMoves ps b hs → μ (b.makeMove c.keys m).1 < μ b
  measure_bound : ∀ b, Good b → μ b ≤ 48

/-- the measure part comes with `ScoreLaws`. -/
theorem FuelLaws.of_score {c : Comp σ π} {Good : Board → Prop} {TTok : σ → Prop} {μ : Board → Nat}
    (sl : ScoreLaws c Good TTok μ)
    (pick_len : ∀ ps b hs hm p ys m p', Good b → HashOK c b hm → Reach c b hm p ys → PsInv.ok ps →
      c.pickNext ps b hs p = some (m, p') → ys.length < (MoveGen.gen b).length) : FuelLaws c Good μ :=
  ⟨pick_len, sl.q_measure, sl.measure_bound⟩

/-- along every reachable picker state at most `len(gen)` moves have been yielded. -/
theorem reach_len {c : Comp σ π} {Good : Board → Prop} {μ : Board → Nat} (fl : FuelLaws c Good μ) {b : Board} {hm : Move}
    {p : π} {ys : List Move} (hg : Good b) (hh : HashOK c b hm) (hr : Reach c b hm p ys) :
    ys.length ≤ (MoveGen.gen b).length := by
  induction hr with
  | init => exact Nat.zero_le _
  | next hr hok hp _ => exact fl.pick_len _ _ _ _ _ _ _ _ hg hh hr hok hp
  | weight _ ih => exact ih

/-! ### quiescence -/

/-- a quiescence-like function does not run out of fuel on boards of measure below `k`. -/
def QFuel (Good : Board → Prop) (μ : Board → Nat) (k : Nat) (child : Score → Score → Int → St σ → Score × St σ) : Prop :=
  ∀ a b p s, Good s.board → PsInv.ok s.ps → μ s.board < k → s.fuelOut = false → (child a b p s).2.fuelOut = false

theorem qLoop_fuel (c : Comp σ π) (L : Limits) {Good : Board → Prop} {μ : Board → Nat} (hl : Laws c Good)
    (child : Score → Score → Int → St σ → Score × St σ) (hc : QSpec L Good child) {k : Nat} (hf : QFuel Good μ k child)
    (beta sp : Score) (ply : Int) :
    ∀ (moves : List (Move × Score)) (l : QLoop) (s : St σ), Good s.board → NodeOK s →
      (∀ mw ∈ moves, mw.1 ∈ MoveGen.gen s.board ∧ μ (s.board.makeMove c.keys mw.1).1 < k) → s.fuelOut = false →
      (qLoop c L child beta sp ply moves l s).2.fuelOut = false := by
  intro moves
  induction moves with
  | nil => intro l s _ _ _ h; exact h
  | cons mw rest ih =>
    intro l s hg hn hm hfo
    obtain ⟨m, w⟩ := mw
    have hmem : m ∈ MoveGen.gen s.board := (hm (m, w) List.mem_cons_self).1
    have hmu : μ (s.board.makeMove c.keys m).1 < k := (hm (m, w) List.mem_cons_self).2
    have hrest : ∀ mw ∈ rest, mw.1 ∈ MoveGen.gen s.board ∧ μ (s.board.makeMove c.keys mw.1).1 < k :=
      fun mw h => hm mw (List.mem_cons_of_mem _ h)
    have hu := hl.undo_make s.board m hg hmem
    simp only [qLoop]
    split
    · exact hfo
    · split
      · rw [hu, setBoard_self]; exact ih l s hg hn hrest hfo
      · next hchk =>
        split
        · rw [hu, setBoard_self]; exact hfo
        · have hchk' : (s.board.makeMove c.keys m).1.inCheck s.board.stm = false := by simpa using hchk
          have hg' := hl.good_make s.board m hg hn.2 hmem hchk'
          have hcs := hc (neg beta) (neg l.alpha) (wrapS8 (ply + 1)) (s.setBoard (s.board.makeMove c.keys m).1) hg' hn.1
          have hcf := hf (neg beta) (neg l.alpha) (wrapS8 (ply + 1)) (s.setBoard (s.board.makeMove c.keys m).1) hg' hn.1
            hmu hfo
          generalize child (neg beta) (neg l.alpha) (wrapS8 (ply + 1)) (s.setBoard (s.board.makeMove c.keys m).1) = r
            at hcs hcf ⊢
          have hub : r.2.board.undoMove m (s.board.makeMove c.keys m).2 = s.board := by
            rw [hcs.1.board]; simpa using hu
          have ha := qAfter_spec c L hl beta ply m (s.board.makeMove c.keys m).2 l r.1 r.2
            (by rw [hub]; exact hg) (by rw [hub]; exact hmem)
          have hafo := qAfter_fuelOut c L beta ply m (s.board.makeMove c.keys m).2 l r.1 r.2
          simp only at ha
          generalize qAfter c L beta ply m (s.board.makeMove c.keys m).2 l r.1 r.2 = o at ha hafo ⊢
          obtain ⟨hm1, hb1, hh1, hf1, _, hnb⟩ := ha
          have hboard : o.2.board = s.board := by
            rw [hb1, hcs.1.board]; simpa using hu
          have hfr : Frame L s o.2 :=
            ⟨(mono_setBoard L s _).trans (hcs.1.mono.trans hm1), hboard, by rw [hh1, hcs.1.hstack]; rfl,
             by rw [hf1, hcs.1.frames]; rfl⟩
          have hofo : o.2.fuelOut = false := by rw [hafo]; exact hcf
          obtain ⟨st, s'⟩ := o
          cases st with
          | ret v => exact hofo
          | brk l' => exact absurd rfl (hnb l')
          | cont l' =>
            simp only at hfr hboard hofo ⊢
            exact ih l' s' (by rw [hboard]; exact hg) (hfr.nodeOK hn) (by rw [hboard]; exact hrest) hofo

theorem qBody_fuel (c : Comp σ π) (L : Limits) {Good : Board → Prop} {μ : Board → Nat} (hl : Laws c Good)
    (fl : FuelLaws c Good μ) (child : Score → Score → Int → St σ → Score × St σ) (hc : QSpec L Good child) {k : Nat}
    (hf : QFuel Good μ k child) (alpha beta : Score) (ply : Int) (s : St σ) (hg : Good s.board) (hn : NodeOK s)
    (hmu : μ s.board ≤ k) (hfo : s.fuelOut = false) :
    (qBody c L child alpha beta ply s).2.fuelOut = false := by
  simp only [qBody]
  split
  · exact hfo
  · split
    · exact hfo
    · split
      · exact hfo
      · split
        · exact hfo
        · have h := qLoop_fuel c L hl child hc hf beta (evaluate c s.board) ply (c.qMoves s.ps s.board s.hstack)
            { alpha := max alpha (evaluate c s.board), maxim := evaluate c s.board } s.pushFrame hg hn
            (fun mw hmw => ⟨hl.q_mem s.ps s.board s.hstack mw.1 mw.2 hg hmw,
              Nat.lt_of_lt_of_le (fl.q_measure s.ps s.board s.hstack mw.1 mw.2 hg hmw) hmu⟩) hfo
          generalize qLoop c L child beta (evaluate c s.board) ply (c.qMoves s.ps s.board s.hstack)
            { alpha := max alpha (evaluate c s.board), maxim := evaluate c s.board } s.pushFrame = r at h ⊢
          split
          · exact h
          · exact h

/-- **`quiescence` terminates**: with more fuel than the measure of the board it never runs out of
    fuel — in the node itself or anywhere below it, whatever the window, the ply, the limits and the
    point of abort. -/
theorem quiescence_fuel (c : Comp σ π) (L : Limits) {Good : Board → Prop} {μ : Board → Nat} (hl : Laws c Good)
    (fl : FuelLaws c Good μ) (fuel : Nat) : QFuel Good μ fuel (quiescence c L fuel) := by
  induction fuel with
  | zero => intro a b p s _ _ h; exact absurd h (Nat.not_lt_zero _)
  | succ fuel ih =>
    intro a b p s hg hok hmu hfo
    simp only [quiescence]
    have h12 := (incrementNodes_frame L s).trans (abort_frame L (incrementNodes L s))
    have hfo' : (abort L (incrementNodes L s)).2.fuelOut = false := by
      rw [abort_fuelOut, incrementNodes_fuelOut]; exact hfo
    generalize abort L (incrementNodes L s) = as at h12 hfo' ⊢
    split
    · exact hfo'
    · split
      · exact hfo'
      · next hnd =>
        exact qBody_fuel c L hl fl (quiescence c L fuel) (quiescence_spec c L hl fuel) ih a b p as.2
          (by rw [h12.board]; exact hg) ⟨h12.mono.ps_ok hok, fifty_lt_of_not_draw hnd⟩
          (by rw [h12.board]; omega) hfo'

/-! ### alphaBeta -/

/-- an alphaBeta-like function does not run out of fuel when called at ply `p` with a depth satisfying
    `Q` (any window, node type).  `Q := fun _ => True` gives the ply argument (no law about depths);
    `Q d' := 0 ≤ d' ≤ d - 1` the depth-sensitive refinement. -/
def ABFuelAt (Good : Board → Prop) (Q : Int → Prop) (p : Int) (child : Child σ) : Prop :=
  ∀ a b d nt s, Q d → Good s.board → PsInv.ok s.ps → s.fuelOut = false → (child a b d p nt s).2.fuelOut = false

theorem callChild_fuel {Good : Board → Prop} {Q : Int → Prop} (child : Child σ) {p : Int} (hf : ABFuelAt Good Q p child)
    (a b : Score) (d : Int) (hq : Q d) (nt : NodeType) (s : St σ) (hg : Good s.board) (hok : PsInv.ok s.ps)
    (hfo : s.fuelOut = false) : (callChild child a b d p nt s).2.fuelOut = false :=
  hf a b d nt s hq hg hok hfo

/-- the depths of the recursive calls of a node entered with depth `d` satisfy `Q`: the full-depth
    searches `x.d - 1` and the reduced search `lmr … < x.d - 1` (`x.d` = `d`, or `d - 1` after internal
    iterative reduction), and the null-move search. -/
def DepthStep (c : Comp σ π) (Q : Int → Prop) (d : Int) : Prop :=
  (∀ (nt : NodeType) (hm : Move),
    Q (wrapS8 ((if c.iir nt d hm then wrapS8 (d - 1) else d) - 1)) ∧
    ∀ (mc : Int) (imp : Bool) (nt' : NodeType),
      c.lmr (if c.iir nt d hm then wrapS8 (d - 1) else d) mc imp nt' <
          wrapS8 ((if c.iir nt d hm then wrapS8 (d - 1) else d) - 1) →
        Q (c.lmr (if c.iir nt d hm then wrapS8 (d - 1) else d) mc imp nt')) ∧
  (∀ (b : Board) (se beta : Score), c.nmpTry b d se beta = true → Q (c.nmpDepth d se beta))

omit [PsInv σ] in
theorem depthStep_true (c : Comp σ π) (d : Int) : DepthStep c (fun _ => True) d :=
  ⟨fun _ _ => ⟨trivial, fun _ _ _ _ => trivial⟩, fun _ _ _ _ => trivial⟩

theorem searchRest_fuel (c : Comp σ π) (L : Limits) {Good : Board → Prop} {Q : Int → Prop} (child : Child σ)
    (hc : ABSpec c L Good child)
    (x : ABCtx) (l : ABLoop π) (next : NodeType) (s : St σ) (hg : Good s.board) (hok : PsInv.ok s.ps)
    (h0 : 0 ≤ x.ply) (h1 : x.ply < 63) (hf : ABFuelAt Good Q (wrapS8 (x.ply + 1)) child) (hq : Q (wrapS8 (x.d - 1)))
    (hfo : s.fuelOut = false) :
    (searchRest child x l next s).2.fuelOut = false := by
  simp only [searchRest]
  have c2 := callChild_post c L child hc (wrapS16 (neg l.alpha - 1)) (neg l.alpha) (wrapS8 (x.d - 1)) h0 h1 next s hg hok
  have f2 := callChild_fuel child hf (wrapS16 (neg l.alpha - 1)) (neg l.alpha) (wrapS8 (x.d - 1)) hq next s hg hok hfo
  simp only at c2
  generalize callChild child (wrapS16 (neg l.alpha - 1)) (neg l.alpha) (wrapS8 (x.d - 1)) (wrapS8 (x.ply + 1)) next s = r2
    at c2 f2 ⊢
  split
  · exact f2
  · split
    · exact f2
    · exact callChild_fuel child hf (neg x.beta) (neg l.alpha) (wrapS8 (x.d - 1)) hq next r2.2
        (by rw [c2.1.board]; exact hg) (c2.1.mono.ps_ok hok) f2

theorem searchMove_fuel (c : Comp σ π) (L : Limits) {Good : Board → Prop} {Q : Int → Prop} (child : Child σ)
    (hc : ABSpec c L Good child)
    (x : ABCtx) (l : ABLoop π) (next : NodeType) (s : St σ) (hg : Good s.board) (hok : PsInv.ok s.ps)
    (h0 : 0 ≤ x.ply) (h1 : x.ply < 63) (hf : ABFuelAt Good Q (wrapS8 (x.ply + 1)) child) (hq : Q (wrapS8 (x.d - 1)))
    (hql : c.lmr x.d (l.moveCnt - 1) x.improving x.nt < wrapS8 (x.d - 1) → Q (c.lmr x.d (l.moveCnt - 1) x.improving x.nt))
    (hfo : s.fuelOut = false) :
    (searchMove c child x l next s).2.fuelOut = false := by
  simp only [searchMove]
  split
  · split
    · next hlt =>
      have c1 := callChild_post c L child hc (wrapS16 (neg l.alpha - 1)) (neg l.alpha)
        (c.lmr x.d (l.moveCnt - 1) x.improving x.nt) h0 h1 next s hg hok
      have f1 := callChild_fuel child hf (wrapS16 (neg l.alpha - 1)) (neg l.alpha)
        (c.lmr x.d (l.moveCnt - 1) x.improving x.nt) (hql hlt) next s hg hok hfo
      simp only at c1
      generalize callChild child (wrapS16 (neg l.alpha - 1)) (neg l.alpha) (c.lmr x.d (l.moveCnt - 1) x.improving x.nt)
        (wrapS8 (x.ply + 1)) next s = r1 at c1 f1 ⊢
      split
      · exact f1
      · exact searchRest_fuel c L child hc x l next r1.2 (by rw [c1.1.board]; exact hg) (c1.1.mono.ps_ok hok) h0 h1 hf hq f1
    · split
      · exact hfo
      · exact searchRest_fuel c L child hc x l next s hg hok h0 h1 hf hq hfo
  · exact callChild_fuel child hf (neg x.beta) (neg l.alpha) (wrapS8 (x.d - 1)) hq next s hg hok hfo

/-- the move loop: its own counter `n` suffices as long as `len(gen) < yielded + n`. -/
theorem abLoop_fuel (c : Comp σ π) (L : Limits) {Good : Board → Prop} {μ : Board → Nat} {Q : Int → Prop}
    (hl : Laws c Good)
    (fl : FuelLaws c Good μ) (child : Child σ) (hc : ABSpec c L Good child) (x : ABCtx) (h0 : 0 ≤ x.ply)
    (h1 : x.ply < 63) (hf : ABFuelAt Good Q (wrapS8 (x.ply + 1)) child) (hq : Q (wrapS8 (x.d - 1)))
    (hql : ∀ mc, c.lmr x.d mc x.improving x.nt < wrapS8 (x.d - 1) → Q (c.lmr x.d mc x.improving x.nt)) (hmv : Move) :
    ∀ (n : Nat) (l : ABLoop π) (s : St σ), Good s.board → NodeOK s → HashOK c s.board hmv →
      Reach c s.board hmv l.pick l.yielded → (MoveGen.gen s.board).length < l.yielded.length + n →
      s.fuelOut = false → (abLoop c L child x n l s).2.fuelOut = false := by
  intro n
  induction n with
  | zero =>
    intro l s hg _ hhash hreach hlen _
    have := reach_len fl hg hhash hreach
    omega
  | succ n ih =>
    intro l s hg hn hhash hreach hlen hfo
    simp only [abLoop]
    split
    · exact hfo
    · next m pk hpick =>
      have hmem : m ∈ MoveGen.gen s.board := hl.pick_mem _ _ _ _ _ _ _ _ hg hhash hreach hn.1 hpick
      have hreach' : Reach c s.board hmv pk (m :: l.yielded) := Reach.next hreach hn.1 hpick
      have hlen' : (MoveGen.gen s.board).length < (m :: l.yielded).length + n := by
        simp only [List.length_cons]; omega
      have hu := hl.undo_make s.board m hg hmem
      split
      · rw [hu, setBoard_self]; exact ih _ s hg hn hhash hreach' hlen' hfo
      · next hchk =>
        have hchk' : (s.board.makeMove c.keys m).1.inCheck s.board.stm = false := by simpa using hchk
        have hg' := hl.good_make s.board m hg hn.2 hmem hchk'
        generalize hl2 : abEnter { l with pick := pk, yielded := m :: l.yielded } (s.board.pieceAt (s.board.captureSq m)) m = l2
        have hsm := searchMove_spec c L child hc x l2 (nextNodeType x.nt l2.moveCnt)
          ((s.setBoard (s.board.makeMove c.keys m).1).push
            { piece := s.board.pieceAt (Move.src m), to := Move.dst m, score := x.staticEval }) hg' hn.1 h0 h1
        have hsfo := searchMove_fuel c L child hc x l2 (nextNodeType x.nt l2.moveCnt)
          ((s.setBoard (s.board.makeMove c.keys m).1).push
            { piece := s.board.pieceAt (Move.src m), to := Move.dst m, score := x.staticEval }) hg' hn.1 h0 h1 hf hq
          (hql _) hfo
        simp only at hsm
        generalize searchMove c child x l2 (nextNodeType x.nt l2.moveCnt)
          ((s.setBoard (s.board.makeMove c.keys m).1).push
            { piece := s.board.pieceAt (Move.src m), to := Move.dst m, score := x.staticEval }) = r at hsm hsfo ⊢
        obtain ⟨hsf, _, _⟩ := hsm
        have hub : r.2.board.undoMove m (s.board.makeMove c.keys m).2 = s.board := by
          rw [hsf.board]; simpa using hu
        have ha := abAfter_spec c L hl x m (s.board.makeMove c.keys m).2 l2 r.1 r.2
          (by rw [hub]; exact hg) (by rw [hub]; exact hmem)
        have hafo := abAfter_fuelOut c L x m (s.board.makeMove c.keys m).2 l2 r.1 r.2
        simp only at ha
        generalize abAfter c L x m (s.board.makeMove c.keys m).2 l2 r.1 r.2 = o at ha hafo ⊢
        obtain ⟨hm1, hb1, hh1, hf1, _, hpick'⟩ := ha
        have hboard : o.2.board = s.board := by rw [hb1, hsf.board]; simpa using hu
        have hfr : Frame L s o.2 :=
          ⟨((mono_setBoard L s _).trans (mono_push L _ _)).trans (hsf.mono.trans hm1), hboard,
           by rw [hh1, hsf.hstack]; rfl, by rw [hf1, hsf.frames]; rfl⟩
        have hofo : o.2.fuelOut = false := by rw [hafo]; exact hsfo
        obtain ⟨st, s'⟩ := o
        cases st with
        | ret v => exact hofo
        | brk l' => exact hofo
        | cont l' =>
          simp only at hfr hboard hofo ⊢
          obtain ⟨hy, w, hw⟩ := hpick' l' (Or.inl rfl)
          have hy2 : l'.yielded = m :: l.yielded := by rw [hy, ← hl2]; rfl
          have hr2 : Reach c s'.board hmv l'.pick l'.yielded := by
            rw [hboard, hy, hw, ← hl2]
            exact Reach.weight hreach'
          exact ih l' s' (by rw [hboard]; exact hg) (hfr.nodeOK hn) (by rw [hboard]; exact hhash) hr2
            (by rw [hboard, hy2]; exact hlen') hofo

theorem nullMove_fuel (c : Comp σ π) {Good : Board → Prop} (hl : Laws c Good) (child : Child σ) (beta : Score)
    (d ply : Int) (se : Score) (s : St σ) (hg : Good s.board) (hok : PsInv.ok s.ps)
    (hchk : s.board.inCheck s.board.stm = false) {Q : Int → Prop} (hf : ABFuelAt Good Q (wrapS8 (ply + 1)) child)
    (hqn : Q (c.nmpDepth d se beta)) (hfo : s.fuelOut = false) :
    (nullMove c child beta d ply se s).2.fuelOut = false := by
  simp only [nullMove]
  have hg' := hl.good_null s.board hg hchk
  have cf := callChild_fuel child hf (neg beta) (wrapS16 (neg beta + 1)) (c.nmpDepth d se beta) hqn .cut
    (s.setBoard (s.board.makeNull c.keys).1) hg' hok hfo
  generalize callChild child (neg beta) (wrapS16 (neg beta + 1)) (c.nmpDepth d se beta) (wrapS8 (ply + 1)) .cut
    (s.setBoard (s.board.makeNull c.keys).1) = r at cf ⊢
  split
  · exact cf
  · exact cf

theorem abMoves_fuel (c : Comp σ π) (L : Limits) {Good : Board → Prop} {μ : Board → Nat} {Q : Int → Prop}
    (hl : Laws c Good)
    (fl : FuelLaws c Good μ) (child : Child σ) (hc : ABSpec c L Good child) (alpha beta : Score) (d : Int) {ply : Int}
    (h0 : 0 ≤ ply) (h1 : ply < 63) (nt : NodeType) (inCheck improving : Bool) (se : Score) (hm : Move) (s : St σ)
    (hg : Good s.board) (hn : NodeOK s) (hhash : HashOK c s.board hm)
    (hf : ABFuelAt Good Q (wrapS8 (ply + 1)) child) (hstep : DepthStep c Q d) (hfo : s.fuelOut = false) :
    (abMoves c L child alpha beta d ply nt inCheck improving se hm s).2.fuelOut = false := by
  simp only [abMoves]
  generalize hx : ABCtx.mk alpha beta (if c.iir nt d hm then wrapS8 (d - 1) else d) ply nt inCheck improving se = x
  have hxp : x.ply = ply := by rw [← hx]
  have hxd : x.d = (if c.iir nt d hm then wrapS8 (d - 1) else d) := by rw [← hx]
  have hxi : x.improving = improving := by rw [← hx]
  have hxn : x.nt = nt := by rw [← hx]
  have h := abLoop_fuel c L hl fl child hc x (by rw [hxp]; exact h0) (by rw [hxp]; exact h1) (by rw [hxp]; exact hf)
    (by rw [hxd]; exact (hstep.1 nt hm).1)
    (fun mc => by rw [hxd, hxi, hxn]; exact (hstep.1 nt hm).2 mc improving nt) hm
    ((MoveGen.gen s.board).length + 1)
    { alpha := alpha, bestMove := 0, hasLegal := false, failLow := true, maxim := -Inf - 1, moveCnt := 0, quietCnt := 0,
      pick := c.pickInit s.board hm, yielded := [] } s.pushFrame hg hn hhash Reach.init
    (by simp only [List.length_nil, pushFrame_board]; omega) hfo
  generalize abLoop c L child x ((MoveGen.gen s.board).length + 1)
    { alpha := alpha, bestMove := 0, hasLegal := false, failLow := true, maxim := -Inf - 1, moveCnt := 0, quietCnt := 0,
      pick := c.pickInit s.board hm, yielded := [] } s.pushFrame = r at h ⊢
  split
  · exact h
  · exact h

theorem abPrune_fuel (c : Comp σ π) (L : Limits) {Good : Board → Prop} {μ : Board → Nat} {Q : Int → Prop}
    (hl : Laws c Good)
    (fl : FuelLaws c Good μ) (child : Child σ) (hc : ABSpec c L Good child) (alpha beta : Score) (d : Int) {ply : Int}
    (h0 : 0 ≤ ply) (h1 : ply < 63) (nt : NodeType) (inCheck improving : Bool) (se : Score) (hm : Move) (s : St σ)
    (hg : Good s.board) (hn : NodeOK s) (hhash : HashOK c s.board hm) (hic : inCheck = s.board.inCheck s.board.stm)
    (hf : ABFuelAt Good Q (wrapS8 (ply + 1)) child) (hstep : DepthStep c Q d) (hfo : s.fuelOut = false) :
    (abPrune c L child alpha beta d ply nt inCheck improving se hm s).2.fuelOut = false := by
  simp only [abPrune]
  split
  · exact hfo
  · split
    · next hnm =>
      have hchk : s.board.inCheck s.board.stm = false := by
        rw [← hic]; cases inCheck
        · rfl
        · simp at hnm
      have hn' := nullMove_spec c L hl child hc beta d h0 h1 se s hg hn.1 hchk
      have hnt : c.nmpTry s.board d se beta = true := by
        simp only [Bool.and_eq_true] at hnm; exact hnm.2
      have hnf := nullMove_fuel c hl child beta d ply se s hg hn.1 hchk hf (hstep.2 _ _ _ hnt) hfo
      simp only at hn'
      generalize nullMove c child beta d ply se s = nm at hn' hnf ⊢
      split
      · exact hnf
      · exact abMoves_fuel c L hl fl child hc alpha beta d h0 h1 nt inCheck improving se hm nm.2
          (by rw [hn'.1.board]; exact hg) (hn'.1.nodeOK hn) (by rw [hn'.1.board]; exact hhash) hf hstep hnf
    · exact abMoves_fuel c L hl fl child hc alpha beta d h0 h1 nt _ _ _ _ s hg hn hhash hf hstep hfo

theorem abBody_fuel (c : Comp σ π) (L : Limits) {Good : Board → Prop} {μ : Board → Nat} {Q : Int → Prop}
    (hl : Laws c Good)
    (fl : FuelLaws c Good μ) (child : Child σ) (hc : ABSpec c L Good child) (alpha beta : Score) (d : Int) {ply : Int}
    (h0 : 0 ≤ ply) (h1 : ply < 63) (nt : NodeType) (s : St σ) (hg : Good s.board) (hn : NodeOK s)
    (hf : ABFuelAt Good Q (wrapS8 (ply + 1)) child) (hstep : DepthStep c Q d) (hfo : s.fuelOut = false) :
    (abBody c L child alpha beta d ply nt s).2.fuelOut = false := by
  simp only [abBody]
  split
  · exact hfo
  · exact abPrune_fuel c L hl fl child hc alpha beta d h0 h1 nt _ _ _ _ s hg hn (hashOK_probe c hn.1 s.board ply) rfl hf
      hstep hfo

/-- the fuel a node at ply 0 needs: 63 nested `alphaBeta` levels, 48 nested quiescence levels below
    the first quiescence node, and that node itself. -/
def abFuel : Nat := 112

/-- an alphaBeta-like function called with `fuel` does not run out of it at plies `p` with
    `112 - p ≤ fuel`. -/
def ABFuel (Good : Board → Prop) (fuel : Nat) (child : Child σ) : Prop :=
  ∀ a b d ply nt s, Good s.board → PsInv.ok s.ps → 0 ≤ ply → ply ≤ 63 → (abFuel : Int) - ply ≤ (fuel : Int) →
    s.fuelOut = false → (child a b d ply nt s).2.fuelOut = false

/-- **`alphaBeta` terminates**: called at `ply` with at least `112 - ply` units of fuel it never runs
    out of fuel — in the node itself or anywhere in the tree below it (the `n`-counter of every move
    loop included) — for every depth (of either sign), window, node type, limits and point of abort. -/
theorem alphaBeta_fuel (c : Comp σ π) (L : Limits) {Good : Board → Prop} {μ : Board → Nat} (hl : Laws c Good)
    (fl : FuelLaws c Good μ) (fuel : Nat) : ABFuel Good fuel (alphaBeta c L fuel) := by
  induction fuel with
  | zero =>
    intro a b d ply nt s _ _ _ h63 hfu _
    unfold abFuel at hfu
    omega
  | succ fuel ih =>
    intro a b d ply nt s hg hok h0 h63 hfu hfo
    unfold abFuel at hfu
    simp only [alphaBeta]
    split
    · have hmu := fl.measure_bound s.board hg
      exact quiescence_fuel c L hl fl (fuel + 1) a b ply (s.setPv (s.pv.setNull ply.toNat)) hg hok
        (by simp only [setPv_board]; omega) hfo
    · next hq =>
      have h1 : ply < 63 := by simp [maxPlies] at hq; omega
      have i1 := incrementNodes_frame L (s.setPv (s.pv.setNull ply.toNat))
      have if1 := incrementNodes_fuelOut L (s.setPv (s.pv.setNull ply.toNat))
      generalize incrementNodes L (s.setPv (s.pv.setNull ply.toNat)) = s1 at i1 if1 ⊢
      have a1 := abort_frame L { s1 with abNodes := s1.abNodes + 1 }
      have af1 := abort_fuelOut L { s1 with abNodes := s1.abNodes + 1 }
      generalize abort L { s1 with abNodes := s1.abNodes + 1 } = as at a1 af1 ⊢
      have hb : as.2.board = s.board := by rw [a1.board]; exact i1.board
      have hps : PsInv.ok as.2.ps := a1.mono.ps_ok (i1.mono.ps_ok hok)
      have hfo' : as.2.fuelOut = false := by rw [af1]; exact if1.trans hfo
      split
      · exact hfo'
      · split
        · exact hfo'
        · next hnd =>
          have hw := wrapS8_succ h0 h1
          refine abBody_fuel (Q := fun _ => True) c L hl fl (alphaBeta c L fuel) (alphaBeta_spec c L hl fuel) a b d h0 h1
            nt as.2 (by rw [hb]; exact hg) ⟨hps, fifty_lt_of_not_draw hnd⟩ ?_ (depthStep_true c d) hfo'
          intro a' b' d' nt' s' _ hg' hok' hfo''
          exact ih a' b' d' (wrapS8 (ply + 1)) nt' s' hg' hok' (by rw [hw]; omega) (by rw [hw]; omega)
            (by rw [hw]; unfold abFuel; omega) hfo''

/-- the same at the root, in the form the driver level uses it. -/
theorem alphaBeta_fuel_root (c : Comp σ π) (L : Limits) {Good : Board → Prop} {μ : Board → Nat} (hl : Laws c Good)
    (fl : FuelLaws c Good μ) {fuel : Nat} (hfu : abFuel ≤ fuel) (a b : Score) (d : Int) (nt : NodeType) (s : St σ)
    (hg : Good s.board) (hok : PsInv.ok s.ps) (hfo : s.fuelOut = false) :
    (alphaBeta c L fuel a b d 0 nt s).2.fuelOut = false :=
  alphaBeta_fuel c L hl fl fuel a b d 0 nt s hg hok (Int.le_refl 0) (by decide) (by omega) hfo

/-! ### the depth-sensitive refinement

  The bound above does not look at the depth: it is the ply cap that ends every line.  With three facts
  about the reductions — all true of the real parameters — the depth of every recursive call lies in
  `[0, d - 1]`, the test `d = 0` is what ends a line, and a node entered with depth `d` needs only
  `d + 49` units of fuel (`d` nested `alphaBeta` levels, then quiescence), at whatever ply. -/

/-- what the refinement needs of the reductions, for depths `1 ≤ d ≤ 64` (a node with `d = 0` is a
    quiescence node):
    * `lmr_nonneg`: the reduced depth is not negative (`lmr = Clamp(d-1-value, 0, d-1)`); the skeleton
      itself only searches it when it is below `d - 1`;
    * `nmp_range`: where the null move is tried its depth is in `[0, d)` (`max(d - red, 0)` with
      `red ≥ NMPInit > 0`, tried for `d > NMPDepthLimit ≥ 0` only);
    * `iir_depth`: internal iterative reduction is applied at depths ≥ 2 only (`d > IIRDepthLimit`). -/
structure DepthLaws (c : Comp σ π) : Prop where
  lmr_nonneg : ∀ d mc imp nt, 1 ≤ d → d ≤ 64 → 0 ≤ c.lmr d mc imp nt
  nmp_range : ∀ b d se beta, 1 ≤ d → d ≤ 64 → c.nmpTry b d se beta = true →
    0 ≤ c.nmpDepth d se beta ∧ c.nmpDepth d se beta < d
  iir_depth : ∀ nt d hm, c.iir nt d hm = true → 2 ≤ d

omit [PsInv σ] in
/-- under `DepthLaws` the recursive calls of a node of depth `1 ≤ d ≤ 64` have depths in `[0, d - 1]`. -/
theorem depthStep_of_laws {c : Comp σ π} (dl : DepthLaws c) {d : Int} (h1 : 1 ≤ d) (h64 : d ≤ 64) :
    DepthStep c (fun d' => 0 ≤ d' ∧ d' ≤ d - 1) d := by
  refine ⟨fun nt hm => ?_, fun b se beta h => ?_⟩
  · have hdd : 1 ≤ (if c.iir nt d hm then wrapS8 (d - 1) else d) ∧ (if c.iir nt d hm then wrapS8 (d - 1) else d) ≤ d := by
      split
      · next hi =>
        have := dl.iir_depth nt d hm hi
        unfold wrapS8; omega
      · omega
    generalize (if c.iir nt d hm then wrapS8 (d - 1) else d) = dd at hdd
    have hw : wrapS8 (dd - 1) = dd - 1 := by unfold wrapS8; omega
    rw [hw]
    refine ⟨⟨by omega, by omega⟩, fun mc imp nt' hlt => ?_⟩
    have := dl.lmr_nonneg dd mc imp nt' hdd.1 (by omega)
    exact ⟨this, by omega⟩
  · have := dl.nmp_range b d se beta h1 h64 h
    exact ⟨this.1, by omega⟩

/-- an alphaBeta-like function called with `fuel` does not run out of it at depths `d` with
    `d + 49 ≤ fuel`, at whatever ply. -/
def ABFuelD (Good : Board → Prop) (fuel : Nat) (child : Child σ) : Prop :=
  ∀ a b d ply nt s, Good s.board → PsInv.ok s.ps → 0 ≤ ply → ply ≤ 63 → 0 ≤ d → d ≤ 64 → d + 49 ≤ (fuel : Int) →
    s.fuelOut = false → (child a b d ply nt s).2.fuelOut = false

/-- **`alphaBeta` terminates, depth-sensitive form**: under `DepthLaws` a node entered with depth
    `0 ≤ d ≤ 64` needs `d + 49` units of fuel only — the recursion below it is at most `d` `alphaBeta`
    levels and 49 quiescence levels deep. -/
theorem alphaBeta_fuel_depth (c : Comp σ π) (L : Limits) {Good : Board → Prop} {μ : Board → Nat} (hl : Laws c Good)
    (fl : FuelLaws c Good μ) (dl : DepthLaws c) (fuel : Nat) : ABFuelD Good fuel (alphaBeta c L fuel) := by
  induction fuel with
  | zero =>
    intro a b d ply nt s _ _ _ _ hd0 _ hfu _
    omega
  | succ fuel ih =>
    intro a b d ply nt s hg hok h0 h63 hd0 hd64 hfu hfo
    simp only [alphaBeta]
    split
    · have hmu := fl.measure_bound s.board hg
      exact quiescence_fuel c L hl fl (fuel + 1) a b ply (s.setPv (s.pv.setNull ply.toNat)) hg hok
        (by simp only [setPv_board]; omega) hfo
    · next hq =>
      have h1 : ply < 63 := by simp [maxPlies] at hq; omega
      have hd1 : 1 ≤ d := by
        have : ¬ d = 0 := fun e => hq (Or.inl e)
        omega
      have i1 := incrementNodes_frame L (s.setPv (s.pv.setNull ply.toNat))
      have if1 := incrementNodes_fuelOut L (s.setPv (s.pv.setNull ply.toNat))
      generalize incrementNodes L (s.setPv (s.pv.setNull ply.toNat)) = s1 at i1 if1 ⊢
      have a1 := abort_frame L { s1 with abNodes := s1.abNodes + 1 }
      have af1 := abort_fuelOut L { s1 with abNodes := s1.abNodes + 1 }
      generalize abort L { s1 with abNodes := s1.abNodes + 1 } = as at a1 af1 ⊢
      have hb : as.2.board = s.board := by rw [a1.board]; exact i1.board
      have hps : PsInv.ok as.2.ps := a1.mono.ps_ok (i1.mono.ps_ok hok)
      have hfo' : as.2.fuelOut = false := by rw [af1]; exact if1.trans hfo
      split
      · exact hfo'
      · split
        · exact hfo'
        · next hnd =>
          have hw := wrapS8_succ h0 h1
          refine abBody_fuel (Q := fun d' => 0 ≤ d' ∧ d' ≤ d - 1) c L hl fl (alphaBeta c L fuel)
            (alphaBeta_spec c L hl fuel) a b d h0 h1 nt as.2 (by rw [hb]; exact hg) ⟨hps, fifty_lt_of_not_draw hnd⟩ ?_
            (depthStep_of_laws dl hd1 hd64) hfo'
          intro a' b' d' nt' s' hq' hg' hok' hfo''
          exact ih a' b' d' (wrapS8 (ply + 1)) nt' s' hg' hok' (by rw [hw]; omega) (by rw [hw]; omega) hq'.1
            (by omega) (by omega) hfo''

end Search
end ChessVerif
