/-
  Frame lemmas for the search skeleton: every search function returns with the board, the history
  stack and the move store as it found them, keeps the node counter within the hard budget, never
  clears the abort flag, touches only its own and deeper PV rows, and leaves a legal line in its row.
-/
import ChessVerif.Proofs.SearchLaws

namespace ChessVerif
namespace Search

variable {σ π : Type}

/-! ### field lemmas of the small state updates -/

section fields
variable (s : St σ) (b : Board) (ps : σ) (pv : Pv.Rows) (sm : StackMove) (a : Bool)
@[simp] theorem setBoard_board : (s.setBoard b).board = b := rfl
@[simp] theorem setBoard_pv : (s.setBoard b).pv = s.pv := rfl
@[simp] theorem setBoard_ps : (s.setBoard b).ps = s.ps := rfl
@[simp] theorem setBoard_hstack : (s.setBoard b).hstack = s.hstack := rfl
@[simp] theorem setBoard_frames : (s.setBoard b).frames = s.frames := rfl
@[simp] theorem setPs_board : (s.setPs ps).board = s.board := rfl
@[simp] theorem setPs_pv : (s.setPs ps).pv = s.pv := rfl
@[simp] theorem setPs_hstack : (s.setPs ps).hstack = s.hstack := rfl
@[simp] theorem setPs_frames : (s.setPs ps).frames = s.frames := rfl
@[simp] theorem setPv_board : (s.setPv pv).board = s.board := rfl
@[simp] theorem setPv_pv : (s.setPv pv).pv = pv := rfl
@[simp] theorem setPv_hstack : (s.setPv pv).hstack = s.hstack := rfl
@[simp] theorem setPv_frames : (s.setPv pv).frames = s.frames := rfl
@[simp] theorem push_board : (s.push sm).board = s.board := rfl
@[simp] theorem push_pv : (s.push sm).pv = s.pv := rfl
@[simp] theorem push_hstack : (s.push sm).hstack = sm :: s.hstack := rfl
@[simp] theorem push_frames : (s.push sm).frames = s.frames := rfl
@[simp] theorem pop_board : s.pop.board = s.board := rfl
@[simp] theorem pop_pv : s.pop.pv = s.pv := rfl
@[simp] theorem pop_hstack : s.pop.hstack = s.hstack.tail := rfl
@[simp] theorem pop_frames : s.pop.frames = s.frames := rfl
@[simp] theorem pushFrame_board : s.pushFrame.board = s.board := rfl
@[simp] theorem pushFrame_pv : s.pushFrame.pv = s.pv := rfl
@[simp] theorem pushFrame_hstack : s.pushFrame.hstack = s.hstack := rfl
@[simp] theorem pushFrame_frames : s.pushFrame.frames = s.frames + 1 := rfl
@[simp] theorem pushFrame_ps : s.pushFrame.ps = s.ps := rfl
@[simp] theorem popFrame_board : s.popFrame.board = s.board := rfl
@[simp] theorem popFrame_pv : s.popFrame.pv = s.pv := rfl
@[simp] theorem popFrame_hstack : s.popFrame.hstack = s.hstack := rfl
@[simp] theorem popFrame_frames : s.popFrame.frames = s.frames - 1 := rfl
@[simp] theorem outOfFuel_board : s.outOfFuel.board = s.board := rfl
@[simp] theorem outOfFuel_pv : s.outOfFuel.pv = s.pv := rfl
@[simp] theorem outOfFuel_hstack : s.outOfFuel.hstack = s.hstack := rfl
@[simp] theorem outOfFuel_frames : s.outOfFuel.frames = s.frames := rfl
@[simp] theorem outOfFuel_aborted : s.outOfFuel.aborted = true := rfl
@[simp] theorem outOfFuel_fuelOut : s.outOfFuel.fuelOut = true := rfl
@[simp] theorem flag_board : (s.flag a).board = s.board := rfl
@[simp] theorem flag_pv : (s.flag a).pv = s.pv := rfl
@[simp] theorem flag_hstack : (s.flag a).hstack = s.hstack := rfl
@[simp] theorem flag_frames : (s.flag a).frames = s.frames := rfl
@[simp] theorem flagTT_board : (s.flagTT a).board = s.board := rfl
@[simp] theorem flagTT_pv : (s.flagTT a).pv = s.pv := rfl
@[simp] theorem flagTT_hstack : (s.flagTT a).hstack = s.hstack := rfl
@[simp] theorem flagTT_frames : (s.flagTT a).frames = s.frames := rfl
@[simp] theorem flagTT_ps : (s.flagTT a).ps = s.ps := rfl
@[simp] theorem flagTT_aborted : (s.flagTT a).aborted = s.aborted := rfl
@[simp] theorem flagTT_nodes : (s.flagTT a).nodes = s.nodes := rfl
@[simp] theorem flagTT_anomaly : (s.flagTT a).anomaly = s.anomaly := rfl
@[simp] theorem flagTT_nmpOut : (s.flagTT a).nmpOut = s.nmpOut := rfl
@[simp] theorem flagTT_fuelOut : (s.flagTT a).fuelOut = s.fuelOut := rfl
end fields

theorem setBoard_self (s : St σ) : s.setBoard s.board = s := by cases s; rfl

variable [PsInv σ]

theorem mono_setBoard (L : Limits) (s : St σ) (b : Board) : Mono L s (s.setBoard b) := Mono.of_eq rfl rfl rfl rfl rfl rfl rfl
/-- replacing the persistent state: the new one must satisfy the invariant if the old one did. -/
theorem mono_setPs (L : Limits) (s : St σ) (ps : σ) (h : PsInv.ok s.ps → PsInv.ok ps) : Mono L s (s.setPs ps) :=
  ⟨rfl, Int.le_refl _, fun _ h => h, id, id, id, Nat.le_refl _, id, id, h⟩
theorem mono_setPv (L : Limits) (s : St σ) (pv : Pv.Rows) : Mono L s (s.setPv pv) := Mono.of_eq rfl rfl rfl rfl rfl rfl rfl
theorem mono_push (L : Limits) (s : St σ) (sm : StackMove) : Mono L s (s.push sm) := Mono.of_eq rfl rfl rfl rfl rfl rfl rfl
theorem mono_pop (L : Limits) (s : St σ) : Mono L s s.pop := Mono.of_eq rfl rfl rfl rfl rfl rfl rfl
theorem mono_pushFrame (L : Limits) (s : St σ) : Mono L s s.pushFrame := Mono.of_eq rfl rfl rfl rfl rfl rfl rfl
theorem mono_popFrame (L : Limits) (s : St σ) : Mono L s s.popFrame := Mono.of_eq rfl rfl rfl rfl rfl rfl rfl
theorem mono_outOfFuel (L : Limits) (s : St σ) : Mono L s s.outOfFuel :=
  ⟨rfl, Int.le_refl _, fun _ h => h, fun _ => rfl, fun _ => rfl, id, Nat.le_refl _, id, id, id⟩
theorem mono_flag (L : Limits) (s : St σ) (a : Bool) : Mono L s (s.flag a) :=
  ⟨rfl, Int.le_refl _, fun _ h => h, id, id, fun h => by simp [St.flag, h], Nat.le_refl _, id, id, id⟩
theorem mono_flagNmp (L : Limits) (s : St σ) (a : Bool) : Mono L s (s.flagNmp a) :=
  ⟨rfl, Int.le_refl _, fun _ h => h, id, id, id, Nat.le_refl _, fun h => by simp [St.flagNmp, h], id, id⟩
theorem mono_flagTT (L : Limits) (s : St σ) (a : Bool) : Mono L s (s.flagTT a) :=
  ⟨rfl, Int.le_refl _, fun _ h => h, id, id, id, Nat.le_refl _, id, fun h => by simp [St.flagTT, h], id⟩

/-! ### quiescence -/

/-- what a quiescence-like function guarantees on `Good` boards. -/
def QSpec (L : Limits) (Good : Board → Prop) (child : Score → Score → Int → St σ → Score × St σ) : Prop :=
  ∀ a b p s, Good s.board → PsInv.ok s.ps → Frame L s (child a b p s).2 ∧ (child a b p s).2.pv = s.pv

theorem qAfter_spec (c : Comp σ π) (L : Limits) {Good : Board → Prop} (hl : Laws c Good) (beta : Score) (ply : Int)
    (m : Move) (r : Board.Reverse) (l : QLoop) (v : Score) (s : St σ)
    (hgb : Good (s.board.undoMove m r)) (hmb : m ∈ MoveGen.gen (s.board.undoMove m r)) :
    let o := qAfter c L beta ply m r l v s
    Mono L s o.2 ∧ o.2.board = s.board.undoMove m r ∧ o.2.hstack = s.hstack ∧ o.2.frames = s.frames ∧ o.2.pv = s.pv ∧
      (∀ l', o.1 ≠ .brk l') := by
  simp only [qAfter]
  have hf := abort_frame L (s.setBoard (s.board.undoMove m r))
  have hp := abort_pv L (s.setBoard (s.board.undoMove m r))
  generalize abort L (s.setBoard (s.board.undoMove m r)) = as at hf hp ⊢
  split
  · exact ⟨(mono_setBoard L s _).trans hf.mono, hf.board, hf.hstack, hf.frames, hp.1, fun _ h => by cases h⟩
  · split
    · exact ⟨(((mono_setBoard L s _).trans hf.mono).trans (mono_setPs L _ _
          (fun h => hl.ok_store _ _ _ _ _ _ _ h (by rw [hf.board]; exact hgb) (Or.inr (by rw [hf.board]; exact hmb))))).trans
          (mono_flagTT L _ _),
        hf.board, hf.hstack, hf.frames, hp.1, fun _ h => by cases h⟩
    · exact ⟨(mono_setBoard L s _).trans hf.mono, hf.board, hf.hstack, hf.frames, hp.1, fun _ h => by cases h⟩

theorem qLoop_spec (c : Comp σ π) (L : Limits) {Good : Board → Prop} (hl : Laws c Good)
    (child : Score → Score → Int → St σ → Score × St σ) (hc : QSpec L Good child) (beta sp : Score) (ply : Int) :
    ∀ (moves : List (Move × Score)) (l : QLoop) (s : St σ), Good s.board → NodeOK s →
      (∀ mw ∈ moves, mw.1 ∈ MoveGen.gen s.board) →
      Frame L s (qLoop c L child beta sp ply moves l s).2 ∧ (qLoop c L child beta sp ply moves l s).2.pv = s.pv := by
  intro moves
  induction moves with
  | nil => intro l s _ _ _; exact ⟨Frame.refl L s, rfl⟩
  | cons mw rest ih =>
    intro l s hg hn hm
    obtain ⟨m, w⟩ := mw
    have hmem : m ∈ MoveGen.gen s.board := hm (m, w) (List.mem_cons_self)
    have hrest : ∀ mw ∈ rest, mw.1 ∈ MoveGen.gen s.board := fun mw h => hm mw (List.mem_cons_of_mem _ h)
    have hu := hl.undo_make s.board m hg hmem
    simp only [qLoop]
    split
    · exact ⟨Frame.refl L s, rfl⟩
    · split
      · rw [hu, setBoard_self]; exact ih l s hg hn hrest
      · next hchk =>
        split
        · rw [hu, setBoard_self]; exact ⟨Frame.refl L s, rfl⟩
        · have hchk' : (s.board.makeMove c.keys m).1.inCheck s.board.stm = false := by simpa using hchk
          have hg' := hl.good_make s.board m hg hn.2 hmem hchk'
          have hcs := hc (neg beta) (neg l.alpha) (wrapS8 (ply + 1)) (s.setBoard (s.board.makeMove c.keys m).1) hg' hn.1
          generalize child (neg beta) (neg l.alpha) (wrapS8 (ply + 1)) (s.setBoard (s.board.makeMove c.keys m).1) = r at hcs ⊢
          have hub : r.2.board.undoMove m (s.board.makeMove c.keys m).2 = s.board := by
            rw [hcs.1.board]; simpa using hu
          have ha := qAfter_spec c L hl beta ply m (s.board.makeMove c.keys m).2 l r.1 r.2
            (by rw [hub]; exact hg) (by rw [hub]; exact hmem)
          simp only at ha
          generalize qAfter c L beta ply m (s.board.makeMove c.keys m).2 l r.1 r.2 = o at ha ⊢
          obtain ⟨hm1, hb1, hh1, hf1, hp1, hnb⟩ := ha
          have hboard : o.2.board = s.board := by
            rw [hb1, hcs.1.board]; simpa using hu
          have hfr : Frame L s o.2 :=
            ⟨(mono_setBoard L s _).trans (hcs.1.mono.trans hm1), hboard, by rw [hh1, hcs.1.hstack]; rfl,
             by rw [hf1, hcs.1.frames]; rfl⟩
          have hpv : o.2.pv = s.pv := by rw [hp1, hcs.2]; rfl
          obtain ⟨st, s'⟩ := o
          cases st with
          | ret v => exact ⟨hfr, hpv⟩
          | brk l' => exact absurd rfl (hnb l')
          | cont l' =>
            simp only at hfr hpv hboard ⊢
            have := ih l' s' (by rw [hboard]; exact hg) (hfr.nodeOK hn) (by rw [hboard]; exact hrest)
            exact ⟨hfr.trans this.1, this.2.trans hpv⟩

theorem qBody_spec (c : Comp σ π) (L : Limits) {Good : Board → Prop} (hl : Laws c Good)
    (child : Score → Score → Int → St σ → Score × St σ) (hc : QSpec L Good child)
    (alpha beta : Score) (ply : Int) (s : St σ) (hg : Good s.board) (hn : NodeOK s) :
    Frame L s (qBody c L child alpha beta ply s).2 ∧ (qBody c L child alpha beta ply s).2.pv = s.pv := by
  simp only [qBody]
  split
  · exact ⟨Frame.refl L s, rfl⟩
  · split
    · exact ⟨Frame.refl L s, rfl⟩
    · split
      · exact ⟨Frame.refl L s, rfl⟩
      · split
        · exact ⟨Frame.refl L s, rfl⟩
        · have h := qLoop_spec c L hl child hc beta (evaluate c s.board) ply (c.qMoves s.ps s.board s.hstack)
            { alpha := max alpha (evaluate c s.board), maxim := evaluate c s.board } s.pushFrame hg hn
            (fun mw hmw => hl.q_mem s.ps s.board s.hstack mw.1 mw.2 hg hmw)
          generalize qLoop c L child beta (evaluate c s.board) ply (c.qMoves s.ps s.board s.hstack)
            { alpha := max alpha (evaluate c s.board), maxim := evaluate c s.board } s.pushFrame = r at h ⊢
          have hfr : Frame L s r.2.popFrame :=
            ⟨(mono_pushFrame L s).trans (h.1.mono.trans (mono_popFrame L _)), h.1.board, h.1.hstack,
             by simp [h.1.frames]⟩
          have hpv : r.2.popFrame.pv = s.pv := h.2
          split
          · exact ⟨hfr, hpv⟩
          · exact ⟨⟨(hfr.mono.trans (mono_setPs L _ _
              (fun h' => hl.ok_store _ _ _ _ _ _ _ h' (by rw [hfr.board]; exact hg) (Or.inl rfl)))).trans
              (mono_flagTT L _ _),
              hfr.board, hfr.hstack, hfr.frames⟩, hpv⟩

/-- the draw test of a node failed: the halfmove clock is below 100. -/
theorem fifty_lt_of_not_draw {b : Board} {P : Prop} (h : ¬ (b.fifty ≥ 100 ∨ P)) : b.fifty < 100 := by
  have : ¬ b.fifty ≥ 100 := fun h' => h (Or.inl h')
  omega

theorem quiescence_spec (c : Comp σ π) (L : Limits) {Good : Board → Prop} (hl : Laws c Good) (fuel : Nat) :
    QSpec L Good (quiescence c L fuel) := by
  induction fuel with
  | zero => intro a b p s _ _; exact ⟨⟨mono_outOfFuel L s, rfl, rfl, rfl⟩, rfl⟩
  | succ fuel ih =>
    intro a b p s hg hok
    simp only [quiescence]
    have h1 := incrementNodes_frame L s
    have h2 := abort_frame L (incrementNodes L s)
    have hp := (abort_pv L (incrementNodes L s)).1.trans (incrementNodes_pv L s)
    have h12 := h1.trans h2
    split
    · exact ⟨h12, hp⟩
    · split
      · exact ⟨h12, hp⟩
      · next hnd =>
        have := qBody_spec c L hl (quiescence c L fuel) ih a b p (abort L (incrementNodes L s)).2
          (by rw [h12.board]; exact hg) ⟨h12.mono.ps_ok hok, fifty_lt_of_not_draw hnd⟩
        exact ⟨h12.trans this.1, this.2.trans hp⟩

/-! ### alphaBeta -/

/-- post-condition of a node searched at ply `p`. -/
def ABPost (K : Keys) (L : Limits) (p : Nat) (s s' : St σ) : Prop :=
  Frame L s s' ∧ (∀ q, q < p → s'.pv.row q = s.pv.row q) ∧ LegalLine K s.board (s'.pv.row p)

/-- what an alphaBeta-like function guarantees on `Good` boards. -/
def ABSpec (c : Comp σ π) (L : Limits) (Good : Board → Prop) (child : Child σ) : Prop :=
  ∀ a b d ply nt s, Good s.board → PsInv.ok s.ps → 0 ≤ ply → ABPost c.keys L ply.toNat s (child a b d ply nt s).2

theorem wrapS8_succ {ply : Int} (h0 : 0 ≤ ply) (h1 : ply < 63) : wrapS8 (ply + 1) = ply + 1 := by
  unfold wrapS8; omega

theorem toNat_succ {ply : Int} (h0 : 0 ≤ ply) : (ply + 1).toNat = ply.toNat + 1 := by omega

omit [PsInv σ] in
theorem callChild_snd (child : Child σ) (a b : Score) (d ply : Int) (nt : NodeType) (s : St σ) :
    (callChild child a b d ply nt s).2 = (child a b d ply nt s).2 := rfl

/-- one call of the child at ply `p+1` from a state whose board is `Good`. -/
theorem callChild_post (c : Comp σ π) (L : Limits) {Good : Board → Prop} (child : Child σ) (hc : ABSpec c L Good child)
    (a b : Score) (d : Int) {ply : Int} (h0 : 0 ≤ ply) (h1 : ply < 63) (nt : NodeType) (s : St σ) (hg : Good s.board)
    (hok : PsInv.ok s.ps) :
    let o := callChild child a b d (wrapS8 (ply + 1)) nt s
    Frame L s o.2 ∧ (∀ q, q ≤ ply.toNat → o.2.pv.row q = s.pv.row q) ∧ LegalLine c.keys s.board (o.2.pv.row (ply.toNat + 1)) := by
  have := hc a b d (wrapS8 (ply + 1)) nt s hg hok (by rw [wrapS8_succ h0 h1]; omega)
  rw [wrapS8_succ h0 h1, toNat_succ h0] at this
  simp only [callChild_snd, wrapS8_succ h0 h1]
  exact ⟨this.1, fun q hq => this.2.1 q (by omega), this.2.2⟩

theorem searchRest_spec (c : Comp σ π) (L : Limits) {Good : Board → Prop} (child : Child σ) (hc : ABSpec c L Good child)
    (x : ABCtx) (l : ABLoop π) (next : NodeType) (s : St σ) (hg : Good s.board) (hok : PsInv.ok s.ps)
    (h0 : 0 ≤ x.ply) (h1 : x.ply < 63) :
    let o := searchRest child x l next s
    Frame L s o.2 ∧ (∀ q, q ≤ x.ply.toNat → o.2.pv.row q = s.pv.row q) ∧
      LegalLine c.keys s.board (o.2.pv.row (x.ply.toNat + 1)) := by
  simp only [searchRest]
  have c2 := callChild_post c L child hc (wrapS16 (neg l.alpha - 1)) (neg l.alpha) (wrapS8 (x.d - 1)) h0 h1 next s hg hok
  simp only at c2
  generalize callChild child (wrapS16 (neg l.alpha - 1)) (neg l.alpha) (wrapS8 (x.d - 1)) (wrapS8 (x.ply + 1)) next s = r2 at c2 ⊢
  have hg2 : Good r2.2.board := by rw [c2.1.board]; exact hg
  split
  · exact c2
  · split
    · exact c2
    · have c3 := callChild_post c L child hc (neg x.beta) (neg l.alpha) (wrapS8 (x.d - 1)) h0 h1 next r2.2 hg2
        (c2.1.mono.ps_ok hok)
      simp only at c3
      generalize callChild child (neg x.beta) (neg l.alpha) (wrapS8 (x.d - 1)) (wrapS8 (x.ply + 1)) next r2.2 = r3 at c3 ⊢
      exact ⟨c2.1.trans c3.1, fun q hq => (c3.2.1 q hq).trans (c2.2.1 q hq), by rw [← c2.1.board]; exact c3.2.2⟩

theorem searchMove_spec (c : Comp σ π) (L : Limits) {Good : Board → Prop} (child : Child σ) (hc : ABSpec c L Good child)
    (x : ABCtx) (l : ABLoop π) (next : NodeType) (s : St σ) (hg : Good s.board) (hok : PsInv.ok s.ps)
    (h0 : 0 ≤ x.ply) (h1 : x.ply < 63) :
    let o := searchMove c child x l next s
    Frame L s o.2 ∧ (∀ q, q ≤ x.ply.toNat → o.2.pv.row q = s.pv.row q) ∧
      (o.1 > l.alpha → LegalLine c.keys s.board (o.2.pv.row (x.ply.toNat + 1))) := by
  simp only [searchMove]
  split
  · -- late move reduction block
    split
    · -- reduced search performed
      have c1 := callChild_post c L child hc (wrapS16 (neg l.alpha - 1)) (neg l.alpha)
        (c.lmr x.d (l.moveCnt - 1) x.improving x.nt) h0 h1 next s hg hok
      simp only at c1
      generalize callChild child (wrapS16 (neg l.alpha - 1)) (neg l.alpha) (c.lmr x.d (l.moveCnt - 1) x.improving x.nt)
        (wrapS8 (x.ply + 1)) next s = r1 at c1 ⊢
      have hg1 : Good r1.2.board := by rw [c1.1.board]; exact hg
      split
      · rename_i hle; exact ⟨c1.1, c1.2.1, fun h => absurd h (Int.not_lt.2 hle)⟩
      · have c2 := searchRest_spec c L child hc x l next r1.2 hg1 (c1.1.mono.ps_ok hok) h0 h1
        simp only at c2
        generalize searchRest child x l next r1.2 = r2 at c2 ⊢
        exact ⟨c1.1.trans c2.1, fun q hq => (c2.2.1 q hq).trans (c1.2.1 q hq), fun _ => by rw [← c1.1.board]; exact c2.2.2⟩
    · -- reduced search skipped: value = 0
      split
      · rename_i hle; exact ⟨Frame.refl L s, fun _ _ => rfl, fun h => absurd h (Int.not_lt.2 hle)⟩
      · have c2 := searchRest_spec c L child hc x l next s hg hok h0 h1
        exact ⟨c2.1, c2.2.1, fun _ => c2.2.2⟩
  · have c3 := callChild_post c L child hc (neg x.beta) (neg l.alpha) (wrapS8 (x.d - 1)) h0 h1 next s hg hok
    simp only at c3
    exact ⟨c3.1, c3.2.1, fun _ => c3.2.2⟩

/-- `abAfter`: undo + pop, and the PV row of this ply is either untouched or `m ::` the child's row
    (only when the value raised alpha). -/
theorem abAfter_spec (c : Comp σ π) (L : Limits) {Good : Board → Prop} (hl : Laws c Good) (x : ABCtx) (m : Move)
    (r : Board.Reverse) (l : ABLoop π) (value : Score) (s : St σ)
    (hgb : Good (s.board.undoMove m r)) (hmb : m ∈ MoveGen.gen (s.board.undoMove m r)) :
    let o := abAfter c L x m r l value s
    Mono L s o.2 ∧ o.2.board = s.board.undoMove m r ∧ o.2.hstack = s.hstack.tail ∧ o.2.frames = s.frames ∧
      (o.2.pv = s.pv ∨ (value > l.alpha ∧ o.2.pv = s.pv.insert x.ply.toNat m)) ∧
      (∀ l', (o.1 = .cont l' ∨ o.1 = .brk l') → l'.yielded = l.yielded ∧ ∃ w, l'.pick = c.setWeight l.pick w) := by
  simp only [abAfter]
  have hf := abort_frame L (s.setBoard (s.board.undoMove m r)).pop
  have hp := (abort_pv L (s.setBoard (s.board.undoMove m r)).pop).1
  have hm : Mono L s (abort L (s.setBoard (s.board.undoMove m r)).pop).2 :=
    ((mono_setBoard L s _).trans (mono_pop L _)).trans hf.mono
  generalize abort L (s.setBoard (s.board.undoMove m r)).pop = as at hf hp hm ⊢
  split
  · exact ⟨hm, hf.board, hf.hstack, hf.frames, Or.inl hp, fun l' h => by rcases h with h | h <;> cases h⟩
  · split
    · next hgt =>
      split
      · exact ⟨(hm.trans (mono_setPs L _ _ (fun h => hl.ok_failHigh _ _ _ _ _
            (hl.ok_store _ _ _ _ _ _ _ h (by rw [hf.board]; exact hgb) (Or.inr (by rw [hf.board]; exact hmb)))))).trans
            (mono_flagTT L _ _),
          hf.board, hf.hstack, hf.frames, Or.inl hp, fun l' h => by rcases h with h | h <;> cases h⟩
      · split
        · exact ⟨hm.trans (mono_setPv L _ _), hf.board, hf.hstack, hf.frames, Or.inr ⟨hgt, by simp [hp]⟩,
            fun l' h => by rcases h with h | h <;> cases h; exact ⟨rfl, _, rfl⟩⟩
        · exact ⟨hm.trans (mono_setPv L _ _), hf.board, hf.hstack, hf.frames, Or.inr ⟨hgt, by simp [hp]⟩,
            fun l' h => by rcases h with h | h <;> cases h; exact ⟨rfl, _, rfl⟩⟩
    · split
      · exact ⟨hm, hf.board, hf.hstack, hf.frames, Or.inl hp,
          fun l' h => by rcases h with h | h <;> cases h; exact ⟨rfl, _, rfl⟩⟩
      · exact ⟨hm, hf.board, hf.hstack, hf.frames, Or.inl hp,
          fun l' h => by rcases h with h | h <;> cases h; exact ⟨rfl, _, rfl⟩⟩

omit [PsInv σ] in
/-- the best move after one more move is the old one or the move just searched. -/
theorem abAfter_best (c : Comp σ π) (L : Limits) (x : ABCtx) (m : Move) (r : Board.Reverse)
    (l : ABLoop π) (value : Score) (s : St σ) :
    ∀ l', ((abAfter c L x m r l value s).1 = .cont l' ∨ (abAfter c L x m r l value s).1 = .brk l') →
      l'.bestMove = l.bestMove ∨ l'.bestMove = m := by
  simp only [abAfter]
  generalize abort L (s.setBoard (s.board.undoMove m r)).pop = as
  intro l' h
  split at h
  · rcases h with h | h <;> cases h
  · split at h
    · split at h
      · rcases h with h | h <;> cases h
      · split at h <;> (rcases h with h | h <;> cases h <;> exact Or.inr rfl)
    · split at h <;> (rcases h with h | h <;> cases h <;> exact Or.inl rfl)

theorem insert_row_ne (r : Pv.Rows) (p q : Nat) (m : Move) (h : q ≠ p) : (r.insert p m).row q = r.row q := by
  simp [Pv.Rows.insert, h]

theorem insert_row_self (r : Pv.Rows) (p : Nat) (m : Move) : (r.insert p m).row p = m :: r.row (p + 1) := by
  simp [Pv.Rows.insert]

theorem abEnter_alpha (l : ABLoop π) (cap : Piece) (m : Move) : (abEnter l cap m).alpha = l.alpha := rfl

theorem abLoop_spec (c : Comp σ π) (L : Limits) {Good : Board → Prop} (hl : Laws c Good) (child : Child σ)
    (hc : ABSpec c L Good child) (x : ABCtx) (h0 : 0 ≤ x.ply) (h1 : x.ply < 63) (hmv : Move) :
    ∀ (n : Nat) (l : ABLoop π) (s : St σ), Good s.board → NodeOK s → HashOK c s.board hmv →
      Reach c s.board hmv l.pick l.yielded → (l.bestMove = 0 ∨ l.bestMove ∈ MoveGen.gen s.board) →
      LegalLine c.keys s.board (s.pv.row x.ply.toNat) →
      let o := abLoop c L child x n l s
      Frame L s o.2 ∧ (∀ q, q < x.ply.toNat → o.2.pv.row q = s.pv.row q) ∧ LegalLine c.keys s.board (o.2.pv.row x.ply.toNat) ∧
        (∀ l', o.1 = .done l' → l'.bestMove = 0 ∨ l'.bestMove ∈ MoveGen.gen s.board) := by
  intro n
  induction n with
  | zero =>
    intro l s _ _ _ _ _ hline
    exact ⟨⟨mono_outOfFuel L s, rfl, rfl, rfl⟩, fun _ _ => rfl, hline, fun l' h => by cases h⟩
  | succ n ih =>
    intro l s hg hn hhash hreach hbest hline
    simp only [abLoop]
    split
    · exact ⟨Frame.refl L s, fun _ _ => rfl, hline, fun l' h => by cases h; exact hbest⟩
    · next m pk hpick =>
      have hmem : m ∈ MoveGen.gen s.board := hl.pick_mem _ _ _ _ _ _ _ _ hg hhash hreach hn.1 hpick
      have hreach' : Reach c s.board hmv pk (m :: l.yielded) := Reach.next hreach hn.1 hpick
      have hu := hl.undo_make s.board m hg hmem
      split
      · rw [hu, setBoard_self]; exact ih _ s hg hn hhash hreach' hbest hline
      · next hchk =>
        have hchk' : (s.board.makeMove c.keys m).1.inCheck s.board.stm = false := by simpa using hchk
        have hg' := hl.good_make s.board m hg hn.2 hmem hchk'
        have hplay : m ∈ MoveGen.playable c.keys s.board := mem_playable.2 ⟨hmem, hchk'⟩
        generalize hl2 : abEnter { l with pick := pk, yielded := m :: l.yielded } (s.board.pieceAt (s.board.captureSq m)) m = l2
        have hsm := searchMove_spec c L child hc x l2 (nextNodeType x.nt l2.moveCnt)
          ((s.setBoard (s.board.makeMove c.keys m).1).push
            { piece := s.board.pieceAt (Move.src m), to := Move.dst m, score := x.staticEval }) hg' hn.1 h0 h1
        simp only at hsm
        generalize searchMove c child x l2 (nextNodeType x.nt l2.moveCnt)
          ((s.setBoard (s.board.makeMove c.keys m).1).push
            { piece := s.board.pieceAt (Move.src m), to := Move.dst m, score := x.staticEval }) = r at hsm ⊢
        obtain ⟨hsf, hsrows, hsline⟩ := hsm
        have hub : r.2.board.undoMove m (s.board.makeMove c.keys m).2 = s.board := by
          rw [hsf.board]; simpa using hu
        have ha := abAfter_spec c L hl x m (s.board.makeMove c.keys m).2 l2 r.1 r.2
          (by rw [hub]; exact hg) (by rw [hub]; exact hmem)
        have hbm := abAfter_best c L x m (s.board.makeMove c.keys m).2 l2 r.1 r.2
        simp only at ha
        generalize abAfter c L x m (s.board.makeMove c.keys m).2 l2 r.1 r.2 = o at ha hbm ⊢
        obtain ⟨hm1, hb1, hh1, hf1, hpvcase, hpick'⟩ := ha
        have hboard : o.2.board = s.board := by rw [hb1, hsf.board]; simpa using hu
        have hfr : Frame L s o.2 :=
          ⟨((mono_setBoard L s _).trans (mono_push L _ _)).trans (hsf.mono.trans hm1), hboard,
           by rw [hh1, hsf.hstack]; rfl, by rw [hf1, hsf.frames]; rfl⟩
        have hrows : ∀ q, q < x.ply.toNat → o.2.pv.row q = s.pv.row q := by
          intro q hq
          rcases hpvcase with h | ⟨_, h⟩
          · rw [h]; exact hsrows q (by omega)
          · rw [h, insert_row_ne _ _ _ _ (by omega)]; exact hsrows q (by omega)
        have hline' : LegalLine c.keys s.board (o.2.pv.row x.ply.toNat) := by
          rcases hpvcase with h | ⟨hgt, h⟩
          · rw [h, hsrows _ (Nat.le_refl _)]; exact hline
          · rw [h, insert_row_self]
            have : l2.alpha = l.alpha := by rw [← hl2, abEnter_alpha]
            exact LegalLine.cons hplay (hsline hgt)
        have hbest2 : ∀ l', (o.1 = .cont l' ∨ o.1 = .brk l') → l'.bestMove = 0 ∨ l'.bestMove ∈ MoveGen.gen s.board := by
          intro l' h'
          have e2 : l2.bestMove = l.bestMove := by rw [← hl2]; rfl
          rcases hbm l' h' with e | e
          · rw [e, e2]; exact hbest
          · rw [e]; exact Or.inr hmem
        obtain ⟨st, s'⟩ := o
        cases st with
        | ret v => exact ⟨hfr, hrows, hline', fun l' h => by cases h⟩
        | brk l' => exact ⟨hfr, hrows, hline', fun l'' h => by cases h; exact hbest2 l' (Or.inr rfl)⟩
        | cont l' =>
          simp only at hfr hrows hline' hboard ⊢
          have hr2 : Reach c s'.board hmv l'.pick l'.yielded := by
            obtain ⟨hy, w, hw⟩ := hpick' l' (Or.inl rfl)
            rw [hboard, hy, hw, ← hl2]
            exact Reach.weight hreach'
          have := ih l' s' (by rw [hboard]; exact hg) (hfr.nodeOK hn) (by rw [hboard]; exact hhash) hr2
            (by rw [hboard]; exact hbest2 l' (Or.inl rfl)) (by rw [hboard]; exact hline')
          rw [hboard] at this
          exact ⟨hfr.trans this.1, fun q hq => (this.2.1 q hq).trans (hrows q hq), this.2.2.1, this.2.2.2⟩

theorem nullMove_spec (c : Comp σ π) (L : Limits) {Good : Board → Prop} (hl : Laws c Good) (child : Child σ)
    (hc : ABSpec c L Good child) (beta : Score) (d : Int) {ply : Int} (h0 : 0 ≤ ply) (h1 : ply < 63) (se : Score)
    (s : St σ) (hg : Good s.board) (hok : PsInv.ok s.ps) (hchk : s.board.inCheck s.board.stm = false) :
    let o := nullMove c child beta d ply se s
    Frame L s o.2 ∧ (∀ q, q ≤ ply.toNat → o.2.pv.row q = s.pv.row q) := by
  simp only [nullMove]
  have hg' := hl.good_null s.board hg hchk
  have hu := hl.undo_null s.board hg hchk
  have cc := callChild_post c L child hc (neg beta) (wrapS16 (neg beta + 1)) (c.nmpDepth d se beta) h0 h1 .cut
    (s.setBoard (s.board.makeNull c.keys).1) hg' hok
  simp only at cc
  generalize callChild child (neg beta) (wrapS16 (neg beta + 1)) (c.nmpDepth d se beta) (wrapS8 (ply + 1)) .cut
    (s.setBoard (s.board.makeNull c.keys).1) = r at cc ⊢
  have hb : (r.2.setBoard (r.2.board.undoNull (s.board.makeNull c.keys).2)).board = s.board := by
    simp [cc.1.board]; exact hu
  have hfr : Frame L s (r.2.setBoard (r.2.board.undoNull (s.board.makeNull c.keys).2)) :=
    ⟨(mono_setBoard L s _).trans (cc.1.mono.trans (mono_setBoard L _ _)), hb, cc.1.hstack, cc.1.frames⟩
  split
  · exact ⟨⟨hfr.mono.trans (mono_flagNmp L _ _), hfr.board, hfr.hstack, hfr.frames⟩, cc.2.1⟩
  · exact ⟨hfr, cc.2.1⟩

theorem abMoves_spec (c : Comp σ π) (L : Limits) {Good : Board → Prop} (hl : Laws c Good) (child : Child σ)
    (hc : ABSpec c L Good child) (alpha beta : Score) (d : Int) {ply : Int} (h0 : 0 ≤ ply) (h1 : ply < 63)
    (nt : NodeType) (inCheck improving : Bool) (se : Score) (hm : Move) (s : St σ) (hg : Good s.board) (hn : NodeOK s)
    (hhash : HashOK c s.board hm)
    (hline : LegalLine c.keys s.board (s.pv.row ply.toNat)) :
    ABPost c.keys L ply.toNat s (abMoves c L child alpha beta d ply nt inCheck improving se hm s).2 := by
  simp only [abMoves]
  generalize hx : ABCtx.mk alpha beta (if c.iir nt d hm then wrapS8 (d - 1) else d) ply nt inCheck improving se = x
  have hxp : x.ply = ply := by rw [← hx]
  have h := abLoop_spec c L hl child hc x (by rw [hxp]; exact h0) (by rw [hxp]; exact h1) hm
    ((MoveGen.gen s.board).length + 1)
    { alpha := alpha, bestMove := 0, hasLegal := false, failLow := true, maxim := -Inf - 1, moveCnt := 0, quietCnt := 0,
      pick := c.pickInit s.board hm, yielded := [] } s.pushFrame hg hn hhash Reach.init (Or.inl rfl) (by rw [hxp]; exact hline)
  simp only [hxp] at h
  generalize abLoop c L child x ((MoveGen.gen s.board).length + 1)
    { alpha := alpha, bestMove := 0, hasLegal := false, failLow := true, maxim := -Inf - 1, moveCnt := 0, quietCnt := 0,
      pick := c.pickInit s.board hm, yielded := [] } s.pushFrame = r at h ⊢
  have hfr : Frame L s r.2.popFrame :=
    ⟨(mono_pushFrame L s).trans (h.1.mono.trans (mono_popFrame L _)), h.1.board, h.1.hstack, by simp [h.1.frames]⟩
  split
  · exact ⟨hfr, h.2.1, h.2.2.1⟩
  · next l heq =>
    have hbest := h.2.2.2 l heq
    have hgb : Good r.2.popFrame.board := by rw [hfr.board]; exact hg
    have hbest' : l.bestMove = 0 ∨ l.bestMove ∈ MoveGen.gen r.2.popFrame.board := by rw [hfr.board]; exact hbest
    refine ⟨⟨hfr.mono.trans (((mono_setPs L _ _ (fun h' => ?_)).trans (mono_flag L _ _)).trans (mono_flagTT L _ _)),
      hfr.board, hfr.hstack, hfr.frames⟩,
      h.2.1, h.2.2.1⟩
    have hst : ∀ dd pp m' v bd, (m' = 0 ∨ m' = l.bestMove) →
        PsInv.ok (c.ttStore r.2.popFrame.ps r.2.popFrame.board dd pp m' v bd) := by
      intro dd pp m' v bd hm'
      refine hl.ok_store _ _ _ _ _ _ _ h' hgb ?_
      rcases hm' with e | e
      · exact Or.inl e
      · rw [e]; exact hbest'
    repeat' split
    all_goals first | exact hst _ _ _ _ _ (Or.inl rfl) | exact hst _ _ _ _ _ (Or.inr rfl)

theorem abPrune_spec (c : Comp σ π) (L : Limits) {Good : Board → Prop} (hl : Laws c Good) (child : Child σ)
    (hc : ABSpec c L Good child) (alpha beta : Score) (d : Int) {ply : Int} (h0 : 0 ≤ ply) (h1 : ply < 63)
    (nt : NodeType) (inCheck improving : Bool) (se : Score) (hm : Move) (s : St σ) (hg : Good s.board) (hn : NodeOK s)
    (hhash : HashOK c s.board hm)
    (hic : inCheck = s.board.inCheck s.board.stm)
    (hline : LegalLine c.keys s.board (s.pv.row ply.toNat)) :
    ABPost c.keys L ply.toNat s (abPrune c L child alpha beta d ply nt inCheck improving se hm s).2 := by
  simp only [abPrune]
  split
  · exact ⟨⟨mono_flag L _ _, rfl, rfl, rfl⟩, fun _ _ => rfl, hline⟩
  · split
    · next hnm =>
      have hchk : s.board.inCheck s.board.stm = false := by
        rw [← hic]; cases inCheck
        · rfl
        · simp at hnm
      have hn' := nullMove_spec c L hl child hc beta d h0 h1 se s hg hn.1 hchk
      simp only at hn'
      generalize nullMove c child beta d ply se s = nm at hn' ⊢
      have hline' : LegalLine c.keys nm.2.board (nm.2.pv.row ply.toNat) := by
        rw [hn'.1.board, hn'.2 _ (Nat.le_refl _)]; exact hline
      split
      · exact ⟨hn'.1, fun q hq => hn'.2 q (by omega), by rw [hn'.2 _ (Nat.le_refl _)]; exact hline⟩
      · have := abMoves_spec c L hl child hc alpha beta d h0 h1 nt inCheck improving se hm nm.2
          (by rw [hn'.1.board]; exact hg) (hn'.1.nodeOK hn) (by rw [hn'.1.board]; exact hhash) hline'
        refine ⟨hn'.1.trans this.1, fun q hq => (this.2.1 q hq).trans (hn'.2 q (by omega)), ?_⟩
        rw [← hn'.1.board]; exact this.2.2
    · exact abMoves_spec c L hl child hc alpha beta d h0 h1 nt _ _ _ _ s hg hn hhash hline

theorem abBody_spec (c : Comp σ π) (L : Limits) {Good : Board → Prop} (hl : Laws c Good) (child : Child σ)
    (hc : ABSpec c L Good child) (alpha beta : Score) (d : Int) {ply : Int} (h0 : 0 ≤ ply) (h1 : ply < 63)
    (nt : NodeType) (s : St σ) (hg : Good s.board) (hn : NodeOK s)
    (hline : LegalLine c.keys s.board (s.pv.row ply.toNat)) :
    ABPost c.keys L ply.toNat s (abBody c L child alpha beta d ply nt s).2 := by
  simp only [abBody]
  split
  · exact ⟨Frame.refl L s, fun _ _ => rfl, hline⟩
  · exact abPrune_spec c L hl child hc alpha beta d h0 h1 nt _ _ _ _ s hg hn (hashOK_probe c hn.1 s.board ply) rfl hline

theorem setNull_row_self (r : Pv.Rows) (p : Nat) : (r.setNull p).row p = [] := by simp [Pv.Rows.setNull]
theorem setNull_row_ne (r : Pv.Rows) (p q : Nat) (h : q ≠ p) : (r.setNull p).row q = r.row q := by
  simp [Pv.Rows.setNull, h]

/-- The main frame theorem: for every fuel, `alphaBeta` meets `ABSpec`. -/
theorem alphaBeta_spec (c : Comp σ π) (L : Limits) {Good : Board → Prop} (hl : Laws c Good) (fuel : Nat) :
    ABSpec c L Good (alphaBeta c L fuel) := by
  induction fuel with
  | zero =>
    intro a b d ply nt s _ _ _
    exact ⟨⟨(mono_setPv L s _).trans (mono_outOfFuel L _), rfl, rfl, rfl⟩,
      fun q hq => setNull_row_ne _ _ _ (by omega), by
        show LegalLine c.keys s.board ((s.pv.setNull ply.toNat).row ply.toNat)
        rw [setNull_row_self]; exact LegalLine.nil⟩
  | succ fuel ih =>
    intro a b d ply nt s hg hok h0
    simp only [alphaBeta]
    have hs0 : Frame L s (s.setPv (s.pv.setNull ply.toNat)) := ⟨mono_setPv L s _, rfl, rfl, rfl⟩
    have hrow0 : ∀ q, q < ply.toNat → (s.setPv (s.pv.setNull ply.toNat)).pv.row q = s.pv.row q :=
      fun q hq => setNull_row_ne _ _ _ (by omega)
    have hnil : (s.setPv (s.pv.setNull ply.toNat)).pv.row ply.toNat = [] := setNull_row_self _ _
    split
    · -- quiescence
      have := quiescence_spec c L hl (fuel + 1) a b ply (s.setPv (s.pv.setNull ply.toNat)) hg hok
      refine ⟨hs0.trans this.1, fun q hq => by rw [this.2]; exact hrow0 q hq, ?_⟩
      rw [this.2, hnil]; exact LegalLine.nil
    · next hq =>
      have h1 : ply < 63 := by simp [maxPlies] at hq; omega
      have i1 := incrementNodes_frame L (s.setPv (s.pv.setNull ply.toNat))
      have ip := incrementNodes_pv L (s.setPv (s.pv.setNull ply.toNat))
      generalize incrementNodes L (s.setPv (s.pv.setNull ply.toNat)) = s1 at i1 ip ⊢
      have hab : Frame L s1 { s1 with abNodes := s1.abNodes + 1 } := ⟨Mono.of_eq rfl rfl rfl rfl rfl rfl rfl, rfl, rfl, rfl⟩
      have a1 := abort_frame L { s1 with abNodes := s1.abNodes + 1 }
      have ap := (abort_pv L { s1 with abNodes := s1.abNodes + 1 }).1
      generalize abort L { s1 with abNodes := s1.abNodes + 1 } = as at a1 ap ⊢
      have hf : Frame L s as.2 := (hs0.trans i1).trans (hab.trans a1)
      have hpv : as.2.pv = s.pv.setNull ply.toNat := by rw [ap]; exact ip
      have hrows : ∀ q, q < ply.toNat → as.2.pv.row q = s.pv.row q := fun q hq' => by rw [hpv]; exact hrow0 q hq'
      have hline : LegalLine c.keys as.2.board (as.2.pv.row ply.toNat) := by
        rw [hpv]; show LegalLine c.keys as.2.board ((s.pv.setNull ply.toNat).row ply.toNat)
        rw [setNull_row_self]; exact LegalLine.nil
      have hline' : LegalLine c.keys s.board (as.2.pv.row ply.toNat) := by rw [← hf.board]; exact hline
      split
      · exact ⟨hf, hrows, hline'⟩
      · split
        · exact ⟨hf, hrows, hline'⟩
        · next hnd =>
          have := abBody_spec c L hl (alphaBeta c L fuel) ih a b d h0 h1 nt as.2 (by rw [hf.board]; exact hg)
            ⟨hf.mono.ps_ok hok, fifty_lt_of_not_draw hnd⟩ hline
          refine ⟨hf.trans this.1, fun q hq' => (this.2.1 q hq').trans (hrows q hq'), ?_⟩
          rw [← hf.board]; exact this.2.2

end Search
end ChessVerif
