/-
  Normal forms of `makeMove` and `undoMove`.

  The model mirrors the Go text: a long chain of destructive updates.  For reasoning we bring it into
  the shape  "placement operations applied to the original board, then all scalar fields set at once":
      makeMove K b m = makeW K b m        undoMove b m r = undoW b m r
  where the placement part of `makeW` is
      remove captured man → remove mover → add (promoted) mover → [castling: remove rook, add rook]
  and `undoW` performs the exact reverse sequence.  The equality with the model is proved by
  (i) a definitional restatement with the castling block abstracted (`rfl`), (ii) replacing the
  four-way castling `if` by the table `hop`, (iii) rewriting with the commutation rules `board_form`.
-/
import ChessVerif.Proofs.BoardBasics
import ChessVerif.Proofs.MakeUndoAttr

namespace ChessVerif.Board

/-! ### scalar setters (each is a `{ b with … }` of the model) -/

def setFM (b : Board) (x : Int) : Board := { b with fullMoves := x }
def setFC (b : Board) (f : Int) (c : Castles) : Board := { b with fifty := f, castles := c }
def setEp (b : Board) (e : Nat) : Board := { b with ep := e }
def setStm (b : Board) (c : Color) : Board := { b with stm := c }
def setHashes (b : Board) (h : List BB) : Board := { b with hashes := h }
def setCastles (b : Board) (c : Castles) : Board := { b with castles := c }
def setFifty (b : Board) (f : Int) : Board := { b with fifty := f }

@[board_form] theorem setFM_hashes (b : Board) (x) : (setFM b x).hashes = b.hashes := rfl
@[board_form] theorem setFM_fullMoves (b : Board) (x) : (setFM b x).fullMoves = x := rfl
@[board_form] theorem setFM_stm (b : Board) (x) : (setFM b x).stm = b.stm := rfl
@[board_form] theorem setFM_ep (b : Board) (x) : (setFM b x).ep = b.ep := rfl
@[board_form] theorem setFM_castles (b : Board) (x) : (setFM b x).castles = b.castles := rfl
@[board_form] theorem setFM_fifty (b : Board) (x) : (setFM b x).fifty = b.fifty := rfl
@[board_form] theorem setFM_pieceAt (b : Board) (x) (s : Nat) : (setFM b x).pieceAt s = b.pieceAt s := rfl
@[board_form] theorem setFM_pieceBB (b : Board) (x) (p : Piece) : (setFM b x).pieceBB p = b.pieceBB p := rfl
@[board_form] theorem setFM_colorBB (b : Board) (x) (c : Color) : (setFM b x).colorBB c = b.colorBB c := rfl
@[board_form] theorem setFM_sq (b : Board) (x) : (setFM b x).sq = b.sq := rfl
@[board_form] theorem setFM_pieces (b : Board) (x) : (setFM b x).pieces = b.pieces := rfl
@[board_form] theorem setFM_colors (b : Board) (x) : (setFM b x).colors = b.colors := rfl
@[board_form] theorem rem_setFM (K : Keys) (b : Board) (c : Color) (p : Piece) (s : Nat) (x) :
    (removePiece K (setFM b x) c p s).1 = setFM (removePiece K b c p s).1 x := by
  unfold removePiece; split <;> rfl
@[board_form] theorem add_setFM (K : Keys) (b : Board) (c : Color) (p : Piece) (s : Nat) (x) :
    (addPiece K (setFM b x) c p s).1 = setFM (addPiece K b c p s).1 x := by
  unfold addPiece; split <;> rfl
@[board_form] theorem setFC_hashes (b : Board) (x y) : (setFC b x y).hashes = b.hashes := rfl
@[board_form] theorem setFC_fullMoves (b : Board) (x y) : (setFC b x y).fullMoves = b.fullMoves := rfl
@[board_form] theorem setFC_stm (b : Board) (x y) : (setFC b x y).stm = b.stm := rfl
@[board_form] theorem setFC_ep (b : Board) (x y) : (setFC b x y).ep = b.ep := rfl
@[board_form] theorem setFC_castles (b : Board) (x y) : (setFC b x y).castles = y := rfl
@[board_form] theorem setFC_fifty (b : Board) (x y) : (setFC b x y).fifty = x := rfl
@[board_form] theorem setFC_pieceAt (b : Board) (x y) (s : Nat) : (setFC b x y).pieceAt s = b.pieceAt s := rfl
@[board_form] theorem setFC_pieceBB (b : Board) (x y) (p : Piece) : (setFC b x y).pieceBB p = b.pieceBB p := rfl
@[board_form] theorem setFC_colorBB (b : Board) (x y) (c : Color) : (setFC b x y).colorBB c = b.colorBB c := rfl
@[board_form] theorem setFC_sq (b : Board) (x y) : (setFC b x y).sq = b.sq := rfl
@[board_form] theorem setFC_pieces (b : Board) (x y) : (setFC b x y).pieces = b.pieces := rfl
@[board_form] theorem setFC_colors (b : Board) (x y) : (setFC b x y).colors = b.colors := rfl
@[board_form] theorem rem_setFC (K : Keys) (b : Board) (c : Color) (p : Piece) (s : Nat) (x y) :
    (removePiece K (setFC b x y) c p s).1 = setFC (removePiece K b c p s).1 x y := by
  unfold removePiece; split <;> rfl
@[board_form] theorem add_setFC (K : Keys) (b : Board) (c : Color) (p : Piece) (s : Nat) (x y) :
    (addPiece K (setFC b x y) c p s).1 = setFC (addPiece K b c p s).1 x y := by
  unfold addPiece; split <;> rfl
@[board_form] theorem setEp_hashes (b : Board) (x) : (setEp b x).hashes = b.hashes := rfl
@[board_form] theorem setEp_fullMoves (b : Board) (x) : (setEp b x).fullMoves = b.fullMoves := rfl
@[board_form] theorem setEp_stm (b : Board) (x) : (setEp b x).stm = b.stm := rfl
@[board_form] theorem setEp_ep (b : Board) (x) : (setEp b x).ep = x := rfl
@[board_form] theorem setEp_castles (b : Board) (x) : (setEp b x).castles = b.castles := rfl
@[board_form] theorem setEp_fifty (b : Board) (x) : (setEp b x).fifty = b.fifty := rfl
@[board_form] theorem setEp_pieceAt (b : Board) (x) (s : Nat) : (setEp b x).pieceAt s = b.pieceAt s := rfl
@[board_form] theorem setEp_pieceBB (b : Board) (x) (p : Piece) : (setEp b x).pieceBB p = b.pieceBB p := rfl
@[board_form] theorem setEp_colorBB (b : Board) (x) (c : Color) : (setEp b x).colorBB c = b.colorBB c := rfl
@[board_form] theorem setEp_sq (b : Board) (x) : (setEp b x).sq = b.sq := rfl
@[board_form] theorem setEp_pieces (b : Board) (x) : (setEp b x).pieces = b.pieces := rfl
@[board_form] theorem setEp_colors (b : Board) (x) : (setEp b x).colors = b.colors := rfl
@[board_form] theorem rem_setEp (K : Keys) (b : Board) (c : Color) (p : Piece) (s : Nat) (x) :
    (removePiece K (setEp b x) c p s).1 = setEp (removePiece K b c p s).1 x := by
  unfold removePiece; split <;> rfl
@[board_form] theorem add_setEp (K : Keys) (b : Board) (c : Color) (p : Piece) (s : Nat) (x) :
    (addPiece K (setEp b x) c p s).1 = setEp (addPiece K b c p s).1 x := by
  unfold addPiece; split <;> rfl
@[board_form] theorem setStm_hashes (b : Board) (x) : (setStm b x).hashes = b.hashes := rfl
@[board_form] theorem setStm_fullMoves (b : Board) (x) : (setStm b x).fullMoves = b.fullMoves := rfl
@[board_form] theorem setStm_stm (b : Board) (x) : (setStm b x).stm = x := rfl
@[board_form] theorem setStm_ep (b : Board) (x) : (setStm b x).ep = b.ep := rfl
@[board_form] theorem setStm_castles (b : Board) (x) : (setStm b x).castles = b.castles := rfl
@[board_form] theorem setStm_fifty (b : Board) (x) : (setStm b x).fifty = b.fifty := rfl
@[board_form] theorem setStm_pieceAt (b : Board) (x) (s : Nat) : (setStm b x).pieceAt s = b.pieceAt s := rfl
@[board_form] theorem setStm_pieceBB (b : Board) (x) (p : Piece) : (setStm b x).pieceBB p = b.pieceBB p := rfl
@[board_form] theorem setStm_colorBB (b : Board) (x) (c : Color) : (setStm b x).colorBB c = b.colorBB c := rfl
@[board_form] theorem setStm_sq (b : Board) (x) : (setStm b x).sq = b.sq := rfl
@[board_form] theorem setStm_pieces (b : Board) (x) : (setStm b x).pieces = b.pieces := rfl
@[board_form] theorem setStm_colors (b : Board) (x) : (setStm b x).colors = b.colors := rfl
@[board_form] theorem rem_setStm (K : Keys) (b : Board) (c : Color) (p : Piece) (s : Nat) (x) :
    (removePiece K (setStm b x) c p s).1 = setStm (removePiece K b c p s).1 x := by
  unfold removePiece; split <;> rfl
@[board_form] theorem add_setStm (K : Keys) (b : Board) (c : Color) (p : Piece) (s : Nat) (x) :
    (addPiece K (setStm b x) c p s).1 = setStm (addPiece K b c p s).1 x := by
  unfold addPiece; split <;> rfl
@[board_form] theorem setHashes_hashes (b : Board) (x) : (setHashes b x).hashes = x := rfl
@[board_form] theorem setHashes_fullMoves (b : Board) (x) : (setHashes b x).fullMoves = b.fullMoves := rfl
@[board_form] theorem setHashes_stm (b : Board) (x) : (setHashes b x).stm = b.stm := rfl
@[board_form] theorem setHashes_ep (b : Board) (x) : (setHashes b x).ep = b.ep := rfl
@[board_form] theorem setHashes_castles (b : Board) (x) : (setHashes b x).castles = b.castles := rfl
@[board_form] theorem setHashes_fifty (b : Board) (x) : (setHashes b x).fifty = b.fifty := rfl
@[board_form] theorem setHashes_pieceAt (b : Board) (x) (s : Nat) : (setHashes b x).pieceAt s = b.pieceAt s := rfl
@[board_form] theorem setHashes_pieceBB (b : Board) (x) (p : Piece) : (setHashes b x).pieceBB p = b.pieceBB p := rfl
@[board_form] theorem setHashes_colorBB (b : Board) (x) (c : Color) : (setHashes b x).colorBB c = b.colorBB c := rfl
@[board_form] theorem setHashes_sq (b : Board) (x) : (setHashes b x).sq = b.sq := rfl
@[board_form] theorem setHashes_pieces (b : Board) (x) : (setHashes b x).pieces = b.pieces := rfl
@[board_form] theorem setHashes_colors (b : Board) (x) : (setHashes b x).colors = b.colors := rfl
@[board_form] theorem rem_setHashes (K : Keys) (b : Board) (c : Color) (p : Piece) (s : Nat) (x) :
    (removePiece K (setHashes b x) c p s).1 = setHashes (removePiece K b c p s).1 x := by
  unfold removePiece; split <;> rfl
@[board_form] theorem add_setHashes (K : Keys) (b : Board) (c : Color) (p : Piece) (s : Nat) (x) :
    (addPiece K (setHashes b x) c p s).1 = setHashes (addPiece K b c p s).1 x := by
  unfold addPiece; split <;> rfl
@[board_form] theorem setCastles_hashes (b : Board) (x) : (setCastles b x).hashes = b.hashes := rfl
@[board_form] theorem setCastles_fullMoves (b : Board) (x) : (setCastles b x).fullMoves = b.fullMoves := rfl
@[board_form] theorem setCastles_stm (b : Board) (x) : (setCastles b x).stm = b.stm := rfl
@[board_form] theorem setCastles_ep (b : Board) (x) : (setCastles b x).ep = b.ep := rfl
@[board_form] theorem setCastles_castles (b : Board) (x) : (setCastles b x).castles = x := rfl
@[board_form] theorem setCastles_fifty (b : Board) (x) : (setCastles b x).fifty = b.fifty := rfl
@[board_form] theorem setCastles_pieceAt (b : Board) (x) (s : Nat) : (setCastles b x).pieceAt s = b.pieceAt s := rfl
@[board_form] theorem setCastles_pieceBB (b : Board) (x) (p : Piece) : (setCastles b x).pieceBB p = b.pieceBB p := rfl
@[board_form] theorem setCastles_colorBB (b : Board) (x) (c : Color) : (setCastles b x).colorBB c = b.colorBB c := rfl
@[board_form] theorem setCastles_sq (b : Board) (x) : (setCastles b x).sq = b.sq := rfl
@[board_form] theorem setCastles_pieces (b : Board) (x) : (setCastles b x).pieces = b.pieces := rfl
@[board_form] theorem setCastles_colors (b : Board) (x) : (setCastles b x).colors = b.colors := rfl
@[board_form] theorem rem_setCastles (K : Keys) (b : Board) (c : Color) (p : Piece) (s : Nat) (x) :
    (removePiece K (setCastles b x) c p s).1 = setCastles (removePiece K b c p s).1 x := by
  unfold removePiece; split <;> rfl
@[board_form] theorem add_setCastles (K : Keys) (b : Board) (c : Color) (p : Piece) (s : Nat) (x) :
    (addPiece K (setCastles b x) c p s).1 = setCastles (addPiece K b c p s).1 x := by
  unfold addPiece; split <;> rfl
@[board_form] theorem setFifty_hashes (b : Board) (x) : (setFifty b x).hashes = b.hashes := rfl
@[board_form] theorem setFifty_fullMoves (b : Board) (x) : (setFifty b x).fullMoves = b.fullMoves := rfl
@[board_form] theorem setFifty_stm (b : Board) (x) : (setFifty b x).stm = b.stm := rfl
@[board_form] theorem setFifty_ep (b : Board) (x) : (setFifty b x).ep = b.ep := rfl
@[board_form] theorem setFifty_castles (b : Board) (x) : (setFifty b x).castles = b.castles := rfl
@[board_form] theorem setFifty_fifty (b : Board) (x) : (setFifty b x).fifty = x := rfl
@[board_form] theorem setFifty_pieceAt (b : Board) (x) (s : Nat) : (setFifty b x).pieceAt s = b.pieceAt s := rfl
@[board_form] theorem setFifty_pieceBB (b : Board) (x) (p : Piece) : (setFifty b x).pieceBB p = b.pieceBB p := rfl
@[board_form] theorem setFifty_colorBB (b : Board) (x) (c : Color) : (setFifty b x).colorBB c = b.colorBB c := rfl
@[board_form] theorem setFifty_sq (b : Board) (x) : (setFifty b x).sq = b.sq := rfl
@[board_form] theorem setFifty_pieces (b : Board) (x) : (setFifty b x).pieces = b.pieces := rfl
@[board_form] theorem setFifty_colors (b : Board) (x) : (setFifty b x).colors = b.colors := rfl
@[board_form] theorem rem_setFifty (K : Keys) (b : Board) (c : Color) (p : Piece) (s : Nat) (x) :
    (removePiece K (setFifty b x) c p s).1 = setFifty (removePiece K b c p s).1 x := by
  unfold removePiece; split <;> rfl
@[board_form] theorem add_setFifty (K : Keys) (b : Board) (c : Color) (p : Piece) (s : Nat) (x) :
    (addPiece K (setFifty b x) c p s).1 = setFifty (addPiece K b c p s).1 x := by
  unfold addPiece; split <;> rfl

/-! ### scalar reads through the placement operations -/

section rules
variable (K : Keys) (b : Board) (c : Color) (p : Piece) (s : Nat)

/-- the Zobrist key of a man (0 for "no piece"): the hash delta of `addPiece` / `removePiece`. -/
def pkey (K : Keys) (c : Color) (p : Piece) (s : Nat) : BB := if p = .none then 0 else K.piece c.toNat p.toNat s

@[board_form] theorem removePiece_snd : (removePiece K b c p s).2 = pkey K c p s := removePiece_delta K b c p s
@[board_form] theorem addPiece_snd : (addPiece K b c p s).2 = pkey K c p s := addPiece_delta K b c p s

@[board_form] theorem rem_stm : (removePiece K b c p s).1.stm = b.stm := (removePiece_scalars K b c p s).2.2.1
@[board_form] theorem rem_ep : (removePiece K b c p s).1.ep = b.ep := (removePiece_scalars K b c p s).2.2.2.1
@[board_form] theorem rem_hashes : (removePiece K b c p s).1.hashes = b.hashes := (removePiece_scalars K b c p s).1
@[board_form] theorem rem_castles : (removePiece K b c p s).1.castles = b.castles := (removePiece_scalars K b c p s).2.2.2.2.1
@[board_form] theorem rem_fifty : (removePiece K b c p s).1.fifty = b.fifty := (removePiece_scalars K b c p s).2.2.2.2.2
@[board_form] theorem rem_fullMoves : (removePiece K b c p s).1.fullMoves = b.fullMoves := (removePiece_scalars K b c p s).2.1
@[board_form] theorem add_stm : (addPiece K b c p s).1.stm = b.stm := (addPiece_scalars K b c p s).2.2.1
@[board_form] theorem add_ep : (addPiece K b c p s).1.ep = b.ep := (addPiece_scalars K b c p s).2.2.2.1
@[board_form] theorem add_hashes : (addPiece K b c p s).1.hashes = b.hashes := (addPiece_scalars K b c p s).1
@[board_form] theorem add_castles : (addPiece K b c p s).1.castles = b.castles := (addPiece_scalars K b c p s).2.2.2.2.1
@[board_form] theorem add_fifty : (addPiece K b c p s).1.fifty = b.fifty := (addPiece_scalars K b c p s).2.2.2.2.2
@[board_form] theorem add_fullMoves : (addPiece K b c p s).1.fullMoves = b.fullMoves := (addPiece_scalars K b c p s).2.1
end rules

@[board_form] theorem setFM_hash (b : Board) (x) : (setFM b x).hash = b.hash := rfl
@[board_form] theorem setFM_captureSq (b : Board) (x m) : (setFM b x).captureSq m = b.captureSq m := rfl
@[board_form] theorem setFM_newCastles (b : Board) (x m) : (setFM b x).newCastles m = b.newCastles m := rfl
@[board_form] theorem setFM_canEnPassant (b : Board) (x d) : (setFM b x).canEnPassant d = b.canEnPassant d := rfl

/-! ### the castling block -/

/-- the rook relocation `(from, to)` that accompanies a king move `e1g1 / e1c1 / e8g8 / e8c8`
    (the code looks only at the moving piece kind and the two squares). -/
def hop (piece : Piece) (m : Move) : Option (Nat × Nat) :=
  if piece = .king then
    if Move.src m = 4 ∧ Move.dst m = 6 then some (7, 5)
    else if Move.src m = 4 ∧ Move.dst m = 2 then some (0, 3)
    else if Move.src m = 60 ∧ Move.dst m = 62 then some (63, 61)
    else if Move.src m = 60 ∧ Move.dst m = 58 then some (56, 59)
    else none
  else none

/-- the rook's part of a castling move. -/
def doHop (K : Keys) (b : Board) (c : Color) : Option (Nat × Nat) → Board
  | none => b
  | some (rf, rt) => (addPiece K (removePiece K b c .rook rf).1 c .rook rt).1

/-- … and its reversal. -/
def undoHop (b : Board) (c : Color) : Option (Nat × Nat) → Board
  | none => b
  | some (rf, rt) => (addPiece zeroKeys (removePiece zeroKeys b c .rook rt).1 c .rook rf).1

def hopKey (K : Keys) (c : Color) : Option (Nat × Nat) → BB
  | none => 0
  | some (rf, rt) => pkey K c .rook rf ^^^ pkey K c .rook rt

section hops
variable (K : Keys) (b : Board) (c : Color) (h : Option (Nat × Nat))
@[board_form] theorem doHop_setEp (x) : doHop K (setEp b x) c h = setEp (doHop K b c h) x := by
  cases h with
  | none => rfl
  | some v => obtain ⟨rf, rt⟩ := v; simp only [doHop, board_form]
@[board_form] theorem doHop_setFM (x) : doHop K (setFM b x) c h = setFM (doHop K b c h) x := by
  cases h with
  | none => rfl
  | some v => obtain ⟨rf, rt⟩ := v; simp only [doHop, board_form]
@[board_form] theorem doHop_setFC (x y) : doHop K (setFC b x y) c h = setFC (doHop K b c h) x y := by
  cases h with
  | none => rfl
  | some v => obtain ⟨rf, rt⟩ := v; simp only [doHop, board_form]
@[board_form] theorem doHop_stm : (doHop K b c h).stm = b.stm := by
  cases h with
  | none => rfl
  | some v => obtain ⟨rf, rt⟩ := v; simp only [doHop, board_form]
@[board_form] theorem doHop_hashes : (doHop K b c h).hashes = b.hashes := by
  cases h with
  | none => rfl
  | some v => obtain ⟨rf, rt⟩ := v; simp only [doHop, board_form]
@[board_form] theorem undoHop_setHashes (x) : undoHop (setHashes b x) c h = setHashes (undoHop b c h) x := by
  cases h with
  | none => rfl
  | some v => obtain ⟨rf, rt⟩ := v; simp only [undoHop, board_form]
@[board_form] theorem undoHop_setStm (x) : undoHop (setStm b x) c h = setStm (undoHop b c h) x := by
  cases h with
  | none => rfl
  | some v => obtain ⟨rf, rt⟩ := v; simp only [undoHop, board_form]
@[board_form] theorem undoHop_stm : (undoHop b c h).stm = b.stm := by
  cases h with
  | none => rfl
  | some v => obtain ⟨rf, rt⟩ := v; simp only [undoHop, board_form]
@[board_form] theorem undoHop_ep : (undoHop b c h).ep = b.ep := by
  cases h with
  | none => rfl
  | some v => obtain ⟨rf, rt⟩ := v; simp only [undoHop, board_form]
@[board_form] theorem undoHop_castles : (undoHop b c h).castles = b.castles := by
  cases h with
  | none => rfl
  | some v => obtain ⟨rf, rt⟩ := v; simp only [undoHop, board_form]
@[board_form] theorem undoHop_fullMoves : (undoHop b c h).fullMoves = b.fullMoves := by
  cases h with
  | none => rfl
  | some v => obtain ⟨rf, rt⟩ := v; simp only [undoHop, board_form]
end hops

/-! ### `makeMove` -/

/-- `makeMove`, the model text with the castling block abstracted (setters and projections instead of
    record updates and pattern lets; definitionally the same term). -/
def makeP (blk : Board → BB → Piece → Board × BB) (K : Keys) (b0 : Board) (m : Move) : Board × Reverse :=
  let r : Reverse := 0
  let b := setFM b0 (b0.fullMoves + b0.stm.toNat)
  let hash := b.hash
  let piece := b.pieceAt (Move.src m)
  let diff := if (Move.src m) ≥ (Move.dst m) then (Move.src m) - (Move.dst m) else (Move.dst m) - (Move.src m)
  let canEP := piece = Piece.pawn && diff == 16 && b.canEnPassant (Move.dst m)
  let capSq := b.captureSq m
  let capture := b.pieceAt capSq
  let castlingChange := b.castles ^^^ b.newCastles m
  let r := r.setFiftyCnt b.fifty
  let fifty' : Int := if piece = Piece.pawn ∨ capture ≠ Piece.none then 0 else wrapS8 (b.fifty + 1)
  let hash := hash ^^^ hashEnable (castlingChange.getLsbD 0) (K.castling 0)
  let hash := hash ^^^ hashEnable (castlingChange.getLsbD 1) (K.castling 1)
  let hash := hash ^^^ hashEnable (castlingChange.getLsbD 2) (K.castling 2)
  let hash := hash ^^^ hashEnable (castlingChange.getLsbD 3) (K.castling 3)
  let b := setFC b fifty' (b.castles ^^^ castlingChange)
  let r := r.setCastlingChange castlingChange
  let r := r.setCapture capture
  let putPiece := if (Move.promo m) ≠ 0 then Piece.ofIx (Move.promo m) else piece
  let x1 := b.removePiece K b.stm.flip capture capSq
  let hash := hash ^^^ x1.2
  let x2 := x1.1.removePiece K x1.1.stm piece (Move.src m)
  let hash := hash ^^^ x2.2
  let x3 := x2.1.addPiece K x2.1.stm putPiece (Move.dst m)
  let hash := hash ^^^ x3.2
  let b := x3.1
  let hash := if b.ep ≠ 0 then hash ^^^ K.epFile (b.ep % 8) else hash
  let newEP := if canEP then ((Move.src m) + (Move.dst m)) / 2 else 0
  let hash := if canEP then hash ^^^ K.epFile (newEP % 8) else hash
  let r := r.setEnPassantChange (b.ep ^^^ newEP)
  let b := setEp b newEP
  let x5 := blk b hash piece
  let b := x5.1
  let hash := x5.2
  let b := setStm b b.stm.flip
  let hash := hash ^^^ K.stm
  (setHashes b (hash :: b.hashes), r)

/-- the castling block exactly as in the model. -/
def modelBlk (K : Keys) (m : Move) (b : Board) (hash : BB) (piece : Piece) : Board × BB :=
  let castleRook (b : Board) (hash : BB) (rf rt : Nat) : Board × BB :=
    let (b, d1) := b.removePiece K b.stm Piece.rook rf
    let (b, d2) := b.addPiece K b.stm Piece.rook rt
    (b, hash ^^^ d1 ^^^ d2)
  if piece = Piece.king then
    if (Move.src m) = 4 ∧ (Move.dst m) = 6 then castleRook b hash 7 5
    else if (Move.src m) = 4 ∧ (Move.dst m) = 2 then castleRook b hash 0 3
    else if (Move.src m) = 60 ∧ (Move.dst m) = 62 then castleRook b hash 63 61
    else if (Move.src m) = 60 ∧ (Move.dst m) = 58 then castleRook b hash 56 59
    else (b, hash)
  else (b, hash)

theorem makeMove_eq_makeP (K : Keys) (b0 : Board) (m : Move) :
    makeMove K b0 m = makeP (modelBlk K m) K b0 m := rfl

def hopBlk (K : Keys) (m : Move) (b : Board) (hash : BB) (piece : Piece) : Board × BB :=
  (doHop K b b.stm (hop piece m), hash ^^^ hopKey K b.stm (hop piece m))

theorem modelBlk_eq (K : Keys) (m : Move) : modelBlk K m = hopBlk K m := by
  funext b hash piece
  unfold modelBlk hopBlk hop
  split
  · split
    · simp [doHop, hopKey, BitVec.xor_assoc, board_form]
    · split
      · simp [doHop, hopKey, BitVec.xor_assoc, board_form]
      · split
        · simp [doHop, hopKey, BitVec.xor_assoc, board_form]
        · split
          · simp [doHop, hopKey, BitVec.xor_assoc, board_form]
          · simp [doHop, hopKey]
  · simp [doHop, hopKey]

/-- the piece put on the destination square. -/
def mvPut (b : Board) (m : Move) : Piece :=
  if Move.promo m ≠ 0 then Piece.ofIx (Move.promo m) else b.pieceAt (Move.src m)

/-- does the engine record a new en-passant square? -/
def mvCanEP (b : Board) (m : Move) : Bool :=
  let piece := b.pieceAt (Move.src m)
  let diff := if (Move.src m) ≥ (Move.dst m) then (Move.src m) - (Move.dst m) else (Move.dst m) - (Move.src m)
  piece = Piece.pawn && diff == 16 && b.canEnPassant (Move.dst m)

/-- the new en-passant square. -/
def mvNewEP (b : Board) (m : Move) : Nat := if mvCanEP b m then ((Move.src m) + (Move.dst m)) / 2 else 0

/-- the hash `makeMove` appends to the history. -/
def mvHash (K : Keys) (b : Board) (m : Move) : BB :=
  let c := b.stm
  let cc := b.castles ^^^ b.newCastles m
  let h := b.hash ^^^ hashEnable (cc.getLsbD 0) (K.castling 0) ^^^ hashEnable (cc.getLsbD 1) (K.castling 1)
    ^^^ hashEnable (cc.getLsbD 2) (K.castling 2) ^^^ hashEnable (cc.getLsbD 3) (K.castling 3)
    ^^^ pkey K c.flip (b.pieceAt (b.captureSq m)) (b.captureSq m) ^^^ pkey K c (b.pieceAt (Move.src m)) (Move.src m)
    ^^^ pkey K c (mvPut b m) (Move.dst m)
  let h := if b.ep ≠ 0 then h ^^^ K.epFile (b.ep % 8) else h
  let h := if mvCanEP b m then h ^^^ K.epFile (mvNewEP b m % 8) else h
  h ^^^ hopKey K c (hop (b.pieceAt (Move.src m)) m) ^^^ K.stm

/-- normal form of `makeMove`. -/
def makeW (K : Keys) (b : Board) (m : Move) : Board × Reverse :=
  let c := b.stm
  let piece := b.pieceAt (Move.src m)
  let capSq := b.captureSq m
  let cap := b.pieceAt capSq
  let cc := b.castles ^^^ b.newCastles m
  let fifty' : Int := if piece = Piece.pawn ∨ cap ≠ Piece.none then 0 else wrapS8 (b.fifty + 1)
  let B1 := (removePiece K b c.flip cap capSq).1
  let B2 := (removePiece K B1 c piece (Move.src m)).1
  let B3 := (addPiece K B2 c (mvPut b m) (Move.dst m)).1
  let B5 := doHop K B3 c (hop piece m)
  (setHashes (setStm (setEp (setFC (setFM B5 (b.fullMoves + c.toNat)) fifty' (b.castles ^^^ cc)) (mvNewEP b m)) c.flip)
     (mvHash K b m :: b.hashes),
   (((Reverse.setFiftyCnt 0 b.fifty).setCastlingChange cc).setCapture cap).setEnPassantChange (b.ep ^^^ mvNewEP b m))

theorem makeMove_eq (K : Keys) (b : Board) (m : Move) : makeMove K b m = makeW K b m := by
  rw [makeMove_eq_makeP, modelBlk_eq]
  simp only [makeP, hopBlk, makeW, mvHash, mvNewEP, mvCanEP, mvPut, board_form]
  rfl

/-! ### `undoMove` -/

/-- `CaptureSq` as a function of the two things it reads. -/
def capSqOf (ep : Nat) (pc : Piece) (m : Move) : Nat :=
  if (ep != 0 && ep == (Move.dst m) && pc == Piece.pawn) then ((Move.dst m) % 8) + 8 * ((Move.src m) / 8) else (Move.dst m)

theorem captureSq_eq (b : Board) (m : Move) : b.captureSq m = capSqOf b.ep (b.pieceAt (Move.src m)) m := rfl

/-- `undoMove` with the un-castling block abstracted. -/
def undoP (ublk : Board → Piece → Board) (b : Board) (m : Move) (r : Reverse) : Board :=
  let b := setHashes b b.hashes.tail
  let b := setStm b b.stm.flip
  let rmPiece := b.pieceAt (Move.dst m)
  let piece := if (Move.promo m) ≠ 0 then Piece.pawn else rmPiece
  let b := ublk b piece
  let b := setEp b (b.ep ^^^ r.enPassantChange)
  let b := (b.removePiece zeroKeys b.stm rmPiece (Move.dst m)).1
  let b := (b.addPiece zeroKeys b.stm piece (Move.src m)).1
  let b := (b.addPiece zeroKeys b.stm.flip r.capture (capSqOf b.ep (b.pieceAt (Move.src m)) m)).1
  let b := setCastles b (b.castles ^^^ r.castlingChange)
  let b := setFifty b r.fiftyCnt
  setFM b (b.fullMoves - b.stm.toNat)

def modelUBlk (m : Move) (b : Board) (piece : Piece) : Board :=
  let uncastle (b : Board) (rf rt : Nat) : Board :=
    let b := (b.removePiece zeroKeys b.stm Piece.rook rf).1
    (b.addPiece zeroKeys b.stm Piece.rook rt).1
  if piece = Piece.king then
    if (Move.src m) = 4 ∧ (Move.dst m) = 6 then uncastle b 5 7
    else if (Move.src m) = 4 ∧ (Move.dst m) = 2 then uncastle b 3 0
    else if (Move.src m) = 60 ∧ (Move.dst m) = 62 then uncastle b 61 63
    else if (Move.src m) = 60 ∧ (Move.dst m) = 58 then uncastle b 59 56
    else b
  else b

theorem undoMove_eq_undoP (b : Board) (m : Move) (r : Reverse) :
    undoMove b m r = undoP (modelUBlk m) b m r := rfl

theorem modelUBlk_eq (m : Move) : modelUBlk m = fun b piece => undoHop b b.stm (hop piece m) := by
  funext b piece
  unfold modelUBlk hop
  split
  · split
    · simp [undoHop, board_form]
    · split
      · simp [undoHop, board_form]
      · split
        · simp [undoHop, board_form]
        · split
          · simp [undoHop, board_form]
          · simp [undoHop]
  · simp [undoHop]

/-- normal form of `undoMove`: the reverse sequence of placement operations. -/
def undoW (b : Board) (m : Move) (r : Reverse) : Board :=
  let c := b.stm.flip
  let rm := b.pieceAt (Move.dst m)
  let piece := if (Move.promo m) ≠ 0 then Piece.pawn else rm
  let ep' := b.ep ^^^ r.enPassantChange
  let U1 := undoHop b c (hop piece m)
  let U2 := (removePiece zeroKeys U1 c rm (Move.dst m)).1
  let U3 := (addPiece zeroKeys U2 c piece (Move.src m)).1
  let U4 := (addPiece zeroKeys U3 c.flip r.capture (capSqOf ep' (U3.pieceAt (Move.src m)) m)).1
  setFM (setFifty (setCastles (setEp (setStm (setHashes U4 b.hashes.tail) c) ep') (b.castles ^^^ r.castlingChange))
    r.fiftyCnt) (b.fullMoves - c.toNat)

theorem undoMove_eq (b : Board) (m : Move) (r : Reverse) : undoMove b m r = undoW b m r := by
  rw [undoMove_eq_undoP, modelUBlk_eq]
  simp only [undoP, undoW, board_form]

end ChessVerif.Board
