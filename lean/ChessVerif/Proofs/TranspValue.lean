/-
  C15 helper lemmas, part 2: mate re-basing (`Insert` adds the storing ply, `Value` subtracts the
  probing ply), depth/type packing, quality.
-/
import ChessVerif.Model.Transp
import ChessVerif.Spec.AbstractTT

namespace ChessVerif.Model.Transp
open ChessVerif
open ChessVerif.Spec.AbstractTT (mateThreshold rebased)

/-- The four threshold literals of `Insert` and `Value` are `±(Inf - MaxPlies)`. -/
theorem thresholds_eq :
    Gen.Transp.insertHiThreshold = mateThreshold ∧ Gen.Transp.insertLoThreshold = -mateThreshold ∧
    Gen.Transp.valueHiThreshold = mateThreshold ∧ Gen.Transp.valueLoThreshold = -mateThreshold := by
  decide

/-- What `Insert` stores, when nothing wraps: mate scores are made relative to the root. -/
theorem storedValue_eq (v p : Int) (hv : -32640 ≤ v ∧ v ≤ 32640) (hp : 0 ≤ p ∧ p ≤ 127) :
    storedValue v p =
      if v > mateThreshold then v + p else if v < -mateThreshold then v - p else v := by
  unfold storedValue wrapS16 mateThreshold
  simp only [Gen.Transp.insertLoThreshold, Gen.Transp.insertHiThreshold, Gen.Transp.inf,
    Gen.Transp.maxPlies]
  grind

/-- The stored score is a mate score exactly when the given score is one (needs `p ≥ 0`: the
    re-based values move away from the thresholds, never across them). -/
theorem storedValue_mate_iff (v p : Int) (hv : -32640 ≤ v ∧ v ≤ 32640) (hp : 0 ≤ p ∧ p ≤ 127) :
    (storedValue v p > mateThreshold ↔ v > mateThreshold) ∧
    (storedValue v p < -mateThreshold ↔ v < -mateThreshold) := by
  rw [storedValue_eq v p hv hp]
  unfold mateThreshold
  simp only [Gen.Transp.inf, Gen.Transp.maxPlies]
  constructor <;> grind

/-- **value_rebase**: a score `v` stored at ply `p` and read at ply `q` comes back as
    `v + p - q` (mate for the side to move, `v > Inf-MaxPlies`), `v - p + q` (`v < -(Inf-MaxPlies)`),
    `v` otherwise; no int16 wrap-around happens for `|v| ≤ 32640` and plies in `[0,127]`
    (a fortiori for `|v| ≤ Inf + MaxPlies` and plies `≤ 64`). -/
theorem value_rebase (mv : BitVec 16) (pk g : BitVec 8) (v p q : Int)
    (hv : -32640 ≤ v ∧ v ≤ 32640) (hp : 0 ≤ p ∧ p ≤ 127) (hq : 0 ≤ q ∧ q ≤ 127) :
    ({ move := mv, value := storedValue v p, packed := pk, gen := g } : Entry).valueAt q
      = rebased v p q := by
  rw [Entry.valueAt]
  simp only [storedValue_eq v p hv hp]
  unfold rebased wrapS16 mateThreshold
  simp only [Gen.Transp.valueLoThreshold, Gen.Transp.valueHiThreshold, Gen.Transp.inf,
    Gen.Transp.maxPlies]
  grind

/-- Boundary remark: `chess.Score.IsMate` is `|s| ≥ Inf-MaxPlies`, the table re-bases only
    `|s| > Inf-MaxPlies`.  The score `±(Inf-MaxPlies)` (a mate exactly `MaxPlies` plies from the
    root) is therefore returned unchanged at every ply. -/
theorem value_rebase_boundary (p q : Int) :
    rebased mateThreshold p q = mateThreshold ∧ rebased (-mateThreshold) p q = -mateThreshold := by
  unfold rebased mateThreshold
  simp only [Gen.Transp.inf, Gen.Transp.maxPlies]
  constructor <;> grind

/-- In the engine's range (`|v| ≤ Inf`, plies `≤ MaxPlies`, and a mate score never claims a mate
    closer than the current ply: `|v| + p ≤ Inf`) the stored score stays within `±Inf`. -/
theorem storedValue_range (v p : Int) (hp : 0 ≤ p ∧ p ≤ 64)
    (hv : -Gen.Transp.inf ≤ v ∧ v ≤ Gen.Transp.inf)
    (hm : v > mateThreshold → v + p ≤ Gen.Transp.inf) (hm' : v < -mateThreshold → -Gen.Transp.inf ≤ v - p) :
    -Gen.Transp.inf ≤ storedValue v p ∧ storedValue v p ≤ Gen.Transp.inf := by
  simp only [Gen.Transp.inf] at hv hm hm' ⊢
  rw [storedValue_eq v p (by omega) (by omega)]
  revert hm hm'
  unfold mateThreshold
  simp only [Gen.Transp.inf, Gen.Transp.maxPlies]
  intro hm hm'
  grind

/-! ### packing of depth and bound type -/

theorem pack_depth_typ (d : Int) (typ : BitVec 8) (hd : 0 ≤ d ∧ d ≤ 63) (ht : typ.toNat ≤ 3)
    (mv : BitVec 16) (v : Int) (g : BitVec 8) :
    ({ move := mv, value := v, packed := pack d typ, gen := g } : Entry).depth = d ∧
    ({ move := mv, value := v, packed := pack d typ, gen := g } : Entry).typ = typ := by
  obtain ⟨n, rfl⟩ : ∃ n : Nat, d = n := ⟨d.toNat, by omega⟩
  have hn : n < 64 := by omega
  have key : ∀ (n : Fin 64) (t : Fin 4),
      ({ move := mv, value := v, packed := pack (n.val : Int) (BitVec.ofNat 8 t.val), gen := g } : Entry).depth
        = (n.val : Int) ∧
      ({ move := mv, value := v, packed := pack (n.val : Int) (BitVec.ofNat 8 t.val), gen := g } : Entry).typ
        = BitVec.ofNat 8 t.val := by
    simp only [Entry.depth, Entry.typ]
    decide
  have ht' : typ = BitVec.ofNat 8 typ.toNat := by simp
  have := key ⟨n, hn⟩ ⟨typ.toNat, by omega⟩
  rw [← ht'] at this
  exact this

theorem depth_range (e : Entry) : 0 ≤ e.depth ∧ e.depth ≤ 63 := by
  have h : (e.packed >>> 2).toNat < 64 := by
    rw [BitVec.toNat_ushiftRight, Nat.shiftRight_eq_div_pow]
    have := e.packed.isLt
    omega
  have e2 : Gen.Transp.packedDepthShift.toNat = 2 := by decide
  unfold Entry.depth wrapS8
  rw [e2]
  omega

theorem zero_depth : Entry.zero.depth = 0 := by decide
theorem zero_typ : Entry.zero.typ = 0 := by decide

end ChessVerif.Model.Transp
