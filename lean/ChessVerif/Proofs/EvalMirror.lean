/-
  C17: `evalCore o cs (mirrorInput i) = evalCore o cs i` for every coefficient set and every score
  arithmetic with commutative, associative `+`; and the hypothesis `GoodInput` follows from `Board.valid`.
-/
import ChessVerif.Proofs.EvalMirrorLoop
import ChessVerif.Proofs.BridgeAbs

namespace ChessVerif.Eval
open ChessVerif

variable {S : Type} {o : Ops S} (cs : CoeffSet S) (i : EvalInput)

/-! ### the material tests and the phase -/

/-- the arithmetic of `insufficientMat` on the four minor-piece counts. -/
def insuffCore (wN bN wB bB : Int) : Bool :=
  if wN + bN + wB + bB ≤ 3 then
    if max (wN + 3 * wB - (bN + 3 * bB)) (bN + 3 * bB - (wN + 3 * wB)) ≤ 3 then true else false
  else false

theorem insuffCore_swap (wN bN wB bB : Int) : insuffCore bN wN bB wB = insuffCore wN bN wB bB := by
  unfold insuffCore
  rw [show bN + wN + bB + wB = wN + bN + wB + bB by omega, Int.max_comm]

theorem insufficientMat_eq : insufficientMat i =
    (if i.pc .pawn ||| i.pc .queen ||| i.pc .rook != 0 then false else
      insuffCore (popcount (i.col .white &&& i.pc .knight)) (popcount (i.col .black &&& i.pc .knight))
        (popcount (i.col .white &&& i.pc .bishop)) (popcount (i.col .black &&& i.pc .bishop))) := rfl

theorem insufficientMat_mirror : insufficientMat (mirrorInput i) = insufficientMat i := by
  rw [insufficientMat_eq, insufficientMat_eq]
  simp only [pc_mirror, col_mirror, ← flipBB_or, ← flipBB_and, flip_bne_zero, popcount_flip, Color.flip]
  rw [insuffCore_swap]

theorem knbvk_mirror : knbvk (mirrorInput i) = knbvk i := by
  unfold knbvk
  simp only [pc_mirror, col_mirror, ← flipBB_or, ← flipBB_and, flip_beq_zero, isPow2_flip, Color.flip]
  rw [Bool.or_comm]

theorem phaseSum_mirror : phaseSum (mirrorInput i) = phaseSum i := by
  unfold phaseSum
  congr 1
  funext acc p
  rw [popcount_own_mirror, popcount_own_mirror]
  simp only [Color.flip]
  rw [Int.add_comm (popcount (i.own .black p) : Int)]

/-! ### knight + bishop mate -/

/-- every piece of a kind belongs to one of the two colour sets. -/
def Coloured (i : EvalInput) : Prop := ∀ p, p ≠ Piece.none → i.pc p = i.own .white p ||| i.own .black p

/-- the hypothesis of the symmetry theorem on the projection (both follow from `Board.valid`). -/
def GoodInput (i : EvalInput) : Prop := OneKing i ∧ Coloured i

def cornerDistOf (bishopSq victimKSq : Nat) : Int :=
  let parity := ((bishopSq &&& 7) + ((bishopSq >>> 3) &&& 7)) &&& 1
  let cornerDist := min (cheb victimKSq (kbCorner parity 0)) (cheb victimKSq (kbCorner parity 1))
  let cornerDist := 7 - cornerDist
  cornerDist * cornerDist

theorem knbCornerDist_eq : knbCornerDist i =
    cornerDistOf (lowestSet (i.pc .bishop)) (lowestSet (i.pc .king &&& i.col (knbVictim i))) := rfl

def parityOf (bishopSq : Nat) : Nat := ((bishopSq &&& 7) + ((bishopSq >>> 3) &&& 7)) &&& 1

def cornerDistP (parity victimKSq : Nat) : Int :=
  let cornerDist := min (cheb victimKSq (kbCorner parity 0)) (cheb victimKSq (kbCorner parity 1))
  let cornerDist := 7 - cornerDist
  cornerDist * cornerDist

theorem cornerDistOf_eq (b v : Nat) : cornerDistOf b v = cornerDistP (parityOf b) v := rfl

theorem parityOf_flip_fin : ∀ b : Fin 64, parityOf (b.val ^^^ 56) = 1 - parityOf b.val ∧ parityOf b.val ≤ 1 := by
  decide

theorem cornerDistP_flip_fin : ∀ (par : Fin 2) (v : Fin 64),
    cornerDistP (1 - par.val) (v.val ^^^ 56) = cornerDistP par.val v.val := by decide +kernel

theorem cornerDistOf_flip_fin (b v : Fin 64) :
    cornerDistOf (b.val ^^^ 56) (v.val ^^^ 56) = cornerDistOf b.val v.val := by
  obtain ⟨h1, h2⟩ := parityOf_flip_fin b
  rw [cornerDistOf_eq, cornerDistOf_eq, h1]
  exact cornerDistP_flip_fin ⟨parityOf b.val, by omega⟩ v

theorem or_eq_zero_right {x y : BB} (h : x ||| y = 0) : y = 0 := by
  apply BitVec.eq_of_getLsbD_eq; intro j _
  have := congrArg (·.getLsbD j) h
  have hz : (0 : BB).getLsbD j = false := by simp
  simp only [BitVec.getLsbD_or, hz, Bool.or_eq_false_iff] at this
  rw [hz]; exact this.2

theorem or_eq_zero_left {x y : BB} (h : x ||| y = 0) : x = 0 := by
  rw [BitVec.or_comm] at h; exact or_eq_zero_right h

/-- in the KNB v K case: who is the victim, and the bishop and knight sets are single squares. -/
theorem knbvk_facts (hc : Coloured i) (h : knbvk i = true) :
    isPow2 (i.pc .bishop) = true ∧ isPow2 (i.pc .knight) = true ∧
    ((i.own .white .bishop ≠ 0 ∧ i.own .black .bishop = 0) ∨ (i.own .white .bishop = 0 ∧ i.own .black .bishop ≠ 0)) := by
  unfold knbvk at h
  simp only [Bool.and_eq_true, Bool.or_eq_true, beq_iff_eq] at h
  obtain ⟨_, h | h⟩ := h
  · obtain ⟨⟨hn, hb⟩, hz⟩ := h
    have hbn := or_eq_zero_left hz
    have hbb := or_eq_zero_right hz
    have e1 : i.pc .bishop = i.pc .bishop &&& i.col .white := by
      have := hc .bishop (by decide); simp only [EvalInput.own, hbb] at this; simpa using this
    have e2 : i.pc .knight = i.pc .knight &&& i.col .white := by
      have := hc .knight (by decide); simp only [EvalInput.own, hbn] at this; simpa using this
    refine ⟨by rw [e1]; exact hb, by rw [e2]; exact hn, Or.inl ⟨?_, hbb⟩⟩
    intro h0
    obtain ⟨s, hs, hbs⟩ := (isPow2_iff _).mp hb
    exact bit_ne_zero s hs (by rw [← hbs]; exact h0)
  · obtain ⟨⟨hn, hb⟩, hz⟩ := h
    have hwn := or_eq_zero_left hz
    have hwb := or_eq_zero_right hz
    have e1 : i.pc .bishop = i.pc .bishop &&& i.col .black := by
      have := hc .bishop (by decide); simp only [EvalInput.own, hwb] at this; simpa using this
    have e2 : i.pc .knight = i.pc .knight &&& i.col .black := by
      have := hc .knight (by decide); simp only [EvalInput.own, hwn] at this; simpa using this
    refine ⟨by rw [e1]; exact hb, by rw [e2]; exact hn, Or.inr ⟨hwb, ?_⟩⟩
    intro h0
    obtain ⟨s, hs, hbs⟩ := (isPow2_iff _).mp hb
    exact bit_ne_zero s hs (by rw [← hbs]; exact h0)

theorem knbVictim_mirror (hc : Coloured i) (h : knbvk i = true) :
    knbVictim (mirrorInput i) = (knbVictim i).flip := by
  obtain ⟨_, _, hv⟩ := knbvk_facts i hc h
  unfold knbVictim
  rw [pc_mirror, col_mirror, ← flipBB_and, flip_bne_zero]
  simp only [EvalInput.own, Color.flip] at hv ⊢
  rcases hv with ⟨h1, h2⟩ | ⟨h1, h2⟩
  · have e1 : (i.pc .bishop &&& i.col .white != 0) = true := by rw [bne_iff_ne]; exact h1
    have e2 : (i.pc .bishop &&& i.col .black != 0) = false := by rw [h2]; rfl
    simp only [e1, e2, if_true, Bool.false_eq_true, if_false]
  · have e1 : (i.pc .bishop &&& i.col .white != 0) = false := by rw [h1]; rfl
    have e2 : (i.pc .bishop &&& i.col .black != 0) = true := by rw [bne_iff_ne]; exact h2
    simp only [e1, e2, if_true, Bool.false_eq_true, if_false]

theorem kingLowest_mirror (hk : OneKing i) (c : Color) :
    lowestSet ((mirrorInput i).pc .king &&& (mirrorInput i).col c) = lowestSet (i.pc .king &&& i.col c.flip) ^^^ 56 := by
  have := kingSq_mirror i hk c
  unfold EvalInput.kingSq EvalInput.kingBB at this
  rw [BitVec.and_comm, this, BitVec.and_comm]

theorem kingLowest_lt (hk : OneKing i) (c : Color) : lowestSet (i.pc .king &&& i.col c) < 64 := by
  have := kingSq_lt i hk c
  unfold EvalInput.kingSq EvalInput.kingBB at this
  rwa [BitVec.and_comm] at this

theorem knbvkTerms_mirror (hg : GoodInput i) (h : knbvk i = true) (ph : Nat) (c : Color) :
    knbvkTerms o cs (mirrorInput i) ph c = knbvkTerms o cs i ph c.flip := by
  obtain ⟨hk, hc⟩ := hg
  obtain ⟨hb, hn, _⟩ := knbvk_facts i hc h
  have hv := knbVictim_mirror i hc h
  have hblt : lowestSet (i.pc .bishop) < 64 := by
    obtain ⟨s, hs, e⟩ := (isPow2_iff _).mp hb; rw [e, lowestSet_bit s hs]; exact hs
  have hcd : knbCornerDist (mirrorInput i) = knbCornerDist i := by
    rw [knbCornerDist_eq, knbCornerDist_eq, hv, kingLowest_mirror i hk, Color.flip_flip, pc_mirror,
      lowestSet_flip_of_isPow2 _ hb]
    exact cornerDistOf_flip_fin ⟨_, hblt⟩ ⟨_, kingLowest_lt i hk _⟩
  unfold knbvkTerms
  simp only [hv, hcd, kingLowest_mirror i hk, Color.flip_flip]
  simp only [pc_mirror, lowestSet_flip_of_isPow2 _ hb, lowestSet_flip_of_isPow2 _ hn, psqt_mirror,
    Color.flip_flip, eq_flip_iff]

/-! ### the whole evaluation -/

theorem evalCore_mirror (L : LawfulAdd o) (hg : GoodInput i) :
    evalCore o cs (mirrorInput i) = evalCore o cs i := by
  unfold evalCore
  rw [insufficientMat_mirror, knbvk_mirror]
  by_cases h1 : insufficientMat i = true
  · simp only [h1, if_true]
  · simp only [h1, Bool.false_eq_true, if_false]
    by_cases h2 : knbvk i = true
    · simp only [h2, if_true, stm_mirror, Color.flip_flip, pieceValueTerms_mirror,
        knbvkTerms_mirror cs i hg h2]
    · simp only [h2, Bool.false_eq_true, if_false, stm_mirror, Color.flip_flip, fifty_mirror, phaseSum_mirror,
        sum_spTerms_mirror cs i L hg.1]

/-! ### `Board.valid` gives `GoodInput` -/

theorem isPow2_of_popcount_one (x : BB) (h : popcount x = 1) : isPow2 x = true := by
  unfold popcount at h
  obtain ⟨s, hs⟩ := List.length_eq_one_iff.mp h
  have hm : ∀ t, t ∈ bits x ↔ t = s := by intro t; rw [hs]; simp
  have hs64 : s < 64 := bits_lt ((hm s).2 rfl)
  rw [isPow2_iff]
  refine ⟨s, hs64, ?_⟩
  apply BitVec.eq_of_getLsbD_eq
  intro j hj
  rw [bit_getLsbD s j hs64]
  by_cases hjs : s = j
  · subst hjs
    simpa using (mem_bits.mp ((hm s).2 rfl)).2
  · have : ¬ j ∈ bits x := fun hmem => hjs ((hm j).1 hmem).symm
    rw [mem_bits] at this
    simp only [hj, true_and, Bool.not_eq_true] at this
    simp [this, hjs]

theorem goodInput_of_valid (b : Board) (h : Board.valid b = true) : GoodInput (input b) := by
  have hw := Bridge.WFP_of_valid h
  have hr := Bridge.rulesValid_of_valid h
  constructor
  · intro c
    apply isPow2_of_popcount_one
    -- count of kings in the rule-book position is 1
    have hcount : Rules.count b.abs c .king = 1 := by
      unfold Rules.valid at hr
      simp only [Bool.and_eq_true, List.all_eq_true, beq_iff_eq] at hr
      have := hr.1.1.1.1.1.1.1.1.1.1.1 c (by cases c <;> simp)
      exact this.1
    unfold Rules.count at hcount
    have hf : bits (b.colorBB c &&& b.pieceBB .king) = (List.range 64).filter (fun s => b.abs.has s c .king) := by
      unfold bits
      apply List.filter_congr
      intro s hs
      have hs64 : s < 64 := List.mem_range.mp hs
      have := Bridge.abs_has_set hw s hs64 c .king (by decide)
      rw [Bool.eq_iff_iff]; exact this
    show (bits (b.colorBB c &&& b.pieceBB .king)).length = 1
    rw [hf]; exact hcount
  · intro p hp
    apply BitVec.eq_of_getLsbD_eq
    intro j hj
    show (b.pieceBB p).getLsbD j = ((b.pieceBB p &&& b.colorBB .white) ||| (b.pieceBB p &&& b.colorBB .black)).getLsbD j
    simp only [BitVec.getLsbD_or, BitVec.getLsbD_and]
    cases hpj : (b.pieceBB p).getLsbD j
    · simp
    · have h1 := (hw.piece_iff j hj p hp).1 hpj
      have h2 := (hw.col j hj).2 (by rw [h1]; exact hp)
      rcases h2 with h2 | h2 <;> simp [h2]

end ChessVerif.Eval
