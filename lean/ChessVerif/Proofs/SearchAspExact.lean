/-
  `Search.WSafe` is EXACT on the window sizes the spsa build admits (`30..100`).

  `AspLaws.windowSafe` (Proofs/SearchScoreFree.lean) asks for `WindowSize ∈ 39..44 ∪ 78..88`; for those
  sizes `aspInv_step` shows that the window arithmetic of the aspiration loop never leaves int16,
  knowing of the searched values only that un-aborted results lie within `±Inf`.  Here the converse: for
  EVERY other size in `30..100` there is a chain of results, each within `±Inf` and each a genuine
  failure of the window it is compared with, after which the next widening WRAPS in int16 — so for those
  sizes no argument from "results within `±Inf`" alone can work, and the run-level hypothesis `GoSane`
  (or facts about the stability of the search) would be needed.

  The chain (uniform in `W`): the previous iteration returned `s = W - Inf`, so the first window is
  `(-Inf, 2W - Inf)`; then `k` fail-highs with result = the current `beta` (all `≤ Inf`); then one fail-low
  with result `-Inf = alpha`: `alpha - W·2^k < -32768` (`k = 10` for `W ≤ 38`, where already `W·1024` is no
  int16; `k = 9` for `45..77`; `k = 8` for `89..100`).  These are arithmetic possibilities of the skeleton
  (any component record may return these values); they are not claimed to occur on the real engine.
  Core Lean only.
-/
import ChessVerif.Proofs.SearchScoreFree

namespace ChessVerif
namespace Search

/-- one round of the window arithmetic of `Search.aspiration` after a FAILED search with result `sample`
    (`alpha -= factor * W` or `beta += factor * W`, `factor *= 2`, in int16), and whether the int16 result
    differs from the true value. -/
def aspArith (W : Int) (a b f sample : Int) : (Int × Int × Int) × Bool :=
  if sample ≤ a then
    ((wrapS16 (a - wrapS16 (f * W)), b, wrapS16 (f * 2)),
      decide (wrapS16 (f * W) ≠ f * W) || decide (wrapS16 (a - f * W) ≠ a - f * W))
  else
    ((a, wrapS16 (b + wrapS16 (f * W)), wrapS16 (f * 2)),
      decide (wrapS16 (f * W) ≠ f * W) || decide (wrapS16 (b + f * W) ≠ b + f * W))

/-- `aspArith` computes the windows of `Search.aspiration`. -/
theorem aspArith_eq (W a b f sample : Int) (hout : sample ≤ a ∨ b ≤ sample) :
    (aspArith W a b f sample).1 =
      (if sample ≤ a then wrapS16 (a - wrapS16 (f * W)) else a,
       if sample ≤ a then b else if sample ≥ b then wrapS16 (b + wrapS16 (f * W)) else b,
       wrapS16 (f * 2)) := by
  unfold aspArith
  by_cases h : sample ≤ a
  · simp only [if_pos h]
  · have hb : sample ≥ b := by omega
    simp only [if_neg h, if_pos hb]

/-- a chain of failed searches: every result within `±Inf` and outside the current window.
    `some true`: some widening wrapped; `some false`: none did; `none`: not a chain of failures. -/
def aspChain (W : Int) : Int → Int → Int → List Int → Option Bool
  | _, _, _, [] => some false
  | a, b, f, x :: xs =>
    if decide (-10000 ≤ x) && decide (x ≤ 10000) && (decide (x ≤ a) || decide (b ≤ x)) then
      let r := aspArith W a b f x
      if r.2 then some true else aspChain W r.1.1 r.1.2.1 r.1.2.2 xs
    else none

/-- the results of `k` fail-highs, each equal to the current `beta`. -/
def highs (W : Int) : Nat → Int → Int → Int → List Int
  | 0, _, _, _ => []
  | k + 1, a, b, f => b :: highs W k a (wrapS16 (b + wrapS16 (f * W))) (wrapS16 (f * 2))

/-- the witness chain for window size `W`: previous score `W - Inf`, `k` fail-highs, one fail-low at `-Inf`. -/
def witness (W : Int) (k : Nat) : List Int :=
  highs W k (wrapS16 (W - 10000 - W)) (wrapS16 (W - 10000 + W)) 1 ++ [-10000]

/-- the chain for `W` with `k` fail-highs is a chain of in-range failures that ends in a wrap. -/
def wraps (W : Int) (k : Nat) : Bool :=
  aspChain W (wrapS16 (W - 10000 - W)) (wrapS16 (W - 10000 + W)) 1 (witness W k) == some true

/-- **`WSafe` is exact on `30..100`**: every window size the spsa build admits is safe, or has a chain of
    at most eleven in-range failures (starting from the first window after an in-range score) whose last
    widening wraps in int16. -/
theorem wsafe_exact : ∀ i : Fin 71,
    (decide (WSafe (30 + (i.val : Int))) || (List.range 11).any (wraps (30 + (i.val : Int)))) = true := by
  decide

/-- the three representatives spelled out. -/
example : wraps 38 10 = true ∧ wraps 45 9 = true ∧ wraps 89 8 = true := by decide
example : witness 45 9 = [-9910, -9865, -9775, -9595, -9235, -8515, -7075, -4195, 1565, -10000] := by decide
/-- … and for the safe sizes the same chains do not wrap (as `aspInv_step` proves for ALL chains). -/
example : (List.range 11).any (wraps 44) = false ∧ (List.range 11).any (wraps 39) = false ∧
    (List.range 11).any (wraps 78) = false ∧ (List.range 11).any (wraps 88) = false := by decide

end Search
end ChessVerif
