/-
  C12, assembly for the sliders: `rookMoves_eq`, `bishopMoves_eq` for every square and all 2^64
  occupancies, from
   (i)   the 128 per-square kernel checks (Proofs/Magic/*.lean, against Gen/Tables.lean) and their
         soundness (`checkSq_sound`, Proofs/AttacksMagic.lean),
   (ii)  `rookRay_and_mask` / `bishopRay_and_mask` + mask coverage (Proofs/AttacksRay.lean),
   (iii) `calc…Attacks_eq`: the Go reference walkers are the geometric ray walk,
   (iv)  `rayN_eq`: the natural-number ray run by the kernel checker is the spec ray.
-/
import ChessVerif.Proofs.AttacksMagic
import ChessVerif.Proofs.AttacksRay
import ChessVerif.Proofs.AttacksBasic
import ChessVerif.Proofs.Magic.All

set_option linter.unusedSimpArgs false
set_option linter.unusedVariables false

open ChessVerif ChessVerif.MagicCheck

namespace ChessVerif.AttacksProofs

theorem nat_and_bit (o s : Nat) : (o &&& 1 <<< s != 0) = o.testBit s := by
  rw [Nat.one_shiftLeft]
  by_cases h : o.testBit s = true
  · rw [h]
    simp only [bne_iff_ne, ne_eq]
    intro h0
    have : (o &&& 2 ^ s).testBit s = true := by simp [Nat.testBit_and, h, Nat.testBit_two_pow_self]
    rw [h0] at this
    simp at this
  · have h' : o.testBit s = false := by simpa using h
    rw [h']
    have : o &&& 2 ^ s = 0 := by
      apply Nat.eq_of_testBit_eq
      intro k
      simp only [Nat.testBit_and, Nat.testBit_two_pow, Nat.zero_testBit]
      by_cases hk : s = k
      · subst hk; simp [h']
      · simp [hk]
    simp [this]

theorem bit_toNat (s : Nat) (hs : s < 64) : (bit s).toNat = 1 <<< s := by
  unfold bit
  rw [BitVec.toNat_shiftLeft, Nat.one_shiftLeft]
  simp only [BitVec.toNat_ofNat, Nat.reducePow, Nat.reduceMod, Nat.one_shiftLeft]
  apply Nat.mod_eq_of_lt
  calc 2 ^ s < 2 ^ 64 := Nat.pow_lt_pow_right (by decide) hs
    _ = 18446744073709551616 := by decide

/-- The natural-number ray of the kernel checker equals the spec ray. -/
theorem rayN_eq (occ : BB) (df1 dr1 : Nat) :
    ∀ (n f r : Nat),
      (Geometry.rayWalkFrom occ ((df1 : Int) - 1) ((dr1 : Int) - 1) n (f : Int) (r : Int)).toNat
        = rayN occ.toNat df1 dr1 n f r := by
  intro n
  induction n with
  | zero => intro f r; simp [Geometry.rayWalkFrom, rayN]
  | succ n ih =>
    intro f r
    rw [Geometry.rayWalkFrom, rayN]
    simp only []
    by_cases hob : Geometry.onBoard ((f : Int) + ((df1 : Int) - 1)) ((r : Int) + ((dr1 : Int) - 1)) = true
    · have hob' := hob
      simp only [Geometry.onBoard, Bool.and_eq_true, decide_eq_true_eq] at hob'
      have hc : (f + df1 == 0 || Nat.ble 9 (f + df1) || r + dr1 == 0 || Nat.ble 9 (r + dr1)) = false := by
        rw [Bool.eq_false_iff]
        simp only [Bool.or_eq_true, beq_iff_eq, Nat.ble_eq, ne_eq]
        omega
      have hs : Geometry.sqAt ((f : Int) + ((df1 : Int) - 1)) ((r : Int) + ((dr1 : Int) - 1))
          = 8 * (r + dr1 - 1) + (f + df1 - 1) := by
        unfold Geometry.sqAt; omega
      have hlt : 8 * (r + dr1 - 1) + (f + df1 - 1) < 64 := by omega
      have hf : (f : Int) + ((df1 : Int) - 1) = ((f + df1 - 1 : Nat) : Int) := by omega
      have hr : (r : Int) + ((dr1 : Int) - 1) = ((r + dr1 - 1 : Nat) : Int) := by omega
      rw [hc, cond_false, if_pos hob, hs, land_eq, shl_eq, nat_and_bit, BitVec.getLsbD]
      by_cases ho : occ.toNat.testBit (8 * (r + dr1 - 1) + (f + df1 - 1)) = true
      · simp [ho, bit_toNat _ hlt]
      · have ho' : occ.toNat.testBit (8 * (r + dr1 - 1) + (f + df1 - 1)) = false := by simpa using ho
        simp only [ho', cond_false, Bool.false_eq_true, if_false, BitVec.toNat_or, bit_toNat _ hlt, lor_eq]
        rw [hf, hr, ih]
    · have hob' := hob
      simp only [Geometry.onBoard, Bool.and_eq_true, decide_eq_true_eq] at hob'
      have hc : (f + df1 == 0 || Nat.ble 9 (f + df1) || r + dr1 == 0 || Nat.ble 9 (r + dr1)) = true := by
        simp only [Bool.or_eq_true, beq_iff_eq, Nat.ble_eq]
        omega
      rw [hc, cond_true, if_neg hob]
      rfl


theorem rookRay_toNat (sq : Nat) (occ : BB) :
    (Geometry.rookRay occ sq).toNat = rookRayN (sq % 8) (sq / 8) occ.toNat := by
  have h1 : (Geometry.rayWalkFrom occ (0) (1) 7 ((sq % 8 : Nat) : Int) ((sq / 8 : Nat) : Int)).toNat
      = rayN occ.toNat 1 2 7 (sq % 8) (sq / 8) := rayN_eq occ 1 2 7 (sq % 8) (sq / 8)
  have h2 : (Geometry.rayWalkFrom occ (0) (-1) 7 ((sq % 8 : Nat) : Int) ((sq / 8 : Nat) : Int)).toNat
      = rayN occ.toNat 1 0 7 (sq % 8) (sq / 8) := rayN_eq occ 1 0 7 (sq % 8) (sq / 8)
  have h3 : (Geometry.rayWalkFrom occ (1) (0) 7 ((sq % 8 : Nat) : Int) ((sq / 8 : Nat) : Int)).toNat
      = rayN occ.toNat 2 1 7 (sq % 8) (sq / 8) := rayN_eq occ 2 1 7 (sq % 8) (sq / 8)
  have h4 : (Geometry.rayWalkFrom occ (-1) (0) 7 ((sq % 8 : Nat) : Int) ((sq / 8 : Nat) : Int)).toNat
      = rayN occ.toNat 0 1 7 (sq % 8) (sq / 8) := rayN_eq occ 0 1 7 (sq % 8) (sq / 8)
  simp only [Geometry.rookRay, Geometry.rayWalk, Geometry.fileI, Geometry.rankI, rookRayN, BitVec.toNat_or, lor_eq,
    h1, h2, h3, h4]

theorem bishopRay_toNat (sq : Nat) (occ : BB) :
    (Geometry.bishopRay occ sq).toNat = bishopRayN (sq % 8) (sq / 8) occ.toNat := by
  have h1 : (Geometry.rayWalkFrom occ (1) (1) 7 ((sq % 8 : Nat) : Int) ((sq / 8 : Nat) : Int)).toNat
      = rayN occ.toNat 2 2 7 (sq % 8) (sq / 8) := rayN_eq occ 2 2 7 (sq % 8) (sq / 8)
  have h2 : (Geometry.rayWalkFrom occ (-1) (1) 7 ((sq % 8 : Nat) : Int) ((sq / 8 : Nat) : Int)).toNat
      = rayN occ.toNat 0 2 7 (sq % 8) (sq / 8) := rayN_eq occ 0 2 7 (sq % 8) (sq / 8)
  have h3 : (Geometry.rayWalkFrom occ (1) (-1) 7 ((sq % 8 : Nat) : Int) ((sq / 8 : Nat) : Int)).toNat
      = rayN occ.toNat 2 0 7 (sq % 8) (sq / 8) := rayN_eq occ 2 0 7 (sq % 8) (sq / 8)
  have h4 : (Geometry.rayWalkFrom occ (-1) (-1) 7 ((sq % 8 : Nat) : Int) ((sq / 8 : Nat) : Int)).toNat
      = rayN occ.toNat 0 0 7 (sq % 8) (sq / 8) := rayN_eq occ 0 0 7 (sq % 8) (sq / 8)
  simp only [Geometry.bishopRay, Geometry.rayWalk, Geometry.fileI, Geometry.rankI, bishopRayN, BitVec.toNat_or, lor_eq,
    h1, h2, h3, h4]

theorem list_toArray_getD (l : List Nat) (i : Nat) : l.toArray.getD i 0 = l.getD i 0 := by
  simp [Array.getD_eq_getD_getElem?, List.getD_eq_getElem?_getD]

/-- `rookMoves` (magic lookup in the table filled by the model of `initRookMagic`) = ray walk,
    for every square and all 2^64 occupancies. -/
theorem rookMoves_eq (sq : Nat) (hsq : sq < 64) (occ : BB) :
    Attacks.rookMoves sq occ = Geometry.rookRay occ sq := by
  have hrow : Attacks.rookAttacks.getD sq #[] =
      Attacks.fillTable (Attacks.calcRookAttacks sq) (Attacks.rookMaskTbl.getD sq 0) (Attacks.rookMagicTbl.getD sq 0)
        (Attacks.rookShiftTbl.getD sq 0) Gen.Tables.rookTableSize := by
    have : sq < Gen.Tables.squares := hsq
    simp [Attacks.rookAttacks, Array.getD_eq_getD_getElem?, this]
  have hcalc : Attacks.calcRookAttacks sq = fun o => Geometry.rookRay o sq :=
    funext (calcRookAttacks_eq sq hsq)
  unfold Attacks.rookMoves
  simp only []
  rw [hrow, hcalc, Attacks.rookMaskTbl, Attacks.rookMagicTbl, Attacks.rookShiftTbl, toBBArray_getD, toBBArray_getD,
    list_toArray_getD]
  rw [checkSq_sound (fun o => Geometry.rookRay o sq) (rookRayN (sq % 8) (sq / 8)) _ _ _ _
    (rookRay_toNat sq) (by decide) (checkRook_all sq hsq)]
  exact rookRay_and_mask occ _ sq (rookMasks_cover sq hsq)

/-- `bishopMoves` = ray walk, for every square and all 2^64 occupancies. -/
theorem bishopMoves_eq (sq : Nat) (hsq : sq < 64) (occ : BB) :
    Attacks.bishopMoves sq occ = Geometry.bishopRay occ sq := by
  have hrow : Attacks.bishopAttacks.getD sq #[] =
      Attacks.fillTable (Attacks.calcBishopAttacks sq) (Attacks.bishopMaskTbl.getD sq 0) (Attacks.bishopMagicTbl.getD sq 0)
        (Attacks.bishopShiftTbl.getD sq 0) Gen.Tables.bishopTableSize := by
    have : sq < Gen.Tables.squares := hsq
    simp [Attacks.bishopAttacks, Array.getD_eq_getD_getElem?, this]
  have hcalc : Attacks.calcBishopAttacks sq = fun o => Geometry.bishopRay o sq :=
    funext (calcBishopAttacks_eq sq hsq)
  unfold Attacks.bishopMoves
  simp only []
  rw [hrow, hcalc, Attacks.bishopMaskTbl, Attacks.bishopMagicTbl, Attacks.bishopShiftTbl, toBBArray_getD, toBBArray_getD,
    list_toArray_getD]
  rw [checkSq_sound (fun o => Geometry.bishopRay o sq) (bishopRayN (sq % 8) (sq / 8)) _ _ _ _
    (bishopRay_toNat sq) (by decide) (checkBishop_all sq hsq)]
  exact bishopRay_and_mask occ _ sq (bishopMasks_cover sq hsq)

end ChessVerif.AttacksProofs
