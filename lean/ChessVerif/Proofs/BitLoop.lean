/-
  Helper lemmas for `Props/BitLoop.lean`: the Go bit-loop idiom on `BitVec 64` coincides with
  iteration over `bits x`.  Core Lean only (no Mathlib needed).

  Route: `-x` has the bit-level characterisation `BitVec.getLsbD_neg`
  (`(-x)[i] = x[i] ^^ ∃ j < i, x[j]`), and `x - 1 = ~~~(-x)` (`BitVec.not_neg`).  With `k = tz x`
  the existential is `k < i`, which gives the three bit tricks pointwise.
-/
import ChessVerif.Model.BitLoop

namespace ChessVerif.Proofs.BitLoop
open ChessVerif ChessVerif.Model.BitLoop

/-! ### `tz` -/

theorem tzAux_spec (x : BB) (n : Nat) : ∀ i, i ≤ tzAux x n i ∧ tzAux x n i ≤ i + n ∧
    (∀ j, i ≤ j → j < tzAux x n i → x.getLsbD j = false) ∧
    (tzAux x n i < i + n → x.getLsbD (tzAux x n i) = true) := by
  induction n with
  | zero =>
    intro i
    refine ⟨Nat.le_refl _, Nat.le_refl _, ?_, ?_⟩
    · intro j h1 h2; simp only [tzAux] at h2; omega
    · intro h; simp only [tzAux] at h; omega
  | succ n ih =>
    intro i
    by_cases h : x.getLsbD i = true
    · have e : tzAux x (n + 1) i = i := by simp [tzAux, h]
      rw [e]
      refine ⟨Nat.le_refl _, by omega, ?_, fun _ => h⟩
      intro j h1 h2; omega
    · have e : tzAux x (n + 1) i = tzAux x n (i + 1) := by simp [tzAux, h]
      rw [e]
      obtain ⟨a, b, c, d⟩ := ih (i + 1)
      refine ⟨by omega, by omega, ?_, fun hh => d (by omega)⟩
      intro j h1 h2
      by_cases hj : j = i
      · subst hj; simpa using h
      · exact c j (by omega) h2

theorem tz_le (x : BB) : tz x ≤ 64 := by
  have := (tzAux_spec x 64 0).2.1
  unfold tz; omega

theorem tz_below {x : BB} {j : Nat} (h : j < tz x) : x.getLsbD j = false :=
  (tzAux_spec x 64 0).2.2.1 j (Nat.zero_le _) h

theorem tz_set {x : BB} (h : tz x < 64) : x.getLsbD (tz x) = true :=
  (tzAux_spec x 64 0).2.2.2 (by unfold tz at h; omega)

theorem tz_lt_of_ne_zero {x : BB} (h : x ≠ 0) : tz x < 64 := by
  apply Classical.byContradiction
  intro hn
  apply h
  apply BitVec.eq_of_getLsbD_eq
  intro i hi
  rw [tz_below (by omega)]
  simp

theorem tz_set_of_ne_zero {x : BB} (h : x ≠ 0) : x.getLsbD (tz x) = true :=
  tz_set (tz_lt_of_ne_zero h)

/-- `tz` is characterised by "bit `k` set, nothing below". -/
theorem tz_unique {x : BB} {k : Nat} (hk : x.getLsbD k = true)
    (hlow : ∀ j, j < k → x.getLsbD j = false) : tz x = k := by
  have hk64 : k < 64 := by
    apply Classical.byContradiction
    intro hn
    rw [BitVec.getLsbD_of_ge x k (by omega)] at hk
    exact Bool.false_ne_true hk
  have h1 : ¬ k < tz x := fun h => by
    rw [tz_below h] at hk; exact Bool.false_ne_true hk
  have h2 : ¬ tz x < k := fun h => by
    have := tz_set (x := x) (by omega)
    rw [hlow _ h] at this; exact Bool.false_ne_true this
  omega

theorem tz_zero : tz (0 : BB) = 64 := by
  have h1 := tz_le (0 : BB)
  have h2 : ¬ tz (0 : BB) < 64 := fun h => by
    have := tz_set h
    simp at this
  omega

theorem tz_bit {k : Nat} (hk : k < 64) : tz (bit k) = k := by
  apply tz_unique
  · rw [bit_getLsbD k k hk]; simp
  · intro j hj
    rw [bit_getLsbD k j hk]
    simp; omega

theorem bit_ne_zero {k : Nat} (hk : k < 64) : bit k ≠ 0 := by
  intro h
  have := bit_getLsbD k k hk
  rw [h] at this
  simp at this

/-! ### Bit-level characterisation of `-x` and `x - 1` -/

theorem exists_below_iff {x : BB} (h : x ≠ 0) (i : Nat) :
    (∃ j, j < i ∧ x.getLsbD j = true) ↔ tz x < i := by
  constructor
  · rintro ⟨j, hj, hb⟩
    apply Classical.byContradiction
    intro hn
    rw [tz_below (by omega)] at hb
    exact Bool.false_ne_true hb
  · intro hi
    exact ⟨tz x, hi, tz_set_of_ne_zero h⟩

theorem neg_getLsbD {x : BB} (h : x ≠ 0) (i : Nat) (hi : i < 64) :
    (-x).getLsbD i = (x.getLsbD i ^^ decide (tz x < i)) := by
  rw [BitVec.getLsbD_neg]
  have : decide (∃ j, j < i ∧ x.getLsbD j = true) = decide (tz x < i) :=
    decide_eq_decide.2 (exists_below_iff h i)
  simp [hi, this]

theorem sub_one_eq (x : BB) : x - 1 = ~~~(-x) := (BitVec.not_neg x).symm

theorem sub_one_getLsbD {x : BB} (h : x ≠ 0) (i : Nat) (hi : i < 64) :
    (x - 1).getLsbD i = !(x.getLsbD i ^^ decide (tz x < i)) := by
  rw [sub_one_eq, BitVec.getLsbD_not, neg_getLsbD h i hi]
  simp [hi]

/-- Three-way case split on the position relative to `tz x`. -/
theorem bit_cases {x : BB} (h : x ≠ 0) (i : Nat) :
    (i < tz x ∧ x.getLsbD i = false) ∨ (i = tz x ∧ x.getLsbD i = true) ∨ tz x < i := by
  by_cases h1 : i < tz x
  · exact Or.inl ⟨h1, tz_below h1⟩
  · by_cases h2 : i = tz x
    · exact Or.inr (Or.inl ⟨h2, h2 ▸ tz_set_of_ne_zero h⟩)
    · exact Or.inr (Or.inr (by omega))

theorem clearLowest_getLsbD {x : BB} (h : x ≠ 0) (i : Nat) :
    (x &&& (x - 1)).getLsbD i = (x.getLsbD i && decide (i ≠ tz x)) := by
  by_cases hi : i < 64
  · rw [BitVec.getLsbD_and, sub_one_getLsbD h i hi]
    rcases bit_cases h i with ⟨h1, h2⟩ | ⟨h1, h2⟩ | h1
    · simp [h2]
    · subst h1; simp [h2]
    · have : ¬ i = tz x := by omega
      simp [h1, this]
  · rw [BitVec.getLsbD_of_ge _ i (by omega), BitVec.getLsbD_of_ge x i (by omega)]
    simp

theorem isolateLowest_getLsbD {x : BB} (h : x ≠ 0) (i : Nat) :
    (x &&& (-x)).getLsbD i = decide (tz x = i) := by
  by_cases hi : i < 64
  · rw [BitVec.getLsbD_and, neg_getLsbD h i hi]
    rcases bit_cases h i with ⟨h1, h2⟩ | ⟨h1, h2⟩ | h1
    · have : ¬ tz x = i := by omega
      simp [h2, this]
    · subst h1; simp [h2]
    · have : ¬ tz x = i := by omega
      simp [h1, this]
  · have := tz_lt_of_ne_zero h
    have hne : ¬ tz x = i := by omega
    rw [BitVec.getLsbD_of_ge _ i (by omega)]
    simp [hne]

theorem isolateLowest_eq {x : BB} (h : x ≠ 0) : x &&& (-x) = bit (tz x) := by
  apply BitVec.eq_of_getLsbD_eq
  intro i _
  rw [isolateLowest_getLsbD h, bit_getLsbD _ _ (tz_lt_of_ne_zero h)]

theorem xor_isolate_eq_clear (x : BB) : x ^^^ (x &&& (-x)) = x &&& (x - 1) := by
  by_cases h : x = 0
  · subst h; decide
  · apply BitVec.eq_of_getLsbD_eq
    intro i _
    rw [BitVec.getLsbD_xor, isolateLowest_getLsbD h, clearLowest_getLsbD h]
    rcases bit_cases h i with ⟨h1, h2⟩ | ⟨h1, h2⟩ | h1
    · simp [h2]; omega
    · subst h1; simp [h2]
    · have a : ¬ tz x = i := by omega
      have b : ¬ i = tz x := by omega
      simp [a, b]

/-! ### `bits` peels off `tz x` -/

theorem filter_range'_peel (p q : Nat → Bool) (k : Nat) (hpk : p k = true) (hqk : q k = false)
    (hhi : ∀ j, k < j → p j = q j) (n : Nat) :
    ∀ i, i ≤ k → k < i + n → (∀ j, i ≤ j → j < k → p j = false ∧ q j = false) →
      (List.range' i n).filter p = k :: (List.range' i n).filter q := by
  induction n with
  | zero => intro i h1 h2; omega
  | succ n ih =>
    intro i h1 h2 hlow
    rw [List.range'_succ]
    by_cases hik : i = k
    · subst hik
      rw [List.filter_cons_of_pos (by simpa using hpk), List.filter_cons_of_neg (by simp [hqk])]
      congr 1
      apply List.filter_congr
      intro j hj
      rw [List.mem_range'_1] at hj
      exact hhi j (by omega)
    · have hp : p i = false := (hlow i (Nat.le_refl _) (by omega)).1
      have hq : q i = false := (hlow i (Nat.le_refl _) (by omega)).2
      rw [List.filter_cons_of_neg (by simp [hp]), List.filter_cons_of_neg (by simp [hq])]
      exact ih (i + 1) (by omega) (by omega) (fun j a b => hlow j (by omega) b)

theorem bits_zero : bits (0 : BB) = [] := by
  unfold bits
  rw [List.filter_eq_nil_iff]
  intro a _
  simp

theorem bits_cons {x : BB} (h : x ≠ 0) : bits x = tz x :: bits (x &&& (x - 1)) := by
  unfold bits
  rw [List.range_eq_range']
  apply filter_range'_peel _ _ (tz x) (tz_set_of_ne_zero h)
  · rw [clearLowest_getLsbD h]; simp
  · intro j hj
    have : ¬ j = tz x := by omega
    rw [clearLowest_getLsbD h]; simp [this]
  · exact Nat.zero_le _
  · have := tz_lt_of_ne_zero h; omega
  · intro j _ hj
    rw [clearLowest_getLsbD h, tz_below hj]
    simp

theorem popcount_le (x : BB) : popcount x ≤ 64 := by
  unfold popcount bits
  have := List.length_filter_le (fun s => x.getLsbD s) (List.range 64)
  simpa using this

theorem popcount_cons {x : BB} (h : x ≠ 0) : popcount x = popcount (x &&& (x - 1)) + 1 := by
  unfold popcount
  rw [bits_cons h]
  rfl

theorem bits_eq_nil_of_popcount_zero {x : BB} (h : popcount x ≤ 0) : bits x = [] :=
  List.eq_nil_of_length_eq_zero (by unfold popcount at h; omega)

/-! ### The loops -/

theorem goLoop_eq_bits_of_le : ∀ (fuel : Nat) (x : BB), popcount x ≤ fuel → goLoop fuel x = bits x
  | 0, x, h => by rw [bits_eq_nil_of_popcount_zero h]; rfl
  | fuel + 1, x, h => by
    by_cases hx : x = 0
    · subst hx; rw [bits_zero]; simp [goLoop]
    · have hp := popcount_cons hx
      rw [bits_cons hx, goLoop, if_neg hx, goLoop_eq_bits_of_le fuel _ (by omega)]

theorem goFold_eq_foldl_of_le {α : Type} (f : α → Nat → α) :
    ∀ (fuel : Nat) (acc : α) (x : BB), popcount x ≤ fuel →
      goFold f fuel acc x = (bits x).foldl f acc
  | 0, acc, x, h => by rw [bits_eq_nil_of_popcount_zero h]; rfl
  | fuel + 1, acc, x, h => by
    by_cases hx : x = 0
    · subst hx; rw [bits_zero]; simp [goFold]
    · have hp := popcount_cons hx
      rw [bits_cons hx, goFold, if_neg hx, goFold_eq_foldl_of_le f fuel _ _ (by omega)]
      rfl

theorem goLoopIso_eq_of_le :
    ∀ (fuel : Nat) (x : BB), popcount x ≤ fuel → goLoopIso fuel x = (bits x).map bit
  | 0, x, h => by rw [bits_eq_nil_of_popcount_zero h]; rfl
  | fuel + 1, x, h => by
    by_cases hx : x = 0
    · subst hx; rw [bits_zero]; simp [goLoopIso]
    · have hp := popcount_cons hx
      rw [bits_cons hx, goLoopIso, if_neg hx, goLoopIso_eq_of_le fuel _ (by omega),
        isolateLowest_eq hx]
      rfl

theorem goLoopXor_eq_of_le :
    ∀ (fuel : Nat) (x : BB), popcount x ≤ fuel → goLoopXor fuel x = bits x
  | 0, x, h => by rw [bits_eq_nil_of_popcount_zero h]; rfl
  | fuel + 1, x, h => by
    by_cases hx : x = 0
    · subst hx; rw [bits_zero]; simp [goLoopXor]
    · have hp := popcount_cons hx
      rw [bits_cons hx, goLoopXor, if_neg hx]
      simp only []
      rw [xor_isolate_eq_clear, goLoopXor_eq_of_le fuel _ (by omega), isolateLowest_eq hx,
        tz_bit (tz_lt_of_ne_zero hx)]

theorem popcount'_eq_of_le :
    ∀ (fuel : Nat) (x : BB), popcount x ≤ fuel → popcount' fuel x = popcount x
  | 0, x, h => by unfold popcount'; omega
  | fuel + 1, x, h => by
    by_cases hx : x = 0
    · subst hx; rw [popcount', if_pos rfl]; unfold popcount; rw [bits_zero]; rfl
    · have hp := popcount_cons hx
      rw [popcount', if_neg hx, popcount'_eq_of_le fuel _ (by omega), hp]

/-! ### `tz` is `lowestSet`; 64 iterations always suffice -/

theorem tz_eq_lowestSet (x : BB) : tz x = lowestSet x := by
  unfold lowestSet
  by_cases hx : x = 0
  · subst hx; rw [bits_zero, tz_zero]; rfl
  · rw [bits_cons hx]; rfl

theorem goLoop_eq_bits_of_ge {fuel : Nat} (h : 64 ≤ fuel) (x : BB) : goLoop fuel x = bits x :=
  goLoop_eq_bits_of_le fuel x (Nat.le_trans (popcount_le x) h)

theorem goFold_eq_foldl_of_ge {α : Type} (f : α → Nat → α) {fuel : Nat} (h : 64 ≤ fuel) (acc : α)
    (x : BB) : goFold f fuel acc x = (bits x).foldl f acc :=
  goFold_eq_foldl_of_le f fuel acc x (Nat.le_trans (popcount_le x) h)

theorem goLoopIso_eq_of_ge {fuel : Nat} (h : 64 ≤ fuel) (x : BB) :
    goLoopIso fuel x = (bits x).map bit :=
  goLoopIso_eq_of_le fuel x (Nat.le_trans (popcount_le x) h)

theorem goLoopXor_eq_of_ge {fuel : Nat} (h : 64 ≤ fuel) (x : BB) : goLoopXor fuel x = bits x :=
  goLoopXor_eq_of_le fuel x (Nat.le_trans (popcount_le x) h)

theorem popcount'_eq_of_ge {fuel : Nat} (h : 64 ≤ fuel) (x : BB) : popcount' fuel x = popcount x :=
  popcount'_eq_of_le fuel x (Nat.le_trans (popcount_le x) h)

/-- The state of the `x &= x - 1` loop after `n` iterations. -/
theorem iterate_clear_bits (x : BB) :
    ∀ n, bits (Nat.repeat (fun y => y &&& (y - 1)) n x) = (bits x).drop n := by
  intro n
  induction n with
  | zero => rfl
  | succ n ih =>
    show bits ((fun y => y &&& (y - 1)) (Nat.repeat (fun y => y &&& (y - 1)) n x)) = _
    generalize hy : Nat.repeat (fun y => y &&& (y - 1)) n x = y at ih
    show bits (y &&& (y - 1)) = _
    rw [List.drop_add_one_eq_tail_drop, ← ih]
    by_cases h0 : y = 0
    · subst h0
      have : (0 : BB) &&& (0 - 1) = 0 := by decide
      rw [this, bits_zero]; rfl
    · rw [bits_cons h0]; rfl

theorem eq_zero_of_bits_nil {x : BB} (h : bits x = []) : x = 0 := by
  apply Classical.byContradiction
  intro hx
  rw [bits_cons hx] at h
  exact List.cons_ne_nil _ _ h

/-! ### `IsPow2` -/

theorem isPow2_iff (x : BB) : isPow2 x = true ↔ ∃ k, k < 64 ∧ x = bit k := by
  unfold isPow2
  constructor
  · intro h
    simp only [Bool.and_eq_true, beq_iff_eq, bne_iff_ne] at h
    obtain ⟨hc, hx⟩ := h
    refine ⟨tz x, tz_lt_of_ne_zero hx, ?_⟩
    apply BitVec.eq_of_getLsbD_eq
    intro i _
    rw [bit_getLsbD _ _ (tz_lt_of_ne_zero hx)]
    have := clearLowest_getLsbD hx i
    rw [hc] at this
    by_cases hi : i = tz x
    · subst hi; simp [tz_set_of_ne_zero hx]
    · have hne : ¬ tz x = i := fun e => hi e.symm
      simp [hi] at this
      simp [hne, this]
  · rintro ⟨k, hk, rfl⟩
    have hne := bit_ne_zero hk
    simp only [Bool.and_eq_true, beq_iff_eq, bne_iff_ne]
    refine ⟨?_, hne⟩
    apply BitVec.eq_of_getLsbD_eq
    intro i _
    rw [clearLowest_getLsbD hne, tz_bit hk, bit_getLsbD _ _ hk]
    by_cases hi : i = k
    · simp [hi]
    · have : ¬ k = i := fun e => hi e.symm
      simp [this]

end ChessVerif.Proofs.BitLoop
