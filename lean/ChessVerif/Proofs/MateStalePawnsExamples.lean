/-
  C09, stalemate, pawn exits: non-vacuity.  Concrete valid boards with the king not in check on which
  each of the three pawn exits fires (so `stPawn_iff` yields a legal pawn move), and one on which a
  pawn exists but none of them fires (so `stPawn_sound` yields that no pawn can move).
-/
import ChessVerif.Proofs.MateStalePawns

namespace ChessVerif.Mate.StalePawns.Examples
open ChessVerif Board Rules Bridge ChessVerif.Mate ChessVerif.Mate.StalePawns

/-- White Ke1 Pa2, Black Kh8: the a-pawn is not seen from the king and can advance. -/
def freeB : Board :=
  { sq := #v[.none, .none, .none, .none, .king, .none, .none, .none,
             .pawn, .none, .none, .none, .none, .none, .none, .none,
             .none, .none, .none, .none, .none, .none, .none, .none,
             .none, .none, .none, .none, .none, .none, .none, .none,
             .none, .none, .none, .none, .none, .none, .none, .none,
             .none, .none, .none, .none, .none, .none, .none, .none,
             .none, .none, .none, .none, .none, .none, .none, .none,
             .none, .none, .none, .none, .none, .none, .none, .king],
    pieces := #v[0, bit 8, 0, 0, 0, 0, bit 4 ||| bit 63],
    colors := #v[bit 4 ||| bit 8, bit 63],
    hashes := [], fullMoves := 1, stm := .white, ep := 0, castles := 0#4, fifty := 0 }

/-- White Ke1 Pd2, Black Kh8 Bc3: the d-pawn is pinned by the bishop, its push is illegal, but it can capture the pinner. -/
def pinB : Board :=
  { sq := #v[.none, .none, .none, .none, .king, .none, .none, .none,
             .none, .none, .none, .pawn, .none, .none, .none, .none,
             .none, .none, .bishop, .none, .none, .none, .none, .none,
             .none, .none, .none, .none, .none, .none, .none, .none,
             .none, .none, .none, .none, .none, .none, .none, .none,
             .none, .none, .none, .none, .none, .none, .none, .none,
             .none, .none, .none, .none, .none, .none, .none, .none,
             .none, .none, .none, .none, .none, .none, .none, .king],
    pieces := #v[0, bit 11, 0, bit 18, 0, 0, bit 4 ||| bit 63],
    colors := #v[bit 4 ||| bit 11, bit 18 ||| bit 63],
    hashes := [], fullMoves := 1, stm := .white, ep := 0, castles := 0#4, fifty := 0 }

/-- White Kh1 Pe5, Black Kh8 Pd5 Pe6, en-passant target d6: the e-pawn is blocked, its only move is the en-passant capture. -/
def epB : Board :=
  { sq := #v[.none, .none, .none, .none, .none, .none, .none, .king,
             .none, .none, .none, .none, .none, .none, .none, .none,
             .none, .none, .none, .none, .none, .none, .none, .none,
             .none, .none, .none, .none, .none, .none, .none, .none,
             .none, .none, .none, .pawn, .pawn, .none, .none, .none,
             .none, .none, .none, .none, .pawn, .none, .none, .none,
             .none, .none, .none, .none, .none, .none, .none, .none,
             .none, .none, .none, .none, .none, .none, .none, .king],
    pieces := #v[0, bit 35 ||| bit 36 ||| bit 44, 0, 0, 0, 0, bit 7 ||| bit 63],
    colors := #v[bit 7 ||| bit 36, bit 35 ||| bit 44 ||| bit 63],
    hashes := [], fullMoves := 1, stm := .white, ep := 43, castles := 0#4, fifty := 0 }

/-- White Ka5 Pe5, Black Kh8 Pd5 Pe6 Rh5, en-passant target d6: the en-passant capture would clear the fifth rank for the rook, the push is blocked. -/
def epPinB : Board :=
  { sq := #v[.none, .none, .none, .none, .none, .none, .none, .none,
             .none, .none, .none, .none, .none, .none, .none, .none,
             .none, .none, .none, .none, .none, .none, .none, .none,
             .none, .none, .none, .none, .none, .none, .none, .none,
             .king, .none, .none, .pawn, .pawn, .none, .none, .rook,
             .none, .none, .none, .none, .pawn, .none, .none, .none,
             .none, .none, .none, .none, .none, .none, .none, .none,
             .none, .none, .none, .none, .none, .none, .none, .king],
    pieces := #v[0, bit 35 ||| bit 36 ||| bit 44, 0, 0, bit 39, 0, bit 32 ||| bit 63],
    colors := #v[bit 32 ||| bit 36, bit 35 ||| bit 39 ||| bit 44 ||| bit 63],
    hashes := [], fullMoves := 1, stm := .white, ep := 43, castles := 0#4, fifty := 0 }

/-- White Ke1 Pe4, Black Kh8 Pe5: the only white pawn is blocked. -/
def blockB : Board :=
  { sq := #v[.none, .none, .none, .none, .king, .none, .none, .none,
             .none, .none, .none, .none, .none, .none, .none, .none,
             .none, .none, .none, .none, .none, .none, .none, .none,
             .none, .none, .none, .none, .pawn, .none, .none, .none,
             .none, .none, .none, .none, .pawn, .none, .none, .none,
             .none, .none, .none, .none, .none, .none, .none, .none,
             .none, .none, .none, .none, .none, .none, .none, .none,
             .none, .none, .none, .none, .none, .none, .none, .king],
    pieces := #v[0, bit 28 ||| bit 36, 0, 0, 0, 0, bit 4 ||| bit 63],
    colors := #v[bit 4 ||| bit 28, bit 36 ||| bit 63],
    hashes := [], fullMoves := 1, stm := .white, ep := 0, castles := 0#4, fifty := 0 }

/-- the hypotheses of `stPawn_iff` from decidable facts (`Rules.inCheck` is the rule book's test). -/
theorem hyps_of {b : Board} {K : Nat} (hv : Board.valid b = true) (hK : K < 64)
    (hk : b.colorBB b.stm &&& b.pieceBB .king = bit K) (hc : Rules.inCheck (abs b) b.stm = false) :
    Ctx b K ∧ ¬ Chk b b.occ 0 K := by
  have cx : Ctx b K := ⟨hv, WFP_of_valid hv, hK, hk⟩
  refine ⟨cx, ?_⟩
  rw [← inCheck_iff_Chk cx, inCheck_iff cx.wf, hc]
  exact Bool.noConfusion

theorem freeB_hyps : Ctx freeB 4 ∧ ¬ Chk freeB freeB.occ 0 4 :=
  hyps_of (by decide +kernel) (by decide) (by decide +kernel) (by decide +kernel)
theorem pinB_hyps : Ctx pinB 4 ∧ ¬ Chk pinB pinB.occ 0 4 :=
  hyps_of (by decide +kernel) (by decide) (by decide +kernel) (by decide +kernel)
theorem epB_hyps : Ctx epB 7 ∧ ¬ Chk epB epB.occ 0 7 :=
  hyps_of (by decide +kernel) (by decide) (by decide +kernel) (by decide +kernel)
theorem epPinB_hyps : Ctx epPinB 32 ∧ ¬ Chk epPinB epPinB.occ 0 32 :=
  hyps_of (by decide +kernel) (by decide) (by decide +kernel) (by decide +kernel)
theorem blockB_hyps : Ctx blockB 4 ∧ ¬ Chk blockB blockB.occ 0 4 :=
  hyps_of (by decide +kernel) (by decide) (by decide +kernel) (by decide +kernel)

/-- evaluate the flags on a concrete board: the magic lookups from the king square `K` are replaced
    by the ray walks they equal (C12), which the kernel can run. -/
macro "flag_decide" K:term : tactic =>
  `(tactic| (simp only [stFreePawn, stPawns, stEp, maybePinnedBB, exit1, exit2, pushT, capT, Board.sliderHits,
      C12.bishopMoves_eq $K (by decide), C12.rookMoves_eq $K (by decide)]; decide +kernel))

/-- only the first exit fires. -/
example : stFreePawn freeB 4 = true ∧ stPawns freeB 4 = false ∧ stEp freeB 4 = false := by flag_decide 4
example : HasLegal freeB .pawn := stFreePawn_complete freeB_hyps.1 freeB_hyps.2 (by flag_decide 4)

/-- only the loop over the seen pawns fires (second test: capture of the pinner). -/
example : stFreePawn pinB 4 = false ∧ stPawns pinB 4 = true ∧ stEp pinB 4 = false := by flag_decide 4
example : exit1 pinB 4 11 = false ∧ exit2 pinB 4 11 = true := by flag_decide 4
example : HasLegal pinB .pawn := stPawns_complete pinB_hyps.1 pinB_hyps.2 (by flag_decide 4)

/-- only the en-passant loop fires. -/
example : stFreePawn epB 7 = false ∧ stPawns epB 7 = false ∧ stEp epB 7 = true := by flag_decide 7
example : HasLegal epB .pawn := stEp_complete epB_hyps.1 epB_hyps.2 (by flag_decide 7)

/-- an en-passant capture exists pseudo-legally but would expose the king along the rank: no exit fires. -/
example : ¬ HasLegal epPinB .pawn :=
  stPawn_sound epPinB_hyps.1 epPinB_hyps.2 (by flag_decide 32) (by flag_decide 32) (by flag_decide 32)

/-- a pawn exists but cannot move: no exit fires. -/
example : ¬ HasLegal blockB .pawn :=
  stPawn_sound blockB_hyps.1 blockB_hyps.2 (by flag_decide 4) (by flag_decide 4) (by flag_decide 4)

example : HasLegal freeB .pawn :=
  (stPawn_iff freeB_hyps.1 freeB_hyps.2).1 (by flag_decide 4)

end ChessVerif.Mate.StalePawns.Examples
