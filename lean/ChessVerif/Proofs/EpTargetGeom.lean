/-
  C02, en-passant clause, part 1: the shape of a generated double pawn push (`DP`), the squares
  `CanEnPassant` computes from the destination (passed square, origin), and the set `ables` of enemy
  pawns standing beside the destination (`Able`).
-/
import ChessVerif.Proofs.BridgePL

namespace ChessVerif.EpTarget
open ChessVerif Board Rules Bridge

/-- `|src − dst|` as `MakeMove` computes it. -/
def mvDiff (m : Move) : Nat :=
  if Move.src m ≥ Move.dst m then Move.src m - Move.dst m else Move.dst m - Move.src m

/-- the passed square of a double push. -/
def mid (m : Move) : Nat := (Move.src m + Move.dst m) / 2

/-- the facts of a generated double pawn push. -/
structure DP (b : Board) (m : Move) : Prop where
  promo0 : Move.promo m = 0
  own : (b.colorBB b.stm).getLsbD (Move.src m) = true
  pawn : b.pieceAt (Move.src m) = Piece.pawn
  ahead : PL.ahead b.stm (Move.src m) 16 (Move.dst m)
  rank1 : PL.relRank b.stm (Move.src m) = 1
  dst_empty : b.occ.getLsbD (Move.dst m) = false
  mid_empty : b.occ.getLsbD (mid m) = false

/-- a generated move of a pawn over a distance of 16 is a double push from the second rank over
    two vacant squares, without promotion bits. -/
theorem dp_of_gen {b : Board} {m : Move} (hv : Board.valid b = true) (hm : m ∈ MoveGen.gen b)
    (hp : b.pieceAt (Move.src m) = Piece.pawn) (hd : mvDiff m = 16) : DP b m := by
  have hw := WFP_of_valid hv
  obtain ⟨_, hPL⟩ := (PL.gen_iff_PL (PL.PLDomain_of_valid hv) m).1 hm
  obtain ⟨hown, _, hk⟩ := (PL_iff_kind hw _ _ _ (PL.src_lt m)).1 hPL
  rw [hp] at hk
  obtain ⟨hpr, hshape⟩ := hk
  unfold mvDiff at hd
  have h2 : PL.PLpush2 b (Move.src m) (Move.dst m) := by
    rcases hshape with h | h | h | h
    · exfalso
      have := h.1
      revert this
      cases b.stm <;> simp only [PL.ahead] <;> intro h' <;> split at hd <;> omega
    · exact h
    · exfalso
      have := h.1
      revert this
      cases b.stm <;> simp only [PL.capGeom] <;> intro h' <;> split at hd <;> omega
    · exfalso
      have := h.1
      revert this
      cases b.stm <;> simp only [PL.capGeom] <;> intro h' <;> split at hd <;> omega
  obtain ⟨a1, a2, a3, a4⟩ := h2
  refine ⟨?_, hown, hp, a1, a2, a3, a4⟩
  unfold PL.promoOK at hpr
  rw [if_neg (by omega)] at hpr
  exact hpr

/-- the numbers: origin on the second rank, destination two ranks ahead, passed square between. -/
theorem DP.nums {b : Board} {m : Move} (h : DP b m) :
    (b.stm = Color.white ∧ Move.src m / 8 = 1 ∧ Move.dst m = Move.src m + 16 ∧ mid m = Move.src m + 8) ∨
    (b.stm = Color.black ∧ Move.src m / 8 = 6 ∧ Move.dst m + 16 = Move.src m ∧ mid m = Move.dst m + 8) := by
  have h1 := h.ahead
  have h2 := h.rank1
  unfold mid
  cases hc : b.stm <;> rw [hc] at h1 h2 <;> simp only [PL.ahead, PL.relRank] at h1 h2
  · left; refine ⟨rfl, h2, h1, ?_⟩; omega
  · right
    have := PL.src_lt m
    refine ⟨rfl, by omega, h1, ?_⟩; omega

theorem DP.mid_lt {b : Board} {m : Move} (_h : DP b m) : mid m < 64 := by
  have := PL.src_lt m; have := PL.dst_lt m
  unfold mid; omega

theorem mvDiff_of_dp {b : Board} {m : Move} (h : DP b m) : mvDiff m = 16 := by
  unfold mvDiff
  rcases h.nums with ⟨_, _, h1, _⟩ | ⟨_, _, h1, _⟩ <;> split <;> omega

/-! ### the enemy pawns beside the destination -/

/-- `a` carries an enemy pawn on the rank of the destination `d`, on a neighbouring file. -/
def Able (b : Board) (d a : Nat) : Prop :=
  a < 64 ∧ ((a + 1 = d ∧ d % 8 ≠ 0) ∨ (a = d + 1 ∧ d % 8 ≠ 7)) ∧
    b.pieceAt a = Piece.pawn ∧ (b.colorBB b.stm.flip).getLsbD a = true

/-- the set `ables` of `CanEnPassant`. -/
def ables (b : Board) (d : Nat) : BB :=
  (((bit d &&& ~~~ AFile) >>> 1) ||| ((bit d &&& ~~~ HFile) <<< 1)) &&& b.pieceBB .pawn &&& b.colorBB b.stm.flip

theorem mem_ables {b : Board} (hw : WFP b) (d a : Nat) (hd : d < 64) :
    a ∈ bits (ables b d) ↔ Able b d a := by
  rw [mem_bits]
  unfold ables Able
  constructor
  · rintro ⟨ha, h⟩
    rw [BitVec.getLsbD_and, BitVec.getLsbD_and, Bool.and_eq_true, Bool.and_eq_true,
      hw.piece_iff a ha .pawn (by decide)] at h
    obtain ⟨⟨hg, hp⟩, hc⟩ := h
    refine ⟨ha, ?_, hp, hc⟩
    simp only [BitVec.getLsbD_or, BitVec.getLsbD_shiftLeft, BitVec.getLsbD_ushiftRight, PL.bit_notA _ _ hd,
      PL.bit_notH _ _ hd, Bool.or_eq_true, Bool.and_eq_true, decide_eq_true_eq, Bool.not_eq_true',
      decide_eq_false_iff_not] at hg
    omega
  · rintro ⟨ha, hg, hp, hc⟩
    refine ⟨ha, ?_⟩
    rw [BitVec.getLsbD_and, BitVec.getLsbD_and, Bool.and_eq_true, Bool.and_eq_true,
      hw.piece_iff a ha .pawn (by decide)]
    refine ⟨⟨?_, hp⟩, hc⟩
    simp only [BitVec.getLsbD_or, BitVec.getLsbD_shiftLeft, BitVec.getLsbD_ushiftRight, PL.bit_notA _ _ hd,
      PL.bit_notH _ _ hd, Bool.or_eq_true, Bool.and_eq_true, decide_eq_true_eq, Bool.not_eq_true',
      decide_eq_false_iff_not]
    omega

/-- the occupancy `CanEnPassant` hands to `IsAttacked` for the capturer on `a`. -/
def epOcc (b : Board) (m : Move) (a : Nat) : BB :=
  (b.occ ||| bit (mid m)) &&& ~~~ (bit (Move.dst m) ||| bit a ||| bit (Move.src m))

/-- `CanEnPassant(to)` for a double push, with the squares it computes named. -/
theorem canEnPassant_eq {b : Board} {m : Move} (h : DP b m) :
    b.canEnPassant (Move.dst m) =
      (bits (ables b (Move.dst m))).any fun a =>
        !(b.isAttacked b.stm (epOcc b m a) (b.pieceBB .king &&& b.colorBB b.stm.flip)) := by
  unfold Board.canEnPassant ables epOcc
  rcases h.nums with ⟨hc, _, h1, h2⟩ | ⟨hc, _, h1, h2⟩
  · have e1 : Move.dst m - 8 = mid m := by omega
    have e2 : Move.dst m - 16 = Move.src m := by omega
    simp only [hc, e1, e2]
  · have e1 : Move.dst m + 8 = mid m := by omega
    have e2 : Move.dst m + 16 = Move.src m := by omega
    simp only [hc, e1, e2]

theorem canEnPassant_iff_able {b : Board} {m : Move} (hw : WFP b) (h : DP b m) :
    b.canEnPassant (Move.dst m) = true ↔
      ∃ a, Able b (Move.dst m) a ∧
        b.isAttacked b.stm (epOcc b m a) (b.pieceBB .king &&& b.colorBB b.stm.flip) = false := by
  rw [canEnPassant_eq h, List.any_eq_true]
  constructor
  · rintro ⟨a, ha, hf⟩
    exact ⟨a, (mem_ables hw _ a (PL.dst_lt m)).1 ha, by simpa using hf⟩
  · rintro ⟨a, ha, hf⟩
    exact ⟨a, (mem_ables hw _ a (PL.dst_lt m)).2 ha, by simp [hf]⟩

/-- the squares involved in the capture by `a` are pairwise distinct, and the capturer is beside
    the destination (coordinates). -/
theorem able_nums {b : Board} {m : Move} (h : DP b m) {a : Nat} (ha : Able b (Move.dst m) a) :
    a / 8 = Move.dst m / 8 ∧ (a % 8 + 1 = Move.dst m % 8 ∨ a % 8 = Move.dst m % 8 + 1) ∧
      a ≠ Move.dst m ∧ a ≠ Move.src m ∧ a ≠ mid m ∧ mid m ≠ Move.dst m ∧ mid m ≠ Move.src m ∧
      Move.dst m ≠ Move.src m ∧ mid m % 8 = Move.dst m % 8 ∧ 8 * (a / 8) + mid m % 8 = Move.dst m := by
  obtain ⟨_, hg, _, _⟩ := ha
  have := PL.src_lt m; have := PL.dst_lt m
  rcases h.nums with ⟨_, h0, h1, h2⟩ | ⟨_, h0, h1, h2⟩ <;> omega

end ChessVerif.EpTarget
