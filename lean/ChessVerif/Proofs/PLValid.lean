/-
  C05 — the domain predicate `PLDomain` follows from `Board.valid` (representation invariant plus
  `Rules.valid` of the abstraction): one king, no pawn on the last rank, castling rights only with the
  king at home, en-passant target vacant and on the mover's 6th rank.
-/
import ChessVerif.Proofs.PLDefs
namespace ChessVerif.PL
open ChessVerif

theorem abs_at (b : Board) (s : Nat) (hs : s < 64) : b.abs.at_ s = b.manAt s := by
  simp [Rules.Pos.at_, Board.abs, Vector.getD, hs]

theorem abs_has {b : Board} (hw : b.wf = true) (s : Nat) (hs : s < 64) (c : Color) (k : Piece) :
    b.abs.has s c k = true ↔ (b.colorBB c).getLsbD s = true ∧ b.pieceAt s = k := by
  have hdis := wf_disjoint hw s hs
  simp only [Rules.Pos.has, abs_at b s hs, Board.manAt]
  cases hW : (b.colorBB .white).getLsbD s <;> cases hB : (b.colorBB .black).getLsbD s <;> cases c <;>
    simp_all

theorem abs_empty (b : Board) (s : Nat) (hs : s < 64) (h : b.abs.empty s = true) : b.occ.getLsbD s = false := by
  simp only [Rules.Pos.empty, abs_at b s hs, Board.manAt] at h
  unfold Board.occ
  cases hW : (b.colorBB .white).getLsbD s <;> cases hB : (b.colorBB .black).getLsbD s <;> simp_all

theorem bits_singleton (K : BB) (k : Nat) (h : bits K = [k]) : k < 64 ∧ K = bit k := by
  have hk : k < 64 := bits_lt (by rw [h]; simp)
  refine ⟨hk, ?_⟩
  apply BitVec.eq_of_getLsbD_eq
  intro i hi
  rw [bit_getLsbD k i hk]
  have := @mem_bits K i
  rw [h] at this
  simp only [List.mem_singleton, hi, true_and] at this
  cases hg : K.getLsbD i
  · have : ¬ i = k := fun e => by simp [this.1 e] at hg
    simp [Ne.symm this]
  · simp [(this.2 hg).symm]

theorem castle_bit_aux : ∀ (n : Fin 16) (k : Fin 4),
    (BitVec.ofFin n : BitVec 4) &&& (1#4 <<< k.val) ≠ 0 → (BitVec.ofFin n : BitVec 4).getLsbD k.val = true := by
  decide

theorem castle_bit_get (c : Castles) (col : Color) (side : Nat) (hs : side < 2)
    (h : c &&& Board.castleBit col side ≠ 0) : c.getLsbD (2 * col.toNat + side) = true := by
  have hk : 2 * col.toNat + side < 4 := by cases col <;> simp [Color.toNat] <;> omega
  exact castle_bit_aux c.toFin ⟨_, hk⟩ h

/-- **`Board.valid` provides every hypothesis of the C05 proof.** -/
theorem PLDomain_of_valid {b : Board} (hv : b.valid = true) : PLDomain b := by
  unfold Board.valid at hv
  rw [Bool.and_eq_true] at hv
  obtain ⟨hw, hr⟩ := hv
  simp only [Rules.valid, Bool.and_eq_true] at hr
  obtain ⟨⟨⟨⟨⟨⟨⟨⟨⟨⟨⟨hA, hB⟩, _⟩, _⟩, hE1⟩, hE2⟩, hE3⟩, hE4⟩, hEP⟩, _⟩, _⟩, _⟩ := hr
  have hcount : ∀ c, Rules.count b.abs c .king = 1 := by
    intro c
    simp only [List.all_cons, List.all_nil, Bool.and_true, Bool.and_eq_true, beq_iff_eq] at hA
    cases c
    · exact hA.1.1
    · exact hA.2.1
  have hK : ∀ c, ∃ k, k < 64 ∧ b.colorBB c &&& b.pieceBB .king = bit k := by
    intro c
    have h1 := hcount c
    have e : (List.range 64).filter (fun s => b.abs.has s c .king) = bits (b.colorBB c &&& b.pieceBB .king) := by
      unfold bits
      apply List.filter_congr
      intro s hs
      have hs := List.mem_range.1 hs
      rw [Bool.eq_iff_iff, abs_has hw s hs, BitVec.getLsbD_and, Bool.and_eq_true, wf_piece hw s hs .king (by decide)]
    unfold Rules.count at h1
    rw [e] at h1
    obtain ⟨k, hk⟩ := List.length_eq_one_iff.1 h1
    exact ⟨k, bits_singleton _ k hk⟩
  have hkingAt : ∀ c s, s < 64 → b.abs.has s c .king = true → (b.colorBB c &&& b.pieceBB .king).getLsbD s = true := by
    intro c s hs h
    rw [abs_has hw s hs] at h
    rw [BitVec.getLsbD_and, Bool.and_eq_true, wf_piece hw s hs .king (by decide)]
    exact h
  refine ⟨hw, hK b.stm, ?_, ?_, ?_, ?_⟩
  · -- no pawn of the side to move on its last rank
    intro s hs hS hP
    have hpa := (wf_piece hw s hs .pawn (by decide)).1 hP
    have hhas : b.abs.has s b.stm .pawn = true := (abs_has hw s hs _ _).2 ⟨hS, hpa⟩
    have := List.all_eq_true.1 hB s (List.mem_range.2 hs)
    cases hc : b.stm <;> rw [hc] at hhas <;> simp [hhas] at this <;> simp only [relRank] <;> omega
  · -- short castling right
    intro h
    have hbit := castle_bit_get _ _ 0 (by omega) h
    cases hc : b.stm <;> rw [hc] at hbit
    · have hr : b.abs.rights.wk = true := hbit
      rw [hr] at hE1
      simp only [Bool.not_true, Bool.false_or, Bool.and_eq_true] at hE1
      exact hkingAt _ _ (by decide) hE1.1
    · have hr : b.abs.rights.bk = true := hbit
      rw [hr] at hE3
      simp only [Bool.not_true, Bool.false_or, Bool.and_eq_true] at hE3
      exact hkingAt _ _ (by decide) hE3.1
  · -- long castling right
    intro h
    have hbit := castle_bit_get _ _ 1 (by omega) h
    cases hc : b.stm <;> rw [hc] at hbit
    · have hr : b.abs.rights.wq = true := hbit
      rw [hr] at hE2
      simp only [Bool.not_true, Bool.false_or, Bool.and_eq_true] at hE2
      exact hkingAt _ _ (by decide) hE2.1
    · have hr : b.abs.rights.bq = true := hbit
      rw [hr] at hE4
      simp only [Bool.not_true, Bool.false_or, Bool.and_eq_true] at hE4
      exact hkingAt _ _ (by decide) hE4.1
  · -- en-passant target
    intro hep
    have hepa : b.abs.ep = some b.ep := by simp [Board.abs, hep]
    have hturn : b.abs.turn = b.stm := rfl
    rw [hepa, hturn] at hEP
    simp only [Bool.and_eq_true, decide_eq_true_eq, beq_iff_eq] at hEP
    obtain ⟨⟨⟨h64, hrank⟩, hempty⟩, _⟩ := hEP
    refine ⟨h64, ?_, abs_empty b _ h64 hempty⟩
    cases hc : b.stm <;> rw [hc] at hrank <;>
      simp only [Rules.rank, Rules.homeRank, Rules.up, Color.flip, relRank] at hrank ⊢ <;> omega

end ChessVerif.PL
