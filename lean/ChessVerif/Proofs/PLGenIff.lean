/-
  C05 — generator ≡ set-level predicate: `m ∈ gen b ↔ m < 32768 ∧ PL b (src m) (dst m) (promo m)`.
  The eighteen routine calls of `GenNoisy ++ GenNotNoisy` are regrouped by piece kind (noisy and
  quiet halves of each kind merge into one clause of `PL`).
-/
import ChessVerif.Proofs.PLGen
namespace ChessVerif.PL
open ChessVerif MoveGen

theorem mem_gen_regroup (b : Board) (m : Nat) :
    m ∈ gen b ↔
      (m ∈ kingMoves (G.of b) b (G.of b).them ∨ m ∈ kingMoves (G.of b) b (~~~(G.of b).them)) ∨
      (m ∈ knightMoves (G.of b) b (G.of b).them ∨ m ∈ knightMoves (G.of b) b (~~~(G.of b).them)) ∨
      (m ∈ bishopMoves (G.of b) b (G.of b).them ∨ m ∈ bishopMoves (G.of b) b (~~~(G.of b).them)) ∨
      (m ∈ rookMoves (G.of b) b (G.of b).them ∨ m ∈ rookMoves (G.of b) b (~~~(G.of b).them)) ∨
      (m ∈ queenMoves (G.of b) b (G.of b).them ∨ m ∈ queenMoves (G.of b) b (~~~(G.of b).them)) ∨
      m ∈ shortCastle (G.of b) b ∨ m ∈ longCastle (G.of b) b ∨
      m ∈ singlePushMoves (G.of b) b ∨ m ∈ promoPushMoves (G.of b) b ∨ m ∈ doublePushMoves (G.of b) b ∨
      m ∈ pawnCaptureMoves (G.of b) b ∨ m ∈ pawnCapturePromoMoves (G.of b) b ∨ m ∈ enPassant (G.of b) b := by
  simp only [gen, genNoisy, genNotNoisy, List.mem_append]
  apply Iff.of_eq; ac_rfl

theorem pieceMoves_both (pcs : BB) (att : Nat → BB) (self them : BB) (m : Nat) :
    (m ∈ pieceMoves pcs att self them ∨ m ∈ pieceMoves pcs att self (~~~them)) ↔
      m < 32768 ∧ Move.promo m = 0 ∧ pcs.getLsbD (Move.src m) = true ∧
        (att (Move.src m)).getLsbD (Move.dst m) = true ∧ self.getLsbD (Move.dst m) = false := by
  rw [mem_pieceMoves, mem_pieceMoves, not_get _ _ (dst_lt m)]
  constructor
  · rintro (⟨hm, h1, h2, h3, h4, _⟩ | ⟨hm, h1, h2, h3, h4, _⟩) <;> exact ⟨hm, h1, h2, h3, h4⟩
  · rintro ⟨hm, h1, h2, h3, h4⟩
    by_cases hT : them.getLsbD (Move.dst m) = true
    · exact Or.inl ⟨hm, h1, h2, h3, h4, hT⟩
    · exact Or.inr ⟨hm, h1, h2, h3, h4, by simpa using hT⟩

/-- shape shared by the five `pieceMoves` routines. -/
theorem piece_group (b : Board) (q : Piece) (att : Nat → BB) (m : Nat) :
    (m ∈ pieceMoves (b.colorBB b.stm &&& b.pieceBB q) att (b.colorBB b.stm) (b.colorBB b.stm.flip) ∨
     m ∈ pieceMoves (b.colorBB b.stm &&& b.pieceBB q) att (b.colorBB b.stm) (~~~b.colorBB b.stm.flip)) ↔
      m < 32768 ∧ (b.colorBB b.stm).getLsbD (Move.src m) = true ∧ (b.colorBB b.stm).getLsbD (Move.dst m) = false ∧
        PLpiece b q (att (Move.src m)) (Move.src m) (Move.dst m) (Move.promo m) := by
  rw [pieceMoves_both]
  simp only [PLpiece, BitVec.getLsbD_and, Bool.and_eq_true]
  constructor
  · rintro ⟨hm, h1, ⟨h2, h2'⟩, h3, h4⟩; exact ⟨hm, h2, h4, h1, h2', h3⟩
  · rintro ⟨hm, h2, h4, h1, h2', h3⟩; exact ⟨hm, h1, ⟨h2, h2'⟩, h3, h4⟩

theorem king_group {b : Board} (hd : PLDomain b) (m : Nat) :
    (m ∈ kingMoves (G.of b) b (G.of b).them ∨ m ∈ kingMoves (G.of b) b (~~~(G.of b).them)) ↔
      m < 32768 ∧ (b.colorBB b.stm).getLsbD (Move.src m) = true ∧ (b.colorBB b.stm).getLsbD (Move.dst m) = false ∧
        PLpiece b .king (Attacks.kingMoves (Move.src m)) (Move.src m) (Move.dst m) (Move.promo m) := by
  obtain ⟨k, hk, hK⟩ := hd.oneKing
  rw [mem_kingMoves (G.of b) hk hK, mem_kingMoves (G.of b) hk hK, not_get _ _ (dst_lt m)]
  simp only [PLpiece, G.of]
  constructor
  · rintro (⟨hm, h1, h2, h3, h4, _⟩ | ⟨hm, h1, h2, h3, h4, _⟩) <;>
    · have := (king_sq hk hK (Move.src m)).2 h2
      exact ⟨hm, this.1, h4, h1, this.2, h3⟩
  · rintro ⟨hm, hS, h4, h1, hKi, h3⟩
    have h2 := (king_sq hk hK (Move.src m)).1 ⟨hS, hKi⟩
    by_cases hT : (b.colorBB b.stm.flip).getLsbD (Move.dst m) = true
    · exact Or.inl ⟨hm, h1, h2, h3, h4, hT⟩
    · exact Or.inr ⟨hm, h1, h2, h3, h4, by simpa using hT⟩

theorem occ_false {b : Board} {s : Nat} (h : b.occ.getLsbD s = false) :
    (b.colorBB b.stm).getLsbD s = false ∧ (b.colorBB b.stm.flip).getLsbD s = false := by
  rw [occ_get] at h; simpa using h

theorem short_group {b : Board} (hd : PLDomain b) (m : Nat) :
    m ∈ shortCastle (G.of b) b ↔
      m < 32768 ∧ (b.colorBB b.stm).getLsbD (Move.src m) = true ∧ (b.colorBB b.stm).getLsbD (Move.dst m) = false ∧
        PLshort b (Move.src m) (Move.dst m) (Move.promo m) := by
  rw [mem_shortCastle hd]
  constructor
  · rintro ⟨hm, h⟩
    obtain ⟨_, hf, ht, _, hr, _, h2, _⟩ := id h
    have := hd.castleShortHome hr
    simp only [BitVec.getLsbD_and, Bool.and_eq_true] at this
    exact ⟨hm, by rw [hf]; exact this.1, by rw [ht]; exact (occ_false h2).1, h⟩
  · rintro ⟨hm, _, _, h⟩; exact ⟨hm, h⟩

theorem long_group {b : Board} (hd : PLDomain b) (m : Nat) :
    m ∈ longCastle (G.of b) b ↔
      m < 32768 ∧ (b.colorBB b.stm).getLsbD (Move.src m) = true ∧ (b.colorBB b.stm).getLsbD (Move.dst m) = false ∧
        PLlong b (Move.src m) (Move.dst m) (Move.promo m) := by
  rw [mem_longCastle hd]
  constructor
  · rintro ⟨hm, h⟩
    obtain ⟨_, hf, ht, _, hr, _, h2, _⟩ := id h
    have := hd.castleLongHome hr
    simp only [BitVec.getLsbD_and, Bool.and_eq_true] at this
    exact ⟨hm, by rw [hf]; exact this.1, by rw [ht]; exact (occ_false h2).1, h⟩
  · rintro ⟨hm, _, _, h⟩; exact ⟨hm, h⟩

theorem capGeom_rank (c : Color) (f t : Nat) (hf : f < 64) (ht : t < 64) (h : capGeom c f t) :
    relRank c t = relRank c f + 1 := by
  cases c <;> simp only [capGeom, relRank] at * <;> omega

theorem pawn_group {b : Board} (hd : PLDomain b) (m : Nat) :
    (m ∈ singlePushMoves (G.of b) b ∨ m ∈ promoPushMoves (G.of b) b ∨ m ∈ doublePushMoves (G.of b) b ∨
      m ∈ pawnCaptureMoves (G.of b) b ∨ m ∈ pawnCapturePromoMoves (G.of b) b ∨ m ∈ enPassant (G.of b) b) ↔
      m < 32768 ∧ (b.colorBB b.stm).getLsbD (Move.src m) = true ∧ (b.colorBB b.stm).getLsbD (Move.dst m) = false ∧
        PLpawn b (Move.src m) (Move.dst m) (Move.promo m) := by
  rw [mem_singlePush hd, mem_promoPush, mem_doublePush, mem_pawnCapture, mem_pawnCapturePromo, mem_enPassant hd]
  have hf := src_lt m
  have ht := dst_lt m
  generalize Move.src m = f at *
  generalize Move.dst m = t at *
  generalize Move.promo m = p at *
  simp only [PLpawn, promoOK]
  constructor
  · rintro (⟨hm, hp, hS, hP, hr, h⟩ | ⟨hm, hp, hS, hP, hr, h⟩ | ⟨hm, hp, hS, hP, h⟩ | ⟨hm, hp, hS, hP, hr, h⟩ |
      ⟨hm, hp, hS, hP, hr, h⟩ | ⟨hm, hp, hS, hP, h⟩)
    · exact ⟨hm, hS, (occ_false h.2).1, hP, by simp [hr, hp], Or.inl h⟩
    · exact ⟨hm, hS, (occ_false h.2).1, hP, by simp [hr, hp], Or.inl h⟩
    · have : relRank b.stm f ≠ 6 := by rw [h.2.1]; decide
      exact ⟨hm, hS, (occ_false h.2.2.1).1, hP, by simp [this, hp], Or.inr (Or.inl h)⟩
    · exact ⟨hm, hS, them_not_self hd.wf t ht h.2, hP, by simp [hr, hp], Or.inr (Or.inr (Or.inl h))⟩
    · exact ⟨hm, hS, them_not_self hd.wf t ht h.2, hP, by simp [hr, hp], Or.inr (Or.inr (Or.inl h))⟩
    · obtain ⟨hg, hep, rfl⟩ := id h
      obtain ⟨_, h7, hO⟩ := hd.ep hep
      have := capGeom_rank _ _ _ hf ht hg
      have : relRank b.stm f ≠ 6 := by omega
      exact ⟨hm, hS, (occ_false hO).1, hP, by simp [this, hp], Or.inr (Or.inr (Or.inr h))⟩
  · rintro ⟨hm, hS, hT, hP, hp, h⟩
    by_cases hr : relRank b.stm f = 6
    · simp only [hr, if_true] at hp
      rcases h with h | h | h | h
      · exact Or.inr (Or.inl ⟨hm, hp, hS, hP, hr, h⟩)
      · exact absurd h.2.1 (by omega)
      · exact Or.inr (Or.inr (Or.inr (Or.inr (Or.inl ⟨hm, hp, hS, hP, hr, h⟩))))
      · obtain ⟨hg, hep, rfl⟩ := id h
        obtain ⟨_, h7, hO⟩ := hd.ep hep
        have := capGeom_rank _ _ _ hf ht hg
        omega
    · simp only [hr, if_false] at hp
      rcases h with h | h | h | h
      · exact Or.inl ⟨hm, hp, hS, hP, hr, h⟩
      · exact Or.inr (Or.inr (Or.inl ⟨hm, hp, hS, hP, h⟩))
      · exact Or.inr (Or.inr (Or.inr (Or.inl ⟨hm, hp, hS, hP, hr, h⟩)))
      · exact Or.inr (Or.inr (Or.inr (Or.inr (Or.inr ⟨hm, hp, hS, hP, h⟩))))

/-- **generator ≡ set-level predicate**: the generated list contains exactly the words that satisfy `PL`. -/
theorem gen_iff_PL {b : Board} (hd : PLDomain b) (m : Nat) :
    m ∈ gen b ↔ m < 32768 ∧ PL b (Move.src m) (Move.dst m) (Move.promo m) := by
  rw [mem_gen_regroup, king_group hd, short_group hd, long_group hd, pawn_group hd]
  simp only [knightMoves, bishopMoves, rookMoves, queenMoves, G.of, piece_group, PL]
  simp only [← and_or_left]

end ChessVerif.PL
