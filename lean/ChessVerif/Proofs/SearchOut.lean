/-
  What the reported lines say: depths strictly increase, node counts never decrease, and the move
  returned is the head of the most recent non-empty reported variation.
-/
import ChessVerif.Proofs.SearchGo

namespace ChessVerif
namespace Search

variable {σ π : Type} [PsInv σ]

omit [PsInv σ] in
theorem sp_nodes (s : St σ) (p : Bool) : (s.setPondering p).nodes = s.nodes := rfl
omit [PsInv σ] in
theorem sp_ps (s : St σ) (p : Bool) : (s.setPondering p).ps = s.ps := rfl

/-- the most recent reported line with a non-empty variation (`out` is newest first). -/
def lastPV : List Info → Option Info
  | [] => none
  | i :: rest => if i.full && !i.pv.isEmpty then some i else lastPV rest

/-- newest first: every older line has a smaller depth and a node count not larger. -/
def Sorted (out : List Info) : Prop :=
  out.Pairwise fun newer older => older.depth < newer.depth ∧ older.nodes ≤ newer.nodes

theorem lastPV_mem {out : List Info} {i : Info} (h : lastPV out = some i) : i ∈ out ∧ i.pv ≠ [] := by
  induction out with
  | nil => simp [lastPV] at h
  | cons j rest ih =>
    simp only [lastPV] at h
    split at h
    · next hj =>
      cases h
      simp only [Bool.and_eq_true, Bool.not_eq_true', List.isEmpty_eq_false_iff] at hj
      exact ⟨List.mem_cons_self, hj.2⟩
    · exact ⟨List.mem_cons_of_mem _ (ih h).1, (ih h).2⟩

structure OutInv (L : Limits) (idD : Int) (v : IDVars) (s : St σ) : Prop where
  below : ∀ i ∈ v.out, i.depth < idD ∧ i.nodes ≤ s.nodes
  sorted : Sorted v.out
  nz : ∀ i ∈ v.out, ∀ m rest, i.pv = m :: rest → m ≠ 0
  head : L.output = true → match lastPV v.out with | some i => i.pv.head? = some v.move | none => v.move = 0

structure OutPost (L : Limits) (r : Result σ) : Prop where
  sorted : Sorted r.out
  head : L.output = true → ∀ i, lastPV r.out = some i → i.pv.head? = some r.move

theorem head_post {L : Limits} {out : List Info} {mv : Move}
    (h : L.output = true → match lastPV out with | some i => i.pv.head? = some mv | none => mv = 0) :
    L.output = true → ∀ i, lastPV out = some i → i.pv.head? = some mv := by
  intro ho i hi
  have := h ho
  rw [hi] at this
  exact this

theorem idLoop_out (c : Comp σ π) (L : Limits) (clock : Clock) {Good : Board → Prop} (hl : Laws c Good) (fuel : Nat)
    (b : Board) (hg : Good b) :
    ∀ (n : Nat) (idD : Int) (v : IDVars) (s : St σ), s.board = b → PsInv.ok s.ps → 0 ≤ idD → OutInv L idD v s →
      OutPost L (idLoop c L clock fuel n idD v s) := by
  intro n
  induction n with
  | zero => intro idD v s _ _ _ h; exact ⟨h.sorted, head_post h.head⟩
  | succ n ih =>
    intro idD v s hb hps h0 h
    simp only [idLoop]
    split
    · exact ⟨h.sorted, head_post h.head⟩
    · next hcond =>
      have hlt64 : idD < 64 := by
        apply Classical.byContradiction
        intro hge
        apply hcond
        have e1 : decide (idD < maxPlies) = false := decide_eq_false (by unfold maxPlies; omega)
        simp [e1]
      have hasp := aspiration_spec c L hl fuel idD fuel v.alpha v.beta 1 s (by rw [hb]; exact hg) hps
      generalize aspiration c L fuel idD fuel v.alpha v.beta 1 s = a at hasp ⊢
      cases a with
      | aborted s' =>
        obtain ⟨hf, _⟩ := hasp
        simp only [Asp.st] at hf
        have hnm := hf.mono.nodes_mono
        simp only
        cases ho : L.output with
        | false =>
          simp only [Bool.false_eq_true, if_false]
          split
          · exact ⟨h.sorted, fun h' => by rw [ho] at h'; cases h'⟩
          · exact ⟨h.sorted, fun h' => by rw [ho] at h'; cases h'⟩
        | true =>
          simp only [if_true]
          generalize hnl : Info.mk idD false 0 s'.nodes 0 0 [] = nl
          have hs : Sorted (nl :: v.out) := by
            refine List.Pairwise.cons (fun i hi => ?_) h.sorted
            have := h.below i hi
            rw [← hnl]
            exact ⟨this.1, Int.le_trans this.2 hnm⟩
          have hlast : lastPV (nl :: v.out) = lastPV v.out := by
            rw [← hnl]; simp [lastPV]
          split
          · next hmv0 =>
            refine ⟨hs, fun _ i hi => ?_⟩
            rw [hlast] at hi
            have hh := h.head ho
            rw [hi] at hh
            simp only at hh
            exfalso
            obtain ⟨him, hne⟩ := lastPV_mem hi
            cases hpv : i.pv with
            | nil => exact hne hpv
            | cons m rest =>
              rw [hpv, hmv0] at hh
              simp only [List.head?_cons, Option.some.injEq] at hh
              exact h.nz i him m rest hpv hh
          · refine ⟨hs, fun _ i hi => ?_⟩
            rw [hlast] at hi
            have hh := h.head ho
            rw [hi] at hh
            exact hh
      | ok al be sample s' =>
        obtain ⟨hf, hok⟩ := hasp
        simp only [Asp.st] at hf
        obtain ⟨_, hline⟩ := hok al be sample s' rfl
        rw [hb] at hline
        have hb' : s'.board = b := hf.board.trans hb
        have hnm := hf.mono.nodes_mono
        have hact : s'.pv.active = s'.pv.row 0 := rfl
        simp only [hact]
        generalize s'.pv.row 0 = act at hline ⊢
        have hw : wrapS8 (idD + 1) = idD + 1 := by unfold wrapS8; omega
        rw [hw]
        cases ho : L.output with
        | false =>
          simp only [Bool.false_eq_true, if_false]
          have hinv : OutInv L (idD + 1)
              { alpha := wrapS16 (sample - c.windowSize), beta := wrapS16 (sample + c.windowSize), score := sample,
                move := pickMove act v.move, ponder := pickPonder act v.ponder, reads := v.reads + 1,
                ppolls := (ponderPoll L s'.pondering v.ppolls).2, out := v.out }
              (s'.setPondering (ponderPoll L s'.pondering v.ppolls).1) :=
            ⟨fun i hi => ⟨by have := (h.below i hi).1; omega, Int.le_trans (h.below i hi).2 hnm⟩, h.sorted, h.nz,
             fun h' => by rw [ho] at h'; cases h'⟩
          split
          · exact ⟨h.sorted, fun h' => by rw [ho] at h'; cases h'⟩
          · exact ih _ _ _ hb' (hf.mono.ps_ok hps) (by omega) hinv
        | true =>
          simp only [if_true, sp_nodes, sp_ps]
          generalize hnl : Info.mk idD true sample s'.nodes (clock v.reads).1 (c.hashFull s'.ps) act = nl
          have hs : Sorted (nl :: v.out) := by
            refine List.Pairwise.cons (fun i hi => ?_) h.sorted
            have := h.below i hi
            rw [← hnl]
            exact ⟨this.1, Int.le_trans this.2 hnm⟩
          have hnz : ∀ i ∈ nl :: v.out, ∀ m rest, i.pv = m :: rest → m ≠ 0 := by
            intro i hi m rest hpv
            rcases List.mem_cons.1 hi with e | e
            · rw [e, ← hnl] at hpv
              simp only at hpv
              rw [hpv] at hline
              exact hl.gen_ne_zero _ _ hg (mem_playable.1 (legalLine_head hline)).1
            · exact h.nz i e m rest hpv
          have hhead : match lastPV (nl :: v.out) with
              | some i => i.pv.head? = some (pickMove act v.move)
              | none => pickMove act v.move = 0 := by
            cases act with
            | nil =>
              have : lastPV (nl :: v.out) = lastPV v.out := by rw [← hnl]; simp [lastPV]
              rw [this]
              exact h.head ho
            | cons m rest =>
              have : lastPV (nl :: v.out) = some nl := by rw [← hnl]; simp [lastPV]
              rw [this, ← hnl]
              rfl
          have hinv : OutInv L (idD + 1)
              { alpha := wrapS16 (sample - c.windowSize), beta := wrapS16 (sample + c.windowSize), score := sample,
                move := pickMove act v.move, ponder := pickPonder act v.ponder, reads := v.reads + 1,
                ppolls := (ponderPoll L s'.pondering v.ppolls).2, out := nl :: v.out }
              (s'.setPondering (ponderPoll L s'.pondering v.ppolls).1) := by
            refine ⟨fun i hi => ?_, hs, hnz, fun _ => hhead⟩
            rcases List.mem_cons.1 hi with e | e
            · rw [e, ← hnl]; exact ⟨by show idD < idD + 1; omega, Int.le_refl _⟩
            · exact ⟨by have := (h.below i e).1; omega, Int.le_trans (h.below i e).2 hnm⟩
          split
          · exact ⟨hs, fun _ i hi => by rw [hi] at hhead; exact hhead⟩
          · exact ih _ _ _ hb' (hf.mono.ps_ok hps) (by omega) hinv

/-- `go`: the reported lines are sorted and the returned move is the head of the last non-empty one. -/
theorem go_out (c : Comp σ π) (L : Limits) (clock : Clock) {Good : Board → Prop} (hl : Laws c Good) (fuel : Nat)
    (e : Engine σ) (b : Board) (hg : Good b) (hok : PsInv.ok e.ps) (nodes0 : Int) :
    OutPost L (go c L clock fuel e b nodes0) := by
  have h := idLoop_out c L clock hl fuel b hg 64 0
    { alpha := -Inf - 1, beta := Inf + 1, score := 0, move := 0, ponder := 0, reads := 0, ppolls := 0, out := [] }
    (goInit L e b nodes0) rfl hok (Int.le_refl 0)
    ⟨(fun _ h => by cases h), List.Pairwise.nil, (fun _ h => by cases h), fun _ => rfl⟩
  exact ⟨h.sorted, h.head⟩

end Search
end ChessVerif
