/-
  The SCORE laws of the search skeleton (`Search.ScoreLaws`, Proofs/SearchScoreLaws.lean) for the real
  component models — and the one law that does NOT hold for them.

  `ScoreLaws` demands (`nmp_floor`) that null-move pruning is not tried with `beta` below the mate
  band.  search.go guards reverse futility pruning that way (`beta > -Inf+MaxPlies`), but NOT the
  null move: `d > NMPDepthLimit && staticEval >= beta && (non-pawn material)`.  When an ancestor has
  already found a mate (its alpha is `Inf - k`), a descendant at ply `p > k` is searched with
  `beta = -(Inf - k) < -(Inf - p)`; if the reduced null search there returns a mate score
  (`>= Inf - MaxPlies`) the node returns `beta` — a score no position at ply `p` can have — and its
  parent's fail-low store hands `Inf - k` to the table at ply `p - 1`, where `Insert` re-bases it to
  `Inf - k + p - 1 > Inf`.  So the table invariant "raw values within ±Inf" (`TTValsOK`, the real
  reading of `TTok`) is not preserved by the real `nmpTry` in full generality.  (The reduced depth is
  `d - 4 - clamp((staticEval - beta)/51, 0, 64)`: the null search is deeper than quiescence only when
  `staticEval <= beta + 51 (d - 5)`, i.e. the side to move evaluates thousands of centipawns behind
  and still mates after passing; not reproduced on the engine.)

  Therefore the laws are proved for `realCompG K cs` — `realCompWith K cs` with the guard
  `beta > -Inf+MaxPlies` (the constant `Gen.Search.rfpBetaFloor` that RFP uses) added to `nmpTry` —
  and the closed theorems about `realComp K` (Props/C06real.lean) carry the run-level hypothesis
  `NmpSane`: the run coincides with the run of the guarded record (no null-move cut-off below the
  mate band happened).  With the one-line guard in search.go the hypothesis disappears.

    TTokReal ps  := PSok ps ∧ TTValsOK ps.tt      (raw table values within ±Inf)
    muReal       := men + pawns                    (Proofs/SearchRealMeasure.lean)
    tt_probe / tt_store   `Value(ply)` / `Insert(…, ply, …)` re-basing (Proofs/SearchRealScoreTT.lean)
    rfp_sound, nmp_sound, nmp_floor, lmr_late, window
                          arithmetic over the regenerated constants of Gen/Search.lean
-/
import ChessVerif.Proofs.SearchRealLaws
import ChessVerif.Proofs.SearchRealScoreTT
import ChessVerif.Proofs.SearchRealMeasure
import ChessVerif.Proofs.SearchScoreGo
import ChessVerif.Proofs.SearchScoreFree

namespace ChessVerif
namespace SearchReal
open Search

/-- `nmpTry` with the mate-band guard that `rfpCut` has: `… && beta > -Inf+MaxPlies`. -/
def nmpTryG (b : Board) (d : Int) (staticEval beta : Score) : Bool :=
  nmpTry b d staticEval beta && decide (beta > Gen.Search.rfpBetaFloor)

/-- the real components with the guarded null-move test. -/
def realCompG (K : Keys) (cs : Eval.CoeffSet Int) : Comp PS Pick :=
  { realCompWith K cs with nmpTry := nmpTryG }

/-- the UNGUARDED test accepts `beta` below the mate band (start position, depth 2, static evaluation 0,
    `beta = -(Inf - 1)`): `ScoreLaws.nmp_floor` is false of `realCompWith`. -/
theorem nmpTry_below_floor : nmpTry Props.C05.start 2 0 (-9999) = true := by decide

theorem nmp_floor_fails (K : Keys) (cs : Eval.CoeffSet Int) :
    ¬ (∀ b d se beta, (realCompWith K cs).nmpTry b d se beta = true → (-9936 : Int) ≤ beta) :=
  fun h => absurd (h Props.C05.start 2 0 (-9999)
    (show (realCompWith K cs).nmpTry Props.C05.start 2 0 (-9999) = true from nmpTry_below_floor)) (by decide)

theorem isReal_realCompG (K : Keys) (cs : Eval.CoeffSet Int) : IsReal K (realCompG K cs) :=
  ⟨rfl, rfl, rfl, rfl, rfl, rfl, rfl, rfl, rfl⟩

theorem realCompG_laws (K : Keys) (cs : Eval.CoeffSet Int) : Laws (realCompG K cs) RealGood :=
  laws_of_isReal (isReal_realCompG K cs)

/-- the table predicate of the real components: the state invariant of the component laws, and every
    raw table value within `±Inf`. -/
def TTokReal (ps : PS) : Prop := PSok ps ∧ TTValsOK ps.tt

/-- the quiescence measure. -/
def muReal (b : Board) : Nat := mu b

theorem rfpCut_sound' (d : Int) (se beta : Score) (hd : 0 ≤ d) (hb : beta + d * 102 ≤ 32767) (h : rfpCut d se beta = true) :
    beta ≤ se := by
  unfold rfpCut at h
  simp only [Bool.and_eq_true] at h
  obtain ⟨⟨h1, h2⟩, h3⟩ := h
  have h1 := of_decide_eq_true h1
  have h2 := of_decide_eq_true h2
  have h3 := of_decide_eq_true h3
  have e8 : wrapS8 Gen.Search.params_RFPDepthLimit = 8 := by decide
  have e102 : wrapS16 Gen.Search.params_RFPScoreFactor = 102 := by decide
  have ef : Gen.Search.rfpBetaFloor = -9936 := rfl
  rw [e8] at h1
  rw [e102] at h2
  rw [ef] at h3
  simp only [Score] at *
  rw [wrapS16_id (x := d * 102) (by omega) (by omega), wrapS16_id (x := beta + d * 102) (by omega) (by omega)] at h2
  omega

theorem rfpCut_sound (d : Int) (se beta : Score) (hd : 0 ≤ d) (hb : beta ≤ rfpSafe) (h : rfpCut d se beta = true) :
    beta ≤ se := by
  have h8 : d < 8 := by
    unfold rfpCut at h
    simp only [Bool.and_eq_true] at h
    have := of_decide_eq_true h.1.1
    have e8 : wrapS8 Gen.Search.params_RFPDepthLimit = 8 := by decide
    rw [e8] at this; exact this
  unfold rfpSafe at hb
  exact rfpCut_sound' d se beta hd (by simp only [Score] at *; omega) h

/-- the parameter laws of the `GoSane`-free argument: `WindowSize = 44`, and at depths ≤ 2 the reverse
    futility margin `beta + d·102` cannot wrap for `beta ≤ Inf + 512·44`. -/
theorem real_aspLaws (K : Keys) (cs : Eval.CoeffSet Int) : AspLaws (realCompG K cs) where
  window44 := rfl
  rfp_shallow := fun d se beta hd hd2 hb h => rfpCut_sound' d se beta hd (by simp only [Score] at *; omega) h

theorem real_scoreLaws (K : Keys) (cs : Eval.CoeffSet Int) :
    ScoreLaws (realCompG K cs) RealGood TTokReal muReal where
  tt_ok := fun _ h => h.1
  tt_probe := fun ps b ply e h h0 h1 he => ttProbe_valueOK h.2 h0 h1 he
  tt_store := fun ps b d ply m v bd h h0 h1 hv hok => ⟨hok, ttStore_valsOK h.2 b d h0 h1 m bd hv⟩
  tt_failHigh := fun ps d b p hs h => ⟨failHigh_ok h.1 d b p hs, by
    show TTValsOK (failHigh ps d b p hs).tt
    rw [failHigh_tt]; exact h.2⟩
  tt_nextGen := fun ps h => ⟨nextGen_ok h.1, by
    show TTValsOK (nextGen ps).tt
    rw [nextGen_tt]; exact h.2⟩
  nmp_floor := fun b d se beta h => by
    have h' : nmpTryG b d se beta = true := h
    unfold nmpTryG at h'
    simp only [Bool.and_eq_true] at h'
    exact Int.le_of_lt (of_decide_eq_true h'.2)
  rfp_sound := fun d se beta hd hb h => rfpCut_sound d se beta hd hb h
  nmp_sound := fun b d se beta h => by
    have h' : nmpTryG b d se beta = true := h
    unfold nmpTryG nmpTry at h'
    simp only [Bool.and_eq_true] at h'
    exact of_decide_eq_true h'.1.1.2
  lmr_late := fun d q h => by
    have h' : lmrTry d q = true := h
    unfold lmrTry at h'
    simp only [Bool.and_eq_true] at h'
    exact Int.le_of_lt (of_decide_eq_true h'.2)
  window := by
    show (0 : Int) ≤ Gen.Search.params_WindowSize ∧ Gen.Search.params_WindowSize ≤ 100
    decide
  q_measure := fun ps b hs m w hg h => by
    have h' : (m, w) ∈ qMoves ps b hs := h
    exact mu_make_noisy K hg (qMoves_mem h')
  measure_bound := fun b hg => mu_le b hg

theorem ttokReal_new (buckets : Nat) : TTokReal (newEngine buckets).ps := ⟨new_ok buckets, new_valsOK buckets⟩
theorem ttokReal_clear (e : Engine PS) : TTokReal (clearEngine e).ps := ⟨clear_ok e.ps, clear_valsOK e.ps⟩

end SearchReal
end ChessVerif
