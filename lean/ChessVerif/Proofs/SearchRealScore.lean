/-
  The SCORE laws of the search skeleton (`Search.ScoreLaws`, `Search.AspLaws`) for the real component
  models, and what the real null-move test lacks.

  search.go guards reverse futility pruning against the mate band (`beta > -Inf+MaxPlies`) but NOT the
  null move: `d > NMPDepthLimit && staticEval >= beta && (non-pawn material)`.  When an ancestor has
  already found a mate (its alpha is `Inf - k`), a descendant at ply `p > k` is searched with
  `beta = -(Inf - k) < -(Inf - p)`; if the reduced null search there returns a mate score
  (`>= Inf - MaxPlies`) the node takes the mate branch and returns `beta` — a score no position at ply
  `p` can have — and if its parent then fails low, the parent's store hands `Inf - k` to the table at
  ply `p - 1`, where `Insert` re-bases it to `Inf - k + p - 1 > Inf`.  The skeleton records the event
  in the ghost flag `St.nmpOut` (Model/Search.lean `nullMove`); the range development
  (Proofs/SearchScore{Q,AB,Root,Go,Free}.lean, Proofs/SearchFinalFree.lean) is guarded by it.  The
  event itself — the parent's store of the out-of-band value — is recorded by a second ghost flag,
  `St.ttOut` (raised at the five store sites when the value stored at `ply` is not ply-consistent); the
  development Proofs/SearchScore{Q2,AB2,Root2,Go2,Free2}.lean, Proofs/SearchFinalFree2.lean is guarded by
  that flag, and Props/C06real.lean states the theorems for `realComp` under `ttOut = false`
  (`go_free_ttOut`: `nmpOut = false` implies it).

    TTokReal ps  := PSok ps ∧ TTValsOK ps.tt      (raw table values within ±Inf)
    muReal       := men + pawns                    (Proofs/SearchRealMeasure.lean)
    tt_probe / tt_store   `Value(ply)` / `Insert(…, ply, …)` re-basing (Proofs/SearchRealScoreTT.lean)
    rfp_sound, nmp_sound, lmr_late, window, AspLaws
                          arithmetic over the regenerated constants of Gen/Search.lean

  `real_scoreLaws_with` / `real_aspLaws_with`: the laws hold for `realCompWith K cs` (the unguarded,
  real record).  `realCompG K cs` is the same record with the guard added to `nmpTry`; it satisfies
  `NmpFloor` (`nmpFloor_realCompG`), so its runs never raise the flag (Proofs/SearchNmpFloor.lean),
  while `realCompWith` does not (`nmp_floor_fails`).
-/
import ChessVerif.Proofs.SearchRealLaws
import ChessVerif.Proofs.SearchRealScoreTT
import ChessVerif.Proofs.SearchRealMeasure
import ChessVerif.Proofs.SearchScoreGo
import ChessVerif.Proofs.SearchScoreFree
import ChessVerif.Proofs.SearchNmpFloor

namespace ChessVerif
namespace SearchReal
open Search

/-- `nmpTry` with the mate-band guard that `rfpCut` has: `… && beta > -Inf+MaxPlies`. -/
def nmpTryG (b : Board) (d : Int) (staticEval beta : Score) : Bool :=
  nmpTry b d staticEval beta && decide (beta > Gen.Search.rfpBetaFloor)

/-- the real components with the guarded null-move test. -/
def realCompG (K : Keys) (cs : Eval.CoeffSet Int) : Comp PS Pick :=
  { realCompWith K cs with nmpTry := nmpTryG }

/-- the UNGUARDED test accepts `beta` below the mate band (start position, depth 2, static evaluation 0,
    `beta = -(Inf - 1)`): `ScoreLaws.nmp_floor` is false of `realCompWith`. -/
theorem nmpTry_below_floor : nmpTry Props.C05.start 2 0 (-9999) = true := by decide

theorem nmp_floor_fails (K : Keys) (cs : Eval.CoeffSet Int) : ¬ NmpFloor (realCompWith K cs) :=
  fun h => absurd (h Props.C05.start 2 0 (-9999)
    (show (realCompWith K cs).nmpTry Props.C05.start 2 0 (-9999) = true from nmpTry_below_floor)) (by decide)

theorem isReal_realCompG (K : Keys) (cs : Eval.CoeffSet Int) : IsReal K (realCompG K cs) :=
  ⟨rfl, rfl, rfl, fun _ d b p hs h => failHigh_ok h d b p hs, fun _ _ _ _ _ => rfl, rfl, rfl, rfl, rfl, rfl⟩

theorem realCompG_laws (K : Keys) (cs : Eval.CoeffSet Int) : Laws (realCompG K cs) RealGood :=
  laws_of_isReal (isReal_realCompG K cs)

/-- the table predicate of the real components: the state invariant of the component laws, and every
    raw table value within `±Inf`. -/
def TTokReal (ps : PS) : Prop := PSok ps ∧ TTValsOK ps.tt

/-- the quiescence measure. -/
def muReal (b : Board) : Nat := mu b

theorem rfpCut_sound' (d : Int) (se beta : Score) (hd : 0 ≤ d) (hb : beta + d * 102 ≤ 32767) (h : rfpCut d se beta = true) :
    beta ≤ se := by
  unfold rfpCut at h
  simp only [Bool.and_eq_true] at h
  obtain ⟨⟨h1, h2⟩, h3⟩ := h
  have h1 := of_decide_eq_true h1
  have h2 := of_decide_eq_true h2
  have h3 := of_decide_eq_true h3
  have e8 : wrapS8 Gen.Search.params_RFPDepthLimit = 8 := by decide
  have e102 : wrapS16 Gen.Search.params_RFPScoreFactor = 102 := by decide
  have ef : Gen.Search.rfpBetaFloor = -9936 := rfl
  rw [e8] at h1
  rw [e102] at h2
  rw [ef] at h3
  simp only [Score] at *
  rw [wrapS16_id (x := d * 102) (by omega) (by omega), wrapS16_id (x := beta + d * 102) (by omega) (by omega)] at h2
  omega

theorem rfpCut_sound (d : Int) (se beta : Score) (hd : 0 ≤ d) (hb : beta ≤ rfpSafe) (h : rfpCut d se beta = true) :
    beta ≤ se := by
  have h8 : d < 8 := by
    unfold rfpCut at h
    simp only [Bool.and_eq_true] at h
    have := of_decide_eq_true h.1.1
    have e8 : wrapS8 Gen.Search.params_RFPDepthLimit = 8 := by decide
    rw [e8] at this; exact this
  unfold rfpSafe at hb
  exact rfpCut_sound' d se beta hd (by simp only [Score] at *; omega) h

/-- the parameter laws of the `GoSane`-free argument: `WindowSize = 44` is a safe window size (`WSafe`:
    `39..44` or `78..88`), and at depth ≤ 1 the reverse futility margin `beta + d·102` cannot wrap for
    `beta ≤ Inf + 512·44`. -/
theorem real_aspLaws_with (K : Keys) (cs : Eval.CoeffSet Int) : AspLaws (realCompWith K cs) where
  windowSafe := by show WSafe Gen.Search.params_WindowSize; decide
  rfp_shallow := fun d se beta hd hd2 hb h => rfpCut_sound' d se beta hd (by simp only [Score] at *; omega) h

theorem real_aspLaws (K : Keys) (cs : Eval.CoeffSet Int) : AspLaws (realCompG K cs) where
  windowSafe := by show WSafe Gen.Search.params_WindowSize; decide
  rfp_shallow := fun d se beta hd hd2 hb h => rfpCut_sound' d se beta hd (by simp only [Score] at *; omega) h

/-- the score laws for any record that agrees with the real one in the fields the laws speak about and
    whose pruning predicates have the four properties the laws ask for — stated abstractly, so that the
    record of the spsa build (`realCompP`, any in-range parameter vector with `LMRStart ≥ 1`:
    Proofs/SearchRealP.lean) is an instance as well. -/
theorem scoreLaws_of_isReal_gen {K : Keys} {c : Comp PS Pick} (hc : IsReal K c)
    (hrfp : ∀ d se beta, 0 ≤ d → beta ≤ rfpSafe → c.rfpCut d se beta = true → beta ≤ se)
    (hnmp : ∀ b d se beta, c.nmpTry b d se beta = true → beta ≤ se)
    (hlmr : ∀ d q, c.lmrTry d q = true → 2 ≤ q)
    (hwin : 0 ≤ c.windowSize ∧ c.windowSize ≤ 100) :
    ScoreLaws c RealGood TTokReal muReal where
  tt_ok := fun _ h => h.1
  tt_probe := fun ps b ply e h h0 h1 he => by
    rw [hc.ttProbe] at he
    exact ttProbe_valueOK h.2 h0 h1 he
  tt_store := fun ps b d ply m v bd h h0 h1 hv hok => by
    refine ⟨hok, ?_⟩
    rw [hc.ttStore]
    exact ttStore_valsOK h.2 b d h0 h1 m bd hv
  tt_failHigh := fun ps d b p hs h =>
    ⟨hc.failHigh_ok ps d b p hs h.1, by
      show TTValsOK (c.failHigh ps d b p hs).tt
      rw [hc.failHigh_tt]; exact h.2⟩
  tt_nextGen := fun ps h => by
    rw [hc.nextGen]
    exact ⟨nextGen_ok h.1, by
      show TTValsOK (nextGen ps).tt
      rw [nextGen_tt]; exact h.2⟩
  rfp_sound := hrfp
  nmp_sound := hnmp
  lmr_late := hlmr
  window := hwin
  q_measure := fun ps b hs m w hg h => by
    rw [hc.qMoves] at h
    rw [hc.keys]
    exact mu_make_noisy K hg (qMoves_mem h)
  measure_bound := fun b hg => mu_le b hg

/-- … in particular for a record whose predicates ARE the ones of the default build (up to a stronger
    null-move test). -/
theorem scoreLaws_of_isReal {K : Keys} {c : Comp PS Pick} (hc : IsReal K c) (hrfp : c.rfpCut = rfpCut)
    (hnmp : ∀ b d se beta, c.nmpTry b d se beta = true → nmpTry b d se beta = true) (hlmr : c.lmrTry = lmrTry)
    (hwin : c.windowSize = Gen.Search.params_WindowSize) :
    ScoreLaws c RealGood TTokReal muReal :=
  scoreLaws_of_isReal_gen hc
    (fun d se beta hd hb h => by
      rw [hrfp] at h
      exact rfpCut_sound d se beta hd hb h)
    (fun b d se beta h => by
      have h' := hnmp b d se beta h
      unfold nmpTry at h'
      simp only [Bool.and_eq_true] at h'
      exact of_decide_eq_true h'.1.2)
    (fun d q h => by
      rw [hlmr] at h
      unfold lmrTry at h
      simp only [Bool.and_eq_true] at h
      exact Int.le_of_lt (of_decide_eq_true h.2))
    (by rw [hwin]; decide)

/-- **The score laws hold for the real components** — the unguarded record: what the missing guard can
    do is recorded by the ghost flag `St.nmpOut`, and the theorems are guarded by it. -/
theorem real_scoreLaws_with (K : Keys) (cs : Eval.CoeffSet Int) :
    ScoreLaws (realCompWith K cs) RealGood TTokReal muReal :=
  scoreLaws_of_isReal (isReal_realCompWith K cs) rfl (fun _ _ _ _ h => h) rfl rfl

theorem real_scoreLaws (K : Keys) (cs : Eval.CoeffSet Int) :
    ScoreLaws (realCompG K cs) RealGood TTokReal muReal :=
  scoreLaws_of_isReal (isReal_realCompG K cs) rfl (fun b d se beta h => by
    have h' : nmpTryG b d se beta = true := h
    unfold nmpTryG at h'
    simp only [Bool.and_eq_true] at h'
    exact h'.1) rfl rfl

/-- the guarded record never raises the flag. -/
theorem nmpFloor_realCompG (K : Keys) (cs : Eval.CoeffSet Int) : NmpFloor (realCompG K cs) := fun b d se beta h => by
  have h' : nmpTryG b d se beta = true := h
  unfold nmpTryG at h'
  simp only [Bool.and_eq_true] at h'
  exact Int.le_of_lt (of_decide_eq_true h'.2)

theorem ttokReal_new (buckets : Nat) : TTokReal (newEngine buckets).ps := ⟨new_ok buckets, new_valsOK buckets⟩
theorem ttokReal_clear (e : Engine PS) : TTokReal (clearEngine e).ps := ⟨clear_ok e.ps, clear_valsOK e.ps⟩

end SearchReal
end ChessVerif
