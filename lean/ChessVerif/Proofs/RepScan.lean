/-
  C10, obligation 1: a closed form of the model's repetition scan (`Board.threefold`).
  History lists have the current position at the head; index `i` = `i` plies back.
-/
import ChessVerif.Model.Board

namespace ChessVerif
namespace Rep

/-- the elements at the even indices 0, 2, 4, … of a list. -/
def evens {α : Type} : List α → List α
  | [] => []
  | a :: l => a :: evens (l.drop 1)
termination_by l => l.length
decreasing_by simp; omega

@[simp] theorem evens_nil {α} : evens ([] : List α) = [] := by simp [evens]
@[simp] theorem evens_single {α} (a : α) : evens [a] = [a] := by simp [evens]
@[simp] theorem evens_cons_cons {α} (a b : α) (l : List α) : evens (a :: b :: l) = a :: evens l := by
  rw [evens]; simp

theorem evens_map {α β} (f : α → β) : ∀ l : List α, evens (l.map f) = (evens l).map f
  | [] => by simp
  | [a] => by simp
  | a :: b :: l => by simp [evens_map f l]

/-- `evens` picks exactly the even indices. -/
theorem evens_getElem? {α} : ∀ (l : List α) (k : Nat), (evens l)[k]? = l[2 * k]?
  | [], k => by simp
  | [a], k => by cases k <;> simp
  | a :: b :: l, 0 => by simp
  | a :: b :: l, k + 1 => by
    have : 2 * (k + 1) = 2 * k + 1 + 1 := by omega
    simp [evens_getElem? l k, this]

/-- the scan, started with a count below the cap, is the capped count of the matching entries at
    even offsets. -/
theorem scan_eq (hash : BB) : ∀ (l : List BB) (cnt : Nat), cnt ≤ 2 →
    Board.threefoldScan hash l cnt = min 3 (cnt + (evens l).count hash)
  | [], cnt, h => by
    rw [Board.threefoldScan]; simp; omega
  | [a], cnt, h => by
    rw [Board.threefoldScan]
    by_cases e : a = hash
    · subst e
      by_cases c : cnt + 1 ≥ 3
      · simp [c]; omega
      · simp [c]; rw [Board.threefoldScan]; omega
    · have e' : (a == hash) = false := by simpa using e
      simp [e, e']
      rw [Board.threefoldScan]; omega
  | a :: b :: l, cnt, h => by
    rw [Board.threefoldScan]
    by_cases e : a = hash
    · subst e
      by_cases c : cnt + 1 ≥ 3
      · simp [c]; omega
      · simp [c]
        rw [scan_eq a l (cnt + 1) (by omega)]; omega
    · have e' : (a == hash) = false := by simpa using e
      simp [e, e']
      rw [scan_eq hash l cnt h]

/-- number of indices `i ≥ from_`, `i ≡ from_ (mod 2)`, with `l[i] = h`. -/
def stepCount (h : BB) (l : List BB) (from_ : Nat) : Nat :=
  ((List.range l.length).filter fun i => from_ ≤ i ∧ (i - from_) % 2 = 0 ∧ l[i]? = some h).length

/-- **Closed form of `Threefold`.**  For a history `h₀ :: rest` (head = current position) the
    reported count is `min 3 (1 + #matches)` where the matches are the entries equal to `h₀` at the
    distances 4, 6, 8, … plies back (as `evens (drop 4)`). -/
theorem threefold_scan_spec (b : Board) (h₀ : BB) (rest : List BB) (hh : b.hashes = h₀ :: rest) :
    b.threefold = min 3 (1 + (evens ((h₀ :: rest).drop 4)).count h₀) := by
  unfold Board.threefold
  rw [hh]
  exact scan_eq h₀ _ 1 (by omega)

theorem count_evens (h : BB) : ∀ l : List BB,
    (evens l).count h = ((List.range l.length).filter fun i => i % 2 = 0 ∧ l[i]? = some h).length
  | [] => by simp
  | [a] => by
    by_cases e : a = h <;> simp [List.range_succ, e]
  | a :: b :: l => by
    have ih := count_evens h l
    have m2 : ∀ x : Nat, (x + 1 + 1) % 2 = x % 2 := by intro x; omega
    rw [evens_cons_cons, List.count_cons, ih]
    simp only [List.length_cons, List.range_succ_eq_map, List.filter_cons, List.filter_map]
    by_cases e : a = h
    · simp [e, Function.comp_def, m2]
    · simp [e, Function.comp_def, m2]

theorem stepCount_cons (h a : BB) (t : List BB) (k : Nat) :
    stepCount h (a :: t) (k + 1) = stepCount h t k := by
  simp [stepCount, List.range_succ_eq_map, List.filter_map, Function.comp_def]

/-- index form of the even-offset count: matches at the indices `k, k+2, k+4, …`. -/
theorem count_evens_drop (h : BB) : ∀ (k : Nat) (l : List BB),
    (evens (l.drop k)).count h = stepCount h l k
  | 0, l => by simp [count_evens, stepCount]
  | k + 1, [] => by simp [stepCount]
  | k + 1, a :: t => by
    rw [stepCount_cons, List.drop_succ_cons, count_evens_drop h k t]

/-- **Closed form of `Threefold`, index form**: `min 3 (1 + #{ i ∈ {4, 6, 8, …} | hashes[i] = h₀ })`. -/
theorem threefold_scan_spec_ix (b : Board) (h₀ : BB) (rest : List BB) (hh : b.hashes = h₀ :: rest) :
    b.threefold = min 3 (1 + stepCount h₀ b.hashes 4) := by
  rw [threefold_scan_spec b h₀ rest hh, hh, count_evens_drop]

theorem threefold_empty (b : Board) (hh : b.hashes = []) : b.threefold = 1 := by
  unfold Board.threefold; rw [hh]

end Rep
end ChessVerif
