/-
  The generic skeleton DOES allow a non-terminating aspiration loop: for EVERY component record with
  `windowSize = 0` (allowed by `ScoreLaws.window : 0 ≤ windowSize ≤ 100`) a request without stop
  channel, node budget and soft limits and with depth limit ≥ 1 (`go depth N`) exhausts ANY amount of
  fuel.  After iteration 0 the window is `(s, s)`; every result fails low or high; the widening is
  `factor * 0 = 0`; the Go loop `for !awOk { … }` never ends.  No evaluation of the search is needed:
  the argument is about the loop alone.

  So fuel sufficiency at the driver level is NOT a theorem of `Laws` + `ScoreLaws`; it needs a
  hypothesis about the window size (`AspLaws`: `WindowSize` in `39..44` or `78..88`, Proofs/SearchFuelGo.lean).
-/
import ChessVerif.Proofs.SearchFinalAbort
import ChessVerif.Proofs.SearchScoreFree

namespace ChessVerif
namespace Search

variable {σ π : Type}

/-- with `windowSize = 0` the aspiration loop started on a window `(a, a)` never answers `.ok`. -/
theorem aspiration_window0 (c : Comp σ π) (L : Limits) (hw : c.windowSize = 0) (fuel : Nat) (idD : Int) :
    ∀ (n : Nat) (a : Int) (factor : Score) (s : St σ), -32768 ≤ a → a ≤ 32767 →
      ∃ s', aspiration c L fuel idD n a a factor s = .aborted s' := by
  intro n
  induction n with
  | zero => intro a factor s _ _; exact ⟨s.outOfFuel, rfl⟩
  | succ n ih =>
    intro a factor s h1 h2
    simp only [aspiration, hw]
    generalize alphaBeta c L fuel a a idD 0 .pv s = r
    generalize abort L r.2 = as
    have e0 : wrapS16 (factor * 0) = 0 := by simp [wrapS16]
    have ea : wrapS16 (a - 0) = a := by unfold wrapS16; omega
    have eb : wrapS16 (a + 0) = a := by unfold wrapS16; omega
    split
    · exact ⟨_, rfl⟩
    · split
      · next hin =>
        exfalso
        simp only [Bool.and_eq_true, Bool.not_eq_true', decide_eq_false_iff_not] at hin
        have h3 : a < r.1 := Int.not_le.1 hin.1
        have h4 : r.1 < a := Int.not_le.1 hin.2
        exact Int.lt_irrefl _ (Int.lt_trans h3 h4)
      · rw [e0, ea, eb]
        have e1 : (if r.1 ≤ a then a else a) = a := by split <;> rfl
        have e2 : (if r.1 ≤ a then a else if r.1 ≥ a then a else a) = a := by split <;> (try split) <;> rfl
        rw [e1, e2]
        exact ih a _ as.2 h1 h2

/-- no soft limit is set. -/
theorem softAbort_off (L : Limits) (h1 : L.softTime ≤ 0) (h2 : L.softNodes ≤ 0) (p : Bool) (e n : Int) :
    softAbort L p e n = false := by
  unfold softAbort
  have e1 : decide (L.softTime > 0) = false := decide_eq_false (by omega)
  have e2 : decide (L.softNodes > 0) = false := decide_eq_false (by omega)
  simp [e1, e2]

/-- an iteration that starts on a window `(a, a)` ends the search with the fuel exhausted. -/
theorem idLoop_window0 (c : Comp σ π) (L : Limits) (clock : Clock) (hw : c.windowSize = 0) (hL : NoLimit L) (fuel : Nat)
    (n : Nat) (idD : Int) (v : IDVars) (s : St σ) (hs : AF s) (hab : v.alpha = v.beta) (h1 : -32768 ≤ v.alpha)
    (h2 : v.alpha ≤ 32767) (hcond : (decide (idD < maxPlies) && (decide (idD ≤ L.depth) || s.pondering)) = true) :
    (idLoop c L clock fuel (n + 1) idD v s).st.fuelOut = true := by
  simp only [idLoop, hcond, Bool.not_true, Bool.false_eq_true, if_false]
  obtain ⟨s', he⟩ := aspiration_window0 c L hw fuel idD fuel v.alpha 1 s h1 h2
  have haf := aspiration_af c hL fuel idD fuel v.alpha v.beta 1 s hs
  have hab' := aspiration_aborted c L fuel idD fuel v.alpha v.beta 1 s s'
  rw [← hab] at haf hab' ⊢
  rw [he] at haf hab' ⊢
  have hfo : s'.fuelOut = true := haf (hab' rfl)
  simp only
  split
  · exact hfo
  · exact hfo

/-- **The generic skeleton allows a non-terminating aspiration loop**: for every component record with
    `windowSize = 0`, every `go depth N` request (`N ≥ 1`; no stop channel, node budget or soft limit),
    every position, engine state and clock, the run exhausts EVERY amount of fuel. -/
theorem go_window0_runs_out (c : Comp σ π) (L : Limits) (clock : Clock) (hw : c.windowSize = 0) (hstop : L.stop = none)
    (hnodes : L.nodes = -1) (hst : L.softTime ≤ 0) (hsn : L.softNodes ≤ 0) (hd : 1 ≤ L.depth) (fuel : Nat)
    (e : Engine σ) (b : Board) (nodes0 : Int) :
    (go c L clock fuel e b nodes0).st.fuelOut = true := by
  have hL : NoLimit L := ⟨hstop, hnodes⟩
  show (idLoop c L clock fuel (63 + 1) 0
    { alpha := -Inf - 1, beta := Inf + 1, score := 0, move := 0, ponder := 0, reads := 0, ppolls := 0, out := [] }
    (goInit L e b nodes0)).st.fuelOut = true
  have hc0 : (decide ((0 : Int) < maxPlies) && (decide (0 ≤ L.depth) || (goInit L e b nodes0).pondering)) = true := by
    have e1 : decide ((0 : Int) < maxPlies) = true := by decide
    have e2 : decide (0 ≤ L.depth) = true := decide_eq_true (by omega)
    simp [e1, e2]
  rw [idLoop.eq_2]
  simp only [hc0, Bool.not_true, Bool.false_eq_true, if_false]
  have haf := aspiration_af c hL fuel 0 fuel (-Inf - 1) (Inf + 1) 1 (goInit L e b nodes0) (fun h => by simp [goInit] at h)
  have hab' := aspiration_aborted c L fuel 0 fuel (-Inf - 1) (Inf + 1) 1 (goInit L e b nodes0)
  generalize aspiration c L fuel 0 fuel (-Inf - 1) (Inf + 1) 1 (goInit L e b nodes0) = a at haf hab' ⊢
  cases a with
  | aborted s' =>
    have hfo : s'.fuelOut = true := haf (hab' s' rfl)
    simp only
    split
    · exact hfo
    · exact hfo
  | ok al be sample s' =>
    simp only [softAbort_off L hst hsn, Bool.false_eq_true, and_false, if_false]
    have hw8 : wrapS8 (0 + 1) = 1 := by decide
    rw [hw8]
    refine idLoop_window0 c L clock hw hL fuel 62 1 _ _ haf ?_ ?_ ?_ ?_
    · show wrapS16 (sample - c.windowSize) = wrapS16 (sample + c.windowSize)
      rw [hw]; simp
    · show -32768 ≤ wrapS16 (sample - c.windowSize)
      unfold wrapS16; omega
    · show wrapS16 (sample - c.windowSize) ≤ 32767
      unfold wrapS16; omega
    · have e1 : decide ((1 : Int) < maxPlies) = true := by decide
      have e2 : decide (1 ≤ L.depth) = true := decide_eq_true hd
      simp [e1, e2]

end Search
end ChessVerif
