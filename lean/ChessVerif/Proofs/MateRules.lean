/-
  C09 step (0), part 1: the rule-book side toolkit.
  * `manAtt_iff`  — `Rules.manAttacks` of a position whose vacant squares are the complement of `o`
                    is the declarative attack relation `Att o`.
  * `Ctx b K`     — the facts about a valid board used throughout (representation invariant, the king
                    of the side to move stands on `K`).
  * `Chk b o x T` — "some enemy man outside `x` attacks `T` when the occupied squares are `o`".
  * `inCheck_of_diff` — the side to move is in check in ANY position `q` whose king, vacancy and
                    enemy men are described by `K`, `o`, `x` iff `Chk b o x K`.
  * `legalMoves_ne_nil_iff` — a legal move exists iff some move is `Rules.legal`.
-/
import ChessVerif.Proofs.MateDefs

namespace ChessVerif.Mate
open ChessVerif Board Rules Bridge

/-! ### `Rules.manAttacks` is `Att` -/

theorem manAtt_iff {p : Pos} {o : BB} (hp : EmptyIs p o) (c : Color) (k : Piece) (a t : Nat)
    (ha : a < 64) (ht : t < 64) :
    Rules.manAttacks p (c, k) a t = true ↔ Att o c k a t := by
  have hrook : Rules.manAttacks p (c, .rook) a t = true ↔ rookGeo a t ∧ lineFree o a t := by
    unfold Rules.manAttacks
    simp only []
    rw [Bool.and_eq_true, clearBetween_iff_forall hp a t ha ht, rookGeom_iff]
    rfl
  have hbish : Rules.manAttacks p (c, .bishop) a t = true ↔ bishGeo a t ∧ lineFree o a t := by
    unfold Rules.manAttacks
    simp only []
    rw [Bool.and_eq_true, clearBetween_iff_forall hp a t ha ht, bishopGeom_iff]
    rfl
  cases k
  · simp [manAttacks_none, Att]
  · unfold Att
    simp only []
    rw [capGeom_iff c a t ha ht]
    unfold Rules.manAttacks
    simp only [Bool.and_eq_true, beq_iff_eq]
  · unfold Att Rules.manAttacks knightGeo
    simp only []
    rw [(dist_eq a t).1, (dist_eq a t).2]
    simp
  · exact hbish
  · exact hrook
  · rw [manAttacks_queen, Bool.or_eq_true, hbish, hrook]
    unfold Att
    simp only []
    constructor
    · rintro (⟨h1, h2⟩ | ⟨h1, h2⟩)
      · exact ⟨Or.inl h1, h2⟩
      · exact ⟨Or.inr h1, h2⟩
    · rintro ⟨h1 | h1, h2⟩
      · exact Or.inl ⟨h1, h2⟩
      · exact Or.inr ⟨h1, h2⟩
  · unfold Att Rules.manAttacks kingGeo
    simp only []
    rw [kingGeom_iff]
    simp

/-! ### the context of a valid board -/

/-- the facts about a valid board used by the C09 proofs. -/
structure Ctx (b : Board) (K : Nat) : Prop where
  valid : Board.valid b = true
  wf : WFP b
  hK : K < 64
  king : b.colorBB b.stm &&& b.pieceBB .king = bit K

theorem ctx_of_valid {b : Board} (hv : Board.valid b = true) : ∃ K, Ctx b K := by
  obtain ⟨k, hk, he⟩ := (PL.PLDomain_of_valid hv).oneKing
  exact ⟨k, hv, WFP_of_valid hv, hk, he⟩

namespace Ctx
variable {b : Board} {K : Nat}

theorem king_iff (cx : Ctx b K) (u : Nat) (hu : u < 64) :
    ((b.colorBB b.stm).getLsbD u = true ∧ b.pieceAt u = .king) ↔ u = K := by
  have := congrArg (fun x => x.getLsbD u) cx.king
  simp only [BitVec.getLsbD_and, bit_getLsbD K u cx.hK] at this
  rw [← cx.wf.piece_iff u hu .king (by decide)]
  constructor
  · rintro ⟨h1, h2⟩
    rw [h1, h2] at this
    have := this.symm
    simpa [eq_comm] using this
  · intro e
    subst e
    simpa using this

theorem king_own (cx : Ctx b K) : (b.colorBB b.stm).getLsbD K = true :=
  ((cx.king_iff K cx.hK).2 rfl).1

theorem king_piece (cx : Ctx b K) : b.pieceAt K = .king :=
  ((cx.king_iff K cx.hK).2 rfl).2

theorem has_king_iff (cx : Ctx b K) (u : Nat) (hu : u < 64) :
    (abs b).has u b.stm .king = true ↔ u = K := by
  rw [abs_has cx.wf]; exact cx.king_iff u hu

theorem kingBB (cx : Ctx b K) : b.pieceBB .king &&& b.colorBB b.stm = bit K := by
  rw [BitVec.and_comm]; exact cx.king

theorem lowestSet_king (cx : Ctx b K) : lowestSet (b.pieceBB .king &&& b.colorBB b.stm) = K := by
  rw [cx.kingBB]; exact PL.lowestSet_bit K cx.hK

end Ctx

/-! ### check in a described position -/

/-- some enemy man (of the side not to move in `b`) standing outside `x` attacks `T` when the
    occupied squares are `o`. -/
def Chk (b : Board) (o x : BB) (T : Nat) : Prop :=
  ∃ a, a < 64 ∧ (b.colorBB b.stm.flip).getLsbD a = true ∧ x.getLsbD a = false ∧
    Att o b.stm.flip (b.pieceAt a) a T

theorem inCheck_iff_of_king (q : Pos) (c : Color) (K : Nat) (hK : K < 64)
    (h : ∀ u, u < 64 → (q.has u c .king = true ↔ u = K)) :
    Rules.inCheck q c = true ↔ Rules.attackedBy q c.flip K = true := by
  unfold Rules.inCheck
  rw [List.any_eq_true]
  constructor
  · rintro ⟨u, hu, hatt⟩
    obtain ⟨hu64, hk⟩ := (mem_kingSquares _ _ _).1 hu
    rw [(h u hu64).1 hk] at hatt
    exact hatt
  · intro hatt
    exact ⟨K, (mem_kingSquares _ _ _).2 ⟨hK, (h K hK).2 rfl⟩, hatt⟩

/-- **check in a described position.**  `q` is any position in which the king of the side to move of
    `b` stands (only) on `T`, whose vacant squares are the complement of `o`, and whose enemy men are
    the enemy men of `b` outside `x`. -/
theorem inCheck_of_diff {b : Board} (_hw : WFP b) (q : Pos) (o x : BB) (T : Nat) (hT : T < 64)
    (h1 : ∀ u, u < 64 → (q.has u b.stm .king = true ↔ u = T))
    (h2 : EmptyIs q o)
    (h3 : ∀ a, a < 64 → ∀ k, (q.at_ a = some (b.stm.flip, k) ↔
      ((b.colorBB b.stm.flip).getLsbD a = true ∧ b.pieceAt a = k ∧ x.getLsbD a = false))) :
    Rules.inCheck q b.stm = true ↔ Chk b o x T := by
  rw [inCheck_iff_of_king q b.stm T hT h1, attackedBy_iff]
  unfold Chk
  constructor
  · rintro ⟨a, ha, k, hat, hm⟩
    obtain ⟨hc, hk, hx⟩ := (h3 a ha k).1 hat
    refine ⟨a, ha, hc, hx, ?_⟩
    rw [hk]
    exact (manAtt_iff h2 _ _ a T ha hT).1 hm
  · rintro ⟨a, ha, hc, hx, hatt⟩
    exact ⟨a, ha, b.pieceAt a, (h3 a ha _).2 ⟨hc, rfl, hx⟩, (manAtt_iff h2 _ _ a T ha hT).2 hatt⟩

/-- **`InCheck` of the side to move** in terms of `Chk`. -/
theorem inCheck_iff_Chk {b : Board} {K : Nat} (cx : Ctx b K) :
    b.inCheck b.stm = true ↔ Chk b b.occ 0 K := by
  rw [inCheck_iff cx.wf]
  refine inCheck_of_diff cx.wf (abs b) b.occ 0 K cx.hK (cx.has_king_iff) (emptyIs_abs b) ?_
  intro a _ k
  rw [abs_at_eq_some cx.wf]
  simp

/-! ### a legal move exists iff some move is legal -/

theorem legal_src_dst (p : Pos) (mv : Mv) (h : Rules.pseudoLegal p mv = true) :
    mv.src < 64 ∧ mv.dst < 64 := by
  unfold Rules.pseudoLegal at h
  simp only [Bool.and_eq_true, decide_eq_true_eq] at h
  exact ⟨h.1.1, h.1.2⟩

theorem pseudoLegal_hasColor (p : Pos) (mv : Mv) (h : Rules.pseudoLegal p mv = true) :
    p.hasColor mv.src p.turn = true := by
  unfold Rules.pseudoLegal at h
  rw [Bool.and_eq_true] at h
  have h2 := h.2
  unfold Pos.hasColor
  cases hat : p.at_ mv.src with
  | none => rw [hat] at h2; exact Bool.noConfusion h2
  | some m =>
    obtain ⟨c', k⟩ := m
    rw [hat] at h2
    simp only [Bool.and_eq_true] at h2
    exact h2.1.1

theorem pseudoLegal_promo (p : Pos) (mv : Mv) (h : Rules.pseudoLegal p mv = true) :
    mv.promo ∈ Rules.promoChoices := by
  unfold Rules.pseudoLegal at h
  rw [Bool.and_eq_true] at h
  have h2 := h.2
  have hnone : mv.promo.isNone = true → mv.promo ∈ Rules.promoChoices := by
    intro hn
    rw [Option.isNone_iff_eq_none] at hn
    rw [hn]; simp [Rules.promoChoices]
  cases hat : p.at_ mv.src with
  | none => rw [hat] at h2; exact Bool.noConfusion h2
  | some m =>
    obtain ⟨c', k⟩ := m
    rw [hat] at h2
    simp only [Bool.and_eq_true] at h2
    have h3 := h2.2
    cases k
    · exact Bool.noConfusion h3
    · simp only [Bool.and_eq_true] at h3
      have h4 := h3.1
      split at h4
      · cases hq : mv.promo with
        | none => rw [hq] at h4; exact Bool.noConfusion h4
        | some x =>
          rw [hq] at h4
          simp only at h4
          cases x <;> first | exact Bool.noConfusion h4 | simp [Rules.promoChoices]
      · exact hnone h4
    all_goals
      simp only [Bool.and_eq_true] at h3
      exact hnone h3.1

theorem mem_legalMoves (p : Pos) (mv : Mv) : mv ∈ Rules.legalMoves p ↔ Rules.legal p mv = true := by
  unfold Rules.legalMoves
  simp only [List.mem_flatMap, List.mem_range]
  constructor
  · rintro ⟨s, _, hs⟩
    split at hs
    · simp only [List.mem_flatMap, List.mem_range, List.mem_filterMap] at hs
      obtain ⟨d, _, q, _, hq⟩ := hs
      split at hq
      · rename_i hl
        rw [Option.some.injEq] at hq
        rw [← hq]; exact hl
      · exact absurd hq (by simp)
    · exact absurd hs (by simp)
  · intro hl
    have hpl : Rules.pseudoLegal p mv = true := by
      unfold Rules.legal at hl
      rw [Bool.and_eq_true] at hl
      exact hl.1
    obtain ⟨h1, h2⟩ := legal_src_dst p mv hpl
    refine ⟨mv.src, h1, ?_⟩
    rw [if_pos (pseudoLegal_hasColor p mv hpl)]
    simp only [List.mem_flatMap, List.mem_range, List.mem_filterMap]
    refine ⟨mv.dst, h2, mv.promo, pseudoLegal_promo p mv hpl, ?_⟩
    rw [if_pos hl]

theorem legalMoves_eq_nil_iff (p : Pos) : Rules.legalMoves p = [] ↔ ∀ mv, Rules.legal p mv = false := by
  constructor
  · intro h mv
    cases hl : Rules.legal p mv
    · rfl
    · have := (mem_legalMoves p mv).2 hl
      rw [h] at this
      exact absurd this (by simp)
  · intro h
    apply List.eq_nil_iff_forall_not_mem.2
    intro mv hm
    have := (mem_legalMoves p mv).1 hm
    rw [h mv] at this
    exact Bool.noConfusion this

end ChessVerif.Mate
