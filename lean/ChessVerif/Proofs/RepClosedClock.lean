/-
  C10 closed, part 1: the halfmove clock is irrelevant.

  `Board.valid` bounds the halfmove clock by 100 and `Playable.valid_make` / `make_refines_rules` carry
  a clock side condition (the int8 field `FiftyCnt` wraps at 128, the rule book's counter does not).
  The repetition count never reads the clock.  This file removes the clock from the picture:

  * Board side: `makeMove` commutes with overwriting the clock (`setFifty_make`): the clock flows only
    into the clock (and the undo token).  So a board whose clock is out of range behaves, in every
    other field — placement, side, rights, en-passant square, HASH HISTORY — exactly like the same
    board with the clock reset to 0, and the reset board is in the domain of C01/C02/C04.
  * Rule-book side: `nc p` (clock := 0) — legality, the en-passant captures, `sameForRepetition` and
    (modulo `nc`) `Rules.apply` do not depend on the clock; all by definitional unfolding.
  * `ValidNC b` := `Board.valid` of the clock-reset board; closed under every legal move with NO side
    condition (`step`), together with the C04 invariant `Inv` and the C02 refinement modulo clock.
-/
import ChessVerif.Proofs.RepGame
import ChessVerif.Props.C01
import ChessVerif.Props.C02
import ChessVerif.Props.C04

namespace ChessVerif
namespace RepClosed
open Rules Board

/-! ### board side: the clock flows only into the clock -/

theorem doHop_setFifty (K : Keys) (b : Board) (c : Color) (h : Option (Nat × Nat)) (x : Int) :
    doHop K (setFifty b x) c h = setFifty (doHop K b c h) x := by
  cases h with
  | none => rfl
  | some v => obtain ⟨rf, rt⟩ := v; simp only [doHop, board_form]

theorem setFifty_captureSq (b : Board) (x : Int) (m : Move) : (setFifty b x).captureSq m = b.captureSq m := rfl
theorem setFifty_newCastles (b : Board) (x : Int) (m : Move) : (setFifty b x).newCastles m = b.newCastles m := rfl
theorem setFifty_mvHash (K : Keys) (b : Board) (x : Int) (m : Move) : mvHash K (setFifty b x) m = mvHash K b m := rfl
theorem setFifty_mvNewEP (b : Board) (x : Int) (m : Move) : mvNewEP (setFifty b x) m = mvNewEP b m := rfl
theorem setFifty_mvPut (b : Board) (x : Int) (m : Move) : mvPut (setFifty b x) m = mvPut b m := rfl

theorem setFifty_makeW (K : Keys) (b : Board) (m : Move) (c x : Int) :
    setFifty (makeW K (setFifty b c) m).1 x = setFifty (makeW K b m).1 x := by
  simp only [makeW, setFifty_captureSq, setFifty_newCastles, setFifty_mvHash, setFifty_mvNewEP, setFifty_mvPut,
    doHop_setFifty, board_form]
  rfl

/-- **the clock flows only into the clock**: `MakeMove` on a board with another clock value gives the
    same board up to the clock. -/
theorem setFifty_make (K : Keys) (b : Board) (m : Move) (c x : Int) :
    setFifty (makeMove K (setFifty b c) m).1 x = setFifty (makeMove K b m).1 x := by
  have e1 := makeMove_eq K (setFifty b c) m
  have e2 := makeMove_eq K b m
  rw [e1, e2]; exact setFifty_makeW K b m c x

/-- the hash history after a move does not depend on the clock. -/
theorem make_hashes_setFifty (K : Keys) (b : Board) (m : Move) (c : Int) :
    (makeMove K (setFifty b c) m).1.hashes = (makeMove K b m).1.hashes := by
  have h := congrArg Board.hashes (setFifty_make K b m c 0)
  rw [setFifty_hashes, setFifty_hashes] at h
  exact h

theorem make_hashes_tail (K : Keys) (b : Board) (m : Move) : (makeMove K b m).1.hashes.tail = b.hashes := by
  have e := makeMove_eq K b m
  rw [e]; exact Board.make_hashes_tail K b m

theorem calcHash_setFifty (K : Keys) (b : Board) (x : Int) : calcHash K (setFifty b x) = calcHash K b := rfl
theorem wf_setFifty (b : Board) (x : Int) : (setFifty b x).wf = b.wf := rfl
theorem inCheck_setFifty (b : Board) (x : Int) (c : Color) : (setFifty b x).inCheck c = b.inCheck c := rfl
theorem gen_setFifty (b : Board) (x : Int) : MoveGen.gen (setFifty b x) = MoveGen.gen b := rfl

theorem WF_setFifty {b : Board} (x : Int) : WF (setFifty b x) ↔ WF b := by
  rw [wf_iff, wf_iff, wf_setFifty]

/-- C04's invariant does not read the clock. -/
theorem inv_setFifty (K : Keys) {b : Board} (x : Int) : Board.Inv K (setFifty b x) ↔ Board.Inv K b := by
  unfold Board.Inv
  rw [WF_setFifty, calcHash_setFifty]
  exact Iff.rfl

/-- the engine's "playable" does not read the clock. -/
theorem playable_setFifty (K : Keys) (b : Board) (x : Int) :
    MoveGen.playable K (setFifty b x) = MoveGen.playable K b := by
  unfold MoveGen.playable
  rw [gen_setFifty]
  apply List.filter_congr
  intro m _
  have h := congrArg (fun B => Board.inCheck B b.stm) (setFifty_make K b m x 0)
  simp only [inCheck_setFifty] at h
  have hs : (setFifty b x).stm = b.stm := rfl
  rw [hs, h]

/-! ### rule-book side: the clock-erased position -/

/-- forget the halfmove clock. -/
def nc (p : Pos) : Pos := { p with halfmove := 0 }

theorem nc_nc (p : Pos) : nc (nc p) = nc p := rfl
theorem nc_abs (b : Board) : nc b.abs = (setFifty b 0).abs := rfl
theorem nc_abs_setFifty (b : Board) (x : Int) : nc (setFifty b x).abs = nc b.abs := rfl

theorem pseudoLegal_nc (p : Pos) (mv : Mv) : pseudoLegal (nc p) mv = pseudoLegal p mv := rfl
theorem legal_nc (p : Pos) (mv : Mv) : legal (nc p) mv = legal p mv := rfl
theorem legalEpCaptures_nc (p : Pos) : legalEpCaptures (nc p) = legalEpCaptures p := rfl
theorem epNormal_nc (p : Pos) : epNormal (nc p) = epNormal p := rfl
/-- art. 9.2.2 does not mention the clocks. -/
theorem same_nc_left (p q : Pos) : sameForRepetition (nc p) q = sameForRepetition p q := rfl
theorem same_nc_right (p q : Pos) : sameForRepetition p (nc q) = sameForRepetition p q := rfl

theorem same_congr {p p' q q' : Pos} (hp : nc p = nc p') (hq : nc q = nc q') :
    sameForRepetition p q = sameForRepetition p' q' := by
  rw [← same_nc_left p q, ← same_nc_right (nc p) q, hp, hq]; rfl

theorem apply_pos {p : Pos} {mv : Mv} (h : (legalEpCaptures (applyCore p mv)).isEmpty = true) :
    Rules.apply p mv = { applyCore p mv with ep := none } := by
  unfold Rules.apply; simp only []; rw [if_pos h]

theorem apply_neg {p : Pos} {mv : Mv} (h : (legalEpCaptures (applyCore p mv)).isEmpty = false) :
    Rules.apply p mv = applyCore p mv := by
  unfold Rules.apply; simp only []; rw [if_neg (by rw [h]; decide)]

/-- the successor position depends on the clock only in its clock. -/
theorem apply_nc (p : Pos) (mv : Mv) : nc (Rules.apply (nc p) mv) = nc (Rules.apply p mv) := by
  cases h : (legalEpCaptures (applyCore p mv)).isEmpty with
  | true =>
    have h' : (legalEpCaptures (applyCore (nc p) mv)).isEmpty = true := h
    rw [apply_pos h, apply_pos h']; rfl
  | false =>
    have h' : (legalEpCaptures (applyCore (nc p) mv)).isEmpty = false := h
    rw [apply_neg h, apply_neg h']; rfl

theorem apply_congr {p p' : Pos} (h : nc p = nc p') (mv : Mv) : nc (Rules.apply p mv) = nc (Rules.apply p' mv) := by
  rw [← apply_nc p, ← apply_nc p', h]

theorem legal_congr {p p' : Pos} (h : nc p = nc p') (mv : Mv) : legal p mv = legal p' mv := by
  rw [← legal_nc p, ← legal_nc p', h]

/-- `Rules.valid` reads the clock only in its two clock clauses. -/
theorem valid_nc {p : Pos} (h : Rules.valid p = true) : Rules.valid (nc p) = true := by
  have V := (Playable.validP_iff p).1 h
  exact (Playable.validP_iff (nc p)).2
    ⟨V.kings, V.bound, V.pawns, V.real, V.safe, V.wk, V.wq, V.bk, V.bq, V.ep, Int.le_refl 0, (by decide : (0 : Int) ≤ 100), V.fm1⟩

/-! ### validity modulo the clock -/

/-- `ValidNC b`: the board with its halfmove clock reset is valid — i.e. every clause of `Board.valid`
    except the two that bound the clock. -/
def ValidNC (b : Board) : Prop := Board.valid (setFifty b 0) = true

theorem valid_iff (b : Board) : Board.valid b = true ↔ b.wf = true ∧ Rules.valid b.abs = true := by
  unfold Board.valid; rw [Bool.and_eq_true]

theorem setFifty_setFifty (b : Board) (x y : Int) : setFifty (setFifty b x) y = setFifty b y := rfl
theorem abs_setFifty0 (b : Board) : (setFifty b 0).abs = nc b.abs := rfl

theorem validNC_iff (b : Board) : ValidNC b ↔ b.wf = true ∧ Rules.valid (nc b.abs) = true := by
  unfold ValidNC
  rw [valid_iff, wf_setFifty, abs_setFifty0]

theorem validNC_of_valid {b : Board} (h : Board.valid b = true) : ValidNC b := by
  rw [validNC_iff]
  rw [valid_iff] at h
  exact ⟨h.1, valid_nc h.2⟩

theorem validNC_setFifty {b : Board} (x : Int) : ValidNC (setFifty b x) ↔ ValidNC b := by
  unfold ValidNC; rw [setFifty_setFifty]

theorem valid_of_nc {p : Pos} (h : Rules.valid (nc p) = true) (h0 : 0 ≤ p.halfmove) (h100 : p.halfmove ≤ 100) :
    Rules.valid p = true := by
  have V := (Playable.validP_iff _).1 h
  exact (Playable.validP_iff p).2
    ⟨V.kings, V.bound, V.pawns, V.real, V.safe, V.wk, V.wq, V.bk, V.bq, V.ep, h0, h100, V.fm1⟩

/-- a `ValidNC` board with the clock in range is valid. -/
theorem valid_of_validNC {b : Board} (h : ValidNC b) (h0 : 0 ≤ b.fifty) (h100 : b.fifty ≤ 100) :
    Board.valid b = true := by
  rw [validNC_iff] at h
  rw [valid_iff]
  have hf : b.abs.halfmove = b.fifty := rfl
  exact ⟨h.1, valid_of_nc h.2 (by rw [hf]; exact h0) (by rw [hf]; exact h100)⟩

/-! ### one move, no clock condition -/

/-- what one legal move preserves / establishes. -/
structure StepFacts (K : Keys) (b : Board) (mv : Mv) : Prop where
  /-- the engine's word for the move decodes to the move -/
  dec : decodeMove (encodeMove mv) = mv
  /-- … and the engine regards it as playable (C01) -/
  playable : encodeMove mv ∈ MoveGen.playable K b
  /-- C01 closure without the clock -/
  valid' : ValidNC (b.makeMove K (encodeMove mv)).1
  /-- C02 modulo the clock -/
  absNC : nc (b.makeMove K (encodeMove mv)).1.abs = nc (Rules.apply b.abs mv)
  /-- C04 -/
  inv' : Board.Inv K (b.makeMove K (encodeMove mv)).1
  /-- the history grows by the from-scratch hash of the new board -/
  hashes' : (b.makeMove K (encodeMove mv)).1.hashes = calcHash K (b.makeMove K (encodeMove mv)).1 :: b.hashes

/-- **one legal move from a `ValidNC` board satisfying C04's invariant** — whatever the clock. -/
theorem step (K : Keys) {b : Board} {mv : Mv} (hv : ValidNC b) (hi : Board.Inv K b)
    (hl : legal b.abs mv = true) : StepFacts K b mv := by
  -- everything is done on the clock-reset board `z`, which is in the domain of C01/C02/C04
  have hlz : legal (setFifty b 0).abs mv = true := by rw [abs_setFifty0, legal_nc]; exact hl
  obtain ⟨hpz, hdec⟩ := Props.C01.legal_playable K hv mv hlz
  have hgz := EpTarget.playable_gen hpz
  have hvz' : Board.valid ((setFifty b 0).makeMove K (encodeMove mv)).1 = true :=
    Props.C01.valid_make_of_clock_lt K hv hpz (by rw [setFifty_fifty]; decide)
  have hcomm := setFifty_make K b (encodeMove mv) 0 0
  have hinvz' : Board.Inv K ((setFifty b 0).makeMove K (encodeMove mv)).1 :=
    Props.C04.inv_make K ((inv_setFifty K 0).2 hi) (AbsMake.genMove_of hv hgz).ok
  have hinv' : Board.Inv K (b.makeMove K (encodeMove mv)).1 := by
    rw [← inv_setFifty K 0, ← hcomm, inv_setFifty K 0]; exact hinvz'
  refine ⟨hdec, ?_, ?_, ?_, hinv', ?_⟩
  · rw [← playable_setFifty K b 0]; exact hpz
  · have := validNC_of_valid hvz'
    unfold ValidNC at this ⊢
    rw [← hcomm]; exact this
  · have href := Props.C02.make_refines_rules K hv hpz
    rw [hdec] at href
    calc nc (b.makeMove K (encodeMove mv)).1.abs
        = (setFifty (b.makeMove K (encodeMove mv)).1 0).abs := rfl
      _ = (setFifty ((setFifty b 0).makeMove K (encodeMove mv)).1 0).abs := by rw [hcomm]
      _ = nc ((setFifty b 0).makeMove K (encodeMove mv)).1.abs := rfl
      _ = nc (Rules.apply (setFifty b 0).abs mv) := by rw [href]
      _ = nc (Rules.apply (nc b.abs) mv) := rfl
      _ = nc (Rules.apply b.abs mv) := apply_nc _ _
  · have ht := make_hashes_tail K b (encodeMove mv)
    have hh := hinv'.2
    cases hs : (b.makeMove K (encodeMove mv)).1.hashes with
    | nil => rw [hs] at hh; simp at hh
    | cons x xs =>
      rw [hs] at hh ht
      simp only [List.head?_cons, Option.some.injEq] at hh
      simp only [List.tail_cons] at ht
      rw [hh, ht]

end RepClosed
end ChessVerif
