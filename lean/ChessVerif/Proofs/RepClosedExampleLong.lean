/-
  C10 closed, non-vacuity data, third part: the executable model after 33 rounds of the knight shuffle
  = 132 reversible plies (kernel evaluation of the board model only; the rule-book side of this game is
  covered by `RepClosed.Example.long_game`, which is proved, not evaluated).
-/
import ChessVerif.Proofs.RepClosedExample

namespace ChessVerif
namespace RepClosed
namespace Example
open Rules Board Rep Rep.Example

set_option maxRecDepth 100000

/-- 33 rounds = 132 reversible plies. -/
theorem long_length : (rep 33 shuffle).length = 132 := by rw [rep_length]; rfl

/-- the executable model after 132 reversible plies: the count is at its cap, the int8 halfmove clock
    has wrapped (132 − 256), and the board is outside the domain `Board.valid`. -/
theorem long_three : (run testKeys sparseB (rep 33 shuffle)).threefold = 3 := by decide +kernel
theorem long_clock : (run testKeys sparseB (rep 33 shuffle)).fifty = -124 := by decide +kernel
theorem long_invalid : Board.valid (run testKeys sparseB (rep 33 shuffle)) = false := by decide +kernel

end Example
end RepClosed
end ChessVerif
