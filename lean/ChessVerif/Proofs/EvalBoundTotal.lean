/-
  C19 (a), the hypothesis `noInt16Wrap`: magnitude bounds, part 3 — the totals.

  With at most 15 men besides the king per side (what `Board.valid` guarantees: 8 pawns, promoted or
  not, plus the 7 original pieces — nine queens included), every accumulator of the evaluation lies in
  `[15·manLo + constLo, 15·manHi + constHi]`, where `manHi` / `manLo` are the extreme total
  contributions of a single man (value + PSqT + mobility + outpost/passer/pawn-structure addends) and
  `constHi` / `constLo` collect the addends that occur once (tempo, bishop pair, passer king distance,
  king PSqT, king-attack sigmoid ≤ 600).  `boundOK cs` compares the widths with 32767; it is a closed
  Boolean computed from the coefficient set, so `boundOK shipped = true` is re-checked by the kernel
  whenever Gen/Eval.lean is regenerated (`boundOK_shipped`), and FAILS to build if the coefficients
  grow so much that this analysis no longer excludes a wrap.
-/
import ChessVerif.Proofs.EvalBoundTerms

namespace ChessVerif.Eval.Bound
open ChessVerif ChessVerif.Eval

/-! ### arithmetic cores -/

/-- a weighted count of at most `N` men, each weight at most `H ≥ 0`. -/
theorem combine_hi (N nP nN nB nR nQ hP hN hB hR hQ H : Int)
    (h1 : 0 ≤ nP) (h2 : 0 ≤ nN) (h3 : 0 ≤ nB) (h4 : 0 ≤ nR) (h5 : 0 ≤ nQ)
    (hs : nP + nN + nB + nR + nQ ≤ N) (hH : 0 ≤ H)
    (b1 : hP ≤ H) (b2 : hN ≤ H) (b3 : hB ≤ H) (b4 : hR ≤ H) (b5 : hQ ≤ H) :
    nP * hP + nN * hN + nB * hB + nR * hR + nQ * hQ ≤ N * H := by
  have e1 := Int.mul_le_mul_of_nonneg_left b1 h1
  have e2 := Int.mul_le_mul_of_nonneg_left b2 h2
  have e3 := Int.mul_le_mul_of_nonneg_left b3 h3
  have e4 := Int.mul_le_mul_of_nonneg_left b4 h4
  have e5 := Int.mul_le_mul_of_nonneg_left b5 h5
  have e6 := Int.mul_le_mul_of_nonneg_right hs hH
  nlinarith

theorem combine_lo (N nP nN nB nR nQ lP lN lB lR lQ L : Int)
    (h1 : 0 ≤ nP) (h2 : 0 ≤ nN) (h3 : 0 ≤ nB) (h4 : 0 ≤ nR) (h5 : 0 ≤ nQ)
    (hs : nP + nN + nB + nR + nQ ≤ N) (hL : L ≤ 0)
    (b1 : L ≤ lP) (b2 : L ≤ lN) (b3 : L ≤ lB) (b4 : L ≤ lR) (b5 : L ≤ lQ) :
    N * L ≤ nP * lP + nN * lN + nB * lB + nR * lR + nQ * lQ := by
  have := combine_hi N nP nN nB nR nQ (-lP) (-lN) (-lB) (-lR) (-lQ) (-L) h1 h2 h3 h4 h5 hs
    (by omega) (by omega) (by omega) (by omega) (by omega) (by omega)
  nlinarith

/-! ### the bounds as functions of the coefficient set -/

section
variable (cs : CoeffSet Int) (ph : Nat)

/-- the largest total contribution of one man (not a king) to an accumulator, at least 0. -/
def manHi : Int :=
  max 0 (max (pv cs ph .queen + psHi cs ph .queen) (max (pv cs ph .rook + rookHi cs ph)
    (max (pv cs ph .bishop + bishopHi cs ph) (max (pv cs ph .knight + knightHi cs ph)
      (pv cs ph .pawn + psHi cs ph .pawn + passerHi cs ph + max (dbl cs ph) 0 + max (iso cs ph) 0)))))

/-- the smallest total contribution of one man, at most 0. -/
def manLo : Int :=
  min 0 (min (pv cs ph .queen + psLo cs ph .queen) (min (pv cs ph .rook + rookLo cs ph)
    (min (pv cs ph .bishop + bishopLo cs ph) (min (pv cs ph .knight + knightLo cs ph)
      (pv cs ph .pawn + psLo cs ph .pawn + passerLo cs ph + min (dbl cs ph) 0 + min (iso cs ph) 0)))))

/-- addends that occur once per accumulator. -/
def constHi : Int :=
  max (tempo cs ph) 0 + lHi cs.BishopPair.toList + 8 * max (pkd cs ph) (-(pkd cs ph)) + psHi cs ph .king + 600
def constLo : Int :=
  min (tempo cs ph) 0 + lLo cs.BishopPair.toList - 8 * max (pkd cs ph) (-(pkd cs ph)) + psLo cs ph .king

def spHi : Int := 15 * manHi cs ph + constHi cs ph
def spLo : Int := 15 * manLo cs ph + constLo cs ph

/-- king-attack score fed to the sigmoid: ≤ 15 attackers, 4 × ≤ 64 safe checks, ≤ 3 missing shelter pawns. -/
def kaHi : Int :=
  15 * lHi (row cs.KingAttackPieces ph) + 256 * lHi (row cs.SafeChecks ph) + 3 * max (shel cs ph) 0
def kaLo : Int :=
  15 * lLo (row cs.KingAttackPieces ph) + 256 * lLo (row cs.SafeChecks ph) + 3 * min (shel cs ph) 0

end

/-- the knight + bishop mate path (end-game half only). -/
def knbHi (cs : CoeffSet Int) : Int :=
  15 * lHi (row cs.PieceValues 1) + (psHi cs 1 .king + psHi cs 1 .knight + psHi cs 1 .bishop + 1470)
def knbLo (cs : CoeffSet Int) : Int :=
  15 * lLo (row cs.PieceValues 1) + (psLo cs 1 .king + psLo cs 1 .knight + psLo cs 1 .bishop)

/-- **The closed check on a coefficient set**: coefficients are int16 values and every interval above
    is narrower than the int16 range. -/
def boundOK (cs : CoeffSet Int) : Bool :=
  cs.all inRange16 &&
  ([0, 1].all fun ph => decide (spHi cs ph - spLo cs ph ≤ 32767) &&
    decide (-32768 ≤ kaLo cs ph) && decide (kaHi cs ph ≤ 32767)) &&
  decide (knbHi cs - knbLo cs ≤ 32767)

/-- at most 15 men besides the king. -/
def Men15 (i : EvalInput) (c : Color) : Prop :=
  popcount (i.own c .pawn) + popcount (i.own c .knight) + popcount (i.own c .bishop) +
    popcount (i.own c .rook) + popcount (i.own c .queen) ≤ 15

theorem Men15.cnt {i : EvalInput} {c : Color} (h : Men15 i c) :
    cnt i c .pawn + cnt i c .knight + cnt i c .bishop + cnt i c .rook + cnt i c .queen ≤ 15 := by
  unfold Men15 at h; unfold Bound.cnt; omega

/-! ### the accumulators `sp.mg[c]`, `sp.eg[c]` -/

theorem sp_bound (cs : CoeffSet Int) (ph : Nat) (i : EvalInput) (c : Color) (hm : Men15 i c) :
    spLo cs ph ≤ sum opsZ (spTerms opsZ cs i ph c) ∧ sum opsZ (spTerms opsZ cs i ph c) ≤ spHi cs ph := by
  rw [sum_opsZ]
  unfold spTerms
  simp only [lsum_append, lsum_cons, lsum_nil, Int.add_zero]
  rw [pieceValue_sum, doubled_sum, isolated_sum]
  obtain ⟨kd, per, epas, kd1, kd2, per1, per2⟩ := passer_bound cs ph i c
  obtain ⟨men, k, eloop, k1, k2, men1, men2⟩ := loop_bound cs ph i c
  rw [epas, eloop]
  have ht := tempo_bound cs ph i c
  have hbp := bishopPair_bound cs ph i c
  have hsg : 0 ≤ kingAttackTerm opsZ cs i ph c ∧ kingAttackTerm opsZ cs i ph c ≤ 600 :=
    sigmTable_range _
  generalize kingAttackTerm opsZ cs i ph c = sg at hsg
  generalize lsum (tempoTerms opsZ cs i ph c) = tm at ht
  generalize lsum (bishopPairTerms opsZ cs i ph c) = bp at hbp
  have hnp : ((popcount (i.passers c) : Nat) : Int) ≤ cnt i c .pawn := by
    have := passers_le i c; unfold cnt; omega
  have hnd : ((popcount (i.doubledPawns c) : Nat) : Int) ≤ cnt i c .pawn := by
    have := doubled_le i c; unfold cnt; omega
  have hni : ((popcount (i.isolatedPawns c) : Nat) : Int) ≤ cnt i c .pawn := by
    have := isolated_le i c; unfold cnt; omega
  have hnp0 : (0 : Int) ≤ (popcount (i.passers c) : Nat) := by omega
  have hnd0 : (0 : Int) ≤ (popcount (i.doubledPawns c) : Nat) := by omega
  have hni0 : (0 : Int) ≤ (popcount (i.isolatedPawns c) : Nat) := by omega
  generalize ((popcount (i.passers c) : Nat) : Int) = np at *
  generalize ((popcount (i.doubledPawns c) : Nat) : Int) = nd at *
  generalize ((popcount (i.isolatedPawns c) : Nat) : Int) = ni at *
  have hsum := hm.cnt
  have cP := cnt_nonneg i c .pawn
  have cN := cnt_nonneg i c .knight
  have cB := cnt_nonneg i c .bishop
  have cR := cnt_nonneg i c .rook
  have cQ := cnt_nonneg i c .queen
  generalize cnt i c .pawn = nP at *
  generalize cnt i c .knight = nN at *
  generalize cnt i c .bishop = nB at *
  generalize cnt i c .rook = nR at *
  generalize cnt i c .queen = nQ at *
  have pasHi0 : 0 ≤ passerHi cs ph := by
    have := lHi_nonneg (row cs.PasserRank ph); unfold passerHi; omega
  have pasLo0 : passerLo cs ph ≤ 0 := by
    have := lLo_nonpos (row cs.PasserRank ph); unfold passerLo; omega
  constructor
  · -- lower bound
    have e1 : nP * passerLo cs ph ≤ np * passerLo cs ph := by nlinarith
    have e2 : nP * min (dbl cs ph) 0 ≤ nd * dbl cs ph :=
      le_mul_of hnd0 hnd (by omega) (by omega)
    have e3 : nP * min (iso cs ph) 0 ≤ ni * iso cs ph :=
      le_mul_of hni0 hni (by omega) (by omega)
    have key := combine_lo 15 nP nN nB nR nQ
      (pv cs ph .pawn + psLo cs ph .pawn + passerLo cs ph + min (dbl cs ph) 0 + min (iso cs ph) 0)
      (pv cs ph .knight + knightLo cs ph) (pv cs ph .bishop + bishopLo cs ph)
      (pv cs ph .rook + rookLo cs ph) (pv cs ph .queen + psLo cs ph .queen) (manLo cs ph)
      cP cN cB cR cQ hsum (by unfold manLo; omega) (by unfold manLo; omega) (by unfold manLo; omega)
      (by unfold manLo; omega) (by unfold manLo; omega) (by unfold manLo; omega)
    unfold spLo constLo
    linarith
  · -- upper bound
    have e1 : np * passerHi cs ph ≤ nP * passerHi cs ph := by nlinarith
    have e2 : nd * dbl cs ph ≤ nP * max (dbl cs ph) 0 :=
      mul_le_of hnd0 hnd (by omega) (by omega)
    have e3 : ni * iso cs ph ≤ nP * max (iso cs ph) 0 :=
      mul_le_of hni0 hni (by omega) (by omega)
    have key := combine_hi 15 nP nN nB nR nQ
      (pv cs ph .pawn + psHi cs ph .pawn + passerHi cs ph + max (dbl cs ph) 0 + max (iso cs ph) 0)
      (pv cs ph .knight + knightHi cs ph) (pv cs ph .bishop + bishopHi cs ph)
      (pv cs ph .rook + rookHi cs ph) (pv cs ph .queen + psHi cs ph .queen) (manHi cs ph)
      cP cN cB cR cQ hsum (by unfold manHi; omega) (by unfold manHi; omega) (by unfold manHi; omega)
      (by unfold manHi; omega) (by unfold manHi; omega) (by unfold manHi; omega)
    unfold spHi constHi
    linarith

/-! ### the king-attack scores -/

theorem attackPiece_bound (cs : CoeffSet Int) (ph : Nat) (i : EvalInput) (c : Color) (hm : Men15 i c) :
    15 * lLo (row cs.KingAttackPieces ph) ≤ lsum (attackPieceTerms opsZ cs i ph c) ∧
    lsum (attackPieceTerms opsZ cs i ph c) ≤ 15 * lHi (row cs.KingAttackPieces ph) := by
  have hlo := lLo_nonpos (row cs.KingAttackPieces ph)
  have hhi := lHi_nonneg (row cs.KingAttackPieces ph)
  have item : ∀ (p : Piece) (sq : Nat), lLo (row cs.KingAttackPieces ph) ≤
      lsum (if i.kingNb c.flip &&& i.pieceAttacks p sq != 0 then [at2 opsZ cs.KingAttackPieces ph (p.toNat - 2)] else []) ∧
      lsum (if i.kingNb c.flip &&& i.pieceAttacks p sq != 0 then [at2 opsZ cs.KingAttackPieces ph (p.toNat - 2)] else []) ≤
        lHi (row cs.KingAttackPieces ph) := by
    intro p sq
    have := at2_bound cs.KingAttackPieces ph (p.toNat - 2)
    split <;> simp only [lsum_cons, lsum_nil] <;> omega
  have hp := fun p => lsum_flatMap_bound (bits (i.own c p))
    (fun sq => if i.kingNb c.flip &&& i.pieceAttacks p sq != 0 then [at2 opsZ cs.KingAttackPieces ph (p.toNat - 2)] else [])
    _ _ (fun sq _ => item p sq)
  have hq := hp .queen; have hr := hp .rook; have hb := hp .bishop; have hn := hp .knight
  unfold attackPieceTerms attackers
  simp only [List.flatMap_cons, List.flatMap_nil, lsum_append, lsum_nil, Int.add_zero]
  have hsum := hm.cnt
  have cP := cnt_nonneg i c .pawn
  unfold cnt popcount at hsum cP
  generalize lLo (row cs.KingAttackPieces ph) = L at *
  generalize lHi (row cs.KingAttackPieces ph) = H at *
  constructor <;> nlinarith

theorem safeCheck_bound (cs : CoeffSet Int) (ph : Nat) (i : EvalInput) (c : Color) :
    256 * lLo (row cs.SafeChecks ph) ≤ lsum (safeCheckTerms opsZ cs i ph c) ∧
    lsum (safeCheckTerms opsZ cs i ph c) ≤ 256 * lHi (row cs.SafeChecks ph) := by
  have hlo := lLo_nonpos (row cs.SafeChecks ph)
  have hhi := lHi_nonneg (row cs.SafeChecks ph)
  have item : ∀ p : Piece, 64 * lLo (row cs.SafeChecks ph) ≤
      opsZ.mulInt (popcount (i.safeChecks c p)) (at2 opsZ cs.SafeChecks ph (p.toNat - 2)) ∧
      opsZ.mulInt (popcount (i.safeChecks c p)) (at2 opsZ cs.SafeChecks ph (p.toNat - 2)) ≤
        64 * lHi (row cs.SafeChecks ph) := by
    intro p
    have hb := at2_bound cs.SafeChecks ph (p.toNat - 2)
    have hn := popcount_le64 (i.safeChecks c p)
    show _ ≤ ((popcount (i.safeChecks c p) : Nat) : Int) * _ ∧ ((popcount (i.safeChecks c p) : Nat) : Int) * _ ≤ _
    exact ⟨le_mul_of (by omega) (by omega) hb.1 hlo, mul_le_of (by omega) (by omega) hb.2 hhi⟩
  have hq := item .queen; have hr := item .rook; have hb := item .bishop; have hn := item .knight
  unfold safeCheckTerms attackers
  simp only [List.map_cons, List.map_nil, lsum_cons, lsum_nil]
  omega

theorem shelter_bound (cs : CoeffSet Int) (ph : Nat) (i : EvalInput) (c : Color) :
    3 * min (shel cs ph) 0 ≤ shelterTerm opsZ cs i ph c ∧ shelterTerm opsZ cs i ph c ≤ 3 * max (shel cs ph) 0 := by
  unfold shelterTerm shel
  show _ ≤ max (3 - i.shelterPawns c.flip) 0 * _ ∧ max (3 - i.shelterPawns c.flip) 0 * _ ≤ _
  have h0 : 0 ≤ i.shelterPawns c.flip := by unfold EvalInput.shelterPawns; omega
  have hm0 : 0 ≤ max (3 - i.shelterPawns c.flip) 0 := by omega
  have hm3 : max (3 - i.shelterPawns c.flip) 0 ≤ 3 := by omega
  generalize max (3 - i.shelterPawns c.flip) 0 = m at *
  exact ⟨le_mul_of hm0 hm3 (by omega) (by omega), mul_le_of hm0 hm3 (by omega) (by omega)⟩

theorem ka_bound (cs : CoeffSet Int) (ph : Nat) (i : EvalInput) (c : Color) (hm : Men15 i c) :
    kaLo cs ph ≤ sum opsZ (kaTerms opsZ cs i ph c) ∧ sum opsZ (kaTerms opsZ cs i ph c) ≤ kaHi cs ph := by
  rw [sum_opsZ]
  have h1 := attackPiece_bound cs ph i c hm
  unfold kaTerms kaLo kaHi
  cases c
  · have h2 := safeCheck_bound cs ph i .white
    have h3 := shelter_bound cs ph i .white
    simp only [lsum_append, lsum_cons, lsum_nil]
    omega
  · have h2 := safeCheck_bound cs ph i .black
    have h3 := shelter_bound cs ph i .black
    simp only [lsum_append, lsum_cons, lsum_nil]
    omega

/-! ### the knight + bishop mate path -/

theorem getD_le {l : List Nat} (h : ∀ x ∈ l, x ≤ 64) (k : Nat) : l.getD k 0 ≤ 64 := by
  rw [List.getD_eq_getElem?_getD]
  cases hk : l[k]? with
  | none => simp
  | some x => exact h x (List.mem_of_getElem? hk)

theorem kbCorner_le (p k : Nat) : kbCorner p k ≤ 64 := by
  have hall : ∀ r ∈ Gen.Eval.kbCorners, ∀ x ∈ r, x ≤ 64 := by decide
  unfold kbCorner
  apply getD_le
  rw [List.getD_eq_getElem?_getD]
  cases hp : Gen.Eval.kbCorners[p]? with
  | none => simp
  | some r => exact hall r (List.mem_of_getElem? hp)

theorem knbCornerDist_range (i : EvalInput) : 0 ≤ knbCornerDist i ∧ knbCornerDist i ≤ 49 := by
  unfold knbCornerDist
  simp only
  have hv := lowestSet_le (i.pc .king &&& i.col (knbVictim i))
  have h1 := cheb_range _ _ hv (kbCorner_le
    (((lowestSet (i.pc .bishop) &&& 7) + ((lowestSet (i.pc .bishop) >>> 3) &&& 7)) &&& 1) 0)
  have h2 := cheb_range _ _ hv (kbCorner_le
    (((lowestSet (i.pc .bishop) &&& 7) + ((lowestSet (i.pc .bishop) >>> 3) &&& 7)) &&& 1) 1)
  generalize hd : (7 - min (cheb _ _) (cheb _ _) : Int) = d
  have hd1 : -1 ≤ d := by omega
  have hd2 : d ≤ 7 := by omega
  clear hd h1 h2
  interval_cases d <;> omega

theorem knb_bound (cs : CoeffSet Int) (i : EvalInput) (c : Color) (hm : Men15 i c) :
    knbLo cs ≤ sum opsZ (pieceValueTerms opsZ cs i 1 c ++ knbvkTerms opsZ cs i 1 c) ∧
    sum opsZ (pieceValueTerms opsZ cs i 1 c ++ knbvkTerms opsZ cs i 1 c) ≤ knbHi cs := by
  rw [sum_opsZ, lsum_append, pieceValue_sum]
  have hsum := hm.cnt
  have hpv : ∀ p : Piece, lLo (row cs.PieceValues 1) ≤ pv cs 1 p ∧ pv cs 1 p ≤ lHi (row cs.PieceValues 1) :=
    fun p => at2_bound _ _ _
  have klo := combine_lo 15 _ _ _ _ _ _ _ _ _ _ (lLo (row cs.PieceValues 1))
    (cnt_nonneg i c .pawn) (cnt_nonneg i c .knight) (cnt_nonneg i c .bishop) (cnt_nonneg i c .rook)
    (cnt_nonneg i c .queen) hsum (lLo_nonpos _) (hpv .pawn).1 (hpv .knight).1 (hpv .bishop).1 (hpv .rook).1
    (hpv .queen).1
  have khi := combine_hi 15 _ _ _ _ _ _ _ _ _ _ (lHi (row cs.PieceValues 1))
    (cnt_nonneg i c .pawn) (cnt_nonneg i c .knight) (cnt_nonneg i c .bishop) (cnt_nonneg i c .rook)
    (cnt_nonneg i c .queen) hsum (lHi_nonneg _) (hpv .pawn).2 (hpv .knight).2 (hpv .bishop).2 (hpv .rook).2
    (hpv .queen).2
  have hK := fun cc sq => psqt_bound cs 1 cc .king sq
  have hN := fun cc sq => psqt_bound cs 1 cc .knight sq
  have hB := fun cc sq => psqt_bound cs 1 cc .bishop sq
  have lK := lLo_nonpos (row cs.PSqT (2 * (Piece.king.toNat - 1) + 1))
  have lN := lLo_nonpos (row cs.PSqT (2 * (Piece.knight.toNat - 1) + 1))
  have lB := lLo_nonpos (row cs.PSqT (2 * (Piece.bishop.toNat - 1) + 1))
  have uK := lHi_nonneg (row cs.PSqT (2 * (Piece.king.toNat - 1) + 1))
  have uN := lHi_nonneg (row cs.PSqT (2 * (Piece.knight.toNat - 1) + 1))
  have uB := lHi_nonneg (row cs.PSqT (2 * (Piece.bishop.toNat - 1) + 1))
  have hcd := knbCornerDist_range i
  have hterm : psLo cs 1 .king + psLo cs 1 .knight + psLo cs 1 .bishop ≤ lsum (knbvkTerms opsZ cs i 1 c) ∧
      lsum (knbvkTerms opsZ cs i 1 c) ≤ psHi cs 1 .king + psHi cs 1 .knight + psHi cs 1 .bishop + 1470 := by
    unfold knbvkTerms
    simp only
    unfold psLo psHi at *
    split
    · have := hK (knbVictim i) (lowestSet (i.pc .king &&& i.col (knbVictim i)))
      simp only [lsum_cons, lsum_nil]
      omega
    · have a1 := hK (knbVictim i).flip (lowestSet (i.pc .king &&& i.col (knbVictim i).flip))
      have a2 := hN (knbVictim i).flip (lowestSet (i.pc .knight))
      have a3 := hB (knbVictim i).flip (lowestSet (i.pc .bishop))
      simp only [if_true, lsum_append, lsum_cons, lsum_nil]
      show _ ≤ _ + (_ + (_ + 0)) + (knbCornerDist i * 30 + 0) ∧ _ + (_ + (_ + 0)) + (knbCornerDist i * 30 + 0) ≤ _
      omega
  unfold knbLo knbHi
  constructor <;> omega

/-! ### the theorem -/

theorem inRange16_of {x : Int} (h1 : -32768 ≤ x) (h2 : x ≤ 32767) : inRange16 x = true := by
  simp [inRange16, h1, h2]

/-- **No relevant int16 wrap** for a coefficient set that passes the closed check, on every input with
    at most 15 men besides the king per side and a halfmove clock in `0..100`. -/
theorem noWrap_of_boundOK (cs : CoeffSet Int) (i : EvalInput) (hb : boundOK cs = true)
    (hm : ∀ c, Men15 i c) (hf : 0 ≤ i.fifty ∧ i.fifty ≤ 100) : noInt16Wrap cs i = true := by
  unfold boundOK at hb
  simp only [Bool.and_eq_true, decide_eq_true_eq, List.all_cons, List.all_nil, Bool.and_true] at hb
  obtain ⟨⟨hcs, ⟨⟨hsp0, hkl0⟩, hkh0⟩, ⟨⟨hsp1, hkl1⟩, hkh1⟩⟩, hknb⟩ := hb
  have hdiff : ∀ ph, spHi cs ph - spLo cs ph ≤ 32767 → ∀ c,
      inRange16 (sum opsZ (spTerms opsZ cs i ph c) - sum opsZ (spTerms opsZ cs i ph c.flip)) = true ∧
      -32767 ≤ sum opsZ (spTerms opsZ cs i ph c) - sum opsZ (spTerms opsZ cs i ph c.flip) ∧
      sum opsZ (spTerms opsZ cs i ph c) - sum opsZ (spTerms opsZ cs i ph c.flip) ≤ 32767 := by
    intro ph h c
    have a := sp_bound cs ph i c (hm c)
    have b := sp_bound cs ph i c.flip (hm c.flip)
    exact ⟨inRange16_of (by omega) (by omega), by omega, by omega⟩
  unfold noInt16Wrap
  simp only [Bool.and_eq_true, decide_eq_true_eq]
  refine ⟨⟨⟨⟨hcs, hf.1⟩, hf.2⟩, ?_⟩, ?_⟩
  · -- the result
    unfold evalCore
    by_cases h1 : insufficientMat i = true
    · simp only [h1, if_true]; rfl
    · simp only [h1, Bool.false_eq_true, if_false]
      by_cases h2 : knbvk i = true
      · simp only [h2, if_true]
        have a := knb_bound cs i i.stm (hm _)
        have b := knb_bound cs i i.stm.flip (hm _)
        exact inRange16_of (by show -32768 ≤ _ - _; omega) (by show _ - _ ≤ 32767; omega)
      · simp only [h2, Bool.false_eq_true, if_false]
        have d0 := (hdiff 0 hsp0 i.stm).2
        have d1 := (hdiff 1 hsp1 i.stm).2
        have hP : 0 ≤ min (phaseSum i) maxPhase ∧ min (phaseSum i) maxPhase ≤ 24 := by
          have := phaseSum_nonneg i
          have e : maxPhase = 24 := rfl
          omega
        have := taper_bound _ _ _ (100 - i.fifty) 32767 (by omega) ⟨by omega, d0.2⟩ ⟨by omega, d1.2⟩ hP
          ⟨by omega, by omega⟩
        exact inRange16_of (Int.le_trans (by omega) this.1) this.2
  · -- the inspected intermediate values
    by_cases h1 : insufficientMat i = true
    · simp only [h1, if_true]
    · simp only [h1, Bool.false_eq_true, if_false]
      by_cases h2 : knbvk i = true
      · simp only [h2, if_true]
        have a := knb_bound cs i i.stm (hm _)
        have b := knb_bound cs i i.stm.flip (hm _)
        exact inRange16_of (by omega) (by omega)
      · simp only [h2, Bool.false_eq_true, if_false, List.all_cons, List.all_nil, Bool.and_true,
          Bool.and_eq_true]
        have k0 := fun c => ka_bound cs 0 i c (hm c)
        have k1 := fun c => ka_bound cs 1 i c (hm c)
        refine ⟨⟨⟨?_, ?_⟩, ⟨?_, ?_⟩⟩, (hdiff 0 hsp0 i.stm).1, (hdiff 1 hsp1 i.stm).1⟩
        · have := k0 .white; exact inRange16_of (by omega) (by omega)
        · have := k0 .black; exact inRange16_of (by omega) (by omega)
        · have := k1 .white; exact inRange16_of (by omega) (by omega)
        · have := k1 .black; exact inRange16_of (by omega) (by omega)

end ChessVerif.Eval.Bound
