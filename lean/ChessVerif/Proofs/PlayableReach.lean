/-
  C01 closure, iterated: positions reached from a valid position by playing playable moves (with the
  halfmove clock staying within the domain ≤ 100) are valid, so every C01/C02 statement applies to
  them as well ("whether the position was loaded from FEN or reached by playing moves").
-/
import ChessVerif.Proofs.PlayableClosure2

namespace ChessVerif.Playable
open ChessVerif Board Rules Bridge AbsMake

/-- `Reachable K b b'`: `b'` is obtained from `b` by a sequence of playable moves, each keeping the
    halfmove clock ≤ 100 (the range of the properties' domain). -/
inductive Reachable (K : Keys) (b : Board) : Board → Prop
  | refl : Reachable K b b
  | step {b₁ : Board} {m : Move} : Reachable K b b₁ → m ∈ MoveGen.playable K b₁ →
      (b₁.makeMove K m).1.fifty ≤ 100 → Reachable K b (b₁.makeMove K m).1

theorem valid_reachable (K : Keys) {b b' : Board} (hv : Board.valid b = true) (h : Reachable K b b') :
    Board.valid b' = true := by
  induction h with
  | refl => exact hv
  | step _ hm hc ih => exact valid_make K ih hm hc

/-- the executable form: play a list of moves, checking playability and the clock at each step. -/
def playLine (K : Keys) (b : Board) : List Move → Option Board
  | [] => some b
  | m :: ms =>
    if m ∈ MoveGen.playable K b ∧ (b.makeMove K m).1.fifty ≤ 100 then playLine K (b.makeMove K m).1 ms else none

theorem reachable_trans (K : Keys) {a b c : Board} (h₁ : Reachable K a b) (h₂ : Reachable K b c) : Reachable K a c := by
  induction h₂ with
  | refl => exact h₁
  | step _ hm hc ih => exact Reachable.step ih hm hc

theorem reachable_playLine (K : Keys) {b b' : Board} (ms : List Move) (h : playLine K b ms = some b') :
    Reachable K b b' := by
  induction ms generalizing b with
  | nil => simp only [playLine, Option.some.injEq] at h; subst h; exact Reachable.refl
  | cons m ms ih =>
    unfold playLine at h
    split at h
    · rename_i hc
      exact reachable_trans K (Reachable.step Reachable.refl hc.1 hc.2) (ih h)
    · exact absurd h (by simp)

end ChessVerif.Playable
