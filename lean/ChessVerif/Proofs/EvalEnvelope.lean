/-
  C19 (a), second half: the exact-rational evaluation (abstract sigmoid `σ`, `TableNear σ`) stays within
  `4799/2400 = 1 + 2399/2400 < 2` of the exact-integer evaluation:
    * each of the two sigmoid values entering a difference is within 1/2 of its table entry → the
      middle-game and end-game differences are within 1 → (weights `mgPhase + egPhase = 24`, clock
      factor `0 ≤ 100 - fifty ≤ 100`) the tapered value is within 1;
    * the two truncating divisions `/ 24 / 100` lose less than 1 together (at most 2399/2400).
-/
import ChessVerif.Proofs.EvalExact
import Mathlib.Algebra.Order.Field.Rat
import Mathlib.Tactic.Linarith
import Mathlib.Tactic.NormNum
import Mathlib.Tactic.Positivity
import Mathlib.Tactic.Ring

namespace ChessVerif.Eval
open ChessVerif

/-! ### truncating division -/

theorem tdiv_rem (v d : Int) (hd : 0 < d) : ∃ r, v = d * Int.tdiv v d + r ∧ -(d - 1) ≤ r ∧ r ≤ d - 1 ∧
    (0 ≤ v → 0 ≤ r) ∧ (v ≤ 0 → r ≤ 0) := by
  refine ⟨Int.tmod v d, ?_, ?_, ?_, ?_, ?_⟩
  · have := Int.mul_tdiv_add_tmod v d; omega
  · rcases Int.le_total 0 v with h | h
    · have := Int.tmod_nonneg d h; omega
    · have h1 : Int.tmod v d = -Int.tmod (-v) d := by rw [Int.neg_tmod]; omega
      have h2 := Int.tmod_lt_of_pos (-v) hd
      omega
  · rcases Int.le_total 0 v with h | h
    · have := Int.tmod_lt_of_pos v hd; omega
    · have h1 : Int.tmod v d = -Int.tmod (-v) d := by rw [Int.neg_tmod]; omega
      have h2 := Int.tmod_nonneg d (show 0 ≤ -v by omega)
      omega
  · intro h; exact Int.tmod_nonneg d h
  · intro h
    have h1 : Int.tmod v d = -Int.tmod (-v) d := by rw [Int.neg_tmod]; omega
    have h2 := Int.tmod_nonneg d (show 0 ≤ -v by omega)
    omega

/-- `v / 24 / 100` with Go's truncating division is within 2399/2400 of the exact quotient. -/
theorem trunc_envelope (v : Int) :
    -(2399 / 2400 : Rat) ≤ (v : Rat) / 24 / 100 - ((goDiv (goDiv v 24) 100 : Int) : Rat) ∧
    (v : Rat) / 24 / 100 - ((goDiv (goDiv v 24) 100 : Int) : Rat) ≤ 2399 / 2400 := by
  unfold goDiv
  obtain ⟨r1, e1, l1, u1, _, _⟩ := tdiv_rem v 24 (by norm_num)
  obtain ⟨r2, e2, l2, u2, _, _⟩ := tdiv_rem (Int.tdiv v 24) 100 (by norm_num)
  generalize Int.tdiv (Int.tdiv v 24) 100 = t2 at *
  generalize Int.tdiv v 24 = t1 at *
  have hv : v = 2400 * t2 + (24 * r2 + r1) := by omega
  have hq : (v : Rat) = 2400 * (t2 : Rat) + ((24 * r2 + r1 : Int) : Rat) := by exact_mod_cast hv
  have hk1 : (-2399 : Rat) ≤ ((24 * r2 + r1 : Int) : Rat) := by exact_mod_cast (show (-2399 : Int) ≤ 24 * r2 + r1 by omega)
  have hk2 : ((24 * r2 + r1 : Int) : Rat) ≤ 2399 := by exact_mod_cast (show 24 * r2 + r1 ≤ (2399 : Int) by omega)
  rw [hq]
  generalize ((24 * r2 + r1 : Int) : Rat) = k at *
  constructor
  · have : (2400 * (t2 : Rat) + k) / 24 / 100 - t2 = k / 2400 := by ring
    rw [this]; linarith
  · have : (2400 * (t2 : Rat) + k) / 24 / 100 - t2 = k / 2400 := by ring
    rw [this]; linarith

/-! ### the phase weights -/

theorem phaseOf_nonneg (p : Piece) : 0 ≤ phaseOf p := by cases p <;> decide

theorem phaseSum_nonneg (i : EvalInput) : 0 ≤ phaseSum i := by
  unfold phaseSum pawnToQueen
  simp only [List.foldl_cons, List.foldl_nil]
  have h : ∀ p, 0 ≤ ((popcount (i.own .white p) : Int) + (popcount (i.own .black p) : Int)) * phaseOf p :=
    fun p => Int.mul_nonneg (by omega) (phaseOf_nonneg p)
  have h1 := h .pawn; have h2 := h .knight; have h3 := h .bishop; have h4 := h .rook; have h5 := h .queen
  omega

/-! ### the rational accumulators -/

/-- the shipped-style conversion of an integer coefficient set. -/
abbrev toQ (cs : CoeffSet Int) : CoeffSet Rat := cs.map fun n : Int => (n : Rat)

theorem accQ_eq (σ : Rat → Rat) (cs : CoeffSet Int) (i : EvalInput) (ph : Nat) (c : Color) :
    sum (opsQ σ) (spTerms (opsQ σ) (toQ cs) i ph c) =
      ((sum opsZ (restTerms opsZ cs i ph c) : Int) : Rat) + σ ((sum opsZ (kaTerms opsZ cs i ph c) : Int) : Rat) := by
  rw [spTerms_eq, sum_append_single]
  unfold kingAttackTerm
  have h := hom_cast σ
  rw [sum_map h, restTerms_map h, sum_map h, kaTerms_map h]
  rfl

/-- the difference of one accumulator between the rational and the exact-integer evaluation is the
    sigmoid's deviation from the table. -/
theorem accQ_sub_accZ (σ : Rat → Rat) (hσ : TableNear σ) (cs : CoeffSet Int) (i : EvalInput) (ph : Nat) (c : Color)
    (hka : inRange16 (sum opsZ (kaTerms opsZ cs i ph c)) = true) :
    -(1 / 2 : Rat) ≤ sum (opsQ σ) (spTerms (opsQ σ) (toQ cs) i ph c) - ((sum opsZ (spTerms opsZ cs i ph c) : Int) : Rat) ∧
    sum (opsQ σ) (spTerms (opsQ σ) (toQ cs) i ph c) - ((sum opsZ (spTerms opsZ cs i ph c) : Int) : Rat) ≤ 1 / 2 := by
  simp only [inRange16, Bool.and_eq_true, decide_eq_true_eq] at hka
  have := hσ _ hka.1 hka.2
  rw [accQ_eq, accZ_eq]
  push_cast
  constructor <;> linarith [this.1, this.2]

/-! ### the envelope -/

theorem taper_envelope (mgQ egQ : Rat) (mgZ egZ P E F : Int)
    (hm1 : -1 ≤ mgQ - mgZ) (hm2 : mgQ - mgZ ≤ 1) (he1 : -1 ≤ egQ - egZ) (he2 : egQ - egZ ≤ 1)
    (hP : 0 ≤ P) (hE : 0 ≤ E) (hPE : P + E = 24) (hF0 : 0 ≤ F) (hF1 : F ≤ 100) :
    -(4799 / 2400 : Rat) ≤ (mgQ * P + egQ * E) * (F : Rat) / 24 / 100 - ((goDiv (goDiv ((mgZ * P + egZ * E) * F) 24) 100 : Int) : Rat) ∧
    (mgQ * P + egQ * E) * (F : Rat) / 24 / 100 - ((goDiv (goDiv ((mgZ * P + egZ * E) * F) 24) 100 : Int) : Rat) ≤ 4799 / 2400 := by
  obtain ⟨t1, t2⟩ := trunc_envelope ((mgZ * P + egZ * E) * F)
  have hPq : (0 : Rat) ≤ P := by exact_mod_cast hP
  have hEq : (0 : Rat) ≤ E := by exact_mod_cast hE
  have hPEq : (P : Rat) + E = 24 := by exact_mod_cast hPE
  have hF0q : (0 : Rat) ≤ F := by exact_mod_cast hF0
  have hF1q : (F : Rat) ≤ 100 := by exact_mod_cast hF1
  set dm := mgQ - mgZ with hdm
  set de := egQ - egZ with hde
  have hx1 : -24 ≤ dm * P + de * E := by nlinarith
  have hx2 : dm * P + de * E ≤ 24 := by nlinarith
  have hy1 : -2400 ≤ (dm * P + de * E) * F := by nlinarith
  have hy2 : (dm * P + de * E) * F ≤ 2400 := by nlinarith
  have key : (mgQ * P + egQ * E) * (F : Rat) / 24 / 100 =
      (((mgZ * P + egZ * E) * F : Int) : Rat) / 24 / 100 + (dm * P + de * E) * F / 2400 := by
    push_cast; rw [hdm, hde]; ring
  rw [key]
  constructor <;> linarith

theorem maxPhase_eq : maxPhase = 24 := rfl

/-- exact rationals (abstract sigmoid within 1/2 of the table) against exact integers. -/
theorem evalQ_vs_evalZ (σ : Rat → Rat) (hσ : TableNear σ) (cs : CoeffSet Int) (i : EvalInput)
    (h : noInt16Wrap cs i = true) :
    -(4799 / 2400 : Rat) ≤ evalCore (opsQ σ) (toQ cs) i - ((evalCore opsZ cs i : Int) : Rat) ∧
    evalCore (opsQ σ) (toQ cs) i - ((evalCore opsZ cs i : Int) : Rat) ≤ 4799 / 2400 := by
  unfold noInt16Wrap at h
  simp only [Bool.and_eq_true, decide_eq_true_eq] at h
  obtain ⟨⟨⟨⟨_, hf0⟩, hf1⟩, _⟩, hpath⟩ := h
  have hc := hom_cast σ
  unfold evalCore
  by_cases h1 : insufficientMat i = true
  · simp only [h1, if_true]
    show -(4799 / 2400 : Rat) ≤ ((0 : Int) : Rat) - ((0 : Int) : Rat) ∧ ((0 : Int) : Rat) - ((0 : Int) : Rat) ≤ 4799 / 2400
    norm_num
  · simp only [h1, Bool.false_eq_true, if_false] at hpath ⊢
    by_cases h2 : knbvk i = true
    · simp only [h2, if_true]
      have e : ∀ c, sum (opsQ σ) (pieceValueTerms (opsQ σ) (toQ cs) i 1 c ++ knbvkTerms (opsQ σ) (toQ cs) i 1 c) =
          ((sum opsZ (pieceValueTerms opsZ cs i 1 c ++ knbvkTerms opsZ cs i 1 c) : Int) : Rat) := by
        intro c
        rw [sum_map hc, List.map_append, pieceValueTerms_map hc, knbvkTerms_map hc]
      rw [e, e]
      have hs : ∀ a b : Int, (opsQ σ).sub (a : Rat) (b : Rat) - ((opsZ.sub a b : Int) : Rat) = 0 := by
        intro a b
        show (a : Rat) - b - ((a - b : Int) : Rat) = 0
        push_cast; ring
      rw [hs]
      norm_num
    · simp only [h2, Bool.false_eq_true, if_false, List.all_cons, List.all_nil, Bool.and_true,
        Bool.and_eq_true] at hpath ⊢
      obtain ⟨⟨⟨k0w, k0b⟩, ⟨k1w, k1b⟩⟩, _⟩ := hpath
      have hka : ∀ ph c, ph = 0 ∨ ph = 1 → inRange16 (sum opsZ (kaTerms opsZ cs i ph c)) = true := by
        intro ph c hph
        rcases hph with rfl | rfl <;> cases c <;> assumption
      obtain ⟨a1, a2⟩ := accQ_sub_accZ σ hσ cs i 0 i.stm (hka _ _ (Or.inl rfl))
      obtain ⟨b1, b2⟩ := accQ_sub_accZ σ hσ cs i 0 i.stm.flip (hka _ _ (Or.inl rfl))
      obtain ⟨c1, c2⟩ := accQ_sub_accZ σ hσ cs i 1 i.stm (hka _ _ (Or.inr rfl))
      obtain ⟨d1, d2⟩ := accQ_sub_accZ σ hσ cs i 1 i.stm.flip (hka _ _ (Or.inr rfl))
      have hp0 := phaseSum_nonneg i
      have hP0 : 0 ≤ min (phaseSum i) maxPhase := by rw [maxPhase_eq]; omega
      have hE0 : 0 ≤ maxPhase - min (phaseSum i) maxPhase := by rw [maxPhase_eq]; omega
      have hPE : min (phaseSum i) maxPhase + (maxPhase - min (phaseSum i) maxPhase) = 24 := by
        rw [maxPhase_eq]; omega
      have key := taper_envelope
        (sum (opsQ σ) (spTerms (opsQ σ) (toQ cs) i 0 i.stm) - sum (opsQ σ) (spTerms (opsQ σ) (toQ cs) i 0 i.stm.flip))
        (sum (opsQ σ) (spTerms (opsQ σ) (toQ cs) i 1 i.stm) - sum (opsQ σ) (spTerms (opsQ σ) (toQ cs) i 1 i.stm.flip))
        (sum opsZ (spTerms opsZ cs i 0 i.stm) - sum opsZ (spTerms opsZ cs i 0 i.stm.flip))
        (sum opsZ (spTerms opsZ cs i 1 i.stm) - sum opsZ (spTerms opsZ cs i 1 i.stm.flip))
        (min (phaseSum i) maxPhase) (maxPhase - min (phaseSum i) maxPhase) (100 - i.fifty)
        (by push_cast; linarith) (by push_cast; linarith) (by push_cast; linarith) (by push_cast; linarith)
        hP0 hE0 hPE (by omega) (by omega)
      rw [opsZ_taper, maxPhase_eq]
      rw [maxPhase_eq] at key
      have hq : (opsQ σ).taper
            (sum (opsQ σ) (spTerms (opsQ σ) (toQ cs) i 0 i.stm) - sum (opsQ σ) (spTerms (opsQ σ) (toQ cs) i 0 i.stm.flip))
            (sum (opsQ σ) (spTerms (opsQ σ) (toQ cs) i 1 i.stm) - sum (opsQ σ) (spTerms (opsQ σ) (toQ cs) i 1 i.stm.flip))
            (min (phaseSum i) 24) (24 - min (phaseSum i) 24) i.fifty
          = ((sum (opsQ σ) (spTerms (opsQ σ) (toQ cs) i 0 i.stm) - sum (opsQ σ) (spTerms (opsQ σ) (toQ cs) i 0 i.stm.flip)) *
              ((min (phaseSum i) 24 : Int) : Rat) +
             (sum (opsQ σ) (spTerms (opsQ σ) (toQ cs) i 1 i.stm) - sum (opsQ σ) (spTerms (opsQ σ) (toQ cs) i 1 i.stm.flip)) *
              ((24 - min (phaseSum i) 24 : Int) : Rat)) * ((100 - i.fifty : Int) : Rat) / 24 / 100 := by
        simp only [opsQ, maxPhase_eq]
        push_cast
        ring
      exact hq ▸ key

theorem ofFlat_map {S T : Type} (f : Int → S) (φ : S → T) (g : String → List Int) :
    (CoeffSet.ofFlat f g).map φ = CoeffSet.ofFlat (φ ∘ f) g := by
  simp [CoeffSet.ofFlat, CoeffSet.map, arr1, arr2, List.map_map, Function.comp_def]

theorem shippedQ_eq : shippedQ = toQ shipped := by
  unfold shippedQ shipped toQ
  rw [ofFlat_map]
  rfl

end ChessVerif.Eval
