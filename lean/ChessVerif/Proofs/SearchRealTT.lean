/-
  The invariant `SearchReal.PSok` (Proofs/SearchRealInv.lean) under the operations of the REAL search
  components (no model changes; lemmas about Model/Transp.lean and Model/SearchReal.lean):

  * `TTMovesOK` (every move word of the table has bit 15 clear) holds of `Table.new` / `Table.clear`,
    is inherited by every `LookUp` result and is preserved by `Insert` of a word < 32768
    (`Insert` writes the given word or a word already present in the bucket: `insertLoop_move`);
  * hence `PSok` holds of `PS.new`, `PS.clear` and is preserved by `ttStore` (move < 32768),
    `failHigh` (`HeurBands.failHigh_ok`), `nextGen`; `ttProbe` only returns moves < 32768;
  * `qMoves` (the quiescence list) only yields moves of `MoveGen.genNoisy`.
-/
import ChessVerif.Proofs.SearchRealInv
import ChessVerif.Proofs.PickerSelect

namespace ChessVerif
namespace SearchReal
open Model.Transp
set_option autoImplicit false

/-! ## buckets -/

theorem zero_get_move (j : Nat) : (Bucket.zero.get j).move.toNat < 32768 := by
  unfold Bucket.get Bucket.zero Entry.zero
  split <;> decide

/-- all four entries of a bucket hold a move word with bit 15 clear. -/
def BucketOK (b : Bucket) : Prop := ∀ j, (b.get j).move.toNat < 32768

theorem bucketOK_zero : BucketOK Bucket.zero := zero_get_move

theorem get_set (b : Bucket) (r : Nat) (e : Entry) (j : Nat) :
    (b.set r e).get j = e ∨ (b.set r e).get j = b.get j := by
  unfold Bucket.set Bucket.get
  split <;> split <;> simp

theorem insertLoop_move (b : Bucket) (hashKey : Sig) (gen : BitVec 8) (d : Int) (typ : BitVec 8) :
    ∀ (k i : Nat) (keys : BitVec 64) (minQ : Int) (replace : Nat) (sm : BitVec 16) (r : Nat) (sm' : BitVec 16),
      insertLoop b hashKey gen d typ k i keys minQ replace sm = .go r sm' →
      sm' = sm ∨ ∃ i, sm' = (b.get i).move := by
  intro k
  induction k with
  | zero =>
    intro i keys minQ replace sm r sm' h
    simp only [insertLoop, LoopRes.go.injEq] at h
    exact Or.inl h.2.symm
  | succ k ih =>
    intro i keys minQ replace sm r sm' h
    simp only [insertLoop] at h
    split at h
    · split at h
      · cases h
      · simp only [LoopRes.go.injEq] at h
        split at h
        · exact Or.inr ⟨i, h.2.symm⟩
        · exact Or.inl h.2.symm
    · split at h
      · exact ih _ _ _ _ _ _ _ h
      · exact ih _ _ _ _ _ _ _ h

theorem bucket_insert_ok {b : Bucket} (h : BucketOK b) (hashKey : Sig) (gen : BitVec 8) (d ply : Int)
    (sm : BitVec 16) (hsm : sm.toNat < 32768) (value : Int) (typ : BitVec 8) :
    BucketOK (b.insert hashKey gen d ply sm value typ) := by
  unfold Bucket.insert
  split
  · exact h
  · rename_i r sm' heq
    have hsm' : sm'.toNat < 32768 := by
      rcases insertLoop_move b hashKey gen d typ _ _ _ _ _ _ _ _ heq with h1 | ⟨i, h1⟩
      · rw [h1]; exact hsm
      · rw [h1]; exact h i
    intro j
    show ((b.set r _).get j).move.toNat < 32768
    rcases get_set b r
      { move := sm', value := storedValue value ply, packed := pack d typ, gen := gen } j with h1 | h1
    · have : ∀ (x : Bucket) (k : BitVec 64), ({ x with pKeys := k } : Bucket).get j = x.get j := by
        intro x k; unfold Bucket.get; split <;> rfl
      rw [this, h1]; exact hsm'
    · have : ∀ (x : Bucket) (k : BitVec 64), ({ x with pKeys := k } : Bucket).get j = x.get j := by
        intro x k; unfold Bucket.get; split <;> rfl
      rw [this, h1]; exact h j

/-! ## tables -/

theorem ttMovesOK_iff (t : Table) : TTMovesOK t ↔ ∀ i, BucketOK (t.getD i Bucket.zero) := Iff.rfl

theorem ttMovesOK_new (size : Nat) : TTMovesOK (Table.new size) := by
  intro i j
  have : (Table.new size).getD i Bucket.zero = Bucket.zero := by
    unfold Table.new
    simp only [Array.getD]
    split <;> simp
  rw [this]; exact zero_get_move j

theorem ttMovesOK_clear (t : Table) : TTMovesOK t.clear := by
  intro i j
  have : t.clear.getD i Bucket.zero = Bucket.zero := by
    unfold Table.clear
    simp only [Array.getD]
    split <;> simp
  rw [this]; exact zero_get_move j

theorem lookUp_move_lt {t : Table} (h : TTMovesOK t) {hash : BitVec 64} {e : Entry}
    (he : t.lookUp hash = some e) : e.move.toNat < 32768 := by
  unfold Table.lookUp Bucket.lookUp at he
  split at he
  · simp only [Option.some.injEq] at he
    rw [← he]; exact h _ _
  · cases he

theorem insert_movesOK {t : Table} (h : TTMovesOK t) (hash : BitVec 64) (gen : BitVec 8) (d ply : Int)
    (sm : BitVec 16) (hsm : sm.toNat < 32768) (value : Int) (typ : BitVec 8) :
    TTMovesOK (t.insert hash gen d ply sm value typ) := by
  intro i
  have hb : BucketOK (t.getD i Bucket.zero) := h i
  show BucketOK _
  unfold Table.insert
  rw [Array.getD_eq_getD_getElem?, Array.getElem?_modify]
  rw [Array.getD_eq_getD_getElem?] at hb
  split
  · cases hx : t[i]? with
    | none => simpa [hx] using bucketOK_zero
    | some x =>
      rw [hx] at hb
      exact bucket_insert_ok hb _ _ _ _ _ hsm _ _
  · exact hb

/-! ## the search components -/

theorem ttProbe_move_lt {ps : PS} (h : PSok ps) {b : Board} {ply : Int} {e : Search.TTHit}
    (he : ttProbe ps b ply = some e) : e.move < 32768 := by
  unfold ttProbe at he
  split at he
  · cases he
  · rename_i e' heq
    simp only [Option.some.injEq] at he
    rw [← he]; exact lookUp_move_lt h.1 heq

theorem ttStore_ok {ps : PS} (h : PSok ps) (b : Board) (d ply : Int) {m : Move} (hm : m < 32768) (v : Search.Score)
    (bd : Search.Bound) : PSok (ttStore ps b d ply m v bd) := by
  refine ⟨?_, h.2⟩
  refine insert_movesOK h.1 _ _ _ _ _ ?_ _ _
  rw [BitVec.toNat_ofNat, Nat.mod_eq_of_lt (Nat.lt_trans hm (by decide))]
  exact hm

theorem failHigh_ok {ps : PS} (h : PSok ps) (d : Int) (b : Board) (p : Pick) (hs : List Search.StackMove) :
    PSok (failHigh ps d b p hs) :=
  ⟨h.1, Proofs.HeurBands.failHigh_ok h.2 _ _ _ _⟩

theorem nextGen_ok {ps : PS} (h : PSok ps) : PSok (nextGen ps) := h

theorem new_ok (buckets : Nat) : PSok (PS.new buckets) :=
  ⟨ttMovesOK_new _, Proofs.HeurBands.ranker_new_ok⟩

theorem clear_ok (ps : PS) : PSok ps.clear :=
  ⟨ttMovesOK_clear _, Proofs.HeurBands.ranker_new_ok⟩

/-! ## quiescence move list -/

theorem qSelect_mem : ∀ (n : Nat) (rest : List Picker.WMove) (m : Move) (w : Search.Score),
    (m, w) ∈ qSelect n rest → ∃ x ∈ rest, x.move = m ∧ x.weight = w := by
  intro n
  induction n with
  | zero => intro rest m w h; simp [qSelect] at h
  | succ n ih =>
    intro rest m w h
    simp only [qSelect] at h
    split at h
    · simp at h
    · rename_i best hb
      obtain ⟨x, hx, _⟩ := Proofs.PickerSelect.selectBest_some hb
      obtain ⟨h1, hperm⟩ := Proofs.PickerSelect.takeAt_perm hx
      simp only [List.mem_cons, Prod.mk.injEq] at h
      rcases h with ⟨hm, hw⟩ | h
      · refine ⟨(Picker.takeAt rest best).1, ?_, hm.symm, hw.symm⟩
        exact hperm.subset (List.mem_cons_self)
      · obtain ⟨y, hy, hy2⟩ := ih _ _ _ h
        exact ⟨y, hperm.subset (List.mem_cons_of_mem _ hy), hy2⟩

/-- the quiescence move list only contains generated noisy moves -/
theorem qMoves_mem {ps : PS} {b : Board} {hs : List Search.StackMove} {m : Move} {w : Search.Score}
    (h : (m, w) ∈ qMoves ps b hs) : m ∈ MoveGen.genNoisy b := by
  unfold qMoves at h
  obtain ⟨x, hx, hm, _⟩ := qSelect_mem _ _ _ _ h
  simp only [List.mem_map] at hx
  obtain ⟨a, ha, rfl⟩ := hx
  simpa using hm ▸ ha

end SearchReal
end ChessVerif
