/-
  C09, shared vocabulary: the attack relation `Att o c k a t` ("a man of colour `c` and kind `k` on
  `a` attacks `t` when the occupied squares are `o`") in a declarative, coordinate form that is
  independent of positions and boards.  It is the meeting point of the rule book's
  `Rules.manAttacks` (lines of sight of a position) and of the engine's attack lookups
  (`Attacks.rookMoves sq occ`, …) — see `Proofs/MateRules.lean`.
-/
import ChessVerif.Proofs.BridgePL
import ChessVerif.Proofs.BridgeUpd

namespace ChessVerif.Mate
open ChessVerif

/-- the squares strictly between two squares (empty if they are not aligned). -/
abbrev SB (a t : Nat) : BB := Geometry.strictlyBetween a t

def rookGeo (a t : Nat) : Prop := (fileOf a = fileOf t ∨ rankOf a = rankOf t) ∧ a ≠ t
def bishGeo (a t : Nat) : Prop := Geometry.fileDist a t = Geometry.rankDist a t ∧ a ≠ t
def kingGeo (a t : Nat) : Prop := max (Geometry.fileDist a t) (Geometry.rankDist a t) = 1
def knightGeo (a t : Nat) : Prop :=
  (Geometry.fileDist a t = 1 ∧ Geometry.rankDist a t = 2) ∨ (Geometry.fileDist a t = 2 ∧ Geometry.rankDist a t = 1)

/-- no occupied square strictly between `a` and `t`. -/
def lineFree (o : BB) (a t : Nat) : Prop := ∀ u, (SB a t).getLsbD u = true → o.getLsbD u = false

def isSlider (k : Piece) : Bool :=
  match k with
  | .bishop | .rook | .queen => true
  | _ => false

/-- a man of colour `c` and kind `k` on `a` attacks `t` under the occupancy `o`. -/
def Att (o : BB) (c : Color) (k : Piece) (a t : Nat) : Prop :=
  match k with
  | .rook => rookGeo a t ∧ lineFree o a t
  | .bishop => bishGeo a t ∧ lineFree o a t
  | .queen => (bishGeo a t ∨ rookGeo a t) ∧ lineFree o a t
  | .knight => knightGeo a t
  | .king => kingGeo a t
  | .pawn => PL.capGeom c a t
  | .none => False

end ChessVerif.Mate
