/-
  C09: the engine's probes in terms of `Chk` / `SChk`.
  * `occPos o`            — a position whose vacant squares are the complement of `o` (so that the
                            general-occupancy bridge `isAttacked_iff` applies to ANY occupancy).
  * `isAttacked_bit_iff`  — `IsAttacked(opp, o, 1<<t)` ⇔ `Chk b o 0 t`.
  * `SChk b o x T`        — "some enemy SLIDER outside `x` attacks `T` under `o`"; `sliderHits_iff`:
                            the two slider probes from the king square are `SChk`.
  * `Chk_iff_SChk`        — when no enemy non-slider attacks `T`, `Chk` is `SChk`.
  * `any_bits_iff`        — the Go loops over set bits.
-/
import ChessVerif.Proofs.MateLegal
import ChessVerif.Proofs.MateAtt
import ChessVerif.Model.Mate

namespace ChessVerif.Mate
open ChessVerif Board Rules Bridge

/-! ### loops over set bits -/

theorem any_bits_iff (X : BB) (f : Nat → Bool) :
    (bits X).any f = true ↔ ∃ s, s < 64 ∧ X.getLsbD s = true ∧ f s = true := by
  rw [List.any_eq_true]
  constructor
  · rintro ⟨s, hs, hf⟩
    obtain ⟨h1, h2⟩ := mem_bits.1 hs
    exact ⟨s, h1, h2, hf⟩
  · rintro ⟨s, h1, h2, hf⟩
    exact ⟨s, mem_bits.2 ⟨h1, h2⟩, hf⟩

theorem any_bits_false_iff (X : BB) (f : Nat → Bool) :
    (bits X).any f = false ↔ ∀ s, s < 64 → X.getLsbD s = true → f s = false := by
  rw [← Bool.not_eq_true, any_bits_iff]
  constructor
  · intro h s hs hx
    cases hf : f s
    · rfl
    · exact absurd ⟨s, hs, hx, hf⟩ h
  · rintro h ⟨s, hs, hx, hf⟩
    rw [h s hs hx] at hf
    exact Bool.noConfusion hf

/-! ### a position for every occupancy -/

/-- some position whose occupied squares are exactly `o`. -/
def occPos (o : BB) : Pos :=
  { men := Vector.ofFn fun (i : Fin 64) => if o.getLsbD i.val then some (Color.white, Piece.pawn) else none,
    turn := .white, rights := ⟨false, false, false, false⟩, ep := none, halfmove := 0, fullmove := 1 }

theorem emptyIs_occPos (o : BB) : EmptyIs (occPos o) o := by
  intro u hu
  have : (occPos o).at_ u = if o.getLsbD u then some (Color.white, Piece.pawn) else none := by
    unfold Pos.at_ occPos
    simp [Vector.getD, hu]
  unfold Pos.empty
  rw [this]
  cases o.getLsbD u <;> simp

variable {b : Board} {K : Nat}

/-- **`IsAttacked(opp, o, 1<<t)`** for an arbitrary occupancy. -/
theorem isAttacked_bit_iff (hw : WFP b) (o : BB) (t : Nat) (ht : t < 64) :
    b.isAttacked b.stm.flip o (bit t) = true ↔ Chk b o 0 t := by
  rw [isAttacked_iff hw (emptyIs_occPos o)]
  unfold Chk
  constructor
  · rintro ⟨u, hu, hb, a, ha, hc, hm⟩
    rw [bit_getLsbD t u ht, decide_eq_true_eq] at hb
    subst hb
    exact ⟨a, ha, hc, by simp, (manAtt_iff (emptyIs_occPos o) _ _ a t ha ht).1 hm⟩
  · rintro ⟨a, ha, hc, _, hatt⟩
    exact ⟨t, ht, by rw [bit_getLsbD t t ht]; simp, a, ha, hc,
      (manAtt_iff (emptyIs_occPos o) _ _ a t ha ht).2 hatt⟩

/-! ### slider probes -/

/-- some enemy slider standing outside `x` attacks `T` under the occupancy `o`. -/
def SChk (b : Board) (o x : BB) (T : Nat) : Prop :=
  ∃ a, a < 64 ∧ (b.colorBB b.stm.flip).getLsbD a = true ∧ x.getLsbD a = false ∧
    isSlider (b.pieceAt a) = true ∧ Att o b.stm.flip (b.pieceAt a) a T

theorem SChk.chk {o x : BB} {T : Nat} (h : SChk b o x T) : Chk b o x T := by
  obtain ⟨a, ha, hc, hx, _, hatt⟩ := h
  exact ⟨a, ha, hc, hx, hatt⟩

/-- the diagonal probe from `T` over a set `X` of candidate squares. -/
theorem bishopProbe_set (hw : WFP b) (o X : BB) (T : Nat) (hT : T < 64) (c : Color) :
    (Attacks.bishopMoves T o &&& (b.pieceBB .bishop ||| b.pieceBB .queen) &&& X != 0) = true ↔
      ∃ a, a < 64 ∧ X.getLsbD a = true ∧ (b.pieceAt a = .bishop ∨ b.pieceAt a = .queen) ∧
        Att o c .bishop a T := by
  rw [and3_bne]
  constructor
  · rintro ⟨a, ha, h1, h2, h3⟩
    rw [BitVec.getLsbD_or, Bool.or_eq_true, hw.piece_iff a ha .bishop (by decide),
      hw.piece_iff a ha .queen (by decide)] at h2
    refine ⟨a, ha, h3, h2, ?_⟩
    rw [Att_symm ha hT (by decide)]
    exact (bishop_lookup hT ha).1 h1
  · rintro ⟨a, ha, h3, h2, hatt⟩
    refine ⟨a, ha, ?_, ?_, h3⟩
    · rw [Att_symm ha hT (by decide)] at hatt
      exact (bishop_lookup hT ha).2 hatt
    · rw [BitVec.getLsbD_or, Bool.or_eq_true, hw.piece_iff a ha .bishop (by decide),
        hw.piece_iff a ha .queen (by decide)]
      exact h2

/-- the orthogonal probe from `T` over a set `X` of candidate squares. -/
theorem rookProbe_set (hw : WFP b) (o X : BB) (T : Nat) (hT : T < 64) (c : Color) :
    (Attacks.rookMoves T o &&& (b.pieceBB .rook ||| b.pieceBB .queen) &&& X != 0) = true ↔
      ∃ a, a < 64 ∧ X.getLsbD a = true ∧ (b.pieceAt a = .rook ∨ b.pieceAt a = .queen) ∧
        Att o c .rook a T := by
  rw [and3_bne]
  constructor
  · rintro ⟨a, ha, h1, h2, h3⟩
    rw [BitVec.getLsbD_or, Bool.or_eq_true, hw.piece_iff a ha .rook (by decide),
      hw.piece_iff a ha .queen (by decide)] at h2
    refine ⟨a, ha, h3, h2, ?_⟩
    rw [Att_symm ha hT (by decide)]
    exact (rook_lookup hT ha).1 h1
  · rintro ⟨a, ha, h3, h2, hatt⟩
    refine ⟨a, ha, ?_, ?_, h3⟩
    · rw [Att_symm ha hT (by decide)] at hatt
      exact (rook_lookup hT ha).2 hatt
    · rw [BitVec.getLsbD_or, Bool.or_eq_true, hw.piece_iff a ha .rook (by decide),
        hw.piece_iff a ha .queen (by decide)]
      exact h2

/-- a slider's attack is a diagonal attack of a bishop/queen or an orthogonal attack of a rook/queen. -/
theorem slider_att_iff (o : BB) (c : Color) (k : Piece) (a T : Nat) :
    (isSlider k = true ∧ Att o c k a T) ↔
      ((k = .bishop ∨ k = .queen) ∧ Att o c .bishop a T) ∨ ((k = .rook ∨ k = .queen) ∧ Att o c .rook a T) := by
  cases k <;> simp [isSlider, Att_queen, Att_none, Att_knight, Att_king, Att_pawn]

/-- **the two slider probes from the square `T`** over the candidate set `X`. -/
theorem sliderHits_set (hw : WFP b) (o X : BB) (T : Nat) (hT : T < 64) :
    b.sliderHits T o X = true ↔
      ∃ a, a < 64 ∧ X.getLsbD a = true ∧ isSlider (b.pieceAt a) = true ∧ Att o b.stm.flip (b.pieceAt a) a T := by
  unfold Board.sliderHits
  rw [Bool.or_eq_true, bishopProbe_set hw o X T hT b.stm.flip, rookProbe_set hw o X T hT b.stm.flip]
  constructor
  · rintro (⟨a, ha, hx, hk, hatt⟩ | ⟨a, ha, hx, hk, hatt⟩)
    · have := (slider_att_iff o b.stm.flip (b.pieceAt a) a T).2 (Or.inl ⟨hk, hatt⟩)
      exact ⟨a, ha, hx, this.1, this.2⟩
    · have := (slider_att_iff o b.stm.flip (b.pieceAt a) a T).2 (Or.inr ⟨hk, hatt⟩)
      exact ⟨a, ha, hx, this.1, this.2⟩
  · rintro ⟨a, ha, hx, hs, hatt⟩
    rcases (slider_att_iff o b.stm.flip (b.pieceAt a) a T).1 ⟨hs, hatt⟩ with ⟨hk, h⟩ | ⟨hk, h⟩
    · exact Or.inl ⟨a, ha, hx, hk, h⟩
    · exact Or.inr ⟨a, ha, hx, hk, h⟩

/-- the pin test of the engine with the candidate set "enemy men outside `x`". -/
theorem sliderHits_iff (hw : WFP b) (o x : BB) (T : Nat) (hT : T < 64) :
    b.sliderHits T o (b.colorBB b.stm.flip &&& ~~~ x) = true ↔ SChk b o x T := by
  rw [sliderHits_set hw o _ T hT]
  unfold SChk
  constructor
  · rintro ⟨a, ha, hx, hs, hatt⟩
    rw [BitVec.getLsbD_and, Bool.and_eq_true] at hx
    have hx2 := hx.2
    rw [BitVec.getLsbD_not] at hx2
    simp only [ha, decide_true, Bool.true_and, Bool.not_eq_true'] at hx2
    exact ⟨a, ha, hx.1, hx2, hs, hatt⟩
  · rintro ⟨a, ha, hc, hx, hs, hatt⟩
    refine ⟨a, ha, ?_, hs, hatt⟩
    rw [BitVec.getLsbD_and, hc, BitVec.getLsbD_not, hx]
    simp [ha]

theorem sliderHits_iff0 (hw : WFP b) (o : BB) (T : Nat) (hT : T < 64) :
    b.sliderHits T o (b.colorBB b.stm.flip) = true ↔ SChk b o 0 T := by
  rw [sliderHits_set hw o _ T hT]
  unfold SChk
  constructor
  · rintro ⟨a, ha, hx, hs, hatt⟩
    exact ⟨a, ha, hx, by simp, hs, hatt⟩
  · rintro ⟨a, ha, hc, _, hs, hatt⟩
    exact ⟨a, ha, hc, hs, hatt⟩

/-! ### `Chk` against `SChk` -/

/-- no enemy non-slider outside `x` attacks `T`. -/
def NoLeaper (b : Board) (x : BB) (T : Nat) : Prop :=
  ∀ a, a < 64 → (b.colorBB b.stm.flip).getLsbD a = true → x.getLsbD a = false →
    isSlider (b.pieceAt a) = false → ¬ Att 0 b.stm.flip (b.pieceAt a) a T

theorem Chk_iff_SChk {o x : BB} {T : Nat} (h : NoLeaper b x T) : Chk b o x T ↔ SChk b o x T := by
  constructor
  · rintro ⟨a, ha, hc, hx, hatt⟩
    cases hs : isSlider (b.pieceAt a)
    · exact absurd ((Att_nonslider hs).1 hatt) (h a ha hc hx hs)
    · exact ⟨a, ha, hc, hx, hs, hatt⟩
  · exact SChk.chk

theorem NoLeaper.mono {x x' : BB} {T : Nat} (h : NoLeaper b x T)
    (hx : ∀ a, x'.getLsbD a = false → x.getLsbD a = false) : NoLeaper b x' T :=
  fun a ha hc hxa hs => h a ha hc (hx a hxa) hs

/-- if the king is not attacked at all, no enemy leaper attacks it. -/
theorem noLeaper_of_not_Chk {o : BB} {T : Nat} (h : ¬ Chk b o 0 T) (x : BB) : NoLeaper b x T := by
  intro a ha hc _ hs hatt
  exact h ⟨a, ha, hc, by simp, (Att_nonslider hs).1 hatt⟩

theorem Chk.mono_x {o x x' : BB} {T : Nat} (h : Chk b o x T)
    (hx : ∀ a, x.getLsbD a = false → x'.getLsbD a = false) : Chk b o x' T := by
  obtain ⟨a, ha, hc, hxa, hatt⟩ := h
  exact ⟨a, ha, hc, hx a hxa, hatt⟩

end ChessVerif.Mate
