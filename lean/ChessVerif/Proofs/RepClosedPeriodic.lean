/-
  C10 closed, part 4: periodic games (for the non-vacuity example of a game with far more than 100
  reversible plies).

  If a move sequence `S` is legal from `s` and leads back to `s` up to the two counters, then
  `S` repeated `n` times is legal for every `n`, it visits only (clock-variants of) the positions of
  the first round, and — on the engine side — `NoCollision` of the first round gives `NoCollision`
  of the whole game.  So the hypotheses of the closed C10 theorem are met by games of ANY length
  without evaluating them.
-/
import ChessVerif.Proofs.RepClosedHash

namespace ChessVerif
namespace RepClosed
open Rules Board Rep

/-- `S` repeated `n` times. -/
def rep {α : Type} : Nat → List α → List α
  | 0, _ => []
  | n + 1, S => S ++ rep n S

theorem rep_map {α β : Type} (f : α → β) (S : List α) : ∀ n, (rep n S).map f = rep n (S.map f)
  | 0 => rfl
  | n + 1 => by simp only [rep, List.map_append, rep_map f S n]

theorem rep_length {α : Type} (S : List α) : ∀ n, (rep n S).length = n * S.length
  | 0 => by simp [rep]
  | n + 1 => by simp only [rep, List.length_append, rep_length S n]; rw [Nat.add_mul]; omega

/-! ### forgetting both counters

  A round that returns to its start returns with a larger halfmove clock AND a larger fullmove number;
  `nm` forgets both (the fullmove number, unlike the clock, is tracked exactly by the engine — C02 —
  so the main development only forgets the clock). -/

/-- forget the halfmove clock and the fullmove number. -/
def nm (p : Pos) : Pos := { p with halfmove := 0, fullmove := 0 }

theorem nm_nc (p : Pos) : nm (nc p) = nm p := rfl
theorem nm_of_nc {p q : Pos} (h : nc p = nc q) : nm p = nm q := by rw [← nm_nc p, h, nm_nc]
theorem legal_nm (p : Pos) (mv : Mv) : legal (nm p) mv = legal p mv := rfl
theorem same_nm_left (p q : Pos) : sameForRepetition (nm p) q = sameForRepetition p q := rfl
theorem same_nm_right (p q : Pos) : sameForRepetition p (nm q) = sameForRepetition p q := rfl

theorem same_congr_nm {p p' q q' : Pos} (hp : nm p = nm p') (hq : nm q = nm q') :
    sameForRepetition p q = sameForRepetition p' q' := by
  rw [← same_nm_left p q, ← same_nm_right (nm p) q, hp, hq]; rfl

theorem legal_congr_nm {p p' : Pos} (h : nm p = nm p') (mv : Mv) : legal p mv = legal p' mv := by
  rw [← legal_nm p, ← legal_nm p', h]

theorem apply_nm (p : Pos) (mv : Mv) : nm (Rules.apply (nm p) mv) = nm (Rules.apply p mv) := by
  cases h : (legalEpCaptures (applyCore p mv)).isEmpty with
  | true =>
    have h' : (legalEpCaptures (applyCore (nm p) mv)).isEmpty = true := h
    rw [apply_pos h, apply_pos h']; rfl
  | false =>
    have h' : (legalEpCaptures (applyCore (nm p) mv)).isEmpty = false := h
    rw [apply_neg h, apply_neg h']; rfl

theorem apply_congr_nm {p p' : Pos} (h : nm p = nm p') (mv : Mv) :
    nm (Rules.apply p mv) = nm (Rules.apply p' mv) := by
  rw [← apply_nm p, ← apply_nm p', h]

/-! ### history-free forms of `legalFrom` / membership in `positions` -/

def endPos (p : Pos) (ms : List Mv) : Pos := ms.foldl Rules.apply p

def LegalSeq : Pos → List Mv → Prop
  | _, [] => True
  | p, m :: ms => legal p m = true ∧ LegalSeq (Rules.apply p m) ms

/-- `x` is one of the positions of the game `p, ms`. -/
def Visits : Pos → List Mv → Pos → Prop
  | p, [], x => x = p
  | p, m :: ms, x => x = p ∨ Visits (Rules.apply p m) ms x

theorem legalFrom_iff : ∀ (ms : List Mv) (p : Pos) (h : List Pos), legalFrom (p :: h) ms ↔ LegalSeq p ms
  | [], _, _ => Iff.rfl
  | m :: ms, p, h => by
    simp only [legalFrom, LegalSeq]
    rw [legalFrom_iff ms]

theorem mem_foldl_stepHist : ∀ (ms : List Mv) (p : Pos) (h : List Pos) (x : Pos),
    x ∈ ms.foldl stepHist (p :: h) ↔ (Visits p ms x ∨ x ∈ h)
  | [], p, h, x => by simp [Visits]
  | m :: ms, p, h, x => by
    simp only [List.foldl_cons, stepHist, Visits]
    rw [mem_foldl_stepHist ms]
    simp only [List.mem_cons]
    constructor
    · rintro (h1 | h1 | h1)
      · exact Or.inl (Or.inr h1)
      · exact Or.inl (Or.inl h1)
      · exact Or.inr h1
    · rintro ((h1 | h1) | h1)
      · exact Or.inr (Or.inl h1)
      · exact Or.inl h1
      · exact Or.inr (Or.inr h1)

theorem mem_positions (s : Pos) (ms : List Mv) (x : Pos) : x ∈ positions s ms ↔ Visits s ms x := by
  unfold positions
  rw [mem_foldl_stepHist]; simp

theorem visits_start (p : Pos) : ∀ ms, Visits p ms p
  | [] => rfl
  | _ :: _ => Or.inl rfl

theorem endPos_append (p : Pos) (A B : List Mv) : endPos p (A ++ B) = endPos (endPos p A) B := by
  unfold endPos; rw [List.foldl_append]

theorem legalSeq_append : ∀ (A B : List Mv) (p : Pos),
    LegalSeq p (A ++ B) ↔ LegalSeq p A ∧ LegalSeq (endPos p A) B
  | [], B, p => by simp [LegalSeq, endPos]
  | m :: A, B, p => by
    simp only [List.cons_append, LegalSeq]
    rw [legalSeq_append A B]
    simp only [endPos, List.foldl_cons, and_assoc]

theorem visits_append : ∀ (A B : List Mv) (p x : Pos),
    Visits p (A ++ B) x ↔ Visits p A x ∨ Visits (endPos p A) B x
  | [], B, p, x => by
    simp only [List.nil_append, Visits, endPos, List.foldl_nil]
    constructor
    · exact Or.inr
    · rintro (h | h)
      · rw [h]; exact visits_start p B
      · exact h
  | m :: A, B, p, x => by
    simp only [List.cons_append, Visits]
    rw [visits_append A B]
    simp only [endPos, List.foldl_cons, or_assoc]

/-! ### nothing depends on the clock -/

theorem legalSeq_congr : ∀ (ms : List Mv) {p p' : Pos}, nm p = nm p' → LegalSeq p ms → LegalSeq p' ms
  | [], _, _, _, _ => trivial
  | m :: ms, p, p', e, h => ⟨by rw [← legal_congr_nm e]; exact h.1, legalSeq_congr ms (apply_congr_nm e m) h.2⟩

theorem endPos_congr : ∀ (ms : List Mv) {p p' : Pos}, nm p = nm p' → nm (endPos p ms) = nm (endPos p' ms)
  | [], _, _, e => e
  | m :: ms, p, p', e => by
    simp only [endPos, List.foldl_cons]
    exact endPos_congr ms (apply_congr_nm e m)

theorem visits_congr : ∀ (ms : List Mv) {p p' : Pos} {x : Pos}, nm p = nm p' → Visits p ms x →
    ∃ x', Visits p' ms x' ∧ nm x = nm x'
  | [], p, p', x, e, h => ⟨p', rfl, by rw [h]; exact e⟩
  | m :: ms, p, p', x, e, h => by
    rcases h with h | h
    · exact ⟨p', Or.inl rfl, by rw [h]; exact e⟩
    · obtain ⟨x', h1, h2⟩ := visits_congr ms (apply_congr_nm e m) h
      exact ⟨x', Or.inr h1, h2⟩

/-! ### a round that returns to its start (modulo the clock), repeated -/

theorem periodic {s : Pos} {S : List Mv} (hl : LegalSeq s S) (hback : nm (endPos s S) = nm s) :
    ∀ n, LegalSeq s (rep n S) ∧ nm (endPos s (rep n S)) = nm s ∧
      ∀ x, Visits s (rep n S) x → ∃ q, Visits s S q ∧ nm x = nm q
  | 0 => ⟨trivial, rfl, fun x h => ⟨s, visits_start s S, by rw [show x = s from h]⟩⟩
  | n + 1 => by
    obtain ⟨ih1, ih2, ih3⟩ := periodic hl hback n
    refine ⟨?_, ?_, ?_⟩
    · simp only [rep]
      rw [legalSeq_append]
      exact ⟨hl, legalSeq_congr _ hback.symm ih1⟩
    · simp only [rep]
      rw [endPos_append]
      exact (endPos_congr _ hback).trans ih2
    · intro x hx
      simp only [rep] at hx
      rw [visits_append] at hx
      rcases hx with hx | hx
      · exact ⟨x, hx, rfl⟩
      · obtain ⟨x', h1, h2⟩ := visits_congr _ hback hx
        obtain ⟨q, h3, h4⟩ := ih3 x' h1
        exact ⟨q, h3, h2.trans h4⟩

/-- the repeated round is a legal game, and all its positions are clock-variants of positions of the
    first round. -/
theorem legalGame_rep {s : Pos} {S : List Mv} (hl : legalGame s S) (hback : nm (endPos s S) = nm s) (n : Nat) :
    legalGame s (rep n S) ∧ ∀ p ∈ positions s (rep n S), ∃ q ∈ positions s S, nm p = nm q := by
  have hl' : LegalSeq s S := (legalFrom_iff S s []).1 hl
  obtain ⟨h1, _, h3⟩ := periodic hl' hback n
  refine ⟨(legalFrom_iff _ s []).2 h1, ?_⟩
  intro p hp
  obtain ⟨q, hq, e⟩ := h3 p ((mem_positions _ _ _).1 hp)
  exact ⟨q, (mem_positions _ _ _).2 hq, e⟩

theorem positions_head (s : Pos) (ms : List Mv) : ∃ t, positions s ms = endPos s ms :: t := by
  have : ∀ (ms : List Mv) (p : Pos) (h : List Pos), ∃ t, ms.foldl stepHist (p :: h) = ms.foldl Rules.apply p :: t := by
    intro ms
    induction ms with
    | nil => intro p h; exact ⟨h, rfl⟩
    | cons m ms ih => intro p h; simp only [List.foldl_cons, stepHist]; exact ih _ _
  exact this ms s []

/-! ### engine side: collisions of the long game are collisions of the first round -/

theorem Tied.mem_left : ∀ {ps : List Pos} {bs : List Board}, Tied ps bs → ∀ p ∈ ps, ∃ b ∈ bs, nc p = nc b.abs
  | _, _, .nil, p, hp => by simp at hp
  | _, _, .cons (b := b) h _ t, p, hp => by
    rcases List.mem_cons.1 hp with rfl | hp
    · exact ⟨b, by simp, h⟩
    · obtain ⟨b', hb', e⟩ := t.mem_left p hp
      exact ⟨b', by simp [hb'], e⟩

theorem same_of_nm {p q : Pos} (h : nm p = nm q) : sameForRepetition p q = true := by
  rw [same_congr_nm h (rfl : nm q = nm q)]; exact same_refl q

/-- if every position of a game is a clock-variant of a position of a reference game, `NoCollision`
    of the reference game carries over. -/
theorem noCollision_of_cover (K : Keys) {ps ps₀ : List Pos} {bs bs₀ : List Board}
    (ht : Tied ps bs) (ht₀ : Tied ps₀ bs₀)
    (hn : ∀ p ∈ ps, epNormal p = true) (hn₀ : ∀ p ∈ ps₀, epNormal p = true)
    (hcover : ∀ p ∈ ps, ∃ q ∈ ps₀, nm p = nm q) (hc₀ : NoCollision K bs₀) : NoCollision K bs := by
  have normal : ∀ {ps : List Pos} {bs : List Board}, Tied ps bs → (∀ p ∈ ps, epNormal p = true) →
      ∀ b ∈ bs, epNormal b.abs = true := by
    intro ps bs ht hn b hb
    obtain ⟨p, hp, e⟩ := ht.mem_right b hb
    rw [← epNormal_nc, ← e, epNormal_nc]; exact hn p hp
  -- every board of the game has a reference board with the same position and the same hash
  have ref : ∀ x ∈ bs, ∃ B ∈ bs₀, nm x.abs = nm B.abs ∧ calcHash K x = calcHash K B := by
    intro x hx
    obtain ⟨p, hp, e1⟩ := ht.mem_right x hx
    obtain ⟨q, hq, e2⟩ := hcover p hp
    obtain ⟨B, hB, e3⟩ := ht₀.mem_left q hq
    have e : nm x.abs = nm B.abs := (nm_of_nc e1).symm.trans (e2.trans (nm_of_nc e3))
    exact ⟨B, hB, e, calcHash_eq_of_same K (ht.validNC x hx) (ht₀.validNC B hB) (normal ht hn x hx)
      (normal ht₀ hn₀ B hB) (same_of_nm e)⟩
  intro x hx y hy hxy
  obtain ⟨Bx, hBx, ex, hx'⟩ := ref x hx
  obtain ⟨By, hBy, ey, hy'⟩ := ref y hy
  rw [same_congr_nm ex ey]
  exact hc₀ Bx hBx By hBy (by rw [← hx', ← hy', hxy])

/-- **a round that returns to its start, repeated `n` times, meets every hypothesis of the closed
    theorem** given that the first round does. -/
theorem periodic_game (K : Keys) (b₀ : Board) (S : List Mv)
    (hv : ValidNC b₀) (hstart : epNormal b₀.abs = true) (hh : b₀.hashes = [calcHash K b₀])
    (hleg : legalGame b₀.abs S)
    (hback : nm (run K b₀ (S.map encodeMove)).abs = nm b₀.abs)
    (hc : NoCollision K (boards K b₀ (S.map encodeMove))) (n : Nat) :
    legalGame b₀.abs (rep n S) ∧ NoCollision K (boards K b₀ ((rep n S).map encodeMove)) := by
  -- the rule-book round returns to the start because the engine's does (C02 modulo the clock)
  obtain ⟨ht₀, _, _, _, _⟩ := tied_and_hashTied K b₀ S hv hh hleg
  have hback' : nm (endPos b₀.abs S) = nm b₀.abs := by
    obtain ⟨t, hP⟩ := positions_head b₀.abs S
    obtain ⟨t', hB⟩ := boards_foldl_head K (S.map encodeMove) b₀ []
    have hB' : boards K b₀ (S.map encodeMove) = run K b₀ (S.map encodeMove) :: t' := hB
    rw [hP, hB'] at ht₀
    cases ht₀ with
    | cons h _ _ => exact (nm_of_nc h).trans hback
  obtain ⟨hlegn, hcover⟩ := legalGame_rep hleg hback' n
  obtain ⟨htn, _, _, _, _⟩ := tied_and_hashTied K b₀ (rep n S) hv hh hlegn
  obtain ⟨ht₀, _, _, _, _⟩ := tied_and_hashTied K b₀ S hv hh hleg
  exact ⟨hlegn, noCollision_of_cover K htn ht₀ (positions_epNormal hstart _) (positions_epNormal hstart _) hcover hc⟩

end RepClosed
end ChessVerif
