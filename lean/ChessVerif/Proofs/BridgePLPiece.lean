/-
  Fourth layer of the bridge: the clauses of knights, bishops, rooks, queens and of the king
  (ordinary step and castling).
-/
import ChessVerif.Proofs.BridgePLBase

namespace ChessVerif.Bridge
open ChessVerif Board Rules

/-! ### leapers and sliders -/

section
variable (b : Board) (f t pr : Nat) (hf : f < 64) (ht : t < 64) (hpr : pr < 8)
include hf ht hpr

theorem knight_clause : PLk b .knight f t pr ↔ RLk (abs b) .knight ⟨f, t, decPromo pr⟩ = true := by
  show pr = 0 ∧ _ ↔ ((decPromo pr).isNone && manAttacks (abs b) (b.stm, .knight) f t) = true
  rw [Bool.and_eq_true, decPromo_isNone pr hpr, knight_attacks_iff (abs b) b.stm f t hf ht]

theorem bishop_clause : PLk b .bishop f t pr ↔ RLk (abs b) .bishop ⟨f, t, decPromo pr⟩ = true := by
  show pr = 0 ∧ _ ↔ ((decPromo pr).isNone && manAttacks (abs b) (b.stm, .bishop) f t) = true
  rw [Bool.and_eq_true, decPromo_isNone pr hpr, bishop_attacks_iff (emptyIs_abs b) b.stm f t hf ht]

theorem rook_clause : PLk b .rook f t pr ↔ RLk (abs b) .rook ⟨f, t, decPromo pr⟩ = true := by
  show pr = 0 ∧ _ ↔ ((decPromo pr).isNone && manAttacks (abs b) (b.stm, .rook) f t) = true
  rw [Bool.and_eq_true, decPromo_isNone pr hpr, rook_attacks_iff (emptyIs_abs b) b.stm f t hf ht]

theorem queen_clause : PLk b .queen f t pr ↔ RLk (abs b) .queen ⟨f, t, decPromo pr⟩ = true := by
  show pr = 0 ∧ _ ↔ ((decPromo pr).isNone && manAttacks (abs b) (b.stm, .queen) f t) = true
  rw [Bool.and_eq_true, decPromo_isNone pr hpr, queen_attacks_iff (emptyIs_abs b) b.stm f t hf ht]

end

/-! ### castling -/

/-- "a castling right implies the rook of that side is at home" (part of `Rules.valid`). -/
structure CastleRooks (b : Board) : Prop where
  wk : b.castles.getLsbD 0 = true → (abs b).has 7 .white .rook = true
  wq : b.castles.getLsbD 1 = true → (abs b).has 0 .white .rook = true
  bk : b.castles.getLsbD 2 = true → (abs b).has 63 .black .rook = true
  bq : b.castles.getLsbD 3 = true → (abs b).has 56 .black .rook = true

theorem castleRooks_of_valid {b : Board} (hv : Board.valid b = true) : CastleRooks b := by
  have hr := rulesValid_of_valid hv
  simp only [Rules.valid, Bool.and_eq_true] at hr
  obtain ⟨⟨⟨⟨⟨⟨⟨⟨_, hE1⟩, hE2⟩, hE3⟩, hE4⟩, _⟩, _⟩, _⟩, _⟩ := hr
  refine ⟨?_, ?_, ?_, ?_⟩
  · intro h
    have hr : (abs b).rights.wk = true := h
    rw [hr] at hE1
    simp only [Bool.not_true, Bool.false_or, Bool.and_eq_true] at hE1
    exact hE1.2
  · intro h
    have hr : (abs b).rights.wq = true := h
    rw [hr] at hE2
    simp only [Bool.not_true, Bool.false_or, Bool.and_eq_true] at hE2
    exact hE2.2
  · intro h
    have hr : (abs b).rights.bk = true := h
    rw [hr] at hE3
    simp only [Bool.not_true, Bool.false_or, Bool.and_eq_true] at hE3
    exact hE3.2
  · intro h
    have hr : (abs b).rights.bq = true := h
    rw [hr] at hE4
    simp only [Bool.not_true, Bool.false_or, Bool.and_eq_true] at hE4
    exact hE4.2

theorem castle_bit_iff_aux : ∀ (n : Fin 16) (k : Fin 4),
    ((BitVec.ofFin n : BitVec 4) &&& (1#4 <<< k.val) ≠ 0) ↔ (BitVec.ofFin n : BitVec 4).getLsbD k.val = true := by
  decide

/-- Go `castles & Castle(c, side) != 0` is "bit `2c+side` is set". -/
theorem castle_bit_iff (c : Castles) (col : Color) (side : Nat) (hs : side < 2) :
    c &&& Board.castleBit col side ≠ 0 ↔ c.getLsbD (2 * col.toNat + side) = true := by
  have hk : 2 * col.toNat + side < 4 := by cases col <;> simp [Color.toNat] <;> omega
  exact castle_bit_iff_aux c.toFin ⟨_, hk⟩

/-- a three-square mask is unattacked iff each of its squares is. -/
theorem isAttacked_occ_mask3_false {b : Board} (hw : WFP b) (by_ : Color) (x y z : Nat)
    (hx : x < 64) (hy : y < 64) (hz : z < 64) :
    b.isAttacked by_ b.occ (bit x ||| bit y ||| bit z) = false ↔
      attackedBy (abs b) by_ x = false ∧ attackedBy (abs b) by_ y = false ∧ attackedBy (abs b) by_ z = false := by
  rw [← Bool.not_eq_true, isAttacked_occ_iff hw]
  constructor
  · intro h
    refine ⟨?_, ?_, ?_⟩
    · cases e : attackedBy (abs b) by_ x
      · rfl
      · exact absurd ⟨x, hx, by simp [bit_getLsbD x x hx], e⟩ h
    · cases e : attackedBy (abs b) by_ y
      · rfl
      · exact absurd ⟨y, hy, by simp [bit_getLsbD y y hy], e⟩ h
    · cases e : attackedBy (abs b) by_ z
      · rfl
      · exact absurd ⟨z, hz, by simp [bit_getLsbD z z hz], e⟩ h
  · rintro ⟨h1, h2, h3⟩ ⟨u, _, hu, hatt⟩
    simp only [BitVec.getLsbD_or, bit_getLsbD x u hx, bit_getLsbD y u hy, bit_getLsbD z u hz,
      Bool.or_eq_true, decide_eq_true_eq] at hu
    rcases hu with (rfl | rfl) | rfl
    · rw [h1] at hatt; exact Bool.noConfusion hatt
    · rw [h2] at hatt; exact Bool.noConfusion hatt
    · rw [h3] at hatt; exact Bool.noConfusion hatt

theorem castlingOK_white (p : Pos) (mv : Mv) (hturn : p.turn = .white) :
    castlingOK p mv = (decide (mv.src = 4) &&
      ((mv.dst == 6 && p.rights.wk && p.has 7 .white .rook && (p.empty 5 && p.empty 6) &&
          (!attackedBy p .black 4 && (!attackedBy p .black 5 && !attackedBy p .black 6))) ||
       (mv.dst == 2 && p.rights.wq && p.has 0 .white .rook && (p.empty 1 && (p.empty 2 && p.empty 3)) &&
          (!attackedBy p .black 4 && (!attackedBy p .black 3 && !attackedBy p .black 2))))) := by
  unfold castlingOK
  simp only [hturn, homeRank, Color.flip]
  have e4 : (8 * (0 : Int) + 4).toNat = 4 := by decide
  have e0 : (8 * (0 : Int)).toNat = 0 := by decide
  rw [e4, e0]
  by_cases h : mv.src = 4
  · simp [h]
  · simp [h]

theorem castlingOK_black (p : Pos) (mv : Mv) (hturn : p.turn = .black) :
    castlingOK p mv = (decide (mv.src = 60) &&
      ((mv.dst == 62 && p.rights.bk && p.has 63 .black .rook && (p.empty 61 && p.empty 62) &&
          (!attackedBy p .white 60 && (!attackedBy p .white 61 && !attackedBy p .white 62))) ||
       (mv.dst == 58 && p.rights.bq && p.has 56 .black .rook && (p.empty 57 && (p.empty 58 && p.empty 59)) &&
          (!attackedBy p .white 60 && (!attackedBy p .white 59 && !attackedBy p .white 58))))) := by
  unfold castlingOK
  simp only [hturn, homeRank, Color.flip]
  have e4 : (8 * (7 : Int) + 4).toNat = 60 := by decide
  have e0 : (8 * (7 : Int)).toNat = 56 := by decide
  rw [e4, e0]
  by_cases h : mv.src = 60
  · simp [h]
  · simp [h]

/-- the rule book's castling clause in propositional form, White. -/
theorem castlingOK_white_iff (p : Pos) (mv : Mv) (hturn : p.turn = .white) :
    castlingOK p mv = true ↔ mv.src = 4 ∧
      ((mv.dst = 6 ∧ p.rights.wk = true ∧ p.has 7 .white .rook = true ∧ (p.empty 5 = true ∧ p.empty 6 = true) ∧
          attackedBy p .black 4 = false ∧ attackedBy p .black 5 = false ∧ attackedBy p .black 6 = false) ∨
       (mv.dst = 2 ∧ p.rights.wq = true ∧ p.has 0 .white .rook = true ∧
          (p.empty 1 = true ∧ p.empty 2 = true ∧ p.empty 3 = true) ∧
          attackedBy p .black 4 = false ∧ attackedBy p .black 3 = false ∧ attackedBy p .black 2 = false)) := by
  rw [castlingOK_white p mv hturn]
  simp only [Bool.and_eq_true, Bool.or_eq_true, decide_eq_true_eq, beq_iff_eq, Bool.not_eq_true', and_assoc]

/-- the rule book's castling clause in propositional form, Black. -/
theorem castlingOK_black_iff (p : Pos) (mv : Mv) (hturn : p.turn = .black) :
    castlingOK p mv = true ↔ mv.src = 60 ∧
      ((mv.dst = 62 ∧ p.rights.bk = true ∧ p.has 63 .black .rook = true ∧ (p.empty 61 = true ∧ p.empty 62 = true) ∧
          attackedBy p .white 60 = false ∧ attackedBy p .white 61 = false ∧ attackedBy p .white 62 = false) ∨
       (mv.dst = 58 ∧ p.rights.bq = true ∧ p.has 56 .black .rook = true ∧
          (p.empty 57 = true ∧ p.empty 58 = true ∧ p.empty 59 = true) ∧
          attackedBy p .white 60 = false ∧ attackedBy p .white 59 = false ∧ attackedBy p .white 58 = false)) := by
  rw [castlingOK_black p mv hturn]
  simp only [Bool.and_eq_true, Bool.or_eq_true, decide_eq_true_eq, beq_iff_eq, Bool.not_eq_true', and_assoc]

/-- **castling**: with the king on the origin square, the engine's two castling clauses (`PLshort`,
    `PLlong` of C05, which consult `isAttacked` on the three-square masks) are art. 3.8.2. -/
theorem castle_iff {b : Board} (hw : WFP b) (hcr : CastleRooks b) (f t : Nat) (q : Option Piece)
    (hkf : b.pieceAt f = .king) :
    castlingOK (abs b) ⟨f, t, q⟩ = true ↔ PL.PLshort b f t 0 ∨ PL.PLlong b f t 0 := by
  cases hc : b.stm
  · -- White
    rw [castlingOK_white_iff _ _ (by rw [abs_turn, hc])]
    unfold PL.PLshort PL.PLlong
    rw [hc]
    simp only [PL.home, PL.shortMask, PL.longMask, Color.flip, abs_rights_wk, abs_rights_wq,
      abs_empty_iff', castle_bit_iff _ _ _ (by decide : (0 : Nat) < 2), castle_bit_iff _ _ _ (by decide : (1 : Nat) < 2),
      isAttacked_occ_mask3_false hw .black 4 5 6 (by decide) (by decide) (by decide),
      isAttacked_occ_mask3_false hw .black 4 3 2 (by decide) (by decide) (by decide), Color.toNat]
    constructor
    · rintro ⟨rfl, (⟨rfl, h1, _, ⟨h3, h4⟩, h5⟩ | ⟨rfl, h1, _, ⟨h3, h4, h6⟩, h5⟩)⟩
      · exact Or.inl ⟨trivial, rfl, rfl, (hw.piece_iff 4 (by decide) .king (by decide)).2 hkf, h1, h3, h4, h5⟩
      · exact Or.inr ⟨trivial, rfl, rfl, (hw.piece_iff 4 (by decide) .king (by decide)).2 hkf, h1, h6, h4, h3, h5⟩
    · rintro (⟨_, rfl, rfl, _, h1, h3, h4, h5⟩ | ⟨_, rfl, rfl, _, h1, h6, h4, h3, h5⟩)
      · exact ⟨rfl, Or.inl ⟨rfl, h1, hcr.wk h1, ⟨h3, h4⟩, h5⟩⟩
      · exact ⟨rfl, Or.inr ⟨rfl, h1, hcr.wq h1, ⟨h3, h4, h6⟩, h5⟩⟩
  · -- Black
    rw [castlingOK_black_iff _ _ (by rw [abs_turn, hc])]
    unfold PL.PLshort PL.PLlong
    rw [hc]
    simp only [PL.home, PL.shortMask, PL.longMask, Color.flip, abs_rights_bk, abs_rights_bq,
      abs_empty_iff', castle_bit_iff _ _ _ (by decide : (0 : Nat) < 2), castle_bit_iff _ _ _ (by decide : (1 : Nat) < 2),
      isAttacked_occ_mask3_false hw .white 60 61 62 (by decide) (by decide) (by decide),
      isAttacked_occ_mask3_false hw .white 60 59 58 (by decide) (by decide) (by decide), Color.toNat]
    constructor
    · rintro ⟨rfl, (⟨rfl, h1, _, ⟨h3, h4⟩, h5⟩ | ⟨rfl, h1, _, ⟨h3, h4, h6⟩, h5⟩)⟩
      · exact Or.inl ⟨trivial, rfl, rfl, (hw.piece_iff 60 (by decide) .king (by decide)).2 hkf, h1, h3, h4, h5⟩
      · exact Or.inr ⟨trivial, rfl, rfl, (hw.piece_iff 60 (by decide) .king (by decide)).2 hkf, h1, h6, h4, h3, h5⟩
    · rintro (⟨_, rfl, rfl, _, h1, h3, h4, h5⟩ | ⟨_, rfl, rfl, _, h1, h6, h4, h3, h5⟩)
      · exact ⟨rfl, Or.inl ⟨rfl, h1, hcr.bk h1, ⟨h3, h4⟩, h5⟩⟩
      · exact ⟨rfl, Or.inr ⟨rfl, h1, hcr.bq h1, ⟨h3, h4, h6⟩, h5⟩⟩

theorem PLshort_promo (b : Board) (f t pr : Nat) : PL.PLshort b f t pr ↔ pr = 0 ∧ PL.PLshort b f t 0 := by
  unfold PL.PLshort
  exact ⟨fun h => ⟨h.1, rfl, h.2⟩, fun h => ⟨h.1, h.2.2⟩⟩

theorem PLlong_promo (b : Board) (f t pr : Nat) : PL.PLlong b f t pr ↔ pr = 0 ∧ PL.PLlong b f t 0 := by
  unfold PL.PLlong
  exact ⟨fun h => ⟨h.1, rfl, h.2⟩, fun h => ⟨h.1, h.2.2⟩⟩

/-- the king's clause: one step in any direction, or castling. -/
theorem king_clause {b : Board} (hw : WFP b) (hcr : CastleRooks b) (f t pr : Nat) (hf : f < 64) (ht : t < 64)
    (hpr : pr < 8) (hkf : b.pieceAt f = .king) :
    PLk b .king f t pr ↔ RLk (abs b) .king ⟨f, t, decPromo pr⟩ = true := by
  show (pr = 0 ∧ _) ∨ _ ∨ _ ↔
    ((decPromo pr).isNone && (manAttacks (abs b) (b.stm, .king) f t || castlingOK (abs b) ⟨f, t, decPromo pr⟩)) = true
  rw [Bool.and_eq_true, Bool.or_eq_true, decPromo_isNone pr hpr, castle_iff hw hcr f t _ hkf,
    ← king_attacks_iff (abs b) b.stm f t hf ht, PLshort_promo, PLlong_promo]
  constructor
  · rintro (⟨h0, h⟩ | ⟨h0, h⟩ | ⟨h0, h⟩)
    · exact ⟨h0, Or.inl h⟩
    · exact ⟨h0, Or.inr (Or.inl h)⟩
    · exact ⟨h0, Or.inr (Or.inr h)⟩
  · rintro ⟨h0, (h | h | h)⟩
    · exact Or.inl ⟨h0, h⟩
    · exact Or.inr (Or.inl ⟨h0, h⟩)
    · exact Or.inr (Or.inr ⟨h0, h⟩)

end ChessVerif.Bridge
