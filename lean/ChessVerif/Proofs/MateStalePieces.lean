/-
  C09, stalemate, the piece loops (queens, bishops, rooks, knights) of `IsStalemate`:
  common tools.  Throughout the king of the side to move stands on `K` and is NOT in check
  (`hnc : ¬ Chk b b.occ 0 K`).
  * `safe_iff`          — (T1) a pseudo-legal move `s → t` of a man that is neither king nor pawn is
                          safe iff no enemy slider other than one on `t` attacks `K` with `s` vacated
                          and `t` occupied.
  * `Pin b K s X`       — the enemy slider on `X` attacks `K` once `s` is lifted off the board.
  * `reveal`, `Pin.between` — (T2) then `s` is an occupied square strictly between `X` and `K`.
  * `Pin.unique`        — (T3) there is at most one such slider.
  * `Pin.line`, `Pin.capture_safe` — (T4) the segment from `s` to the pinner is free, has the
                          geometry of the pin line, and capturing the pinner is safe.
  * `safe_of_noPin`     — without a pinner every pseudo-legal move of the man on `s` is safe.
  * `Pin.unsafe`        — a move of the pinned man that leaves the pin line is unsafe.
-/
import ChessVerif.Proofs.MateStaleDefs

namespace ChessVerif.Mate.StalePieces
open ChessVerif Board Rules Bridge ChessVerif.Mate

variable {b : Board} {K : Nat}

/-! ### occupancies -/

theorem lift_get {s : Nat} (hs : s < 64) (o : BB) {u : Nat} (hne : u ≠ s) :
    (o &&& ~~~ bit s).getLsbD u = o.getLsbD u := by
  rw [getLsbD_andNot_bit _ _ _ hs]
  have : ¬ s = u := fun e => hne e.symm
  simp [this]

theorem lift_self {s : Nat} (hs : s < 64) (o : BB) : (o &&& ~~~ bit s).getLsbD s = false := by
  rw [getLsbD_andNot_bit _ _ _ hs]; simp

theorem moved_get {s t : Nat} (ht : t < 64) (o : BB) {u : Nat} (hne : u ≠ t) :
    ((o &&& ~~~ bit s) ||| bit t).getLsbD u = (o &&& ~~~ bit s).getLsbD u := by
  rw [getLsbD_or_bit _ _ _ ht]
  have : ¬ t = u := fun e => hne e.symm
  simp [this]

theorem moved_self {s t : Nat} (ht : t < 64) (o : BB) :
    ((o &&& ~~~ bit s) ||| bit t).getLsbD t = true := by
  rw [getLsbD_or_bit _ _ _ ht]; simp

/-! ### (T1) safety of a piece move -/

theorem not_isEp_of_not_pawn {s t : Nat} (h : b.pieceAt s ≠ .pawn) : ¬ IsEp b s t := fun e => h e.1

/-- **(T1)** -/
theorem safe_iff (cx : Ctx b K) (hnc : ¬ Chk b b.occ 0 K) {s t pr : Nat} (hs : s < 64) (ht : t < 64)
    (hPL : PL.PL b s t pr) (hnk : b.pieceAt s ≠ .king) (hnp : b.pieceAt s ≠ .pawn) :
    Rules.inCheck (Rules.applyCore (abs b) ⟨s, t, decPromo pr⟩) b.stm = false ↔
      ¬ SChk b ((b.occ &&& ~~~ bit s) ||| bit t) (bit t) K := by
  rw [← Bool.not_eq_true, after_nonking cx s t pr hs ht hPL hnk (not_isEp_of_not_pawn hnp),
    Chk_iff_SChk (noLeaper_of_not_Chk hnc _)]

/-! ### pins -/

/-- the enemy slider on `X` attacks `K` once `s` is lifted off the board. -/
structure Pin (b : Board) (K s X : Nat) : Prop where
  lt : X < 64
  opp : (b.colorBB b.stm.flip).getLsbD X = true
  slider : isSlider (b.pieceAt X) = true
  att : Att (b.occ &&& ~~~ bit s) b.stm.flip (b.pieceAt X) X K

theorem schk_lift_iff (s : Nat) : SChk b (b.occ &&& ~~~ bit s) 0 K ↔ ∃ X, Pin b K s X := by
  constructor
  · rintro ⟨X, h1, h2, _, h3, h4⟩
    exact ⟨X, h1, h2, h3, h4⟩
  · rintro ⟨X, h1, h2, h3, h4⟩
    exact ⟨X, h1, h2, by simp, h3, h4⟩

theorem not_att_now (hnc : ¬ Chk b b.occ 0 K) {X : Nat} (hX : X < 64)
    (hopp : (b.colorBB b.stm.flip).getLsbD X = true) : ¬ Att b.occ b.stm.flip (b.pieceAt X) X K :=
  fun h => hnc ⟨X, hX, hopp, by simp, h⟩

/-- **(T2)** an attack on the unchecked king that appears when at most `s` is vacated passes through `s`. -/
theorem reveal (hnc : ¬ Chk b b.occ 0 K) {o' : BB} {s X : Nat} (hX : X < 64)
    (hopp : (b.colorBB b.stm.flip).getLsbD X = true)
    (ho : ∀ u, u ≠ s → o'.getLsbD u = false → b.occ.getLsbD u = false)
    (hatt : Att o' b.stm.flip (b.pieceAt X) X K) :
    (SB X K).getLsbD s = true ∧ b.occ.getLsbD s = true ∧ o'.getLsbD s = false := by
  obtain ⟨_, u, hu, h1, h2⟩ := Att_lost hatt (not_att_now hnc hX hopp)
  have : u = s := by
    apply Classical.byContradiction
    intro hne
    rw [ho u hne h1] at h2; exact Bool.noConfusion h2
  subst this
  exact ⟨hu, h2, h1⟩

variable {s t X Y : Nat}

theorem Pin.between (hnc : ¬ Chk b b.occ 0 K) (hs : s < 64) (h : Pin b K s X) :
    (SB X K).getLsbD s = true :=
  (reveal hnc h.lt h.opp (fun u hne hu => by rwa [lift_get hs _ hne] at hu) h.att).1

theorem Pin.between' (cx : Ctx b K) (hnc : ¬ Chk b b.occ 0 K) (hs : s < 64) (h : Pin b K s X) :
    (SB K X).getLsbD s = true := by
  rw [sb_comm' cx.hK h.lt]; exact h.between hnc hs

theorem Pin.free (h : Pin b K s X) : lineFree (b.occ &&& ~~~ bit s) X K :=
  (Att_slider_geo h.slider h.att).2

theorem Pin.geo (h : Pin b K s X) : rookGeo X K ∨ bishGeo X K :=
  (Att_slider_geo h.slider h.att).1

/-- **(T3)** the pinner is unique. -/
theorem Pin.unique (cx : Ctx b K) (hnc : ¬ Chk b b.occ 0 K) (hs : s < 64)
    (hX : Pin b K s X) (hY : Pin b K s Y) : X = Y := by
  have bX := hX.between' cx hnc hs
  have bY := hY.between' cx hnc hs
  -- a pinner strictly between the king and another pinner blocks the latter
  have key : ∀ {A B : Nat}, Pin b K s A → Pin b K s B → (SB K A).getLsbD s = true →
      (SB K B).getLsbD A = true → False := by
    intro A B hA hB bA hAB
    have hf := hB.free A (by rw [sb_comm' hB.lt cx.hK]; exact hAB)
    rw [lift_get hs _ (Ne.symm (sb_ne cx.hK hA.lt bA).2.1), occ_of_opp A hA.opp] at hf
    exact Bool.noConfusion hf
  rcases sb_same_ray cx.hK hX.lt hY.lt bX bY with h | h | h
  · exact h
  · exact (key hX hY bX h).elim
  · exact (key hY hX bY h).elim

/-- **(T4), geometry**: from `s` the pinner is seen along the pin line. -/
theorem Pin.line (cx : Ctx b K) (hnc : ¬ Chk b b.occ 0 K) (hs : s < 64) (h : Pin b K s X) :
    (rookGeo X K → rookGeo s X) ∧ (bishGeo X K → bishGeo s X) ∧ lineFree b.occ s X := by
  have bX := h.between' cx hnc hs
  have hg := sb_geo_right cx.hK h.lt bX
  refine ⟨fun hr => hg.1.1 (rookGeo_symm.1 hr), fun hb => hg.2.1 (bishGeo_symm.1 hb), ?_⟩
  intro v hv
  have hv' : (SB X K).getLsbD v = true := by
    rw [sb_comm' h.lt cx.hK]; exact (sb_split cx.hK h.lt bX v).2 (Or.inr (Or.inr hv))
  have := h.free v hv'
  rwa [lift_get hs _ (sb_ne hs h.lt hv).1] at this

/-- **(T4), safety**: capturing the pinner is safe. -/
theorem Pin.capture_safe (cx : Ctx b K) (hnc : ¬ Chk b b.occ 0 K) (hs : s < 64) (h : Pin b K s X)
    {pr : Nat} (hPL : PL.PL b s X pr) (hnk : b.pieceAt s ≠ .king) (hnp : b.pieceAt s ≠ .pawn) :
    Rules.inCheck (Rules.applyCore (abs b) ⟨s, X, decPromo pr⟩) b.stm = false := by
  rw [safe_iff cx hnc hs h.lt hPL hnk hnp]
  rintro ⟨Y, hY, hoY, hxY, hsY, hatt⟩
  have hXs : X ≠ s := Ne.symm (sb_ne h.lt cx.hK (h.between hnc hs)).1
  have hYpin : Pin b K s Y := by
    refine ⟨hY, hoY, hsY, (Att_congr ?_).1 hatt⟩
    intro u _
    by_cases hu : u = X
    · rw [hu, moved_self h.lt, lift_get hs _ hXs, occ_of_opp X h.opp]
    · exact moved_get h.lt _ hu
  have := h.unique cx hnc hs hYpin
  rw [bit_getLsbD X Y h.lt, decide_eq_false_iff_not] at hxY
  exact hxY this

/-- without a pinner every pseudo-legal move of the man on `s` is safe. -/
theorem safe_of_noPin (cx : Ctx b K) (hnc : ¬ Chk b b.occ 0 K) (hs : s < 64) (ht : t < 64)
    (hno : ¬ ∃ X, Pin b K s X) {pr : Nat} (hPL : PL.PL b s t pr)
    (hnk : b.pieceAt s ≠ .king) (hnp : b.pieceAt s ≠ .pawn) :
    Rules.inCheck (Rules.applyCore (abs b) ⟨s, t, decPromo pr⟩) b.stm = false := by
  rw [safe_iff cx hnc hs ht hPL hnk hnp]
  rintro ⟨Y, hY, hoY, _, hsY, hatt⟩
  refine hno ⟨Y, hY, hoY, hsY, Att_mono hatt ?_⟩
  intro u _ hu
  rw [getLsbD_or_bit _ _ _ ht, hu]; rfl

/-- a destination on the pin line is aligned with `s` the way the pin line is. -/
theorem Pin.aligned (cx : Ctx b K) (hnc : ¬ Chk b b.occ 0 K) (hs : s < 64) (h : Pin b K s X)
    (hst : s ≠ t) (ht : (SB X K).getLsbD t = true ∨ t = X) :
    (rookGeo X K → rookGeo s t) ∧ (bishGeo X K → bishGeo s t) := by
  have bX := h.between' cx hnc hs
  have ht' : (SB K X).getLsbD t = true ∨ t = X ∨ t = K := by
    rcases ht with ht | ht
    · left; rw [sb_comm' cx.hK h.lt]; exact ht
    · exact Or.inr (Or.inl ht)
  have hg := sb_pair_geo cx.hK h.lt bX ht' hst
  exact ⟨fun hr => hg.1 (rookGeo_symm.1 hr), fun hb => hg.2 (bishGeo_symm.1 hb)⟩

/-- a move of the pinned man that does not stay on the pin line leaves the king attacked. -/
theorem Pin.unsafe (cx : Ctx b K) (hnc : ¬ Chk b b.occ 0 K) (hs : s < 64) (ht : t < 64)
    (h : Pin b K s X) (hst : s ≠ t)
    (hoff : ¬ ((rookGeo X K ∧ rookGeo s t) ∨ (bishGeo X K ∧ bishGeo s t))) :
    SChk b ((b.occ &&& ~~~ bit s) ||| bit t) (bit t) K := by
  have hnot : ¬ ((SB X K).getLsbD t = true ∨ t = X) := by
    intro hl
    have hal := h.aligned cx hnc hs hst hl
    rcases h.geo with hg | hg
    · exact hoff (Or.inl ⟨hg, hal.1 hg⟩)
    · exact hoff (Or.inr ⟨hg, hal.2 hg⟩)
  have htX : ¬ t = X := fun e => hnot (Or.inr e)
  refine ⟨X, h.lt, h.opp, ?_, h.slider, (Att_congr ?_).1 h.att⟩
  · rw [bit_getLsbD t X ht, decide_eq_false_iff_not]; exact htX
  · intro u hu
    have : u ≠ t := by
      intro e; subst e; exact hnot (Or.inl hu)
    exact (moved_get ht _ this).symm

/-! ### the engine's loops -/

theorem own_kind_iff (cx : Ctx b K) (k : Piece) (hk : k ≠ .none) (hs : s < 64) :
    (b.pieceBB k &&& b.colorBB b.stm).getLsbD s = true ↔
      (b.colorBB b.stm).getLsbD s = true ∧ b.pieceAt s = k := by
  rw [BitVec.getLsbD_and, Bool.and_eq_true, cx.wf.piece_iff s hs k hk, and_comm]

/-- `moves &^ me != 0`. -/
theorem target_iff (M me : BB) :
    (M &&& ~~~ me != 0) = true ↔ ∃ t, t < 64 ∧ M.getLsbD t = true ∧ me.getLsbD t = false := by
  rw [and2_bne]
  constructor
  · rintro ⟨t, ht, h1, h2⟩
    rw [BitVec.getLsbD_not] at h2
    simp only [ht, decide_true, Bool.true_and, Bool.not_eq_true'] at h2
    exact ⟨t, ht, h1, h2⟩
  · rintro ⟨t, ht, h1, h2⟩
    refine ⟨t, ht, h1, ?_⟩
    rw [BitVec.getLsbD_not, h2]; simp [ht]

/-- lifting `s` does not change what is seen from `s`. -/
theorem Att_lift_self {c : Color} {k : Piece} (hs : s < 64) (ht : t < 64) (o : BB) :
    Att (o &&& ~~~ bit s) c k s t ↔ Att o c k s t := by
  apply Att_congr
  intro u hu
  exact lift_get hs _ (sb_ne hs ht hu).1

theorem hasLegal_intro {k : Piece} (cx : Ctx b K) (hs : s < 64) (ht : t < 64)
    (hown : (b.colorBB b.stm).getLsbD s = true) (hk : b.pieceAt s = k)
    (hto : (b.colorBB b.stm).getLsbD t = false) (hPLk : PLk b k s t 0)
    (hsafe : PL.PL b s t 0 → Rules.inCheck (Rules.applyCore (abs b) ⟨s, t, decPromo 0⟩) b.stm = false) :
    HasLegal b k := by
  have hPL : PL.PL b s t 0 := (PL_iff_kind cx.wf s t 0 hs).2 ⟨hown, hto, by rw [hk]; exact hPLk⟩
  exact ⟨s, t, 0, hs, ht, by decide, hk, hPL, hsafe hPL⟩

/-! ### queens -/

/-- **queens**: some queen has a legal move iff some queen has a pseudo-legal move. -/
theorem stQueens_iff (cx : Ctx b K) (hnc : ¬ Chk b b.occ 0 K) : stQueens b = true ↔ HasLegal b .queen := by
  unfold stQueens
  rw [any_bits_iff]
  constructor
  · rintro ⟨s, hs, hq, hm⟩
    obtain ⟨hown, hk⟩ := (own_kind_iff cx .queen (by decide) hs).1 hq
    obtain ⟨t, ht, hmv, hto⟩ := (target_iff _ _).1 hm
    have hnk : b.pieceAt s ≠ .king := by rw [hk]; decide
    have hnp : b.pieceAt s ≠ .pawn := by rw [hk]; decide
    by_cases hpin : ∃ X, Pin b K s X
    · obtain ⟨X, hX⟩ := hpin
      have hl := hX.line cx hnc hs
      refine hasLegal_intro cx hs hX.lt hown hk (opp_not_own cx X hX.opp) ⟨rfl, ?_⟩
        (fun hPL => hX.capture_safe cx hnc hs hPL hnk hnp)
      rw [queen_lookup (c := b.stm) hs hX.lt]
      refine ⟨?_, hl.2.2⟩
      rcases hX.geo with hg | hg
      · exact Or.inr (hl.1 hg)
      · exact Or.inl (hl.2.1 hg)
    · exact hasLegal_intro cx hs ht hown hk hto ⟨rfl, hmv⟩
        (fun hPL => safe_of_noPin cx hnc hs ht hpin hPL hnk hnp)
  · rintro ⟨s, t, pr, hs, ht, _, hk, hPL, _⟩
    obtain ⟨hown, hto, hPLk⟩ := (PL_iff_kind cx.wf s t pr hs).1 hPL
    rw [hk] at hPLk
    exact ⟨s, hs, (own_kind_iff cx .queen (by decide) hs).2 ⟨hown, hk⟩,
      (target_iff _ _).2 ⟨t, ht, hPLk.2, hto⟩⟩

/-! ### bishops and rooks -/

theorem beq_zero_iff (x : BB) : (x == 0) = true ↔ ¬ (x != 0) = true := by
  simp [bne]

theorem ne_of_own_notOwn (hown : (b.colorBB b.stm).getLsbD s = true)
    (hto : (b.colorBB b.stm).getLsbD t = false) : s ≠ t := by
  intro e; subst e; rw [hown] at hto; exact Bool.noConfusion hto

/-- **bishops**: some bishop has a legal move iff some bishop is not pinned orthogonally and has a
    pseudo-legal move. -/
theorem stBishops_iff (cx : Ctx b K) (hnc : ¬ Chk b b.occ 0 K) :
    stBishops b K = true ↔ HasLegal b .bishop := by
  unfold stBishops
  rw [any_bits_iff]
  constructor
  · rintro ⟨s, hs, hq, hm⟩
    obtain ⟨hown, hk⟩ := (own_kind_iff cx .bishop (by decide) hs).1 hq
    dsimp only at hm
    rw [Bool.and_eq_true, beq_zero_iff, rookProbe_set cx.wf _ _ K cx.hK b.stm.flip] at hm
    obtain ⟨hprobe, hm⟩ := hm
    obtain ⟨t, ht, hmv, hto⟩ := (target_iff _ _).1 hm
    have hmv' : (Attacks.bishopMoves s b.occ).getLsbD t = true :=
      (bishop_lookup (c := b.stm) hs ht).2 ((Att_lift_self hs ht _).1 ((bishop_lookup hs ht).1 hmv))
    have hnk : b.pieceAt s ≠ .king := by rw [hk]; decide
    have hnp : b.pieceAt s ≠ .pawn := by rw [hk]; decide
    by_cases hpin : ∃ X, Pin b K s X
    · obtain ⟨X, hX⟩ := hpin
      have hl := hX.line cx hnc hs
      have hdiag : bishGeo X K := by
        rcases (slider_att_iff _ _ _ _ _).1 ⟨hX.slider, hX.att⟩ with ⟨_, h⟩ | ⟨hkx, h⟩
        · exact h.1
        · exact absurd ⟨X, hX.lt, hX.opp, hkx, h⟩ hprobe
      refine hasLegal_intro cx hs hX.lt hown hk (opp_not_own cx X hX.opp) ⟨rfl, ?_⟩
        (fun hPL => hX.capture_safe cx hnc hs hPL hnk hnp)
      rw [bishop_lookup (c := b.stm) hs hX.lt]
      exact ⟨hl.2.1 hdiag, hl.2.2⟩
    · exact hasLegal_intro cx hs ht hown hk hto ⟨rfl, hmv'⟩
        (fun hPL => safe_of_noPin cx hnc hs ht hpin hPL hnk hnp)
  · rintro ⟨s, t, pr, hs, ht, _, hk, hPL, hsafe⟩
    obtain ⟨hown, hto, hPLk⟩ := (PL_iff_kind cx.wf s t pr hs).1 hPL
    have hnk : b.pieceAt s ≠ .king := by rw [hk]; decide
    have hnp : b.pieceAt s ≠ .pawn := by rw [hk]; decide
    rw [hk] at hPLk
    have hatt : Att b.occ b.stm .bishop s t := (bishop_lookup hs ht).1 hPLk.2
    refine ⟨s, hs, (own_kind_iff cx .bishop (by decide) hs).2 ⟨hown, hk⟩, ?_⟩
    dsimp only
    rw [Bool.and_eq_true, beq_zero_iff, rookProbe_set cx.wf _ _ K cx.hK b.stm.flip]
    constructor
    · rintro ⟨X, hX, hoX, hkX, hattX⟩
      have hsl := (slider_att_iff _ _ _ _ _).2 (Or.inr ⟨hkX, hattX⟩)
      have hpin : Pin b K s X := ⟨hX, hoX, hsl.1, hsl.2⟩
      refine (safe_iff cx hnc hs ht hPL hnk hnp).1 hsafe
        (hpin.unsafe cx hnc hs ht (ne_of_own_notOwn hown hto) ?_)
      rintro (⟨_, h⟩ | ⟨h, _⟩)
      · exact rook_bish_excl h hatt.1
      · exact rook_bish_excl hattX.1 h
    · exact (target_iff _ _).2 ⟨t, ht,
        (bishop_lookup (c := b.stm) hs ht).2 ((Att_lift_self hs ht _).2 hatt), hto⟩

/-- **rooks**: some rook has a legal move iff some rook is not pinned diagonally and has a
    pseudo-legal move. -/
theorem stRooks_iff (cx : Ctx b K) (hnc : ¬ Chk b b.occ 0 K) :
    stRooks b K = true ↔ HasLegal b .rook := by
  unfold stRooks
  rw [any_bits_iff]
  constructor
  · rintro ⟨s, hs, hq, hm⟩
    obtain ⟨hown, hk⟩ := (own_kind_iff cx .rook (by decide) hs).1 hq
    dsimp only at hm
    rw [Bool.and_eq_true, beq_zero_iff, bishopProbe_set cx.wf _ _ K cx.hK b.stm.flip] at hm
    obtain ⟨hprobe, hm⟩ := hm
    obtain ⟨t, ht, hmv, hto⟩ := (target_iff _ _).1 hm
    have hmv' : (Attacks.rookMoves s b.occ).getLsbD t = true :=
      (rook_lookup (c := b.stm) hs ht).2 ((Att_lift_self hs ht _).1 ((rook_lookup hs ht).1 hmv))
    have hnk : b.pieceAt s ≠ .king := by rw [hk]; decide
    have hnp : b.pieceAt s ≠ .pawn := by rw [hk]; decide
    by_cases hpin : ∃ X, Pin b K s X
    · obtain ⟨X, hX⟩ := hpin
      have hl := hX.line cx hnc hs
      have horth : rookGeo X K := by
        rcases (slider_att_iff _ _ _ _ _).1 ⟨hX.slider, hX.att⟩ with ⟨hkx, h⟩ | ⟨_, h⟩
        · exact absurd ⟨X, hX.lt, hX.opp, hkx, h⟩ hprobe
        · exact h.1
      refine hasLegal_intro cx hs hX.lt hown hk (opp_not_own cx X hX.opp) ⟨rfl, ?_⟩
        (fun hPL => hX.capture_safe cx hnc hs hPL hnk hnp)
      rw [rook_lookup (c := b.stm) hs hX.lt]
      exact ⟨hl.1 horth, hl.2.2⟩
    · exact hasLegal_intro cx hs ht hown hk hto ⟨rfl, hmv'⟩
        (fun hPL => safe_of_noPin cx hnc hs ht hpin hPL hnk hnp)
  · rintro ⟨s, t, pr, hs, ht, _, hk, hPL, hsafe⟩
    obtain ⟨hown, hto, hPLk⟩ := (PL_iff_kind cx.wf s t pr hs).1 hPL
    have hnk : b.pieceAt s ≠ .king := by rw [hk]; decide
    have hnp : b.pieceAt s ≠ .pawn := by rw [hk]; decide
    rw [hk] at hPLk
    have hatt : Att b.occ b.stm .rook s t := (rook_lookup hs ht).1 hPLk.2
    refine ⟨s, hs, (own_kind_iff cx .rook (by decide) hs).2 ⟨hown, hk⟩, ?_⟩
    dsimp only
    rw [Bool.and_eq_true, beq_zero_iff, bishopProbe_set cx.wf _ _ K cx.hK b.stm.flip]
    constructor
    · rintro ⟨X, hX, hoX, hkX, hattX⟩
      have hsl := (slider_att_iff _ _ _ _ _).2 (Or.inl ⟨hkX, hattX⟩)
      have hpin : Pin b K s X := ⟨hX, hoX, hsl.1, hsl.2⟩
      refine (safe_iff cx hnc hs ht hPL hnk hnp).1 hsafe
        (hpin.unsafe cx hnc hs ht (ne_of_own_notOwn hown hto) ?_)
      rintro (⟨h, _⟩ | ⟨_, h⟩)
      · exact rook_bish_excl h hattX.1
      · exact rook_bish_excl hatt.1 h
    · exact (target_iff _ _).2 ⟨t, ht,
        (rook_lookup (c := b.stm) hs ht).2 ((Att_lift_self hs ht _).2 hatt), hto⟩

/-! ### knights -/

theorem slider_ne_pawn {k : Piece} (h : isSlider k = true) : k ≠ .pawn := by
  intro e; subst e; exact absurd h (by decide)

theorem Att_slider_queen {o : BB} {c : Color} {k : Piece} {a u : Nat} (hk : isSlider k = true)
    (h : Att o c k a u) : Att o c .queen a u := by
  cases k <;> first | exact absurd hk (by decide) | skip
  · exact ⟨Or.inl h.1, h.2⟩
  · exact ⟨Or.inr h.1, h.2⟩
  · exact h

/-- a pinned own man is seen from the king. -/
theorem Pin.maybePinned (cx : Ctx b K) (hnc : ¬ Chk b b.occ 0 K) (hs : s < 64)
    (hown : (b.colorBB b.stm).getLsbD s = true) (h : Pin b K s X) :
    (maybePinnedBB b K).getLsbD s = true := by
  unfold maybePinnedBB
  rw [BitVec.getLsbD_and, hown, Bool.and_true, queen_lookup (c := b.stm.flip) cx.hK hs]
  have h1 := (Att_symm h.lt cx.hK (slider_ne_pawn h.slider)).1 h.att
  have h2 := Att_slider_queen h.slider (Att_prefix cx.hK h.lt h.slider h1 (h.between' cx hnc hs))
  refine (Att_congr ?_).1 h2
  intro u hu
  exact lift_get hs _ (sb_ne cx.hK hs hu).2.1

/-- the knight loop's `pinned` flag. -/
theorem knight_pinned_iff (cx : Ctx b K) (hnc : ¬ Chk b b.occ 0 K) (hs : s < 64)
    (hown : (b.colorBB b.stm).getLsbD s = true) :
    ((bit s &&& maybePinnedBB b K != 0) &&
        b.sliderHits K (b.occ &&& ~~~ bit s) (b.colorBB b.stm.flip)) = true ↔ ∃ X, Pin b K s X := by
  rw [Bool.and_eq_true, PL.bit_and_bne _ s hs, sliderHits_iff0 cx.wf _ K cx.hK, schk_lift_iff]
  constructor
  · exact And.right
  · rintro ⟨X, hX⟩
    exact ⟨hX.maybePinned cx hnc hs hown, X, hX⟩

/-- **knights**: some knight has a legal move iff some unpinned knight has a pseudo-legal move. -/
theorem stKnights_iff (cx : Ctx b K) (hnc : ¬ Chk b b.occ 0 K) :
    stKnights b K = true ↔ HasLegal b .knight := by
  unfold stKnights
  rw [any_bits_iff]
  constructor
  · rintro ⟨s, hs, hq, hm⟩
    obtain ⟨hown, hk⟩ := (own_kind_iff cx .knight (by decide) hs).1 hq
    dsimp only at hm
    rw [Bool.and_eq_true, Bool.not_eq_true'] at hm
    obtain ⟨hnp', hm⟩ := hm
    obtain ⟨t, ht, hmv, hto⟩ := (target_iff _ _).1 hm
    have hnk : b.pieceAt s ≠ .king := by rw [hk]; decide
    have hnp : b.pieceAt s ≠ .pawn := by rw [hk]; decide
    have hpin : ¬ ∃ X, Pin b K s X := by
      intro h
      rw [(knight_pinned_iff cx hnc hs hown).2 h] at hnp'
      exact Bool.noConfusion hnp'
    exact hasLegal_intro cx hs ht hown hk hto ⟨rfl, hmv⟩
      (fun hPL => safe_of_noPin cx hnc hs ht hpin hPL hnk hnp)
  · rintro ⟨s, t, pr, hs, ht, _, hk, hPL, hsafe⟩
    obtain ⟨hown, hto, hPLk⟩ := (PL_iff_kind cx.wf s t pr hs).1 hPL
    have hnk : b.pieceAt s ≠ .king := by rw [hk]; decide
    have hnp : b.pieceAt s ≠ .pawn := by rw [hk]; decide
    rw [hk] at hPLk
    have hgeo : knightGeo s t := (knight_lookup (o := b.occ) (c := b.stm) hs ht).1 hPLk.2
    refine ⟨s, hs, (own_kind_iff cx .knight (by decide) hs).2 ⟨hown, hk⟩, ?_⟩
    dsimp only
    rw [Bool.and_eq_true, Bool.not_eq_true']
    constructor
    · cases hp : ((bit s &&& maybePinnedBB b K != 0) &&
          b.sliderHits K (b.occ &&& ~~~ bit s) (b.colorBB b.stm.flip))
      · rfl
      · exfalso
        obtain ⟨X, hX⟩ := (knight_pinned_iff cx hnc hs hown).1 hp
        refine (safe_iff cx hnc hs ht hPL hnk hnp).1 hsafe
          (hX.unsafe cx hnc hs ht (ne_of_own_notOwn hown hto) ?_)
        rintro (⟨_, h⟩ | ⟨_, h⟩)
        · exact (knight_not_line hgeo).1 h
        · exact (knight_not_line hgeo).2 h
    · exact (target_iff _ _).2 ⟨t, ht, hPLk.2, hto⟩

end ChessVerif.Mate.StalePieces
