/-
  Arithmetic lemmas about the TRANSLATED history-gravity update (`Gen.Funcs.histAdd`, generated
  from /repo/heur/hist.go; `contAdd`/`captAdd` are the same formula, `Gen.Funcs.contAdd_eq_histAdd`),
  and the move-weight layout constants of /repo/heur/heur.go.
  Core Lean only.  The gravity bound is a real proof (floor-quotient bounds from
  `(K − |h|)·(K − |c|) ≥ 0`), not an enumeration.
-/
import ChessVerif.Gen.Funcs

set_option linter.unusedSimpArgs false

namespace ChessVerif.Proofs.Hist
open ChessVerif ChessVerif.Gen.Funcs

/-! ### Integer facts -/

/-- Floor-quotient bounds: for `0 ≤ h, a ≤ K`:  `max 0 (h + a − K) ≤ ⌊h·a/K⌋ ≤ h`. -/
theorem quot_bounds {K h a : Int} (hK : 0 < K) (h0 : 0 ≤ h) (hh : h ≤ K) (a0 : 0 ≤ a) (ha : a ≤ K) :
    0 ≤ h * a / K ∧ h * a / K ≤ h ∧ h + a - K ≤ h * a / K := by
  have h1 : h * a / K * K ≤ h * a := Int.ediv_mul_le _ (Int.ne_of_gt hK)
  have h2 : h * a < (h * a / K + 1) * K := Int.lt_ediv_add_one_mul_self _ hK
  have h3 : 0 ≤ h * a := Int.mul_nonneg h0 a0
  have h4 : h * a ≤ h * K := Int.mul_le_mul_of_nonneg_left ha h0
  refine ⟨Int.ediv_nonneg h3 (Int.le_of_lt hK), ?_, ?_⟩
  · exact Int.le_of_mul_le_mul_right (Int.le_trans h1 h4) hK
  · have e : (K - h) * (K - a) = K * K - K * a - (h * K - h * a) := by
      rw [Int.sub_mul, Int.mul_sub, Int.mul_sub]
    have p : 0 ≤ (K - h) * (K - a) := Int.mul_nonneg (by omega) (by omega)
    have e2 : (h + a - K) * K = h * K + a * K - K * K := by rw [Int.sub_mul, Int.add_mul]
    have e3 : a * K = K * a := Int.mul_comm _ _
    have lt : (h + a - K) * K < (h * a / K + 1) * K := by omega
    have := Int.lt_of_mul_lt_mul_right lt (Int.le_of_lt hK)
    omega

/-- The same for Go's truncating division and either sign of `h` (`a = |c| ≥ 0`). -/
theorem tdiv_gravity {K h a : Int} (hK : 0 < K) (h1 : -K ≤ h) (h2 : h ≤ K) (a0 : 0 ≤ a) (ha : a ≤ K) :
    (0 ≤ h → 0 ≤ Int.tdiv (h * a) K ∧ Int.tdiv (h * a) K ≤ h ∧ h + a - K ≤ Int.tdiv (h * a) K) ∧
    (h < 0 → h ≤ Int.tdiv (h * a) K ∧ Int.tdiv (h * a) K ≤ 0 ∧ Int.tdiv (h * a) K ≤ h - a + K) := by
  constructor
  · intro h0
    rw [Int.tdiv_eq_ediv_of_nonneg (Int.mul_nonneg h0 a0)]
    exact quot_bounds hK h0 h2 a0 ha
  · intro hneg
    have e : h * a = -((-h) * a) := by rw [Int.neg_mul, Int.neg_neg]
    have hn0 : 0 ≤ -h := by omega
    rw [e, Int.neg_tdiv, Int.tdiv_eq_ediv_of_nonneg (Int.mul_nonneg hn0 a0)]
    have := quot_bounds hK hn0 (by omega) a0 ha
    omega

theorem mul_bounds {K h a : Int} (h1 : -K ≤ h) (h2 : h ≤ K) (a0 : 0 ≤ a) (a1 : a ≤ K) :
    -(K * K) ≤ h * a ∧ h * a ≤ K * K := by
  have k0 : 0 ≤ K := by omega
  have u1 : h * a ≤ K * a := Int.mul_le_mul_of_nonneg_right h2 a0
  have u2 : K * a ≤ K * K := Int.mul_le_mul_of_nonneg_left a1 k0
  have l1 : -K * a ≤ h * a := Int.mul_le_mul_of_nonneg_right h1 a0
  have l2 : -K * a = -(K * a) := Int.neg_mul _ _
  omega

theorem wrapS16_id {x : Int} (h : -32768 ≤ x ∧ x ≤ 32767) : wrapS16 x = x := by unfold wrapS16; omega
theorem wrapS64_id' {x : Int} (h1 : -9223372036854775808 ≤ x) (h2 : x ≤ 9223372036854775807) : wrapS64 x = x := by
  unfold wrapS64; omega
theorem wrapS64_id {x : Int} (h : -9223372036854775808 ≤ x ∧ x ≤ 9223372036854775807) : wrapS64 x = x := by
  unfold wrapS64; omega

/-! ### The gravity update -/

/-- A stored history value is in range. -/
def HistOK (h : Int) : Prop := -MaxHistory ≤ h ∧ h ≤ MaxHistory

instance (h : Int) : Decidable (HistOK h) := by unfold HistOK; exact inferInstance

/-- One update from an in-range value, for EVERY integer bonus (in particular every `int16`):
    no `int16`/`int64` wrap happens anywhere — the translated function equals `histAdd_ideal`, the
    extractor's rendering of the same Go statement over exact integers,
    `h + (c − trunc(h·|c| / MaxHistory))` with `c` the bonus clamped to ±MaxHistory — and the result is in
    range again.  (The literal in the generated body is matched through `MaxHistory`, not written here.) -/
theorem histAdd_exact_bound {h bonus : Int} (hh : HistOK h) :
    histAdd h bonus = histAdd_ideal h bonus ∧ HistOK (histAdd h bonus) := by
  obtain ⟨h1, h2⟩ := hh
  obtain ⟨c, hc⟩ : ∃ c, min MaxHistory (max bonus (-MaxHistory)) = c := ⟨_, rfl⟩
  have c1 : -MaxHistory ≤ c := by simp only [MaxHistory] at hc ⊢; omega
  have c2 : c ≤ MaxHistory := by simp only [MaxHistory] at hc ⊢; omega
  have hK : 0 < MaxHistory := by decide
  obtain ⟨a, ha⟩ : ∃ a, (if c < 0 then -c else c) = a := ⟨_, rfl⟩
  have a0 : 0 ≤ a := by subst ha; simp only [MaxHistory] at c1 c2; split <;> omega
  have a1 : a ≤ MaxHistory := by subst ha; simp only [MaxHistory] at c1 c2 ⊢; split <;> omega
  have ac : c = a ∨ c = -a := by subst ha; split <;> omega
  have hp := mul_bounds h1 h2 a0 a1
  have hg := tdiv_gravity hK h1 h2 a0 a1
  obtain ⟨g, hgd⟩ : ∃ g, Int.tdiv (h * a) MaxHistory = g := ⟨_, rfl⟩
  rw [hgd] at hg
  simp only [MaxHistory] at h1 h2 hc c1 c2 a1 hp hg hgd
  have ea : (if c < 0 then wrapS16 (-c) else c) = a := by
    rw [← ha]; split
    · exact wrapS16_id (by omega)
    · rfl
  simp only [histAdd, histAdd_ideal, HistOK, MaxHistory, clampS16, clampS16_ideal, absS16, absS16_ideal, goDiv, hc, ea, ha]
  rw [wrapS64_id (x := h) (by omega), wrapS64_id (x := a) (by omega), wrapS64_id (x := h * a) (by omega), hgd]
  rw [wrapS64_id (x := g) (by omega), wrapS16_id (x := g) (by omega), wrapS16_id (x := c - g) (by omega),
    wrapS16_id (x := h + (c - g)) (by omega)]
  omega

/-- Arbitrary update sequences: fold of the translated update. -/
def histRun (start : Int) (bonuses : List Int) : Int := bonuses.foldl histAdd start

theorem histRun_ok {start : Int} (hs : HistOK start) (bs : List Int) : HistOK (histRun start bs) := by
  induction bs generalizing start with
  | nil => exact hs
  | cons b bs ih => exact ih (histAdd_exact_bound hs).2

theorem histOK_zero : HistOK 0 := by simp only [HistOK, MaxHistory]; omega

/-! ### Move-weight layout (constants of heur.go from Gen) -/

/-- What `RankNoisy` adds to the band base: `promo·6·7 + victim·6 + (King − attacker)` in `Score`
    (int16) arithmetic, as in the source. -/
def noisyScore (promo victim invAttacker : Int) : Int :=
  wrapS16 (wrapS16 (wrapS16 (wrapS16 (promo * 6) * 7) + wrapS16 (victim * 6)) + invAttacker)

/-- For piece codes in their ranges (`promo` 0..4 after the `−Pawn` shift, `victim` 0..6,
    `King − attacker` 0..6) the score needs no wrap and lies in `[0, CaptureRange)`. -/
theorem noisyScore_range {p v i : Int} (hp : 0 ≤ p ∧ p ≤ 4) (hv : 0 ≤ v ∧ v ≤ 6) (hi : 0 ≤ i ∧ i ≤ 6) :
    noisyScore p v i = p * 42 + v * 6 + i ∧ 0 ≤ noisyScore p v i ∧ noisyScore p v i < CaptureRange := by
  simp only [noisyScore]
  rw [wrapS16_id (x := p * 6) (by omega), wrapS16_id (x := p * 6 * 7) (by omega), wrapS16_id (x := v * 6) (by omega),
    wrapS16_id (x := p * 6 * 7 + v * 6) (by omega), wrapS16_id (x := p * 6 * 7 + v * 6 + i) (by omega)]
  simp only [CaptureRange]; omega

/-- Three in-range counters added in `Score` arithmetic (as `RankQuiet` does): no wrap, |sum| ≤ 3·MaxHistory. -/
theorem quiet_sum {a b c : Int} (ha : HistOK a) (hb : HistOK b) (hc : HistOK c) :
    wrapS16 (wrapS16 (a + b) + c) = a + b + c ∧ -(3 * MaxHistory) ≤ a + b + c ∧ a + b + c ≤ 3 * MaxHistory := by
  simp only [HistOK, MaxHistory] at *
  simp only [wrapS16]; omega

end ChessVerif.Proofs.Hist
