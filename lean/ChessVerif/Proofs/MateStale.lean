/-
  C09, stalemate: assembly.  `IsStalemate` of a position that is NOT in check answers true exactly
  when no legal move exists.  Components:
  * king flight loop                     — Proofs/MateKing.lean (`hasLegal_king_iff`),
  * queens / bishops / rooks / knights   — Proofs/MateStalePieces.lean,
  * pawns (unpinned shortcut, possibly pinned pawns, en passant) — Proofs/MateStalePawns*.lean.
  Neither `epNormal` nor `epSound` is needed: the en-passant loop of `IsStalemate` is exact.
-/
import ChessVerif.Proofs.MateStalePieces
import ChessVerif.Proofs.MateStalePawns
import ChessVerif.Proofs.MateCheckFinal

namespace ChessVerif.Mate
open ChessVerif Board Rules Bridge

variable {b : Board} {K : Nat}

/-- **`IsStalemate` of a position not in check.** -/
theorem isStalemate_iff_core (cx : Ctx b K) (hnc : ¬ Chk b b.occ 0 K) :
    b.isStalemate = true ↔ Rules.legalMoves (abs b) = [] := by
  rw [noLegal_iff_HasLegal cx, isStalemate_eq cx, Bool.not_eq_true']
  have hq := StalePieces.stQueens_iff cx hnc
  have hb := StalePieces.stBishops_iff cx hnc
  have hr := StalePieces.stRooks_iff cx hnc
  have hn := StalePieces.stKnights_iff cx hnc
  have hp := StalePawns.stPawn_iff cx hnc
  have hk := not_hasLegal_king_iff cx
  constructor
  · intro h k
    simp only [Bool.or_eq_false_iff] at h
    obtain ⟨⟨⟨⟨⟨⟨⟨h1, h2⟩, h3⟩, h4⟩, h5⟩, h6⟩, h7⟩, h8⟩ := h
    cases k
    · exact hasLegal_none cx
    · rw [← hp, h1, h7, h8]; exact Bool.false_ne_true
    · rw [← hn, h5]; exact Bool.false_ne_true
    · rw [← hb, h3]; exact Bool.false_ne_true
    · rw [← hr, h4]; exact Bool.false_ne_true
    · rw [← hq, h2]; exact Bool.false_ne_true
    · exact hk.2 h6
  · intro h
    have e2 : stQueens b = false := by
      cases e : stQueens b
      · rfl
      · exact absurd (hq.1 e) (h _)
    have e3 : stBishops b K = false := by
      cases e : stBishops b K
      · rfl
      · exact absurd (hb.1 e) (h _)
    have e4 : stRooks b K = false := by
      cases e : stRooks b K
      · rfl
      · exact absurd (hr.1 e) (h _)
    have e5 : stKnights b K = false := by
      cases e : stKnights b K
      · rfl
      · exact absurd (hn.1 e) (h _)
    have e6 : stKingLoop b K = false := hk.1 (h _)
    have e178 : (stFreePawn b K || stPawns b K || stEp b K) = false := by
      cases e : (stFreePawn b K || stPawns b K || stEp b K)
      · rfl
      · exact absurd (hp.1 e) (h _)
    simp only [Bool.or_eq_false_iff] at e178
    rw [e178.1.1, e178.1.2, e178.2, e2, e3, e4, e5, e6]
    rfl

end ChessVerif.Mate
