/-
  C09, checkmate: the exits of `IsCheckmate` as separate Boolean flags, the set of checkers, and
  the two shapes of the model (`isCheckmate_double`, `isCheckmate_single`).
-/
import ChessVerif.Proofs.MateAttackers
import ChessVerif.Proofs.MateStaleDefs

namespace ChessVerif.Mate
open ChessVerif Board Rules Bridge

variable {b : Board} {K : Nat}

/-- the men giving check (`attackers := b.Attackers(king, occ, opp)`). -/
def cmAtk (b : Board) (K : Nat) : BB := b.attackers (bit K) b.occ b.stm.flip

/-- first loop: some non-king man can capture the checker on `A` without exposing the king. -/
def cmCapture (b : Board) (K A : Nat) : Bool :=
  (bits (b.attackers (bit A) b.occ b.stm &&& ~~~ bit K)).any (fun d =>
    !(b.sliderHits K (b.occ &&& ~~~ bit d) (b.colorBB b.stm.flip &&& ~~~ bit A)))

/-- the checker is the pawn that has just advanced two squares. -/
def cmEp (b : Board) (A : Nat) : Bool :=
  if b.ep ≠ 0 then Attacks.pawnSinglePushMoves (bit b.ep) b.stm.flip == bit A else false

def cmBlocked (K A : Nat) : BB := Attacks.inBetween K A &&& ~~~ (bit K ||| bit A)

/-- second loop: some man can interpose. -/
def cmBlock (b : Board) (K A : Nat) : Bool :=
  (bits (b.block (cmBlocked K A) b.stm)).any (fun d =>
    !(b.sliderHits K ((b.occ &&& ~~~ bit d) ||| cmBlocked K A) (b.colorBB b.stm.flip)))

theorem popcount_bit (A : Nat) (hA : A < 64) : popcount (bit A) = 1 := by
  unfold popcount
  rw [PL.bits_bit ⟨A, hA⟩]
  rfl

theorem isCheckmate_double (cx : Ctx b K) (h : popcount (cmAtk b K) > 1) :
    b.isCheckmate = !(stKingLoop b K) := by
  unfold Board.isCheckmate stKingLoop
  simp only [cx.kingBB, PL.lowestSet_bit K cx.hK]
  unfold cmAtk at h
  simp only [h, if_true]
  cases (bits (Attacks.kingMoves K &&& ~~~b.colorBB b.stm)).any fun t =>
      !b.isAttacked b.stm.flip (b.occ &&& ~~~bit K) (bit t) <;> rfl

theorem ite_chain3 (a1 a2 a3 : Bool) :
    (if a1 = true then false else if a2 = true then false else if a3 = true then false else true) =
      !(a1 || a2 || a3) := by
  cases a1 <;> cases a2 <;> cases a3 <;> rfl

theorem isCheckmate_single (cx : Ctx b K) (A : Nat) (hA : A < 64) (h : cmAtk b K = bit A) :
    b.isCheckmate = (!(stKingLoop b K) && !(cmCapture b K A || cmEp b A || cmBlock b K A)) := by
  rw [← ite_chain3]
  unfold Board.isCheckmate stKingLoop cmCapture cmEp cmBlock cmBlocked
  simp only [cx.kingBB, PL.lowestSet_bit K cx.hK]
  unfold cmAtk at h
  have hp : ¬ (popcount (bit A) > 1) := by rw [popcount_bit A hA]; decide
  simp only [h, hp, if_false, PL.lowestSet_bit A hA]
  cases (bits (Attacks.kingMoves K &&& ~~~b.colorBB b.stm)).any fun t =>
      !b.isAttacked b.stm.flip (b.occ &&& ~~~bit K) (bit t) <;> rfl

/-! ### the set of checkers -/

/-- `a` is an enemy man attacking the king square under the board's occupancy. -/
def Checker (b : Board) (K a : Nat) : Prop :=
  (b.colorBB b.stm.flip).getLsbD a = true ∧ Att b.occ b.stm.flip (b.pieceAt a) a K

theorem cmAtk_get (cx : Ctx b K) (a : Nat) (ha : a < 64) :
    (cmAtk b K).getLsbD a = true ↔ Checker b K a :=
  attackers_bit cx.wf K cx.hK b.occ b.stm.flip a ha

theorem Chk_iff_checker : Chk b b.occ 0 K ↔ ∃ a, a < 64 ∧ Checker b K a := by
  constructor
  · rintro ⟨a, ha, hc, _, hatt⟩; exact ⟨a, ha, hc, hatt⟩
  · rintro ⟨a, ha, hc, hatt⟩; exact ⟨a, ha, hc, by simp, hatt⟩

/-- in check: either at least two checkers (`popcount > 1`) or exactly one (`attackers = 1 << A`). -/
theorem checkers_cases (cx : Ctx b K) (hchk : Chk b b.occ 0 K) :
    (popcount (cmAtk b K) > 1 ∧ ∃ A B, A < 64 ∧ B < 64 ∧ A ≠ B ∧ Checker b K A ∧ Checker b K B) ∨
    (∃ A, A < 64 ∧ cmAtk b K = bit A ∧ Checker b K A ∧ ∀ a, a < 64 → Checker b K a → a = A) := by
  obtain ⟨a0, ha0, hc0⟩ := Chk_iff_checker.1 hchk
  have hmem : a0 ∈ bits (cmAtk b K) := mem_bits.2 ⟨ha0, (cmAtk_get cx a0 ha0).2 hc0⟩
  have hnd := bits_nodup (cmAtk b K)
  unfold popcount
  cases hl : bits (cmAtk b K) with
  | nil => rw [hl] at hmem; exact absurd hmem (by simp)
  | cons x xs =>
    cases xs with
    | nil =>
      right
      obtain ⟨hx, he⟩ := PL.bits_singleton _ x hl
      refine ⟨x, hx, he, (cmAtk_get cx x hx).1 (by rw [he, bit_getLsbD x x hx]; simp), ?_⟩
      intro a ha hc
      have := (cmAtk_get cx a ha).2 hc
      rw [he, bit_getLsbD x a hx, decide_eq_true_eq] at this
      exact this.symm
    | cons y ys =>
      left
      refine ⟨by simp, x, y, ?_⟩
      have hx : x ∈ bits (cmAtk b K) := by rw [hl]; simp
      have hy : y ∈ bits (cmAtk b K) := by rw [hl]; simp
      obtain ⟨hx1, hx2⟩ := mem_bits.1 hx
      obtain ⟨hy1, hy2⟩ := mem_bits.1 hy
      rw [hl] at hnd
      have hne : x ≠ y := by
        intro e
        rw [List.nodup_cons] at hnd
        exact hnd.1 (by rw [e]; simp)
      exact ⟨hx1, hy1, hne, (cmAtk_get cx x hx1).1 hx2, (cmAtk_get cx y hy1).1 hy2⟩

end ChessVerif.Mate
