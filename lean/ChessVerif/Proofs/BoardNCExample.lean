/-
  Non-vacuity data for the clock-free board properties (Props/C01nc … C04nc): a board whose int8
  halfmove clock has WRAPPED to −124 (as after 132 reversible plies) — `Props.C01.pinned`
  (White Ke1 Be2, Black Re8 Kh8, White to move, the bishop pinned) with the clock overwritten.
  It is outside `Board.valid`, inside `ValidNC`, and its clock is an int8.
  Only the rule book is evaluated by the kernel (`Rules.legal`, `Rules.pseudoLegal`, `Rules.inCheck` on
  4-man positions); no bitboard `makeMove` / `inCheck` is evaluated.
-/
import ChessVerif.Proofs.BoardNC
import ChessVerif.Proofs.RepRules

namespace ChessVerif
namespace NC
namespace Example
set_option autoImplicit false
open Rules Board RepClosed Props.C01

/-- `pinned` with the clock at −124. -/
def wrapped : Board := setFifty pinned (-124)

theorem wrapped_validNC : ValidNC wrapped := (validNC_setFifty (-124)).2 (validNC_of_valid pinned_valid)
theorem wrapped_int8 : Int8Clock wrapped := ⟨by decide, by decide⟩
theorem wrapped_invalid : Board.valid wrapped = false := not_valid_of_neg (by decide)
theorem wrapped_nc : nc wrapped.abs = nc pinned.abs := rfl

def kd1 : Move := Move.mk 4 3 0     -- Ke1-d1, legal
def bd3 : Move := Move.mk 12 19 0   -- Be2-d3, pseudo-legal but illegal (pinned)
def kg8 : Move := Move.mk 63 62 0   -- …Kh8-g8

set_option maxRecDepth 100000

theorem kd1_legal_pinned : legal pinned.abs (decodeMove kd1) = true := by decide +kernel
theorem bd3_pseudo_pinned : pseudoLegal pinned.abs (decodeMove bd3) = true := by decide +kernel
theorem bd3_illegal_pinned : legal pinned.abs (decodeMove bd3) = false := by decide +kernel
theorem pinned_not_in_check : Rules.inCheck pinned.abs pinned.abs.turn = false := by decide +kernel

theorem kd1_legal : legal wrapped.abs (decodeMove kd1) = true := by
  rw [legal_congr wrapped_nc]; exact kd1_legal_pinned

theorem kd1_playable (K : Keys) : kd1 ∈ MoveGen.playable K wrapped :=
  (playable_iff K wrapped_validNC kd1).2 ⟨by decide, kd1_legal, by decide⟩

theorem bd3_gen : bd3 ∈ MoveGen.gen wrapped :=
  (gen_iff_pseudoLegal wrapped wrapped_validNC bd3).2
    ⟨by decide, by rw [pseudoLegal_congr wrapped_nc]; exact bd3_pseudo_pinned, by decide⟩

theorem bd3_not_playable (K : Keys) : bd3 ∉ MoveGen.playable K wrapped := fun h => by
  have := ((playable_iff K wrapped_validNC bd3).1 h).2.1
  rw [legal_congr wrapped_nc, bd3_illegal_pinned] at this
  cases this

/-- the reply …Kh8-g8 is pseudo-legal in the rule-book successor of Ke1-d1 (evaluated with the cheap
    `applyFast`: no double push, no enumeration of legal moves). -/
theorem kg8_pseudo : pseudoLegal (Rules.apply pinned.abs (decodeMove kd1)) (decodeMove kg8) = true := by
  rw [apply_eq_fast]; decide +kernel

theorem kg8_gen (K : Keys) : kg8 ∈ MoveGen.gen (wrapped.makeMove K kd1).1 := by
  have hv' := validNC_make K wrapped_validNC (kd1_playable K)
  refine (gen_iff_pseudoLegal _ hv' kg8).2 ⟨by decide, ?_, by decide⟩
  have h := make_refines_nc K wrapped_validNC (EpTarget.playable_gen (kd1_playable K))
  rw [pseudoLegal_congr (h.trans (apply_congr wrapped_nc _))]
  exact kg8_pseudo

/-- a search line of depth 2 from the wrapped board: Ke1-d1 (legal), then …Kh8-g8 (last move). -/
theorem line2 (K : Keys) : SearchLine K wrapped [.mk kd1, .mk kg8] :=
  ⟨EpTarget.playable_gen (kd1_playable K),
    Or.inr ⟨((Playable.mem_playable K wrapped kd1).1 (kd1_playable K)).2, kg8_gen K, Or.inl rfl⟩⟩

theorem wrapped_not_in_check : wrapped.inCheck wrapped.stm = false := by
  rw [Bridge.inCheck_iff (wf_of_validNC wrapped_validNC)]
  exact pinned_not_in_check

/-- a null move followed by the (illegal, at once undone) bishop move is NOT a line — but a null move
    alone, and the illegal bishop move alone, are. -/
theorem lineNull (K : Keys) : SearchLine K wrapped [.null] := ⟨wrapped_not_in_check, trivial⟩
theorem lineIllegal (K : Keys) : SearchLine K wrapped [.mk bd3] := ⟨bd3_gen, Or.inl rfl⟩

/-- the same position with the clock at 127. -/
def at127 : Board := setFifty pinned 127
theorem at127_validNC : ValidNC at127 := (validNC_setFifty 127).2 (validNC_of_valid pinned_valid)
theorem at127_nc : nc at127.abs = nc pinned.abs := rfl
theorem at127_playable (K : Keys) : kd1 ∈ MoveGen.playable K at127 :=
  (playable_iff K at127_validNC kd1).2
    ⟨by decide, by rw [legal_congr at127_nc]; exact kd1_legal_pinned, by decide⟩

set_option maxRecDepth 100000 in
/-- the rule book's clock after the quiet king move is 128 … -/
theorem at127_rule_clock : (Rules.apply at127.abs (decodeMove kd1)).halfmove = 128 := by
  rw [Rules.apply_eq_fast]; decide +kernel

theorem gen_resetHash (K : Keys) (b : Board) : MoveGen.gen (resetHash K b) = MoveGen.gen b := rfl
theorem gen_reset300 (K : Keys) (b : Board) : MoveGen.gen (setFifty (resetHash K b) 300) = MoveGen.gen b := rfl

end Example
end NC
end ChessVerif
