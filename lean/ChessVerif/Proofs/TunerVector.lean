/-
  Lemmas about the reflection walkers of vector.go (Model/TunerVector.lean): flatten / setFloats /
  paths over arbitrary value trees, then over whole structs.
-/
import ChessVerif.Model.TunerVector

namespace ChessVerif.TunerVector

variable {α : Type}

/-! ### well-formed values: no zero-length arrays -/

mutual
/-- no array of length zero anywhere in the value (then every value has at least one leaf). -/
def Tree.NoEmpty : Tree α → Prop
  | .leaf _ => True
  | .node ks => ks ≠ [] ∧ NoEmptyList ks
def NoEmptyList : List (Tree α) → Prop
  | [] => True
  | t :: ts => t.NoEmpty ∧ NoEmptyList ts
end

mutual
/-- same type: same array lengths everywhere. -/
def Tree.SameShape : Tree α → Tree α → Prop
  | .leaf _, .leaf _ => True
  | .node ks, .node ks' => SameShapeList ks ks'
  | _, _ => False
def SameShapeList : List (Tree α) → List (Tree α) → Prop
  | [], [] => True
  | t :: ts, t' :: ts' => t.SameShape t' ∧ SameShapeList ts ts'
  | _, _ => False
end

/-! ### sizes -/

mutual
theorem Tree.length_le_size (t : Tree α) (h : t.NoEmpty) : 1 ≤ t.flatten.length := by
  cases t with
  | leaf x => simp [Tree.flatten]
  | node ks =>
    simp only [Tree.NoEmpty] at h
    have := kids_le_size ks h.2
    simp only [Tree.flatten]
    have hl : 0 < ks.length := List.length_pos_iff.mpr h.1
    omega
theorem kids_le_size (ks : List (Tree α)) (h : NoEmptyList ks) : ks.length ≤ (flattenList ks).length := by
  cases ks with
  | nil => simp
  | cons t ts =>
    simp only [NoEmptyList] at h
    have h1 := Tree.length_le_size t h.1
    have h2 := kids_le_size ts h.2
    simp only [flattenList, List.length_cons, List.length_append]
    omega
end

/-! ### SetVector ∘ ToVector -/

mutual
theorem Tree.setFloats_flatten (t : Tree α) (h : t.NoEmpty) (rest : List α) :
    t.setFloats (t.flatten ++ rest) = some (t, t.flatten.length) := by
  cases t with
  | leaf x => simp [Tree.flatten, Tree.setFloats]
  | node ks =>
    simp only [Tree.NoEmpty] at h
    have hle := kids_le_size ks h.2
    have := setFloatsList_flatten ks h.2 rest
    simp only [Tree.flatten, Tree.setFloats, this, List.length_append]
    rw [if_neg (by omega)]
theorem setFloatsList_flatten (ks : List (Tree α)) (h : NoEmptyList ks) (rest : List α) :
    setFloatsList ks (flattenList ks ++ rest) = some (ks, (flattenList ks).length) := by
  cases ks with
  | nil => simp [setFloatsList, flattenList]
  | cons t ts =>
    simp only [NoEmptyList] at h
    have h1 := Tree.setFloats_flatten t h.1 (flattenList ts ++ rest)
    have h2 := setFloatsList_flatten ts h.2 rest
    simp only [flattenList, setFloatsList, List.append_assoc, h1, List.drop_left, h2, List.length_append]
end

theorem toVector_eq (e : Rep α) (targets : List String) :
    toVector e targets =
      e.foldl (fun data (x : String × Tree α) => if selected targets x.1 then data ++ x.2.flatten else data) [] := rfl

theorem toVector_foldl (e : Rep α) (targets : List String) (acc : List α) :
    e.foldl (fun data (x : String × Tree α) => if selected targets x.1 then data ++ x.2.flatten else data) acc
      = acc ++ toVector e targets := by
  rw [toVector_eq]
  induction e generalizing acc with
  | nil => simp
  | cons x e ih =>
    simp only [List.foldl_cons]
    rw [ih, ih (if selected targets x.1 then [] ++ x.2.flatten else [])]
    by_cases hs : selected targets x.1 <;> simp [hs]

theorem toVector_cons (n : String) (t : Tree α) (e : Rep α) (targets : List String) :
    toVector ((n, t) :: e) targets =
      (if selected targets n then t.flatten else []) ++ toVector e targets := by
  rw [toVector_eq, List.foldl_cons, toVector_foldl]
  by_cases hs : selected targets n <;> simp [hs]

/-- every field value without zero-length arrays. -/
def RepNoEmpty (e : Rep α) : Prop := ∀ x ∈ e, x.2.NoEmpty

theorem setVector_toVector_append (e : Rep α) (h : RepNoEmpty e) (targets : List String) (rest : List α) :
    setVector e (toVector e targets ++ rest) targets = some e := by
  induction e generalizing rest with
  | nil => simp [setVector]
  | cons x e ih =>
    obtain ⟨n, t⟩ := x
    have ht : t.NoEmpty := h (n, t) (by simp)
    have he : RepNoEmpty e := fun y hy => h y (by simp [hy])
    rw [toVector_cons]
    by_cases hs : selected targets n
    · simp only [hs, if_true, setVector, List.append_assoc]
      rw [Tree.setFloats_flatten t ht]
      simp only [List.drop_left]
      rw [ih he]
    · simp [hs, setVector, ih he]

/-! ### ToVector ∘ SetVector -/

mutual
theorem Tree.setFloats_spec (t t' : Tree α) (fs : List α) (r : Nat) (h : t.setFloats fs = some (t', r)) :
    t'.flatten = fs.take r ∧ r = t.flatten.length ∧ r ≤ fs.length ∧ t.SameShape t' := by
  cases t with
  | leaf x =>
    cases fs with
    | nil => simp [Tree.setFloats] at h
    | cons f fs =>
      simp only [Tree.setFloats, Option.some.injEq, Prod.mk.injEq] at h
      obtain ⟨rfl, rfl⟩ := h
      simp [Tree.flatten, Tree.SameShape]
  | node ks =>
    simp only [Tree.setFloats] at h
    by_cases hlen : ks.length > fs.length
    · simp [hlen] at h
    · rw [if_neg hlen] at h
      cases hl : setFloatsList ks fs with
      | none => simp [hl] at h
      | some pr =>
        obtain ⟨ks', used⟩ := pr
        simp only [hl, Option.some.injEq, Prod.mk.injEq] at h
        obtain ⟨rfl, rfl⟩ := h
        have := setFloatsList_spec ks ks' fs used hl
        simpa [Tree.flatten, Tree.SameShape] using this
theorem setFloatsList_spec (ks ks' : List (Tree α)) (fs : List α) (r : Nat)
    (h : setFloatsList ks fs = some (ks', r)) :
    flattenList ks' = fs.take r ∧ r = (flattenList ks).length ∧ r ≤ fs.length ∧ SameShapeList ks ks' := by
  cases ks with
  | nil =>
    simp only [setFloatsList, Option.some.injEq, Prod.mk.injEq] at h
    obtain ⟨rfl, rfl⟩ := h
    simp [flattenList, SameShapeList]
  | cons t ts =>
    simp only [setFloatsList] at h
    split at h
    · simp at h
    · rename_i t' r1 h1
      split at h
      · simp at h
      · rename_i ts' used h2
        simp only [Option.some.injEq, Prod.mk.injEq] at h
        obtain ⟨rfl, rfl⟩ := h
        obtain ⟨a1, a2, a3, a4⟩ := Tree.setFloats_spec t t' fs r1 h1
        obtain ⟨b1, b2, b3, b4⟩ := setFloatsList_spec ts ts' (fs.drop r1) used h2
        refine ⟨?_, ?_, ?_, ?_⟩
        · simp only [flattenList, a1, b1]
          rw [List.take_add]
        · simp only [flattenList, List.length_append]; omega
        · simp only [List.length_drop] at b3; omega
        · exact ⟨a4, b4⟩
end

/-- field names and value types agree. -/
def RepSameShape : Rep α → Rep α → Prop
  | [], [] => True
  | (n, t) :: e, (n', t') :: e' => n = n' ∧ t.SameShape t' ∧ RepSameShape e e'
  | _, _ => False

/-- the fields not selected are untouched. -/
def RepUnselectedEq (targets : List String) : Rep α → Rep α → Prop
  | [], [] => True
  | (n, t) :: e, (_, t') :: e' => (selected targets n = false → t = t') ∧ RepUnselectedEq targets e e'
  | _, _ => False

mutual
theorem Tree.sameShape_refl (t : Tree α) : t.SameShape t := by
  cases t with
  | leaf x => simp [Tree.SameShape]
  | node ks => simpa [Tree.SameShape] using sameShapeList_refl ks
theorem sameShapeList_refl (ks : List (Tree α)) : SameShapeList ks ks := by
  cases ks with
  | nil => simp [SameShapeList]
  | cons t ts => exact ⟨Tree.sameShape_refl t, sameShapeList_refl ts⟩
end

theorem setVector_spec (e e' : Rep α) (v : List α) (targets : List String)
    (h : setVector e v targets = some e') :
    toVector e' targets = v.take (paramCount e targets) ∧ paramCount e targets ≤ v.length ∧
      RepSameShape e e' ∧ RepUnselectedEq targets e e' := by
  induction e generalizing v e' with
  | nil =>
    simp only [setVector, Option.some.injEq] at h
    subst h
    simp [toVector, paramCount, RepSameShape, RepUnselectedEq]
  | cons x e ih =>
    obtain ⟨n, t⟩ := x
    simp only [setVector] at h
    by_cases hs : selected targets n
    · rw [if_pos hs] at h
      cases h1 : t.setFloats v with
      | none => simp [h1] at h
      | some pr =>
        obtain ⟨t', used⟩ := pr
        simp only [h1] at h
        cases h2 : setVector e (v.drop used) targets with
        | none => simp [h2] at h
        | some rest' =>
          simp only [h2, Option.some.injEq] at h
          subst h
          obtain ⟨a1, a2, a3, a4⟩ := Tree.setFloats_spec t t' v used h1
          obtain ⟨b1, b2, b3, b4⟩ := ih rest' (v.drop used) h2
          refine ⟨?_, ?_, ⟨rfl, a4, b3⟩, ⟨by simp [hs], b4⟩⟩
          · simp only [toVector_cons, hs, if_true, paramCount, List.length_append] at b1 ⊢
            rw [a1, b1, ← a2, List.take_add]
          · simp only [paramCount, toVector_cons, hs, if_true, List.length_append, List.length_drop] at b2 ⊢
            omega
    · rw [if_neg hs] at h
      cases h2 : setVector e v targets with
      | none => simp [h2] at h
      | some rest' =>
        simp only [h2, Option.some.injEq] at h
        subst h
        obtain ⟨b1, b2, b3, b4⟩ := ih rest' v h2
        refine ⟨?_, ?_, ⟨rfl, Tree.sameShape_refl t, b3⟩, ⟨fun _ => rfl, b4⟩⟩
        · simpa [toVector_cons, hs, paramCount] using b1
        · simpa [paramCount, toVector_cons, hs] using b2

/-! ### SetVector succeeds on a vector that is long enough -/

mutual
theorem Tree.setFloats_isSome (t : Tree α) (h : t.NoEmpty) (fs : List α) (hl : t.flatten.length ≤ fs.length) :
    ∃ t', t.setFloats fs = some (t', t.flatten.length) := by
  cases t with
  | leaf x =>
    cases fs with
    | nil => simp [Tree.flatten] at hl
    | cons f fs => exact ⟨.leaf f, by simp [Tree.setFloats, Tree.flatten]⟩
  | node ks =>
    simp only [Tree.NoEmpty] at h
    simp only [Tree.flatten] at hl ⊢
    have hle := kids_le_size ks h.2
    obtain ⟨ks', hk⟩ := setFloatsList_isSome ks h.2 fs hl
    refine ⟨.node ks', ?_⟩
    simp only [Tree.setFloats, hk]
    rw [if_neg (by omega)]
theorem setFloatsList_isSome (ks : List (Tree α)) (h : NoEmptyList ks) (fs : List α)
    (hl : (flattenList ks).length ≤ fs.length) :
    ∃ ks', setFloatsList ks fs = some (ks', (flattenList ks).length) := by
  cases ks with
  | nil => exact ⟨[], by simp [setFloatsList, flattenList]⟩
  | cons t ts =>
    simp only [NoEmptyList] at h
    simp only [flattenList, List.length_append] at hl ⊢
    obtain ⟨t', h1⟩ := Tree.setFloats_isSome t h.1 fs (by omega)
    obtain ⟨ts', h2⟩ := setFloatsList_isSome ts h.2 (fs.drop t.flatten.length) (by simp only [List.length_drop]; omega)
    exact ⟨t' :: ts', by simp [setFloatsList, h1, h2]⟩
end

theorem setVector_isSome (e : Rep α) (h : RepNoEmpty e) (targets : List String) (v : List α)
    (hl : paramCount e targets ≤ v.length) : ∃ e', setVector e v targets = some e' := by
  induction e generalizing v with
  | nil => exact ⟨[], by simp [setVector]⟩
  | cons x e ih =>
    obtain ⟨n, t⟩ := x
    have ht : t.NoEmpty := h (n, t) (by simp)
    have he : RepNoEmpty e := fun y hy => h y (by simp [hy])
    simp only [paramCount, toVector_cons] at hl
    by_cases hs : selected targets n
    · simp only [hs, if_true, List.length_append] at hl
      obtain ⟨t', h1⟩ := Tree.setFloats_isSome t ht v (by omega)
      obtain ⟨e', h2⟩ := ih he (v.drop t.flatten.length) (by simp only [paramCount, List.length_drop]; omega)
      exact ⟨(n, t') :: e', by simp [setVector, hs, h1, h2]⟩
    · simp only [hs] at hl
      obtain ⟨e', h2⟩ := ih he v (by simpa [paramCount] using hl)
      exact ⟨(n, t) :: e', by simp [setVector, hs, h2]⟩

/-! ### TunedParams -/

mutual
theorem Tree.paths_getAt (t : Tree α) : t.paths.map t.getAt = t.flatten.map some := by
  cases t with
  | leaf x => simp [Tree.paths, Tree.getAt, Tree.flatten]
  | node ks =>
    have := pathsList_getAt ks []
    simpa [Tree.paths, Tree.flatten] using this
theorem pathsList_getAt (ks front : List (Tree α)) :
    (pathsList ks front.length).map (Tree.getAt (.node (front ++ ks))) = (flattenList ks).map some := by
  cases ks with
  | nil => simp [pathsList, flattenList]
  | cons t ts =>
    have h1 := Tree.paths_getAt t
    have h2 := pathsList_getAt ts (front ++ [t])
    simp only [List.length_append, List.length_cons, List.length_nil, Nat.zero_add, List.append_assoc,
      List.cons_append, List.nil_append] at h2
    simp only [pathsList, flattenList, List.map_append, List.map_map, h2]
    congr 1
    rw [← h1]
    apply List.map_congr_left
    intro p _
    simp [Tree.getAt]
end

theorem tunedCells_getCell_aux (e front : Rep α) (targets : List String) :
    ((e.zipIdx front.length).flatMap fun ((n, t), fi) =>
        if selected targets n then t.paths.map fun p => (fi, p) else []).map (getCell (front ++ e))
      = (toVector e targets).map some := by
  induction e generalizing front with
  | nil => simp [toVector]
  | cons x e ih =>
    obtain ⟨n, t⟩ := x
    have h2 := ih (front ++ [(n, t)])
    simp only [List.length_append, List.length_cons, List.length_nil, Nat.zero_add, List.append_assoc,
      List.cons_append, List.nil_append] at h2
    simp only [List.zipIdx_cons, List.flatMap_cons, List.map_append, toVector_cons, h2]
    congr 1
    by_cases hs : selected targets n
    · simp only [hs, if_true, List.map_map]
      rw [← Tree.paths_getAt]
      apply List.map_congr_left
      intro p _
      simp [getCell]
    · simp [hs]

/-- reading through the yielded pointers, in order, gives exactly the vector `ToVector` builds. -/
theorem tunedCells_getCell (e : Rep α) (targets : List String) :
    (tunedCells e targets).map (getCell e) = (toVector e targets).map some := by
  have := tunedCells_getCell_aux e [] targets
  simpa [tunedCells] using this

/-! ### the concrete struct of the regenerated shape has no zero-length arrays -/

theorem noEmptyList_iff (ks : List (Tree α)) : NoEmptyList ks ↔ ∀ t ∈ ks, t.NoEmpty := by
  induction ks with
  | nil => simp [NoEmptyList]
  | cons t ts ih => simp [NoEmptyList, ih]

theorem chunks_length (sz k : Nat) (l : List α) : (chunks sz k l).length = k := by
  induction k generalizing l with
  | zero => simp [chunks]
  | succ k ih => simp [chunks, ih]

theorem ofDims_noEmpty (z : α) (dims : List Nat) (h : ∀ d ∈ dims, 1 ≤ d) (flat : List α) :
    (ofDims z dims flat).NoEmpty := by
  induction dims generalizing flat with
  | nil => simp [ofDims, Tree.NoEmpty]
  | cons d ds ih =>
    have hd : 1 ≤ d := h d (by simp)
    have hds : ∀ d ∈ ds, 1 ≤ d := fun x hx => h x (by simp [hx])
    simp only [ofDims, Tree.NoEmpty]
    refine ⟨?_, ?_⟩
    · intro hnil
      have := congrArg List.length hnil
      simp only [List.length_map, chunks_length, List.length_nil] at this
      omega
    · rw [noEmptyList_iff]
      intro t ht
      simp only [List.mem_map] at ht
      obtain ⟨c, _, rfl⟩ := ht
      exact ih hds c

theorem ofShape_noEmpty (z : α) (shape : List (String × List Nat)) (h : ∀ x ∈ shape, ∀ d ∈ x.2, 1 ≤ d)
    (vals : String → List α) : RepNoEmpty (ofShape z shape vals) := by
  intro x hx
  simp only [ofShape, List.mem_map] at hx
  obtain ⟨y, hy, rfl⟩ := hx
  exact ofDims_noEmpty z y.2 (h y hy) _

/-- every array dimension of the regenerated `eval.CoeffSet` is at least 1. -/
theorem shape_dims_pos : ∀ x ∈ Gen.Eval.shape, ∀ d ∈ x.2, 1 ≤ d := by decide

end ChessVerif.TunerVector
