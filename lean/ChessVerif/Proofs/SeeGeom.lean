/-
  C18 geometry, conclusion: for a well-formed board and a move whose origin square is occupied
  (every legal move), the capture sequence that heur.SEE walks with its incrementally maintained
  attacker set is the specification's from-scratch sequence — `AttackersIncremental b m`.
-/
import ChessVerif.Proofs.SeeLoop
import ChessVerif.Proofs.SeeIncr
import ChessVerif.Proofs.SeeBridge
import ChessVerif.Proofs.SeeLegal

namespace ChessVerif.Proofs.SeeGeom
open ChessVerif See SeeSpec ChessVerif.Proofs.SeeRays ChessVerif.Proofs.SeeIncr ChessVerif.Proofs.SeeBridge
  ChessVerif.Proofs.SeeLoop
set_option autoImplicit false

/-- `occ ^ fromBB` vacates the origin exactly when the origin is occupied. -/
theorem xor_bit_eq (x : BB) (s : Nat) (hs : s < 64) (h : x.getLsbD s = true) : x ^^^ bit s = x &&& ~~~ bit s := by
  apply BitVec.eq_of_getLsbD_eq
  intro i hi
  simp only [BitVec.getLsbD_xor, BitVec.getLsbD_and, BitVec.getLsbD_not, hi, decide_true, Bool.true_and,
    bit_getLsbD s i hs]
  by_cases e : s = i
  · subst e; simp [h]
  · simp [e]

/-- the occupancy the loop starts from is the specification's. -/
theorem occ0_eq (b : Board) (m : Move) (h : b.occ.getLsbD (Move.src m) = true) : See.occ0 b m = SeeSpec.occ0 b m := by
  unfold See.occ0 SeeSpec.occ0
  have e : b.colorBB .white ||| b.colorBB .black = b.occ := rfl
  rw [e, xor_bit_eq b.occ (Move.src m) (by unfold Move.src; omega) h]

/-- **The geometric half of C18.** -/
theorem attackersIncremental {b : Board} (hwf : b.wf = true) (m : Move) (hsrc : b.occ.getLsbD (Move.src m) = true) :
    AttackersIncremental b m := by
  unfold AttackersIncremental
  rw [capsOf_eq_capsBB hwf m, occ0_eq b m hsrc]
  unfold SeeSpec.capsOf
  rw [caps_bridge hwf (Move.dst m) (by unfold Move.dst; omega)]
  rfl

/-- the origin square of a legal move is occupied. -/
theorem legal_src_occupied {b : Board} {m : Move} (h : Rules.legal b.abs (decodeMove m) = true) :
    b.occ.getLsbD (Move.src m) = true := by
  unfold Rules.legal at h
  simp only [Bool.and_eq_true] at h
  have hp := h.1
  unfold Rules.pseudoLegal at hp
  simp only [Bool.and_eq_true] at hp
  cases hat : (b.abs).at_ (decodeMove m).src with
  | none => rw [hat] at hp; simp at hp
  | some ck =>
    have he : (b.abs).empty (Move.src m) = false := by
      unfold Rules.Pos.empty
      have : (decodeMove m).src = Move.src m := rfl
      rw [← this, hat]; rfl
    rw [Bridge.abs_empty_occ] at he
    simpa using he

end ChessVerif.Proofs.SeeGeom
