/-
  Lemmas about `Model/UciGo.lean`:
    * the index loop never leaves the slice (`loop_ne_panic`);
    * it equals a structural recursion over the remaining arguments (`loop_eq_goList`);
    * every local variable after the loop is determined by the token that follows the LAST occurrence
      of its keyword (`goList_field`, `lastAfter`), the loop stops with "argument missing" iff the
      last token is one of the seven value keywords (`goList_none_iff`);
    * `parseInt` results are int64 values, `Depth(Clamp(·, 1, MaxPlies))` lies in [1, MaxPlies].
  Core Lean only.
-/
import ChessVerif.Model.UciGo

namespace ChessVerif
namespace UciGo

open ChessVerif.Gen.Funcs

/-! ## numbers -/

theorem atoi64_range (s : String) : -9223372036854775808 ≤ atoi64 s ∧ atoi64 s ≤ 9223372036854775807 := by
  unfold atoi64
  simp only []
  split
  · omega
  · split <;> split <;> omega

theorem depthOf_range (v : String) : 1 ≤ depthOf v ∧ depthOf v ≤ MaxPlies := by
  unfold depthOf clampS64 MaxPlies wrapS8
  omega

/-- the int8 conversion is the identity on the clamped value (no wrap). -/
theorem depthOf_eq (v : String) : depthOf v = min 64 (max (parseInt v) 1) := by
  unfold depthOf clampS64 MaxPlies wrapS8
  omega

/-! ## no index leaves the slice -/

theorem body_isSome (p : Bool) (args : List String) (i : Nat) (a : String) (st : St)
    (h : needsValue.contains a = true → i + 1 < args.length) : (body p args i a st).isSome = true := by
  unfold body
  repeat' split
  all_goals first
    | rfl
    | (rename_i ha; subst ha
       have hi : i + 1 < args.length := h (by decide)
       simp [withValue, List.getElem?_eq_getElem hi])

theorem loop_ne_panic (p : Bool) (args : List String) :
    ∀ (fuel i : Nat) (st : St), i + fuel = args.length → loop p args fuel i st ≠ .panic := by
  intro fuel
  induction fuel with
  | zero => intro i st _; simp [loop]
  | succ n ih =>
    intro i st hlen
    have hi : i < args.length := by omega
    unfold loop
    rw [List.getElem?_eq_getElem hi]
    simp only []
    split
    · simp
    · rename_i hg
      have hb := body_isSome p args i args[i] st (by
        intro hc
        rcases Nat.lt_or_ge (i + 1) args.length with h | h
        · exact h
        · exfalso; apply hg
          have : decide (args.length ≤ i + 1) = true := decide_eq_true h
          rw [hc, this]; rfl)
      cases hbd : body p args i args[i] st with
      | none => simp [hbd] at hb
      | some st' => simp only []; exact ih (i + 1) st' (by omega)

/-! ## the loop as a recursion over the remaining arguments -/

/-- the `switch` with the value token `v` at hand. -/
def upd (p : Bool) (a v : String) (st : St) : St :=
  if a = "ponder" then { st with ponder := p }
  else if a = "wtime" then { st with wtime := parseInt64 v }
  else if a = "btime" then { st with btime := parseInt64 v }
  else if a = "winc" then { st with winc := parseInt64 v }
  else if a = "binc" then { st with binc := parseInt64 v }
  else if a = "depth" then { st with depth := some (depthOf v) }
  else if a = "nodes" then { st with nodes := some (parseInt v) }
  else if a = "movetime" then { st with mtime := parseInt64 v }
  else st

/-- `none` = "argument missing". -/
def goList (p : Bool) : List String → St → Option St
  | [], st => some st
  | a :: rest, st =>
    if needsValue.contains a && rest.isEmpty then none
    else goList p rest (upd p a (rest.headD "") st)

theorem body_eq_upd (p : Bool) (args : List String) (i : Nat) (a v : String) (st : St)
    (hv : args[i+1]? = some v) : body p args i a st = some (upd p a v st) := by
  unfold body upd
  repeat' split
  all_goals simp [withValue, hv]

theorem body_eq_upd_other (p : Bool) (args : List String) (i : Nat) (a v : String) (st : St)
    (hk : needsValue.contains a = false) : body p args i a st = some (upd p a v st) := by
  unfold body upd
  repeat' split
  all_goals first
    | rfl
    | (rename_i ha; subst ha; exact absurd hk (by decide))

theorem loop_succ (p args n i st) : loop p args (n+1) i st =
    match args[i]? with
    | none => .panic
    | some a =>
      if needsValue.contains a && decide (args.length ≤ i + 1) then .missing
      else
        match body p args i a st with
        | none => .panic
        | some st' => loop p args n (i + 1) st' := rfl

theorem loop_eq_goList (p : Bool) :
    ∀ (suf pre : List String) (st : St),
      loop p (pre ++ suf) suf.length pre.length st =
        match goList p suf st with
        | none => .missing
        | some s => .done s := by
  intro suf
  induction suf with
  | nil => intro pre st; simp [loop, goList]
  | cons a rest ih =>
    intro pre st
    have h0 : (pre ++ a :: rest)[pre.length]? = some a := by simp
    have hlen : decide ((pre ++ a :: rest).length ≤ pre.length + 1) = rest.isEmpty := by
      cases rest <;> simp
    rw [List.length_cons, loop_succ, h0, goList, hlen]
    simp only []
    cases hg : (needsValue.contains a && rest.isEmpty)
    · have hb : body p (pre ++ a :: rest) pre.length a st = some (upd p a (rest.headD "") st) := by
        cases rest with
        | nil =>
          apply body_eq_upd_other
          simpa using hg
        | cons v r =>
          apply body_eq_upd
          simp
      simp only [Bool.false_eq_true, if_false, hb]
      have := ih (pre ++ [a]) (upd p a (rest.headD "") st)
      simpa [List.append_assoc] using this
    · simp

theorem loop_all_eq (p : Bool) (args : List String) :
    loop p args args.length 0 {} =
      match goList p args {} with
      | none => .missing
      | some s => .done s := by
  simpa using loop_eq_goList p args [] {}

/-! ## "argument missing" -/

theorem goList_none_iff (p : Bool) : ∀ (suf : List String) (st : St),
    goList p suf st = none ↔ (suf.getLast?.any needsValue.contains = true) := by
  intro suf
  induction suf with
  | nil => intro st; simp [goList]
  | cons a rest ih =>
    intro st
    rw [goList]
    cases rest with
    | nil => simp [goList]
    | cons b r =>
      simp only [List.isEmpty_cons, Bool.and_false, Bool.false_eq_true, if_false]
      rw [ih]
      simp [List.getLast?_cons_cons]

/-! ## the value of a local variable: the token after the last occurrence of its keyword -/

/-- the token that follows the last occurrence of `kw` (`none`: `kw` does not occur, or only as the
    very last token). -/
def lastAfter (kw : String) : List String → Option String
  | [] => none
  | a :: rest =>
    match lastAfter kw rest with
    | some v => some v
    | none => if a = kw then rest.head? else none

/-- generic: a variable read through `g`, written only by keyword `kw` (a value keyword) as `f v`. -/
theorem goList_field {α : Type} (p : Bool) (kw : String) (hkw : needsValue.contains kw = true)
    (g : St → α) (f : String → α)
    (hupd : ∀ a v st, g (upd p a v st) = if a = kw then f v else g st) :
    ∀ (suf : List String) (st st' : St), goList p suf st = some st' →
      g st' = match lastAfter kw suf with
              | some v => f v
              | none => g st := by
  intro suf
  induction suf with
  | nil => intro st st' h; simp [goList] at h; simp [lastAfter, h]
  | cons a rest ih =>
    intro st st' h
    unfold goList at h
    split at h
    · exact absurd h (by simp)
    · rename_i hg
      have := ih _ _ h
      rw [this]
      have hl' : lastAfter kw (a :: rest) =
          match lastAfter kw rest with
          | some v => some v
          | none => if a = kw then rest.head? else none := rfl
      rw [hl']
      cases hl : lastAfter kw rest with
      | some v => rfl
      | none =>
        simp only [hupd]
        by_cases ha : a = kw
        · subst ha
          cases rest with
          | nil => exfalso; apply hg; rw [hkw]; rfl
          | cons v r => simp
        · simp [ha]

theorem goList_ponder (p : Bool) : ∀ (suf : List String) (st st' : St), goList p suf st = some st' →
    st'.ponder = if "ponder" ∈ suf then p else st.ponder := by
  intro suf
  induction suf with
  | nil => intro st st' h; simp [goList] at h; simp [h]
  | cons a rest ih =>
    intro st st' h
    unfold goList at h
    split at h
    · exact absurd h (by simp)
    · rw [ih _ _ h]
      by_cases hr : "ponder" ∈ rest
      · simp [hr]
      · by_cases ha : a = "ponder"
        · subst ha; simp [upd]
        · have : ¬ "ponder" = a := fun e => ha e.symm
          simp only [hr, List.mem_cons, this, false_or, if_false]
          unfold upd
          repeat' split
          all_goals first | rfl | contradiction

/-! field lemmas of `upd` -/

theorem upd_wtime (p a v st) : (upd p a v st).wtime = if a = "wtime" then parseInt64 v else st.wtime := by
  unfold upd; repeat' split
  all_goals first | rfl | (subst_vars; simp_all)
theorem upd_btime (p a v st) : (upd p a v st).btime = if a = "btime" then parseInt64 v else st.btime := by
  unfold upd; repeat' split
  all_goals first | rfl | (subst_vars; simp_all)
theorem upd_winc (p a v st) : (upd p a v st).winc = if a = "winc" then parseInt64 v else st.winc := by
  unfold upd; repeat' split
  all_goals first | rfl | (subst_vars; simp_all)
theorem upd_binc (p a v st) : (upd p a v st).binc = if a = "binc" then parseInt64 v else st.binc := by
  unfold upd; repeat' split
  all_goals first | rfl | (subst_vars; simp_all)
theorem upd_mtime (p a v st) : (upd p a v st).mtime = if a = "movetime" then parseInt64 v else st.mtime := by
  unfold upd; repeat' split
  all_goals first | rfl | (subst_vars; simp_all)
theorem upd_depth (p a v st) : (upd p a v st).depth = if a = "depth" then some (depthOf v) else st.depth := by
  unfold upd; repeat' split
  all_goals first | rfl | (subst_vars; simp_all)
theorem upd_nodes (p a v st) : (upd p a v st).nodes = if a = "nodes" then some (parseInt v) else st.nodes := by
  unfold upd; repeat' split
  all_goals first | rfl | (subst_vars; simp_all)

/-- The complete description of the loop's result. -/
structure LoopSpec (p : Bool) (args : List String) (st : St) : Prop where
  ponder : st.ponder = (if "ponder" ∈ args then p else false)
  wtime : st.wtime = ((lastAfter "wtime" args).map parseInt64).getD 0
  btime : st.btime = ((lastAfter "btime" args).map parseInt64).getD 0
  winc : st.winc = ((lastAfter "winc" args).map parseInt64).getD 0
  binc : st.binc = ((lastAfter "binc" args).map parseInt64).getD 0
  mtime : st.mtime = ((lastAfter "movetime" args).map parseInt64).getD 0
  depth : st.depth = (lastAfter "depth" args).map depthOf
  nodes : st.nodes = (lastAfter "nodes" args).map parseInt

theorem goList_spec (p : Bool) (args : List String) (st : St) (h : goList p args {} = some st) :
    LoopSpec p args st := by
  refine ⟨?_, ?_, ?_, ?_, ?_, ?_, ?_, ?_⟩
  · simpa using goList_ponder p args {} st h
  · have := goList_field p "wtime" (by decide) (·.wtime) parseInt64 (upd_wtime p) args {} st h
    rw [this]; cases lastAfter "wtime" args <;> rfl
  · have := goList_field p "btime" (by decide) (·.btime) parseInt64 (upd_btime p) args {} st h
    rw [this]; cases lastAfter "btime" args <;> rfl
  · have := goList_field p "winc" (by decide) (·.winc) parseInt64 (upd_winc p) args {} st h
    rw [this]; cases lastAfter "winc" args <;> rfl
  · have := goList_field p "binc" (by decide) (·.binc) parseInt64 (upd_binc p) args {} st h
    rw [this]; cases lastAfter "binc" args <;> rfl
  · have := goList_field p "movetime" (by decide) (·.mtime) parseInt64 (upd_mtime p) args {} st h
    rw [this]; cases lastAfter "movetime" args <;> rfl
  · have := goList_field p "depth" (by decide) (·.depth) (fun v => some (depthOf v)) (upd_depth p) args {} st h
    rw [this]; cases lastAfter "depth" args <;> rfl
  · have := goList_field p "nodes" (by decide) (·.nodes) (fun v => some (parseInt v)) (upd_nodes p) args {} st h
    rw [this]; cases lastAfter "nodes" args <;> rfl

/-! ## `handleGo` -/

theorem handleGo_cases (stm : Int) (p d : Bool) (args : List String) :
    (goList p args {} = none ∧ handleGo stm p d args = .missing) ∨
    (∃ st, goList p args {} = some st ∧ handleGo stm p d args = .call {
      depth := st.depth, nodes := st.nodes,
      softTime := if timedMode st.wtime st.btime st.mtime stm then
          some (softLimit st.wtime st.btime st.winc st.binc st.mtime stm) else none,
      ponder := st.ponder, debug := d, stop := true, output := true,
      wtime := st.wtime, btime := st.btime, winc := st.winc, binc := st.binc, mtime := st.mtime }) := by
  unfold handleGo
  rw [loop_all_eq]
  cases h : goList p args {} with
  | none => left; simp
  | some st => right; exact ⟨st, rfl, rfl⟩

end UciGo
end ChessVerif
