/-
  C20, part 3: `Batches` and `Chunks` tile their index range, for any positive constants.
-/
import ChessVerif.Spec.Tuner
import Mathlib.Data.List.Basic

namespace ChessVerif.Tuner
open Spec

theorem tiles_le : ∀ (rs : List Range) (lo hi : Nat), Tiles rs lo hi → lo ≤ hi
  | [], lo, hi, h => by simp only [Tiles] at h; omega
  | r :: rs, lo, hi, h => by
      obtain ⟨h1, h2, h3⟩ := h
      have := tiles_le rs _ _ h3
      omega

theorem tiles_append : ∀ (a b : List Range) (lo mid hi : Nat),
    Tiles a lo mid → Tiles b mid hi → Tiles (a ++ b) lo hi
  | [], b, lo, mid, hi, ha, hb => by simp only [Tiles] at ha; subst ha; simpa using hb
  | r :: a, b, lo, mid, hi, ha, hb => by
      obtain ⟨h1, h2, h3⟩ := ha
      exact ⟨h1, h2, tiles_append a b _ _ _ h3 hb⟩

/-- Tiling each tile again gives a tiling. -/
theorem tiles_flatMap (g : Range → List Range) : ∀ (rs : List Range) (lo hi : Nat),
    Tiles rs lo hi → (∀ r ∈ rs, Tiles (g r) r.start r.stop) → Tiles (rs.flatMap g) lo hi
  | [], lo, hi, h, _ => by simpa [Tiles] using h
  | r :: rs, lo, hi, h, hg => by
      obtain ⟨h1, h2, h3⟩ := h
      rw [List.flatMap_cons]
      refine tiles_append _ _ lo r.stop hi ?_ ?_
      · rw [← h1]; exact hg r (by simp)
      · exact tiles_flatMap g rs _ _ h3 (fun q hq => hg q (by simp [hq]))

/-- A tiling enumerates every index of `[lo,hi)` exactly once, in order. -/
theorem tiles_indices : ∀ (rs : List Range) (lo hi : Nat), Tiles rs lo hi →
    rs.flatMap indices = List.range' lo (hi - lo)
  | [], lo, hi, h => by simp only [Tiles] at h; subst h; simp
  | r :: rs, lo, hi, h => by
      obtain ⟨h1, h2, h3⟩ := h
      have hle := tiles_le rs _ _ h3
      rw [List.flatMap_cons, tiles_indices rs _ _ h3, indices, h1] at *
      have e : hi - lo = (r.stop - lo) + (hi - r.stop) := by omega
      rw [e, ← List.range'_append_1]
      congr 2
      omega

theorem chunksLoop_nil (stop per : Nat) : ∀ fuel start, stop ≤ start → chunksLoop stop per fuel start = []
  | 0, _, _ => rfl
  | fuel + 1, start, h => by unfold chunksLoop; rw [if_neg (by omega)]

theorem chunksLoop_tiles (stop per : Nat) (hper : 0 < per) :
    ∀ fuel start, start ≤ stop → stop - start ≤ fuel →
      Tiles (chunksLoop stop per fuel start) start stop ∧
      ∀ r ∈ chunksLoop stop per fuel start, r.stop - r.start ≤ per := by
  intro fuel
  induction fuel with
  | zero =>
    intro start h1 h2
    have : start = stop := by omega
    subst this
    simp [chunksLoop, Tiles]
  | succ fuel ih =>
    intro start h1 h2
    unfold chunksLoop
    by_cases hlt : start < stop
    · rw [if_pos hlt]
      by_cases hnext : start + per < stop
      · have := ih (start + per) (by omega) (by omega)
        have hmin : min (start + per) stop = start + per := by omega
        rw [hmin]
        refine ⟨⟨rfl, by simp; omega, this.1⟩, ?_⟩
        intro r hr
        rcases List.mem_cons.1 hr with h | h
        · subst h; simp
        · exact this.2 r h
      · have hmin : min (start + per) stop = stop := by omega
        rw [hmin, chunksLoop_nil stop per fuel (start + per) (by omega)]
        refine ⟨⟨rfl, hlt, rfl⟩, ?_⟩
        intro r hr
        simp only [List.mem_singleton] at hr
        subst hr
        simp only
        omega
    · rw [if_neg hlt]
      have : start = stop := by omega
      subst this
      simp [Tiles]

theorem batchesLoop_eq_chunksLoop (n B : Nat) : ∀ fuel start,
    batchesLoop n B fuel start = chunksLoop n B fuel start := by
  intro fuel
  induction fuel with
  | zero => intro start; rfl
  | succ fuel ih =>
    intro start
    unfold batchesLoop chunksLoop
    simp only [ih]
    have : min n (min (start + B) n) = min (start + B) n := by omega
    rw [this]

/-- **batches_partition** for any positive batch size. -/
theorem batchesWith_tiles (B n : Nat) (hB : 0 < B) :
    Tiles (batchesWith B n) 0 n ∧ ∀ r ∈ batchesWith B n, r.stop - r.start ≤ B := by
  unfold batchesWith
  rw [batchesLoop_eq_chunksLoop]
  exact chunksLoop_tiles n B hB n 0 (by omega) (by omega)

/-- **chunks_partition** for any positive constants. -/
theorem chunksWith_tiles (B C : Nat) (hB : 0 < B) (hC : 0 < C) (batch : Range) (hb : batch.start ≤ batch.stop) :
    Tiles (chunksWith B C batch) batch.start batch.stop := by
  unfold chunksWith
  have hper : 0 < (B + C - 1) / C := Nat.div_pos (by omega) hC
  exact (chunksLoop_tiles batch.stop _ hper _ batch.start hb (Nat.le_refl _)).1

theorem chunksLoop_length (stop per : Nat) :
    ∀ fuel start, start ≤ stop → (chunksLoop stop per fuel start).length * per < (stop - start) + per ∨ per = 0 := by
  intro fuel
  induction fuel with
  | zero => intro start _; simp [chunksLoop]; omega
  | succ fuel ih =>
    intro start hs
    by_cases hper : per = 0
    · exact Or.inr hper
    left
    unfold chunksLoop
    by_cases hlt : start < stop
    · rw [if_pos hlt, List.length_cons, Nat.add_mul, Nat.one_mul]
      by_cases hnext : start + per < stop
      · rcases ih (start + per) (by omega) with h | h
        · omega
        · exact absurd h hper
      · rw [chunksLoop_nil stop per fuel (start + per) (by omega)]
        simp; omega
    · rw [if_neg hlt]; simp; omega

/-- A batch of at most `B` lines is split into at most `C` chunks (the meaning of `NumChunksInBatch`). -/
theorem chunksWith_length_le (B C : Nat) (hB : 0 < B) (hC : 0 < C) (batch : Range)
    (hb : batch.start ≤ batch.stop) (hlen : batch.stop - batch.start ≤ B) :
    (chunksWith B C batch).length ≤ C := by
  unfold chunksWith
  have hper : 0 < (B + C - 1) / C := Nat.div_pos (by omega) hC
  have hcover : B ≤ C * ((B + C - 1) / C) := by
    have h1 := Nat.div_add_mod (B + C - 1) C
    have h2 := Nat.mod_lt (B + C - 1) hC
    generalize C * ((B + C - 1) / C) = X at *
    omega
  rcases chunksLoop_length batch.stop ((B + C - 1) / C) (batch.stop - batch.start) batch.start hb with h | h
  · generalize (B + C - 1) / C = per at *
    generalize (chunksLoop batch.stop per (batch.stop - batch.start) batch.start).length = L at *
    have : L * per < (C + 1) * per := by rw [Nat.add_mul, Nat.one_mul]; omega
    have := Nat.lt_of_mul_lt_mul_right this
    omega
  · omega

/-- All chunks of all batches tile `[0,n)`. -/
theorem allChunks_tiles (B C n : Nat) (hB : 0 < B) (hC : 0 < C) :
    Tiles ((batchesWith B n).flatMap (chunksWith B C)) 0 n := by
  have hb := (batchesWith_tiles B n hB).1
  refine tiles_flatMap _ _ 0 n hb ?_
  intro r hr
  -- every batch is a non-empty range
  have : ∀ (rs : List Range) (lo hi : Nat), Tiles rs lo hi → ∀ r ∈ rs, r.start ≤ r.stop := by
    intro rs
    induction rs with
    | nil => intro _ _ _ r hr; simp at hr
    | cons q rs ih =>
      intro lo hi h r hr
      obtain ⟨h1, h2, h3⟩ := h
      rcases List.mem_cons.1 hr with e | e
      · subst e; omega
      · exact ih _ _ h3 r e
  exact chunksWith_tiles B C hB hC r (this _ _ _ hb r hr)

end ChessVerif.Tuner
