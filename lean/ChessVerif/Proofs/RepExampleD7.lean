/-
  C10: witness that the restriction to starts with a normalised en-passant state (`Rules.epNormal`)
  is not vacuous — the known finding D7.  Start position loaded from
  `r3k2r/2pb1ppp/2pp1q2/p7/1nP1B3/1P2P3/P2N1PPP/R2QK2R w KQkq a6 0 14` (target a6 recorded, no white
  pawn can capture there), then the moves 1829 1635 2396 2265 (a shuffle back to the start placement):
  the model's `threefold` is 1, the art. 9.2.2 count over the history is 2.  The reason: `FromFEN`
  hashes the en-passant FILE whenever a target is recorded, so the start hash differs from the hash
  of its recurrence — `HashFaithful` is false on this history although no key collides.
-/
import ChessVerif.Proofs.RepExample

namespace ChessVerif
namespace Rep
namespace Example

def d7B : Board :=
  match Fen.fromFEN testKeys "r3k2r/2pb1ppp/2pp1q2/p7/1nP1B3/1P2P3/P2N1PPP/R2QK2R w KQkq a6 0 14".toUTF8.data with
  | .ok b => b
  | _ => Board.empty

def d7Moves : List Move := [1829, 1635, 2396, 2265]

set_option maxRecDepth 100000

/-- the start is valid but its en-passant state is not normal (target without a legal capture). -/
theorem d7_not_epNormal : Rules.legalEpCaptures d7B.abs = [] ∧ d7B.abs.ep = some 40 :=
  ⟨Rules.capsNil_sound (by decide +kernel), by decide +kernel⟩

theorem d7_valid : d7B.valid = true := by decide +kernel

theorem d7_epNormal_false : Rules.epNormal d7B.abs = false := by
  unfold Rules.epNormal
  rw [d7_not_epNormal.1, d7_not_epNormal.2]
  rfl

/-- the model reports 1 … -/
theorem d7_threefold : (run testKeys d7B d7Moves).threefold = 1 := by decide +kernel

/-- … the rule-book count is 2 (the current position is the start position again). -/
theorem d7_occurrences :
    occurrences ((positions d7B.abs (d7Moves.map decodeMove)).headD d7B.abs)
      (positions d7B.abs (d7Moves.map decodeMove)) = 2 := by
  rw [positions_eq_fast, occurrences_eq_fast]
  decide +kernel

/-- the four moves are legal by the rule book. -/
theorem d7_legal : legalGame d7B.abs (d7Moves.map decodeMove) :=
  legalFromB_sound _ _ (by decide +kernel)

/-- the start hash differs from the hash of the recurrence: same position, different hashes. -/
theorem d7_hash_differs : (run testKeys d7B d7Moves).hash ≠ d7B.hash := by decide +kernel

end Example
end Rep
end ChessVerif
