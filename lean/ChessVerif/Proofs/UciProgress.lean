/-
  C13 — progress: in every state satisfying the control invariant `Inv`, unless the reader is idle
  in `Scan` waiting for the GUI (nothing buffered, stdin open), some goroutine of the driver can
  take a step, or everything has terminated.  No step of the environment (a further line, EOF, the
  timer) and no voluntary step of the search (an info line, finishing by itself) is needed; the
  two stated assumptions are built into `hStop` (the search reacts to the closed stop channel) and
  `wSink` (the sink accepts the write).
-/
import ChessVerif.Proofs.UciInv
namespace ChessVerif.Uci

/-- Some transition of the driver's own goroutines is enabled. -/
def InternalEnabled (s : State) : Prop := ∃ t : Tr, t.kind = .internal ∧ (fire t s).isSome = true

/-- The reader is idle waiting for the GUI: in `Scan` with nothing buffered and stdin open. -/
def AwaitingInput (s : State) : Prop := s.reader = .scan ∧ s.pipe = [] ∧ s.pipeEof = false

theorem reader_progress {s : State} (hr : ¬ AwaitingInput s) (hs : s.reader = .scan) : InternalEnabled s := by
  unfold AwaitingInput at hr
  cases hp : s.pipe with
  | cons c rest => exact ⟨.rScan, rfl, by simp [fire, hp, hs]⟩
  | nil =>
    cases he : s.pipeEof with
    | true => exact ⟨.rEof, rfl, by simp [fire, hp, hs, he]⟩
    | false => exact absurd ⟨hs, hp, he⟩ hr

theorem input_progress {s : State} (h : Inv s) (hr : ¬ AwaitingInput s)
    (hrecv : s.handler = .recv ∨ s.intr = .select) : InternalEnabled s := by
  have h2 := h.inClosed_iff
  cases hrd : s.reader with
  | scan => exact reader_progress hr hrd
  | closing => exact ⟨.rClose, rfl, by simp [fire, hrd, runDone] <;> (repeat' split) <;> simp⟩
  | send c =>
    have hc : s.inClosed = false := by
      cases hic : s.inClosed with
      | false => rfl
      | true => rw [h2.mp hic] at hrd; cases hrd
    cases hrecv with
    | inl hh => exact ⟨.hRecv, rfl, by simp [fire, hrd, hh, hc]⟩
    | inr hi => exact ⟨.iRecv, rfl, by simp [fire, hrd, hi, hc]⟩
  | done =>
    have hc : s.inClosed = true := h2.mpr hrd
    cases hrecv with
    | inl hh => exact ⟨.hClosed, rfl, by simp [fire, hh, hc]⟩
    | inr hi => exact ⟨.iClosed, rfl, by simp [fire, hi, hc]⟩

theorem progress {s : State} (h : Inv s) (hr : ¬ AwaitingInput s) : InternalEnabled s ∨ Terminated s := by
  have hin := input_progress h hr
  obtain ⟨h1,h2,h3,h4,h5,h6,h7,h8,h9,h10,h11,h12,h13,h14,h15⟩ := h
  have hsend : s.out = [] → s.handler ≠ .done → s.outClosed = false ∧ s.out.length < outDepth := by
    intro ho hd
    refine ⟨?_, by simp [ho, outDepth]⟩
    cases hoc : s.outClosed with
    | false => rfl
    | true => exact absurd (h3.mp hoc) hd
  -- a live interrupt goroutine that is not in `select` can always step when the buffer is empty
  have hintr : s.out = [] → s.handler ≠ .done → s.intr = .ready ∨ s.intr = .hit ∨ s.intr = .exit → InternalEnabled s := by
    intro ho hd hi
    obtain ⟨hoc, hlen⟩ := hsend ho hd
    rcases hi with hi | hi | hi
    · exact ⟨.iReady, rfl, by simp [fire, send, hi, hoc, hlen]⟩
    · have hph := (h7 (by simp [hi])).2.2
      have hb := h12 (h13 hi)
      exact ⟨.iHit, rfl, by simp [fire, hi, hph, hb]⟩
    · exact ⟨.iExit, rfl, by simp [fire, hi]; split <;> simp⟩
  have main : s.out = [] → (s.writer = .recv ∨ s.writer = .done) → InternalEnabled s ∨ Terminated s := by
    intro ho hwr
    cases hh : s.handler with
    | recv => exact Or.inl (hin (Or.inl hh))
    | emit ws =>
      obtain ⟨hoc, hlen⟩ := hsend ho (by simp [hh])
      cases ws with
      | nil => exact Or.inl ⟨.hEmitDone, rfl, by simp [fire, hh]⟩
      | cons w ws => exact Or.inl ⟨.hEmit, rfl, by simp [fire, send, hh, hoc, hlen]⟩
    | ready =>
      obtain ⟨hoc, hlen⟩ := hsend ho (by simp [hh])
      exact Or.inl ⟨.hReady, rfl, by simp [fire, send, hh, hoc, hlen]⟩
    | search =>
      cases hsc : s.stopClosed with
      | true => exact Or.inl ⟨.hStop, rfl, by simp [fire, hh, hsc]⟩
      | false =>
        have hi : s.intr ≠ .none := by
          intro hn
          have := h10 (by simp [hh, Handler.inGo]) hn
          simp [hsc] at this
        cases hint : s.intr with
        | none => exact absurd hint hi
        | select => exact Or.inl (hin (Or.inr hint))
        | ready => exact Or.inl (hintr ho (by simp [hh]) (by simp [hint]))
        | hit => exact Or.inl (hintr ho (by simp [hh]) (by simp [hint]))
        | exit => exact Or.inl (hintr ho (by simp [hh]) (by simp [hint]))
    | aborted =>
      obtain ⟨hoc, hlen⟩ := hsend ho (by simp [hh])
      exact Or.inl ⟨.hAbortInfo, rfl, by simp [fire, send, hh, hoc, hlen]⟩
    | closeFin => exact Or.inl ⟨.hCloseFin, rfl, by simp [fire, hh]; split <;> simp⟩
    | wait =>
      cases hint : s.intr with
      | none => exact Or.inl ⟨.hWait, rfl, by simp [fire, hh, h6, hint]⟩
      | select => exact Or.inl ⟨.iFin, rfl, by simp [fire, hint, h9 hh]⟩
      | ready => exact Or.inl (hintr ho (by simp [hh]) (by simp [hint]))
      | hit => exact Or.inl (hintr ho (by simp [hh]) (by simp [hint]))
      | exit => exact Or.inl (hintr ho (by simp [hh]) (by simp [hint]))
    | best =>
      obtain ⟨hoc, hlen⟩ := hsend ho (by simp [hh])
      exact Or.inl ⟨.hBest, rfl, by simp [fire, send, hh, hoc, hlen]⟩
    | deferClose => exact Or.inl ⟨.hDefer, rfl, by simp [fire, hh] <;> (repeat' split) <;> simp⟩
    | closeOut => exact Or.inl ⟨.hCloseOut, rfl, by simp [fire, hh, runDone] <;> (repeat' split) <;> simp⟩
    | done =>
      have hoc : s.outClosed = true := h3.mpr hh
      rcases hwr with hwr | hwr
      · exact Or.inl ⟨.wDone, rfl, by simp [fire, hwr, ho, hoc]⟩
      · have hrd : s.reader = .done := h2.mp (h4 (Or.inl hh))
        have hint : s.intr = .none := by
          cases hint : s.intr with
          | none => rfl
          | _ => have := (h7 (by simp [hint])).1; simp [hh, Handler.inGo] at this
        have hwg : s.runWg = 0 := by simp [h14, hrd, hh, hwr]
        cases hm : s.main with
        | waiting => exact Or.inl ⟨.mReturn, rfl, by simp [fire, hm, hwg]⟩
        | returned => exact Or.inr ⟨hrd, hh, hwr, hint, hm⟩
  cases hw : s.writer with
  | write m => exact Or.inl ⟨.wSink, rfl, by simp [fire, hw]⟩
  | recv =>
    cases ho : s.out with
    | cons m rest => exact Or.inl ⟨.wRecv, rfl, by simp [fire, hw, ho]⟩
    | nil => exact main ho (Or.inl hw)
  | done => exact main (h5 hw).2 (Or.inr hw)

/-- Once `quit` has been received (by either receiver) the reader has left its loop. -/
def QuitInv (s : State) : Prop :=
  (∃ r, (r, Cmd.quit) ∈ s.consumed) → s.reader = .closing ∨ s.reader = .done

set_option linter.unnecessarySimpa false in
theorem QuitInv.step {s s' : State} {t : Tr} (h : QuitInv s) (hf : fire t s = some s') : QuitInv s' := by
  unfold QuitInv at *
  cases t <;> simp only [fire, send, runDone] at hf <;> (repeat' split at hf) <;> (try cases hf) <;>
    (try (simpa using h))
  -- the two rendezvous transitions
  all_goals
    rename_i c hr hg
    intro ⟨r, hm⟩
    cases c <;> simp_all [dispatch, intrDispatch, readerAfter] <;> (try split) <;> simp_all

theorem QuitInv.reachable {script : List Cmd} {s : State} (h : Reachable script s) : QuitInv s := by
  induction h with
  | init => intro ⟨r, hm⟩; simp [Uci.init] at hm
  | step t _ hf ih => exact ih.step hf

/-- Execute a list of transitions (for the non-vacuity examples). -/
def run : List Tr → State → Option State
  | [], s => some s
  | t :: ts, s => (fire t s).bind (run ts)

theorem reachable_run {script : List Cmd} {s s' : State} (ts : List Tr) (h : Reachable script s)
    (hr : run ts s = some s') : Reachable script s' := by
  induction ts generalizing s with
  | nil => simp [run] at hr; exact hr ▸ h
  | cons t ts ih =>
    simp only [run] at hr
    cases hf : fire t s with
    | none => simp [hf] at hr
    | some s1 => simp [hf] at hr; exact ih (h.step t hf) hr

end ChessVerif.Uci
