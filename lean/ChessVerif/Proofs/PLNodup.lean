/-
  C05 — no move word is generated twice: every routine's list is duplicate-free, and a word determines
  the routine that can emit it (`tag`), so the eighteen lists of `GenNoisy ++ GenNotNoisy` are pairwise
  disjoint (in particular the noisy and the quiet halves).
-/
import Mathlib.Data.List.Nodup
import ChessVerif.Proofs.PLGenIff
import ChessVerif.Proofs.PLTest
namespace ChessVerif.PL
open ChessVerif MoveGen

/-! ### generic list lemmas -/

theorem nodup_map_key {l : List Nat} (hl : l.Nodup) (g : Nat → Nat) (key : Nat → Nat)
    (h : ∀ x ∈ l, key (g x) = x) : (l.map g).Nodup :=
  List.Nodup.map_on (fun x hx y hy e => by rw [← h x hx, ← h y hy, e]) hl

theorem nodup_flatMap_key {l : List Nat} (hl : l.Nodup) (F : Nat → List Nat) (key : Nat → Nat)
    (h1 : ∀ x ∈ l, (F x).Nodup) (h2 : ∀ x ∈ l, ∀ m ∈ F x, key m = x) : (l.flatMap F).Nodup := by
  refine List.nodup_flatMap.2 ⟨h1, ?_⟩
  refine List.Pairwise.imp_of_mem ?_ hl
  intro a c ha hc hne
  simp only [Function.onFun]
  intro m hma hmc
  exact hne ((h2 a ha m hma).symm.trans (h2 c hc m hmc))

/-- sublists tagged with consecutive numbers are pairwise disjoint. -/
def Tagged (tag : Nat → Nat) : Nat → List (List Nat) → Prop
  | _, [] => True
  | k, l :: ls => (l.Nodup ∧ ∀ m ∈ l, tag m = k) ∧ Tagged tag (k + 1) ls

theorem tagged_nodup (tag : Nat → Nat) : ∀ (ls : List (List Nat)) (k : Nat), Tagged tag k ls →
    ls.flatten.Nodup ∧ ∀ m ∈ ls.flatten, k ≤ tag m
  | [], _, _ => by simp
  | l :: ls, k, h => by
    obtain ⟨⟨hl, ht⟩, hrest⟩ := h
    obtain ⟨ih1, ih2⟩ := tagged_nodup tag ls (k + 1) hrest
    rw [List.flatten_cons]
    refine ⟨List.nodup_append.2 ⟨hl, ih1, ?_⟩, ?_⟩
    · intro a ha c hc e
      have := ih2 c hc
      rw [← e, ht a ha] at this
      omega
    · intro m hm
      rcases List.mem_append.1 hm with h | h
      · rw [ht m h]; omega
      · have := ih2 m h; omega

theorem mk_eq_nat (f t p f' t' p' : Nat) :
    Move.mk f t p = Move.mk f' t' p' ↔ (f * 64 + t + p * 4096 : Nat) = f' * 64 + t' + p' * 4096 := Iff.rfl

theorem promos_nodup : promos.Nodup := by decide

/-! ### every routine emits no word twice -/

theorem pieceMoves_nodup (pcs : BB) (att : Nat → BB) (self toMsk : BB) : (pieceMoves pcs att self toMsk).Nodup := by
  unfold pieceMoves
  refine nodup_flatMap_key (bits_nodup _) _ Move.src (fun f hf => ?_) (fun f hf m hm => ?_)
  · exact nodup_map_key (bits_nodup _) _ Move.dst (fun t ht => dst_mk f t 0 (bits_lt ht))
  · obtain ⟨t, ht, rfl⟩ := List.mem_map.1 hm
    exact src_mk f t 0 (bits_lt ht) (bits_lt hf)

theorem kingMoves_nodup (g : G) (b : Board) (toMsk : BB) : (kingMoves g b toMsk).Nodup := by
  unfold kingMoves
  split
  · exact List.nodup_nil
  · exact nodup_map_key (bits_nodup _) _ Move.dst (fun t ht => dst_mk _ t 0 (bits_lt ht))

theorem singlePush_nodup (g : G) (b : Board) : (singlePushMoves g b).Nodup := by
  unfold singlePushMoves
  refine List.Nodup.map_on (fun x _ y _ e => ?_) (bits_nodup _)
  rw [mk_eq_nat] at e; generalize b.stm = c at e; cases c <;> simp only [Board.fwd] at e <;> omega

theorem doublePush_nodup (g : G) (b : Board) : (doublePushMoves g b).Nodup := by
  unfold doublePushMoves
  refine List.Nodup.map_on (fun x _ y _ e => ?_) (bits_nodup _)
  rw [mk_eq_nat] at e; generalize b.stm = c at e; cases c <;> simp only [Board.fwd] at e <;> omega

theorem enPassant_nodup (g : G) (b : Board) : (enPassant g b).Nodup := by
  unfold enPassant
  split
  · exact List.nodup_nil
  · refine List.Nodup.map_on (fun x _ y _ e => ?_) (bits_nodup _)
    rw [mk_eq_nat] at e; omega

theorem promoPush_nodup (g : G) (b : Board) : (promoPushMoves g b).Nodup := by
  unfold promoPushMoves
  refine nodup_flatMap_key (bits_nodup _) _ Move.src (fun f hf => ?_) (fun f hf m hm => ?_)
  · refine List.Nodup.map_on (fun x _ y _ e => ?_) promos_nodup
    rw [mk_eq_nat] at e; omega
  · obtain ⟨p, hp, rfl⟩ := List.mem_map.1 hm
    obtain ⟨hf64, hb⟩ := mem_bits.1 hf
    simp only [BitVec.getLsbD_and, Bool.and_eq_true, relRankBB_get _ 6 f (by omega) hf64, decide_eq_true_eq] at hb
    exact src_mk f _ p (ahead_fwd1 b.stm f hf64 (by omega)).2 hf64

theorem pawnCapture_nodup (g : G) (b : Board) : (pawnCaptureMoves g b).Nodup := by
  unfold pawnCaptureMoves
  refine nodup_flatMap_key (bits_nodup _) _ Move.src (fun f hf => ?_) (fun f hf m hm => ?_)
  · exact nodup_map_key (bits_nodup _) _ Move.dst (fun t ht => dst_mk f t 0 (bits_lt ht))
  · obtain ⟨t, ht, rfl⟩ := List.mem_map.1 hm
    exact src_mk f t 0 (bits_lt ht) (bits_lt hf)

theorem pawnCapturePromo_nodup (g : G) (b : Board) : (pawnCapturePromoMoves g b).Nodup := by
  unfold pawnCapturePromoMoves
  refine nodup_flatMap_key (bits_nodup _) _ Move.src (fun f hf => ?_) (fun f hf m hm => ?_)
  · refine nodup_flatMap_key (bits_nodup _) _ Move.dst (fun t ht => ?_) (fun t ht m hm => ?_)
    · refine List.Nodup.map_on (fun x _ y _ e => ?_) promos_nodup
      rw [mk_eq_nat] at e; omega
    · obtain ⟨p, hp, rfl⟩ := List.mem_map.1 hm
      exact dst_mk f t p (bits_lt ht)
  · obtain ⟨t, ht, hm'⟩ := List.mem_flatMap.1 hm
    obtain ⟨p, hp, rfl⟩ := List.mem_map.1 hm'
    exact src_mk f t p (bits_lt ht) (bits_lt hf)

theorem shortCastle_nodup (g : G) (b : Board) : (shortCastle g b).Nodup := by
  rw [shortCastle_def]; split
  · split <;> simp
  · simp

theorem longCastle_nodup (g : G) (b : Board) : (longCastle g b).Nodup := by
  rw [longCastle_def]; split
  · split <;> simp
  · simp

/-! ### the routine that emits a word is determined by the word -/

/-- index (in generation order) of the only routine that can emit `m`. -/
def tag (b : Board) (m : Nat) : Nat :=
  let noisy := (b.colorBB b.stm.flip).getLsbD (Move.dst m)
  match b.pieceAt (Move.src m) with
  | .king =>
    if Move.src m = home b.stm ∧ Move.dst m = home b.stm + 2 then 16
    else if Move.src m = home b.stm ∧ Move.dst m = home b.stm - 2 then 17
    else if noisy then 0 else 9
  | .knight => if noisy then 1 else 10
  | .bishop => if noisy then 2 else 11
  | .rook => if noisy then 3 else 12
  | .queen => if noisy then 4 else 13
  | .pawn =>
    if Move.src m % 8 = Move.dst m % 8 then
      (if Move.promo m ≠ 0 then 5 else if Board.absDiff (Move.src m) (Move.dst m) = 8 then 14 else 15)
    else if noisy then (if Move.promo m ≠ 0 then 7 else 6) else 8
  | .none => 18

theorem tag_piece {b : Board} (hd : PLDomain b) (q : Piece) (hq : q ≠ .none) (att : Nat → BB) (msk : BB) (m : Nat)
    (h : m ∈ pieceMoves (b.colorBB b.stm &&& b.pieceBB q) att (b.colorBB b.stm) msk) :
    b.pieceAt (Move.src m) = q ∧ msk.getLsbD (Move.dst m) = true := by
  obtain ⟨_, _, h1, _, _, h2⟩ := (mem_pieceMoves _ _ _ _ m).1 h
  simp only [BitVec.getLsbD_and, Bool.and_eq_true] at h1
  exact ⟨(wf_piece hd.wf _ (src_lt m) q hq).1 h1.2, h2⟩

theorem not_them (b : Board) (m : Nat) (h : (~~~b.colorBB b.stm.flip).getLsbD (Move.dst m) = true) :
    (b.colorBB b.stm.flip).getLsbD (Move.dst m) = false := by
  rw [not_get _ _ (dst_lt m)] at h; simpa using h

theorem king_facts : (Attacks.kingMoves 4).getLsbD 6 = false ∧ (Attacks.kingMoves 4).getLsbD 2 = false ∧
    (Attacks.kingMoves 60).getLsbD 62 = false ∧ (Attacks.kingMoves 60).getLsbD 58 = false := by decide

theorem tag_king {b : Board} (hd : PLDomain b) (msk : BB) (m : Nat) (h : m ∈ kingMoves (G.of b) b msk) :
    b.pieceAt (Move.src m) = .king ∧ msk.getLsbD (Move.dst m) = true ∧
      ¬ (Move.src m = home b.stm ∧ Move.dst m = home b.stm + 2) ∧
      ¬ (Move.src m = home b.stm ∧ Move.dst m = home b.stm - 2) := by
  obtain ⟨k, hk, hK⟩ := hd.oneKing
  obtain ⟨_, _, h1, h2, _, h3⟩ := (mem_kingMoves (G.of b) hk hK msk m).1 h
  have := (king_sq hk hK (Move.src m)).2 h1
  refine ⟨(wf_piece hd.wf _ (src_lt m) .king (by decide)).1 this.2, h3, ?_, ?_⟩
  · rintro ⟨e1, e2⟩
    rw [e1, e2] at h2
    obtain ⟨k1, k2, k3, k4⟩ := king_facts
    cases hc : b.stm <;> rw [hc] at h2 <;> simp only [home, Nat.reduceAdd] at h2
    · rw [k1] at h2; exact absurd h2 (by decide)
    · rw [k3] at h2; exact absurd h2 (by decide)
  · rintro ⟨e1, e2⟩
    rw [e1, e2] at h2
    obtain ⟨k1, k2, k3, k4⟩ := king_facts
    cases hc : b.stm <;> rw [hc] at h2 <;> simp only [home, Nat.reduceSub] at h2
    · rw [k2] at h2; exact absurd h2 (by decide)
    · rw [k4] at h2; exact absurd h2 (by decide)

theorem pawn_at {b : Board} (hd : PLDomain b) (m : Nat) (h : (b.pieceBB .pawn).getLsbD (Move.src m) = true) :
    b.pieceAt (Move.src m) = .pawn := (wf_piece hd.wf _ (src_lt m) .pawn (by decide)).1 h

theorem ahead_file (c : Color) (f k t : Nat) (hk : k % 8 = 0) (h : ahead c f k t) : f % 8 = t % 8 := by
  cases c <;> simp only [ahead] at h <;> omega

theorem ahead_absDiff (c : Color) (f k t : Nat) (h : ahead c f k t) : Board.absDiff f t = k := by
  rw [absDiff_eq]; cases c <;> simp only [ahead] at h <;> omega

theorem capGeom_file (c : Color) (f t : Nat) (h : capGeom c f t) : f % 8 ≠ t % 8 := by
  cases c <;> simp only [capGeom] at h <;> omega

theorem gen_tagged {b : Board} (hd : PLDomain b) :
    Tagged (tag b) 0
      [kingMoves (G.of b) b (G.of b).them, knightMoves (G.of b) b (G.of b).them, bishopMoves (G.of b) b (G.of b).them,
       rookMoves (G.of b) b (G.of b).them, queenMoves (G.of b) b (G.of b).them, promoPushMoves (G.of b) b,
       pawnCaptureMoves (G.of b) b, pawnCapturePromoMoves (G.of b) b, enPassant (G.of b) b,
       kingMoves (G.of b) b (~~~(G.of b).them), knightMoves (G.of b) b (~~~(G.of b).them),
       bishopMoves (G.of b) b (~~~(G.of b).them), rookMoves (G.of b) b (~~~(G.of b).them),
       queenMoves (G.of b) b (~~~(G.of b).them), singlePushMoves (G.of b) b, doublePushMoves (G.of b) b,
       shortCastle (G.of b) b, longCastle (G.of b) b] := by
  simp only [Tagged, and_true]
  refine ⟨⟨kingMoves_nodup _ _ _, ?_⟩, ⟨pieceMoves_nodup _ _ _ _, ?_⟩, ⟨pieceMoves_nodup _ _ _ _, ?_⟩,
    ⟨pieceMoves_nodup _ _ _ _, ?_⟩, ⟨pieceMoves_nodup _ _ _ _, ?_⟩, ⟨promoPush_nodup _ _, ?_⟩,
    ⟨pawnCapture_nodup _ _, ?_⟩, ⟨pawnCapturePromo_nodup _ _, ?_⟩, ⟨enPassant_nodup _ _, ?_⟩,
    ⟨kingMoves_nodup _ _ _, ?_⟩, ⟨pieceMoves_nodup _ _ _ _, ?_⟩, ⟨pieceMoves_nodup _ _ _ _, ?_⟩,
    ⟨pieceMoves_nodup _ _ _ _, ?_⟩, ⟨pieceMoves_nodup _ _ _ _, ?_⟩, ⟨singlePush_nodup _ _, ?_⟩,
    ⟨doublePush_nodup _ _, ?_⟩, ⟨shortCastle_nodup _ _, ?_⟩, ⟨longCastle_nodup _ _, ?_⟩⟩
  · intro m h
    obtain ⟨h1, h2, h3, h4⟩ := tag_king hd _ m h
    simp only [G.of] at h2
    simp [tag, h1, h2, h3, h4]
  · intro m h
    obtain ⟨h1, h2⟩ := tag_piece hd .knight (by decide) _ _ m h
    simp only [G.of] at h2
    simp [tag, h1, h2]
  · intro m h
    obtain ⟨h1, h2⟩ := tag_piece hd .bishop (by decide) _ _ m h
    simp only [G.of] at h2
    simp [tag, h1, h2]
  · intro m h
    obtain ⟨h1, h2⟩ := tag_piece hd .rook (by decide) _ _ m h
    simp only [G.of] at h2
    simp [tag, h1, h2]
  · intro m h
    obtain ⟨h1, h2⟩ := tag_piece hd .queen (by decide) _ _ m h
    simp only [G.of] at h2
    simp [tag, h1, h2]
  · intro m h
    obtain ⟨_, hp, _, hP, _, ha, _⟩ := (mem_promoPush m).1 h
    have := ahead_file _ _ _ _ (by decide) ha
    have hp0 : Move.promo m ≠ 0 := by omega
    simp [tag, pawn_at hd m hP, this, hp0]
  · intro m h
    obtain ⟨_, hp, _, hP, _, hg, hT⟩ := (mem_pawnCapture m).1 h
    have := capGeom_file _ _ _ hg
    simp [tag, pawn_at hd m hP, this, hp, hT]
  · intro m h
    obtain ⟨_, hp, _, hP, _, hg, hT⟩ := (mem_pawnCapturePromo m).1 h
    have := capGeom_file _ _ _ hg
    have hp0 : Move.promo m ≠ 0 := by omega
    simp [tag, pawn_at hd m hP, this, hp0, hT]
  · intro m h
    obtain ⟨_, hp, _, hP, hg, hep, he⟩ := (mem_enPassant hd m).1 h
    have := capGeom_file _ _ _ hg
    obtain ⟨_, _, hO⟩ := hd.ep hep
    have hT := (occ_false hO).2
    rw [← he] at hT
    simp [tag, pawn_at hd m hP, this, hT]
  · intro m h
    obtain ⟨h1, h2, h3, h4⟩ := tag_king hd _ m h
    simp only [G.of] at h2
    simp [tag, h1, not_them b m h2, h3, h4]
  · intro m h
    obtain ⟨h1, h2⟩ := tag_piece hd .knight (by decide) _ _ m h
    simp only [G.of] at h2
    simp [tag, h1, not_them b m h2]
  · intro m h
    obtain ⟨h1, h2⟩ := tag_piece hd .bishop (by decide) _ _ m h
    simp only [G.of] at h2
    simp [tag, h1, not_them b m h2]
  · intro m h
    obtain ⟨h1, h2⟩ := tag_piece hd .rook (by decide) _ _ m h
    simp only [G.of] at h2
    simp [tag, h1, not_them b m h2]
  · intro m h
    obtain ⟨h1, h2⟩ := tag_piece hd .queen (by decide) _ _ m h
    simp only [G.of] at h2
    simp [tag, h1, not_them b m h2]
  · intro m h
    obtain ⟨_, hp, _, hP, _, ha, _⟩ := (mem_singlePush hd m).1 h
    have := ahead_file _ _ _ _ (by decide) ha
    have hd8 := ahead_absDiff _ _ _ _ ha
    simp [tag, pawn_at hd m hP, this, hp, hd8]
  · intro m h
    obtain ⟨_, hp, _, hP, ha, _⟩ := (mem_doublePush m).1 h
    have := ahead_file _ _ _ _ (by decide) ha
    have hd8 := ahead_absDiff _ _ _ _ ha
    simp [tag, pawn_at hd m hP, this, hp, hd8]
  · intro m h
    obtain ⟨_, _, hf, ht, hK, _⟩ := (mem_shortCastle hd m).1 h
    have := (wf_piece hd.wf _ (src_lt m) .king (by decide)).1 hK
    rw [hf] at this
    simp [tag, this, hf, ht]
  · intro m h
    obtain ⟨_, _, hf, ht, hK, _⟩ := (mem_longCastle hd m).1 h
    have := (wf_piece hd.wf _ (src_lt m) .king (by decide)).1 hK
    rw [hf] at this
    have hh := home_bounds b.stm
    have hne : ¬ (home b.stm - 2 = home b.stm + 2) := by omega
    simp [tag, this, hf, ht, hne]

/-- **no word is generated twice** (within a routine, across routines, across the noisy/quiet halves). -/
theorem gen_nodup_of_domain {b : Board} (hd : PLDomain b) : (gen b).Nodup := by
  have h := (tagged_nodup (tag b) _ 0 (gen_tagged hd)).1
  simpa [gen, genNoisy, genNotNoisy, List.append_assoc] using h

end ChessVerif.PL
