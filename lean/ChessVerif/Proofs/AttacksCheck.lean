/-
  C12: the executable checker that the per-square modules `Proofs/Magic/{B,R}xx.lean` run in the
  Lean *kernel* (`decide +kernel`).  Definitions only (core Lean): soundness is proved once in
  `Proofs/AttacksMagic.lean`.

  Everything is written with `Nat` primitives (`Nat.land/lor/xor/shiftLeft/shiftRight/beq/ble`, `bif`)
  because those are the operations the kernel evaluates with GMP.  The `[size]BitBoard` row of the
  Go table is one big natural number of `size` 64-bit cells.

  `checkSq ray mask magic sh size`:
   1. replays the Go init loop (carry-rippler walk from `mask`, last writer wins) and demands that
      it returns to `mask` within `size + 1` steps and never indexes outside the row;
   2. enumerates every subset `o` of `mask` *structurally* (bit by bit) and demands
      `row[(o * magic mod 2^64) >> sh] = ray o` and that the index is inside the row.
-/
import ChessVerif.Gen.Tables

namespace ChessVerif.MagicCheck

def M64 : Nat := 0xFFFFFFFFFFFFFFFF
def P64 : Nat := 0x10000000000000000

/-- Cell `i` of a row stored as one natural number. -/
def getCell (t i : Nat) : Nat := Nat.land (Nat.shiftRight t (64 * i)) M64

/-- Overwrite cell `i` with `v < 2^64`. -/
def setCell (t i v : Nat) : Nat := Nat.xor t (Nat.shiftLeft (Nat.xor (getCell t i) v) (64 * i))

/-- One ray on natural-number coordinates.  The direction is `(df1 - 1, dr1 - 1)` with
    `df1, dr1 ∈ {0,1,2}`; `g = f + df1` is the new file plus one, so `g = 0` / `g ≥ 9` is off board. -/
def rayN (occ df1 dr1 : Nat) : Nat → Nat → Nat → Nat
  | 0, _, _ => 0
  | n + 1, f, r =>
    let g := f + df1
    let h := r + dr1
    bif (g == 0 || Nat.ble 9 g || h == 0 || Nat.ble 9 h) then 0
    else
      let b := Nat.shiftLeft 1 (8 * (h - 1) + (g - 1))
      bif Nat.land occ b != 0 then b else Nat.lor b (rayN occ df1 dr1 n (g - 1) (h - 1))

/-- `Geometry.rookRay` on naturals (same ray order: N, S, E, W). -/
def rookRayN (f r occ : Nat) : Nat :=
  Nat.lor (Nat.lor (Nat.lor (rayN occ 1 2 7 f r) (rayN occ 1 0 7 f r)) (rayN occ 2 1 7 f r)) (rayN occ 0 1 7 f r)

/-- `Geometry.bishopRay` on naturals (same ray order: NE, NW, SE, SW). -/
def bishopRayN (f r occ : Nat) : Nat :=
  Nat.lor (Nat.lor (Nat.lor (rayN occ 2 2 7 f r) (rayN occ 0 2 7 f r)) (rayN occ 2 0 7 f r)) (rayN occ 0 0 7 f r)

/-- `(o * magic) >> sh` in 64-bit arithmetic. -/
def idxN (o magic sh : Nat) : Nat := Nat.shiftRight (Nat.land (o * magic) M64) sh

/-- `(o - mask) & mask` in 64-bit arithmetic (`o, mask < 2^64`). -/
def nextN (o mask : Nat) : Nat := Nat.land (o + P64 - mask) mask

/-- Replay of `Attacks.fillLoop`; `none` when the fuel runs out or an index leaves the row. -/
def fillN (ray : Nat → Nat) (mask magic sh size : Nat) : Nat → Nat → Nat → Option Nat
  | 0, _, _ => none
  | fuel + 1, occ, t =>
    let i := idxN occ magic sh
    bif Nat.blt i size then
      let t' := setCell t i (ray occ)
      let occ' := nextN occ mask
      bif occ' == mask then some t' else fillN ray mask magic sh size fuel occ' t'
    else none

/-- `p` holds for `acc ∪ s` for every subset `s` of the listed bit positions. -/
def allSubsets (p : Nat → Bool) : List Nat → Nat → Bool
  | [], acc => p acc
  | i :: is, acc => allSubsets p is acc && allSubsets p is (Nat.lor acc (Nat.shiftLeft 1 i))

/-- Positions of the set bits of `mask` below 64. -/
def maskBits (mask : Nat) : List Nat := (List.range 64).filter fun i => Nat.testBit mask i

/-- Union of the listed bit positions. -/
def orBits : List Nat → Nat
  | [] => 0
  | i :: is => Nat.lor (orBits is) (Nat.shiftLeft 1 i)

def checkSq (ray : Nat → Nat) (mask magic sh size : Nat) : Bool :=
  Nat.blt mask P64 && Nat.blt magic P64 && (orBits (maskBits mask) == mask) &&
  match fillN ray mask magic sh size (size + 1) mask 0 with
  | none => false
  | some t =>
    allSubsets (fun o => Nat.blt (idxN o magic sh) size && (getCell t (idxN o magic sh) == ray o))
      (maskBits mask) 0

/-- The Go shift count `64 - shift` on a `byte` (same definition as `Attacks.shiftAmt`). -/
def shiftAmt (shift : Nat) : Nat := (64 + 256 - shift % 256) % 256

open ChessVerif.Gen in
/-- The check of rook square `sq` against the extracted tables. -/
def checkRook (sq : Nat) : Bool :=
  checkSq (rookRayN (sq % 8) (sq / 8)) (Tables.rookMasks.getD sq 0) (Tables.rookMagics.getD sq 0)
    (shiftAmt (Tables.rookShifts.getD sq 0)) Tables.rookTableSize

open ChessVerif.Gen in
/-- The check of bishop square `sq` against the extracted tables. -/
def checkBishop (sq : Nat) : Bool :=
  checkSq (bishopRayN (sq % 8) (sq / 8)) (Tables.bishopMasks.getD sq 0) (Tables.bishopMagics.getD sq 0)
    (shiftAmt (Tables.bishopShifts.getD sq 0)) Tables.bishopTableSize

end ChessVerif.MagicCheck
