/-
  The final-score clause WITHOUT the run-level hypothesis `GoSane` (parameters meeting `AspLaws`,
  Proofs/SearchScoreFree.lean).

  On a final root every un-aborted root search (depth ≥ 1, reverse futility sound for its window)
  returns the final value `fsOf b` — 0, or `-Inf` for a checkmated root — with an empty PV, or FAILS
  HIGH (reverse futility / null move on a stalemated root: `alphaBeta_final_any`).  So from iteration 2
  on, where the previous score is the final value, an aspiration chain consists of fail-highs only:
  `alpha = fs - 44`, `beta = fs + 44·factor`; a fail-high needs `beta ≤ Inf`, hence `factor ≤ 256`
  before it and `beta ≤ fs + 44·512 ≤ 22528` after it: every window is a `RootWin` and reverse
  futility is sound at every depth (`FinAsp`, `aspiration_final`).  Iterations 0 and 1 start from
  windows that need not contain the final value; there the general bound of Proofs/SearchScoreFree.lean
  (`AspInv`: windows within `±32528`) and the soundness of reverse futility at depth 1 suffice.
-/
import ChessVerif.Proofs.SearchScoreFree

namespace ChessVerif
namespace Search

variable {σ π : Type} [PsInv σ] {t0 : Bool}

/-- the value of a final root: drawn by clock / repetition, or no playable move. -/
def fsOf (b : Board) : Score :=
  if b.fifty ≥ 100 ∨ b.threefold ≥ 3 then 0 else if b.inCheck b.stm then -Inf else 0

omit [PsInv σ] in
theorem fsOf_cases (b : Board) : fsOf b = 0 ∨ fsOf b = -10000 := by
  unfold fsOf Search.Inf
  split
  · exact Or.inl rfl
  · split
    · exact Or.inr rfl
    · exact Or.inl rfl

theorem fsOf_final {K : Keys} {b : Board} (hfin : Final K b) : FinalScore K b (fsOf b) := by
  unfold fsOf
  split
  · exact Or.inl rfl
  · next hnd =>
    have hnp : MoveGen.playable K b = [] := by
      rcases hfin with h | h | h
      · exact h
      · exact absurd (Or.inl h) hnd
      · exact absurd (Or.inr h) hnd
    cases hic : b.inCheck b.stm
    · exact Or.inl (by simp)
    · exact Or.inr ⟨hic, hnp, by simp⟩

theorem abPrune_final_any (c : Comp σ π) (L : Limits) {Good : Board → Prop} (hl : Laws c Good) (child : Child σ)
    (hc : ABSpec c L Good child) (alpha beta : Score) (d : Int) (hrfs : ∀ se, c.rfpCut d se beta = true → beta ≤ se)
    (nt : NodeType) (inCheck improving : Bool) (se : Score) (hm : Move) (s : St σ) (hg : Good s.board)
    (hok : PsInv.ok s.ps) (hhash : HashOK c s.board hm) (hic : inCheck = s.board.inCheck s.board.stm)
    (hnp : MoveGen.playable c.keys s.board = []) :
    let o := abPrune c L child alpha beta d 0 nt inCheck improving se hm s
    o.2.aborted = false → o.1 = (if inCheck then -Inf else 0) ∨ beta ≤ o.1 := by
  simp only [abPrune]
  split
  · next hrfp =>
    intro _
    have hcut : c.rfpCut d se beta = true := by
      simp only [Bool.and_eq_true] at hrfp; exact hrfp.2
    exact Or.inr (hrfs se hcut)
  · split
    · next hnm =>
      have hic' : inCheck = false := by cases inCheck <;> simp_all
      have hchk : s.board.inCheck s.board.stm = false := by rw [← hic]; exact hic'
      have hn := nullMove_spec c L hl child hc beta d (Int.le_refl 0) (by decide) se s hg hok hchk
      have hge := nullMove_ge c child beta d 0 se s
      simp only at hn
      generalize nullMove c child beta d 0 se s = nm at hn hge ⊢
      split
      · next v hv => intro _; exact Or.inr (hge v hv)
      · intro hab
        exact Or.inl (abMoves_final c L hl child alpha beta d nt inCheck improving se hm nm.2
          (by rw [hn.1.board]; exact hg) (hn.1.mono.ps_ok hok) (by rw [hn.1.board]; exact hhash)
          (by rw [hn.1.board]; exact hnp) hab)
    · intro hab
      exact Or.inl (abMoves_final c L hl child alpha beta d nt inCheck improving se hm s hg hok hhash hnp hab)

/-- a root search on a final root returns the final value with an empty PV, or fails high. -/
theorem alphaBeta_final_any (c : Comp σ π) (L : Limits) {Good : Board → Prop} (hl : Laws c Good) (fuel : Nat)
    (alpha beta : Score) (d : Int) (hd : 1 ≤ d) (hrfs : ∀ se, c.rfpCut d se beta = true → beta ≤ se)
    (s : St σ) (hg : Good s.board) (hok : PsInv.ok s.ps) (hfin : Final c.keys s.board) :
    let o := alphaBeta c L fuel alpha beta d 0 .pv s
    o.2.aborted = false → (o.1 = fsOf s.board ∧ o.2.pv.row 0 = []) ∨ beta ≤ o.1 := by
  cases fuel with
  | zero => intro o hab; exact absurd hab (by simp [o, alphaBeta])
  | succ fuel =>
    simp only [alphaBeta]
    have hq : ¬ (d = 0 ∨ (0 : Int) ≥ maxPlies - 1) := by simp [maxPlies]; omega
    rw [if_neg hq]
    have i1 := incrementNodes_frame L (s.setPv (s.pv.setNull (0 : Int).toNat))
    have ipv := incrementNodes_pv L (s.setPv (s.pv.setNull (0 : Int).toNat))
    generalize incrementNodes L (s.setPv (s.pv.setNull (0 : Int).toNat)) = s1 at i1 ipv ⊢
    have a1 := abort_frame L { s1 with abNodes := s1.abNodes + 1 }
    have apv := (abort_pv L { s1 with abNodes := s1.abNodes + 1 }).1
    have hat := abort_true_iff L { s1 with abNodes := s1.abNodes + 1 }
    generalize abort L { s1 with abNodes := s1.abNodes + 1 } = as at a1 apv hat ⊢
    have hb : as.2.board = s.board := by rw [a1.board]; exact i1.board
    have hrow0 : as.2.pv.row (0 : Int).toNat = [] := by
      rw [apv]
      show s1.pv.row (0 : Int).toNat = []
      rw [ipv]
      exact setNull_row_self _ _
    have hmin : (min (0 : Int) 1) = 0 := by decide
    split
    · next h =>
      intro hab
      have hab' : as.2.aborted = false := hab
      rw [← hat, h] at hab'; cases hab'
    · split
      · next hdraw =>
        intro _
        left
        refine ⟨?_, hrow0⟩
        rw [hb, hmin] at hdraw
        unfold fsOf
        rw [if_pos (by rcases hdraw with h | h; exact Or.inl h; exact Or.inr (by omega))]
      · next hnd =>
        rw [hb, hmin] at hnd
        have hnd' : ¬ (s.board.fifty ≥ 100 ∨ s.board.threefold ≥ 3) := by
          intro h; apply hnd
          rcases h with h | h
          · exact Or.inl h
          · exact Or.inr (by omega)
        have hnp : MoveGen.playable c.keys s.board = [] := by
          rcases hfin with h | h | h
          · exact h
          · exact absurd (Or.inl h) hnd'
          · exact absurd (Or.inr h) hnd'
        have hfl : as.2.board.fifty < 100 := by
          rw [hb]
          have : ¬ s.board.fifty ≥ 100 := fun h => hnd' (Or.inl h)
          omega
        intro hab
        have hok2 : PsInv.ok as.2.ps := a1.mono.ps_ok (i1.mono.ps_ok hok)
        have hspec := abBody_spec c L hl (alphaBeta c L fuel) (alphaBeta_spec c L hl fuel) alpha beta d (Int.le_refl 0)
          (by decide) .pv as.2 (by rw [hb]; exact hg) ⟨hok2, hfl⟩ (by rw [hrow0]; exact LegalLine.nil)
        have hrow : (abBody c L (alphaBeta c L fuel) alpha beta d 0 .pv as.2).2.pv.row 0 = [] :=
          legalLine_nil_of_noplay hspec.2.2 (by rw [hb]; exact hnp)
        have hbody : (abBody c L (alphaBeta c L fuel) alpha beta d 0 .pv as.2).1 =
              (if as.2.board.inCheck as.2.board.stm then -Inf else 0) ∨
            beta ≤ (abBody c L (alphaBeta c L fuel) alpha beta d 0 .pv as.2).1 := by
          revert hab
          simp only [abBody]
          split
          · next v heq =>
            exfalso
            split at heq
            · simp at heq
            · cases heq
          · intro hab
            exact abPrune_final_any c L hl (alphaBeta c L fuel) (alphaBeta_spec c L hl fuel) alpha beta d hrfs .pv
              _ _ _ _ as.2 (by rw [hb]; exact hg) hok2 (hashOK_probe c hok2 as.2.board 0) rfl (by rw [hb]; exact hnp) hab
        rcases hbody with h | h
        · left
          refine ⟨?_, hrow⟩
          rw [h, hb]
          unfold fsOf
          rw [if_neg hnd']
        · exact Or.inr h

/-- the windows of an aspiration chain (window size `W`) on a final root from iteration 2 on: fail-highs
    only. -/
def FinAsp (W fs alpha beta f : Int) : Prop :=
  alpha = fs - W ∧ beta = fs + f * W ∧ Pow2 f ∧ fs + f * W ≤ 30000 ∧ (fs = 0 ∨ fs = -10000)

theorem finAsp_rootWin {W fs a b f : Int} (hW : WSafe W) (h : FinAsp W fs a b f) : RootWin a b := by
  obtain ⟨ha, hb, hp, hf, hfs⟩ := h
  have hf1 := (pow2_range hp).1
  unfold WSafe at hW
  have hp0 : W ≤ f * W := by
    have := Int.mul_le_mul_of_nonneg_right hf1 (show (0 : Int) ≤ W by omega)
    omega
  generalize f * W = p at *
  unfold RootWin WinOK rfpSafe; omega

theorem finAsp_first {W fs : Int} (hW : WSafe W) (hfs : fs = 0 ∨ fs = -10000) :
    FinAsp W fs (wrapS16 (fs - W)) (wrapS16 (fs + W)) 1 := by
  unfold WSafe at hW
  rw [wrapS16_id (by omega) (by omega), wrapS16_id (by omega) (by omega)]
  exact ⟨rfl, by omega, Or.inl rfl, by omega, hfs⟩

/-- one fail-high on a final root: the widened window is again of that form. -/
theorem finAsp_step {W fs a b f sample : Int} (hW : WSafe W) (h : FinAsp W fs a b f) (hs : InR sample) (hhigh : b ≤ sample) :
    FinAsp W fs (if sample ≤ a then wrapS16 (a - wrapS16 (f * W)) else a)
      (if sample ≤ a then b else if sample ≥ b then wrapS16 (b + wrapS16 (f * W)) else b) (wrapS16 (f * 2)) := by
  obtain ⟨ha, hb, hp, hf, hfs⟩ := h
  have hf1 := (pow2_range hp).1
  have hW' := hW
  unfold WSafe at hW'
  unfold InR at hs
  have hp0 : W ≤ f * W := by
    have := Int.mul_le_mul_of_nonneg_right hf1 (show (0 : Int) ≤ W by omega)
    omega
  have hfb : f * W ≤ 40000 - 2 * W := by
    generalize f * W = p at *
    omega
  obtain ⟨hb1, hb2, hb3, hb4⟩ := fail_bound hW hp hfb
  have hnl : ¬ sample ≤ a := by
    generalize f * W = p at *
    omega
  rw [if_neg hnl, if_neg hnl, if_pos hhigh, wrapS16_id (x := f * 2) (by omega) (by omega)]
  unfold FinAsp
  rw [hb4]
  generalize f * W = p at *
  rw [wrapS16_id (x := p) (by omega) (by omega), wrapS16_id (x := b + p) (by omega) (by omega)]
  exact ⟨ha, by omega, hb3, by omega, hfs⟩

/-- the result `fs` of a final root lies strictly inside every window of that form. -/
theorem finAsp_inside {W fs a b f : Int} (hW : WSafe W) (h : FinAsp W fs a b f) : a < fs ∧ fs < b := by
  obtain ⟨ha, hb, hp, _, _⟩ := h
  have hf1 := (pow2_range hp).1
  unfold WSafe at hW
  have hp0 : W ≤ f * W := by
    have := Int.mul_le_mul_of_nonneg_right hf1 (show (0 : Int) ≤ W by omega)
    omega
  generalize f * W = p at *
  omega

/-- the aspiration loop of an iteration ≥ 1 on a final root, from a fail-high-only window (guarded by
    the ghost flag). -/
theorem aspiration_final (c : Comp σ π) (L : Limits) {Good : Board → Prop} {TTok : σ → Prop} {μ : Board → Nat}
    (hl : Laws c Good) (sl : ScoreLaws c Good TTok μ) (al : AspLaws c) (fuel : Nat) (idD : Int) (hd : 1 ≤ idD) :
    ∀ (n : Nat) (alpha beta factor : Score) (s : St σ), Good s.board → TTA TTok t0 s → Final c.keys s.board →
      (s.nmpOut = false → FinAsp c.windowSize (fsOf s.board) alpha beta factor) →
      TTA TTok t0 (aspiration c L fuel idD n alpha beta factor s).st ∧
      (∀ al be sa s', aspiration c L fuel idD n alpha beta factor s = .ok al be sa s' → s'.nmpOut = false →
        sa = fsOf s.board ∧ s'.pv.row 0 = []) := by
  intro n
  induction n with
  | zero =>
    intro alpha beta factor s _ htt _ _
    exact ⟨htt.congr rfl rfl, fun _ _ _ _ h => by simp [aspiration] at h⟩
  | succ n ih =>
    intro alpha beta factor s hg htt hfin hinv
    have hab := alphaBeta_spec c L hl fuel alpha beta idD 0 .pv s hg htt.1 (Int.le_refl 0)
    have hrg := alphaBeta_range c L hl sl fuel alpha beta idD 0 .pv s hg (Int.le_refl 0) (by decide)
      (fun hA => (finAsp_rootWin al.windowSafe (hinv hA)).1) htt
    have hany := fun (hw : RootWin alpha beta) => alphaBeta_final_any c L hl fuel alpha beta idD hd
      (fun se h => sl.rfp_sound idD se beta (by omega) hw.2 h) s hg htt.1 hfin
    simp only [aspiration]
    simp only at hany
    generalize alphaBeta c L fuel alpha beta idD 0 .pv s = r at hab hrg hany ⊢
    have haf := abort_frame L r.2
    have hap := (abort_pv L r.2).1
    have hps := abort_ps L r.2
    have han := abort_nmpOut L r.2
    have hatt := abort_ttOut L r.2
    have hfa := @abort_false σ _ L r.2
    generalize abort L r.2 = as at haf hap hps han hatt hfa ⊢
    have htt2 : TTA TTok t0 as.2 := hrg.1.congr hps han hatt
    have hback : as.2.nmpOut = false → s.nmpOut = false := fun h => hab.1.mono.a_back (by rw [← han]; exact h)
    split
    · exact ⟨htt2, fun _ _ _ _ h => by cases h⟩
    · next hna =>
      have hna' : as.1 = false := by simpa using hna
      have hrab : r.2.aborted = false := (hfa hna').2
      have hsr : as.2.nmpOut = false → InR r.1 := fun hA =>
        (hrg.2 hrab (by rw [← han]; exact hA)).inR (Int.le_refl 0)
      split
      · next hin =>
        refine ⟨htt2, fun al' be sa s' h hA => ?_⟩
        cases h
        simp only [Bool.and_eq_true, Bool.not_eq_true', decide_eq_false_iff_not] at hin
        have hlt : r.1 < beta := Int.not_le.1 hin.2
        rcases hany (finAsp_rootWin al.windowSafe (hinv (hback hA))) hrab with h | h
        · exact ⟨h.1, by rw [hap]; exact h.2⟩
        · exact absurd hlt (Int.not_lt.2 h)
      · next hnin =>
        -- not in the window: the result is not the final value, so it is a fail-high
        have hhigh : as.2.nmpOut = false → beta ≤ r.1 := fun hA => by
          have hins := finAsp_inside al.windowSafe (hinv (hback hA))
          rcases hany (finAsp_rootWin al.windowSafe (hinv (hback hA))) hrab with h | h
          · exfalso; apply hnin
            have h1 : ¬ r.1 ≤ alpha := by rw [h.1]; exact Int.not_le.2 hins.1
            have h2 : ¬ r.1 ≥ beta := by rw [h.1]; exact Int.not_le.2 hins.2
            simp [h1, h2]
          · exact h
        have hb2 : as.2.board = s.board := by rw [haf.board, hab.1.board]
        have hstep := fun (hA : as.2.nmpOut = false) => finAsp_step al.windowSafe (hinv (hback hA)) (hsr hA) (hhigh hA)
        have := ih _ _ _ as.2 (by rw [hb2]; exact hg) htt2 (by rw [hb2]; exact hfin) (by rw [hb2]; exact hstep)
        rw [hb2] at this
        exact this

/-- iterations 0 and 1 on a final root, from any reachable window (guarded). -/
theorem aspiration_final01 (c : Comp σ π) (L : Limits) {Good : Board → Prop} {TTok : σ → Prop} {μ : Board → Nat}
    (hl : Laws c Good) (sl : ScoreLaws c Good TTok μ) (al : AspLaws c) (fuel : Nat) (idD : Int) (h01 : idD = 0 ∨ idD = 1) :
    ∀ (n : Nat) (alpha beta factor : Score) (s : St σ), Good s.board → TTA TTok t0 s → Final c.keys s.board →
      (s.nmpOut = false → AspInv c.windowSize alpha beta factor) →
      (∀ al be sa s', aspiration c L fuel idD n alpha beta factor s = .ok al be sa s' → s'.nmpOut = false →
        s'.pv.row 0 = [] ∧ (idD = 1 → sa = fsOf s.board)) := by
  intro n
  induction n with
  | zero => intro alpha beta factor s _ _ _ _ _ _ _ _ h; simp [aspiration] at h
  | succ n ih =>
    intro alpha beta factor s hg htt hfin hinv
    have hab := alphaBeta_spec c L hl fuel alpha beta idD 0 .pv s hg htt.1 (Int.le_refl 0)
    have hrg := alphaBeta_range c L hl sl fuel alpha beta idD 0 .pv s hg (Int.le_refl 0) (by decide)
      (fun hA => (aspInv_win al.windowSafe (hinv hA)).1) htt
    have hany := fun (hb32 : beta ≤ 32528) (h1 : idD = 1) => alphaBeta_final_any c L hl fuel alpha beta idD (by omega)
      (fun se h => al.rfp_shallow idD se beta (by omega) (by omega) hb32 h) s hg htt.1 hfin
    have hrow : idD = 0 → (alphaBeta c L fuel alpha beta idD 0 .pv s).2.pv.row 0 = [] := by
      intro h; rw [h]; exact alphaBeta_depth0_row c L hl fuel alpha beta s hg htt.1
    simp only [aspiration]
    simp only at hany
    generalize alphaBeta c L fuel alpha beta idD 0 .pv s = r at hab hrg hany hrow ⊢
    have haf := abort_frame L r.2
    have hap := (abort_pv L r.2).1
    have hps := abort_ps L r.2
    have han := abort_nmpOut L r.2
    have hatt := abort_ttOut L r.2
    have hfa := @abort_false σ _ L r.2
    generalize abort L r.2 = as at haf hap hps han hatt hfa ⊢
    have htt2 : TTA TTok t0 as.2 := hrg.1.congr hps han hatt
    have hback : as.2.nmpOut = false → s.nmpOut = false := fun h => hab.1.mono.a_back (by rw [← han]; exact h)
    split
    · intro _ _ _ _ h; cases h
    · next hna =>
      have hna' : as.1 = false := by simpa using hna
      have hrab : r.2.aborted = false := (hfa hna').2
      have hsr : as.2.nmpOut = false → InR r.1 := fun hA =>
        (hrg.2 hrab (by rw [← han]; exact hA)).inR (Int.le_refl 0)
      split
      · next hin =>
        intro al' be sa s' h hA
        cases h
        simp only [Bool.and_eq_true, Bool.not_eq_true', decide_eq_false_iff_not] at hin
        have hlt : r.1 < beta := Int.not_le.1 hin.2
        rcases h01 with h0 | h1
        · exact ⟨by rw [hap]; exact hrow h0, fun h => by omega⟩
        · rcases hany (aspInv_win al.windowSafe (hinv (hback hA))).2 h1 hrab with h | h
          · exact ⟨by rw [hap]; exact h.2, fun _ => h.1⟩
          · exact absurd hlt (Int.not_lt.2 h)
      · next hnin =>
        have hout : r.1 ≤ alpha ∨ beta ≤ r.1 := by
          by_cases h1 : r.1 ≤ alpha
          · exact Or.inl h1
          · by_cases h2 : beta ≤ r.1
            · exact Or.inr h2
            · exfalso; apply hnin; simp [h1, h2]
        have hstep := fun (hA : as.2.nmpOut = false) => aspInv_step al.windowSafe (hinv (hback hA)) (hsr hA) hout
        have hb2 : as.2.board = s.board := by rw [haf.board, hab.1.board]
        have := ih _ _ _ as.2 (by rw [hb2]; exact hg) htt2 (by rw [hb2]; exact hfin) hstep
        rw [hb2] at this
        exact this

/-- `idLoop` on a final root: a run that is not aborted and in which the ghost flag stays down returns
    the null move and the final value. -/
theorem idLoop_final (c : Comp σ π) (L : Limits) (clock : Clock) {Good : Board → Prop} {TTok : σ → Prop} {μ : Board → Nat}
    (hl : Laws c Good) (sl : ScoreLaws c Good TTok μ) (al : AspLaws c) (fuel : Nat) (b : Board) (hg : Good b)
    (hfin : Final c.keys b) (hd : 1 ≤ L.depth) :
    ∀ (n : Nat) (idD : Int) (v : IDVars) (s : St σ), s.board = b → 0 ≤ idD → (n : Int) + idD = 64 →
      TTA TTok t0 s → (s.nmpOut = false → idD ≤ 1 → AspInv c.windowSize v.alpha v.beta 1) →
      (s.nmpOut = false → 2 ≤ idD → FinAsp c.windowSize (fsOf b) v.alpha v.beta 1 ∧ v.score = fsOf b) →
      (s.nmpOut = false → v.move = 0) →
      (idLoop c L clock fuel n idD v s).st.nmpOut = false →
      (idLoop c L clock fuel n idD v s).st.aborted = false →
        (idLoop c L clock fuel n idD v s).move = 0 ∧ (idLoop c L clock fuel n idD v s).score = fsOf b := by
  intro n
  induction n with
  | zero =>
    intro idD v s _ _ hn _ _ h2 hmv hA _
    simp only [idLoop] at hA ⊢
    exact ⟨hmv hA, (h2 hA (by omega)).2⟩
  | succ n ih =>
    intro idD v s hb h0 hn htt hw01 hw2 hmv
    simp only [idLoop]
    split
    · next hcond =>
      have h2 : 2 ≤ idD := by
        apply Classical.byContradiction
        intro hlt
        have e1 : decide (idD < maxPlies) = true := decide_eq_true (by unfold maxPlies; omega)
        have e2 : decide (idD ≤ L.depth) = true := decide_eq_true (by omega)
        simp [e1, e2] at hcond
      intro hA _
      exact ⟨hmv hA, (hw2 hA h2).2⟩
    · next hcond =>
      have hlt64 : idD < 64 := by
        apply Classical.byContradiction
        intro hge
        apply hcond
        have e1 : decide (idD < maxPlies) = false := decide_eq_false (by unfold maxPlies; omega)
        simp [e1]
      have hgs : Good s.board := by rw [hb]; exact hg
      have hfs : Final c.keys s.board := by rw [hb]; exact hfin
      have hasp := aspiration_spec c L hl fuel idD fuel v.alpha v.beta 1 s hgs htt.1
      -- the table predicate after the loop, and the result of an in-window search
      have hres : TTA TTok t0 (aspiration c L fuel idD fuel v.alpha v.beta 1 s).st ∧
          (∀ al be sa s', aspiration c L fuel idD fuel v.alpha v.beta 1 s = .ok al be sa s' → s'.nmpOut = false →
            InR sa ∧ s'.pv.row 0 = [] ∧ (1 ≤ idD → sa = fsOf b)) := by
        by_cases h1 : idD ≤ 1
        · have hf := aspiration_free c L hl sl al fuel idD fuel v.alpha v.beta 1 s hgs htt (fun hA => hw01 hA h1)
          have hg01 := aspiration_final01 c L hl sl al fuel idD (by omega) fuel v.alpha v.beta 1 s hgs htt hfs
            (fun hA => hw01 hA h1)
          refine ⟨hf.1, fun al' be sa s' h hA => ?_⟩
          have := hg01 al' be sa s' h hA
          rw [hb] at this
          exact ⟨(hf.2 al' be sa s' h hA).1, this.1, fun h1' => this.2 (by omega)⟩
        · have h2 : 2 ≤ idD := by omega
          have hf := aspiration_final c L hl sl al fuel idD (by omega) fuel v.alpha v.beta 1 s hgs htt hfs
            (fun hA => by rw [hb]; exact (hw2 hA h2).1)
          refine ⟨hf.1, fun al' be sa s' h hA => ?_⟩
          have := hf.2 al' be sa s' h hA
          rw [hb] at this
          refine ⟨?_, this.2, fun _ => this.1⟩
          rw [this.1]
          rcases fsOf_cases b with e | e <;> rw [e] <;> unfold InR <;> omega
      have hasb := aspiration_aborted c L fuel idD fuel v.alpha v.beta 1 s
      generalize aspiration c L fuel idD fuel v.alpha v.beta 1 s = a at hasp hres hasb ⊢
      cases a with
      | aborted s' =>
        obtain ⟨hf, _⟩ := hasp
        simp only [Asp.st] at hf
        have hab' : s'.aborted = true := hasb s' rfl
        simp only
        split
        · intro _ hna
          simp only [setBoard_aborted] at hna
          rw [hab'] at hna; cases hna
        · intro _ hna
          simp only at hna
          rw [hab'] at hna; cases hna
      | ok al' be sample s' =>
        obtain ⟨hf, hok⟩ := hasp
        simp only [Asp.st] at hf hres
        have hb' : s'.board = b := hf.board.trans hb
        obtain ⟨htt', hokc⟩ := hres
        have hback : s'.nmpOut = false → s.nmpOut = false := fun h => hf.mono.a_back h
        have hokc' := fun hA => hokc al' be sample s' rfl hA
        have hact : s'.pv.active = s'.pv.row 0 := rfl
        simp only [hact]
        split
        · next hsa' =>
          intro hA _
          have hA' : s'.nmpOut = false := hA
          exfalso; apply hsa'.1
          rw [(hokc' hA').2.1]
          exact hmv (hback hA')
        · have hw' : wrapS8 (idD + 1) = idD + 1 := by unfold wrapS8; omega
          rw [hw']
          apply ih
          · exact hb'
          · omega
          · push_cast at hn ⊢; omega
          · exact htt'.congr rfl rfl
          · intro hA _
            show AspInv c.windowSize (wrapS16 (sample - c.windowSize)) (wrapS16 (sample + c.windowSize)) 1
            exact aspInv_first al.windowSafe (hokc' hA).1
          · intro hA h2
            have hv : sample = fsOf b := (hokc' hA).2.2 (by omega)
            refine ⟨?_, hv⟩
            show FinAsp c.windowSize (fsOf b) (wrapS16 (sample - c.windowSize)) (wrapS16 (sample + c.windowSize)) 1
            rw [hv]
            refine finAsp_first al.windowSafe ?_
            rcases fsOf_cases b with e | e
            · exact Or.inl e
            · exact Or.inr e
          · intro hA
            have hA' : s'.nmpOut = false := hA
            show pickMove (s'.pv.row 0) v.move = 0
            rw [(hokc' hA').2.1]
            exact hmv (hback hA')

/-- `go` on a final root without `GoSane`: a search that is not aborted (ghost flag down) returns the
    null move with the final value (0, or `-Inf` for a checkmated root). -/
theorem go_final_free (c : Comp σ π) (L : Limits) (clock : Clock) {Good : Board → Prop} {TTok : σ → Prop} {μ : Board → Nat}
    (hl : Laws c Good) (sl : ScoreLaws c Good TTok μ) (al : AspLaws c) (fuel : Nat) (e : Engine σ) (b : Board)
    (hg : Good b) (nodes0 : Int) (hd : 1 ≤ L.depth) (htt : TTok e.ps) (hfin : Final c.keys b)
    (hA : (go c L clock fuel e b nodes0).st.nmpOut = false)
    (hdone : (go c L clock fuel e b nodes0).st.aborted = false) :
    (go c L clock fuel e b nodes0).move = 0 ∧ FinalScore c.keys b (go c L clock fuel e b nodes0).score := by
  have h := idLoop_final c L clock hl sl al fuel b hg hfin hd 64 0
    { alpha := -Inf - 1, beta := Inf + 1, score := 0, move := 0, ponder := 0, reads := 0, ppolls := 0, out := [] }
    (goInit L e b nodes0) rfl (Int.le_refl 0) (by decide) (t0 := true) ⟨sl.tt_ok _ htt, fun _ => ⟨htt, fun h => by cases h⟩⟩
    (fun _ _ => aspInv_init) (fun _ h => absurd h (by decide)) (fun _ => rfl) hA hdone
  refine ⟨h.1, ?_⟩
  have hs : (go c L clock fuel e b nodes0).score = fsOf b := h.2
  rw [hs]; exact fsOf_final hfin

end Search
end ChessVerif
