/-
  C13 — the control invariant of the UCI transition system and `no_panic`.

  `Inv` relates the control states of the goroutines to the channel / WaitGroup state.  It is
  inductive: it holds initially and every transition preserves it (one lemma per transition, all by
  the same case analysis), hence it holds in every reachable state for every script.
-/
import ChessVerif.Spec.UciProtocol
namespace ChessVerif.Uci

/-- Handler states in which the interrupt goroutine of the current `go` may be alive. -/
def Handler.inGo : Handler → Bool
  | .search | .aborted | .closeFin | .wait => true
  | _ => false

structure Inv (s : State) : Prop where
  noPanic : s.panic = false
  inClosed_iff : s.inClosed = true ↔ s.reader = .done
  outClosed_iff : s.outClosed = true ↔ s.handler = .done
  hdone_in : s.handler = .done ∨ s.handler = .closeOut → s.inClosed = true
  wdone : s.writer = .done → s.outClosed = true ∧ s.out = []
  goWg_eq : s.goWg = if s.intr = .none then 0 else 1
  intr_alive : s.intr ≠ .none → s.handler.inGo = true ∧ s.stopClosed = false ∧ s.phClosed = false
  fin_open : s.handler = .search ∨ s.handler = .aborted ∨ s.handler = .closeFin → s.finClosed = false
  fin_closed : s.handler = .wait → s.finClosed = true
  stop_closed : s.handler.inGo = true → s.intr = .none → s.stopClosed = true
  ph_open : s.handler.busy = true ∨ s.handler = .deferClose → s.phClosed = false
  iPh_buf : s.iPh = true → s.phBuf = 0
  hit_iPh : s.intr = .hit → s.iPh = true
  runWg_eq : s.runWg = (if s.reader = .done then 0 else 1) + (if s.handler = .done then 0 else 1)
      + (if s.writer = .done then 0 else 1)
  main_ret : s.main = .returned → s.runWg = 0

theorem Inv.init (sc : List Cmd) : Inv (init sc) := by
  constructor <;> simp [Uci.init, Handler.inGo, Handler.busy]


macro "uci_inv" hf:ident : tactic => `(tactic| (
  simp only [fire, send, runDone, dispatch, intrDispatch, readerAfter] at $hf:ident
  (repeat' split at $hf:ident) <;> (try cases $hf:ident) <;>
    (constructor <;> simp_all [Handler.inGo, Handler.busy] <;> try omega)))

theorem Inv.step_envLine {s s' : State} (h : Inv s) (hf : fire .envLine s = some s') : Inv s' := by
  obtain ⟨h1,h2,h3,h4,h5,h6,h7,h8,h9,h10,h11,h12,h13,h14,h15⟩ := h
  uci_inv hf

theorem Inv.step_envEof {s s' : State} (h : Inv s) (hf : fire .envEof s = some s') : Inv s' := by
  obtain ⟨h1,h2,h3,h4,h5,h6,h7,h8,h9,h10,h11,h12,h13,h14,h15⟩ := h
  uci_inv hf

theorem Inv.step_timer {s s' : State} (h : Inv s) (hf : fire .timer s = some s') : Inv s' := by
  obtain ⟨h1,h2,h3,h4,h5,h6,h7,h8,h9,h10,h11,h12,h13,h14,h15⟩ := h
  uci_inv hf

theorem Inv.step_sInfo {s s' : State} (h : Inv s) (hf : fire .sInfo s = some s') : Inv s' := by
  obtain ⟨h1,h2,h3,h4,h5,h6,h7,h8,h9,h10,h11,h12,h13,h14,h15⟩ := h
  uci_inv hf

theorem Inv.step_sDone {s s' : State} (h : Inv s) (hf : fire .sDone s = some s') : Inv s' := by
  obtain ⟨h1,h2,h3,h4,h5,h6,h7,h8,h9,h10,h11,h12,h13,h14,h15⟩ := h
  uci_inv hf

theorem Inv.step_sAbortSelf {s s' : State} (h : Inv s) (hf : fire .sAbortSelf s = some s') : Inv s' := by
  obtain ⟨h1,h2,h3,h4,h5,h6,h7,h8,h9,h10,h11,h12,h13,h14,h15⟩ := h
  uci_inv hf

theorem Inv.step_sPollHit {s s' : State} (h : Inv s) (hf : fire .sPollHit s = some s') : Inv s' := by
  obtain ⟨h1,h2,h3,h4,h5,h6,h7,h8,h9,h10,h11,h12,h13,h14,h15⟩ := h
  uci_inv hf

theorem Inv.step_rScan {s s' : State} (h : Inv s) (hf : fire .rScan s = some s') : Inv s' := by
  obtain ⟨h1,h2,h3,h4,h5,h6,h7,h8,h9,h10,h11,h12,h13,h14,h15⟩ := h
  uci_inv hf

theorem Inv.step_rEof {s s' : State} (h : Inv s) (hf : fire .rEof s = some s') : Inv s' := by
  obtain ⟨h1,h2,h3,h4,h5,h6,h7,h8,h9,h10,h11,h12,h13,h14,h15⟩ := h
  uci_inv hf

theorem Inv.step_rSendClosed {s s' : State} (h : Inv s) (hf : fire .rSendClosed s = some s') : Inv s' := by
  obtain ⟨h1,h2,h3,h4,h5,h6,h7,h8,h9,h10,h11,h12,h13,h14,h15⟩ := h
  uci_inv hf

theorem Inv.step_rClose {s s' : State} (h : Inv s) (hf : fire .rClose s = some s') : Inv s' := by
  obtain ⟨h1,h2,h3,h4,h5,h6,h7,h8,h9,h10,h11,h12,h13,h14,h15⟩ := h
  uci_inv hf

theorem Inv.step_hRecv {s s' : State} (h : Inv s) (hf : fire .hRecv s = some s') : Inv s' := by
  obtain ⟨h1,h2,h3,h4,h5,h6,h7,h8,h9,h10,h11,h12,h13,h14,h15⟩ := h
  uci_inv hf

theorem Inv.step_hClosed {s s' : State} (h : Inv s) (hf : fire .hClosed s = some s') : Inv s' := by
  obtain ⟨h1,h2,h3,h4,h5,h6,h7,h8,h9,h10,h11,h12,h13,h14,h15⟩ := h
  uci_inv hf

theorem Inv.step_hEmit {s s' : State} (h : Inv s) (hf : fire .hEmit s = some s') : Inv s' := by
  obtain ⟨h1,h2,h3,h4,h5,h6,h7,h8,h9,h10,h11,h12,h13,h14,h15⟩ := h
  uci_inv hf

theorem Inv.step_hEmitDone {s s' : State} (h : Inv s) (hf : fire .hEmitDone s = some s') : Inv s' := by
  obtain ⟨h1,h2,h3,h4,h5,h6,h7,h8,h9,h10,h11,h12,h13,h14,h15⟩ := h
  uci_inv hf

theorem Inv.step_hReady {s s' : State} (h : Inv s) (hf : fire .hReady s = some s') : Inv s' := by
  obtain ⟨h1,h2,h3,h4,h5,h6,h7,h8,h9,h10,h11,h12,h13,h14,h15⟩ := h
  uci_inv hf

theorem Inv.step_hStop {s s' : State} (h : Inv s) (hf : fire .hStop s = some s') : Inv s' := by
  obtain ⟨h1,h2,h3,h4,h5,h6,h7,h8,h9,h10,h11,h12,h13,h14,h15⟩ := h
  uci_inv hf

theorem Inv.step_hAbortInfo {s s' : State} (h : Inv s) (hf : fire .hAbortInfo s = some s') : Inv s' := by
  obtain ⟨h1,h2,h3,h4,h5,h6,h7,h8,h9,h10,h11,h12,h13,h14,h15⟩ := h
  uci_inv hf

theorem Inv.step_hCloseFin {s s' : State} (h : Inv s) (hf : fire .hCloseFin s = some s') : Inv s' := by
  obtain ⟨h1,h2,h3,h4,h5,h6,h7,h8,h9,h10,h11,h12,h13,h14,h15⟩ := h
  uci_inv hf

theorem Inv.step_hWait {s s' : State} (h : Inv s) (hf : fire .hWait s = some s') : Inv s' := by
  obtain ⟨h1,h2,h3,h4,h5,h6,h7,h8,h9,h10,h11,h12,h13,h14,h15⟩ := h
  uci_inv hf

theorem Inv.step_hBest {s s' : State} (h : Inv s) (hf : fire .hBest s = some s') : Inv s' := by
  obtain ⟨h1,h2,h3,h4,h5,h6,h7,h8,h9,h10,h11,h12,h13,h14,h15⟩ := h
  uci_inv hf

theorem Inv.step_hDefer {s s' : State} (h : Inv s) (hf : fire .hDefer s = some s') : Inv s' := by
  obtain ⟨h1,h2,h3,h4,h5,h6,h7,h8,h9,h10,h11,h12,h13,h14,h15⟩ := h
  uci_inv hf

theorem Inv.step_hCloseOut {s s' : State} (h : Inv s) (hf : fire .hCloseOut s = some s') : Inv s' := by
  obtain ⟨h1,h2,h3,h4,h5,h6,h7,h8,h9,h10,h11,h12,h13,h14,h15⟩ := h
  uci_inv hf

theorem Inv.step_iRecv {s s' : State} (h : Inv s) (hf : fire .iRecv s = some s') : Inv s' := by
  obtain ⟨h1,h2,h3,h4,h5,h6,h7,h8,h9,h10,h11,h12,h13,h14,h15⟩ := h
  uci_inv hf

theorem Inv.step_iFin {s s' : State} (h : Inv s) (hf : fire .iFin s = some s') : Inv s' := by
  obtain ⟨h1,h2,h3,h4,h5,h6,h7,h8,h9,h10,h11,h12,h13,h14,h15⟩ := h
  uci_inv hf

theorem Inv.step_iClosed {s s' : State} (h : Inv s) (hf : fire .iClosed s = some s') : Inv s' := by
  obtain ⟨h1,h2,h3,h4,h5,h6,h7,h8,h9,h10,h11,h12,h13,h14,h15⟩ := h
  uci_inv hf

theorem Inv.step_iReady {s s' : State} (h : Inv s) (hf : fire .iReady s = some s') : Inv s' := by
  obtain ⟨h1,h2,h3,h4,h5,h6,h7,h8,h9,h10,h11,h12,h13,h14,h15⟩ := h
  uci_inv hf

theorem Inv.step_iHit {s s' : State} (h : Inv s) (hf : fire .iHit s = some s') : Inv s' := by
  obtain ⟨h1,h2,h3,h4,h5,h6,h7,h8,h9,h10,h11,h12,h13,h14,h15⟩ := h
  uci_inv hf

theorem Inv.step_iExit {s s' : State} (h : Inv s) (hf : fire .iExit s = some s') : Inv s' := by
  obtain ⟨h1,h2,h3,h4,h5,h6,h7,h8,h9,h10,h11,h12,h13,h14,h15⟩ := h
  uci_inv hf

theorem Inv.step_wRecv {s s' : State} (h : Inv s) (hf : fire .wRecv s = some s') : Inv s' := by
  obtain ⟨h1,h2,h3,h4,h5,h6,h7,h8,h9,h10,h11,h12,h13,h14,h15⟩ := h
  uci_inv hf

theorem Inv.step_wSink {s s' : State} (h : Inv s) (hf : fire .wSink s = some s') : Inv s' := by
  obtain ⟨h1,h2,h3,h4,h5,h6,h7,h8,h9,h10,h11,h12,h13,h14,h15⟩ := h
  uci_inv hf

theorem Inv.step_wDone {s s' : State} (h : Inv s) (hf : fire .wDone s = some s') : Inv s' := by
  obtain ⟨h1,h2,h3,h4,h5,h6,h7,h8,h9,h10,h11,h12,h13,h14,h15⟩ := h
  uci_inv hf

theorem Inv.step_mReturn {s s' : State} (h : Inv s) (hf : fire .mReturn s = some s') : Inv s' := by
  obtain ⟨h1,h2,h3,h4,h5,h6,h7,h8,h9,h10,h11,h12,h13,h14,h15⟩ := h
  simp only [fire] at hf
  split at hf
  · cases hf
    rename_i hg
    exact ⟨h1,h2,h3,h4,h5,h6,h7,h8,h9,h10,h11,h12,h13,h14, fun _ => hg.2⟩
  · cases hf

theorem Inv.step {s s' : State} {t : Tr} (h : Inv s) (hf : fire t s = some s') : Inv s' := by
  cases t
  · exact h.step_envLine hf
  · exact h.step_envEof hf
  · exact h.step_timer hf
  · exact h.step_sInfo hf
  · exact h.step_sDone hf
  · exact h.step_sAbortSelf hf
  · exact h.step_sPollHit hf
  · exact h.step_rScan hf
  · exact h.step_rEof hf
  · exact h.step_rSendClosed hf
  · exact h.step_rClose hf
  · exact h.step_hRecv hf
  · exact h.step_hClosed hf
  · exact h.step_hEmit hf
  · exact h.step_hEmitDone hf
  · exact h.step_hReady hf
  · exact h.step_hStop hf
  · exact h.step_hAbortInfo hf
  · exact h.step_hCloseFin hf
  · exact h.step_hWait hf
  · exact h.step_hBest hf
  · exact h.step_hDefer hf
  · exact h.step_hCloseOut hf
  · exact h.step_iRecv hf
  · exact h.step_iFin hf
  · exact h.step_iClosed hf
  · exact h.step_iReady hf
  · exact h.step_iHit hf
  · exact h.step_iExit hf
  · exact h.step_wRecv hf
  · exact h.step_wSink hf
  · exact h.step_wDone hf
  · exact h.step_mReturn hf

theorem Inv.reachable {script : List Cmd} {s : State} (h : Reachable script s) : Inv s := by
  induction h with
  | init => exact Inv.init script
  | step t _ hf ih => exact ih.step hf

end ChessVerif.Uci
