/-
  C09 closure: the domain clause `Rules.epSound` ("the recorded en-passant target belongs to a pawn that
  could really just have double-pushed") holds in EVERY position reached by a legal move from a valid
  position — rule-book level, no bitboards.  So the extra hypothesis of the checkmate half of C09 is
  automatically met by every position the engine reaches by playing moves; it only restricts what may
  be loaded from a FEN.
-/
import ChessVerif.Proofs.PlayableValidP

namespace ChessVerif.EpSoundApply
open ChessVerif Rules

/-! ### check detection reads the placement only -/

theorem inCheck_congr_men (p q : Pos) (h : p.men = q.men) (c : Color) : inCheck p c = inCheck q c := by
  cases p; cases q
  simp only at h
  subst h
  rfl

/-! ### a legal double push, spelled out -/

theorem getD_setMan (men : Vector (Option Man) 64) (s : Nat) (x : Option Man) (u : Nat) (hs : s < 64) :
    (setMan men s x).getD u none = if u = s then x else men.getD u none :=
  Bridge.getD_setMan men s u x hs

/-- the facts a pseudo-legal double push provides. -/
structure DPFacts (p : Pos) (mv : Mv) : Prop where
  src64 : mv.src < 64
  dst64 : mv.dst < 64
  pawn : p.at_ mv.src = some (p.turn, Piece.pawn)
  promo : mv.promo = none
  file : file mv.dst = file mv.src
  rank : rank mv.dst = rank mv.src + 2 * up p.turn
  dstEmpty : p.at_ mv.dst = none

theorem dpFacts (p : Pos) (mv : Mv) (hpl : pseudoLegal p mv = true) (hdp : isDoublePush p mv = true) :
    DPFacts p mv := by
  unfold isDoublePush at hdp
  rw [Bool.and_eq_true] at hdp
  obtain ⟨hpawn, hr2⟩ := hdp
  have hat : p.at_ mv.src = some (p.turn, Piece.pawn) := by
    unfold Pos.has at hpawn; exact eq_of_beq hpawn
  unfold pseudoLegal at hpl
  simp only [hat, Bool.and_eq_true, decide_eq_true_eq] at hpl
  obtain ⟨⟨hs, hd⟩, ⟨_, _⟩, hpo, hmv⟩ := hpl
  have hr2' : (rank mv.dst - rank mv.src).natAbs = 2 := by simpa using hr2
  have hup : up p.turn = 1 ∨ up p.turn = -1 := by unfold up; cases p.turn <;> simp
  -- only the double-advance branch has a rank difference of two
  have hbranch : (file mv.dst - file mv.src == 0 && rank mv.dst - rank mv.src == 2 * up p.turn &&
      rank mv.src == homeRank p.turn + up p.turn && p.empty mv.dst && (between mv.src mv.dst).all p.empty) = true := by
    rw [Bool.or_eq_true, Bool.or_eq_true] at hmv
    rcases hmv with h | h
    · rcases h with h | h
      · exfalso
        simp only [Bool.and_eq_true, beq_iff_eq] at h
        omega
      · exact h
    · exfalso
      simp only [Bool.and_eq_true, beq_iff_eq] at h
      omega
  simp only [Bool.and_eq_true, beq_iff_eq] at hbranch
  obtain ⟨⟨⟨⟨hf, hr⟩, hhome⟩, hemp⟩, _⟩ := hbranch
  have hlast : rank mv.dst ≠ lastRank p.turn := by
    unfold lastRank homeRank up at *
    cases hc : p.turn <;> simp only [hc] at * <;> omega
  have hpromo : mv.promo = none := by
    have : (rank mv.dst == lastRank p.turn) = false := by rw [beq_eq_false_iff_ne]; exact hlast
    simp only [this, Bool.false_eq_true, if_false] at hpo
    exact Option.isNone_iff_eq_none.1 hpo
  refine ⟨hs, hd, hat, hpromo, by omega, by omega, ?_⟩
  unfold Pos.empty at hemp
  exact Option.isNone_iff_eq_none.1 hemp

/-! ### the theorem -/

theorem isEnPassant_false_of_file {p : Pos} {mv : Mv} (h : file mv.dst = file mv.src) : isEnPassant p mv = false := by
  unfold isEnPassant
  have : decide (file mv.src ≠ file mv.dst) = false := by
    rw [decide_eq_false_iff_not]; intro hne; exact hne h.symm
  simp [this]

theorem isCastling_false_of_pawn {p : Pos} {mv : Mv} (h : p.at_ mv.src = some (p.turn, Piece.pawn)) :
    isCastling p mv = false := by
  unfold isCastling Pos.has
  rw [h]
  have : (some (p.turn, Piece.pawn) == some (p.turn, Piece.king)) = false := by
    rw [beq_eq_false_iff_ne]; intro e; simp at e
  rw [this, Bool.false_and]

/-- the placement after a double push with the pawn put back is the placement before the push. -/
theorem men_restore (p : Pos) (mv : Mv) (f : DPFacts p mv) :
    setMan (setMan (applyCore p mv).men mv.dst none) mv.src (some (p.turn, Piece.pawn)) = p.men := by
  have hmen : (applyCore p mv).men = setMan (setMan p.men mv.src none) mv.dst (p.at_ mv.src) := by
    unfold applyCore
    simp only [isEnPassant_false_of_file f.file, isCastling_false_of_pawn f.pawn, f.promo, Bool.false_eq_true, if_false]
  rw [hmen]
  apply Vector.ext
  intro i hi
  have key : ∀ (v : Vector (Option Man) 64), v[i] = v.getD i none := by
    intro v; simp [Vector.getD, hi]
  rw [key, key, getD_setMan _ _ _ _ f.src64, getD_setMan _ _ _ _ f.dst64, getD_setMan _ _ _ _ f.dst64,
    getD_setMan _ _ _ _ f.src64]
  by_cases h1 : i = mv.src
  · simp only [h1, if_true]
    have := f.pawn; unfold Pos.at_ at this; exact this.symm
  · simp only [h1, if_false]
    by_cases h2 : i = mv.dst
    · simp only [h2, if_true]
      have := f.dstEmpty; unfold Pos.at_ at this; exact this.symm
    · simp only [h2, if_false]

theorem epSound_applyCore (p : Pos) (mv : Mv) (hv : valid p = true) (hl : legal p mv = true) :
    epSound (applyCore p mv) = true := by
  have hV := (Playable.validP_iff p).1 hv
  unfold legal at hl
  rw [Bool.and_eq_true] at hl
  obtain ⟨hpl, _⟩ := hl
  unfold epSound
  have hep : (applyCore p mv).ep = if isDoublePush p mv then some ((mv.src + mv.dst) / 2) else none := rfl
  cases hdp : isDoublePush p mv with
  | false => simp only [hep, hdp, Bool.false_eq_true, if_false]
  | true =>
    have f := dpFacts p mv hpl hdp
    simp only [hep, hdp, if_true]
    have hturn : (applyCore p mv).turn = p.turn.flip := rfl
    have hflip : p.turn.flip.flip = p.turn := by cases p.turn <;> rfl
    rw [hturn, hflip]
    have hup : up p.turn = 1 ∨ up p.turn = -1 := by unfold up; cases p.turn <;> simp
    have hfile := f.file; have hrank := f.rank
    have hs := f.src64; have hd := f.dst64
    unfold file at hfile
    unfold rank at hrank
    -- the target square, the square in front of it (= destination) and behind it (= origin)
    have ht : file ((mv.src + mv.dst) / 2) = file mv.src ∧ rank ((mv.src + mv.dst) / 2) = rank mv.src + up p.turn := by
      unfold file rank; omega
    have hfront : square? (file ((mv.src + mv.dst) / 2)) (rank ((mv.src + mv.dst) / 2) + up p.turn) = some mv.dst := by
      rw [ht.1, ht.2]; unfold square? file rank
      rw [if_pos (by omega)]; congr 1; omega
    have hback : square? (file ((mv.src + mv.dst) / 2)) (rank ((mv.src + mv.dst) / 2) - up p.turn) = some mv.src := by
      rw [ht.1, ht.2]; unfold square? file rank
      rw [if_pos (by omega)]; congr 1; omega
    simp only [hfront, hback]
    rw [men_restore p mv f]
    have hc := inCheck_congr_men ⟨p.men, p.turn.flip, (applyCore p mv).rights, none, (applyCore p mv).halfmove,
      (applyCore p mv).fullmove⟩ p rfl p.turn.flip
    rw [hc, hV.safe]
    rfl

/-- **`epSound` is established by every legal move from a valid position** (under the engine's
    convention `Rules.apply`, which erases a target nobody can capture, and under `applyCore`). -/
theorem epSound_apply (p : Pos) (mv : Mv) (hv : valid p = true) (hl : legal p mv = true) :
    epSound (apply p mv) = true := by
  unfold apply
  by_cases h : (legalEpCaptures (applyCore p mv)).isEmpty = true
  · simp only [h, if_true]; rfl
  · simp only [h, if_false]; exact epSound_applyCore p mv hv hl

end ChessVerif.EpSoundApply
